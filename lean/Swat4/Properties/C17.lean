import Swat4.Lemmas.FactsExtra17
import Swat4.Lemmas.Rest
import Swat4.Lemmas.RestBody
import Swat4.Lemmas.RestSlug
import Swat4.Lemmas.Styles
import Swat4.Lemmas.Clean
import Swat4.Model.Rest
import Swat4.Model.Styles
import Swat4.Spec.RestSpec
import Swat4.Gen.Facts
import Swat4.Lemmas.RestBridge
/-!
# C17 — REST API validates addresses, never 5xx on input, emits inert HTML

Property theorems only.  `Rest.*` / `Styles.*` are the models of the Go code, `RestSpec.*` the
reference definitions written independently of them.
-/
namespace Swat4.C17
open Swat4 Swat4.Rest

/-! ## addresses -/

/-- **Accepted ⇒ routable.**  If `addr.New` followed by `addr.NewPublicAddr` accepts four bytes and
a port, the address is in none of the classes the property excludes (ranges written from the RFCs,
independently of Go's mask tests), the port is in `1..65535`, and the address handed on is exactly
the one given.  Over all 2³² addresses, by reasoning on the four bytes. -/
theorem accepted_is_routable (ip : IP4) (port : Int) (a : Rest.Addr) (h : publicAddr ip port = .ok a) :
    RestSpec.loopback (toQuad ip) = false ∧ RestSpec.rfc1918 (toQuad ip) = false ∧
    RestSpec.linkLocal (toQuad ip) = false ∧ RestSpec.multicast (toQuad ip) = false ∧
    RestSpec.unspecified (toQuad ip) = false ∧ RestSpec.broadcast (toQuad ip) = false ∧
    1 ≤ port ∧ port ≤ 65535 ∧ a = ⟨ip, port⟩ := by
  obtain ⟨hr, hp, ha⟩ := (publicAddr_ok_iff ip port a).mp h
  simp only [RestSpec.routable, RestSpec.validPort, Bool.and_eq_true, Bool.not_eq_true', decide_eq_true_eq] at hr hp
  obtain ⟨⟨⟨⟨⟨h1, h2⟩, h3⟩, h4⟩, h5⟩, h6⟩ := hr
  exact ⟨h1, h2, h3, h4, h5, h6, hp.1, hp.2, ha⟩

/-- **Routable ⇒ accepted**: Go rejects nothing beyond the excluded classes.  In particular
`0.x.y.z` (other than `0.0.0.0`) and `240.0.0.0/4` below broadcast are accepted: they are global
unicast by Go's definition and in none of the classes the property lists (they are reserved by
IANA but the property does not exclude them). -/
theorem routable_is_accepted (ip : IP4) (port : Int)
    (hr : RestSpec.routable (toQuad ip) = true) (hp : RestSpec.validPort port = true) :
    publicAddr ip port = .ok ⟨ip, port⟩ :=
  (publicAddr_ok_iff ip port ⟨ip, port⟩).mpr ⟨hr, hp, rfl⟩

/-- the two together: acceptance is exactly "routable by the RFC ranges and port in 1..65535" -/
theorem accepted_iff_routable (ip : IP4) (port : Int) :
    (∃ a, publicAddr ip port = .ok a) ↔
      (RestSpec.routable (toQuad ip) = true ∧ RestSpec.validPort port = true) := by
  constructor
  · rintro ⟨a, h⟩
    have := (publicAddr_ok_iff ip port a).mp h
    exact ⟨this.1, this.2.1⟩
  · rintro ⟨hr, hp⟩
    exact ⟨_, routable_is_accepted ip port hr hp⟩

/-- non-vacuity: a public address is accepted; the reserved ranges Go lets through; the
boundaries of the excluded ranges -/
example : publicAddr ⟨1, 1, 1, 1⟩ 10480 = .ok ⟨⟨1, 1, 1, 1⟩, 10480⟩ := by rfl
example : publicAddr ⟨0, 0, 0, 1⟩ 80 = .ok ⟨⟨0, 0, 0, 1⟩, 80⟩ := by rfl
example : publicAddr ⟨240, 0, 0, 1⟩ 80 = .ok ⟨⟨240, 0, 0, 1⟩, 80⟩ := by rfl
example : publicAddr ⟨255, 255, 255, 254⟩ 65535 = .ok ⟨⟨255, 255, 255, 254⟩, 65535⟩ := by rfl
example : publicAddr ⟨172, 31, 255, 255⟩ 80 = .error .invalidPublicIP := by rfl
example : publicAddr ⟨172, 32, 0, 0⟩ 80 = .ok ⟨⟨172, 32, 0, 0⟩, 80⟩ := by rfl
example : publicAddr ⟨127, 0, 0, 1⟩ 80 = .error .invalidPublicIP := by rfl
example : publicAddr ⟨224, 0, 0, 1⟩ 80 = .error .invalidIP := by rfl
example : publicAddr ⟨1, 1, 1, 1⟩ 65536 = .error .invalidPort := by rfl

/-! ## status tables -/

/-- **`POST /api/servers`, request given as four bytes and a port.**  The status is the row of the
statement's table selected by (routable ∧ port in 1025..65535, registry state); it is one of
400/202/410/200, below 500; a 400 leaves store and queue alone; every store effect names exactly
the requested address. -/
theorem add_table (ip : IP4) (port : Int) (st : SrvState) :
    (addServerIP ip port st).status =
        RestSpec.addTable (RestSpec.routable (toQuad ip) && RestSpec.validSubmitPort port) (knownOf st) ∧
    (addServerIP ip port st).status ∈ RestSpec.addStatuses ∧
    (addServerIP ip port st).status < 500 ∧
    ((addServerIP ip port st).status = 400 → (addServerIP ip port st).effect = .none) ∧
    (∀ c a q w, (addServerIP ip port st).effect = .discover c a q w → a = ⟨ip, port⟩) := by
  have hsub : (port == 0 || port < portMin || port > portMax) = !RestSpec.validSubmitPort port := by
    unfold portMin portMax RestSpec.validSubmitPort
    rw [Bool.eq_iff_iff]
    simp
    omega
  unfold addServerIP
  cases hv : RestSpec.validSubmitPort port with
  | false =>
    simp [hsub, hv, badRequest, RestSpec.addTable, RestSpec.addStatuses]
  | true =>
    have hvp : RestSpec.validPort port = true := by
      simp [RestSpec.validSubmitPort, RestSpec.validPort] at hv ⊢
      omega
    simp only [hsub, hv, Bool.not_true, Bool.false_eq_true, if_false, Bool.and_true]
    rcases publicAddr_cases ip port with ⟨hr, hok⟩ | ⟨hr, e, herr⟩
    · rw [hvp, Bool.and_true] at hr
      rw [hok, hr]
      have := addExecute_status ⟨ip, port⟩ st
      refine ⟨this.1, ?_, ?_, ?_, this.2.2⟩
      · rw [this.1]; unfold RestSpec.addTable RestSpec.addStatuses
        simp only [Bool.not_true, Bool.false_eq_true, if_false]
        (repeat' split) <;> simp
      · rw [this.1]; unfold RestSpec.addTable
        simp only [Bool.not_true, Bool.false_eq_true, if_false]
        (repeat' split) <;> simp
      · intro h; exact absurd h this.2.1
    · rw [hvp, Bool.and_true] at hr
      rw [herr, hr]
      simp [badRequest, RestSpec.addTable, RestSpec.addStatuses]

/-- non-vacuity of every row: fresh address, details, pending, no port, other -/
example : (addServerIP ⟨1, 1, 1, 1⟩ 10480 .absent).status = 202 := by rfl
example : (addServerIP ⟨1, 1, 1, 1⟩ 65535 .absent).effect = .discover true ⟨⟨1, 1, 1, 1⟩, 65535⟩ 65535 128 := by rfl
example : (addServerIP ⟨1, 1, 1, 1⟩ 10480 (.present 8 10481 (hostRec []))).status = 200 := by rfl
example : (addServerIP ⟨1, 1, 1, 1⟩ 10480 (.present 128 10481 (hostRec []))).status = 202 := by rfl
example : (addServerIP ⟨1, 1, 1, 1⟩ 10480 (.present 256 10481 (hostRec []))).status = 410 := by rfl
example : (addServerIP ⟨1, 1, 1, 1⟩ 10480 (.present 1 10481 (hostRec []))).effect = .discover false ⟨⟨1, 1, 1, 1⟩, 10480⟩ 10481 128 := by rfl
example : (addServerIP ⟨10, 0, 0, 1⟩ 10480 .absent).status = 400 := by rfl
example : (addServerIP ⟨1, 1, 1, 1⟩ 1024 .absent).status = 400 := by rfl

/-- **`GET /api/servers/:address`, address parsed to four bytes and a port.**  Status = the row of
the table selected by (routable ∧ port in 1..65535, registry state), one of 400/404/204/200, and
the store is never touched. -/
theorem view_table (ip : IP4) (port : Int) (st : SrvState) :
    (viewServerIP ip port st).status =
        RestSpec.viewTable (RestSpec.routable (toQuad ip) && RestSpec.validPort port) (knownOf st) ∧
    (viewServerIP ip port st).status ∈ RestSpec.viewStatuses ∧
    (viewServerIP ip port st).status < 500 ∧
    (viewServerIP ip port st).effect = .none := by
  unfold viewServerIP
  rcases publicAddr_cases ip port with ⟨hr, hok⟩ | ⟨hr, e, herr⟩
  · rw [hok, hr]
    have := viewExecute_status st
    refine ⟨this.1, ?_, ?_, this.2.2⟩
    · rw [this.1]; unfold RestSpec.viewTable RestSpec.viewStatuses
      simp only [Bool.not_true, Bool.false_eq_true, if_false]
      (repeat' split) <;> simp
    · rw [this.1]; unfold RestSpec.viewTable
      simp only [Bool.not_true, Bool.false_eq_true, if_false]
      (repeat' split) <;> simp
  · rw [herr, hr]
    simp [badRequest, RestSpec.viewTable, RestSpec.viewStatuses]

example : (viewServerIP ⟨1, 1, 1, 1⟩ 10480 .absent).status = 404 := by rfl
example : (viewServerIP ⟨1, 1, 1, 1⟩ 10480 (.present 4 10481 (hostRec []))).status = 204 := by rfl
example : (viewServerIP ⟨1, 1, 1, 1⟩ 10480 (.present 8 10481 (hostRec []))).status = 200 := by rfl
example : (viewServerIP ⟨192, 168, 0, 1⟩ 10480 (.present 8 10481 (hostRec []))).status = 400 := by rfl

/-- **Nothing is stored or queued for an excluded address.**  For an address in any of the
excluded classes both handlers answer 400 and leave registry and probe queue unchanged, whatever
the port and whatever is stored under that address. -/
theorem never_private_stored (ip : IP4) (port : Int) (st : SrvState)
    (h : RestSpec.routable (toQuad ip) = false) :
    (addServerIP ip port st).status = 400 ∧ (addServerIP ip port st).effect = .none ∧
    (viewServerIP ip port st).status = 400 ∧ (viewServerIP ip port st).effect = .none := by
  have ha := add_table ip port st
  have hv := view_table ip port st
  rw [h] at ha hv
  have h400 : (addServerIP ip port st).status = 400 := by rw [ha.1]; simp [RestSpec.addTable]
  exact ⟨h400, ha.2.2.2.1 h400, by rw [hv.1]; simp [RestSpec.viewTable], hv.2.2.2⟩

example : RestSpec.routable (toQuad ⟨169, 254, 1, 1⟩) = false := by decide

/-! ## the same, from the raw request -/

/-- a JSON body whose `ip` is a dotted quad is handled as `addServerIP` of its four bytes -/
theorem add_body_quad (s : Bytes) (p : Int) (ip : IP4) (st : SrvState) (hs : parseIP s = .ok ip) :
    addServer (.obj (.str s) (.int p)) st = some (addServerIP ip p st) := by
  have hne : s.isEmpty = false := by
    cases s with
    | nil => simp [parseIP, firstSep] at hs
    | cons _ _ => rfl
  unfold addServer parseAddRequest addServerIP
  by_cases hg : (p == 0 || p < portMin || p > portMax) = true
  · have : (s.isEmpty || p == 0 || p < portMin || p > portMax) = true := by
      simpa [hne, Bool.or_assoc] using hg
    simp only [this, hg, if_true]
  · have : ¬ (s.isEmpty || p == 0 || p < portMin || p > portMax) = true := by
      simpa [hne, Bool.or_assoc] using hg
    simp only [this, hg, hs]
    unfold publicAddr
    cases addrNew (some ip) p with
    | error e => simp [Rest.ofExcept, andThenPublic]
    | ok a =>
      cases hn : newPublicAddr a <;> simp [Rest.ofExcept, andThenPublic, hn]

/-- **`POST /api/servers`, any decoded body** (syntax errors, wrong types, missing members, any
string as `ip`): whenever the model answers, the status is in the table and below 500, a 400
leaves the store alone, and whatever is stored or queued names a routable address with a port in
1025..65535. -/
theorem add_body_table (body : Body) (st : SrvState) (r : Resp) (h : addServer body st = some r) :
    r.status ∈ RestSpec.addStatuses ∧ r.status < 500 ∧ (r.status = 400 → r.effect = .none) ∧
    (∀ c a q w, r.effect = .discover c a q w →
      RestSpec.routable (toQuad a.ip) = true ∧ RestSpec.validSubmitPort a.port = true) := by
  have hbad : badRequest.status ∈ RestSpec.addStatuses ∧ badRequest.status < 500 ∧
      (badRequest.status = 400 → badRequest.effect = .none) ∧
      (∀ c a q w, badRequest.effect = .discover c a q w →
        RestSpec.routable (toQuad a.ip) = true ∧ RestSpec.validSubmitPort a.port = true) := by
    simp [badRequest, RestSpec.addStatuses]
  have hquad : ∀ ip p, r = addServerIP ip p st →
      r.status ∈ RestSpec.addStatuses ∧ r.status < 500 ∧ (r.status = 400 → r.effect = .none) ∧
      (∀ c a q w, r.effect = .discover c a q w →
        RestSpec.routable (toQuad a.ip) = true ∧ RestSpec.validSubmitPort a.port = true) := by
    intro ip p hr
    have ht := add_table ip p st
    rw [← hr] at ht
    refine ⟨ht.2.1, ht.2.2.1, ht.2.2.2.1, ?_⟩
    intro c a q w he
    have ha := ht.2.2.2.2 c a q w he
    subst ha
    -- an effect means the status is not 400, so the table's `valid` flag is true
    have hne : r.status ≠ 400 := by
      intro h4; rw [ht.2.2.2.1 h4] at he; cases he
    rw [ht.1] at hne
    cases hv : (RestSpec.routable (toQuad ip) && RestSpec.validSubmitPort p) with
    | false => rw [hv] at hne; simp [RestSpec.addTable] at hne
    | true => simpa using hv
  cases body with
  | bad => simp [addServer, parseAddRequest] at h; subst h; exact hbad
  | obj ipf pf =>
    cases ipf with
    | str s =>
      cases pf with
      | int p =>
        cases hp : parseIP s with
        | ok ip =>
          rw [add_body_quad s p ip st hp] at h
          exact hquad ip p (Option.some.inj h).symm
        | bad =>
          have hpar : parseAddRequest (.obj (.str s) (.int p)) = .err .invalidIP := by
            simp only [parseAddRequest, hp]; split <;> rfl
          simp only [addServer, hpar] at h; cases h; exact hbad
        | v6 =>
          have hpar : parseAddRequest (.obj (.str s) (.int p)) = .err .invalidIP ∨
              parseAddRequest (.obj (.str s) (.int p)) = .unmodelled := by
            simp only [parseAddRequest, hp]; split <;> simp
          rcases hpar with h' | h' <;> simp only [addServer, h'] at h <;> cases h
          exact hbad
      | _ => simp [addServer, parseAddRequest] at h; subst h; exact hbad
    | _ => simp [addServer, parseAddRequest] at h; subst h; exact hbad

/-- **`GET /api/servers/:address`, any address string.**  The model answers every string (the IP
part is cut at the first `:`, so Go's IPv6 parser is never reached); the status is in the table
and below 500; the store is never touched; a string `addr.NewFromString` rejects gets 400, an
accepted one is handled as `viewServerIP` of its bytes and port. -/
theorem view_string_table (s : Bytes) (st : SrvState) :
    ∃ r, viewServer s st = some r ∧ r.status ∈ RestSpec.viewStatuses ∧ r.status < 500 ∧ r.effect = .none ∧
      ((∃ e, addrFromString s = .err e ∧ r = badRequest) ∨
       (∃ a, addrFromString s = .ok a ∧ r = viewServerIP a.ip a.port st)) := by
  rcases addrFromString_cases s with ⟨e, he⟩ | ⟨a, ha, hnew⟩
  · refine ⟨badRequest, ?_, ?_, ?_, rfl, .inl ⟨e, he, rfl⟩⟩
    · simp [viewServer, he, andThenPublic]
    · simp [badRequest, RestSpec.viewStatuses]
    · simp [badRequest]
  · have hv : viewServer s st = some (viewServerIP a.ip a.port st) := by
      unfold viewServer viewServerIP publicAddr
      rw [ha, hnew]
      simp only [andThenPublic]
      cases hn : newPublicAddr a <;> simp [Rest.ofExcept]
    have ht := view_table a.ip a.port st
    exact ⟨_, hv, ht.2.1, ht.2.2.1, ht.2.2.2, .inr ⟨a, ha, rfl⟩⟩

/-- non-vacuity: strings of each kind (`+` sign and leading zeros are `Atoi`'s leniency) -/
example : addrFromString (Bytes.ofAscii "1.1.1.1:10480") = .ok ⟨⟨1, 1, 1, 1⟩, 10480⟩ := by decide
example : addrFromString (Bytes.ofAscii "1.1.1.1:+010480") = .ok ⟨⟨1, 1, 1, 1⟩, 10480⟩ := by decide
example : addrFromString (Bytes.ofAscii "01.1.1.1:10480") = .err .invalidIP := by decide
example : addrFromString (Bytes.ofAscii "1.1.1.1:65536") = .err .invalidPort := by decide
example : addrFromString (Bytes.ofAscii "::ffff:1.1.1.1:80") = .err .invalidIP := by decide
example : andThenPublic (addrFromString (Bytes.ofAscii "10.1.1.1:10480")) = .err .invalidPublicIP := by decide

/-! ## markup -/

/-- **`hostname_html` is inert for every hostname.**  For every sequence of Unicode scalar values
(`List Char`: this is the valid-UTF-8 hypothesis — heartbeat values pass `bytes.ToValidUTF8`, probe
values are latin-1 decoded) the reference tokenizer accepts `ToHTML`'s output: it consists only of
`<span style="color:#HHHHHH;">`, `</span>`, the five entities of `html.EscapeString`, and characters
other than `<`, `>`, `&`, `"`, `'`.  Any length, any nesting of brackets.

Route: after escaping the text is a sequence of plain characters and entities (`escape_inert`);
brackets are plain and occur in no tag or entity, so a text can be cut at any bracket
(`cut_at_bracket`); passes 1 and 3 delete stretches `[ … ]` (`m1_spec`, `m3_spec`), pass 2 rewrites
`[c?HHHHHH]text` up to the next `[` into tag + text + tag (`m2_spec`).  Balance of spans is not
claimed: `[c=[c=ff0000]ab]cd` ↦ `cd</span>` (pass 3 deletes an opening tag whose text contains `]`). -/
theorem toHTML_inert (h : List Char) : RestSpec.Inert (Styles.toHTML h) = true :=
  Styles.inert_of_inertp _ (Styles.toHTML_inertp h)

/-- non-vacuity: the repaired defect, the unbalanced case, and a text the tokenizer rejects -/
example : Styles.toHTML "[c=ff0000]<script>alert(1)</script>".toList =
    "<span style=\"color:#ff0000;\">&lt;script&gt;alert(1)&lt;/script&gt;</span>".toList := by decide
example : Styles.toHTML "[c=[c=ff0000]ab]cd".toList = "cd</span>".toList := by decide
example : Styles.toHTML "[b]a[\\U]\"[C=00ff7F]x[\\c]&".toList =
    "a&#34;<span style=\"color:#00ff7F;\">x</span>&amp;".toList := by decide
example : RestSpec.Inert "<span style=\"color:#ff0000;\"><script>".toList = false := by decide
example : RestSpec.Inert "a&b".toList = false := by decide
example : RestSpec.Inert "<span style=\"color:#ff000;\">".toList = false := by decide

/-- **The loop of `Clean` terminates within the model's fuel** (`length + 1` rounds): every round
that finds a match deletes at least one stretch `[ … ]`, so the text gets strictly shorter
(`delAll_length_lt`); the loop therefore leaves through the "no match" exit, never by exhaustion. -/
theorem clean_loop_terminates (h : List Char) :
    Styles.hasMatch Styles.mC (Styles.cleanLoop (h.length + 1) h) = false :=
  Styles.cleanLoop_noMatch (h.length + 1) h (by omega)

/-- **`hostname_plain` contains no SWAT style code**, for every hostname: nowhere in `Clean`'s
output does a code of the reference definition start (`[c]`, `[\c]`, `[/u]`, `[B]`, … or `[c` + a
non-word character + bracket-free text + `]`) — the loop ends without a match, the scanner finds
every such code, and trimming white space at the ends cannot create one. -/
theorem clean_no_codes (h : List Char) : RestSpec.NoCodes (Styles.clean h) = true :=
  Styles.clean_noCodes h

/-- non-vacuity: codes are removed repeatedly (removal can expose a new code), text is kept, and
`NoCodes` rejects texts with codes -/
example : Styles.clean "[c=FF[u]003[\\u]0][u]Serge[b][c=FF00]".toList = "Serge".toList := by decide
example : Styles.clean " [c=ff0000]<script> [\\c] ".toList = "<script>".toList := by decide
example : Styles.clean "[c]abc]".toList = "abc]".toList := by decide
example : RestSpec.NoCodes "a[c=ff0000]b".toList = false := by decide
example : RestSpec.NoCodes "[\\U]".toList = false := by decide
example : RestSpec.NoCodes "[i]x[c".toList = true := by decide

/-! ## the body of a 200 ("200 with the stored data")

**What the model covers.**  `Resp.body` carries the whole server data of the answer:
`POST /api/servers` answers 200 with a `model.Server` (`servers_add.go:48`; `RespBody.server`),
`GET /api/servers/:address` with a `model.ServerDetail` (`servers_view.go:50`; `RespBody.detail`:
`info` = that `model.Server`, `players`, `objectives`), `GET /api/servers` with `[]model.Server`
(`servers_list.go:58-62`; `RespBody.list`).  `Rest.ServerJson`, `PlayerJson`, `ObjectiveJson`,
`ServerDetailJson` mirror the Go structs of `/repo/internal/rest/model/server.go` member by member,
`serverJsonOf` / `playerJsonOf` / `objectiveJsonOf` / `serverDetailJsonOf` the four constructors line
by line, `ServerJson.members` etc. what `encoding/json` writes (tags in field order, pinned in
`facts_json_ok`).  The harness returns the whole body as one canonical token
(`harness/internal/c17/canon.go`: every member in document order, so an added, dropped, renamed or
reordered member shows), the driver compares it with the model's rendering member by member and
checks it against the planted record through `RestSpec.serverWants` / `playerWants` /
`objectiveWants` (`Drv/C17.lean`, `bodyOracle`).  `body = none` means: the answer carries no server
data — it is empty, or it is the `{"error":"Invalid server address"}` of a 400 (compared by the driver
as a literal, `Drv.C17.errorBody`).

**Modelled subset of the derived members.**  `gametype_slug`, `mapname_slug`, `coop_status_slug`,
`status_slug` are `slug.Make` of a string; `Slug.make` reproduces it for strings over ASCII, Latin-1
(U+0080..U+00FF, `unidecode`'s table copied), the five code points of `defaultSub` beyond Latin-1 and
code points ≥ U+10000 (dropped); for any other string the member is `none` (rendered `?`, not
compared; the oracle still requires the shape of a slug).  `slug_facts_ok` ties the model to the
library's behaviour character by character.

Also outside the model (assumption "storage is healthy"): `getserver.ErrUnableToObtainServer`
(`getserver.go:39`, any repository error other than not-found) has no case in the switch of
`servers_view.go:30-47`, which has no default; the handler then writes nothing and gin answers with
its default status 200 and an empty body — a 200 without the stored data.  (`servers_add.go:33-45`
maps every error `addserver.Execute` returns.) -/

/-- `r` is the model's answer to some `GET /api/servers/:address` when the record addressed is in
state `st`: at use-case level, for an address given as four bytes and a port, or for any address
string the model parses (it parses all of them, `view_string_table`) -/
def ViewAnswer (st : SrvState) (r : Resp) : Prop :=
  r = viewExecute st ∨ (∃ ip port, r = viewServerIP ip port st) ∨ (∃ address, viewServer address st = some r)

/-- the same for `POST /api/servers`: use-case level for any validated address, four bytes and a
port, any decoded JSON body the model answers -/
def AddAnswer (st : SrvState) (r : Resp) : Prop :=
  (∃ a, r = addExecute a st) ∨ (∃ ip port, r = addServerIP ip port st) ∨ (∃ body, addServer body st = some r)

/-- **The data of a 200 is the stored data, and only a 200 has data** (the two hostname members;
`StoredDetail` / `StoredServer` below say the same of the whole body).  If the status is 200 the
addressed record exists, its status word has the details bit (8), `hostname_html` is
`Styles.toHTML` and `hostname_plain` is `Styles.clean` of the hostname stored in that record
(`rec.info.hostname`: `server.Server.Info.Hostname`), and nothing is stored or queued; if the status
is anything else the answer carries no server data. -/
def StoredBody (st : SrvState) (r : Resp) : Prop :=
  (r.status = 200 →
    ∃ w qp rec, st = .present w qp rec ∧ w &&& 8 ≠ 0 ∧
      r.hostnames = some (Styles.toHTML rec.info.hostname, Styles.clean rec.info.hostname) ∧ r.effect = .none) ∧
  (r.status ≠ 200 → r.body = none)

/-- the whole body of a `GET /api/servers/:address`: a 200 comes from a stored record with the
details bit and its body is the `model.ServerDetail` made from exactly that record; nothing is
stored or queued; any other status carries no server data -/
def StoredDetail (st : SrvState) (r : Resp) : Prop :=
  (r.status = 200 →
    ∃ w qp rec, st = .present w qp rec ∧ w &&& 8 ≠ 0 ∧
      r.body = some (.detail (serverDetailJsonOf rec)) ∧ r.effect = .none) ∧
  (r.status ≠ 200 → r.body = none)

/-- the same for `POST /api/servers` with `model.Server` -/
def StoredServer (st : SrvState) (r : Resp) : Prop :=
  (r.status = 200 →
    ∃ w qp rec, st = .present w qp rec ∧ w &&& 8 ≠ 0 ∧
      r.body = some (.server (serverJsonOf rec)) ∧ r.effect = .none) ∧
  (r.status ≠ 200 → r.body = none)

/-- **"200 with the stored data", every member, `GET`** — for every route of the model
(`viewExecute st`, `viewServerIP ip port st`, `viewServer address st = some r`): the body of a 200 is
`serverDetailJsonOf` of the record stored under the address (`info`, `players`, `objectives`; what
each member is: `server_members`, `player_members`, `objective_members`, `detail_members`); a 204, 404
or 400 carries no server data. -/
theorem view_body_full (st : SrvState) (r : Resp) (hr : ViewAnswer st r) : StoredDetail st r := by
  have hbad : StoredDetail st badRequest := by simp [StoredDetail, badRequest]
  have hex : StoredDetail st (viewExecute st) := viewExecute_full st
  rcases hr with rfl | ⟨ip, port, rfl⟩ | ⟨address, h⟩
  · exact hex
  · unfold viewServerIP
    cases publicAddr ip port with
    | ok a => exact hex
    | error e => exact hbad
  · unfold viewServer at h
    split at h
    · cases h; exact hex
    · cases h; exact hbad
    · cases h

/-- **"200 with the stored data", every member, `POST`** — for every route of the model
(`addExecute a st`, `addServerIP ip port st`, `addServer body st = some r`): the body of a 200 is
`serverJsonOf` of the record stored under the address and nothing is stored or queued; a 202, 410
or 400 carries no server data. -/
theorem add_body_full (st : SrvState) (r : Resp) (hr : AddAnswer st r) : StoredServer st r := by
  have hbad : StoredServer st badRequest := by simp [StoredServer, badRequest]
  have hex : ∀ a, StoredServer st (addExecute a st) := fun a => addExecute_full a st
  rcases hr with ⟨a, rfl⟩ | ⟨ip, port, rfl⟩ | ⟨body, h⟩
  · exact hex a
  · unfold addServerIP
    split
    · exact hbad
    · cases publicAddr ip port with
      | ok a => exact hex a
      | error e => exact hbad
  · unfold addServer at h
    split at h
    · next a _ => cases h; exact hex a
    · cases h; exact hbad
    · cases h

/-- **"200 with the stored data", `GET`** — for every route of the model (`viewExecute st`,
`viewServerIP ip port st`, `viewServer address st = some r`): a 200 answer is made from the stored
hostname `h` of a record with the details bit (`hostname_html = toHTML h`, `hostname_plain =
clean h`); a 204, 404 or 400 carries no server data.  The two hostname members; the whole body:
`view_body_full`. -/
theorem view_body (st : SrvState) (r : Resp) (hr : ViewAnswer st r) : StoredBody st r := by
  have h := view_body_full st r hr
  refine ⟨fun h2 => ?_, h.2⟩
  obtain ⟨w, qp, rec, hst, hw, hb, he⟩ := h.1 h2
  exact ⟨w, qp, rec, hst, hw, by simp only [Resp.hostnames, hb]; rfl, he⟩

/-- **"200 with the stored data", `POST`** — for every route of the model (`addExecute a st`,
`addServerIP ip port st`, `addServer body st = some r`): a 200 answer is made from the stored
hostname of a record with the details bit and nothing is stored or queued (`effect = .none`); a
202, 410 or 400 carries no server data.  The whole body: `add_body_full`. -/
theorem add_body (st : SrvState) (r : Resp) (hr : AddAnswer st r) : StoredBody st r := by
  have h := add_body_full st r hr
  refine ⟨fun h2 => ?_, h.2⟩
  obtain ⟨w, qp, rec, hst, hw, hb, he⟩ := h.1 h2
  exact ⟨w, qp, rec, hst, hw, by simp only [Resp.hostnames, hb]; rfl, he⟩

/-- **Every 200 of either handler has inert markup and a code-free plain name**: the answer has
both members, `hostname_html` is accepted by the reference tokenizer and `hostname_plain` contains
no style code (`view_body` / `add_body` with `toHTML_inert` / `clean_no_codes`). -/
theorem view_body_inert (st : SrvState) (r : Resp) (hr : ViewAnswer st r ∨ AddAnswer st r)
    (h200 : r.status = 200) :
    ∃ html plain, r.hostnames = some (html, plain) ∧
      RestSpec.Inert html = true ∧ RestSpec.NoCodes plain = true := by
  have hb : StoredBody st r := hr.elim (view_body st r) (add_body st r)
  obtain ⟨_, _, rec, _, _, hbody, _⟩ := hb.1 h200
  exact ⟨_, _, hbody, toHTML_inert rec.info.hostname, clean_no_codes rec.info.hostname⟩

/-- non-vacuity: a stored hostname with a colour code and `<`, through every route; the 200
premise holds, the body is the escaped / cleaned stored name, the other rows have no body -/
example : (viewServerIP ⟨1, 1, 1, 1⟩ 10480 (.present 8 10481 (hostRec "[c=ff0000]a<b".toList))).status = 200 := by rfl
example : (viewServerIP ⟨1, 1, 1, 1⟩ 10480 (.present 8 10481 (hostRec "[c=ff0000]a<b".toList))).hostnames =
    some ("<span style=\"color:#ff0000;\">a&lt;b</span>".toList, "a<b".toList) := by decide
example : (viewExecute (.present (8 ||| 16 ||| 256) 10481 (hostRec "[c=ff0000]a<b".toList))).hostnames =
    some ("<span style=\"color:#ff0000;\">a&lt;b</span>".toList, "a<b".toList) := by decide
example : ((viewServer (Bytes.ofAscii "1.1.1.1:10480") (.present 8 10481 (hostRec "[c=ff0000]a<b".toList))).map (·.hostnames)) =
    some (some ("<span style=\"color:#ff0000;\">a&lt;b</span>".toList, "a<b".toList)) := by decide
example : (addServerIP ⟨1, 1, 1, 1⟩ 10480 (.present 8 10481 (hostRec "[c=ff0000]a<b".toList))).status = 200 := by rfl
example : (addServerIP ⟨1, 1, 1, 1⟩ 10480 (.present 8 10481 (hostRec "[c=ff0000]a<b".toList))).hostnames =
    some ("<span style=\"color:#ff0000;\">a&lt;b</span>".toList, "a<b".toList) := by decide
example : ((addServer (.obj (.str (Bytes.ofAscii "1.1.1.1")) (.int 10480))
      (.present 8 10481 (hostRec "[c=ff0000]a<b".toList))).map (·.hostnames)) =
    some (some ("<span style=\"color:#ff0000;\">a&lt;b</span>".toList, "a<b".toList)) := by decide
example : ViewAnswer (.present 8 10481 (hostRec "[c=ff0000]a<b".toList))
    (viewServerIP ⟨1, 1, 1, 1⟩ 10480 (.present 8 10481 (hostRec "[c=ff0000]a<b".toList))) := .inr (.inl ⟨_, _, rfl⟩)
example : AddAnswer (.present 8 10481 (hostRec "[c=ff0000]a<b".toList))
    (addServerIP ⟨1, 1, 1, 1⟩ 10480 (.present 8 10481 (hostRec "[c=ff0000]a<b".toList))) := .inr (.inl ⟨_, _, rfl⟩)
-- no data in 204 / 404 / 400 / 202 / 410, whatever hostname is stored
example : (viewServerIP ⟨1, 1, 1, 1⟩ 10480 (.present 4 10481 (hostRec "[c=ff0000]a<b".toList))).body = none := by rfl
example : (viewServerIP ⟨1, 1, 1, 1⟩ 10480 .absent).body = none := by rfl
example : (viewServerIP ⟨10, 1, 1, 1⟩ 10480 (.present 8 10481 (hostRec "[c=ff0000]a<b".toList))).body = none := by rfl
example : (addServerIP ⟨1, 1, 1, 1⟩ 10480 (.present 128 10481 (hostRec "[c=ff0000]a<b".toList))).body = none := by rfl
example : (addServerIP ⟨1, 1, 1, 1⟩ 10480 (.present 256 10481 (hostRec "[c=ff0000]a<b".toList))).body = none := by rfl
example : (addServerIP ⟨1, 1, 1, 1⟩ 1024 (.present 8 10481 (hostRec "[c=ff0000]a<b".toList))).body = none := by rfl

/-! ## every member of the bodies

`server_members`, `player_members`, `objective_members` list, for every member of the JSON documents
in document order, the JSON name and the stored field it equals; `detail_members` the three members
of `model.ServerDetail` (stored order, every element).  The names and their order are compared with
the `json` tags read from the source in `facts_json_ok`; `server_spec_agrees` etc. compare the
model's choice of stored field with the reference tables `RestSpec.serverWants` / `playerWants` /
`objectiveWants` (written independently, by Go field name), which is what the driver's oracle checks
the implementation's body against. -/

/-- **`model.Server`, member by member** (`NewServerFromDomain`, `server.go:46-79`): the JSON
document of a stored record `rec` is exactly this list of members — `address`/`ip`/`port` from the
record's address, `hostname` raw, `hostname_plain = Clean`, `hostname_html = ToHTML` of it,
`player_num = Info.NumPlayers`, `player_max = Info.MaxPlayers`, `round_num = Info.Round`,
`round_max = Info.NumRounds`, `time_round = Info.TimeLeft`, … each stored value unchanged, and the
two slugs `slug.Make` of `GameType` / `MapName`. -/
theorem server_members (rec : Stored) :
    (serverJsonOf rec).members =
      [("address", .str (addrString rec.addr)), ("ip", .str (dottedIP rec.addr.ip)), ("port", .int rec.addr.port),
       ("hostname", .str rec.info.hostname), ("hostname_plain", .str (Styles.clean rec.info.hostname)),
       ("hostname_html", .str (Styles.toHTML rec.info.hostname)), ("passworded", .bool rec.info.password),
       ("gamename", .str rec.info.gameVariant), ("gamever", .str rec.info.gameVersion),
       ("gametype", .str rec.info.gameType), ("gametype_slug", slugAtom (Slug.make rec.info.gameType)),
       ("mapname", .str rec.info.mapName), ("mapname_slug", slugAtom (Slug.make rec.info.mapName)),
       ("player_num", .int rec.info.numPlayers), ("player_max", .int rec.info.maxPlayers),
       ("round_num", .int rec.info.round), ("round_max", .int rec.info.numRounds),
       ("time_round", .int rec.info.timeLeft), ("time_special", .int rec.info.timeSpecial),
       ("score_swat", .int rec.info.swatScore), ("score_sus", .int rec.info.suspectsScore),
       ("vict_swat", .int rec.info.swatWon), ("vict_sus", .int rec.info.suspectsWon),
       ("bombs_defused", .int rec.info.bombsDefused), ("bombs_total", .int rec.info.bombsTotal),
       ("coop_reports", .str rec.info.tocReports), ("coop_weapons", .str rec.info.weaponsSecured)] := rfl

/-- the same on the struct: every member of `model.Server` equals the stored field
(`player_num = Info.NumPlayers`, …) -/
theorem server_fields (rec : Stored) :
    let j := serverJsonOf rec
    j.address = addrString rec.addr ∧ j.ip = dottedIP rec.addr.ip ∧ j.port = rec.addr.port ∧
    j.hostname = rec.info.hostname ∧ j.hostnamePlain = Styles.clean rec.info.hostname ∧
    j.hostnameHTML = Styles.toHTML rec.info.hostname ∧ j.passworded = rec.info.password ∧
    j.gameName = rec.info.gameVariant ∧ j.gameVer = rec.info.gameVersion ∧ j.gameType = rec.info.gameType ∧
    j.gameTypeSlug = Slug.make rec.info.gameType ∧ j.mapName = rec.info.mapName ∧
    j.mapNameSlug = Slug.make rec.info.mapName ∧ j.playerNum = rec.info.numPlayers ∧
    j.playerMax = rec.info.maxPlayers ∧ j.roundNum = rec.info.round ∧ j.roundMax = rec.info.numRounds ∧
    j.timeLeft = rec.info.timeLeft ∧ j.timeSpecial = rec.info.timeSpecial ∧ j.swatScore = rec.info.swatScore ∧
    j.suspectsScore = rec.info.suspectsScore ∧ j.swatWon = rec.info.swatWon ∧ j.suspectsWon = rec.info.suspectsWon ∧
    j.bombsDefused = rec.info.bombsDefused ∧ j.bombsTotal = rec.info.bombsTotal ∧
    j.tocReports = rec.info.tocReports ∧ j.weaponsSecured = rec.info.weaponsSecured := by
  refine ⟨rfl, rfl, rfl, rfl, rfl, rfl, rfl, rfl, rfl, rfl, rfl, rfl, rfl, rfl, rfl, rfl, rfl, rfl, rfl, rfl, rfl, rfl,
    rfl, rfl, rfl, rfl, rfl⟩

/-- **`model.ServerPlayer`, member by member** (`NewServerPlayerFromDomain`, `server.go:106-132`):
`team` / `coop_status` are the `String()` renderings, `coop_status_slug` the slug of the latter, the two
`crybaby` members the stored booleans as 0/1, `vip_captures = VIPArrests`, `rd_bombs_defused =
BombsDefused`, `sg_escapes = CaseEscapes`, `sg_kills = CaseKills`, every other member the stored field
of the same name; `VIPEscapes2` is not reported. -/
theorem player_members (p : Player) :
    (playerJsonOf p).members =
      [("name", .str p.name), ("ping", .int p.ping), ("score", .int p.score), ("team", .str (teamString p.team)),
       ("vip", .bool p.vip), ("coop_status", .str (coopStatusString p.coopStatus)),
       ("coop_status_slug", slugAtom (Slug.make (coopStatusString p.coopStatus))), ("kills", .int p.kills),
       ("teamkills", .int p.teamKills), ("deaths", .int p.deaths), ("arrests", .int p.arrests),
       ("arrested", .int p.arrested), ("vip_escapes", .int p.vipEscapes), ("vip_captures", .int p.vipArrests),
       ("vip_rescues", .int p.vipRescues), ("vip_kills_valid", .int p.vipKillsValid),
       ("vip_kills_invalid", .int p.vipKillsInvalid), ("rd_bombs_defused", .int p.bombsDefused),
       ("rd_crybaby", .int (if p.bombsDetonated then 1 else 0)), ("sg_escapes", .int p.caseEscapes),
       ("sg_kills", .int p.caseKills), ("sg_crybaby", .int (if p.caseSecured then 1 else 0))] := by
  cases hd : p.bombsDetonated <;> cases hs : p.caseSecured <;>
    simp [PlayerJson.members, playerJsonOf, boolToInt, hd, hs]

/-- **`model.ServerObjective`** (`NewServerObjectiveFromDomain`, `server.go:140-147`) -/
theorem objective_members (o : Objective) :
    (objectiveJsonOf o).members =
      [("name", .str o.name), ("status", .str (objectiveStatusString o.status)),
       ("status_slug", slugAtom (Slug.make (objectiveStatusString o.status)))] := rfl

/-- **`model.ServerDetail`** (`NewServerDetailFromDomain`, `server.go:155-174`): `info` is the
`model.Server` of the record; `players` / `objectives` have one element per stored player /
objective, in stored order, each made from the stored element at the same place; none of it
depends on `Details.Info` (the copy of the info block stored inside the details). -/
theorem detail_members (rec : Stored) :
    (serverDetailJsonOf rec).info = serverJsonOf rec ∧
    (serverDetailJsonOf rec).players.length = rec.players.length ∧
    (∀ i : Nat, (serverDetailJsonOf rec).players[i]? = rec.players[i]?.map playerJsonOf) ∧
    (serverDetailJsonOf rec).objectives.length = rec.objectives.length ∧
    (∀ i : Nat, (serverDetailJsonOf rec).objectives[i]? = rec.objectives[i]?.map objectiveJsonOf) ∧
    (∀ di, serverDetailJsonOf { rec with detailsInfo := di } = serverDetailJsonOf rec) := by
  refine ⟨rfl, ?_, ?_, ?_, ?_, fun _ => rfl⟩
  · simp [serverDetailJsonOf]
  · intro i; simp [serverDetailJsonOf]
  · simp [serverDetailJsonOf]
  · intro i; simp [serverDetailJsonOf]

/-- non-vacuity: a full record through `GET`, `POST`; the members a swap would exchange differ -/
def sampleRec : Stored :=
  { addr := ⟨⟨8, 8, 4, 4⟩, 10480⟩
    info := { hostname := "[b]Srv".toList, hostPort := 10480, gameVariant := "SWAT 4".toList, gameVersion := "1.1".toList,
              gameType := "VIP Escort".toList, numPlayers := 3, maxPlayers := 16, mapName := "A-Bomb Nightclub".toList,
              password := true, round := 2, numRounds := 5, timeLeft := -7, timeSpecial := 30, swatScore := 11,
              suspectsScore := 12, swatWon := 1, suspectsWon := 0, bombsDefused := 4, bombsTotal := 6,
              tocReports := "24/28".toList, weaponsSecured := "17/19".toList }
    detailsInfo := { hostname := "other".toList }
    players := [{ name := "Al".toList, score := 5, ping := 40, team := 1, coopStatus := 2, vipArrests := 9, caseSecured := true },
                { name := "Bo".toList, team := 7, coopStatus := -3 }]
    objectives := [{ name := "obj_Neutralize_All_Enemies".toList, status := 0 }, { name := "x".toList, status := 9 }] }

example : (viewServerIP ⟨8, 8, 4, 4⟩ 10480 (.present 8 10481 sampleRec)).status = 200 := by rfl
example : (viewServerIP ⟨8, 8, 4, 4⟩ 10480 (.present 8 10481 sampleRec)).body =
    some (.detail (serverDetailJsonOf sampleRec)) := by rfl
example : (addServerIP ⟨8, 8, 4, 4⟩ 10480 (.present 8 10481 sampleRec)).body =
    some (.server (serverJsonOf sampleRec)) := by rfl
example : (serverJsonOf sampleRec).address = "8.8.4.4:10480".toList ∧ (serverJsonOf sampleRec).ip = "8.8.4.4".toList ∧
    (serverJsonOf sampleRec).playerNum = 3 ∧ (serverJsonOf sampleRec).playerMax = 16 ∧
    (serverJsonOf sampleRec).timeLeft = -7 ∧ (serverJsonOf sampleRec).passworded = true ∧
    (serverJsonOf sampleRec).gameTypeSlug = some "vip-escort".toList ∧
    (serverJsonOf sampleRec).mapNameSlug = some "a-bomb-nightclub".toList ∧
    (serverJsonOf sampleRec).hostnamePlain = "Srv".toList := by decide
example : ((serverDetailJsonOf sampleRec).players.map (·.name)) = ["Al".toList, "Bo".toList] ∧
    ((serverDetailJsonOf sampleRec).players.map (·.team)) = ["suspects".toList, "7".toList] ∧
    ((serverDetailJsonOf sampleRec).players.map (·.coopStatus)) = ["Healthy".toList, "-3".toList] ∧
    ((serverDetailJsonOf sampleRec).players.map (·.coopStatusSlug)) = [some "healthy".toList, some "3".toList] ∧
    ((serverDetailJsonOf sampleRec).players.map (·.vipArrests)) = [9, 0] ∧
    ((serverDetailJsonOf sampleRec).players.map (·.caseSecured)) = [1, 0] := by decide
example : ((serverDetailJsonOf sampleRec).objectives.map (·.status)) = ["In Progress".toList, "9".toList] ∧
    ((serverDetailJsonOf sampleRec).objectives.map (·.statusSlug)) = [some "in-progress".toList, some "9".toList] := by
  decide

/-! ### the `String()` renderings -/

/-- **`PlayerTeam.String()`, `PlayerCoopStatus.String()`, `ObjectiveStatus.String()`**
(`details/player.go:17-47`, `objective.go:15-25`): the names of the defined values — note
`TeamSwatRed` (2) is `swat` too — and the decimal numeral for every other value the record may hold. -/
theorem enum_strings :
    teamString 0 = "swat".toList ∧ teamString 1 = "suspects".toList ∧ teamString 2 = "swat".toList ∧
    (∀ t : Int, (t < 0 ∨ t > 2) → teamString t = decimal t) ∧
    coopStatusString 0 = "unknown".toList ∧ coopStatusString 1 = "Ready".toList ∧
    coopStatusString 2 = "Healthy".toList ∧ coopStatusString 3 = "Injured".toList ∧
    coopStatusString 4 = "Incapacitated".toList ∧
    (∀ c : Int, (c < 0 ∨ c > 4) → coopStatusString c = decimal c) ∧
    objectiveStatusString 0 = "In Progress".toList ∧ objectiveStatusString 1 = "Completed".toList ∧
    objectiveStatusString 2 = "Failed".toList ∧
    (∀ s : Int, (s < 0 ∨ s > 2) → objectiveStatusString s = decimal s) := by
  refine ⟨rfl, rfl, rfl, ?_, rfl, rfl, rfl, rfl, rfl, ?_, rfl, rfl, rfl, ?_⟩
  · intro t ht
    have h1 : ¬ (t = 0 ∨ t = 2) := by omega
    have h2 : ¬ t = 1 := by omega
    simp only [teamString, h1, h2, if_false]
  · intro c hc
    have h0 : ¬ c = 0 := by omega
    have h1 : ¬ c = 1 := by omega
    have h2 : ¬ c = 2 := by omega
    have h3 : ¬ c = 3 := by omega
    have h4 : ¬ c = 4 := by omega
    simp only [coopStatusString, h0, h1, h2, h3, h4, if_false]
  · intro s hs
    have h0 : ¬ s = 0 := by omega
    have h1 : ¬ s = 1 := by omega
    have h2 : ¬ s = 2 := by omega
    simp only [objectiveStatusString, h0, h1, h2, if_false]

/-- the slugs of the defined names (`coop_status_slug`, `status_slug`), and of a numeral: its digits -/
theorem enum_slugs :
    (([0, 1, 2, 3, 4] : List Int).map fun c => Slug.make (coopStatusString c)) =
      [some "unknown".toList, some "ready".toList, some "healthy".toList, some "injured".toList,
       some "incapacitated".toList] ∧
    (([0, 1, 2] : List Int).map fun s => Slug.make (objectiveStatusString s)) =
      [some "in-progress".toList, some "completed".toList, some "failed".toList] ∧
    Slug.make (decimal (-3)) = some "3".toList ∧ Slug.make (decimal 255) = some "255".toList := by decide

/-! ### the model against the reference tables

`RestSpec.serverWants` etc. say, by Go field name, which stored field a member reports.  The record
of the model as the reference reads it: `(Go field name, value)` in declaration order. -/

def infoEntity (i : Info) : RestSpec.Entity :=
  [("Hostname", .str i.hostname), ("HostPort", .int i.hostPort), ("GameVariant", .str i.gameVariant),
   ("GameVersion", .str i.gameVersion), ("GameType", .str i.gameType), ("NumPlayers", .int i.numPlayers),
   ("MaxPlayers", .int i.maxPlayers), ("MapName", .str i.mapName), ("Password", .bool i.password),
   ("StatsEnabled", .bool i.statsEnabled), ("Round", .int i.round), ("NumRounds", .int i.numRounds),
   ("TimeLeft", .int i.timeLeft), ("TimeSpecial", .int i.timeSpecial), ("SwatScore", .int i.swatScore),
   ("SuspectsScore", .int i.suspectsScore), ("SwatWon", .int i.swatWon), ("SuspectsWon", .int i.suspectsWon),
   ("BombsDefused", .int i.bombsDefused), ("BombsTotal", .int i.bombsTotal), ("TocReports", .str i.tocReports),
   ("WeaponsSecured", .str i.weaponsSecured), ("Version", .str i.version)]

def playerEntity (p : Player) : RestSpec.Entity :=
  [("Name", .str p.name), ("Score", .int p.score), ("Ping", .int p.ping), ("Team", .int p.team), ("VIP", .bool p.vip),
   ("CoopStatus", .int p.coopStatus), ("Kills", .int p.kills), ("TeamKills", .int p.teamKills), ("Deaths", .int p.deaths),
   ("Arrests", .int p.arrests), ("Arrested", .int p.arrested), ("VIPEscapes", .int p.vipEscapes),
   ("VIPEscapes2", .int p.vipEscapes2), ("VIPArrests", .int p.vipArrests), ("VIPRescues", .int p.vipRescues),
   ("VIPKillsValid", .int p.vipKillsValid), ("VIPKillsInvalid", .int p.vipKillsInvalid),
   ("BombsDefused", .int p.bombsDefused), ("BombsDetonated", .bool p.bombsDetonated), ("CaseEscapes", .int p.caseEscapes),
   ("CaseKills", .int p.caseKills), ("CaseSecured", .bool p.caseSecured)]

def objectiveEntity (o : Objective) : RestSpec.Entity := [("Name", .str o.name), ("Status", .int o.status)]

/-- the value of a member of the model's document, as a stored field value -/
def fieldOfAtom : JAtom → Option RestSpec.Field
  | .str s => some (.str s)
  | .int n => some (.int n)
  | .bool b => some (.bool b)
  | .unmodelled => none

/-- what the reference table asks of one member, evaluated on the model's value `a` of it: a raw
member is the stored field; a flag is the stored boolean as 0/1; a derived member is derived from
the field the table names (`Styles.clean` / `Styles.toHTML` / `Slug.make` / the `String()` rendering and its slug) -/
def agrees (ip : IP4) (port : Int) (e : RestSpec.Entity) (w : RestSpec.Want) (a : JAtom) : Prop :=
  match w with
  | .address => a = .str (addrString ⟨ip, port⟩)
  | .ip => a = .str (dottedIP ip)
  | .port => a = .int port
  | .same f => fieldOfAtom a = e.get f ∧ (e.get f).isSome
  | .flag f => ∃ b, e.get f = some (.bool b) ∧ a = .int (if b then 1 else 0)
  | .plainOf f => ∃ s, e.get f = some (.str s) ∧ a = .str (Styles.clean s)
  | .htmlOf f => ∃ s, e.get f = some (.str s) ∧ a = .str (Styles.toHTML s)
  | .slugOf f => ∃ s, e.get f = some (.str s) ∧ a = slugAtom (Slug.make s)
  | .enumName t f => ∃ v, e.get f = some (.int v) ∧
      ((t = RestSpec.teamNames ∧ a = .str (teamString v)) ∨ (t = RestSpec.coopStatusNames ∧ a = .str (coopStatusString v)) ∨
       (t = RestSpec.objectiveStatusNames ∧ a = .str (objectiveStatusString v)))
  | .enumSlug t f => ∃ v, e.get f = some (.int v) ∧
      ((t = RestSpec.coopStatusNames ∧ a = slugAtom (Slug.make (coopStatusString v))) ∨
       (t = RestSpec.objectiveStatusNames ∧ a = slugAtom (Slug.make (objectiveStatusString v))))

/-- all members of a document against a table: same names in the same order, every value as the table asks -/
def agreesAll (ip : IP4) (port : Int) (e : RestSpec.Entity) :
    List (String × RestSpec.Want) → List (String × JAtom) → Prop
  | [], [] => True
  | (n, w) :: ws, (n', a) :: ms => n = n' ∧ agrees ip port e w a ∧ agreesAll ip port e ws ms
  | _, _ => False

/-- **The model reports, member by member, the stored field the reference table names**
(`model.Server`): `RestSpec.serverWants` and the model's document have the same member names in the
same order, and for each the model's value is the stored field of that Go name (`player_num` ↦
`NumPlayers`, `round_max` ↦ `NumRounds`, `time_round` ↦ `TimeLeft`, …), resp. derived from it. -/
theorem server_spec_agrees (rec : Stored) :
    agreesAll rec.addr.ip rec.addr.port (infoEntity rec.info) RestSpec.serverWants (serverJsonOf rec).members := by
  simp only [RestSpec.serverWants, ServerJson.members, serverJsonOf, agreesAll, agrees]
  repeat' (first | exact rfl | exact ⟨rfl, rfl⟩ | exact ⟨_, rfl, rfl⟩ | constructor)

/-- the same for `model.ServerPlayer` against `RestSpec.playerWants` -/
theorem player_spec_agrees (ip : IP4) (port : Int) (p : Player) :
    agreesAll ip port (playerEntity p) RestSpec.playerWants (playerJsonOf p).members := by
  simp only [RestSpec.playerWants, PlayerJson.members, playerJsonOf, agreesAll, agrees]
  repeat' (first
    | exact rfl | exact ⟨rfl, rfl⟩ | exact ⟨_, rfl, rfl⟩
    | exact ⟨_, rfl, .inl ⟨trivial, rfl⟩⟩ | exact ⟨_, rfl, .inr (.inl ⟨trivial, rfl⟩)⟩
    | exact ⟨_, rfl, atom_boolToInt _⟩
    | constructor)

/-- the same for `model.ServerObjective` against `RestSpec.objectiveWants` -/
theorem objective_spec_agrees (ip : IP4) (port : Int) (o : Objective) :
    agreesAll ip port (objectiveEntity o) RestSpec.objectiveWants (objectiveJsonOf o).members := by
  simp only [RestSpec.objectiveWants, ObjectiveJson.members, objectiveJsonOf, agreesAll, agrees]
  repeat' (first
    | exact rfl | exact ⟨rfl, rfl⟩ | exact ⟨_, rfl, rfl⟩
    | exact ⟨_, rfl, .inr (.inr ⟨trivial, rfl⟩)⟩ | exact ⟨_, rfl, .inr ⟨trivial, rfl⟩⟩
    | constructor)

/-! ## the listing (`GET /api/servers`) -/

/-- the six filters of the form, read as one condition on a record's `details.Info` -/
def formMatch (f : ListForm) (i : Info) : Bool :=
  (f.gameVariant.isEmpty || decide (i.gameVariant = f.gameVariant)) &&
  (f.gameVer.isEmpty || decide (i.gameVersion = f.gameVer)) &&
  (f.gameType.isEmpty || decide (i.gameType = f.gameType)) &&
  (!f.hidePassworded || !i.password) &&
  (!f.hideFull || decide (i.numPlayers ≠ i.maxPlayers)) &&
  (!f.hideEmpty || decide (i.numPlayers > 0))

/-- `prepareQuery` + `query.Match` is that condition: an empty string parameter filters nothing,
`nopassworded` keeps the servers without a password, `nofull` those with `NumPlayers ≠ MaxPlayers`,
`noempty` those with `NumPlayers > 0` -/
theorem queryMatch_prepareQuery (f : ListForm) (i : Info) :
    queryMatch (prepareQuery f) i = formMatch f i := by
  unfold queryMatch prepareQuery formMatch
  simp only [List.all_append]
  congr 1
  · congr 1
    · congr 1
      · congr 1
        · congr 1
          · cases h : f.gameVariant <;> simp [RFilter.matches]
          · cases h : f.gameVer <;> simp [RFilter.matches]
        · cases h : f.gameType <;> simp [RFilter.matches]
      · cases f.hidePassworded <;> cases hp : i.password <;> simp [RFilter.matches, hp]
    · cases f.hideFull <;> simp [RFilter.matches]
  · cases f.hideEmpty <;> simp [RFilter.matches]

/-- **The listing: status from a fixed table, every element the stored data.**  `GET /api/servers`
answers 400 (without a body) exactly when one of the three flags is not a spelling
`strconv.ParseBool` accepts, else 200; never 5xx; it never changes the store; the body of a 200 is
`NewServerFromDomain` (`serverJsonOf`, all 27 members: `server_members`) of exactly the records that
have the `info` status, were refreshed at or after `now - liveness`, and pass the form's filters
(`formMatch`) — in registry order here, in the iteration order of a Go map in the code
(`pkg/slice.Intersection`), so: up to a permutation. -/
theorem list_body_full (now liveness : Int) (q : ListQuery) (recs : List Listed) :
    ((listServers now liveness q recs).status = 200 ∨ (listServers now liveness q recs).status = 400) ∧
    (listServers now liveness q recs).status < 500 ∧
    (listServers now liveness q recs).effect = .none ∧
    ((listServers now liveness q recs).status = 400 ↔ bindListQuery q = none) ∧
    ((listServers now liveness q recs).status ≠ 200 → (listServers now liveness q recs).body = none) ∧
    (∀ f, bindListQuery q = some f →
      (listServers now liveness q recs).body =
        some (.list ((recs.filter fun l => l.selected now liveness && formMatch f l.server.info).map
          fun l => serverJsonOf l.server))) := by
  unfold listServers
  cases hb : bindListQuery q with
  | none => simp
  | some f =>
    refine ⟨.inl rfl, by show (200 : Nat) < 500; omega, rfl, by simp [listExecute], by simp [listExecute], ?_⟩
    intro f' hf'
    cases hf'
    simp only [listExecute, List.filter_filter, queryMatch_prepareQuery, Bool.and_comm]

/-- every element of a listing is the document of a listed record that was selected and matches -/
theorem list_elements (now liveness : Int) (q : ListQuery) (recs : List Listed) (l : List ServerJson)
    (h : (listServers now liveness q recs).body = some (.list l)) (j : ServerJson) (hj : j ∈ l) :
    ∃ f x, bindListQuery q = some f ∧ x ∈ recs ∧ x.selected now liveness = true ∧
      formMatch f x.server.info = true ∧ j = serverJsonOf x.server := by
  cases hb : bindListQuery q with
  | none => simp [listServers, hb] at h
  | some f =>
    have := (list_body_full now liveness q recs).2.2.2.2.2 f hb
    rw [this] at h
    cases h
    simp only [List.mem_map, List.mem_filter, Bool.and_eq_true] at hj
    obtain ⟨x, ⟨hx, hs, hm⟩, rfl⟩ := hj
    exact ⟨f, x, rfl, hx, hs, hm, rfl⟩

/-- the flags: `strconv.ParseBool`'s spellings, the empty value and an absent parameter; anything else is an error -/
theorem bindBool_table :
    (["1", "t", "T", "TRUE", "true", "True"].map fun s => bindBool (some (Bytes.ofAscii s))) = List.replicate 6 (some true) ∧
    (["0", "f", "F", "FALSE", "false", "False", ""].map fun s => bindBool (some (Bytes.ofAscii s))) =
      List.replicate 7 (some false) ∧
    bindBool none = some false ∧
    (["yes", "2", "tRUE", " 1", "on", "-1", "TRUE "].map fun s => bindBool (some (Bytes.ofAscii s))) = List.replicate 7 none := by
  decide

/-- non-vacuity: three records — listed and matching; listed but full; not refreshed in time — and a bad flag -/
def sampleFull : Stored :=
  { sampleRec with addr := ⟨⟨8, 8, 8, 8⟩, 10480⟩, info := { sampleRec.info with numPlayers := 16 } }

def sampleListed : List Listed :=
  [⟨4, some (-5), sampleRec⟩,
   ⟨4 ||| 8, some 0, sampleFull⟩,
   ⟨4, some (-181), { sampleRec with addr := ⟨⟨9, 9, 9, 9⟩, 10480⟩ }⟩,
   ⟨8, some 0, { sampleRec with addr := ⟨⟨7, 7, 7, 7⟩, 10480⟩ }⟩]

example : (listServers 0 180 {} sampleListed).body =
    some (.list [serverJsonOf sampleRec, serverJsonOf sampleFull]) := by decide
example : (listServers 0 180 { hideFull := some [49], gameType := some "VIP Escort".toList } sampleListed).body =
    some (.list [serverJsonOf sampleRec]) := by decide
example : (listServers 0 180 { gameType := some "CO-OP".toList } sampleListed).body = some (.list []) := by decide
example : (listServers 0 180 { hideEmpty := some (Bytes.ofAscii "yes") } sampleListed).status = 400 := by decide

/-! ## status bits and the columns of the reference table

`knownOf` (`Lemmas/Rest.lean`) is the only link between the status word of the stored record and
the columns `known / hasDetails / discoveryPending / noPort` of `RestSpec.Known`, over which
`add_table` and `view_table` are stated.  It is pinned here bit by bit against the Go code:

* bit values — `internal/core/entities/discovery/status/status.go:12-22` (`1 << iota`): `New` 1,
  `Master` 2, `Info` 4, `Details` 8, `DetailsRetry` 16, `NoDetails` 32, `Port` 64, `PortRetry` 128,
  `NoPort` 256; the five the handlers use are compared with the generated facts in `facts_ok`;
* the tests — `internal/core/entities/server/server.go:64-70`: `HasDiscoveryStatus(s)` is
  `(w & s) == s`, `HasAnyDiscoveryStatus(s)` is `(w & s) > 0`;
* the order of the tests in `addserver.maybeDiscoverServer` (`addserver.go:115-142`): `Details`
  (:116, ⇒ nil ⇒ 200), then `PortRetry|DetailsRetry` (:122, ⇒ in progress ⇒ 202), then `NoPort`
  (:127, ⇒ 410), then default (:133, discover ⇒ 202) — the same order as `Rest.addExecute` and as
  `RestSpec.addTable`; `getserver.Execute` (`getserver.go:33-45`): not found ⇒ 404, then
  `!HasDiscoveryStatus(Details)` (:43) ⇒ 204, else 200 — as `Rest.viewExecute` / `RestSpec.viewTable`. -/

/-- **The columns are exactly these bit tests**, for every status word: `hasDetails` ⇔ bit 8,
`discoveryPending` ⇔ bit 128 or bit 16, `noPort` ⇔ bit 256; a stored record is `known`, a missing
one has every column false. -/
theorem knownOf_spec (w : Nat) (qp : Int) (h : Stored) :
    (knownOf (.present w qp h)).known = true ∧
    ((knownOf (.present w qp h)).hasDetails = true ↔ w &&& 8 ≠ 0) ∧
    ((knownOf (.present w qp h)).discoveryPending = true ↔ (w &&& 128 ≠ 0 ∨ w &&& 16 ≠ 0)) ∧
    ((knownOf (.present w qp h)).noPort = true ↔ w &&& 256 ≠ 0) ∧
    knownOf .absent = ⟨false, false, false, false⟩ := by
  refine ⟨rfl, ?_, ?_, ?_, rfl⟩
  · exact hasBit_iff w 8
  · show (hasBit w 128 || hasBit w 16) = true ↔ _
    rw [Bool.or_eq_true, hasBit_iff, hasBit_iff]
  · exact hasBit_iff w 256

/-- **…and these are Go's tests**, in the form `server.go:64-70` computes them:
`HasDiscoveryStatus(ds.Details)` = `(w & 8) == 8` (`addserver.go:116`, `getserver.go:43`),
`HasAnyDiscoveryStatus(ds.PortRetry | ds.DetailsRetry)` = `(w & (128|16)) > 0` (`addserver.go:122`),
`HasDiscoveryStatus(ds.NoPort)` = `(w & 256) == 256` (`addserver.go:127`). -/
theorem knownOf_go (w : Nat) (qp : Int) (h : Stored) :
    ((knownOf (.present w qp h)).hasDetails = true ↔ w &&& 8 = 8) ∧
    ((knownOf (.present w qp h)).discoveryPending = true ↔ w &&& (128 ||| 16) > 0) ∧
    ((knownOf (.present w qp h)).noPort = true ↔ w &&& 256 = 256) := by
  obtain ⟨_, h1, h2, h3, _⟩ := knownOf_spec w qp h
  exact ⟨h1.trans (and_two_pow_eq_self_iff w 3).symm, h2.trans (and_or_pos_iff w 128 16).symm,
    h3.trans (and_two_pow_eq_self_iff w 8).symm⟩

/-- **One status bit at a time** (`status.go:12-22`), for any query port and stored record: `Details`
(8) sets the `hasDetails` column only (`addserver.go:116`, `getserver.go:43`), `PortRetry` (128)
and `DetailsRetry` (16) each the `discoveryPending` column only (`addserver.go:122`), `NoPort` (256)
the `noPort` column only (`addserver.go:127`); `New`, `Master`, `Info`, `NoDetails`, `Port` and the
empty word set none (default branch, `addserver.go:133`); a missing record is not even `known`. -/
theorem knownOf_bits (qp : Int) (h : Stored) :
    knownOf (.present 8 qp h) = ⟨true, true, false, false⟩ ∧       -- Details
    knownOf (.present 128 qp h) = ⟨true, false, true, false⟩ ∧     -- PortRetry: pending, addserver.go:122
    knownOf (.present 16 qp h) = ⟨true, false, true, false⟩ ∧      -- DetailsRetry: pending, addserver.go:122
    knownOf (.present 256 qp h) = ⟨true, false, false, true⟩ ∧     -- NoPort, addserver.go:127
    knownOf (.present 1 qp h) = ⟨true, false, false, false⟩ ∧      -- New: default branch, addserver.go:133
    knownOf (.present 2 qp h) = ⟨true, false, false, false⟩ ∧      -- Master
    knownOf (.present 4 qp h) = ⟨true, false, false, false⟩ ∧      -- Info
    knownOf (.present 32 qp h) = ⟨true, false, false, false⟩ ∧     -- NoDetails
    knownOf (.present 64 qp h) = ⟨true, false, false, false⟩ ∧     -- Port
    knownOf (.present 0 qp h) = ⟨true, false, false, false⟩ ∧      -- NoStatus
    knownOf .absent = ⟨false, false, false, false⟩ := by
  refine ⟨rfl, rfl, rfl, rfl, rfl, rfl, rfl, rfl, rfl, rfl, rfl⟩

-- the same one by one, and words with several bits: the columns are independent of each other and
-- of the five bits the handlers do not look at; the table then applies its own priority
example : knownOf (.present 8 10481 (hostRec [])) = ⟨true, true, false, false⟩ := by decide       -- status.go:16 Details
example : knownOf (.present 128 10481 (hostRec [])) = ⟨true, false, true, false⟩ := by decide     -- status.go:20 PortRetry
example : knownOf (.present 16 10481 (hostRec [])) = ⟨true, false, true, false⟩ := by decide      -- status.go:17 DetailsRetry
example : knownOf (.present 256 10481 (hostRec [])) = ⟨true, false, false, true⟩ := by decide     -- status.go:21 NoPort
example : knownOf (.present 1 10481 (hostRec [])) = ⟨true, false, false, false⟩ := by decide      -- status.go:13 New
example : knownOf (.present 2 10481 (hostRec [])) = ⟨true, false, false, false⟩ := by decide      -- status.go:14 Master
example : knownOf (.present 4 10481 (hostRec [])) = ⟨true, false, false, false⟩ := by decide      -- status.go:15 Info
example : knownOf (.present 32 10481 (hostRec [])) = ⟨true, false, false, false⟩ := by decide     -- status.go:18 NoDetails
example : knownOf (.present 64 10481 (hostRec [])) = ⟨true, false, false, false⟩ := by decide     -- status.go:19 Port
example : knownOf .absent = ⟨false, false, false, false⟩ := by decide                   -- repositories.ErrServerNotFound
example : knownOf (.present (8 ||| 128 ||| 256) 10481 (hostRec [])) = ⟨true, true, true, true⟩ := by decide
example : knownOf (.present (1 ||| 2 ||| 4 ||| 32 ||| 64) 10481 (hostRec [])) = ⟨true, false, false, false⟩ := by decide
example : knownOf (.present 511 10481 (hostRec [])) = ⟨true, true, true, true⟩ := by decide
-- priority among the columns is the table's and the handler's alike (addserver.go:116 before :122 before :127)
example : (addServerIP ⟨1, 1, 1, 1⟩ 10480 (.present (8 ||| 128 ||| 256) 10481 (hostRec []))).status = 200 := by rfl
example : RestSpec.addTable true ⟨true, true, true, true⟩ = 200 := by decide
example : (addServerIP ⟨1, 1, 1, 1⟩ 10480 (.present (16 ||| 256) 10481 (hostRec []))).status = 202 := by rfl
example : RestSpec.addTable true ⟨true, false, true, true⟩ = 202 := by decide
example : (addServerIP ⟨1, 1, 1, 1⟩ 10480 (.present (256 ||| 64) 10481 (hostRec []))).status = 410 := by rfl
example : RestSpec.addTable true ⟨true, false, false, true⟩ = 410 := by decide
example : (viewServerIP ⟨1, 1, 1, 1⟩ 10480 (.present (16 ||| 128 ||| 256) 10481 (hostRec []))).status = 204 := by rfl

/-! ## facts read from the source -/

/-- what the model assumes about the source, checked against the generated file: the binding tags
of `model.NewServer` (the model's `required`/`ipv4`/`gte=1025,lte=65535`), the JSON member names and
field kinds, the status bits and probe goal the handlers use, and the text of every string literal
of `styles.go` (the four regular expressions the scanners implement, the span template, the empty
replacements), in source order. -/
theorem facts_ok :
    Facts.restNewServerNumField = 2 ∧
    Facts.restNewServerIPBinding = "required,ipv4" ∧ Facts.restNewServerIPJson = "ip" ∧
    Facts.restNewServerIPKind = "string" ∧
    Facts.restNewServerPortBinding = "required,gte=1025,lte=65535" ∧ Facts.restNewServerPortJson = "port" ∧
    Facts.restNewServerPortKind = "int" ∧
    Facts.restDsNew = dsNew ∧ Facts.restDsDetails = dsDetails ∧ Facts.restDsDetailsRetry = dsDetailsRetry ∧
    Facts.restDsPortRetry = dsPortRetry ∧ Facts.restDsNoPort = dsNoPort ∧ Facts.restGoalPort = 1 ∧
    Facts.stylesStringLiterals =
      ["(?i)(\\[[\\\\/]?[cub]\\]|\\[c[^\\w][^\\[\\]]*?\\])", "",
       "(?i)\\[(?:\\\\)?[bu]\\]", "",
       "(?i)\\[c[^\\w]([a-f0-9]{6})\\]([^\\[]+)", "<span style=\"color:#$1;\">$2</span>",
       "(?i)\\[(?:\\\\)?c(?:[^\\w][^\\[\\]]*)?\\]", ""] := by
  refine ⟨rfl, rfl, rfl, rfl, rfl, rfl, rfl, rfl, rfl, rfl, rfl, rfl, rfl, rfl⟩

/-- a member's JSON type as Go declares it (`uint8` counts as `int`: the model holds the number) -/
def kindOf : JAtom → String
  | .str _ => "string"
  | .unmodelled => "string"
  | .int _ => "int"
  | .bool _ => "bool"

/-- **The JSON documents have exactly the members the source declares, in that order, with those
types**: the `json` struct tags of `model.Server`, `model.ServerPlayer`, `model.ServerObjective`,
`model.ServerDetail` (`internal/rest/model/server.go`), read by reflection on every run, are these
literal lists, and the model's documents (`ServerJson.members` …) carry exactly these names in this
order with values of the declared kinds — a renamed, added, dropped or reordered member breaks this
theorem.  Likewise the `form` tags of `api.ServerFilterForm` (the listing's parameters), and the Go
field lists of `details.Info` / `Player` / `Objective` by which the case lines and the reference
tables (`RestSpec.infoFieldNames` …) address the stored record. -/
theorem facts_json_ok :
    Facts.restServerJsonTags =
      ["address", "ip", "port", "hostname", "hostname_plain", "hostname_html", "passworded", "gamename", "gamever",
       "gametype", "gametype_slug", "mapname", "mapname_slug", "player_num", "player_max", "round_num", "round_max",
       "time_round", "time_special", "score_swat", "score_sus", "vict_swat", "vict_sus", "bombs_defused",
       "bombs_total", "coop_reports", "coop_weapons"] ∧
    (∀ s : ServerJson, s.members.map (·.1) = Facts.restServerJsonTags) ∧
    (∀ s : ServerJson, s.members.map (fun m => kindOf m.2) = Facts.restServerKinds) ∧
    Facts.restServerPlayerJsonTags =
      ["name", "ping", "score", "team", "vip", "coop_status", "coop_status_slug", "kills", "teamkills", "deaths",
       "arrests", "arrested", "vip_escapes", "vip_captures", "vip_rescues", "vip_kills_valid", "vip_kills_invalid",
       "rd_bombs_defused", "rd_crybaby", "sg_escapes", "sg_kills", "sg_crybaby"] ∧
    (∀ p : PlayerJson, p.members.map (·.1) = Facts.restServerPlayerJsonTags) ∧
    (∀ p : PlayerJson, p.members.map (fun m => kindOf m.2) =
      Facts.restServerPlayerKinds.map fun k => if k = "uint8" then "int" else k) ∧
    Facts.restServerObjectiveJsonTags = ["name", "status", "status_slug"] ∧
    (∀ o : ObjectiveJson, o.members.map (·.1) = Facts.restServerObjectiveJsonTags) ∧
    (∀ o : ObjectiveJson, o.members.map (fun m => kindOf m.2) = Facts.restServerObjectiveKinds) ∧
    Facts.restServerDetailJsonTags = ["info", "players", "objectives"] ∧
    detailMemberNames = Facts.restServerDetailJsonTags ∧ RestSpec.detailMembers = Facts.restServerDetailJsonTags ∧
    Facts.restServerDetailKinds = ["struct", "slice", "slice"] ∧
    RestSpec.serverWants.map (·.1) = Facts.restServerJsonTags ∧
    RestSpec.playerWants.map (·.1) = Facts.restServerPlayerJsonTags ∧
    RestSpec.objectiveWants.map (·.1) = Facts.restServerObjectiveJsonTags ∧
    Facts.restFilterFormTags = ["gamevariant", "gamever", "gametype", "nopassworded", "nofull", "noempty"] ∧
    Facts.restFilterFormKinds = ["string", "string", "string", "bool", "bool", "bool"] ∧
    RestSpec.infoFieldNames = Facts.infoFieldNames ∧ RestSpec.infoFieldKinds = Facts.infoFieldKinds ∧
    RestSpec.playerFieldNames = Facts.playerFieldNames ∧ RestSpec.playerFieldKinds = Facts.playerFieldKinds ∧
    RestSpec.objectiveFieldNames = Facts.objectiveFieldNames ∧ RestSpec.objectiveFieldKinds = Facts.objectiveFieldKinds ∧
    (∀ i : Info, (infoEntity i).map (·.1) = RestSpec.infoFieldNames) ∧
    (∀ p : Player, (playerEntity p).map (·.1) = RestSpec.playerFieldNames) ∧
    (∀ o : Objective, (objectiveEntity o).map (·.1) = RestSpec.objectiveFieldNames) ∧
    Facts.restDsInfo = dsInfo := by
  refine ⟨rfl, fun _ => rfl, ?_, rfl, fun _ => rfl, ?_, rfl, fun _ => rfl, ?_, rfl, rfl, rfl, rfl, rfl, rfl, rfl, rfl, rfl,
    rfl, rfl, rfl, rfl, rfl, rfl, fun _ => rfl, fun _ => rfl, fun _ => rfl, rfl⟩
  · intro s
    cases h1 : s.gameTypeSlug <;> cases h2 : s.mapNameSlug <;> simp [ServerJson.members, kindOf, slugAtom, h1, h2, Facts.restServerKinds]
  · intro p
    cases h1 : p.coopStatusSlug <;> simp [PlayerJson.members, kindOf, slugAtom, h1, Facts.restServerPlayerKinds]
  · intro o
    cases h1 : o.statusSlug <;> simp [ObjectiveJson.members, kindOf, slugAtom, h1, Facts.restServerObjectiveKinds]

/-- the integers `-2 … 8`, the sample of values whose `String()` the extractor records -/
def enumSample : List Int := [-2, -1, 0, 1, 2, 3, 4, 5, 6, 7, 8]

/-- **The `String()` methods as compiled**: for the values -2..8 the three methods of the source
return what `teamString`, `coopStatusString`, `objectiveStatusString` compute (names inside the
defined range, numerals outside on both sides). -/
theorem facts_enum_ok :
    Facts.restTeamStrings.map String.toList = enumSample.map teamString ∧
    Facts.restCoopStatusStrings.map String.toList = enumSample.map coopStatusString ∧
    Facts.restObjectiveStatusStrings.map String.toList = enumSample.map objectiveStatusString ∧
    RestSpec.teamNames.all (fun p => teamString p.1 == p.2.toList) = true ∧
    RestSpec.coopStatusNames.all (fun p => coopStatusString p.1 == p.2.toList) = true ∧
    RestSpec.objectiveStatusNames.all (fun p => objectiveStatusString p.1 == p.2.toList) = true := by
  decide

/-- **`slug.Make` as the REST model calls it, character by character**: for every code point `c`
of Latin-1 the slug of the game type `x<c>y` computed by the real `NewServerFromDomain` (recorded on
every run) is what `Slug.make` computes — this covers `enSub`/`defaultSub` (`&`, `@`, the quotes),
`unidecode`'s Latin-1 table as far as it survives lower-casing and the replacement of
non-authorized characters, and the handling of separators; likewise for the dashes U+2012..U+2015,
U+2019 and two astral code points, and for whole strings (trimming of white space and of `-`/`_` at
the ends, collapsing of runs, no length limit).  The table has 128 ASCII-only entries. -/
theorem slug_facts_ok :
    (List.range 256).map (fun c => Slug.make ['x', Char.ofNat c, 'y']) =
      Facts.restSlugLatin1.map (fun s => some s.toList) ∧
    ([0x2012, 0x2013, 0x2014, 0x2015, 0x2019, 0x10000, 0x1F600].map fun c => Slug.make ['x', Char.ofNat c, 'y']) =
      Facts.restSlugSpecial.map (fun s => some s.toList) ∧
    Facts.restSlugProbes.map (fun s => Slug.make s.toList) = Facts.restSlugProbeResults.map (fun s => some s.toList) ∧
    Slug.unidecodeLatin1.length = 128 ∧
    Slug.unidecodeLatin1.all (fun s => s.toList.all fun c => c.toNat < 128) = true ∧
    Slug.make ['x', Char.ofNat 0x100, 'y'] = none ∧ Slug.make ['x', Char.ofNat 0xFFFD, 'y'] = none := by
  refine ⟨Slug.slug_latin1, by decide, Slug.slug_probes, Slug.slug_table_shape.1, Slug.slug_table_shape.2, by decide, by decide⟩

/-- **Configuration wiring (regenerated fact).**  How configuration reaches the API component: listen address and HTTP timeouts: every field of every
configuration literal in `cmd/swat4master` that concerns this property, with the source text of the value it is given
(`verifharness facts`, go/ast, on every run).  A command-line value wired to another field, a unit conversion or a
`max`/`min` slipped into one of these literals changes the generated list and breaks this theorem; the harness itself
drives these components through their real fx modules (DESIGN 10.8), this pins what the modules are given. -/
def configRows : List (String × String × String × String × String) :=
    [("components/api/api.go", "*command.Run", "Config", "HTTPListenAddr", "c.HTTPListenAddress"),
     ("components/api/api.go", "*command.Run", "Config", "HTTPReadTimeout", "c.HTTPReadTimeout"),
     ("components/api/api.go", "*command.Run", "Config", "HTTPWriteTimeout", "c.HTTPWriteTimeout"),
     ("components/api/api.go", "*command.Run", "Config", "HTTPShutdownTimeout", "c.HTTPShutdownTimeout")]

theorem facts_config_wiring :
    (Facts.configWiring.filter fun r => configRows.contains r) = configRows ∧
    (Facts.configWiring.filter fun r => configRows.any fun c => c.1 == r.1 && c.2.1 == r.2.1 && c.2.2.1 == r.2.2.1 && c.2.2.2.1 == r.2.2.2.1) = configRows := by
  decide

/-! ## "never 5xx", bridged to the use-case programs

`addExecute` / `viewExecute` / `listExecute` have no 5xx constructor: `status < 500` in the tables above is true of
them by construction.  The Go use cases *can* fail: `UC.addServer` (the model of `addserver.Execute` as a program over
repository calls, the one C16 uses) ends in `unableToCreate` / `unableToDiscover`, which `servers_add.go:37-40` answers
with 500.  The theorems of this section (proved in `Lemmas/RestBridge.lean`) say that on a healthy store the program
computes exactly the table function, hence never reaches those outcomes — and what does reach them. -/

open RestBridge in
/-- **"never 5xx" is a theorem about the program, not the shape of the table** (`POST /api/servers`).  For every address
with a port the address constructor accepts and every store whose rows sit under the key of their own valid address
(`hk`: `C16.KeyedOk`, invariant of all interleavings of the non-popping components by `C16_interleaved`), running
`addserver.Execute` to completion without a storage fault gives: the handler's status = the status `addExecute` computes
from the abstraction of the store (so one of 200/202/410), the same body data, and a store that differs from the
initial one by exactly the effect `addExecute` names (`RestBridge.EffectIs`: nothing, or the one non-expiring discovery
probe for the submitted address appended to the queue and the one row written with `port_retry`). -/
theorem addExecute_abstracts (view : Server → Stored) (z : Fields) (m : Int) (a : Swat4.Addr) (s : AbsState) (now : Int)
    (ha : a.PortOk)
    (hk : ∀ (k : Nat) (row : SRow), s.servers[k]? = some row → row.svr.addr.key = k ∧ row.svr.addr.PortOk) :
    addStatus ((UC.addServer z m a).run s now).2 = (addExecute (addrOf a) (srvStateOf view s a)).status ∧
    addBody view ((UC.addServer z m a).run s now).2 = (addExecute (addrOf a) (srvStateOf view s a)).body ∧
    EffectIs z m a now s ((UC.addServer z m a).run s now).1 (addExecute (addrOf a) (srvStateOf view s a)).effect :=
  RestBridge.addExecute_abstracts view z m a s now ⟨by have := ha.1; omega, ha.2⟩ (canon_of_keyedOk s a ha hk)

open RestBridge in
/-- **the 5xx branch of `api.AddServer` is unreachable on a healthy store**: under the hypotheses above the outcome
of `addserver.Execute` is never `unableToCreate` nor `unableToDiscover`; and under *any* placement `fs` of storage
faults over its calls, a 500 outcome implies that `fs` contains a fault.  The honest limit of "never 5xx on any input":
it is about the input, for a use case run alone on a working Redis — see `addServer_5xx_reachable`. -/
theorem addServer_no_5xx (z : Fields) (m : Int) (a : Swat4.Addr) (s : AbsState) (now : Int) (ha : a.PortOk)
    (hk : ∀ (k : Nat) (row : SRow), s.servers[k]? = some row → row.svr.addr.key = k ∧ row.svr.addr.PortOk) :
    addStatus ((UC.addServer z m a).run s now).2 < 500 ∧
    ((UC.addServer z m a).run s now).2 ≠ .unableToCreate ∧ ((UC.addServer z m a).run s now).2 ≠ .unableToDiscover ∧
    ∀ fs, is5xx (runFaulty fs (UC.addServer z m a) s now).2 = true → ∃ e, some e ∈ fs :=
  have hp : 0 ≤ a.port ∧ a.port ≤ 65535 := ⟨by have := ha.1; omega, ha.2⟩
  have h := RestBridge.addServer_no_5xx z m a s now hp (canon_of_keyedOk s a ha hk)
  ⟨h.1, h.2.1, h.2.2, fun fs h5 => addServer_5xx_needs_fault z m a s now fs hp (canon_of_keyedOk s a ha hk) h5⟩

open RestBridge in
/-- **what does reach the 500 branch.**  (1)–(3): one storage error — before or after taking effect — at any one of the
repository calls `addserver.Execute` issues (`Get`; `Add`, `AddBetween`, `Update` for a new address; `AddBetween`,
`Update` for a stored, undiscovered one), from every store.  (4): no fault at all, valid input, healthy store — two
simultaneous submissions of the same new address (the second `Add` is refused: `ErrServerExists` →
`ErrUnableToCreateServer`), or a cleaner removing the record between the submission's `Get` and its marking `Update`
(`ErrServerNotFound` → `ErrUnableToDiscoverServer`): the model's interleaving semantics answers 500. -/
theorem addServer_5xx_reachable (z : Fields) (m : Int) (a : Swat4.Addr) (s : AbsState) (now : Int) (effect : Bool) :
    ((runFaulty [some effect] (UC.addServer z m a) s now).2 = .unableToCreate ∧
     (s.getRow a = none → 0 ≤ a.port ∧ a.port ≤ 65535 →
       (runFaulty [none, some effect] (UC.addServer z m a) s now).2 = .unableToCreate ∧
       (runFaulty [none, none, some effect] (UC.addServer z m a) s now).2 = .unableToDiscover ∧
       (runFaulty [none, none, none, some effect] (UC.addServer z m a) s now).2 = .unableToDiscover) ∧
     (∀ row, s.getRow a = some row → Status.has row.svr.status Status.details = false →
       Status.hasAny row.svr.status (Status.portRetry ||| Status.detailsRetry) = false →
       Status.has row.svr.status Status.noPort = false →
       (runFaulty [none, some effect] (UC.addServer z m a) s now).2 = .unableToDiscover ∧
       (runFaulty [none, none, some effect] (UC.addServer z m a) s now).2 = .unableToDiscover)) ∧
    (((RestBridge.W.twoSubmissions.run RestBridge.W.raceEvents).clients.map UClient.result?) = [some "202", some "500"] ∧
     ((RestBridge.W.submitVsCleaner.run RestBridge.W.removeEvents).clients.map UClient.result?) = [some "500", some "cleaned"]) :=
  ⟨addServer_fault_5xx z m a s now effect, addServer_race_5xx.1, addServer_race_5xx.2.1⟩

open RestBridge in
/-- **`GET /api/servers/:address`, bridged**: `getserver.Execute` as a program (one `Get`; `RestBridge.getServer`)
gives on a healthy store the status and body of `viewExecute` on the abstraction of the store and changes nothing; under
any fault placement the handler's status stays below 500 (a storage error is `ErrUnableToObtainServer`, which the
handler's switch does not map: an empty 200 — noted above under "outside the model"). -/
theorem viewExecute_abstracts (view : Server → Stored) (a : Swat4.Addr) (s : AbsState) (now : Int) :
    viewStatus ((getServer a).run s now).2 = (viewExecute (srvStateOf view s a)).status ∧
    viewBody view ((getServer a).run s now).2 = (viewExecute (srvStateOf view s a)).body ∧
    ((getServer a).run s now).1 = s ∧ (viewExecute (srvStateOf view s a)).effect = .none ∧
    (((getServer a).run s now).2 ≠ .unableToObtain) ∧
    ∀ fs, viewStatus (runFaulty fs (getServer a) s now).2 < 500 :=
  RestBridge.viewExecute_abstracts view a s now

open RestBridge in
/-- **`GET /api/servers`, bridged**: on a healthy store `listservers.Execute` with `ds.Info` succeeds with a list `l`
(by C14 `listed_iff_live`: exactly the stored servers with the `info` bit refreshed at or after `now − liveness`), and
`listExecute` on the abstraction of the store answers 200 with `l` filtered by the query and mapped through
`NewServerFromDomain`, in the same (key) order; the 500 of `servers_list.go:49-53` is reached exactly by a storage fault
at the one `Filter` call. -/
theorem listExecute_abstracts (view : Server → Stored) (liveness : Int) (f : ListForm) (s : AbsState) (now : Int) :
    (∃ l, (UC.listServers liveness Status.info).run s now = (s, .ok l) ∧
      listExecute now liveness f (recsOf view s) =
        ⟨200, some (.list ((l.filter fun sv => queryMatch (prepareQuery f) (view sv).info).map
          fun sv => serverJsonOf (view sv))), .none⟩) ∧
    ∀ effect, (runFaulty [none, some effect] (UC.listServers liveness Status.info) s now).2 = .error (.repo .storage) :=
  ⟨RestBridge.listExecute_abstracts view liveness f s now,
   fun effect => (listServers_5xx_iff_fault liveness Status.info s now effect).2⟩

/-- non-vacuity: the empty store and `RestBridge.W.stored` satisfy `hk`, `RestBridge.W.A` is a valid address; the
concrete runs are in `Lemmas/RestBridge.lean` -/
example : RestBridge.W.A.PortOk ∧
    (∀ (k : Nat) (row : SRow), ({} : AbsState).servers[k]? = some row → row.svr.addr.key = k ∧ row.svr.addr.PortOk) :=
  ⟨by unfold Addr.PortOk; decide, fun k row h => by simp at h⟩

/-- non-vacuity of the hypotheses of `addServer_5xx_reachable` (2) and (3): the empty store has no row for
`RestBridge.W.A`; `RestBridge.W.stored` holds it reported and never probed (the discovery branch); a fault at the
enqueue resp. at the marking update gives `unableToDiscover` on these concrete stores -/
example : (({} : AbsState).getRow RestBridge.W.A = none) ∧
    (RestBridge.runFaulty [none, none, some false] (UC.addServer [] 2 RestBridge.W.A) {} 5).2 = .unableToDiscover ∧
    (RestBridge.runFaulty [none, none, some true] (UC.addServer [] 2 RestBridge.W.A) RestBridge.W.stored 5).2 = .unableToDiscover ∧
    RestBridge.addStatus (RestBridge.runFaulty [none, none, none, none] (UC.addServer [] 2 RestBridge.W.A) {} 5).2 = 202 := by
  decide

/-! ### the flags of `GET /api/servers`: a characterisation (replaces the sampled `bindBool_table`) -/

/-- the six spellings `strconv.ParseBool` reads as `true` -/
def trueSpellings : List String := ["1", "t", "T", "TRUE", "true", "True"]

/-- the six spellings `strconv.ParseBool` reads as `false` -/
def falseSpellings : List String := ["0", "f", "F", "FALSE", "false", "False"]

/-- **C17 (flag binding, as an iff — the claim `bindBool_table` only samples).**  For EVERY value `v` of a boolean query
parameter of `GET /api/servers` (`none` = the parameter is absent, `some b` = its bytes after URL decoding), gin's
`setBoolField` (modelled by `Rest.bindBool`):

* binds `true` exactly when `b` is one of `1 t T TRUE true True`;
* binds `false` exactly when the parameter is absent, or its value is EMPTY (gin's special case: `""` is replaced by
  `"false"` before `strconv.ParseBool`), or `b` is one of `0 f F FALSE false False`;
* fails (⇒ 400) exactly when the value is present, non-empty and none of the twelve spellings — so mixed case
  (`tRUE`), padding (`" 1"`), `yes`/`on`/`2` are all errors.

The spellings are compared as byte strings (`Bytes.ofAscii`), as Go compares them. -/
theorem bindBool_iff (v : Option Bytes) :
    (bindBool v = some true ↔ ∃ s ∈ trueSpellings, v = some (Bytes.ofAscii s)) ∧
    (bindBool v = some false ↔ v = none ∨ v = some [] ∨ ∃ s ∈ falseSpellings, v = some (Bytes.ofAscii s)) ∧
    (bindBool v = none ↔ ∃ b, v = some b ∧ b ≠ [] ∧ ∀ s ∈ trueSpellings ++ falseSpellings, b ≠ Bytes.ofAscii s) := by
  have e1 : Bytes.ofAscii "1" = [49] := by decide
  have e2 : Bytes.ofAscii "t" = [116] := by decide
  have e3 : Bytes.ofAscii "T" = [84] := by decide
  have e4 : Bytes.ofAscii "TRUE" = [84, 82, 85, 69] := by decide
  have e5 : Bytes.ofAscii "true" = [116, 114, 117, 101] := by decide
  have e6 : Bytes.ofAscii "True" = [84, 114, 117, 101] := by decide
  have f1 : Bytes.ofAscii "0" = [48] := by decide
  have f2 : Bytes.ofAscii "f" = [102] := by decide
  have f3 : Bytes.ofAscii "F" = [70] := by decide
  have f4 : Bytes.ofAscii "FALSE" = [70, 65, 76, 83, 69] := by decide
  have f5 : Bytes.ofAscii "false" = [102, 97, 108, 115, 101] := by decide
  have f6 : Bytes.ofAscii "False" = [70, 97, 108, 115, 101] := by decide
  cases v with
  | none => simp [bindBool, trueSpellings, falseSpellings]
  | some b =>
    simp only [trueSpellings, falseSpellings, List.cons_append, List.nil_append, List.mem_cons, List.not_mem_nil,
      or_false, exists_eq_or_imp, exists_eq_left, forall_eq_or_imp, forall_eq, Option.some.injEq, reduceCtorEq,
      false_or, exists_eq_left', e1, e2, e3, e4, e5, e6, f1, f2, f3, f4, f5, f6, bindBool, parseBool, List.isEmpty_iff]
    by_cases h0 : b = []
    · subst h0; simp
    · simp only [h0, if_false, false_or, ne_eq, not_false_eq_true, true_and]
      split
      · rename_i h
        refine ⟨⟨fun _ => h, fun _ => rfl⟩, ⟨fun h' => (by cases h'), fun h' => ?_⟩, ⟨fun h' => (by cases h'), fun h' => ?_⟩⟩
        · rcases h with h | h | h | h | h | h <;> rcases h' with h' | h' | h' | h' | h' | h' <;> (rw [h] at h'; cases h')
        · obtain ⟨a1, a2, a3, a4, a5, a6, _⟩ := h'
          rcases h with h | h | h | h | h | h <;> contradiction
      · rename_i h
        split
        · rename_i h2
          refine ⟨⟨fun h' => (by cases h'), fun h' => absurd h' h⟩, ⟨fun _ => h2, fun _ => rfl⟩, ⟨fun h' => (by cases h'), fun h' => ?_⟩⟩
          obtain ⟨_, _, _, _, _, _, a1, a2, a3, a4, a5, a6⟩ := h'
          rcases h2 with h | h | h | h | h | h <;> contradiction
        · rename_i h2
          refine ⟨⟨fun h' => (by cases h'), fun h' => absurd h' h⟩, ⟨fun h' => (by cases h'), fun h' => absurd h' h2⟩, ⟨fun _ => ?_, fun _ => rfl⟩⟩
          simp only [not_or] at h h2
          exact ⟨h.1, h.2.1, h.2.2.1, h.2.2.2.1, h.2.2.2.2.1, h.2.2.2.2.2, h2.1, h2.2.1, h2.2.2.1, h2.2.2.2.1, h2.2.2.2.2.1, h2.2.2.2.2.2⟩

/-- the three classes of `bindBool_iff` are inhabited, and the borderline values fall where the iff says: `"True"` binds
`true`; absent, empty and `"F"` bind `false`; `"tRUE"`, `" 1"` and a single NUL byte are errors -/
example : bindBool (some (Bytes.ofAscii "True")) = some true ∧ bindBool none = some false ∧ bindBool (some []) = some false ∧
    bindBool (some (Bytes.ofAscii "F")) = some false ∧ bindBool (some (Bytes.ofAscii "tRUE")) = none ∧
    bindBool (some (Bytes.ofAscii " 1")) = none ∧ bindBool (some [0]) = none := by decide

end Swat4.C17
