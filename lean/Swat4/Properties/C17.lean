import Swat4.Model.Rest
import Swat4.Model.Styles
import Swat4.Spec.RestSpec
import Swat4.Gen.Facts
/-! # C17 — placeholder while the correspondence is brought up -/
namespace Swat4.C17
theorem placeholder : True := trivial
end Swat4.C17
