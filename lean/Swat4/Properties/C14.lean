import Swat4.Lemmas.FactsExtra14
import Swat4.Model.UseCases.Discovery
import Swat4.Lemmas.Prog
import Swat4.Lemmas.CleanComplete
import Swat4.Lemmas.RowInv
import Swat4.Properties.C11
import Swat4.Lemmas.TimedInv
import Swat4.Lemmas.CleanRace
import Swat4.Model.CleanerComponent
import Swat4.Lemmas.UseCaseMore
/-!
# C14 — Servers expire by the clock: fresh ones are never cleaned, stale ones are

`UC.listServers`, `UC.cleanServers`/`removeAll`, `UC.cleanInstances` model `listservers.Execute`,
`ServerCleaner.Clean` and `InstanceCleaner.Clean`; `AbsState.filter/remove/insClear` are the atomic
meaning of the repository calls (C09/C11).
-/
namespace Swat4.C14
open Swat4 Swat4.UC Std

/-- **listed ⇔ live**: a listing contains exactly the stored servers that carry the required status and
whose last refresh is no older than `now − liveness`; no cleanup is involved, a server drops out of
listings the instant the clock passes `refreshedAt + liveness`. -/
theorem listed_iff_live (s : AbsState) (now liveness : Int) (status : Status) (sv : Server) :
    (∃ l, ((listServers liveness status).run s now).2 = .ok l ∧ sv ∈ l) ↔
      ∃ kv ∈ s.servers.toList, kv.2.svr = sv ∧ Status.has sv.status status = true ∧
        ∃ t, sv.refreshedAt = some t ∧ now - liveness ≤ t := by
  simp only [listServers, Prog.run_call, Call.exec, Prog.run_pure]
  constructor
  · rintro ⟨l, hl, hm⟩
    cases hl
    unfold AbsState.filter at hm
    simp only [List.mem_map, List.mem_filter] at hm
    obtain ⟨kv, ⟨hkv, hp⟩, rfl⟩ := hm
    refine ⟨kv, hkv, rfl, ?_⟩
    simp only [FilterSet.pred] at hp
    cases hr : kv.2.svr.refreshedAt with
    | none => simp [hr] at hp
    | some t =>
      simp only [hr, Bool.and_eq_true, decide_eq_true_eq] at hp
      exact ⟨hp.1.1.1.1.1, t, rfl, hp.1.1.2⟩
  · rintro ⟨kv, hkv, rfl, hst, t, ht, hle⟩
    refine ⟨_, rfl, ?_⟩
    unfold AbsState.filter
    simp only [List.mem_map, List.mem_filter]
    refine ⟨kv, ⟨hkv, ?_⟩, rfl⟩
    simp [FilterSet.pred, hst, ht, hle, Status.hasAny]

/-- the scan of a cleanup pass selects exactly the records not written since the cutoff -/
theorem scan_selects_stale (s : AbsState) (cutoff : Int) (sv : Server) :
    sv ∈ s.filter { updatedBefore := some cutoff } ↔ ∃ kv ∈ s.servers.toList, kv.2.svr = sv ∧ kv.2.updatedAt < cutoff := by
  unfold AbsState.filter
  simp only [List.mem_map, List.mem_filter]
  constructor
  · rintro ⟨kv, ⟨hkv, hp⟩, rfl⟩
    refine ⟨kv, hkv, rfl, ?_⟩
    simpa [FilterSet.pred, Status.has, Status.hasAny] using hp
  · rintro ⟨kv, hkv, rfl, hlt⟩
    exact ⟨kv, ⟨hkv, by simp [FilterSet.pred, Status.has, Status.hasAny, hlt]⟩, rfl⟩

/-- **a refresh that commits after the scan defends the server**: the cleaner removes with the stale copy it
scanned; the stored record has a newer version, so the conflict callback is consulted on the latest
record, sees a refresh time after the cutoff and refuses — nothing changes. -/
theorem remove_refused_when_refreshed (s : AbsState) (cutoff : Int) (stale : Server) (ex : SRow) (t : Int)
    (hrow : s.getRow stale.addr = some ex) (hnewer : ex.svr.version > stale.version)
    (hr : ex.svr.refreshedAt = some t) (ht : t > cutoff) :
    (s.remove stale (cleanResolver cutoff)).1 = s := by
  unfold AbsState.remove cleanResolver
  simp [hrow, hnewer, hr, ht]

/-- a record that nobody wrote since the scan is removed (its version is the scanned one) -/
theorem remove_erases_unchanged (s : AbsState) (cutoff : Int) (stale : Server) (ex : SRow)
    (hrow : s.getRow stale.addr = some ex) (hsame : ex.svr = stale) :
    (s.remove stale (cleanResolver cutoff)).1.getRow stale.addr = none := by
  have hrow' : s.servers[stale.addr.key]? = some ex := hrow
  have : ¬ ex.svr.version > stale.version := by rw [hsame]; omega
  simp [AbsState.remove, AbsState.getRow, hrow', this]

/-- removal of one address never touches the row of another key -/
theorem remove_other_key (s : AbsState) (svr : Server) (res : Resolver) (k : Nat)
    (hres : ∀ x r, res x = some r → r.addr = x.addr)
    (hkeyed : ∀ ex, s.getRow svr.addr = some ex → ex.svr.addr.key = svr.addr.key)
    (hk : svr.addr.key ≠ k) :
    (s.remove svr res).1.servers[k]? = s.servers[k]? := by
  unfold AbsState.remove
  cases hrow : s.getRow svr.addr with
  | none => rfl
  | some ex =>
    simp only
    split
    · cases hr : res ex.svr with
      | none => rfl
      | some r =>
        have := hres _ _ hr
        simp only [ExtTreeMap.getElem?_erase]
        have hne : r.addr.key ≠ k := by rw [this, hkeyed ex hrow]; exact hk
        simp [hne]
    · simp only [ExtTreeMap.getElem?_erase]
      simp [hk]

theorem cleanResolver_keeps_addr (cutoff : Int) : ∀ x r, cleanResolver cutoff x = some r → r.addr = x.addr := by
  intro x r h
  unfold cleanResolver at h
  cases hr : x.refreshedAt with
  | none => simp [hr] at h; rw [← h]
  | some t =>
    simp only [hr] at h
    split at h
    · cases h
    · cases h; rfl

/-- every stored row sits under its own address key (holds in every reachable state, C05 `Rep.Inv` / C10) -/
def Keyed (s : AbsState) : Prop := ∀ (k : Nat) (row : SRow), s.servers[k]? = some row → row.svr.addr.key = k

theorem erase_keyed (s : AbsState) (h : Keyed s) (k0 : Nat) : Keyed { s with servers := s.servers.erase k0 } := by
  intro k row hk
  simp only [ExtTreeMap.getElem?_erase] at hk
  split at hk
  · cases hk
  · exact h k row hk

theorem remove_keyed (s : AbsState) (svr : Server) (res : Resolver) (h : Keyed s) : Keyed (s.remove svr res).1 := by
  unfold AbsState.remove
  cases hrow : s.getRow svr.addr with
  | none => exact h
  | some ex =>
    simp only
    split
    · cases res ex.svr with
      | none => exact h
      | some r => exact erase_keyed s h _
    · exact erase_keyed s h _

/-- **C14 (race).**  Whatever list of scanned copies the pass works through: a server whose stored record, at
the start of the deletions, is newer than every scanned copy of it and was refreshed after the cutoff is still
stored, unchanged, when the pass ends — the refresh may have committed between scan and delete. -/
theorem C14_race (cutoff now : Int) : ∀ (svrs : List Server) (s : AbsState) (removed errors : Nat) (k : Nat) (row : SRow) (t : Int),
    Keyed s → s.servers[k]? = some row → row.svr.refreshedAt = some t → t > cutoff →
    (∀ sv ∈ svrs, sv.addr.key = k → sv.version < row.svr.version) →
    ((removeAll cutoff svrs removed errors).run s now).1.servers[k]? = some row := by
  intro svrs
  induction svrs with
  | nil => intro s removed errors k row t _ hrow _ _ _; simpa [removeAll] using hrow
  | cons sv rest ih =>
    intro s removed errors k row t hkeyed hrow hr ht hver
    simp only [removeAll, Prog.run_call, Call.exec]
    have hstep : (s.remove sv (cleanResolver cutoff)).1.servers[k]? = some row := by
      by_cases hk : sv.addr.key = k
      · have hgr : s.getRow sv.addr = some row := by simp [AbsState.getRow, hk, hrow]
        rw [remove_refused_when_refreshed s cutoff sv row t hgr (hver sv (by simp) hk) hr ht]
        exact hrow
      · rw [remove_other_key s sv (cleanResolver cutoff) k (cleanResolver_keeps_addr cutoff)
          (by intro ex hex; exact hkeyed _ _ (by simpa [AbsState.getRow] using hex)) hk]
        exact hrow
    have hkeyed' := remove_keyed s sv (cleanResolver cutoff) hkeyed
    have hrest : ∀ sv' ∈ rest, sv'.addr.key = k → sv'.version < row.svr.version := fun sv' hm => hver sv' (by simp [hm])
    split
    · exact ih _ removed (errors + 1) k row t hkeyed' hstep hr ht hrest
    · exact ih _ (removed + 1) errors k row t hkeyed' hstep hr ht hrest

/-- the repaired guard of the pass: among the fetched records, those refreshed after the cutoff are not handed to the
deletions at all -/
def guarded (cutoff : Int) (svrs : List Server) : List Server :=
  svrs.filter fun s => match s.refreshedAt with | some t => !decide (t > cutoff) | none => true

theorem guard_drops_refreshed (cutoff : Int) (svrs : List Server) (sv : Server) (t : Int)
    (h : sv ∈ guarded cutoff svrs) (hr : sv.refreshedAt = some t) : t ≤ cutoff := by
  unfold guarded at h
  simp only [List.mem_filter, hr] at h
  have := h.2
  simp only [Bool.not_eq_true', decide_eq_false_iff_not] at this
  omega

/-- **C14 (refresh between the scan and the fetch).**  The pass scans the stale keys, then fetches the records.
If a heartbeat or keepalive committed in between, the fetched copy of that server *is* the refreshed record; the
guard drops it, so — whatever else is in the fetched list, as long as every other fetched copy of that key is
older than the stored record — the server is still stored, unchanged, after all deletions. -/
theorem C14_window (cutoff now : Int) (fetched : List Server) (s : AbsState) (k : Nat) (row : SRow) (t : Int)
    (hkeyed : Keyed s) (hrow : s.servers[k]? = some row) (hr : row.svr.refreshedAt = some t) (ht : t > cutoff)
    (hfetched : ∀ sv ∈ fetched, sv.addr.key = k → sv = row.svr ∨ sv.version < row.svr.version) :
    ((removeAll cutoff (guarded cutoff fetched) 0 0).run s now).1.servers[k]? = some row := by
  apply C14_race cutoff now (guarded cutoff fetched) s 0 0 k row t hkeyed hrow hr ht
  intro sv hsv hk
  have hmem : sv ∈ fetched := by
    unfold guarded at hsv
    exact (List.mem_filter.mp hsv).1
  rcases hfetched sv hmem hk with h | h
  · -- the fetched copy is the refreshed record itself: the guard has dropped it
    exfalso
    have := guard_drops_refreshed cutoff fetched sv t hsv (by rw [h]; exact hr)
    omega
  · exact h

/-- the pass, at storage-command granularity, hands exactly the guarded fetched records to the deletions -/
theorem cleanServers2_shape (retention : Int) :
    cleanServers2 retention = .call .now fun now =>
      .call (.scanServers { updatedBefore := some (now - retention) }) fun r =>
      match r with
      | .error _ => pure (0, 0)
      | .ok scanned =>
        if scanned.isEmpty then pure (0, 0)
        else .call (.fetchServers (scanned.map (·.addr))) fun r =>
          match r with
          | .error _ => pure (0, 0)
          | .ok svrs => removeAll (now - retention) (guarded (now - retention) svrs) 0 0 := rfl

/-- a refresh that committed *before* the scan keeps the server out of the scan altogether, provided the
record's update time is not older than its refresh time (`refreshedAt ≤ updatedAt`: every refresh is a write) -/
theorem refreshed_not_scanned (s : AbsState) (cutoff : Int) (kv : Nat × SRow) (t : Int)
    (hmem : kv ∈ s.servers.toList) (hr : kv.2.svr.refreshedAt = some t) (ht : t > cutoff) (hinv : t ≤ kv.2.updatedAt) :
    ({ updatedBefore := some cutoff } : FilterSet).pred kv.2 = false := by
  have : ¬ kv.2.updatedAt < cutoff := by omega
  simp [FilterSet.pred, this]

/-- instance cleanup removes exactly the instances not written since the cutoff (inclusive bound, as coded) -/
theorem clean_instances_count (s : AbsState) (now retention : Int) :
    ((cleanInstances retention).run s now).2 =
      .ok (s.instances.toList.filter fun kv => decide (kv.2.2 ≤ now - retention)).length := by
  simp [cleanInstances, AbsState.insClear, Call.exec]

/-! ## a cleanup pass removes every stale record, and only those -/

/-- the staleness condition of the pass on a row: `servers:updated` score before the cutoff -/
theorem stale_pred (cutoff : Int) (row : SRow) :
    ({ updatedBefore := some cutoff } : FilterSet).pred row = true ↔ row.updatedAt < cutoff := by
  simp [FilterSet.pred, Status.has, Status.hasAny]

/-- **C14 (a pass is complete and exact).**  `ServerCleaner.Clean` run at clock `now` with retention `ret`, from a store
in which every row sits under its own key: every record not written since `now − ret` (update time `< now − ret`, the
model's exact scan condition) is gone afterwards, every other record is stored unchanged — so each key is either
erased or untouched —, instances and queue are untouched, and the pass reports exactly the stale records as removed
and no error. -/
theorem clean_complete (s : AbsState) (now ret : Int) (hk : Keyed s) :
    (∀ (k : Nat) (row : SRow), s.servers[k]? = some row → row.updatedAt < now - ret → ((cleanServers ret).run s now).1.servers[k]? = none) ∧
    (∀ (k : Nat) (row : SRow), s.servers[k]? = some row → ¬ row.updatedAt < now - ret → ((cleanServers ret).run s now).1.servers[k]? = some row) ∧
    (∀ k : Nat, ((cleanServers ret).run s now).1.servers[k]? = none ∨ ((cleanServers ret).run s now).1.servers[k]? = s.servers[k]?) ∧
    ((cleanServers ret).run s now).1.instances = s.instances ∧ ((cleanServers ret).run s now).1.queue = s.queue ∧
    ((cleanServers ret).run s now).2 = ((s.filter { updatedBefore := some (now - ret) }).length, 0) := by
  obtain ⟨f1, f2⟩ := CleanComplete.filter_scanned s { updatedBefore := some (now - ret) } hk
  obtain ⟨r1, r2, r3, _, r5⟩ := CleanComplete.removeAll_scanned (now - ret) now (s.filter { updatedBefore := some (now - ret) }) s 0 0 f1
  have hrun : (cleanServers ret).run s now = (removeAll (now - ret) (s.filter { updatedBefore := some (now - ret) }) 0 0).run s now := rfl
  rw [hrun]
  have hstale : ∀ (k : Nat) (row : SRow), s.servers[k]? = some row → row.updatedAt < now - ret →
      ((removeAll (now - ret) (s.filter { updatedBefore := some (now - ret) }) 0 0).run s now).1.servers[k]? = none := by
    intro k row hrow hlt
    rw [r1 k, if_pos ((f2 k).2 ⟨row, hrow, (stale_pred _ _).2 hlt⟩)]
  have hfresh : ∀ k : Nat, (¬ ∃ row : SRow, s.servers[k]? = some row ∧ row.updatedAt < now - ret) →
      ((removeAll (now - ret) (s.filter { updatedBefore := some (now - ret) }) 0 0).run s now).1.servers[k]? = s.servers[k]? := by
    intro k hn
    rw [r1 k, if_neg]
    intro hm
    obtain ⟨row, hrow, hp⟩ := (f2 k).1 hm
    exact hn ⟨row, hrow, (stale_pred _ _).1 hp⟩
  refine ⟨hstale, ?_, ?_, r2, r3, by rw [r5]; simp⟩
  · intro k row hrow hn
    rw [hfresh k, hrow]
    rintro ⟨row', hrow', hlt⟩
    rw [hrow] at hrow'; cases hrow'; exact hn hlt
  · intro k
    by_cases h : ∃ row : SRow, s.servers[k]? = some row ∧ row.updatedAt < now - ret
    · obtain ⟨row, hrow, hlt⟩ := h
      exact Or.inl (hstale k row hrow hlt)
    · exact Or.inr (hfresh k h)

/-! ## `refreshedAt ≤ updatedAt` is an invariant -/

/-- every stored record's refresh time is not after its last-write time -/
def RefLeUpd (s : AbsState) : Prop :=
  ∀ (k : Nat) (row : SRow), s.servers[k]? = some row → ∀ t, row.svr.refreshedAt = some t → t ≤ row.updatedAt

/-- the clock value `now` is not before any stored last-write time (the clock never went backwards) -/
def ClockAfter (s : AbsState) (now : Int) : Prop :=
  ∀ (k : Nat) (row : SRow), s.servers[k]? = some row → row.updatedAt ≤ now

theorem ClockAfter.mono {s : AbsState} {now now' : Int} (h : ClockAfter s now) (hle : now ≤ now') : ClockAfter s now' :=
  fun k row hrow => Int.le_trans (h k row hrow) hle

/-- the row predicate behind `RefLeUpd ∧ ClockAfter` -/
def refRow (now : Int) (row : SRow) : Prop :=
  row.updatedAt ≤ now ∧ ∀ t, row.svr.refreshedAt = some t → t ≤ row.updatedAt

theorem refRow_closed (now : Int) : RowInv.Closed now (refRow now) where
  fld := by
    intro sv sv' u _ hr h
    exact ⟨h.1, fun t ht => h.2 t (by rw [← hr]; exact ht)⟩
  read := by
    intro sv u h
    exact ⟨Int.le_refl _, fun t ht => Int.le_trans (h.2 t ht) h.1⟩

theorem allRows_refRow (s : AbsState) (now : Int) : RowInv.AllRows (refRow now) s ↔ RefLeUpd s ∧ ClockAfter s now :=
  ⟨fun h => ⟨fun k row hr => (h k row hr).2, fun k row hr => (h k row hr).1⟩,
   fun h k row hr => ⟨h.2 k row hr, h.1 k row hr⟩⟩

/-- what a repository call must satisfy to keep the invariant at clock `now`: the record it writes, and whatever its
conflict callback makes of a stored record whose refresh time is `≤ now`, has a refresh time `≤ now` -/
def WritesRefLeNow (now : Int) : {β : Type} → Call β → Prop := @RowInv.CallOK now (refRow now)

/-- **`RefLeUpd` is preserved by every repository call** that writes only records refreshed no later than the clock
(`WritesRefLeNow`; every call the use cases issue is one: `usecases_write_refLeNow`), under a clock that is not
before any stored update time; `Keyed` and `ClockAfter` are preserved along. -/
theorem exec_refLeUpd {β : Type} (c : Call β) (s : AbsState) (now : Int) (hc : WritesRefLeNow now c)
    (hk : Keyed s) (hr : RefLeUpd s) (hcl : ClockAfter s now) :
    Keyed (c.exec s now).1 ∧ RefLeUpd (c.exec s now).1 ∧ ClockAfter (c.exec s now).1 now := by
  obtain ⟨a, b, _⟩ := RowInv.exec_inv (refRow_closed now) c s hc hk ((allRows_refRow s now).2 ⟨hr, hcl⟩)
  exact ⟨a, ((allRows_refRow _ now).1 b).1, ((allRows_refRow _ now).1 b).2⟩

/-- for the invariant every key may be refreshed now and a never-refreshed record may be created -/
theorem refRow_fresh (now : Int) (a : Addr) : RowInv.Fresh now (refRow now) a ∧ RowInv.Blank now (refRow now) a :=
  ⟨fun sv _ hr => ⟨Int.le_refl _, fun t ht => by rw [hr] at ht; cases ht; exact Int.le_refl _⟩,
   fun sv _ hr => ⟨Int.le_refl _, fun t ht => by rw [hr] at ht; cases ht⟩⟩

/-- **every call of every use case writes only records refreshed no later than the clock** (walk over the program
trees: report, keepalive, removal, probe outcome handling, refresh, revival, REST submission, the cleaners, listing) -/
theorem usecases_write_refLeNow (now : Int) :
    (∀ z m req, RowInv.Pres now (refRow now) (UC.report z m req)) ∧
    (∀ i ip, RowInv.Pres now (refRow now) (UC.renew i ip)) ∧
    (∀ i a, RowInv.Pres now (refRow now) (UC.remove i a)) ∧
    (∀ prb outcome, RowInv.Pres now (refRow now) (UC.probe prb outcome)) ∧
    (∀ m d, RowInv.Pres now (refRow now) (UC.refresh m d)) ∧
    (∀ m a b c d e f, RowInv.Pres now (refRow now) (UC.revive m a b c d e f)) ∧
    (∀ z m a, RowInv.Pres now (refRow now) (UC.addServer z m a)) ∧
    (∀ ret, RowInv.Pres now (refRow now) (cleanServers ret)) ∧
    (∀ ret, RowInv.Pres now (refRow now) (cleanServers2 ret)) ∧
    (∀ ret, RowInv.Pres now (refRow now) (cleanInstances ret)) ∧
    (∀ l st, RowInv.Pres now (refRow now) (listServers l st)) :=
  have hc := refRow_closed now
  ⟨fun z m req => RowInv.report_pres hc z m req (refRow_fresh now _).1,
   fun i ip => RowInv.renew_pres i ip fun a => (refRow_fresh now a).1,
   fun i a => RowInv.remove_pres i a,
   fun prb outcome => RowInv.probe_pres hc prb outcome (refRow_fresh now _).1,
   fun m d => RowInv.refresh_pres m d,
   fun m a b c d e f => RowInv.revive_pres m a b c d e f,
   fun z m a => RowInv.addServer_pres hc z m a (refRow_fresh now _).2,
   fun ret => RowInv.cleanServers_pres ret,
   fun ret => RowInv.cleanServers2_pres ret,
   fun ret => RowInv.cleanInstances_pres ret,
   fun l st => RowInv.listServers_pres l st⟩

/-- the three facts that travel together: rows under their keys, `refreshedAt ≤ updatedAt`, clock not behind -/
def RefInv (s : AbsState) (now : Int) : Prop := Keyed s ∧ RefLeUpd s ∧ ClockAfter s now

theorem RefInv.tick {s : AbsState} {now now' : Int} (h : RefInv s now) (hle : now ≤ now') : RefInv s now' :=
  ⟨h.1, h.2.1, h.2.2.mono hle⟩

/-- a program that walks as `RowInv.Pres` keeps `RefInv`, run to completion or stopped / faulted anywhere -/
theorem refInv_of_pres {α : Type} {p : Prog α} {now : Int} (hp : RowInv.Pres now (refRow now) p) (s : AbsState)
    (h : RefInv s now) : RefInv (p.run s now).1 now ∧ ∀ cs, RefInv (p.runChoices cs s now) now := by
  have hall := (allRows_refRow s now).2 ⟨h.2.1, h.2.2⟩
  constructor
  · obtain ⟨a, b⟩ := hp.run (refRow_closed now) s h.1 hall
    exact ⟨a, ((allRows_refRow _ now).1 b).1, ((allRows_refRow _ now).1 b).2⟩
  · intro cs
    obtain ⟨a, b⟩ := hp.runChoices (refRow_closed now) cs s h.1 hall
    exact ⟨a, ((allRows_refRow _ now).1 b).1, ((allRows_refRow _ now).1 b).2⟩

/-- **C14 (`refreshedAt ≤ updatedAt` is an invariant).**  From a store with `RefInv` (in particular the empty one) every
use case — report, keepalive, removal, probe outcome handling, refresh, revival, REST submission, both forms of the server
cleanup, instance cleanup, listing — run at a clock value `now` that is not before any stored update time leaves a store
with `RefInv` again: after a complete run (`Prog.run`) and after every crash / fault prefix of it (`Prog.runChoices`).
With `RefInv.tick` (the clock may advance between use cases) this makes `RefLeUpd` hold in every state reached by any
sequence of use-case executions on a monotone clock. -/
theorem refLeUpd_preserved (s : AbsState) (now : Int) (h : RefInv s now) :
    (∀ z m req, RefInv ((UC.report z m req).run s now).1 now ∧ ∀ cs, RefInv ((UC.report z m req).runChoices cs s now) now) ∧
    (∀ i ip, RefInv ((UC.renew i ip).run s now).1 now ∧ ∀ cs, RefInv ((UC.renew i ip).runChoices cs s now) now) ∧
    (∀ i a, RefInv ((UC.remove i a).run s now).1 now ∧ ∀ cs, RefInv ((UC.remove i a).runChoices cs s now) now) ∧
    (∀ prb o, RefInv ((UC.probe prb o).run s now).1 now ∧ ∀ cs, RefInv ((UC.probe prb o).runChoices cs s now) now) ∧
    (∀ m d, RefInv ((UC.refresh m d).run s now).1 now ∧ ∀ cs, RefInv ((UC.refresh m d).runChoices cs s now) now) ∧
    (∀ m a b c d e f, RefInv ((UC.revive m a b c d e f).run s now).1 now ∧
      ∀ cs, RefInv ((UC.revive m a b c d e f).runChoices cs s now) now) ∧
    (∀ z m a, RefInv ((UC.addServer z m a).run s now).1 now ∧ ∀ cs, RefInv ((UC.addServer z m a).runChoices cs s now) now) ∧
    (∀ ret, RefInv ((cleanServers ret).run s now).1 now ∧ ∀ cs, RefInv ((cleanServers ret).runChoices cs s now) now) ∧
    (∀ ret, RefInv ((cleanServers2 ret).run s now).1 now ∧ ∀ cs, RefInv ((cleanServers2 ret).runChoices cs s now) now) ∧
    (∀ ret, RefInv ((cleanInstances ret).run s now).1 now ∧ ∀ cs, RefInv ((cleanInstances ret).runChoices cs s now) now) := by
  obtain ⟨h1, h2, h3, h4, h5, h6, h7, h8, h9, h10, _⟩ := usecases_write_refLeNow now
  exact ⟨fun z m req => refInv_of_pres (h1 z m req) s h, fun i ip => refInv_of_pres (h2 i ip) s h,
    fun i a => refInv_of_pres (h3 i a) s h, fun prb o => refInv_of_pres (h4 prb o) s h,
    fun m d => refInv_of_pres (h5 m d) s h, fun m a b c d e f => refInv_of_pres (h6 m a b c d e f) s h,
    fun z m a => refInv_of_pres (h7 z m a) s h, fun ret => refInv_of_pres (h8 ret) s h,
    fun ret => refInv_of_pres (h9 ret) s h, fun ret => refInv_of_pres (h10 ret) s h⟩

/-- the empty store satisfies the invariant at every clock value -/
theorem refInv_empty (now : Int) : RefInv {} now :=
  ⟨fun k row h => by simp at h, fun k row h => by simp at h, fun k row h => by simp at h⟩

/-- `refreshed_not_scanned` with the per-row hypothesis replaced by the invariant -/
theorem refreshed_not_scanned_inv (s : AbsState) (cutoff : Int) (hinv : RefLeUpd s) (kv : Nat × SRow) (t : Int)
    (hmem : kv ∈ s.servers.toList) (hr : kv.2.svr.refreshedAt = some t) (ht : t > cutoff) :
    ({ updatedBefore := some cutoff } : FilterSet).pred kv.2 = false :=
  refreshed_not_scanned s cutoff kv t hmem hr ht
    (hinv kv.1 kv.2 (ExtTreeMap.mem_toList_iff_getElem?_eq_some.1 hmem) t hr)

/-- **C14 (a server refreshed after the cutoff is kept by a pass)**, from the invariant: in a store with `Keyed` and
`RefLeUpd` a record whose refresh time is after `now − ret` is stored unchanged after `ServerCleaner.Clean`. -/
theorem clean_keeps_refreshed (s : AbsState) (now ret : Int) (hk : Keyed s) (hinv : RefLeUpd s)
    (k : Nat) (row : SRow) (t : Int) (hrow : s.servers[k]? = some row) (hr : row.svr.refreshedAt = some t)
    (ht : t > now - ret) : ((cleanServers ret).run s now).1.servers[k]? = some row := by
  have := hinv k row hrow t hr
  exact (clean_complete s now ret hk).2.1 k row hrow (by omega)

/-- **C14 (a refresh BEFORE the pass is respected — a sequential statement, not a race).**  Start from any store with
`RefInv` at clock `now`; let any use case `p` run there first (completely, or stopped / faulted anywhere); only THEN,
after `p` has ended, let a whole cleanup pass with retention `ret` run, uninterrupted, at any clock value `now'`.  Every
server whose record, after `p`, carries a refresh time after the cutoff `now' − ret` — in particular the one a
heartbeat, keepalive or successful probe just refreshed — is still stored, unchanged, after the pass.  No per-row
hypothesis is left: `refreshedAt ≤ updatedAt` is derived.  Nothing is interleaved here: `p` and the pass run one after
the other.  The interleaved statement (a refresh landing BETWEEN the pass's scan and its delete) is `clean_race_run`
(and `clean_race_run_lazy`) below, over the storage-command-granular `cleanServers2`. -/
theorem refreshed_survives_pass {α : Type} (p : Prog α) (now now' ret : Int) (hp : RowInv.Pres now (refRow now) p)
    (s : AbsState) (h : RefInv s now) (cs : List Choice) (k : Nat) (row : SRow) (t : Int) :
    (((p.run s now).1.servers[k]? = some row → row.svr.refreshedAt = some t → t > now' - ret →
      ((cleanServers ret).run (p.run s now).1 now').1.servers[k]? = some row)) ∧
    ((p.runChoices cs s now).servers[k]? = some row → row.svr.refreshedAt = some t → t > now' - ret →
      ((cleanServers ret).run (p.runChoices cs s now) now').1.servers[k]? = some row) := by
  obtain ⟨h1, h2⟩ := refInv_of_pres hp s h
  exact ⟨fun hrow hr ht => clean_keeps_refreshed _ now' ret h1.1 h1.2.1 k row t hrow hr ht,
    fun hrow hr ht => clean_keeps_refreshed _ now' ret (h2 cs).1 (h2 cs).2.1 k row t hrow hr ht⟩

/-! ### the pass at storage-command granularity (`cleanServers2`) -/

/-- under the invariant the scan/fetch form of the pass, run without interference, does exactly what the atomic form
does: the fetch returns the scanned copies, and the repaired guard (skip what was refreshed after the cutoff) never
fires because a stale record's refresh time is `≤` its update time `<` cutoff -/
theorem cleanServers2_run_eq (s : AbsState) (now ret : Int) (hk : Keyed s) (hinv : RefLeUpd s) :
    (cleanServers2 ret).run s now = (cleanServers ret).run s now := by
  obtain ⟨f1, f2⟩ := CleanComplete.filter_scanned s { updatedBefore := some (now - ret) } hk
  have hmem : ∀ sv ∈ s.filter { updatedBefore := some (now - ret) },
      ∃ row, s.servers[sv.addr.key]? = some row ∧ row.svr = sv ∧ row.updatedAt < now - ret := by
    intro sv hsv
    obtain ⟨row, hrow, hp⟩ := (f2 sv.addr.key).1 (List.mem_map.2 ⟨sv, hsv, rfl⟩)
    exact ⟨row, hrow, f1 sv hsv row hrow, (stale_pred _ _).1 hp⟩
  have hfetch := CleanComplete.fetch_scanned s (s.filter { updatedBefore := some (now - ret) })
    (fun sv hsv => by obtain ⟨row, a, b, _⟩ := hmem sv hsv; exact ⟨row, a, b⟩)
  have hguard : guarded (now - ret) (s.filter { updatedBefore := some (now - ret) }) =
      s.filter { updatedBefore := some (now - ret) } := by
    unfold guarded
    rw [List.filter_eq_self]
    intro sv hsv
    obtain ⟨row, hrow, hs, hlt⟩ := hmem sv hsv
    cases hr : sv.refreshedAt with
    | none => rfl
    | some t =>
      have := hinv _ row hrow t (by rw [hs]; exact hr)
      simp only [Bool.not_eq_true', decide_eq_false_iff_not]
      omega
  simp only [cleanServers2_shape, cleanServers, Prog.run_call, Call.exec]
  cases hl : s.filter { updatedBefore := some (now - ret) } with
  | nil => simp [removeAll]
  | cons sv rest =>
    rw [hl] at hfetch hguard
    simp only [List.isEmpty_cons, Bool.false_eq_true, if_false, Prog.run_call, Call.exec]
    rw [hfetch, hguard]

/-- **C14 (a pass is complete and exact), for the scan / fetch / delete form the driver runs**: as `clean_complete`,
from a store with `Keyed` and `RefLeUpd` -/
theorem clean_complete2 (s : AbsState) (now ret : Int) (hk : Keyed s) (hinv : RefLeUpd s) :
    (∀ (k : Nat) (row : SRow), s.servers[k]? = some row → row.updatedAt < now - ret → ((cleanServers2 ret).run s now).1.servers[k]? = none) ∧
    (∀ (k : Nat) (row : SRow), s.servers[k]? = some row → ¬ row.updatedAt < now - ret → ((cleanServers2 ret).run s now).1.servers[k]? = some row) ∧
    (∀ k : Nat, ((cleanServers2 ret).run s now).1.servers[k]? = none ∨ ((cleanServers2 ret).run s now).1.servers[k]? = s.servers[k]?) ∧
    (∀ (k : Nat) (row : SRow) (t : Int), s.servers[k]? = some row → row.svr.refreshedAt = some t → t > now - ret →
      ((cleanServers2 ret).run s now).1.servers[k]? = some row) ∧
    ((cleanServers2 ret).run s now).2 = ((s.filter { updatedBefore := some (now - ret) }).length, 0) := by
  rw [cleanServers2_run_eq s now ret hk hinv]
  obtain ⟨a, b, c, _, _, f⟩ := clean_complete s now ret hk
  exact ⟨a, b, c, fun k row t hrow hr ht => clean_keeps_refreshed s now ret hk hinv k row t hrow hr ht, f⟩

/-! ### instance cleanup: which instances remain -/

/-- **C14 (instance cleanup, state version)**: after `InstanceCleaner.Clean` at clock `now` with retention `ret` an
instance is gone iff it was not written since `now − ret` (update time `≤ now − ret`: inclusive, as coded), every other
instance is stored unchanged; registry and queue are untouched (through `C11.insClear_spec`) -/
theorem clean_instances_state (s : AbsState) (now ret : Int) (id : Nat) :
    (∀ v, s.instances[id]? = some v → v.2 ≤ now - ret → ((cleanInstances ret).run s now).1.instances[id]? = none) ∧
    (∀ v, s.instances[id]? = some v → now - ret < v.2 → ((cleanInstances ret).run s now).1.instances[id]? = some v) ∧
    (s.instances[id]? = none → ((cleanInstances ret).run s now).1.instances[id]? = none) ∧
    ((cleanInstances ret).run s now).1.servers = s.servers ∧ ((cleanInstances ret).run s now).1.queue = s.queue := by
  have hrun : ((cleanInstances ret).run s now).1 = (s.insClear (some (now - ret))).1 := rfl
  rw [hrun]
  have hspec := C11.insClear_spec s (some (now - ret)) id
  refine ⟨?_, ?_, ?_, rfl, rfl⟩
  · intro v hv hle
    rw [hspec, if_pos ⟨v, hv, fun b hb => by cases hb; exact hle⟩]
  · intro v hv hlt
    rw [hspec, if_neg, hv]
    rintro ⟨v', hv', hb⟩
    rw [hv] at hv'; cases hv'
    have := hb _ rfl
    omega
  · intro hn
    rw [hspec, if_neg, hn]
    rintro ⟨v', hv', _⟩
    rw [hn] at hv'; cases hv'

/-! ## the refresh time changes only on a heartbeat, a keepalive or a successful probe -/

/-- the row `row'` stored under key `k` after a run carries the refresh time that was stored under `k` before it (or the
key is new and the record has never been refreshed) -/
def RefUnchanged (s : AbsState) (k : Nat) (row' : SRow) : Prop :=
  (∃ row : SRow, s.servers[k]? = some row ∧ row.svr.refreshedAt = row'.svr.refreshedAt) ∨
  (s.servers[k]? = none ∧ row'.svr.refreshedAt = none)

/-- the row predicate: refresh time as before the run in `s0`, or `now` under a key the use case may refresh (`A`) -/
def refOnly (s0 : AbsState) (now : Int) (A : Nat → Prop) (row : SRow) : Prop :=
  RefUnchanged s0 row.svr.addr.key row ∨ (A row.svr.addr.key ∧ row.svr.refreshedAt = some now)

theorem refOnly_closed (s0 : AbsState) (now : Int) (A : Nat → Prop) : RowInv.Closed now (refOnly s0 now A) where
  fld := by
    intro sv sv' u ha hr h
    unfold refOnly RefUnchanged at h ⊢
    simp only [ha, hr]
    exact h
  read := fun sv u h => h

theorem refOnly_init (s0 : AbsState) (now : Int) (A : Nat → Prop) (hk : Keyed s0) : RowInv.AllRows (refOnly s0 now A) s0 := by
  intro k row hrow
  refine Or.inl (Or.inl ⟨row, ?_, rfl⟩)
  rw [hk k row hrow]; exact hrow

/-- a program that walks as `RowInv.Pres` for `refOnly`: every row stored after the run has its old refresh time, or
`now` under an allowed key -/
theorem run_refOnly {α : Type} (p : Prog α) (s : AbsState) (now : Int) (A : Nat → Prop) (hk : Keyed s)
    (hp : RowInv.Pres now (refOnly s now A) p) (k : Nat) (row' : SRow) (h : (p.run s now).1.servers[k]? = some row') :
    RefUnchanged s k row' ∨ (A k ∧ row'.svr.refreshedAt = some now) := by
  obtain ⟨a, b⟩ := hp.run (refOnly_closed s now A) s hk (refOnly_init s now A hk)
  have := b k row' h
  unfold refOnly at this
  rw [a k row' h] at this
  exact this

theorem run_refSame {α : Type} (p : Prog α) (s : AbsState) (now : Int) (hk : Keyed s)
    (hp : RowInv.Pres now (refOnly s now fun _ => False) p) (k : Nat) (row' : SRow)
    (h : (p.run s now).1.servers[k]? = some row') : RefUnchanged s k row' := by
  rcases run_refOnly p s now _ hk hp k row' h with h | h
  · exact h
  · exact h.1.elim

theorem refOnly_fresh (s0 : AbsState) (now : Int) (a : Addr) : RowInv.Fresh now (refOnly s0 now (· = a.key)) a :=
  fun _ hkey hr => Or.inr ⟨hkey, hr⟩

/-- **C14 ("last heartbeat, keepalive or successful probe").**  For every use case run at clock `now` from a store with
rows under their keys, and every row stored afterwards under a key `k`: its refresh time is the one stored under `k`
before the run (a record created by the REST submission has none) — `RefUnchanged` — except that it may be `now`
 * under the reporter's key after `reportserver.Execute`,
 * under the key of the address bound to the instance after `renewserver.Execute` (keepalive), and only if the datagram
   came from that address's IP,
 * under the probe's key after `probeserver.Execute` with a successful outcome.
A failed probe (retry or final failure), refresh, revival, REST submission, removal, both cleaners and the listing leave
every stored refresh time as it was.  (`report_rejected_unchanged` / `renew_rejected_unchanged`: a rejected heartbeat or
keepalive changes nothing at all.) -/
theorem refreshedAt_changes_only_by (s : AbsState) (now : Int) (hk : Keyed s) (k : Nat) (row' : SRow) :
    (∀ z m req, ((UC.report z m req).run s now).1.servers[k]? = some row' →
      RefUnchanged s k row' ∨ (k = req.addr.key ∧ row'.svr.refreshedAt = some now)) ∧
    (∀ i ip, ((UC.renew i ip).run s now).1.servers[k]? = some row' →
      RefUnchanged s k row' ∨
        (∃ (a : Addr) (u : Int), s.instances[i]? = some (a, u) ∧ a.ip = ip ∧ k = a.key ∧ row'.svr.refreshedAt = some now)) ∧
    (∀ prb res, ((UC.probe prb (some res)).run s now).1.servers[k]? = some row' →
      RefUnchanged s k row' ∨ (k = prb.addr.key ∧ row'.svr.refreshedAt = some now)) ∧
    (∀ prb, ((UC.probe prb none).run s now).1.servers[k]? = some row' → RefUnchanged s k row') ∧
    (∀ m d, ((UC.refresh m d).run s now).1.servers[k]? = some row' → RefUnchanged s k row') ∧
    (∀ m a b c d e f, ((UC.revive m a b c d e f).run s now).1.servers[k]? = some row' → RefUnchanged s k row') ∧
    (∀ z m a, ((UC.addServer z m a).run s now).1.servers[k]? = some row' → RefUnchanged s k row') ∧
    (∀ i a, ((UC.remove i a).run s now).1.servers[k]? = some row' → RefUnchanged s k row') ∧
    (∀ ret, ((cleanServers ret).run s now).1.servers[k]? = some row' → RefUnchanged s k row') ∧
    (∀ ret, ((cleanServers2 ret).run s now).1.servers[k]? = some row' → RefUnchanged s k row') ∧
    (∀ ret, ((cleanInstances ret).run s now).1.servers[k]? = some row' → RefUnchanged s k row') ∧
    (∀ l st, ((listServers l st).run s now).1.servers[k]? = some row' → RefUnchanged s k row') := by
  have same : ∀ {α : Type} (p : Prog α), RowInv.Pres now (refOnly s now fun _ => False) p →
      (p.run s now).1.servers[k]? = some row' → RefUnchanged s k row' :=
    fun p hp h => run_refSame p s now hk hp k row' h
  have hc0 := refOnly_closed s now (fun _ => False)
  refine ⟨?_, ?_, ?_, fun prb => same _ (RowInv.probe_none_pres hc0 prb), fun m d => same _ (RowInv.refresh_pres m d),
    fun m a b c d e f => same _ (RowInv.revive_pres m a b c d e f), ?_, fun i a => same _ (RowInv.remove_pres i a),
    fun ret => same _ (RowInv.cleanServers_pres ret), fun ret => same _ (RowInv.cleanServers2_pres ret),
    fun ret => same _ (RowInv.cleanInstances_pres ret), fun l st => same _ (RowInv.listServers_pres l st)⟩
  · intro z m req h
    exact run_refOnly _ s now (· = req.addr.key) hk
      (RowInv.report_pres (refOnly_closed s now _) z m req (refOnly_fresh s now req.addr)) k row' h
  · intro i ip h
    rw [RowInv.renew_eq, Prog.run_call] at h
    simp only [Call.exec, AbsState.insGet] at h
    cases hi : s.instances[i]? with
    | none =>
      rw [hi] at h
      exact Or.inl (same (pure (Except.error (UErr.repo .instanceNotFound)) : Prog (Except UErr Unit)) (RowInv.Pres.pure _) h)
    | some v =>
      obtain ⟨a, u⟩ := v
      rw [hi] at h
      by_cases hip : a.ip = ip
      · rcases run_refOnly _ s now (· = a.key) hk
          (RowInv.renewTail_pres ⟨i, a⟩ ip (refOnly_fresh s now a)) k row' h with h' | h'
        · exact Or.inl h'
        · exact Or.inr ⟨a, u, rfl, hip, h'.1, h'.2⟩
      · have : RowInv.renewTail ⟨i, a⟩ ip = pure (.error .unknownInstance) := by
          unfold RowInv.renewTail; rw [if_pos hip]
        simp only [this] at h
        exact Or.inl (same (pure (Except.error UErr.unknownInstance) : Prog (Except UErr Unit)) (RowInv.Pres.pure _) h)
  · intro prb res h
    exact run_refOnly _ s now (· = prb.addr.key) hk
      (RowInv.probe_pres (refOnly_closed s now _) prb (some res) (refOnly_fresh s now prb.addr)) k row' h
  · intro z m a h
    rw [RowInv.addServer_eq, Prog.run_call] at h
    simp only [Call.exec, AbsState.get] at h
    cases hrow : s.getRow a with
    | some row =>
      rw [hrow] at h
      have hrow' : s.servers[a.key]? = some row := hrow
      exact same _ (RowInv.maybeDiscoverServer_pres hc0 m row.svr
        (RowInv.held_of_row hc0 (refOnly_init s now _ hk) hrow')) h
    | none =>
      rw [hrow] at h
      have hrow' : s.servers[a.key]? = none := hrow
      refine same _ (RowInv.addServerNew_pres hc0 z m a ?_) h
      intro sv hsv hr
      exact Or.inl (Or.inr ⟨by rw [hsv]; exact hrow', hr⟩)

/-- a heartbeat that is rejected (`ErrInvalidRequestPayload`: the info does not parse / validate) changes nothing -/
theorem report_rejected_unchanged (s : AbsState) (now : Int) (z : Fields) (m : Int) (req : ReportReq)
    (h : req.info = none) : ((UC.report z m req).run s now).1 = s := by
  simp only [UC.report, h, Prog.run_call, Call.exec]
  cases s.get req.addr with
  | ok svr => rfl
  | error e =>
    cases e with
    | serverNotFound =>
      simp only
      cases newServer z req.addr req.queryPort <;> rfl
    | _ => rfl

/-- a keepalive for an unknown instance, or from another IP than the instance's server, changes nothing -/
theorem renew_rejected_unchanged (s : AbsState) (now : Int) (i ip : Nat)
    (h : ∀ (a : Addr) (u : Int), s.instances[i]? = some (a, u) → a.ip ≠ ip) : ((UC.renew i ip).run s now).1 = s := by
  simp only [UC.renew, Prog.run_call, Call.exec, AbsState.insGet]
  cases hi : s.instances[i]? with
  | none => rfl
  | some v =>
    obtain ⟨a, u⟩ := v
    simp only [if_pos (h a u hi)]
    rfl

/-! ## concrete instances (non-vacuity) and witnesses that the hypotheses are needed -/

namespace W
/-- server A -/
def A : Addr := ⟨1, 10480⟩
/-- A's record as stored: version 4, refreshed and written at 10 -/
def fresh : Server := { addr := A, queryPort := 10481, status := Status.master ||| Status.info, info := [], details := ⟨[], [], []⟩, refreshedAt := some 10, version := 4 }
/-- the copy of A's record a cleanup pass scanned before the refresh: version 3, refreshed at 0 -/
def staleCopy : Server := { fresh with refreshedAt := some 0, version := 3 }
/-- the registry holds A's refreshed record -/
def state : AbsState := { servers := (∅ : ExtTreeMap Nat SRow).insert A.key ⟨fresh, 10⟩ }
/-- a registry in which A's record violates `refreshedAt ≤ updatedAt`: refreshed at 10, update score 0 -/
def skewed : AbsState := { servers := (∅ : ExtTreeMap Nat SRow).insert A.key ⟨fresh, 0⟩ }

theorem state_row (k : Nat) (row : SRow) (h : state.servers[k]? = some row) : k = A.key ∧ row = ⟨fresh, 10⟩ := by
  simp only [state, ExtTreeMap.getElem?_insert] at h
  split at h
  · rename_i hk
    cases h
    exact ⟨by simpa using Eq.symm (by simpa using hk : A.key = k), rfl⟩
  · simp at h

theorem state_at : state.servers[A.key]? = some ⟨fresh, 10⟩ := by simp [state]

theorem state_keyed : Keyed state := by
  intro k row h
  obtain ⟨rfl, rfl⟩ := state_row k row h
  rfl

theorem state_refInv : RefInv state 10 := by
  refine ⟨state_keyed, ?_, ?_⟩
  · intro k row h t ht
    obtain ⟨rfl, rfl⟩ := state_row k row h
    cases ht; decide
  · intro k row h
    obtain ⟨rfl, rfl⟩ := state_row k row h
    decide

theorem skewed_keyed : Keyed skewed := by
  intro k row h
  simp only [skewed, ExtTreeMap.getElem?_insert] at h
  split at h
  · rename_i hk
    cases h
    have : A.key = k := by simpa using hk
    exact this
  · simp at h
end W

/-- **`C14_race` applied to one concrete store and scan list**: the pass (cutoff 3) works through the copy of A it scanned
before A was refreshed (version 3); the stored record (version 4, refreshed at 10 > 3) survives the deletions unchanged -/
example : ((removeAll 3 [W.staleCopy] 0 0).run W.state 12).1.servers[W.A.key]? = some ⟨W.fresh, 10⟩ :=
  C14_race 3 12 [W.staleCopy] W.state 0 0 W.A.key ⟨W.fresh, 10⟩ 10 W.state_keyed W.state_at rfl (by decide)
    (by intro sv hsv _; simp only [List.mem_singleton] at hsv; subst hsv; decide)

/-- … and `C14_window`: the fetched list holds the refreshed record itself and the older copy -/
example : ((removeAll 3 (guarded 3 [W.fresh, W.staleCopy]) 0 0).run W.state 12).1.servers[W.A.key]? = some ⟨W.fresh, 10⟩ :=
  C14_window 3 12 [W.fresh, W.staleCopy] W.state W.A.key ⟨W.fresh, 10⟩ 10 W.state_keyed W.state_at rfl (by decide)
    (by
      intro sv hsv _
      simp only [List.mem_cons, List.not_mem_nil, or_false] at hsv
      rcases hsv with rfl | rfl
      · exact Or.inl rfl
      · exact Or.inr (by decide))

/-- `clean_complete` / `clean_complete2` on the concrete store: at clock 100 with retention 10 A's record (written at 10 < 90)
is removed by both forms of the pass; at clock 15 it is kept, unchanged -/
example : ((cleanServers 10).run W.state 100).1.servers[W.A.key]? = none ∧
    ((cleanServers2 10).run W.state 100).1.servers[W.A.key]? = none ∧
    ((cleanServers 10).run W.state 15).1.servers[W.A.key]? = some ⟨W.fresh, 10⟩ ∧
    ((cleanServers2 10).run W.state 15).1.servers[W.A.key]? = some ⟨W.fresh, 10⟩ :=
  ⟨(clean_complete W.state 100 10 W.state_keyed).1 _ _ W.state_at (by decide),
   (clean_complete2 W.state 100 10 W.state_keyed W.state_refInv.2.1).1 _ _ W.state_at (by decide),
   clean_keeps_refreshed W.state 15 10 W.state_keyed W.state_refInv.2.1 _ _ 10 W.state_at rfl (by decide),
   (clean_complete2 W.state 15 10 W.state_keyed W.state_refInv.2.1).2.2.2.1 _ _ 10 W.state_at rfl (by decide)⟩

/-- **`RefLeUpd` is needed for the scan / fetch form** (and is what makes the two forms agree): on a store whose record
has update score 0 but refresh time 10, at clock 20 with retention 15 (cutoff 5) the atomic form removes the record (its
version is the scanned one, the conflict callback is not consulted) while the scan / fetch form's guard keeps it -/
example : W.skewed.servers[W.A.key]? = some ⟨W.fresh, 0⟩ ∧ ¬ RefLeUpd W.skewed ∧
    ((cleanServers 15).run W.skewed 20).1.servers[W.A.key]? = none ∧
    ((cleanServers2 15).run W.skewed 20).1.servers[W.A.key]? = some ⟨W.fresh, 0⟩ := by
  have hat : W.skewed.servers[W.A.key]? = some ⟨W.fresh, 0⟩ := by simp [W.skewed]
  refine ⟨hat, ?_, (clean_complete W.skewed 20 15 W.skewed_keyed).1 _ _ hat (by decide), by decide⟩
  intro h
  exact absurd (h _ _ hat 10 rfl) (by decide)

/-- **the monotone-clock hypothesis of `refLeUpd_preserved` is needed**: `W.state` satisfies `RefLeUpd`, but when the clock
reads 5 (before the stored update time 10) the final failure of a probe rewrites A's record — refresh time 10 kept — with
update score 5 -/
example : RefLeUpd W.state ∧ ¬ ClockAfter W.state 5 ∧
    ¬ RefLeUpd ((UC.probe ⟨W.A, 10481, .details, 0, 0⟩ none).run W.state 5).1 := by
  refine ⟨W.state_refInv.2.1, fun h => absurd (h _ _ W.state_at) (by decide), ?_⟩
  intro h
  have hat : ((UC.probe ⟨W.A, 10481, .details, 0, 0⟩ none).run W.state 5).1.servers[W.A.key]? =
      some ⟨{ W.fresh with status := failureStatus .details W.fresh.status, version := 5 }, 5⟩ := by decide
  exact absurd (h _ _ hat 10 rfl) (by decide)

/-- `refLeUpd_preserved`, `refreshed_survives_pass` from the empty store: a first heartbeat at clock 10 creates A's record
refreshed and written at 10; a pass at clock 15 with retention 10 keeps it -/
example : let req : ReportReq := ⟨W.A, 10481, 7, some []⟩
    ((UC.report [] 3 req).run {} 10).1.servers[W.A.key]? =
      some ⟨{ W.fresh with status := Status.master ||| Status.info ||| Status.portRetry, version := 2 }, 10⟩ ∧
    RefInv ((UC.report [] 3 req).run {} 10).1 10 ∧
    ((cleanServers 10).run ((UC.report [] 3 req).run {} 10).1 15).1.servers[W.A.key]? =
      some ⟨{ W.fresh with status := Status.master ||| Status.info ||| Status.portRetry, version := 2 }, 10⟩ := by
  intro req
  have hat : ((UC.report [] 3 req).run {} 10).1.servers[W.A.key]? =
      some ⟨{ W.fresh with status := Status.master ||| Status.info ||| Status.portRetry, version := 2 }, 10⟩ := by decide
  exact ⟨hat, ((refLeUpd_preserved {} 10 (refInv_empty 10)).1 [] 3 req).1,
    (refreshed_survives_pass (UC.report [] 3 req) 10 15 10 ((usecases_write_refLeNow 10).1 [] 3 req) {} (refInv_empty 10) []
      W.A.key _ 10).1 hat rfl (by decide)⟩

/-- `refreshedAt_changes_only_by` on the concrete store: a keepalive of the instance bound to A at clock 20 sets A's refresh
time to 20 (the allowed exception); a failed probe at clock 20 leaves it at 10 -/
example :
    (∃ row', ((UC.renew 7 1).run { W.state with instances := (∅ : ExtTreeMap Nat (Addr × Int)).insert 7 (W.A, 10) } 20).1.servers[W.A.key]? = some row' ∧
      row'.svr.refreshedAt = some 20) ∧
    (∃ row', ((UC.probe ⟨W.A, 10481, .details, 0, 0⟩ none).run W.state 20).1.servers[W.A.key]? = some row' ∧
      row'.svr.refreshedAt = some 10) :=
  ⟨⟨⟨{ W.fresh with refreshedAt := some 20, version := 5 }, 20⟩, by decide, rfl⟩,
   ⟨⟨{ W.fresh with status := failureStatus .details W.fresh.status, version := 5 }, 20⟩, by decide, rfl⟩⟩

/-- non-vacuity of `C14_race`: the empty registry is keyed, and a record refreshed after a cutoff exists -/
example : Keyed {} := by intro k row h; simp at h
example : ∃ (row : SRow) (t : Int), row.svr.refreshedAt = some t ∧ t > 3 :=
  ⟨⟨{ addr := ⟨0, 5⟩, queryPort := 6, status := 6#9, info := [], details := ⟨[], [], []⟩, refreshedAt := some 10, version := 4 }, 10⟩, 10, rfl, by decide⟩

/-! ## `refreshedAt ≤ updatedAt` as an invariant of the system model (reviewer item 8) -/

/-- `RefInv` is the store invariant of `Lemmas/TimedInv.lean` -/
theorem refInv_iff (s : AbsState) (t : Int) : RefInv s t ↔ TimedInv.Inv s t :=
  ⟨fun h => ⟨h.1, (allRows_refRow s t).2 ⟨h.2.1, h.2.2⟩⟩,
   fun h => ⟨h.1, ((allRows_refRow s t).1 h.2).1, ((allRows_refRow s t).1 h.2).2⟩⟩

/-- **every use case walks on a moving clock** (`TimedInv.TPres T`: from clock value `T` on, with the clock free to advance —
never to go back — between any two of its calls, every record the use case writes and every record its conflict callback
makes of a stored one was refreshed no later than the clock value at which it is written).  `refLeUpd_preserved` needed the
clock *fixed* during a use case; a heartbeat whose `Add` commits after a tick is covered only here.  Clients of the system
model are these programs, possibly after a clock read and followed by a rendering of the result: `TimedInv.tpres_rendered`,
`TimedInv.tpres_afterNow`. -/
theorem usecases_walk_on_moving_clock (T : Int) :
    (∀ z m req, TimedInv.TPres T (UC.report z m req)) ∧
    (∀ i ip, TimedInv.TPres T (UC.renew i ip)) ∧
    (∀ i a, TimedInv.TPres T (UC.remove i a)) ∧
    (∀ prb outcome, TimedInv.TPres T (UC.probe prb outcome)) ∧
    (∀ m d, TimedInv.TPres T (UC.refresh m d)) ∧
    (∀ m a b c d e f, TimedInv.TPres T (UC.revive m a b c d e f)) ∧
    (∀ z m a, TimedInv.TPres T (UC.addServer z m a)) ∧
    (∀ ret, TimedInv.TPres T (cleanServers ret)) ∧
    (∀ ret, TimedInv.TPres T (cleanServers2 ret)) ∧
    (∀ ret, TimedInv.TPres T (cleanInstances ret)) ∧
    (∀ l st, TimedInv.TPres T (listServers l st)) :=
  ⟨TimedInv.report_tpres T, TimedInv.renew_tpres T, TimedInv.remove_tpres T, TimedInv.probe_tpres T, TimedInv.refresh_tpres T,
   TimedInv.revive_tpres T, TimedInv.addServer_tpres T, TimedInv.cleanServers_tpres T, TimedInv.cleanServers2_tpres T,
   TimedInv.cleanInstances_tpres T, TimedInv.listServers_tpres T⟩

/-- **C14 (`RefLeUpd` is an invariant of the system model).**  For every event list of `USys` — calls of any clients in any
interleaving, crashes before or after the pending call took effect, storage faults with or without effect, clock ticks with
non-negative advance — from a state with `RefInv` (rows under their keys, `refreshedAt ≤ updatedAt ≤ clock`; e.g. the empty
store) whose clients' programs walk (`usecases_walk_on_moving_clock`): `RefInv`, in particular `RefLeUpd`, holds in the state
reached.  This is the premise of `clean_complete2` on exactly the histories the driver's `race` op runs. -/
theorem refLeUpd_usys (u : USys) (es : List UEv) (hticks : ∀ e ∈ es, ∀ d, e = .tick d → 0 ≤ d)
    (h : RefInv u.abs u.clock) (hcl : ∀ c ∈ u.clients, TimedInv.TPres u.clock c.prog) :
    RefInv (u.run es).abs (u.run es).clock ∧ RefLeUpd (u.run es).abs := by
  have hes : ∀ e ∈ es, USysInd.EvOK (fun _ => True) e := by
    intro e he
    cases e with
    | tick d => exact hticks _ he d rfl
    | _ => trivial
  have := (TimedInv.usys_inv u es hes ((refInv_iff _ _).1 h) hcl).1
  exact ⟨(refInv_iff _ _).2 this, ((refInv_iff _ _).2 this).2.1⟩

/-- non-vacuity of `refLeUpd_usys`: a system of a heartbeat client, a keepalive client and a cleaner on the empty store -/
example : RefInv ({ clock := 100, clients := [
      { prog := (UC.report [] 3 ⟨W.A, 10481, 7, some []⟩).bind fun _ => pure "ok" },
      { prog := (UC.renew 7 1).bind fun _ => pure "ok" },
      { prog := (cleanServers2 10).bind fun _ => pure "ok" }] } : USys).abs 100 ∧
    ∀ c ∈ ({ clock := 100, clients := [
      { prog := (UC.report [] 3 ⟨W.A, 10481, 7, some []⟩).bind fun _ => pure "ok" },
      { prog := (UC.renew 7 1).bind fun _ => pure "ok" },
      { prog := (cleanServers2 10).bind fun _ => pure "ok" }] } : USys).clients, TimedInv.TPres 100 c.prog := by
  refine ⟨refInv_empty 100, fun c hc => ?_⟩
  simp only [List.mem_cons, List.not_mem_nil, or_false] at hc
  rcases hc with rfl | rfl | rfl
  · exact TimedInv.tpres_rendered (TimedInv.report_tpres 100 _ _ _) _
  · exact TimedInv.tpres_rendered (TimedInv.renew_tpres 100 _ _) _
  · exact TimedInv.tpres_rendered (TimedInv.cleanServers2_tpres 100 _) _

/-! ## the cleanup pass inside the system model: `C14_race`'s premise derived from the run -/

theorem guarded_eq (cutoff : Int) (svrs : List Server) : guarded cutoff svrs = CleanRace.guarded cutoff svrs := rfl

/-- **C14 (race, run level).**  Inside any `USys`: client `i` is the cleaner, a started client that has read the clock
(`cutoff = now − retention` fixed) and is about to scan; every other client never issues a `Remove` and passes stable conflict
callbacks (`VerMono.ProgStable` — heartbeat, keepalive, probes, REST submission, refresh, revival, listing:
`C13.usecases_callbacks_stable`).  The cleaner scans; the others do anything (`es1`); the cleaner fetches; then `es`: any
interleaving of the cleaner's removals with the others' calls, crashes, faults and ticks.  In the state `v` reached:

1. (**the premise of `C14_race`, derived**) the copies `l` the cleaner still has to work through are `Pending`: pairwise
   different keys, none refreshed after the cutoff, and for each the store holds a row under its key that is that copy or a
   strictly newer version; hence a row refreshed after the cutoff is strictly newer than every pending copy of its key;
2. (**a server refreshed after the scan and before its removal is not removed**) whatever the cleaner's next call is, every
   row that is at that moment refreshed after the cutoff is still stored, unchanged, after it — under every key;
3. (**a server stale at the scan and untouched since is removed**) if the cleaner's next call is the removal of copy `sv`
   and the stored row under its key is still `sv`, the row is gone after it. -/
theorem clean_race_run (u : USys) (i : Nat) (c : UClient) (g : Nat × Nat → String) (cutoff : Int)
    (hc : u.clients[i]? = some c) (hp : c.prog = C13Run.rendered (CleanRace.afterNow cutoff) g) (hs : c.started = true)
    (hd : c.dead = false) (hk : Keyed u.abs)
    (hcl : ∀ (j : Nat) (c' : UClient), j ≠ i → u.clients[j]? = some c' → VerMono.ProgStable c'.prog)
    (es1 es : List UEv) (hes1 : ∀ e ∈ es1, USysInd.EvOK (C13Run.NotMe i) e) (hes : ∀ e ∈ es, CleanRace.EvC i e)
    (v : USys) (hv : v = ((((u.step (.call i)).run es1).step (.call i)).run es)) :
    (∃ (c' : UClient) (l : List Server) (r e : Nat), v.clients[i]? = some c' ∧
        c'.prog = C13Run.rendered (removeAll cutoff l r e) g ∧ CleanRace.Pending cutoff l v.abs ∧
        ∀ (k : Nat) (row : SRow) (t : Int), v.abs.servers[k]? = some row → row.svr.refreshedAt = some t → t > cutoff →
          ∀ sv ∈ l, sv.addr.key = k → sv.version < row.svr.version) ∧
    (∀ (k : Nat) (row : SRow) (t : Int), v.abs.servers[k]? = some row → row.svr.refreshedAt = some t → t > cutoff →
      (v.step (.call i)).abs.servers[k]? = some row) ∧
    (∀ (c' : UClient) (sv : Server) (rest : List Server) (r e : Nat), v.clients[i]? = some c' →
      c'.prog = C13Run.rendered (removeAll cutoff (sv :: rest) r e) g → c'.started = true → c'.dead = false →
      ∀ row, v.abs.servers[sv.addr.key]? = some row → row.svr = sv → (v.step (.call i)).abs.servers[sv.addr.key]? = none) := by
  have h0 := CleanRace.removing_established i g cutoff u c hc hp hs hd hk hcl es1 hes1
  have h1 := CleanRace.removing_run i g cutoff es _ hes h0
  rw [← hv] at h1
  obtain ⟨c', l, r, e, hc', hp', _, _, hpend⟩ := h1.cleaner
  exact ⟨⟨c', l, r, e, hc', hp', hpend, fun k row t hrow hr ht => hpend.premise k row t hrow hr ht⟩,
    (CleanRace.removing_spares i g cutoff v h1).1, (CleanRace.removing_spares i g cutoff v h1).2⟩

/-- **`clean_race_run` for a cleaner that has not begun** (the clients of the driver's `race` op start when first scheduled):
client `i` is `ServerCleaner.Clean` itself, not started; its first scheduling reads the clock — the cutoff is
`u.clock − retention` — and scans in the same step.  Same three conclusions. -/
theorem clean_race_run_lazy (u : USys) (i : Nat) (c : UClient) (g : Nat × Nat → String) (retention : Int)
    (hc : u.clients[i]? = some c) (hp : c.prog = C13Run.rendered (cleanServers2 retention) g) (hs : c.started = false)
    (hd : c.dead = false) (hk : Keyed u.abs)
    (hcl : ∀ (j : Nat) (c' : UClient), j ≠ i → u.clients[j]? = some c' → VerMono.ProgStable c'.prog)
    (es1 es : List UEv) (hes1 : ∀ e ∈ es1, USysInd.EvOK (C13Run.NotMe i) e) (hes : ∀ e ∈ es, CleanRace.EvC i e)
    (v : USys) (hv : v = ((((u.step (.call i)).run es1).step (.call i)).run es)) :
    (∃ (c' : UClient) (l : List Server) (r e : Nat), v.clients[i]? = some c' ∧
        c'.prog = C13Run.rendered (removeAll (u.clock - retention) l r e) g ∧ CleanRace.Pending (u.clock - retention) l v.abs ∧
        ∀ (k : Nat) (row : SRow) (t : Int), v.abs.servers[k]? = some row → row.svr.refreshedAt = some t → t > u.clock - retention →
          ∀ sv ∈ l, sv.addr.key = k → sv.version < row.svr.version) ∧
    (∀ (k : Nat) (row : SRow) (t : Int), v.abs.servers[k]? = some row → row.svr.refreshedAt = some t → t > u.clock - retention →
      (v.step (.call i)).abs.servers[k]? = some row) ∧
    (∀ (c' : UClient) (sv : Server) (rest : List Server) (r e : Nat), v.clients[i]? = some c' →
      c'.prog = C13Run.rendered (removeAll (u.clock - retention) (sv :: rest) r e) g → c'.started = true → c'.dead = false →
      ∀ row, v.abs.servers[sv.addr.key]? = some row → row.svr = sv → (v.step (.call i)).abs.servers[sv.addr.key]? = none) := by
  have h0 := CleanRace.removing_established_lazy i g retention u c hc hp hs hd hk hcl es1 hes1
  have h1 := CleanRace.removing_run i g (u.clock - retention) es _ hes h0
  rw [← hv] at h1
  obtain ⟨c', l, r, e, hc', hp', _, _, hpend⟩ := h1.cleaner
  exact ⟨⟨c', l, r, e, hc', hp', hpend, fun k row t hrow hr ht => hpend.premise k row t hrow hr ht⟩,
    (CleanRace.removing_spares i g (u.clock - retention) v h1).1, (CleanRace.removing_spares i g (u.clock - retention) v h1).2⟩

/-- `cleanServers2` is: read the clock, then the program `clean_race_run` starts from -/
theorem cleanServers2_afterNow (retention : Int) :
    cleanServers2 retention = .call .now fun now => CleanRace.afterNow (now - retention) := rfl

/-- **the restriction "the others never `Remove`" is needed (ABA).**  A's record is removed and registered anew while the
cleaner holds the copy it fetched (version 3, refreshed at 0): the new registration restarts the version counter (version 1,
refreshed at 20).  The cleaner's `Remove` with its stale copy (cutoff 10) finds a stored version that is *not* newer, does not
consult its conflict callback, and **removes the freshly registered server** although it was refreshed after the cutoff.
`Pending` does not hold (the stored row is neither the copy nor newer) — the model agrees with servers.go:184
(`existing.Version > svr.Version`, else the `HDEL` batch runs with the caller's copy). -/
example :
    let fresh1 : Server := { W.fresh with refreshedAt := some 20, version := 1 }
    let s : AbsState := { servers := (∅ : ExtTreeMap Nat SRow).insert W.A.key ⟨fresh1, 20⟩ }
    s.servers[W.A.key]? = some ⟨fresh1, 20⟩ ∧ ¬ CleanRace.Pending 10 [W.staleCopy] s ∧
      (s.remove W.staleCopy (cleanResolver 10)).1.servers[W.A.key]? = none := by
  intro fresh1 s
  have hat : s.servers[W.A.key]? = some ⟨fresh1, 20⟩ := by simp [s]
  refine ⟨hat, ?_, by decide⟩
  intro hp
  obtain ⟨_, row, hrow, hrel⟩ := hp.2 W.staleCopy (List.mem_singleton.2 rfl)
  have : row = ⟨fresh1, 20⟩ := by
    have h' : s.servers[W.A.key]? = some row := hrow
    rw [hat] at h'; cases h'; rfl
  subst this
  rcases hrel with h | h
  · exact absurd h (by decide)
  · exact absurd (congrArg Server.version h) (by decide)

/-- non-vacuity of `clean_race_run`'s hypotheses, and the theorem at work on a concrete run: A's record (written at 10) is
stale for a pass at clock 100 with retention 10; the cleaner scans and fetches it; a keepalive then refreshes A (clock 100);
the cleaner's removal is refused — A is still stored, refreshed at 100 -/
example :
    let s0 : AbsState := { W.state with instances := (∅ : ExtTreeMap Nat (Addr × Int)).insert 7 (W.A, 10) }
    let u : USys := { abs := s0, clock := 100, clients := [
      { prog := C13Run.rendered (CleanRace.afterNow 90) (fun _ => "ok"), started := true },
      { prog := (UC.renew 7 1).bind fun _ => pure "ok", started := true }] }
    Keyed u.abs ∧ (∀ (j : Nat) (c' : UClient), j ≠ 0 → u.clients[j]? = some c' → VerMono.ProgStable c'.prog) ∧
    (∃ row, (((((u.step (.call 0)).run []).step (.call 0)).run [.call 1, .call 1, .call 1]).step (.call 0)).abs.servers[W.A.key]? = some row ∧
      row.svr.refreshedAt = some 100) := by
  intro s0 u
  refine ⟨W.state_keyed, ?_, ⟨⟨{ W.fresh with refreshedAt := some 100, version := 5 }, 100⟩, by decide, rfl⟩⟩
  intro j c' hj hc'
  match j, hj with
  | 1, _ =>
    have : c' = { prog := (UC.renew 7 1).bind fun _ => pure "ok", started := true } := by
      simp only [u, List.getElem?_cons_succ, List.getElem?_cons_zero, Option.some.injEq] at hc'; exact hc'.symm
    subst this
    exact VerMono.AllCalls.bind (VerMono.renew_stable 7 1) fun _ => VerMono.AllCalls.pure _
  | j + 2, _ => simp [u] at hc'

/-! ## a cleaned server disappears with all its index entries (through C10) -/

/-- **C14 ("with all its index entries").**  The storage step by which a `Remove` takes effect is the one `MULTI/EXEC` batch
`RStore.removeBatch` (C11 `decideApply_refines`: it refines the abstract `erase` — last conjunct).  On a consistent store
(C10's invariant) the batch leaves a consistent store (`RStore.removeBatch_consistent`, the lemma behind C10's
`consistent_atomic_step`) in which the cleaned server's record is gone **and so is every index entry of its key**: its
`servers:updated` score, its `servers:refreshed` score, and its membership in each of the nine `servers:status:*` sets. -/
theorem clean_removes_index_entries (st : RStore) (h : RStore.Consistent st) (k : Nat) :
    RStore.Consistent (st.removeBatch k) ∧ (st.removeBatch k).items[k]? = none ∧ k ∉ (st.removeBatch k).updated ∧
    (st.removeBatch k).refreshed[k]? = none ∧ (∀ b, b < 9 → RStore.stKey k b ∉ (st.removeBatch k).statusSet) ∧
    ∀ a : AbsState, Rel st a → Rel (st.removeBatch k) { a with servers := a.servers.erase k } := by
  have hc := RStore.removeBatch_consistent h k
  have hitem : (st.removeBatch k).items[k]? = none := by simp [RStore.removeBatch]
  refine ⟨hc, hitem, ?_, ?_, ?_, fun a ha => rel_remove ha k⟩
  · rw [hc.upd k]
    intro hm
    rw [ExtTreeMap.mem_iff_isSome_getElem?, hitem] at hm
    exact absurd hm (by simp)
  · cases hr : (st.removeBatch k).refreshed[k]? with
    | none => rfl
    | some t =>
      obtain ⟨r, hr', _⟩ := (hc.ref k t).1 hr
      rw [hitem] at hr'; cases hr'
  · intro b hb hm
    obtain ⟨r, hr', _⟩ := (hc.sts k b hb).1 hm
    rw [hitem] at hr'; cases hr'

/-- non-vacuity: the empty store is consistent, and so is a store holding one saved server, from which the batch removes it -/
example : RStore.Consistent {} ∧ RStore.Consistent (({} : RStore).saveBatch W.fresh 10) ∧
    ((({} : RStore).saveBatch W.fresh 10).removeBatch W.A.key).refreshed[W.A.key]? = none :=
  ⟨RStore.consistent_empty, RStore.saveBatch_consistent RStore.consistent_empty _ _,
   (clean_removes_index_entries _ (RStore.saveBatch_consistent RStore.consistent_empty _ _) W.A.key).2.2.2.1⟩

/-- **Configuration wiring (regenerated fact).**  How configuration reaches the cleaner component (retention reaches both cleaners unchanged) and the liveness setting (command line → settings → browser handler / observer): every field of every
configuration literal in `cmd/swat4master` that concerns this property, with the source text of the value it is given
(`verifharness facts`, go/ast, on every run).  A command-line value wired to another field, a unit conversion or a
`max`/`min` slipped into one of these literals changes the generated list and breaks this theorem; the harness itself
drives these components through their real fx modules (DESIGN 10.8), this pins what the modules are given. -/
def configRows : List (String × String × String × String × String) :=
    [("components/browser/browser.go", "var Module", "browser.HandlerOpts", "Liveness", "settings.ServerLiveness"),
     ("components/cleaner/cleaner.go", "provideCleanerConfigs", "Opts", "ServerCleanerOpts", "servercleaner.Opts{ Retention: cfg.CleanRetention, }"),
     ("components/cleaner/cleaner.go", "provideCleanerConfigs", "Opts", "InstanceCleanerOpts", "instancecleaner.Opts{ Retention: cfg.CleanRetention, }"),
     ("components/cleaner/cleaner.go", "provideCleanerConfigs", "servercleaner.Opts", "Retention", "cfg.CleanRetention"),
     ("components/cleaner/cleaner.go", "provideCleanerConfigs", "instancecleaner.Opts", "Retention", "cfg.CleanRetention"),
     ("components/cleaner/cleaner.go", "*command.Run", "Config", "CleanRetention", "c.CleanRetention"),
     ("components/cleaner/cleaner.go", "*command.Run", "Config", "CleanInterval", "c.CleanInterval"),
     ("components/observer/observer.go", "provideObserverConfigs", "Opts", "ServerObserverOpts", "serverobserver.Opts{ ServerLiveness: settings.ServerLiveness, }"),
     ("components/observer/observer.go", "provideObserverConfigs", "serverobserver.Opts", "ServerLiveness", "settings.ServerLiveness"),
     ("main.go", "main", "settings.Settings", "ServerLiveness", "cli.Globals.BrowsingServerLiveness")]

theorem facts_config_wiring :
    (Facts.configWiring.filter fun r => configRows.contains r) = configRows ∧
    (Facts.configWiring.filter fun r => configRows.any fun c => c.1 == r.1 && c.2.1 == r.2.1 && c.2.2.1 == r.2.2.1 && c.2.2.2.1 == r.2.2.2.1) = configRows := by
  decide

/-! ## the cleaner component: what the driver runs for a `cleaner` case (`Model/CleanerComponent.lean`)

`CleanerComponent.pass` / `cleanerPasses` are the Model's definition of the component's behaviour (ticker, pass order,
scan fault); `Drv/C14.lean: handleCleaner` runs `cleanerPasses` and evaluates `CleanerComponent.staleServer` /
`staleInstance` on the implementation's dump.  The theorems below say that the model's own state satisfies that oracle
— as corollaries of `clean_complete2` and `clean_instances_state`. -/

theorem staleServer_false (c r u : Int) : CleanerComponent.staleServer c r u = false ↔ ¬ u < c - r := by
  unfold CleanerComponent.staleServer CleanerComponent.cutoff; exact decide_eq_false_iff_not

theorem staleInstance_false (c r u : Int) : CleanerComponent.staleInstance c r u = false ↔ ¬ u ≤ c - r := by
  unfold CleanerComponent.staleInstance CleanerComponent.cutoff; exact decide_eq_false_iff_not

open CleanerComponent in
/-- **instances after any pass** (healthy or faulted): no stored instance is outdated for the pass
(`staleInstance`: last written at or before `clock − retention`, the pass's clock), and every instance that was not
outdated is stored unchanged.  No hypothesis: `clean_instances_state` needs none. -/
theorem cleaner_pass_instances (ret iv : Int) (healthy : Bool) (s : USys) :
    (∀ (id : Nat) (v : Addr × Int), (pass ret iv healthy s).abs.instances[id]? = some v →
      staleInstance (pass ret iv healthy s).clock ret v.2 = false) ∧
    ((pass ret iv healthy s).abs.servers =
      (if healthy then ((cleanServers2 ret).run s.abs (s.clock + iv)).1 else s.abs).servers) := by
  generalize ha : (if healthy then ((cleanServers2 ret).run s.abs (s.clock + iv)).1 else s.abs) = a1
  have hp : (pass ret iv healthy s).abs = ((cleanInstances ret).run a1 (s.clock + iv)).1 := by
    simp only [pass, ha]
  have hc : (pass ret iv healthy s).clock = s.clock + iv := rfl
  rw [hp, hc]
  refine ⟨fun id v hv => ?_, (clean_instances_state a1 (s.clock + iv) ret 0).2.2.2.1⟩
  obtain ⟨h1, h2, h3, _⟩ := clean_instances_state a1 (s.clock + iv) ret id
  cases h0 : a1.instances[id]? with
  | none => rw [h3 h0] at hv; cases hv
  | some v0 =>
    by_cases hle : v0.2 ≤ s.clock + iv - ret
    · rw [h1 v0 h0 hle] at hv; cases hv
    · rw [h2 v0 h0 (by omega)] at hv
      cases hv
      exact (staleInstance_false _ _ _).2 hle

open CleanerComponent in
/-- **`cleaner_healthy_pass_complete`: after a healthy pass nothing outdated remains** (the oracle of the `cleaner`
cases, as a theorem about the Model's component).  One pass of the cleaner component on a store in which every row sits
under its own key (`Keyed`) and no record's refresh time is after its write time (`RefLeUpd`; both are invariants of
every use-case run: `refLeUpd_preserved`): the clock has advanced by the interval; afterwards
(1) no stored server is `staleServer` for the pass — last written strictly before `clock − retention`, the model's exact
scan bound (`clean_complete2`); (2) every server that was not outdated is stored unchanged (the pass removes ONLY
outdated servers); (3) no stored instance is `staleInstance` — last written at or before `clock − retention`
(`clean_instances_state`). -/
theorem cleaner_healthy_pass_complete (ret iv : Int) (s : USys) (hk : Keyed s.abs) (hinv : RefLeUpd s.abs) :
    (pass ret iv true s).clock = s.clock + iv ∧
    (∀ (k : Nat) (row : SRow), (pass ret iv true s).abs.servers[k]? = some row →
      staleServer (pass ret iv true s).clock ret row.updatedAt = false) ∧
    (∀ (k : Nat) (row : SRow), s.abs.servers[k]? = some row → staleServer (pass ret iv true s).clock ret row.updatedAt = false →
      (pass ret iv true s).abs.servers[k]? = some row) ∧
    (∀ (id : Nat) (v : Addr × Int), (pass ret iv true s).abs.instances[id]? = some v →
      staleInstance (pass ret iv true s).clock ret v.2 = false) := by
  obtain ⟨hi, hs⟩ := cleaner_pass_instances ret iv true s
  obtain ⟨c1, c2, c3, _, _⟩ := clean_complete2 s.abs (s.clock + iv) ret hk hinv
  have hc : (pass ret iv true s).clock = s.clock + iv := rfl
  simp only [if_true] at hs
  refine ⟨hc, ?_, ?_, hi⟩
  · intro k row hrow
    rw [hs] at hrow
    rw [hc, staleServer_false]
    intro hlt
    rcases c3 k with hn | he
    · rw [hn] at hrow; cases hrow
    · rw [he] at hrow
      rw [c1 k row hrow hlt] at he
      rw [← he] at hrow; cases hrow
  · intro k row hrow hns
    rw [hc, staleServer_false] at hns
    rw [hs]
    exact c2 k row hrow hns

open CleanerComponent in
/-- a faulted pass (the server cleaner's scan failed) leaves the registry as it was; the instance cleaner still ran -/
theorem cleaner_faulted_pass (ret iv : Int) (s : USys) :
    (pass ret iv false s).clock = s.clock + iv ∧ (pass ret iv false s).abs.servers = s.abs.servers ∧
    (∀ (id : Nat) (v : Addr × Int), (pass ret iv false s).abs.instances[id]? = some v →
      staleInstance (pass ret iv false s).clock ret v.2 = false) := by
  obtain ⟨hi, hs⟩ := cleaner_pass_instances ret iv false s
  exact ⟨rfl, by simpa using hs, hi⟩

open CleanerComponent in
/-- a pass keeps the invariant `RefInv` (rows under their keys, `refreshedAt ≤ updatedAt`, clock not behind any write) when
the interval is not negative (the component's ticker: `iv > 0`) — from `refLeUpd_preserved` -/
theorem cleaner_pass_refInv (ret iv : Int) (hiv : 0 ≤ iv) (healthy : Bool) (s : USys) (h : RefInv s.abs s.clock) :
    RefInv (pass ret iv healthy s).abs (pass ret iv healthy s).clock := by
  have h' : RefInv s.abs (s.clock + iv) := h.tick (by omega)
  have h1 : RefInv (if healthy then ((cleanServers2 ret).run s.abs (s.clock + iv)).1 else s.abs) (s.clock + iv) := by
    cases healthy
    · exact h'
    · exact ((refLeUpd_preserved s.abs (s.clock + iv) h').2.2.2.2.2.2.2.2.1 ret).1
  exact ((refLeUpd_preserved _ (s.clock + iv) h1).2.2.2.2.2.2.2.2.2 ret).1

open CleanerComponent in
theorem cleanerPasses_refInv (ret iv : Int) (hiv : 0 ≤ iv) : ∀ (script : List Bool) (s : USys), RefInv s.abs s.clock →
    RefInv (cleanerPasses ret iv script s).abs (cleanerPasses ret iv script s).clock
  | [], _, h => h
  | b :: rest, s, h => cleanerPasses_refInv ret iv hiv rest (pass ret iv b s) (cleaner_pass_refInv ret iv hiv b s h)

open CleanerComponent in
theorem cleanerPasses_append (ret iv : Int) (pre : List Bool) (last : Bool) (s : USys) :
    cleanerPasses ret iv (pre ++ [last]) s = pass ret iv last (cleanerPasses ret iv pre s) := by
  simp [cleanerPasses, List.foldl_append]

open CleanerComponent in
/-- **`cleaner_last_pass_complete`: the driver's oracle, of the Model's component over a whole script.**  The component run
over any script of healthy / faulted passes (`cleanerPasses`) with a non-negative interval, from a state with `RefInv`:
if the LAST pass is healthy no stored server is outdated at the final clock (`staleServer`), and after any last pass no
stored instance is outdated (`staleInstance`) — exactly what `Drv/C14.lean: handleCleaner` requires of the
implementation's final dump (`healthyLast → stale = []`, `staleIns = []`).  Earlier faulted passes do not matter: a
healthy pass is complete on its own (`cleaner_healthy_pass_complete`), and every pass keeps the invariant it needs
(`cleaner_pass_refInv`). -/
theorem cleaner_last_pass_complete (ret iv : Int) (hiv : 0 ≤ iv) (pre : List Bool) (last : Bool) (s : USys)
    (h : RefInv s.abs s.clock) :
    (last = true → ∀ (k : Nat) (row : SRow), (cleanerPasses ret iv (pre ++ [last]) s).abs.servers[k]? = some row →
      staleServer (cleanerPasses ret iv (pre ++ [last]) s).clock ret row.updatedAt = false) ∧
    (∀ (id : Nat) (v : Addr × Int), (cleanerPasses ret iv (pre ++ [last]) s).abs.instances[id]? = some v →
      staleInstance (cleanerPasses ret iv (pre ++ [last]) s).clock ret v.2 = false) := by
  rw [cleanerPasses_append]
  have hr := cleanerPasses_refInv ret iv hiv pre s h
  refine ⟨fun hl => ?_, (cleaner_pass_instances ret iv last _).1⟩
  subst hl
  exact (cleaner_healthy_pass_complete ret iv _ hr.1 hr.2.1).2.1

/-- non-vacuity: `W.state` at clock 10 (A written at 10) satisfies `RefInv`; with retention 50 and interval 100 a faulted pass
keeps A (clock 110), the following healthy pass (clock 210, cutoff 160 > 10) removes it; with retention 500 A stays — the
hypotheses of `cleaner_healthy_pass_complete` / `cleaner_last_pass_complete` hold and the conclusion is not vacuous -/
example : RefInv (⟨W.state, 10, []⟩ : USys).abs (⟨W.state, 10, []⟩ : USys).clock ∧
    (CleanerComponent.cleanerPasses 50 100 [false] ⟨W.state, 10, []⟩).abs.servers[W.A.key]? = some ⟨W.fresh, 10⟩ ∧
    (CleanerComponent.cleanerPasses 50 100 [false, true] ⟨W.state, 10, []⟩).abs.servers[W.A.key]? = none ∧
    (CleanerComponent.cleanerPasses 50 100 [false, true] ⟨W.state, 10, []⟩).clock = 210 ∧
    (CleanerComponent.cleanerPasses 500 100 [false, true] ⟨W.state, 10, []⟩).abs.servers[W.A.key]? = some ⟨W.fresh, 10⟩ := by
  refine ⟨W.state_refInv, ?_, ?_, rfl, ?_⟩
  · rw [show [false] = [] ++ [false] from rfl, cleanerPasses_append, (cleaner_faulted_pass _ _ _).2.1]
    exact W.state_at
  · have h1 := cleaner_pass_refInv 50 100 (by omega) false ⟨W.state, 10, []⟩ W.state_refInv
    have hold : (CleanerComponent.pass 50 100 false (⟨W.state, 10, []⟩ : USys)).abs.servers[W.A.key]? = some ⟨W.fresh, 10⟩ := by
      rw [(cleaner_faulted_pass 50 100 ⟨W.state, 10, []⟩).2.1]; exact W.state_at
    rw [show [false, true] = [false] ++ [true] from rfl, cleanerPasses_append,
      show CleanerComponent.cleanerPasses 50 100 [false] ⟨W.state, 10, []⟩ = CleanerComponent.pass 50 100 false ⟨W.state, 10, []⟩ from rfl,
      (cleaner_pass_instances 50 100 true _).2]
    simp only [if_true]
    exact (clean_complete2 _ _ 50 h1.1 h1.2.1).1 W.A.key _ hold (by decide)
  · have h1 := cleaner_pass_refInv 500 100 (by omega) false ⟨W.state, 10, []⟩ W.state_refInv
    have hold : (CleanerComponent.pass 500 100 false (⟨W.state, 10, []⟩ : USys)).abs.servers[W.A.key]? = some ⟨W.fresh, 10⟩ := by
      rw [(cleaner_faulted_pass 500 100 ⟨W.state, 10, []⟩).2.1]; exact W.state_at
    rw [show [false, true] = [false] ++ [true] from rfl, cleanerPasses_append]
    exact (cleaner_healthy_pass_complete 500 100 _ h1.1 h1.2.1).2.2.1 W.A.key _ hold (by decide)

/-! ## the programs `usecases_walk_on_moving_clock` left out (third outside review, item 6) -/

/-- **`usecases_walk_on_moving_clock`, the two remaining client programs.**  The `TPres` list is written by hand; two programs
the drivers run as clients of the system model were not in it: `Heartbeat6.renewIP` (the keepalive with the request's `net.IP`
as it is, run by the `dg6` op: it reads the clock and refreshes the stored record at that value) and the prober runner
`UC.proberRunWith` / `UC.proberRun` (`PopMany(n)`, then `UC.probe` for every popped probe — the `pop|<n>|<outcome>` client).
Both walk on a moving clock from any `T`, so `refLeUpd_usys` (whose hypothesis is `TPres` of every client's program) covers
systems that contain them. -/
theorem usecases_walk_on_moving_clock_more (T : Int) :
    (∀ i ip, TimedInv.TPres T (Heartbeat6.renewIP i ip)) ∧
    (∀ n oc order, TimedInv.TPres T (UC.proberRunWith n oc order)) ∧
    (∀ n outcome, TimedInv.TPres T (UC.proberRun n outcome)) :=
  ⟨UseCaseMore.renewIP_tpres T, UseCaseMore.proberRunWith_tpres T, fun n o => UseCaseMore.proberRunWith_tpres T n _ _⟩

/-! ## witness for `clean_race_run_lazy` (third outside review, item 7) -/

/-- non-vacuity of `clean_race_run_lazy`'s hypotheses, and the theorem at work: the cleaner (retention 10) is client 0 and has
NOT begun; A's record (written at 10) is stale for a pass at clock 100.  Its first scheduling reads the clock (cutoff 90) and
scans, its second fetches A's copy; a keepalive (client 1, three calls) then refreshes A at 100.  All hypotheses hold — the
cleaner is `rendered (cleanServers2 10)`, not started, not dead; the store is keyed; the other client is `ProgStable`; the
events in between never crash or fault the cleaner — and the theorem's second conclusion, applied to the state `v` reached,
says that A's refreshed row (refreshed at 100 > 90) survives the cleaner's next step: the removal is refused. -/
example :
    let s0 : AbsState := { W.state with instances := (∅ : ExtTreeMap Nat (Addr × Int)).insert 7 (W.A, 10) }
    let c0 : UClient := { prog := C13Run.rendered (cleanServers2 10) (fun _ => "ok"), started := false }
    let u : USys := { abs := s0, clock := 100, clients := [c0, { prog := (UC.renew 7 1).bind fun _ => pure "ok", started := true }] }
    let v : USys := (((u.step (.call 0)).run []).step (.call 0)).run [.call 1, .call 1, .call 1]
    u.clients[0]? = some c0 ∧ c0.started = false ∧ c0.dead = false ∧ Keyed u.abs ∧
    (∀ (j : Nat) (c' : UClient), j ≠ 0 → u.clients[j]? = some c' → VerMono.ProgStable c'.prog) ∧
    (∀ e ∈ [UEv.call 1, UEv.call 1, UEv.call 1], CleanRace.EvC 0 e) ∧
    (∃ row, v.abs.servers[W.A.key]? = some row ∧ row.svr.refreshedAt = some 100 ∧
      (v.step (.call 0)).abs.servers[W.A.key]? = some row) := by
  intro s0 c0 u v
  have hcl : ∀ (j : Nat) (c' : UClient), j ≠ 0 → u.clients[j]? = some c' → VerMono.ProgStable c'.prog := by
    intro j c' hj hc'
    match j, hj with
    | 1, _ =>
      have : c' = { prog := (UC.renew 7 1).bind fun _ => pure "ok", started := true } := by
        simp only [u, List.getElem?_cons_succ, List.getElem?_cons_zero, Option.some.injEq] at hc'; exact hc'.symm
      subst this
      exact VerMono.AllCalls.bind (VerMono.renew_stable 7 1) fun _ => VerMono.AllCalls.pure _
    | j + 2, _ => simp [u] at hc'
  have hes : ∀ e ∈ [UEv.call 1, UEv.call 1, UEv.call 1], CleanRace.EvC 0 e := by
    intro e he
    simp only [List.mem_cons, List.not_mem_nil, or_false, or_self] at he
    subst he; trivial
  have hrow : v.abs.servers[W.A.key]? = some ⟨{ W.fresh with refreshedAt := some 100, version := 5 }, 100⟩ := by decide
  have h := clean_race_run_lazy u 0 c0 (fun _ => "ok") 10 rfl rfl rfl rfl W.state_keyed hcl [] [.call 1, .call 1, .call 1]
    (fun e he => nomatch he) hes v rfl
  exact ⟨rfl, rfl, rfl, W.state_keyed, hcl, hes, _, hrow, rfl, h.2.1 W.A.key _ 100 hrow rfl (by decide)⟩

end Swat4.C14
