import Swat4.Model.UseCases.Discovery
import Swat4.Lemmas.Prog
/-!
# C14 — Servers expire by the clock: fresh ones are never cleaned, stale ones are

`UC.listServers`, `UC.cleanServers`/`removeAll`, `UC.cleanInstances` model `listservers.Execute`,
`ServerCleaner.Clean` and `InstanceCleaner.Clean`; `AbsState.filter/remove/insClear` are the atomic
meaning of the repository calls (C09/C11).
-/
namespace Swat4.C14
open Swat4 Swat4.UC Std

/-- **listed ⇔ live**: a listing contains exactly the stored servers that carry the required status and
whose last refresh is no older than `now − liveness`; no cleanup is involved, a server drops out of
listings the instant the clock passes `refreshedAt + liveness`. -/
theorem listed_iff_live (s : AbsState) (now liveness : Int) (status : Status) (sv : Server) :
    (∃ l, ((listServers liveness status).run s now).2 = .ok l ∧ sv ∈ l) ↔
      ∃ kv ∈ s.servers.toList, kv.2.svr = sv ∧ Status.has sv.status status = true ∧
        ∃ t, sv.refreshedAt = some t ∧ now - liveness ≤ t := by
  simp only [listServers, Prog.run_call, Call.exec, Prog.run_pure]
  constructor
  · rintro ⟨l, hl, hm⟩
    cases hl
    unfold AbsState.filter at hm
    simp only [List.mem_map, List.mem_filter] at hm
    obtain ⟨kv, ⟨hkv, hp⟩, rfl⟩ := hm
    refine ⟨kv, hkv, rfl, ?_⟩
    simp only [FilterSet.pred] at hp
    cases hr : kv.2.svr.refreshedAt with
    | none => simp [hr] at hp
    | some t =>
      simp only [hr, Bool.and_eq_true, decide_eq_true_eq] at hp
      exact ⟨hp.1.1.1.1.1, t, rfl, hp.1.1.2⟩
  · rintro ⟨kv, hkv, rfl, hst, t, ht, hle⟩
    refine ⟨_, rfl, ?_⟩
    unfold AbsState.filter
    simp only [List.mem_map, List.mem_filter]
    refine ⟨kv, ⟨hkv, ?_⟩, rfl⟩
    simp [FilterSet.pred, hst, ht, hle, Status.hasAny]

/-- the scan of a cleanup pass selects exactly the records not written since the cutoff -/
theorem scan_selects_stale (s : AbsState) (cutoff : Int) (sv : Server) :
    sv ∈ s.filter { updatedBefore := some cutoff } ↔ ∃ kv ∈ s.servers.toList, kv.2.svr = sv ∧ kv.2.updatedAt < cutoff := by
  unfold AbsState.filter
  simp only [List.mem_map, List.mem_filter]
  constructor
  · rintro ⟨kv, ⟨hkv, hp⟩, rfl⟩
    refine ⟨kv, hkv, rfl, ?_⟩
    simpa [FilterSet.pred, Status.has, Status.hasAny] using hp
  · rintro ⟨kv, hkv, rfl, hlt⟩
    exact ⟨kv, ⟨hkv, by simp [FilterSet.pred, Status.has, Status.hasAny, hlt]⟩, rfl⟩

/-- **a refresh that commits after the scan defends the server**: the cleaner removes with the stale copy it
scanned; the stored record has a newer version, so the conflict callback is consulted on the latest
record, sees a refresh time after the cutoff and refuses — nothing changes. -/
theorem remove_refused_when_refreshed (s : AbsState) (cutoff : Int) (stale : Server) (ex : SRow) (t : Int)
    (hrow : s.getRow stale.addr = some ex) (hnewer : ex.svr.version > stale.version)
    (hr : ex.svr.refreshedAt = some t) (ht : t > cutoff) :
    (s.remove stale (cleanResolver cutoff)).1 = s := by
  unfold AbsState.remove cleanResolver
  simp [hrow, hnewer, hr, ht]

/-- a record that nobody wrote since the scan is removed (its version is the scanned one) -/
theorem remove_erases_unchanged (s : AbsState) (cutoff : Int) (stale : Server) (ex : SRow)
    (hrow : s.getRow stale.addr = some ex) (hsame : ex.svr = stale) :
    (s.remove stale (cleanResolver cutoff)).1.getRow stale.addr = none := by
  have hrow' : s.servers[stale.addr.key]? = some ex := hrow
  have : ¬ ex.svr.version > stale.version := by rw [hsame]; omega
  simp [AbsState.remove, AbsState.getRow, hrow', this]

/-- removal of one address never touches the row of another key -/
theorem remove_other_key (s : AbsState) (svr : Server) (res : Resolver) (k : Nat)
    (hres : ∀ x r, res x = some r → r.addr = x.addr)
    (hkeyed : ∀ ex, s.getRow svr.addr = some ex → ex.svr.addr.key = svr.addr.key)
    (hk : svr.addr.key ≠ k) :
    (s.remove svr res).1.servers[k]? = s.servers[k]? := by
  unfold AbsState.remove
  cases hrow : s.getRow svr.addr with
  | none => rfl
  | some ex =>
    simp only
    split
    · cases hr : res ex.svr with
      | none => rfl
      | some r =>
        have := hres _ _ hr
        simp only [ExtTreeMap.getElem?_erase]
        have hne : r.addr.key ≠ k := by rw [this, hkeyed ex hrow]; exact hk
        simp [hne]
    · simp only [ExtTreeMap.getElem?_erase]
      simp [hk]

theorem cleanResolver_keeps_addr (cutoff : Int) : ∀ x r, cleanResolver cutoff x = some r → r.addr = x.addr := by
  intro x r h
  unfold cleanResolver at h
  cases hr : x.refreshedAt with
  | none => simp [hr] at h; rw [← h]
  | some t =>
    simp only [hr] at h
    split at h
    · cases h
    · cases h; rfl

/-- every stored row sits under its own address key (holds in every reachable state, C05 `Rep.Inv` / C10) -/
def Keyed (s : AbsState) : Prop := ∀ (k : Nat) (row : SRow), s.servers[k]? = some row → row.svr.addr.key = k

theorem erase_keyed (s : AbsState) (h : Keyed s) (k0 : Nat) : Keyed { s with servers := s.servers.erase k0 } := by
  intro k row hk
  simp only [ExtTreeMap.getElem?_erase] at hk
  split at hk
  · cases hk
  · exact h k row hk

theorem remove_keyed (s : AbsState) (svr : Server) (res : Resolver) (h : Keyed s) : Keyed (s.remove svr res).1 := by
  unfold AbsState.remove
  cases hrow : s.getRow svr.addr with
  | none => exact h
  | some ex =>
    simp only
    split
    · cases res ex.svr with
      | none => exact h
      | some r => exact erase_keyed s h _
    · exact erase_keyed s h _

/-- **C14 (race).**  Whatever list of scanned copies the pass works through: a server whose stored record, at
the start of the deletions, is newer than every scanned copy of it and was refreshed after the cutoff is still
stored, unchanged, when the pass ends — the refresh may have committed between scan and delete. -/
theorem C14_race (cutoff now : Int) : ∀ (svrs : List Server) (s : AbsState) (removed errors : Nat) (k : Nat) (row : SRow) (t : Int),
    Keyed s → s.servers[k]? = some row → row.svr.refreshedAt = some t → t > cutoff →
    (∀ sv ∈ svrs, sv.addr.key = k → sv.version < row.svr.version) →
    ((removeAll cutoff svrs removed errors).run s now).1.servers[k]? = some row := by
  intro svrs
  induction svrs with
  | nil => intro s removed errors k row t _ hrow _ _ _; simpa [removeAll] using hrow
  | cons sv rest ih =>
    intro s removed errors k row t hkeyed hrow hr ht hver
    simp only [removeAll, Prog.run_call, Call.exec]
    have hstep : (s.remove sv (cleanResolver cutoff)).1.servers[k]? = some row := by
      by_cases hk : sv.addr.key = k
      · have hgr : s.getRow sv.addr = some row := by simp [AbsState.getRow, hk, hrow]
        rw [remove_refused_when_refreshed s cutoff sv row t hgr (hver sv (by simp) hk) hr ht]
        exact hrow
      · rw [remove_other_key s sv (cleanResolver cutoff) k (cleanResolver_keeps_addr cutoff)
          (by intro ex hex; exact hkeyed _ _ (by simpa [AbsState.getRow] using hex)) hk]
        exact hrow
    have hkeyed' := remove_keyed s sv (cleanResolver cutoff) hkeyed
    have hrest : ∀ sv' ∈ rest, sv'.addr.key = k → sv'.version < row.svr.version := fun sv' hm => hver sv' (by simp [hm])
    split
    · exact ih _ removed (errors + 1) k row t hkeyed' hstep hr ht hrest
    · exact ih _ (removed + 1) errors k row t hkeyed' hstep hr ht hrest

/-- the repaired guard of the pass: among the fetched records, those refreshed after the cutoff are not handed to the
deletions at all -/
def guarded (cutoff : Int) (svrs : List Server) : List Server :=
  svrs.filter fun s => match s.refreshedAt with | some t => !decide (t > cutoff) | none => true

theorem guard_drops_refreshed (cutoff : Int) (svrs : List Server) (sv : Server) (t : Int)
    (h : sv ∈ guarded cutoff svrs) (hr : sv.refreshedAt = some t) : t ≤ cutoff := by
  unfold guarded at h
  simp only [List.mem_filter, hr] at h
  have := h.2
  simp only [Bool.not_eq_true', decide_eq_false_iff_not] at this
  omega

/-- **C14 (refresh between the scan and the fetch).**  The pass scans the stale keys, then fetches the records.
If a heartbeat or keepalive committed in between, the fetched copy of that server *is* the refreshed record; the
guard drops it, so — whatever else is in the fetched list, as long as every other fetched copy of that key is
older than the stored record — the server is still stored, unchanged, after all deletions. -/
theorem C14_window (cutoff now : Int) (fetched : List Server) (s : AbsState) (k : Nat) (row : SRow) (t : Int)
    (hkeyed : Keyed s) (hrow : s.servers[k]? = some row) (hr : row.svr.refreshedAt = some t) (ht : t > cutoff)
    (hfetched : ∀ sv ∈ fetched, sv.addr.key = k → sv = row.svr ∨ sv.version < row.svr.version) :
    ((removeAll cutoff (guarded cutoff fetched) 0 0).run s now).1.servers[k]? = some row := by
  apply C14_race cutoff now (guarded cutoff fetched) s 0 0 k row t hkeyed hrow hr ht
  intro sv hsv hk
  have hmem : sv ∈ fetched := by
    unfold guarded at hsv
    exact (List.mem_filter.mp hsv).1
  rcases hfetched sv hmem hk with h | h
  · -- the fetched copy is the refreshed record itself: the guard has dropped it
    exfalso
    have := guard_drops_refreshed cutoff fetched sv t hsv (by rw [h]; exact hr)
    omega
  · exact h

/-- the pass, at storage-command granularity, hands exactly the guarded fetched records to the deletions -/
theorem cleanServers2_shape (retention : Int) :
    cleanServers2 retention = .call .now fun now =>
      .call (.scanServers { updatedBefore := some (now - retention) }) fun r =>
      match r with
      | .error _ => pure (0, 0)
      | .ok scanned =>
        if scanned.isEmpty then pure (0, 0)
        else .call (.fetchServers (scanned.map (·.addr))) fun r =>
          match r with
          | .error _ => pure (0, 0)
          | .ok svrs => removeAll (now - retention) (guarded (now - retention) svrs) 0 0 := rfl

/-- a refresh that committed *before* the scan keeps the server out of the scan altogether, provided the
record's update time is not older than its refresh time (`refreshedAt ≤ updatedAt`: every refresh is a write) -/
theorem refreshed_not_scanned (s : AbsState) (cutoff : Int) (kv : Nat × SRow) (t : Int)
    (hmem : kv ∈ s.servers.toList) (hr : kv.2.svr.refreshedAt = some t) (ht : t > cutoff) (hinv : t ≤ kv.2.updatedAt) :
    ({ updatedBefore := some cutoff } : FilterSet).pred kv.2 = false := by
  have : ¬ kv.2.updatedAt < cutoff := by omega
  simp [FilterSet.pred, this]

/-- instance cleanup removes exactly the instances not written since the cutoff (inclusive bound, as coded) -/
theorem clean_instances_count (s : AbsState) (now retention : Int) :
    ((cleanInstances retention).run s now).2 =
      .ok (s.instances.toList.filter fun kv => decide (kv.2.2 ≤ now - retention)).length := by
  simp [cleanInstances, AbsState.insClear, Call.exec]

/-- non-vacuity of `C14_race`: the empty registry is keyed, and a record refreshed after a cutoff exists -/
example : Keyed {} := by intro k row h; simp at h
example : ∃ (row : SRow) (t : Int), row.svr.refreshedAt = some t ∧ t > 3 :=
  ⟨⟨{ addr := ⟨0, 5⟩, queryPort := 6, status := 6#9, info := [], details := ⟨[], [], []⟩, refreshedAt := some 10, version := 4 }, 10⟩, 10, rfl, by decide⟩

end Swat4.C14
