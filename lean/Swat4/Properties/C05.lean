import Swat4.Lemmas.ReporterUC
import Swat4.Lemmas.ReporterPost
import Swat4.Model.Heartbeat6
import Swat4.Lemmas.Heartbeat6
/-!
# C05 — Reporter traffic from one IP can never touch another IP's servers

The model is `Heartbeat.dispatch` (dispatcher, handlers, `UC.report / renew / remove` run through
`Prog.run` on the abstract registry).  `Rep.Inv` is the store invariant every reporter-produced state
has: each row is stored under the key of its own address and every stored address has a port in
1..65535 (what `addr.New` guarantees); under it `Addr.key` is injective (`Addr.key_inj`).

The theorem is per repository call (`Rep.Safe` / `Rep.exec_safe`): `report` writes
`addr.New(sourceIP, hostport)`; `renew` writes `inst.Addr` only after `inst.Addr.ip = sourceIP`;
`remove` erases `(sourceIP, hostport)` — so it also holds for every interleaving of calls of several
datagrams, as long as each call is atomic (C09).
-/
namespace Swat4.C05
open Swat4 Swat4.Heartbeat Swat4.Rep Std

/-- keys of addresses whose IP is `ip` -/
def KeyOfIp (ip : Nat) (k : Nat) : Prop := k / 65536 = ip

theorem addrNew_ok {ip : Nat} {port : Int} {a : Addr} (h : addrNew ip port = some a) : a.ip = ip ∧ a.PortOk := by
  unfold addrNew at h
  split at h
  · cases h
  · rename_i hp
    split at h
    · cases h
      exact ⟨rfl, by unfold Addr.PortOk; dsimp only; omega⟩
    · cases h

/-- the address a heartbeat is filed under always carries the datagram's source IP -/
theorem parseAddr_ok {srcIp : Nat} {m : FieldMap} {a : Addr} {qp : Int} (h : parseAddr srcIp m = some (a, qp)) :
    a.ip = srcIp ∧ a.PortOk := by
  unfold parseAddr at h
  split at h
  · split at h
    · rename_i hn
      cases h
      exact addrNew_ok hn
    · cases h
  · cases h

theorem handleHeartbeat_safe (cfg : Cfg) (st : AbsState) (srcIp srcPort : Nat) (payload : Bytes) (now : Int) (h : Inv st) :
    Inv (handleHeartbeat cfg st srcIp srcPort payload now).1 ∧
    Frame (KeyOfIp srcIp) st (handleHeartbeat cfg st srcIp srcPort payload now).1 := by
  have triv : Inv st ∧ Frame (KeyOfIp srcIp) st st := ⟨h, Frame.refl _ _⟩
  unfold handleHeartbeat
  cases parseInstanceID payload with
  | none => exact triv
  | some p =>
    obtain ⟨id, rest⟩ := p
    dsimp only
    cases parseHeartbeatParams rest with
    | none => exact triv
    | some fields =>
      dsimp only
      split
      · exact triv
      · cases ha : parseAddr srcIp fields with
        | none => exact triv
        | some p =>
          obtain ⟨a, qp⟩ := p
          have hok := parseAddr_ok ha
          have hP : KeyOfIp srcIp a.key := by unfold KeyOfIp; rw [Addr.key_div hok.2]; exact hok.1
          dsimp only
          split
          · exact run_safe (remove_safe (idNat id) a hP) st now h
          · exact run_safe (report_safe zeroInfo cfg.maxRetries ⟨a, qp, idNat id, infoOf fields⟩ hP hok.2) st now h

/-- every repository call issued for a datagram from `srcIp` is safe for the keys of `srcIp`; hence one
datagram keeps the invariant and leaves every row of every other IP alone -/
theorem dispatch_safe (cfg : Cfg) (st : AbsState) (srcIp srcPort : Nat) (payload : Bytes) (now : Int) (h : Inv st) :
    Inv (dispatch cfg st srcIp srcPort payload now).1 ∧
    Frame (KeyOfIp srcIp) st (dispatch cfg st srcIp srcPort payload now).1 := by
  have triv : Inv st ∧ Frame (KeyOfIp srcIp) st st := ⟨h, Frame.refl _ _⟩
  unfold dispatch
  cases payload with
  | nil => exact triv
  | cons t rest =>
    dsimp only
    split
    · exact handleHeartbeat_safe cfg st srcIp srcPort (t :: rest) now h
    · split
      · -- keepalive
        unfold handleKeepalive
        split
        · exact triv
        · exact run_safe (renew_safe _ srcIp) st now h
      · split
        · exact triv
        · split
          · exact triv
          · exact triv

/-- **C05, one datagram.** For every state satisfying the store invariant, every payload and every
source: a server row that differs between the state before and after `dispatch` — created, changed,
refreshed or removed — has an address whose IP is the datagram's source IP. -/
theorem reporter_touches_only_source_ip (cfg : Cfg) (st : AbsState) (h : Inv st) (srcIp srcPort : Nat)
    (payload : Bytes) (now : Int) (k : Nat)
    (hdiff : (dispatch cfg st srcIp srcPort payload now).1.servers[k]? ≠ st.servers[k]?) :
    (∀ r : SRow, st.servers[k]? = some r → r.svr.addr.ip = srcIp) ∧
    (∀ r : SRow, (dispatch cfg st srcIp srcPort payload now).1.servers[k]? = some r → r.svr.addr.ip = srcIp) := by
  have hs := dispatch_safe cfg st srcIp srcPort payload now h
  have hk : k / 65536 = srcIp := by
    by_cases hk : k / 65536 = srcIp
    · exact hk
    · exact absurd (hs.2 k hk) hdiff
  constructor
  · intro r hr
    have := h.1 k r hr
    rw [← Addr.key_div this.2, this.1]; exact hk
  · intro r hr
    have := hs.1.1 k r hr
    rw [← Addr.key_div this.2, this.1]; exact hk

/-- non-vacuity of `Inv`: the empty store has it (and `inv_reachable`: so has every reachable state) -/
example : Inv {} := inv_empty

/-- the invariant holds along every history -/
theorem inv_runHistory (cfg : Cfg) (ds : List Dgram) : ∀ (st : AbsState), Inv st → Inv (runHistory cfg st ds) := by
  induction ds with
  | nil => intro st h; exact h
  | cons d ds ih =>
    intro st h
    exact ih _ (dispatch_safe cfg st d.srcIp d.srcPort d.payload d.now h).1

/-- every state reachable from the empty store satisfies the invariant -/
theorem inv_reachable (cfg : Cfg) (ds : List Dgram) : Inv (runHistory cfg {} ds) :=
  inv_runHistory cfg ds {} inv_empty

/-- **C05, histories.** Whatever sequence of datagrams is received: the rows of IP `B` after the history
are the rows before it, unless some datagram of the history came from `B` itself. -/
theorem C05_main (cfg : Cfg) (ds : List Dgram) (B : Nat) :
    ∀ (st : AbsState), Inv st → (∀ d ∈ ds, d.srcIp ≠ B) →
    ∀ (k : Nat), k / 65536 = B → (runHistory cfg st ds).servers[k]? = st.servers[k]? := by
  induction ds with
  | nil => intro st _ _ k _; rfl
  | cons d ds ih =>
    intro st h hB k hk
    have hs := dispatch_safe cfg st d.srcIp d.srcPort d.payload d.now h
    have hd : d.srcIp ≠ B := hB d (List.mem_cons_self)
    have h1 := ih (step cfg st d) hs.1 (fun d' hd' => hB d' (List.mem_cons_of_mem _ hd')) k hk
    have h2 : (step cfg st d).servers[k]? = st.servers[k]? := hs.2 k (by unfold KeyOfIp; rw [hk]; exact fun e => hd e.symm)
    exact h1.trans h2

/-- **C05, every step of every history**: at each position of a history started in a reachable state, the
datagram handled there touches only rows of its own source IP. -/
theorem C05_steps (cfg : Cfg) (pre : List Dgram) (d : Dgram) (st : AbsState) (h : Inv st) (k : Nat)
    (hk : k / 65536 ≠ d.srcIp) :
    (runHistory cfg st (pre ++ [d])).servers[k]? = (runHistory cfg st pre).servers[k]? := by
  have hi := inv_runHistory cfg pre st h
  have hs := dispatch_safe cfg (runHistory cfg st pre) d.srcIp d.srcPort d.payload d.now hi
  have : runHistory cfg st (pre ++ [d]) = step cfg (runHistory cfg st pre) d := by
    simp [runHistory, List.foldl_append]
  rw [this]
  exact hs.2 k hk

theorem run_pure {α : Type} (a : α) (s : AbsState) (now : Int) : (pure a : Prog α).run s now = (s, a) := rfl

/-- the message-type bytes the statements below mention are the ones the dispatcher routes on -/
theorem facts_ok : Facts.reporterMsgHeartbeat = 3 ∧ Facts.reporterMsgKeepalive = 8 := by decide

/-- **A keepalive presenting an instance id bound to another IP is rejected**: for every state and every
keepalive datagram (type byte 08, at least 5 bytes) from `srcIp` whose instance id is currently bound to an
address with a different IP, the handler returns an error, sends nothing and the state is unchanged. -/
theorem keepalive_foreign_instance_rejected (cfg : Cfg) (st : AbsState) (srcIp srcPort : Nat) (now : Int)
    (id rest : Bytes) (hid : id.length = 4) (a : Addr) (t : Int)
    (hb : st.instances[idNat id]? = some (a, t)) (hne : a.ip ≠ srcIp) :
    dispatch cfg st srcIp srcPort (0x08 :: (id ++ rest)) now = (st, .err) := by
  have hp : parseInstanceID (0x08 :: (id ++ rest)) = some (id, rest) := by
    unfold parseInstanceID
    have : ¬ ((0x08 :: (id ++ rest)).length < 5) := by simp [hid]
    rw [if_neg this]
    have e1 : ((0x08 :: (id ++ rest)).drop 1).take 4 = id := by
      show (id ++ rest).take 4 = id
      exact List.take_left' hid
    have e2 : (0x08 :: (id ++ rest)).drop 5 = rest := by
      show (id ++ rest).drop 4 = rest
      exact List.drop_left' hid
    rw [e1, e2]
  have hty : ((0x08 : UInt8).toNat = Facts.reporterMsgHeartbeat) = False := by decide
  have hty2 : ((0x08 : UInt8).toNat = Facts.reporterMsgKeepalive) = True := by decide
  unfold dispatch
  simp only [hty, hty2, if_false, if_true]
  unfold handleKeepalive
  rw [hp]
  simp only [UC.renew, Prog.run, Call.exec, AbsState.insGet, hb, finish]
  rw [if_pos hne, run_pure]

/-- non-vacuity: a state binding an instance id to 1.1.1.1:10480, presented by 2.2.2.2 -/
example : ∃ (st : AbsState) (a : Addr) (t : Int),
    st.instances[idNat [0xde, 0xad, 0xbe, 0xef]]? = some (a, t) ∧ a.ip ≠ 0x02020202 ∧ Inv st :=
  ⟨({} : AbsState).insAdd 7 ⟨idNat [0xde, 0xad, 0xbe, 0xef], ⟨0x01010101, 10480⟩⟩, ⟨0x01010101, 10480⟩, 7,
    by simp [AbsState.insAdd], by decide,
    (exec_safe (P := fun _ => True) (.insAdd ⟨idNat [0xde, 0xad, 0xbe, 0xef], ⟨0x01010101, 10480⟩⟩) {} 7
      (by show Addr.PortOk _; unfold Addr.PortOk; decide) inv_empty).1⟩

/-- **A removal presenting an instance id bound to another IP is rejected**: for every state satisfying the
store invariant and every heartbeat datagram from `srcIp` that parses, carries `statechanged=2`, and whose
instance id is currently bound to an address with a different IP, the handler returns an error, sends
nothing and the state is unchanged (the server at `(srcIp, hostport)` — if any — stays). -/
theorem removal_foreign_instance_rejected (cfg : Cfg) (st : AbsState) (hinv : Inv st) (srcIp srcPort : Nat) (now : Int)
    (payload id rest : Bytes) (fields : FieldMap) (a : Addr) (qp : Int)
    (h1 : parseInstanceID payload = some (id, rest)) (h2 : parseHeartbeatParams rest = some fields)
    (h3 : fields.isEmpty = false) (h4 : parseAddr srcIp fields = some (a, qp))
    (h5 : fields.get? kStatechanged = some [0x32])
    (ia : Addr) (t : Int) (hb : st.instances[idNat id]? = some (ia, t)) (hne : ia.ip ≠ srcIp) :
    handleHeartbeat cfg st srcIp srcPort payload now = (st, .err) := by
  have hok := parseAddr_ok h4
  unfold handleHeartbeat
  rw [h1]
  dsimp only
  rw [h2]
  dsimp only
  rw [h3, h4]
  dsimp only
  rw [if_neg (by simp), if_pos h5]
  simp only [UC.remove, Prog.run, Call.exec]
  cases hg : st.get a with
  | error e => cases e <;> simp only [finish, run_pure]
  | ok svr =>
    have hsv := get_ok hinv hg
    have hsa : svr.addr = a := Addr.key_inj hsv.2 hok.2 hsv.1
    simp only [Prog.run, Call.exec, AbsState.insGet, hb]
    have : ia.ip ≠ svr.addr.ip := by rw [hsa, hok.1]; exact hne
    rw [if_pos this]
    simp only [finish, run_pure]


/-! ## concrete two-party states (non-vacuity of the rejection theorems) -/

def idX : Bytes := [0xde, 0xad, 0xbe, 0xef]
def idY : Bytes := [0x01, 0x02, 0x03, 0x04]

/-- the pairs of a valid first report for game port 10480 -/
def reportBody : Bytes :=
  kv "hostname" "Srv" ++ kv "hostport" "10480" ++ kv "localport" "10481" ++ kv "gamevariant" "SWAT 4" ++ kv "gamever" "1.1" ++
  kv "gametype" "VIP Escort" ++ kv "mapname" "A-Bomb Nightclub" ++ kv "numplayers" "3" ++ kv "maxplayers" "16"

/-- heartbeat datagram presenting instance id `id` -/
def report (id : Bytes) : Bytes := 0x03 :: (id ++ reportBody)
/-- removal datagram (`statechanged=2`) for game port 10480 presenting instance id `id` -/
def removal (id : Bytes) : Bytes := 0x03 :: (id ++ (kv "hostport" "10480" ++ kv "localport" "10481" ++ kv "statechanged" "2"))

def ipA : Nat := 0x02020202
def ipB : Nat := 0x01010101
def keyB : Nat := (⟨ipB, 10480⟩ : Addr).key

/-- B (1.1.1.1) has registered 1.1.1.1:10480 under instance id X, then A (2.2.2.2) 2.2.2.2:10480 under Y -/
def stBA : AbsState := runHistory ⟨3⟩ {} [⟨ipB, 1111, report idX, 1000⟩, ⟨ipA, 2222, report idY, 1256⟩]

set_option maxRecDepth 20000 in
/-- **joint non-vacuity of the seven hypotheses of `removal_foreign_instance_rejected`**: in the reachable state
`stBA` (both servers present), A's removal of its own 2.2.2.2:10480 presenting B's instance id X parses, carries
`statechanged=2`, derives the address 2.2.2.2:10480, and X is bound to 1.1.1.1:10480 — the theorem applies and the
datagram is rejected with the state unchanged -/
example : handleHeartbeat ⟨3⟩ stBA ipA 2222 (removal idX) 2000 = (stBA, .err) :=
  removal_foreign_instance_rejected ⟨3⟩ stBA (inv_reachable _ _) ipA 2222 2000 (removal idX) idX
    (kv "hostport" "10480" ++ kv "localport" "10481" ++ kv "statechanged" "2")
    [(ascii "hostport", ascii "10480"), (ascii "localport", ascii "10481"), (ascii "statechanged", ascii "2")]
    ⟨ipA, 10480⟩ 10481 (by decide) (by decide) (by decide) (by decide) (by decide) ⟨ipB, 10480⟩ 1000 (by decide) (by decide)

set_option maxRecDepth 20000 in
/-- … and both servers are indeed there (the rejection is not for want of a server) -/
example : (stBA.servers[(⟨ipA, 10480⟩ : Addr).key]?).isSome = true ∧ (stBA.servers[keyB]?).isSome = true := by decide

/-! ## the instance table -/

theorem remove_instances (st : AbsState) (hinv : Inv st) (now : Int) (id : Nat) (a : Addr) (hok : a.PortOk) (i : Nat) (hi : i ≠ id) :
    ((UC.remove id a).run st now).1.instances[i]? = st.instances[i]? := by
  rw [remove_refines st hinv now id a hok]
  split
  · split
    · rfl
    · simp only [ExtTreeMap.getElem?_erase, Nat.compare_eq_eq]
      rw [if_neg (Ne.symm hi)]
  · rfl

theorem report_instances (mr : Int) (st : AbsState) (hinv : Inv st) (now : Int) (id : Nat) (a : Addr) (qp : Int)
    (info? : Option Fields) (i : Nat) (hi : i ≠ id) :
    ((UC.report zeroInfo mr ⟨a, qp, id, info?⟩).run st now).1.instances[i]? = st.instances[i]? := by
  have h := congrArg Prod.fst (report_refines mr st hinv now id a qp info?)
  dsimp only at h
  rw [h]
  unfold reportSpec
  split
  · rfl
  · split
    · rfl
    · simp only [ExtTreeMap.getElem?_insert, Nat.compare_eq_eq]
      rw [if_neg (Ne.symm hi)]

theorem renew_instances (st : AbsState) (hinv : Inv st) (now : Int) (id : Bytes) (srcIp : Nat) :
    ((UC.renew (idNat id) srcIp).run st now).1.instances = st.instances := by
  rw [renew_refines st hinv srcIp now id ⟨0⟩ 0]
  unfold ReporterSpec.absStep
  dsimp only
  split
  · rfl
  · split
    · rfl
    · split <;> rfl

/-- **The instance table changes only at the presented id.** (C05 speaks of server records; this is the matching
frame for the `instances` component, which `Rep.Frame` does not cover.)  For every state satisfying the store
invariant, every payload and source: if `instances[i]` differs before/after `dispatch`, then the datagram is a
heartbeat-type datagram (type byte 03: report or removal — a keepalive never changes the table) of at least 5
bytes and `i` is the instance id it presents (`payload[1:5]`).  NOTE what this does NOT exclude: the presented
id may currently be bound to ANOTHER IP's server — a report rebinds it unconditionally (`instanceRepo.Add`
overwrites); see the example below. -/
theorem instances_change_only_for_presented_id (cfg : Cfg) (st : AbsState) (hinv : Inv st) (srcIp srcPort : Nat)
    (payload : Bytes) (now : Int) (i : Nat)
    (hdiff : (dispatch cfg st srcIp srcPort payload now).1.instances[i]? ≠ st.instances[i]?) :
    ∃ id rest, parseInstanceID payload = some (id, rest) ∧ i = idNat id
      ∧ payload.head?.map UInt8.toNat = some Facts.reporterMsgHeartbeat := by
  revert hdiff
  unfold dispatch
  cases payload with
  | nil => intro h; exact absurd rfl h
  | cons t rest =>
    dsimp only
    split
    · rename_i ht
      unfold handleHeartbeat
      cases hp : parseInstanceID (t :: rest) with
      | none => intro h; exact absurd rfl h
      | some p =>
        obtain ⟨id, r⟩ := p
        dsimp only
        intro hdiff
        refine ⟨id, r, rfl, ?_, by simp [ht]⟩
        apply Classical.byContradiction
        intro hne
        apply hdiff
        cases parseHeartbeatParams r with
        | none => rfl
        | some fields =>
          dsimp only
          split
          · rfl
          · cases ha : parseAddr srcIp fields with
            | none => rfl
            | some p =>
              obtain ⟨a, qp⟩ := p
              have hok := parseAddr_ok ha
              dsimp only
              split
              · exact remove_instances st hinv now (idNat id) a hok.2 i hne
              · exact report_instances cfg.maxRetries st hinv now (idNat id) a qp _ i hne
    · split
      · unfold handleKeepalive
        split
        · intro h; exact absurd rfl h
        · intro h
          exact absurd (by rw [show ∀ r ok, (finish r ok).1 = r.1 from fun _ _ => rfl, renew_instances st hinv]) h
      · split
        · intro h; exact absurd rfl h
        · split <;> (intro h; exact absurd rfl h)

/-- B (1.1.1.1) has registered 1.1.1.1:10480 under instance id X -/
def stB : AbsState := runHistory ⟨3⟩ {} [⟨ipB, 1111, report idX, 1000⟩]
/-- … then A (2.2.2.2) reports its own 2.2.2.2:10480 presenting the SAME instance id X -/
def stB' : AbsState := step ⟨3⟩ stB ⟨ipA, 2222, report idX, 2024⟩

set_option maxRecDepth 20000 in
/-- **What the statement allows: a heartbeat from A presenting B's instance id REBINDS it to A.**  X was bound to
1.1.1.1:10480; after A's report it is bound to 2.2.2.2:10480 (`reportserver` calls `instances.Add`, which
overwrites, without looking at the current binding); B's server record is untouched (as C05 demands) — but B's
keepalive with X, accepted before, is now rejected (`unknownInstance`: the instance belongs to another IP), and so
would be B's removal, until B's next full heartbeat binds X back. -/
example :
    stB.instances[idNat idX]? = some (⟨ipB, 10480⟩, 1000)
    ∧ stB'.instances[idNat idX]? = some (⟨ipA, 10480⟩, 2024)
    ∧ stB'.servers[keyB]? = stB.servers[keyB]?
    ∧ (stB.servers[keyB]?).isSome = true
    ∧ (dispatch ⟨3⟩ stB ipB 1111 (0x08 :: idX) 3000).2 = .silent
    ∧ (dispatch ⟨3⟩ stB' ipB 1111 (0x08 :: idX) 3000).2 = .err := by
  refine ⟨?_, ?_, ?_, ?_, ?_, ?_⟩ <;> decide

set_option maxRecDepth 20000 in
/-- non-vacuity of the hypothesis of `instances_change_only_for_presented_id`: A's report changes `instances[X]` -/
example : (dispatch ⟨3⟩ stB ipA 2222 (report idX) 2024).1.instances[idNat idX]? ≠ stB.instances[idNat idX]? := by decide

/-! ## the probe queue -/

theorem report_queue (mr : Int) (st : AbsState) (hinv : Inv st) (now : Int) (id : Nat) (a : Addr) (hok : a.PortOk) (qp : Int)
    (info? : Option Fields) :
    ((UC.report zeroInfo mr ⟨a, qp, id, info?⟩).run st now).1.queue = st.queue ∨
    ((UC.report zeroInfo mr ⟨a, qp, id, info?⟩).run st now).1.queue =
      st.queue ++ [⟨st.nextId, ⟨a, a.port, .port, 0, mr⟩, now, none⟩] := by
  have h := congrArg Prod.fst (report_refines mr st hinv now id a qp info?)
  dsimp only at h
  rw [h]
  unfold reportSpec
  have key : ∀ (info : Fields) (base : Server), base.addr = a →
      (if (ReporterSpec.reportedServer base info now).2 = true then
          st.queue ++ [⟨st.nextId, ⟨(ReporterSpec.reportedServer base info now).1.addr, (ReporterSpec.reportedServer base info now).1.addr.port, .port, 0, mr⟩, now, none⟩]
        else st.queue) = st.queue ∨
      (if (ReporterSpec.reportedServer base info now).2 = true then
          st.queue ++ [⟨st.nextId, ⟨(ReporterSpec.reportedServer base info now).1.addr, (ReporterSpec.reportedServer base info now).1.addr.port, .port, 0, mr⟩, now, none⟩]
        else st.queue) = st.queue ++ [⟨st.nextId, ⟨a, a.port, .port, 0, mr⟩, now, none⟩] := by
    intro info base hb
    have ha : (ReporterSpec.reportedServer base info now).1.addr = a := by
      unfold ReporterSpec.reportedServer; dsimp only; split <;> exact hb
    rw [ha]
    split
    · exact Or.inr rfl
    · exact Or.inl rfl
  cases info? with
  | none => exact Or.inl rfl
  | some info =>
    dsimp only
    cases hr : st.servers[a.key]? with
    | some r =>
      dsimp only
      have hrow := hinv.1 _ _ hr
      exact key info r.svr (Addr.key_inj hrow.2 hok hrow.1)
    | none =>
      dsimp only
      by_cases hq : qp < 1 ∨ qp > 65535
      · rw [if_pos hq]; exact Or.inl rfl
      · rw [if_neg hq]; exact key info (ReporterSpec.freshServer a qp) rfl

theorem remove_queue (st : AbsState) (hinv : Inv st) (now : Int) (id : Nat) (a : Addr) (hok : a.PortOk) :
    ((UC.remove id a).run st now).1.queue = st.queue := by
  rw [remove_refines st hinv now id a hok]
  split
  · split <;> rfl
  · rfl

theorem renew_queue (st : AbsState) (hinv : Inv st) (now : Int) (id : Bytes) (srcIp : Nat) :
    ((UC.renew (idNat id) srcIp).run st now).1.queue = st.queue := by
  rw [renew_refines st hinv srcIp now id ⟨0⟩ 0]
  unfold ReporterSpec.absStep
  dsimp only
  split
  · rfl
  · split
    · rfl
    · split <;> rfl

/-- **the queue after one datagram, in closed form**: for every state with the store invariant, every payload, source
and clock value, the probe queue after `dispatch` is the queue before, or the queue before with ONE item appended: the
port-discovery probe (goal `port`, retries 0, the configured retry budget, ready now, no expiry, the next fresh id) for
an address `a` whose IP is the datagram's source IP and whose port is in 1..65535.  Nothing is ever removed from the
queue or reordered by the reporter. -/
theorem dispatch_queue (cfg : Cfg) (st : AbsState) (h : Inv st) (srcIp srcPort : Nat) (payload : Bytes) (now : Int) :
    (dispatch cfg st srcIp srcPort payload now).1.queue = st.queue ∨
    ∃ a : Addr, a.ip = srcIp ∧ a.PortOk ∧
      (dispatch cfg st srcIp srcPort payload now).1.queue =
        st.queue ++ [⟨st.nextId, ⟨a, a.port, .port, 0, cfg.maxRetries⟩, now, none⟩] := by
  unfold dispatch
  cases payload with
  | nil => exact Or.inl rfl
  | cons t rest =>
    dsimp only
    split
    · unfold handleHeartbeat
      cases parseInstanceID (t :: rest) with
      | none => exact Or.inl rfl
      | some p =>
        obtain ⟨id, rest'⟩ := p
        dsimp only
        cases parseHeartbeatParams rest' with
        | none => exact Or.inl rfl
        | some fields =>
          dsimp only
          split
          · exact Or.inl rfl
          · cases ha : parseAddr srcIp fields with
            | none => exact Or.inl rfl
            | some p =>
              obtain ⟨a, qp⟩ := p
              have hok := parseAddr_ok ha
              dsimp only
              split
              · exact Or.inl (remove_queue st h now (idNat id) a hok.2)
              · rcases report_queue cfg.maxRetries st h now (idNat id) a hok.2 qp (infoOf fields) with hq | hq
                · exact Or.inl hq
                · exact Or.inr ⟨a, hok.1, hok.2, hq⟩
    · split
      · unfold handleKeepalive
        split
        · exact Or.inl rfl
        · rename_i id _ _
          exact Or.inl (renew_queue st h now id srcIp)
      · split
        · exact Or.inl rfl
        · split
          · exact Or.inl rfl
          · exact Or.inl rfl

/-- **C05, the probe queue (the queue frame the reviewer found only sampled).**  For every state satisfying the store
invariant, every payload, every source and every clock value: a queue item that is in the probe queue after `dispatch`
and was not there before — i.e. every probe that handling a datagram from source IP `srcIp` enqueues — is a probe for an
address whose IP is `srcIp`.  So reporter traffic from one IP can never make the master probe (and, through a probe
outcome, change or delist) a server of another IP; together with `reporter_touches_only_source_ip` (server rows) and
`instances_change_only_for_presented_id` (instance table) this frames all three components of the state.  The stronger
closed form (at most one item, appended at the end, nothing removed) is `dispatch_queue`. -/
theorem reporter_enqueues_only_for_source_ip (cfg : Cfg) (st : AbsState) (h : Inv st) (srcIp srcPort : Nat)
    (payload : Bytes) (now : Int) (q : QItem)
    (hnew : q ∈ (dispatch cfg st srcIp srcPort payload now).1.queue) (hold : q ∉ st.queue) :
    q.probe.addr.ip = srcIp := by
  rcases dispatch_queue cfg st h srcIp srcPort payload now with hq | ⟨a, hip, _, hq⟩
  · rw [hq] at hnew; exact absurd hnew hold
  · rw [hq] at hnew
    rcases List.mem_append.1 hnew with hm | hm
    · exact absurd hm hold
    · rw [List.mem_singleton.1 hm]; exact hip

/-- the reporter never removes a queued probe: everything queued before is still queued after -/
theorem reporter_keeps_queued (cfg : Cfg) (st : AbsState) (h : Inv st) (srcIp srcPort : Nat)
    (payload : Bytes) (now : Int) (q : QItem) (hq : q ∈ st.queue) :
    q ∈ (dispatch cfg st srcIp srcPort payload now).1.queue := by
  rcases dispatch_queue cfg st h srcIp srcPort payload now with e | ⟨a, _, _, e⟩
  · rw [e]; exact hq
  · rw [e]; exact List.mem_append_left _ hq

set_option maxRecDepth 20000 in
/-- non-vacuity of `reporter_enqueues_only_for_source_ip`: the empty store has the invariant, and the accepted first
report of B's server (from 1.1.1.1:1111 at clock 1000) DOES enqueue a probe — the queue goes from empty to the one
port-discovery probe for 1.1.1.1:10480 — so the hypotheses `hnew`/`hold` are met by a real item, whose IP is B's -/
example : (dispatch ⟨3⟩ {} ipB 1111 (report idX) 1000).2 = .reply (heartbeatReply idX ipB 1111) ∧
    (dispatch ⟨3⟩ {} ipB 1111 (report idX) 1000).1.queue = [⟨0, ⟨⟨ipB, 10480⟩, 10480, .port, 0, 3⟩, 1000, none⟩] ∧
    (⟨0, ⟨⟨ipB, 10480⟩, 10480, .port, 0, 3⟩, 1000, none⟩ : QItem) ∉ ({} : AbsState).queue := by
  refine ⟨by decide, by decide, ?_⟩
  intro hm; cases hm

set_option maxRecDepth 20000 in
/-- and a second datagram, from A, in the state B's report left: A's report enqueues a probe for A's address only, B's
item stays where it was -/
example : (dispatch ⟨3⟩ stB ipA 2222 (report idY) 1256).1.queue =
    stB.queue ++ [⟨1, ⟨⟨ipA, 10480⟩, 10480, .port, 0, 3⟩, 1256, none⟩] ∧ stB.queue.length = 1 := by decide

/-! ## IPv6 sources (`Model/Heartbeat6.lean`)

`dispatch` takes the source as a number (four bytes).  A datagram from an IPv6 source that is not IPv4-mapped
(`connAddr.IP.To4() == nil`; the reporter socket is dual-stack) is the subject of `Heartbeat6.dispatch6`, which takes
`connAddr.IP` as bytes.  Such a source owns no server (every stored address is IPv4) — so C05 demands that it
touches NO server record at all. -/

open Swat4.Heartbeat6 in
/-- for a 16-byte address, "not IPv4-mapped" is exactly `To4() == nil` -/
theorem to4_none_iff (src16 : Bytes) (h : src16.length = 16) : to4 src16 = none ↔ src16.take 12 ≠ v4InV6Prefix := by
  unfold to4
  rw [if_neg (by omega)]
  by_cases hp : src16.take 12 = v4InV6Prefix
  · rw [if_pos ⟨h, hp⟩]; simp [hp]
  · rw [if_neg (fun c => hp c.2)]; simp [hp]

open Swat4.Heartbeat6 in
/-- `net.IP.Equal` of a four-byte address and a nil slice is `false` (lengths 4 and 0: none of the three cases) -/
theorem ipEqual_nil (ip : Nat) : ipEqual (ipBytes ip) [] = false := rfl

open Swat4.Heartbeat6 in
theorem addrNewIP_non_ipv4 (src : Bytes) (h : to4 src = none) (port : Int) : addrNewIP src port = none := by
  unfold addrNewIP
  rw [h]
  split
  · rfl
  · split <;> rfl

open Swat4.Heartbeat6 in
theorem handleHeartbeat6_non_ipv4 (cfg : Cfg) (st : AbsState) (src : Bytes) (h : to4 src = none) (srcPort : Nat)
    (payload : Bytes) (now : Int) : handleHeartbeat6 cfg st src srcPort payload now = (st, .err) := by
  unfold handleHeartbeat6
  cases parseInstanceID payload with
  | none => rfl
  | some p =>
    obtain ⟨id, rest⟩ := p
    dsimp only
    cases parseHeartbeatParams rest with
    | none => rfl
    | some fields =>
      dsimp only
      split
      · rfl
      · have : parseAddrIP src fields = none := by
          unfold parseAddrIP
          split
          · rw [addrNewIP_non_ipv4 src h]
          · rfl
        rw [this]

open Swat4.Heartbeat6 in
theorem handleKeepalive6_non_ipv4 (st : AbsState) (src : Bytes) (h : to4 src = none) (payload : Bytes) (now : Int) :
    handleKeepalive6 st src payload now = (st, .err) := by
  unfold handleKeepalive6
  cases parseInstanceID payload with
  | none => rfl
  | some p =>
    obtain ⟨id, rest⟩ := p
    dsimp only
    simp only [renewIP, Prog.run, Call.exec, h, nilEmpty]
    cases st.insGet (idNat id) with
    | error e => simp only [finish, run_pure]
    | ok inst =>
      dsimp only
      rw [ipEqual_nil]
      simp only [Bool.not_false, if_true, finish, run_pure]

open Swat4.Heartbeat6 in
/-- **What the dispatcher does with a non-IPv4 source, in full.**  For every state, clock, payload and every source
with `To4() == nil`: the empty datagram panics (as from any source); a challenge (type 01) or availability (type 09)
request is answered exactly as from an IPv4 source (those handlers ignore the source); EVERYTHING else — heartbeat,
removal, keepalive, unknown type — is an error, nothing is sent, and the state is the state before.  This is the
expression the driver used to hard-code for `dg6` (Drv/RepCommon.lean); it now runs `dispatch6`. -/
theorem dispatch6_non_ipv4 (cfg : Cfg) (st : AbsState) (src : Bytes) (h : to4 src = none) (srcPort : Nat)
    (payload : Bytes) (now : Int) :
    dispatch6 cfg st src srcPort payload now =
      match payload with
      | t :: _ => if t.toNat = Facts.reporterMsgChallenge ∨ t.toNat = Facts.reporterMsgAvailable
          then dispatch cfg st 0 srcPort payload now else (st, Outcome.err)
      | [] => (st, Outcome.panic) := by
  cases payload with
  | nil => rfl
  | cons t rest =>
    unfold dispatch6 dispatch
    dsimp only
    by_cases h3 : t.toNat = Facts.reporterMsgHeartbeat
    · have : ¬ (t.toNat = Facts.reporterMsgChallenge ∨ t.toNat = Facts.reporterMsgAvailable) := by
        rw [h3]; decide
      rw [if_pos h3, if_neg this]
      exact handleHeartbeat6_non_ipv4 cfg st src h srcPort _ now
    · rw [if_neg h3]
      by_cases h8 : t.toNat = Facts.reporterMsgKeepalive
      · have : ¬ (t.toNat = Facts.reporterMsgChallenge ∨ t.toNat = Facts.reporterMsgAvailable) := by
          rw [h8]; decide
        rw [if_pos h8, if_neg this]
        exact handleKeepalive6_non_ipv4 st src h _ now
      · rw [if_neg h8, if_neg h3, if_neg h8]
        by_cases h1 : t.toNat = Facts.reporterMsgChallenge
        · rw [if_pos h1, if_pos (Or.inl h1)]
        · rw [if_neg h1]
          by_cases h9 : t.toNat = Facts.reporterMsgAvailable
          · rw [if_pos h9, if_pos (Or.inr h9)]
          · rw [if_neg h9, if_neg (by rintro (c | c); exact h1 c; exact h9 c)]

open Swat4.Heartbeat6 in
/-- **A datagram from a non-IPv4 source changes NOTHING**: for every state, payload, clock and every source with
`To4() == nil`, the whole state after `dispatch6` — registry, instance table, probe queue — is the state before.
(Not even `instances`: a heartbeat, which from an IPv4 source would rebind the presented instance id, is rejected
by `addr.New` before `reportserver` runs.) -/
theorem ipv6_source_changes_nothing (cfg : Cfg) (st : AbsState) (src16 : Bytes) (h : to4 src16 = none) (srcPort : Nat)
    (payload : Bytes) (now : Int) : (dispatch6 cfg st src16 srcPort payload now).1 = st := by
  rw [dispatch6_non_ipv4 cfg st src16 h]
  cases payload with
  | nil => rfl
  | cons t rest =>
    dsimp only
    split
    · rename_i hc
      apply C06_only
      · intro e; rw [e] at hc; revert hc; decide
      · intro e; rw [e] at hc; revert hc; decide
    · rfl
where
  /-- challenge / availability requests leave the state alone (`dispatch` on a type byte other than 03 / 08) -/
  C06_only {cfg : Cfg} {st : AbsState} {ip port : Nat} {t : UInt8} {rest : Bytes} {now : Int}
      (h1 : t.toNat ≠ Facts.reporterMsgHeartbeat) (h2 : t.toNat ≠ Facts.reporterMsgKeepalive) :
      (dispatch cfg st ip port (t :: rest) now).1 = st := by
    unfold dispatch
    dsimp only
    rw [if_neg h1, if_neg h2]
    split
    · rfl
    · split <;> rfl

open Swat4.Heartbeat6 in
/-- **C05 for IPv6 sources: no server record is touched.**  For every state and payload, a datagram whose source is
not an IPv4 (or IPv4-mapped) address — so an address NO stored server can have — leaves every server record as it
was: `servers` after `dispatch6` is `servers` before.  By `ipv6_source_changes_nothing` it may change nothing else
either (instance table and probe queue included). -/
theorem ipv6_source_touches_no_server (cfg : Cfg) (st : AbsState) (src16 : Bytes) (h : to4 src16 = none) (srcPort : Nat)
    (payload : Bytes) (now : Int) : (dispatch6 cfg st src16 srcPort payload now).1.servers = st.servers := by
  rw [ipv6_source_changes_nothing cfg st src16 h]

open Swat4.Heartbeat6 in
/-- **A keepalive from an IPv6 source is rejected, whatever it presents.**  For every state, every source with
`To4() == nil` and every datagram with type byte 08 (any length, any instance id — known or unknown, bound to any
address): error, nothing sent, state unchanged.  In particular when the low 32 bits of the source spell the IPv4
address the instance is bound to (`2001:db8::1.1.1.1` against a server of 1.1.1.1 — example below): the owner check
is `inst.Addr.GetIP().Equal(req.ipAddr.To4())`, the argument is `nil`, and `Equal` of a 4-byte and a 0-byte slice
is `false`; the low bytes are never looked at. -/
theorem ipv6_keepalive_rejected (cfg : Cfg) (st : AbsState) (src16 : Bytes) (h : to4 src16 = none) (srcPort : Nat)
    (rest : Bytes) (now : Int) : dispatch6 cfg st src16 srcPort (0x08 :: rest) now = (st, .err) := by
  rw [dispatch6_non_ipv4 cfg st src16 h]
  rfl

open Swat4.Heartbeat6 in
/-- likewise a heartbeat or removal (type byte 03) from an IPv6 source: `addr.New` answers `ErrInvalidIP` -/
theorem ipv6_heartbeat_rejected (cfg : Cfg) (st : AbsState) (src16 : Bytes) (h : to4 src16 = none) (srcPort : Nat)
    (rest : Bytes) (now : Int) : dispatch6 cfg st src16 srcPort (0x03 :: rest) now = (st, .err) := by
  rw [dispatch6_non_ipv4 cfg st src16 h]
  rfl

/-- `2001:db8::1.1.1.1`: the low 32 bits are B's IPv4 address -/
def src6B : Bytes := [0x20, 0x01, 0x0d, 0xb8, 0, 0, 0, 0, 0, 0, 0, 0, 1, 1, 1, 1]
/-- `::1.1.1.1` (IPv4-COMPATIBLE, not mapped: `To4()` is nil for it too) -/
def src6Bcompat : Bytes := [0, 0, 0, 0, 0, 0, 0, 0, 0, 0, 0, 0, 1, 1, 1, 1]
/-- `::ffff:1.1.1.1` (IPv4-MAPPED: this one IS 1.1.1.1) -/
def src6Bmapped : Bytes := [0, 0, 0, 0, 0, 0, 0, 0, 0, 0, 0xff, 0xff, 1, 1, 1, 1]

open Swat4.Heartbeat6 in
/-- non-vacuity of `to4 src16 = none`, and its boundary: a 16-byte source whose low 32 bits are 1.1.1.1 has no
IPv4 form unless its first twelve bytes are the mapped prefix -/
example : to4 src6B = none ∧ to4 src6Bcompat = none ∧ to4 src6Bmapped = some [1, 1, 1, 1] ∧ ipNat [1, 1, 1, 1] = ipB := by
  refine ⟨?_, ?_, ?_, ?_⟩ <;> decide

set_option maxRecDepth 20000 in
open Swat4.Heartbeat6 in
/-- **the instance of `ipv6_keepalive_rejected` the property text asks about.**  In the reachable state `stB` (B =
1.1.1.1 has registered 1.1.1.1:10480 under instance id X) B's own keepalive with X is accepted and refreshes the
server; the SAME datagram from `2001:db8::1.1.1.1` or `::1.1.1.1` is rejected and changes nothing; from the mapped
`::ffff:1.1.1.1` — which IS 1.1.1.1 — it is accepted with the same effect as from 1.1.1.1. -/
example :
    dispatch ⟨3⟩ stB ipB 1111 (0x08 :: idX) 3000 ≠ (stB, .err)
    ∧ (dispatch ⟨3⟩ stB ipB 1111 (0x08 :: idX) 3000).2 = .silent
    ∧ dispatch6 ⟨3⟩ stB src6B 1111 (0x08 :: idX) 3000 = (stB, .err)
    ∧ dispatch6 ⟨3⟩ stB src6Bcompat 1111 (0x08 :: idX) 3000 = (stB, .err)
    ∧ (dispatch6 ⟨3⟩ stB src6Bmapped 1111 (0x08 :: idX) 3000).2 = .silent :=
  ⟨fun e => by have := congrArg Prod.snd e; revert this; decide, by decide,
   ipv6_keepalive_rejected _ _ _ (by decide) _ _ _, ipv6_keepalive_rejected _ _ _ (by decide) _ _ _, by decide⟩

/-! ### `dispatch6` generalises `dispatch` -/

/-- every address the instance table holds is a four-byte address (what `addr.Addr.IP [4]byte` is by type) -/
def InstanceIpsFit (st : AbsState) : Prop :=
  ∀ (id : Nat) (a : Addr) (t : Int), st.instances[id]? = some (a, t) → a.ip < 4294967296

open Swat4.Heartbeat6 in
theorem handleKeepalive6_mapped (st : AbsState) (hfit : InstanceIpsFit st) (src v4 : Bytes) (h : to4 src = some v4)
    (payload : Bytes) (now : Int) : handleKeepalive6 st src payload now = handleKeepalive st (ipNat v4) payload now := by
  unfold handleKeepalive6 handleKeepalive
  cases parseInstanceID payload with
  | none => rfl
  | some p =>
    obtain ⟨id, rest⟩ := p
    dsimp only
    congr 1
    simp only [renewIP, UC.renew, Prog.run, Call.exec, h, nilEmpty]
    cases hg : st.insGet (idNat id) with
    | error e => rfl
    | ok inst =>
      dsimp only
      have hlt : inst.addr.ip < 4294967296 := by
        unfold AbsState.insGet at hg
        split at hg
        · rename_i a t hi
          cases hg
          exact hfit _ a t hi
        · cases hg
      have hiff := ipEqual_v4 inst.addr.ip hlt v4 (to4_length h).1
      by_cases he : inst.addr.ip = ipNat v4
      · have e1 : (inst.addr.ip ≠ ipNat v4) = False := by simp [he]
        simp only [hiff.mpr he, e1, Bool.not_true, Bool.false_eq_true, if_false]
        rfl
      · have : ipEqual (ipBytes inst.addr.ip) v4 = false := by
          cases hb : ipEqual (ipBytes inst.addr.ip) v4 with
          | false => rfl
          | true => exact absurd (hiff.mp hb) he
        have e1 : (inst.addr.ip ≠ ipNat v4) = True := by simp [he]
        simp only [this, e1, Bool.not_false, if_true]

open Swat4.Heartbeat6 in
/-- **`dispatch6` is `dispatch` on every source that HAS an IPv4 form.**  For a source `src` (4 bytes, or 16 bytes
IPv4-mapped) with `To4() = v4`, every payload and clock, and every state whose instance table holds four-byte
addresses: `dispatch6` returns exactly the state and outcome of `Heartbeat.dispatch` for the number `ipNat v4`.  So
the two dispatchers are one model of the Go dispatcher, split by whether `connAddr.IP.To4()` is nil, and all the
theorems above about `dispatch` carry over to mapped sources. -/
theorem dispatch6_mapped (cfg : Cfg) (st : AbsState) (hfit : InstanceIpsFit st) (src v4 : Bytes) (h : to4 src = some v4)
    (srcPort : Nat) (payload : Bytes) (now : Int) :
    dispatch6 cfg st src srcPort payload now = dispatch cfg st (ipNat v4) srcPort payload now := by
  unfold dispatch6 dispatch
  cases payload with
  | nil => rfl
  | cons t rest =>
    dsimp only
    split
    · unfold handleHeartbeat6 handleHeartbeat
      simp only [parseAddrIP_mapped h, heartbeatReplyIP_mapped h]
      rfl
    · split
      · exact handleKeepalive6_mapped st hfit src v4 h _ now
      · rfl

/-- non-vacuity of `InstanceIpsFit`: the empty table, and a table binding X to 1.1.1.1:10480 -/
example : InstanceIpsFit {} := by intro id a t h; simp at h

example : InstanceIpsFit (({} : AbsState).insAdd 7 ⟨idNat idX, ⟨ipB, 10480⟩⟩) := by
  intro id a t h
  simp only [AbsState.insAdd, ExtTreeMap.getElem?_insert] at h
  split at h
  · cases h; decide
  · simp at h

end Swat4.C05
