import Swat4.Lemmas.ReporterUC
/-!
# C05 — Reporter traffic from one IP can never touch another IP's servers

The model is `Heartbeat.dispatch` (dispatcher, handlers, `UC.report / renew / remove` run through
`Prog.run` on the abstract registry).  `Rep.Inv` is the store invariant every reporter-produced state
has: each row is stored under the key of its own address and every stored address has a port in
1..65535 (what `addr.New` guarantees); under it `Addr.key` is injective (`Addr.key_inj`).

The theorem is per repository call (`Rep.Safe` / `Rep.exec_safe`): `report` writes
`addr.New(sourceIP, hostport)`; `renew` writes `inst.Addr` only after `inst.Addr.ip = sourceIP`;
`remove` erases `(sourceIP, hostport)` — so it also holds for every interleaving of calls of several
datagrams, as long as each call is atomic (C09).
-/
namespace Swat4.C05
open Swat4 Swat4.Heartbeat Swat4.Rep Std

/-- keys of addresses whose IP is `ip` -/
def KeyOfIp (ip : Nat) (k : Nat) : Prop := k / 65536 = ip

theorem addrNew_ok {ip : Nat} {port : Int} {a : Addr} (h : addrNew ip port = some a) : a.ip = ip ∧ a.PortOk := by
  unfold addrNew at h
  split at h
  · cases h
  · rename_i hp
    split at h
    · cases h
      exact ⟨rfl, by unfold Addr.PortOk; dsimp only; omega⟩
    · cases h

/-- the address a heartbeat is filed under always carries the datagram's source IP -/
theorem parseAddr_ok {srcIp : Nat} {m : FieldMap} {a : Addr} {qp : Int} (h : parseAddr srcIp m = some (a, qp)) :
    a.ip = srcIp ∧ a.PortOk := by
  unfold parseAddr at h
  split at h
  · split at h
    · rename_i hn
      cases h
      exact addrNew_ok hn
    · cases h
  · cases h

theorem handleHeartbeat_safe (cfg : Cfg) (st : AbsState) (srcIp srcPort : Nat) (payload : Bytes) (now : Int) (h : Inv st) :
    Inv (handleHeartbeat cfg st srcIp srcPort payload now).1 ∧
    Frame (KeyOfIp srcIp) st (handleHeartbeat cfg st srcIp srcPort payload now).1 := by
  have triv : Inv st ∧ Frame (KeyOfIp srcIp) st st := ⟨h, Frame.refl _ _⟩
  unfold handleHeartbeat
  cases parseInstanceID payload with
  | none => exact triv
  | some p =>
    obtain ⟨id, rest⟩ := p
    dsimp only
    cases parseHeartbeatParams rest with
    | none => exact triv
    | some fields =>
      dsimp only
      split
      · exact triv
      · cases ha : parseAddr srcIp fields with
        | none => exact triv
        | some p =>
          obtain ⟨a, qp⟩ := p
          have hok := parseAddr_ok ha
          have hP : KeyOfIp srcIp a.key := by unfold KeyOfIp; rw [Addr.key_div hok.2]; exact hok.1
          dsimp only
          split
          · exact run_safe (remove_safe (idNat id) a hP) st now h
          · exact run_safe (report_safe zeroInfo cfg.maxRetries ⟨a, qp, idNat id, infoOf fields⟩ hP hok.2) st now h

/-- every repository call issued for a datagram from `srcIp` is safe for the keys of `srcIp`; hence one
datagram keeps the invariant and leaves every row of every other IP alone -/
theorem dispatch_safe (cfg : Cfg) (st : AbsState) (srcIp srcPort : Nat) (payload : Bytes) (now : Int) (h : Inv st) :
    Inv (dispatch cfg st srcIp srcPort payload now).1 ∧
    Frame (KeyOfIp srcIp) st (dispatch cfg st srcIp srcPort payload now).1 := by
  have triv : Inv st ∧ Frame (KeyOfIp srcIp) st st := ⟨h, Frame.refl _ _⟩
  unfold dispatch
  cases payload with
  | nil => exact triv
  | cons t rest =>
    dsimp only
    split
    · exact handleHeartbeat_safe cfg st srcIp srcPort (t :: rest) now h
    · split
      · -- keepalive
        unfold handleKeepalive
        split
        · exact triv
        · exact run_safe (renew_safe _ srcIp) st now h
      · split
        · exact triv
        · split
          · exact triv
          · exact triv

/-- **C05, one datagram.** For every state satisfying the store invariant, every payload and every
source: a server row that differs between the state before and after `dispatch` — created, changed,
refreshed or removed — has an address whose IP is the datagram's source IP. -/
theorem reporter_touches_only_source_ip (cfg : Cfg) (st : AbsState) (h : Inv st) (srcIp srcPort : Nat)
    (payload : Bytes) (now : Int) (k : Nat)
    (hdiff : (dispatch cfg st srcIp srcPort payload now).1.servers[k]? ≠ st.servers[k]?) :
    (∀ r : SRow, st.servers[k]? = some r → r.svr.addr.ip = srcIp) ∧
    (∀ r : SRow, (dispatch cfg st srcIp srcPort payload now).1.servers[k]? = some r → r.svr.addr.ip = srcIp) := by
  have hs := dispatch_safe cfg st srcIp srcPort payload now h
  have hk : k / 65536 = srcIp := by
    by_cases hk : k / 65536 = srcIp
    · exact hk
    · exact absurd (hs.2 k hk) hdiff
  constructor
  · intro r hr
    have := h.1 k r hr
    rw [← Addr.key_div this.2, this.1]; exact hk
  · intro r hr
    have := hs.1.1 k r hr
    rw [← Addr.key_div this.2, this.1]; exact hk

/-- non-vacuity of `Inv`: the empty store has it (and `inv_reachable`: so has every reachable state) -/
example : Inv {} := inv_empty

/-- the invariant holds along every history -/
theorem inv_runHistory (cfg : Cfg) (ds : List Dgram) : ∀ (st : AbsState), Inv st → Inv (runHistory cfg st ds) := by
  induction ds with
  | nil => intro st h; exact h
  | cons d ds ih =>
    intro st h
    exact ih _ (dispatch_safe cfg st d.srcIp d.srcPort d.payload d.now h).1

/-- every state reachable from the empty store satisfies the invariant -/
theorem inv_reachable (cfg : Cfg) (ds : List Dgram) : Inv (runHistory cfg {} ds) :=
  inv_runHistory cfg ds {} inv_empty

/-- **C05, histories.** Whatever sequence of datagrams is received: the rows of IP `B` after the history
are the rows before it, unless some datagram of the history came from `B` itself. -/
theorem C05_main (cfg : Cfg) (ds : List Dgram) (B : Nat) :
    ∀ (st : AbsState), Inv st → (∀ d ∈ ds, d.srcIp ≠ B) →
    ∀ (k : Nat), k / 65536 = B → (runHistory cfg st ds).servers[k]? = st.servers[k]? := by
  induction ds with
  | nil => intro st _ _ k _; rfl
  | cons d ds ih =>
    intro st h hB k hk
    have hs := dispatch_safe cfg st d.srcIp d.srcPort d.payload d.now h
    have hd : d.srcIp ≠ B := hB d (List.mem_cons_self)
    have h1 := ih (step cfg st d) hs.1 (fun d' hd' => hB d' (List.mem_cons_of_mem _ hd')) k hk
    have h2 : (step cfg st d).servers[k]? = st.servers[k]? := hs.2 k (by unfold KeyOfIp; rw [hk]; exact fun e => hd e.symm)
    exact h1.trans h2

/-- **C05, every step of every history**: at each position of a history started in a reachable state, the
datagram handled there touches only rows of its own source IP. -/
theorem C05_steps (cfg : Cfg) (pre : List Dgram) (d : Dgram) (st : AbsState) (h : Inv st) (k : Nat)
    (hk : k / 65536 ≠ d.srcIp) :
    (runHistory cfg st (pre ++ [d])).servers[k]? = (runHistory cfg st pre).servers[k]? := by
  have hi := inv_runHistory cfg pre st h
  have hs := dispatch_safe cfg (runHistory cfg st pre) d.srcIp d.srcPort d.payload d.now hi
  have : runHistory cfg st (pre ++ [d]) = step cfg (runHistory cfg st pre) d := by
    simp [runHistory, List.foldl_append]
  rw [this]
  exact hs.2 k hk

theorem run_pure {α : Type} (a : α) (s : AbsState) (now : Int) : (pure a : Prog α).run s now = (s, a) := rfl

/-- the message-type bytes the statements below mention are the ones the dispatcher routes on -/
theorem facts_ok : Facts.reporterMsgHeartbeat = 3 ∧ Facts.reporterMsgKeepalive = 8 := by decide

/-- **A keepalive presenting an instance id bound to another IP is rejected**: for every state and every
keepalive datagram (type byte 08, at least 5 bytes) from `srcIp` whose instance id is currently bound to an
address with a different IP, the handler returns an error, sends nothing and the state is unchanged. -/
theorem keepalive_foreign_instance_rejected (cfg : Cfg) (st : AbsState) (srcIp srcPort : Nat) (now : Int)
    (id rest : Bytes) (hid : id.length = 4) (a : Addr) (t : Int)
    (hb : st.instances[idNat id]? = some (a, t)) (hne : a.ip ≠ srcIp) :
    dispatch cfg st srcIp srcPort (0x08 :: (id ++ rest)) now = (st, .err) := by
  have hp : parseInstanceID (0x08 :: (id ++ rest)) = some (id, rest) := by
    unfold parseInstanceID
    have : ¬ ((0x08 :: (id ++ rest)).length < 5) := by simp [hid]
    rw [if_neg this]
    have e1 : ((0x08 :: (id ++ rest)).drop 1).take 4 = id := by
      show (id ++ rest).take 4 = id
      exact List.take_left' hid
    have e2 : (0x08 :: (id ++ rest)).drop 5 = rest := by
      show (id ++ rest).drop 4 = rest
      exact List.drop_left' hid
    rw [e1, e2]
  have hty : ((0x08 : UInt8).toNat = Facts.reporterMsgHeartbeat) = False := by decide
  have hty2 : ((0x08 : UInt8).toNat = Facts.reporterMsgKeepalive) = True := by decide
  unfold dispatch
  simp only [hty, hty2, if_false, if_true]
  unfold handleKeepalive
  rw [hp]
  simp only [UC.renew, Prog.run, Call.exec, AbsState.insGet, hb, finish]
  rw [if_pos hne, run_pure]

/-- non-vacuity: a state binding an instance id to 1.1.1.1:10480, presented by 2.2.2.2 -/
example : ∃ (st : AbsState) (a : Addr) (t : Int),
    st.instances[idNat [0xde, 0xad, 0xbe, 0xef]]? = some (a, t) ∧ a.ip ≠ 0x02020202 ∧ Inv st :=
  ⟨({} : AbsState).insAdd 7 ⟨idNat [0xde, 0xad, 0xbe, 0xef], ⟨0x01010101, 10480⟩⟩, ⟨0x01010101, 10480⟩, 7,
    by simp [AbsState.insAdd], by decide,
    (exec_safe (P := fun _ => True) (.insAdd ⟨idNat [0xde, 0xad, 0xbe, 0xef], ⟨0x01010101, 10480⟩⟩) {} 7
      (by show Addr.PortOk _; unfold Addr.PortOk; decide) inv_empty).1⟩

/-- **A removal presenting an instance id bound to another IP is rejected**: for every state satisfying the
store invariant and every heartbeat datagram from `srcIp` that parses, carries `statechanged=2`, and whose
instance id is currently bound to an address with a different IP, the handler returns an error, sends
nothing and the state is unchanged (the server at `(srcIp, hostport)` — if any — stays). -/
theorem removal_foreign_instance_rejected (cfg : Cfg) (st : AbsState) (hinv : Inv st) (srcIp srcPort : Nat) (now : Int)
    (payload id rest : Bytes) (fields : FieldMap) (a : Addr) (qp : Int)
    (h1 : parseInstanceID payload = some (id, rest)) (h2 : parseHeartbeatParams rest = some fields)
    (h3 : fields.isEmpty = false) (h4 : parseAddr srcIp fields = some (a, qp))
    (h5 : fields.get? kStatechanged = some [0x32])
    (ia : Addr) (t : Int) (hb : st.instances[idNat id]? = some (ia, t)) (hne : ia.ip ≠ srcIp) :
    handleHeartbeat cfg st srcIp srcPort payload now = (st, .err) := by
  have hok := parseAddr_ok h4
  unfold handleHeartbeat
  rw [h1]
  dsimp only
  rw [h2]
  dsimp only
  rw [h3, h4]
  dsimp only
  rw [if_neg (by simp), if_pos h5]
  simp only [UC.remove, Prog.run, Call.exec]
  cases hg : st.get a with
  | error e => cases e <;> simp only [finish, run_pure]
  | ok svr =>
    have hsv := get_ok hinv hg
    have hsa : svr.addr = a := Addr.key_inj hsv.2 hok.2 hsv.1
    simp only [Prog.run, Call.exec, AbsState.insGet, hb]
    have : ia.ip ≠ svr.addr.ip := by rw [hsa, hok.1]; exact hne
    rw [if_pos this]
    simp only [finish, run_pure]

end Swat4.C05
