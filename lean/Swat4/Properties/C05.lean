import Swat4.Lemmas.ReporterUC
import Swat4.Lemmas.ReporterPost
/-!
# C05 — Reporter traffic from one IP can never touch another IP's servers

The model is `Heartbeat.dispatch` (dispatcher, handlers, `UC.report / renew / remove` run through
`Prog.run` on the abstract registry).  `Rep.Inv` is the store invariant every reporter-produced state
has: each row is stored under the key of its own address and every stored address has a port in
1..65535 (what `addr.New` guarantees); under it `Addr.key` is injective (`Addr.key_inj`).

The theorem is per repository call (`Rep.Safe` / `Rep.exec_safe`): `report` writes
`addr.New(sourceIP, hostport)`; `renew` writes `inst.Addr` only after `inst.Addr.ip = sourceIP`;
`remove` erases `(sourceIP, hostport)` — so it also holds for every interleaving of calls of several
datagrams, as long as each call is atomic (C09).
-/
namespace Swat4.C05
open Swat4 Swat4.Heartbeat Swat4.Rep Std

/-- keys of addresses whose IP is `ip` -/
def KeyOfIp (ip : Nat) (k : Nat) : Prop := k / 65536 = ip

theorem addrNew_ok {ip : Nat} {port : Int} {a : Addr} (h : addrNew ip port = some a) : a.ip = ip ∧ a.PortOk := by
  unfold addrNew at h
  split at h
  · cases h
  · rename_i hp
    split at h
    · cases h
      exact ⟨rfl, by unfold Addr.PortOk; dsimp only; omega⟩
    · cases h

/-- the address a heartbeat is filed under always carries the datagram's source IP -/
theorem parseAddr_ok {srcIp : Nat} {m : FieldMap} {a : Addr} {qp : Int} (h : parseAddr srcIp m = some (a, qp)) :
    a.ip = srcIp ∧ a.PortOk := by
  unfold parseAddr at h
  split at h
  · split at h
    · rename_i hn
      cases h
      exact addrNew_ok hn
    · cases h
  · cases h

theorem handleHeartbeat_safe (cfg : Cfg) (st : AbsState) (srcIp srcPort : Nat) (payload : Bytes) (now : Int) (h : Inv st) :
    Inv (handleHeartbeat cfg st srcIp srcPort payload now).1 ∧
    Frame (KeyOfIp srcIp) st (handleHeartbeat cfg st srcIp srcPort payload now).1 := by
  have triv : Inv st ∧ Frame (KeyOfIp srcIp) st st := ⟨h, Frame.refl _ _⟩
  unfold handleHeartbeat
  cases parseInstanceID payload with
  | none => exact triv
  | some p =>
    obtain ⟨id, rest⟩ := p
    dsimp only
    cases parseHeartbeatParams rest with
    | none => exact triv
    | some fields =>
      dsimp only
      split
      · exact triv
      · cases ha : parseAddr srcIp fields with
        | none => exact triv
        | some p =>
          obtain ⟨a, qp⟩ := p
          have hok := parseAddr_ok ha
          have hP : KeyOfIp srcIp a.key := by unfold KeyOfIp; rw [Addr.key_div hok.2]; exact hok.1
          dsimp only
          split
          · exact run_safe (remove_safe (idNat id) a hP) st now h
          · exact run_safe (report_safe zeroInfo cfg.maxRetries ⟨a, qp, idNat id, infoOf fields⟩ hP hok.2) st now h

/-- every repository call issued for a datagram from `srcIp` is safe for the keys of `srcIp`; hence one
datagram keeps the invariant and leaves every row of every other IP alone -/
theorem dispatch_safe (cfg : Cfg) (st : AbsState) (srcIp srcPort : Nat) (payload : Bytes) (now : Int) (h : Inv st) :
    Inv (dispatch cfg st srcIp srcPort payload now).1 ∧
    Frame (KeyOfIp srcIp) st (dispatch cfg st srcIp srcPort payload now).1 := by
  have triv : Inv st ∧ Frame (KeyOfIp srcIp) st st := ⟨h, Frame.refl _ _⟩
  unfold dispatch
  cases payload with
  | nil => exact triv
  | cons t rest =>
    dsimp only
    split
    · exact handleHeartbeat_safe cfg st srcIp srcPort (t :: rest) now h
    · split
      · -- keepalive
        unfold handleKeepalive
        split
        · exact triv
        · exact run_safe (renew_safe _ srcIp) st now h
      · split
        · exact triv
        · split
          · exact triv
          · exact triv

/-- **C05, one datagram.** For every state satisfying the store invariant, every payload and every
source: a server row that differs between the state before and after `dispatch` — created, changed,
refreshed or removed — has an address whose IP is the datagram's source IP. -/
theorem reporter_touches_only_source_ip (cfg : Cfg) (st : AbsState) (h : Inv st) (srcIp srcPort : Nat)
    (payload : Bytes) (now : Int) (k : Nat)
    (hdiff : (dispatch cfg st srcIp srcPort payload now).1.servers[k]? ≠ st.servers[k]?) :
    (∀ r : SRow, st.servers[k]? = some r → r.svr.addr.ip = srcIp) ∧
    (∀ r : SRow, (dispatch cfg st srcIp srcPort payload now).1.servers[k]? = some r → r.svr.addr.ip = srcIp) := by
  have hs := dispatch_safe cfg st srcIp srcPort payload now h
  have hk : k / 65536 = srcIp := by
    by_cases hk : k / 65536 = srcIp
    · exact hk
    · exact absurd (hs.2 k hk) hdiff
  constructor
  · intro r hr
    have := h.1 k r hr
    rw [← Addr.key_div this.2, this.1]; exact hk
  · intro r hr
    have := hs.1.1 k r hr
    rw [← Addr.key_div this.2, this.1]; exact hk

/-- non-vacuity of `Inv`: the empty store has it (and `inv_reachable`: so has every reachable state) -/
example : Inv {} := inv_empty

/-- the invariant holds along every history -/
theorem inv_runHistory (cfg : Cfg) (ds : List Dgram) : ∀ (st : AbsState), Inv st → Inv (runHistory cfg st ds) := by
  induction ds with
  | nil => intro st h; exact h
  | cons d ds ih =>
    intro st h
    exact ih _ (dispatch_safe cfg st d.srcIp d.srcPort d.payload d.now h).1

/-- every state reachable from the empty store satisfies the invariant -/
theorem inv_reachable (cfg : Cfg) (ds : List Dgram) : Inv (runHistory cfg {} ds) :=
  inv_runHistory cfg ds {} inv_empty

/-- **C05, histories.** Whatever sequence of datagrams is received: the rows of IP `B` after the history
are the rows before it, unless some datagram of the history came from `B` itself. -/
theorem C05_main (cfg : Cfg) (ds : List Dgram) (B : Nat) :
    ∀ (st : AbsState), Inv st → (∀ d ∈ ds, d.srcIp ≠ B) →
    ∀ (k : Nat), k / 65536 = B → (runHistory cfg st ds).servers[k]? = st.servers[k]? := by
  induction ds with
  | nil => intro st _ _ k _; rfl
  | cons d ds ih =>
    intro st h hB k hk
    have hs := dispatch_safe cfg st d.srcIp d.srcPort d.payload d.now h
    have hd : d.srcIp ≠ B := hB d (List.mem_cons_self)
    have h1 := ih (step cfg st d) hs.1 (fun d' hd' => hB d' (List.mem_cons_of_mem _ hd')) k hk
    have h2 : (step cfg st d).servers[k]? = st.servers[k]? := hs.2 k (by unfold KeyOfIp; rw [hk]; exact fun e => hd e.symm)
    exact h1.trans h2

/-- **C05, every step of every history**: at each position of a history started in a reachable state, the
datagram handled there touches only rows of its own source IP. -/
theorem C05_steps (cfg : Cfg) (pre : List Dgram) (d : Dgram) (st : AbsState) (h : Inv st) (k : Nat)
    (hk : k / 65536 ≠ d.srcIp) :
    (runHistory cfg st (pre ++ [d])).servers[k]? = (runHistory cfg st pre).servers[k]? := by
  have hi := inv_runHistory cfg pre st h
  have hs := dispatch_safe cfg (runHistory cfg st pre) d.srcIp d.srcPort d.payload d.now hi
  have : runHistory cfg st (pre ++ [d]) = step cfg (runHistory cfg st pre) d := by
    simp [runHistory, List.foldl_append]
  rw [this]
  exact hs.2 k hk

theorem run_pure {α : Type} (a : α) (s : AbsState) (now : Int) : (pure a : Prog α).run s now = (s, a) := rfl

/-- the message-type bytes the statements below mention are the ones the dispatcher routes on -/
theorem facts_ok : Facts.reporterMsgHeartbeat = 3 ∧ Facts.reporterMsgKeepalive = 8 := by decide

/-- **A keepalive presenting an instance id bound to another IP is rejected**: for every state and every
keepalive datagram (type byte 08, at least 5 bytes) from `srcIp` whose instance id is currently bound to an
address with a different IP, the handler returns an error, sends nothing and the state is unchanged. -/
theorem keepalive_foreign_instance_rejected (cfg : Cfg) (st : AbsState) (srcIp srcPort : Nat) (now : Int)
    (id rest : Bytes) (hid : id.length = 4) (a : Addr) (t : Int)
    (hb : st.instances[idNat id]? = some (a, t)) (hne : a.ip ≠ srcIp) :
    dispatch cfg st srcIp srcPort (0x08 :: (id ++ rest)) now = (st, .err) := by
  have hp : parseInstanceID (0x08 :: (id ++ rest)) = some (id, rest) := by
    unfold parseInstanceID
    have : ¬ ((0x08 :: (id ++ rest)).length < 5) := by simp [hid]
    rw [if_neg this]
    have e1 : ((0x08 :: (id ++ rest)).drop 1).take 4 = id := by
      show (id ++ rest).take 4 = id
      exact List.take_left' hid
    have e2 : (0x08 :: (id ++ rest)).drop 5 = rest := by
      show (id ++ rest).drop 4 = rest
      exact List.drop_left' hid
    rw [e1, e2]
  have hty : ((0x08 : UInt8).toNat = Facts.reporterMsgHeartbeat) = False := by decide
  have hty2 : ((0x08 : UInt8).toNat = Facts.reporterMsgKeepalive) = True := by decide
  unfold dispatch
  simp only [hty, hty2, if_false, if_true]
  unfold handleKeepalive
  rw [hp]
  simp only [UC.renew, Prog.run, Call.exec, AbsState.insGet, hb, finish]
  rw [if_pos hne, run_pure]

/-- non-vacuity: a state binding an instance id to 1.1.1.1:10480, presented by 2.2.2.2 -/
example : ∃ (st : AbsState) (a : Addr) (t : Int),
    st.instances[idNat [0xde, 0xad, 0xbe, 0xef]]? = some (a, t) ∧ a.ip ≠ 0x02020202 ∧ Inv st :=
  ⟨({} : AbsState).insAdd 7 ⟨idNat [0xde, 0xad, 0xbe, 0xef], ⟨0x01010101, 10480⟩⟩, ⟨0x01010101, 10480⟩, 7,
    by simp [AbsState.insAdd], by decide,
    (exec_safe (P := fun _ => True) (.insAdd ⟨idNat [0xde, 0xad, 0xbe, 0xef], ⟨0x01010101, 10480⟩⟩) {} 7
      (by show Addr.PortOk _; unfold Addr.PortOk; decide) inv_empty).1⟩

/-- **A removal presenting an instance id bound to another IP is rejected**: for every state satisfying the
store invariant and every heartbeat datagram from `srcIp` that parses, carries `statechanged=2`, and whose
instance id is currently bound to an address with a different IP, the handler returns an error, sends
nothing and the state is unchanged (the server at `(srcIp, hostport)` — if any — stays). -/
theorem removal_foreign_instance_rejected (cfg : Cfg) (st : AbsState) (hinv : Inv st) (srcIp srcPort : Nat) (now : Int)
    (payload id rest : Bytes) (fields : FieldMap) (a : Addr) (qp : Int)
    (h1 : parseInstanceID payload = some (id, rest)) (h2 : parseHeartbeatParams rest = some fields)
    (h3 : fields.isEmpty = false) (h4 : parseAddr srcIp fields = some (a, qp))
    (h5 : fields.get? kStatechanged = some [0x32])
    (ia : Addr) (t : Int) (hb : st.instances[idNat id]? = some (ia, t)) (hne : ia.ip ≠ srcIp) :
    handleHeartbeat cfg st srcIp srcPort payload now = (st, .err) := by
  have hok := parseAddr_ok h4
  unfold handleHeartbeat
  rw [h1]
  dsimp only
  rw [h2]
  dsimp only
  rw [h3, h4]
  dsimp only
  rw [if_neg (by simp), if_pos h5]
  simp only [UC.remove, Prog.run, Call.exec]
  cases hg : st.get a with
  | error e => cases e <;> simp only [finish, run_pure]
  | ok svr =>
    have hsv := get_ok hinv hg
    have hsa : svr.addr = a := Addr.key_inj hsv.2 hok.2 hsv.1
    simp only [Prog.run, Call.exec, AbsState.insGet, hb]
    have : ia.ip ≠ svr.addr.ip := by rw [hsa, hok.1]; exact hne
    rw [if_pos this]
    simp only [finish, run_pure]


/-! ## concrete two-party states (non-vacuity of the rejection theorems) -/

def idX : Bytes := [0xde, 0xad, 0xbe, 0xef]
def idY : Bytes := [0x01, 0x02, 0x03, 0x04]

/-- the pairs of a valid first report for game port 10480 -/
def reportBody : Bytes :=
  kv "hostname" "Srv" ++ kv "hostport" "10480" ++ kv "localport" "10481" ++ kv "gamevariant" "SWAT 4" ++ kv "gamever" "1.1" ++
  kv "gametype" "VIP Escort" ++ kv "mapname" "A-Bomb Nightclub" ++ kv "numplayers" "3" ++ kv "maxplayers" "16"

/-- heartbeat datagram presenting instance id `id` -/
def report (id : Bytes) : Bytes := 0x03 :: (id ++ reportBody)
/-- removal datagram (`statechanged=2`) for game port 10480 presenting instance id `id` -/
def removal (id : Bytes) : Bytes := 0x03 :: (id ++ (kv "hostport" "10480" ++ kv "localport" "10481" ++ kv "statechanged" "2"))

def ipA : Nat := 0x02020202
def ipB : Nat := 0x01010101
def keyB : Nat := (⟨ipB, 10480⟩ : Addr).key

/-- B (1.1.1.1) has registered 1.1.1.1:10480 under instance id X, then A (2.2.2.2) 2.2.2.2:10480 under Y -/
def stBA : AbsState := runHistory ⟨3⟩ {} [⟨ipB, 1111, report idX, 1000⟩, ⟨ipA, 2222, report idY, 1256⟩]

set_option maxRecDepth 20000 in
/-- **joint non-vacuity of the seven hypotheses of `removal_foreign_instance_rejected`**: in the reachable state
`stBA` (both servers present), A's removal of its own 2.2.2.2:10480 presenting B's instance id X parses, carries
`statechanged=2`, derives the address 2.2.2.2:10480, and X is bound to 1.1.1.1:10480 — the theorem applies and the
datagram is rejected with the state unchanged -/
example : handleHeartbeat ⟨3⟩ stBA ipA 2222 (removal idX) 2000 = (stBA, .err) :=
  removal_foreign_instance_rejected ⟨3⟩ stBA (inv_reachable _ _) ipA 2222 2000 (removal idX) idX
    (kv "hostport" "10480" ++ kv "localport" "10481" ++ kv "statechanged" "2")
    [(ascii "hostport", ascii "10480"), (ascii "localport", ascii "10481"), (ascii "statechanged", ascii "2")]
    ⟨ipA, 10480⟩ 10481 (by decide) (by decide) (by decide) (by decide) (by decide) ⟨ipB, 10480⟩ 1000 (by decide) (by decide)

set_option maxRecDepth 20000 in
/-- … and both servers are indeed there (the rejection is not for want of a server) -/
example : (stBA.servers[(⟨ipA, 10480⟩ : Addr).key]?).isSome = true ∧ (stBA.servers[keyB]?).isSome = true := by decide

/-! ## the instance table -/

theorem remove_instances (st : AbsState) (hinv : Inv st) (now : Int) (id : Nat) (a : Addr) (hok : a.PortOk) (i : Nat) (hi : i ≠ id) :
    ((UC.remove id a).run st now).1.instances[i]? = st.instances[i]? := by
  rw [remove_refines st hinv now id a hok]
  split
  · split
    · rfl
    · simp only [ExtTreeMap.getElem?_erase, Nat.compare_eq_eq]
      rw [if_neg (Ne.symm hi)]
  · rfl

theorem report_instances (mr : Int) (st : AbsState) (hinv : Inv st) (now : Int) (id : Nat) (a : Addr) (qp : Int)
    (info? : Option Fields) (i : Nat) (hi : i ≠ id) :
    ((UC.report zeroInfo mr ⟨a, qp, id, info?⟩).run st now).1.instances[i]? = st.instances[i]? := by
  have h := congrArg Prod.fst (report_refines mr st hinv now id a qp info?)
  dsimp only at h
  rw [h]
  unfold reportSpec
  split
  · rfl
  · split
    · rfl
    · simp only [ExtTreeMap.getElem?_insert, Nat.compare_eq_eq]
      rw [if_neg (Ne.symm hi)]

theorem renew_instances (st : AbsState) (hinv : Inv st) (now : Int) (id : Bytes) (srcIp : Nat) :
    ((UC.renew (idNat id) srcIp).run st now).1.instances = st.instances := by
  rw [renew_refines st hinv srcIp now id ⟨0⟩ 0]
  unfold ReporterSpec.absStep
  dsimp only
  split
  · rfl
  · split
    · rfl
    · split <;> rfl

/-- **The instance table changes only at the presented id.** (C05 speaks of server records; this is the matching
frame for the `instances` component, which `Rep.Frame` does not cover.)  For every state satisfying the store
invariant, every payload and source: if `instances[i]` differs before/after `dispatch`, then the datagram is a
heartbeat-type datagram (type byte 03: report or removal — a keepalive never changes the table) of at least 5
bytes and `i` is the instance id it presents (`payload[1:5]`).  NOTE what this does NOT exclude: the presented
id may currently be bound to ANOTHER IP's server — a report rebinds it unconditionally (`instanceRepo.Add`
overwrites); see the example below. -/
theorem instances_change_only_for_presented_id (cfg : Cfg) (st : AbsState) (hinv : Inv st) (srcIp srcPort : Nat)
    (payload : Bytes) (now : Int) (i : Nat)
    (hdiff : (dispatch cfg st srcIp srcPort payload now).1.instances[i]? ≠ st.instances[i]?) :
    ∃ id rest, parseInstanceID payload = some (id, rest) ∧ i = idNat id
      ∧ payload.head?.map UInt8.toNat = some Facts.reporterMsgHeartbeat := by
  revert hdiff
  unfold dispatch
  cases payload with
  | nil => intro h; exact absurd rfl h
  | cons t rest =>
    dsimp only
    split
    · rename_i ht
      unfold handleHeartbeat
      cases hp : parseInstanceID (t :: rest) with
      | none => intro h; exact absurd rfl h
      | some p =>
        obtain ⟨id, r⟩ := p
        dsimp only
        intro hdiff
        refine ⟨id, r, rfl, ?_, by simp [ht]⟩
        apply Classical.byContradiction
        intro hne
        apply hdiff
        cases parseHeartbeatParams r with
        | none => rfl
        | some fields =>
          dsimp only
          split
          · rfl
          · cases ha : parseAddr srcIp fields with
            | none => rfl
            | some p =>
              obtain ⟨a, qp⟩ := p
              have hok := parseAddr_ok ha
              dsimp only
              split
              · exact remove_instances st hinv now (idNat id) a hok.2 i hne
              · exact report_instances cfg.maxRetries st hinv now (idNat id) a qp _ i hne
    · split
      · unfold handleKeepalive
        split
        · intro h; exact absurd rfl h
        · intro h
          exact absurd (by rw [show ∀ r ok, (finish r ok).1 = r.1 from fun _ _ => rfl, renew_instances st hinv]) h
      · split
        · intro h; exact absurd rfl h
        · split <;> (intro h; exact absurd rfl h)

/-- B (1.1.1.1) has registered 1.1.1.1:10480 under instance id X -/
def stB : AbsState := runHistory ⟨3⟩ {} [⟨ipB, 1111, report idX, 1000⟩]
/-- … then A (2.2.2.2) reports its own 2.2.2.2:10480 presenting the SAME instance id X -/
def stB' : AbsState := step ⟨3⟩ stB ⟨ipA, 2222, report idX, 2024⟩

set_option maxRecDepth 20000 in
/-- **What the statement allows: a heartbeat from A presenting B's instance id REBINDS it to A.**  X was bound to
1.1.1.1:10480; after A's report it is bound to 2.2.2.2:10480 (`reportserver` calls `instances.Add`, which
overwrites, without looking at the current binding); B's server record is untouched (as C05 demands) — but B's
keepalive with X, accepted before, is now rejected (`unknownInstance`: the instance belongs to another IP), and so
would be B's removal, until B's next full heartbeat binds X back. -/
example :
    stB.instances[idNat idX]? = some (⟨ipB, 10480⟩, 1000)
    ∧ stB'.instances[idNat idX]? = some (⟨ipA, 10480⟩, 2024)
    ∧ stB'.servers[keyB]? = stB.servers[keyB]?
    ∧ (stB.servers[keyB]?).isSome = true
    ∧ (dispatch ⟨3⟩ stB ipB 1111 (0x08 :: idX) 3000).2 = .silent
    ∧ (dispatch ⟨3⟩ stB' ipB 1111 (0x08 :: idX) 3000).2 = .err := by
  refine ⟨?_, ?_, ?_, ?_, ?_, ?_⟩ <;> decide

set_option maxRecDepth 20000 in
/-- non-vacuity of the hypothesis of `instances_change_only_for_presented_id`: A's report changes `instances[X]` -/
example : (dispatch ⟨3⟩ stB ipA 2222 (report idX) 2024).1.instances[idNat idX]? ≠ stB.instances[idNat idX]? := by decide

end Swat4.C05
