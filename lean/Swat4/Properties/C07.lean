import Swat4.Lemmas.GS1
import Swat4.Gen.Facts
/-!
# C07 — No probe response can crash or hang the prober

Property theorems only.  `GS1.*` is the model of `pkg/gamespy/serverquery/gs1/gs1.go`
(`Model/GS1.lean`): every index/slice expression of that file is a checked operation whose
failure is the outcome `panic`, the one unbounded loop runs on fuel and running out is the
outcome `hang`.  The theorems say that neither outcome is reachable, for every datagram sequence.

Not a theorem (measured by the harness instead): that the read-deadline goroutine makes `Query`
return by `timeout`; the outcome `timeout` of `runQuery` stands for it.
-/
namespace Swat4.C07
open Swat4 Swat4.GS1

/-- `inspectFragment` (all three dialects) returns a fragment or the error class `malformed`
for every byte string: no panic, no hang, never `incomplete`. -/
theorem inspect_total (p : Bytes) :
    (∃ fr, inspectFragment p = .ok fr) ∨ inspectFragment p = .err .malformed :=
  (inspectFragment_okOrMal p).cases

/-- `collectPayload` over any list of datagrams yields a payload, `incomplete` or `malformed`. -/
theorem collect_total (frs : List Bytes) :
    (∃ c, collectPayload frs = .ok c) ∨ collectPayload frs = .err .incomplete ∨
      collectPayload frs = .err .malformed := by
  unfold collectPayload
  rw [collectLoop_eq]
  split
  · simp only [Res.ok_bind, CState.finish]
    split
    · exact .inr (.inl rfl)
    · exact .inl ⟨_, rfl⟩
  · exact .inr (.inr rfl)

/-- the reassembled payload never outgrows the capacity `collectPayload` allocates for it
(sum of the data lengths of *all* inspected fragments, duplicates included): `append` never
reallocates, and a parameter name at the very end of the payload has no spare capacity behind
it — which is why the pre-55f36fe `Name[:4]` panicked exactly there. -/
theorem collect_within_cap (frs : List Bytes) (c : Collected) (h : collectPayload frs = .ok c) :
    c.cap = ((frs.filterMap insp).map (·.data.length)).sum := by
  unfold collectPayload at h
  rw [collectLoop_eq] at h
  split at h
  · simp only [Res.ok_bind, CState.finish] at h
    split at h
    · cases h
    · cases h
      simp only
      generalize frs.filterMap insp = fs
      have : ∀ (st : CState), (fs.foldl CState.step st).size = st.size + (fs.map (·.data.length)).sum := by
        induction fs with
        | nil => intro st; simp
        | cons f fs ih => intro st; simp only [List.foldl_cons, ih, CState.step, List.map_cons, List.sum_cons]; omega
      rw [this]; simp [CState.init]
  · cases h

/-- `expandPayload` returns a response or `malformed` for every payload and dialect tag. -/
theorem expand_total (payload : Bytes) (v : Ver) :
    (∃ r, expandPayload payload v = .ok r) ∨ expandPayload payload v = .err .malformed :=
  (expandPayload_okOrMal payload v).cases

/-- `parseParams` always returns (its scan loop terminates, `fields[i-1]`/`fields[i]` are in range). -/
theorem parse_total (data : Bytes) : ∃ ps, parseParams data = .ok ps := parseParams_ok data

/-- one iteration of `getResponse` is exactly one of: keep reading, response, `incomplete`
(empty datagram), `malformed`. -/
theorem feed_cases (frs : List Bytes) (d : Bytes) :
    feed frs d = .incomplete ∨ (∃ r, feed frs d = .response r) ∨ ∃ e, feed frs d = .error e := by
  unfold feed
  simp only
  split
  · exact .inr (.inr ⟨_, rfl⟩)
  · rcases collect_total (frs ++ [d.take bufferSize]) with ⟨c, hc⟩ | hc | hc
    · rw [hc]
      simp only
      rcases expand_total c.payload c.version with ⟨r, hr⟩ | hr
      · rw [hr]; exact .inr (.inl ⟨r, rfl⟩)
      · rw [hr]; exact .inr (.inr ⟨_, rfl⟩)
    · rw [hc]; exact .inl rfl
    · rw [hc]; exact .inr (.inr ⟨_, rfl⟩)

/-- **C07 (no crash).** Whatever was received before and whatever arrives now, processing the
datagram does not panic. -/
theorem feed_total (frs : List Bytes) (d : Bytes) : feed frs d ≠ .panic := by
  rcases feed_cases frs d with h | ⟨r, h⟩ | ⟨e, h⟩ <;> rw [h] <;> intro hh <;> cases hh

/-- **C07 (no hang inside the decoder).** Processing a datagram terminates. -/
theorem feed_terminates (frs : List Bytes) (d : Bytes) : feed frs d ≠ .hang := by
  rcases feed_cases frs d with h | ⟨r, h⟩ | ⟨e, h⟩ <;> rw [h] <;> intro hh <;> cases hh

/-- an empty datagram ends the query with `ErrResponseIncomplete`, whatever came before -/
theorem empty_datagram (frs : List Bytes) : feed frs [] = .error .incomplete := rfl

/-- **C07.** For every sequence of datagrams the probed address sends back, the query ends in a
decoded response, an error, or the timeout — never in a panic or an endless loop. -/
theorem runQuery_classes (ds : List Bytes) :
    (∃ r, runQuery ds = .response r) ∨ (∃ e, runQuery ds = .error e) ∨ runQuery ds = .timeout := by
  unfold runQuery
  generalize ([] : List Bytes) = frs
  induction ds generalizing frs with
  | nil => exact .inr (.inr rfl)
  | cons d ds ih =>
    simp only [runQueryFrom]
    rcases feed_cases frs d with h | ⟨r, h⟩ | ⟨e, h⟩ <;> rw [h]
    · exact ih _
    · exact .inl ⟨r, rfl⟩
    · exact .inr (.inl ⟨e, rfl⟩)

/-- the constants the model is written against are the ones in the source (regenerated
`Gen/Facts.lean`): framing tokens, read-buffer size, numeric order of the dialect tags -/
theorem facts_ok : Facts.gs1FINAL = FINAL ∧ Facts.gs1EOF = EOF ∧ Facts.gs1BufferSize = bufferSize ∧
    Facts.gs1VerUnknown = Ver.unknown.toNat ∧ Facts.gs1VerVanilla = Ver.vanilla.toNat ∧
    Facts.gs1VerAM = Ver.am.toNat ∧ Facts.gs1VerGS1 = Ver.gs1.toNat := by decide

end Swat4.C07

/-- non-vacuity: the old crash witness `\a\\queryid\1\final\` is now decoded (field `a` = empty) -/
example : Swat4.GS1.runQuery [[0x5c, 0x61, 0x5c, 0x5c, 0x71, 0x75, 0x65, 0x72, 0x79, 0x69, 0x64, 0x5c, 0x31, 0x5c, 0x66, 0x69, 0x6e, 0x61, 0x6c, 0x5c]] =
    .response ⟨[([0x61], [])], [], [], .gs1⟩ := by decide
