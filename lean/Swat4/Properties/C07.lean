import Swat4.Lemmas.GS1
import Swat4.Lemmas.GS1Flood
import Swat4.Lemmas.Details
import Swat4.Lemmas.DetailsComplete
import Swat4.Lemmas.DetailsEncode
import Swat4.Gen.Facts
/-!
# C07 — No probe response can crash or hang the prober

Property theorems only.  `GS1.*` is the model of `pkg/gamespy/serverquery/gs1/gs1.go`
(`Model/GS1.lean`): every index/slice expression of that file is a checked operation whose
failure is the outcome `panic`, the one unbounded loop runs on fuel and running out is the
outcome `hang`.  The theorems say that neither outcome is reachable, for every datagram sequence.

The second half (`details_facts_ok` onwards) is about what `DetailsProber.Probe` does with a decoded
response (`Model/Details.lean`: `NewDetailsFromParams` + `Details.Validate` with the `ratio` validator).

Not a theorem (measured by the harness instead): that the read-deadline goroutine makes `Query`
return by `timeout`; the outcome `timeout` of `runQuery` stands for it.
-/
namespace Swat4.C07
open Swat4 Swat4.GS1

/-- `inspectFragment` (all three dialects) returns a fragment or the error class `malformed`
for every byte string: no panic, no hang, never `incomplete`. -/
theorem inspect_total (p : Bytes) :
    (∃ fr, inspectFragment p = .ok fr) ∨ inspectFragment p = .err .malformed :=
  (inspectFragment_okOrMal p).cases

/-- `collectPayload` over any list of datagrams yields a payload, `incomplete` or `malformed`. -/
theorem collect_total (frs : List Bytes) :
    (∃ c, collectPayload frs = .ok c) ∨ collectPayload frs = .err .incomplete ∨
      collectPayload frs = .err .malformed := by
  unfold collectPayload
  rw [collectLoop_eq]
  split
  · simp only [Res.ok_bind, CState.finish]
    split
    · exact .inr (.inl rfl)
    · exact .inl ⟨_, rfl⟩
  · exact .inr (.inr rfl)

/-- the reassembled payload never outgrows the capacity `collectPayload` allocates for it
(sum of the data lengths of *all* inspected fragments, duplicates included): `append` never
reallocates, and a parameter name at the very end of the payload has no spare capacity behind
it — which is why the pre-55f36fe `Name[:4]` panicked exactly there. -/
theorem collect_within_cap (frs : List Bytes) (c : Collected) (h : collectPayload frs = .ok c) :
    c.cap = ((frs.filterMap insp).map (·.data.length)).sum := by
  unfold collectPayload at h
  rw [collectLoop_eq] at h
  split at h
  · simp only [Res.ok_bind, CState.finish] at h
    split at h
    · cases h
    · cases h
      simp only
      generalize frs.filterMap insp = fs
      have : ∀ (st : CState), (fs.foldl CState.step st).size = st.size + (fs.map (·.data.length)).sum := by
        induction fs with
        | nil => intro st; simp
        | cons f fs ih => intro st; simp only [List.foldl_cons, ih, CState.step, List.map_cons, List.sum_cons]; omega
      rw [this]; simp [CState.init]
  · cases h

/-- `expandPayload` returns a response or `malformed` for every payload and dialect tag. -/
theorem expand_total (payload : Bytes) (v : Ver) :
    (∃ r, expandPayload payload v = .ok r) ∨ expandPayload payload v = .err .malformed :=
  (expandPayload_okOrMal payload v).cases

/-- `parseParams` always returns (its scan loop terminates, `fields[i-1]`/`fields[i]` are in range). -/
theorem parse_total (data : Bytes) : ∃ ps, parseParams data = .ok ps := parseParams_ok data

/-- one iteration of `getResponse` is exactly one of: keep reading, response, `incomplete`
(empty datagram), `malformed`. -/
theorem feed_cases (frs : List Bytes) (d : Bytes) :
    feed frs d = .incomplete ∨ (∃ r, feed frs d = .response r) ∨ ∃ e, feed frs d = .error e := by
  unfold feed
  simp only
  split
  · exact .inr (.inr ⟨_, rfl⟩)
  · rcases collect_total (frs ++ [d.take bufferSize]) with ⟨c, hc⟩ | hc | hc
    · rw [hc]
      simp only
      rcases expand_total c.payload c.version with ⟨r, hr⟩ | hr
      · rw [hr]; exact .inr (.inl ⟨r, rfl⟩)
      · rw [hr]; exact .inr (.inr ⟨_, rfl⟩)
    · rw [hc]; exact .inl rfl
    · rw [hc]; exact .inr (.inr ⟨_, rfl⟩)

/-- **C07 (no crash).** Whatever was received before and whatever arrives now, processing the
datagram does not panic. -/
theorem feed_total (frs : List Bytes) (d : Bytes) : feed frs d ≠ .panic := by
  rcases feed_cases frs d with h | ⟨r, h⟩ | ⟨e, h⟩ <;> rw [h] <;> intro hh <;> cases hh

/-- **C07 (no hang inside the decoder).** Processing a datagram terminates. -/
theorem feed_terminates (frs : List Bytes) (d : Bytes) : feed frs d ≠ .hang := by
  rcases feed_cases frs d with h | ⟨r, h⟩ | ⟨e, h⟩ <;> rw [h] <;> intro hh <;> cases hh

/-- an empty datagram ends the query with `ErrResponseIncomplete`, whatever came before -/
theorem empty_datagram (frs : List Bytes) : feed frs [] = .error .incomplete := rfl

/-- **C07.** For every sequence of datagrams the probed address sends back, the query ends in a
decoded response, an error, or the timeout — never in a panic or an endless loop. -/
theorem runQuery_classes (ds : List Bytes) :
    (∃ r, runQuery ds = .response r) ∨ (∃ e, runQuery ds = .error e) ∨ runQuery ds = .timeout := by
  unfold runQuery
  generalize ([] : List Bytes) = frs
  induction ds generalizing frs with
  | nil => exact .inr (.inr rfl)
  | cons d ds ih =>
    simp only [runQueryFrom]
    rcases feed_cases frs d with h | ⟨r, h⟩ | ⟨e, h⟩ <;> rw [h]
    · exact ih _
    · exact .inl ⟨r, rfl⟩
    · exact .inr (.inl ⟨e, rfl⟩)

/-- the constants the model is written against are the ones in the source (regenerated
`Gen/Facts.lean`): framing tokens, read-buffer size, numeric order of the dialect tags -/
theorem facts_ok : Facts.gs1FINAL = FINAL ∧ Facts.gs1EOF = EOF ∧ Facts.gs1BufferSize = bufferSize ∧
    Facts.gs1VerUnknown = Ver.unknown.toNat ∧ Facts.gs1VerVanilla = Ver.vanilla.toNat ∧
    Facts.gs1VerAM = Ver.am.toNat ∧ Facts.gs1VerGS1 = Ver.gs1.toNat := by decide

end Swat4.C07

/-- non-vacuity: the old crash witness `\a\\queryid\1\final\` is now decoded (field `a` = empty) -/
example : Swat4.GS1.runQuery [[0x5c, 0x61, 0x5c, 0x5c, 0x71, 0x75, 0x65, 0x72, 0x79, 0x69, 0x64, 0x5c, 0x31, 0x5c, 0x66, 0x69, 0x6e, 0x61, 0x6c, 0x5c]] =
    .response ⟨[([0x61], [])], [], [], .gs1⟩ := by decide

namespace Swat4.C07
open Swat4 Swat4.GS1 Swat4.DetailsProbe Swat4.DetailsSpec

/-! ## the details prober after the query (`DetailsProber.Probe`, op `dp`) -/

/-- everything the model of the post-query stage and the theorems below assume about the generated
schemas (`Facts.detailsInfoSchema`, `detailsPlayerSchema`, `detailsObjectiveSchema`, `detailsTopSchema`):
only int/bool/string fields and only the tags `required`, `gt=0`, `gte=0`, `oneof=…` (ints), `ratio`
(strings) occur; `details.Info` is the struct the reporter model uses; field names and kinds are the
ones the specification `DetailsSpec` is written against; every constraint `DetailsSpec.accepted` states
is backed by the tag on that very field (`required` on the names and the five info strings, `gt=0` on
`HostPort`, `gte=0` on the counters, `ratio` on `TocReports`/`WeaponsSecured`, `oneof=0 1 2` on `Team`
and the objective `Status`, `oneof=0 1 2 3 4` on `CoopStatus`); `Details.Info` carries at most
`required`, both slices carry `dive`.  A change of a tag in the source changes the generated schema
and this theorem stops checking. -/
theorem details_facts_ok : DetailsProbe.FactsOk := by
  constructor <;> decide

/-- **the post-query stage is total.**  `Outcome` has no panic constructor, and that is faithful: the
only partial Go operations of `NewDetailsFromParams` / `params.Unmarshal` / `Details.Validate` /
`ValidateRatio` (inventory: `Facts.detailsPartialOps`) are `players[i]`, `details.Players[i]`,
`objectives[i]`, `details.Objectives[i]` with `i` ranging over the slice the target was `make`d from
(modelled by `List.mapM`, in range by construction) — there is no slicing and no type assertion, and
`strings.Cut`/`strconv.Atoi` return flags instead of panicking; in the model every step is a total
structural function (`unmarshal`, `parseVal`, `atoi`, `ratioOk` via `takeWhile`/`dropWhile`).  Hence
for every decoded response the stage yields a details value, `ErrParseFailed` or `ErrValidationFailed`.
That the *implementation* has no further partial operation is what the correspondence run checks
(a panic in a validator is the output `panic:…`, never produced by the model).

NOT in the audited list (`bin/propcfg/C07.py`): the statement is true of *any* function into `Outcome` (the
proof is `cases` on its three constructors), so it carries no information about `detailsOf` beyond its type;
the content of this stage is `accepted_sound` (soundness) and `detailsOf_complete` / `detailsOf_ok_iff`
(completeness) below.  Kept because `probe_classes` uses it. -/
theorem detailsOf_total (r : Response) :
    (∃ d, detailsOf r = .ok d) ∨ detailsOf r = .errParse ∨ detailsOf r = .errValidate := by
  cases h : detailsOf r with
  | ok d => exact .inl ⟨d, rfl⟩
  | errParse => exact .inr (.inl rfl)
  | errValidate => exact .inr (.inr rfl)

/-- **C07 for the whole probe.** For every sequence of datagrams the probed address sends back,
`DetailsProber.Probe` ends in a details value or one of its four error classes — never in a panic
or an endless loop (the model's `panic`/`hang` outcomes, inherited from `runQuery`, are unreachable). -/
theorem probe_classes (ds : List Bytes) :
    (∃ d, probe ds = .ok d) ∨ probe ds = .errTimeout ∨ probe ds = .errQuery ∨ probe ds = .errParse ∨
      probe ds = .errValidate := by
  unfold probe
  rcases runQuery_classes ds with ⟨r, h⟩ | ⟨e, h⟩ | h <;> rw [h] <;> simp only
  · rcases detailsOf_total r with ⟨d, hd⟩ | hd | hd <;> rw [hd] <;> simp
  · simp
  · simp

/-- `ProbeResult` does have the constructors `panic` and `hang` (inherited from `runQuery`), so this is not
true by type: it rests on `runQuery_classes`.  The details stage contributes nothing to it — its outcome
type has no such constructor (see `detailsOf_total`). -/
theorem probe_total (ds : List Bytes) : probe ds ≠ .panic ∧ probe ds ≠ .hang := by
  rcases probe_classes ds with ⟨d, h⟩ | h | h | h | h <;> rw [h] <;> simp

/-- the model's `ValidateRatio` accepts exactly the declarative ratio format: empty, or
`number '/' number` where a number is what `strconv.Atoi` reads as a non-negative int
(digits, optionally preceded by `+`, or by `-` when the value is zero) -/
theorem ratioOk_iff_spec (s : Bytes) : Heartbeat.ratioOk s = true ↔ RatioSpec s := ratioOk_iff s

/-- the executable twin the driver evaluates is the declarative format -/
theorem ratioSpec_iff_spec (s : Bytes) : ratioSpec s = true ↔ RatioSpec s := ratioSpec_iff s

/-- **`ratio` rejects every value with two or more `/`** (such as `1/2/3`, `0/0/0`, `//`): the right
part of the cut at the first `/` still holds a `/`, which `strconv.Atoi` refuses — there is no
second cut and nothing to index -/
theorem ratio_rejects_two_slashes (s : Bytes) (h : 2 ≤ s.count 0x2F) : Heartbeat.ratioOk s = false := by
  cases hr : Heartbeat.ratioOk s with
  | false => rfl
  | true =>
    have := ratioSpec_count ((ratioOk_iff s).mp hr)
    omega

/-- … and so does the `ratio` tag of the validator model, on either ratio field -/
theorem ratio_tag_rejects_two_slashes (s : Bytes) (h : 2 ≤ s.count 0x2F) :
    DetailsProbe.checkTag (.str s) "ratio" = false := by
  have := ratio_rejects_two_slashes s h
  simpa [DetailsProbe.checkTag, oneof_ratio, Heartbeat.checkTag] using this

/-- **soundness of acceptance.** If the stage accepts a decoded response, the details value satisfies
every validated constraint (`DetailsSpec.accepted`, written independently of the model): host port
positive; hostname, game variant, game version, game type, map name non-empty; every `gte=0` counter
non-negative; both ratio fields in the ratio format; every player named, with team in 0..2, co-op
status in 0..4 and non-negative counters; every objective named with status in 0..2. -/
theorem accepted_sound (r : Response) (d : Details) (h : detailsOf r = .ok d) : DetailsSpec.accepted d = true :=
  detailsOf_sound details_facts_ok h

/-- the same for the whole probe: a details value the prober returns is an accepted one -/
theorem probe_ok_accepted (ds : List Bytes) (d : Details) (h : probe ds = .ok d) : DetailsSpec.accepted d = true := by
  unfold probe at h
  split at h
  · rename_i r _
    cases hd : detailsOf r with
    | ok d' => rw [hd] at h; cases h; exact accepted_sound r _ hd
    | errParse => rw [hd] at h; cases h
    | errValidate => rw [hd] at h; cases h
  all_goals cases h

/-! ### `accepted`, read field by field -/

theorem intIn_spec {lo hi : Int} {o : Option Val} (h : intIn lo hi o = true) : ∃ n, o = some (.int n) ∧ lo ≤ n ∧ n ≤ hi := by
  unfold intIn at h
  split at h
  · rename_i n; simp only [Bool.and_eq_true, decide_eq_true_eq] at h; exact ⟨n, rfl, h.1, h.2⟩
  · cases h

theorem intAtLeast_spec {lo : Int} {o : Option Val} (h : intAtLeast lo o = true) : ∃ n, o = some (.int n) ∧ lo ≤ n := by
  unfold intAtLeast at h
  split at h
  · rename_i n; simp only [decide_eq_true_eq] at h; exact ⟨n, rfl, h⟩
  · cases h

/-- an accepted details value: the host port is positive -/
theorem accepted_hostport {d : Details} (h : DetailsSpec.accepted d = true) :
    ∃ n, field infoNames d.info "HostPort" = some (.int n) ∧ 0 < n := by
  simp only [DetailsSpec.accepted, infoAccepted, Bool.and_eq_true] at h
  obtain ⟨n, h1, h2⟩ := intAtLeast_spec h.1.1.1.1.2
  exact ⟨n, h1, by omega⟩

/-- an accepted details value: both ratio fields are in the ratio format — in particular hold at most one `/` -/
theorem accepted_ratios {d : Details} (h : DetailsSpec.accepted d = true) :
    ∀ name ∈ infoRatios, ∃ s, field infoNames d.info name = some (.str s) ∧ RatioSpec s ∧ s.count 0x2F ≤ 1 := by
  simp only [DetailsSpec.accepted, infoAccepted, Bool.and_eq_true] at h
  intro name hn
  have := List.all_eq_true.mp h.1.1.2 name hn
  unfold ratioStr at this
  split at this
  · rename_i s hs
    have hr := (ratioSpec_iff s).mp this
    exact ⟨s, hs, hr, ratioSpec_count hr⟩
  · cases this

/-- an accepted details value: every player's team is 0, 1 or 2 and the co-op status is within 0..4 -/
theorem accepted_players {d : Details} (h : DetailsSpec.accepted d = true) :
    ∀ p ∈ d.players, (∃ n, field playerNames p "Team" = some (.int n) ∧ 0 ≤ n ∧ n ≤ 2) ∧
      (∃ n, field playerNames p "CoopStatus" = some (.int n) ∧ 0 ≤ n ∧ n ≤ 4) := by
  simp only [DetailsSpec.accepted, Bool.and_eq_true] at h
  intro p hp
  have := List.all_eq_true.mp h.1.2 p hp
  simp only [playerAccepted, Bool.and_eq_true] at this
  exact ⟨intIn_spec this.1.1.2, intIn_spec this.1.2⟩

/-- an accepted details value: every objective's status is 0, 1 or 2 -/
theorem accepted_objectives {d : Details} (h : DetailsSpec.accepted d = true) :
    ∀ o ∈ d.objectives, ∃ n, field objectiveNames o "Status" = some (.int n) ∧ 0 ≤ n ∧ n ≤ 2 := by
  simp only [DetailsSpec.accepted, Bool.and_eq_true] at h
  intro o ho
  have := List.all_eq_true.mp h.2 o ho
  simp only [objectiveAccepted, Bool.and_eq_true] at this
  exact intIn_spec this.2

/-! ### completeness of the details stage -/

/-- the second half of what is assumed about the generated schemas: every `validate` tag of
`details.Info` / `Player` / `Objective` is backed by a constraint `DetailsSpec.accepted` states on that
very field and kind (`required` on a string ↔ listed as required string; `required`/`gt=0` on an int ↔
`HostPort`; `gte=0` ↔ listed counter; `ratio` ↔ listed ratio field; `oneof=0 1 2` ↔ `Team`/`Status`;
`oneof=0 1 2 3 4` ↔ `CoopStatus`) and no other tag occurs; field names are pairwise different.  Together
with `details_facts_ok` (the converse direction): the validator and `accepted` ask for the same things.
A tag added in the source changes the generated schema and this theorem stops checking. -/
theorem details_cover_ok : DetailsProbe.CoverOk := by
  constructor <;> decide

/-- **`params.Unmarshal`, field by field.**  Unmarshalling the map `m` into the struct with schema `schema`
succeeds with the values `f` exactly when, position by position (`All2`), `f` is the reading of `m`
(`FieldReads`): a field without parameter name or without an entry in the map (core `List.lookup`) holds the
zero value of its kind; an int field holds the number `strconv.Atoi` reads from the entry; a bool field the
value of `1`/`true`/`0`/`false`; a string field the entry's bytes. -/
theorem unmarshal_iff_reads (schema : Heartbeat.Schema) (m : Heartbeat.FieldMap) (f : Fields) :
    Heartbeat.unmarshal schema m = some f ↔ StructReads schema m f :=
  DetailsProbe.unmarshal_iff_reads schema m f

/-- **completeness of the details stage (C07; "success stores the probed details", C13).**  If the decoded
response `r` reads, field by field, as the details value `d` — the field map as `d.info`, the i-th player
map as the i-th player, the i-th objective (as the map `name`/`status`) as the i-th objective; same number
of players and objectives — and `d` satisfies the independently written `DetailsSpec.accepted`, then the
stage returns exactly `d`.  So the stage cannot reject a response whose values parse and satisfy the
validated constraints, and what it returns is the reading of the response, nothing else. -/
theorem detailsOf_complete (r : Response) (d : Details)
    (hi : StructReads infoSchema r.fields d.info)
    (hp : All2 (StructReads playerSchema) r.players d.players)
    (ho : All2 (fun o f => StructReads objectiveSchema (objMap o) f) r.objectives d.objectives)
    (ha : DetailsSpec.accepted d = true) : detailsOf r = .ok d :=
  detailsOf_complete_of details_facts_ok details_cover_ok r d hi hp ho ha

/-- the parameter names of each generated schema are pairwise different (so a map can carry a value for every field) -/
theorem details_params_nodup : DetailsProbe.ParamsNodup := by
  constructor <;> decide

/-- **every accepted value is reached (`detailsOf_complete` on the encoder).**  `encodeDetails d` writes `d` as a
decoded response: every struct as the map from the parameter names of its schema to the values spelled
canonically (ints as plain decimals `FilterSpec.renderInt`, bools `1`/`0`, strings as they are; objectives as
their name/status pair).  For every `d` of the Go types' shape (`Shaped`: per field a value of the field's kind,
ints within int64, the unnamed `Version` field zero) that satisfies `DetailsSpec.accepted`, the stage returns
exactly `d` on that response.  So no accepted value is unreachable, and the stage reads every field back. -/
theorem detailsOf_encode (d : Details) (hs : Shaped d) (ha : DetailsSpec.accepted d = true) :
    detailsOf (encodeDetails d) = .ok d :=
  detailsOf_encode_of details_facts_ok details_cover_ok details_params_nodup d hs ha

/-- **the details stage, characterised.**  It returns `d` exactly when `NewDetailsFromParams` yields `d`
(three `params.Unmarshal`s, `unmarshal_iff_reads`) and `d` satisfies `DetailsSpec.accepted`: on the values
that parse, `Details.Validate` *is* the specification (soundness `accepted_sound` and completeness). -/
theorem detailsOf_ok_iff (r : Response) (d : Details) :
    detailsOf r = .ok d ↔ newDetailsFromParams r = some d ∧ DetailsSpec.accepted d = true :=
  DetailsProbe.detailsOf_ok_iff details_facts_ok details_cover_ok r d

/-- … and rejects with `ErrValidationFailed` exactly the parsed values that violate it -/
theorem detailsOf_errValidate_iff (r : Response) :
    detailsOf r = .errValidate ↔ ∃ d, newDetailsFromParams r = some d ∧ DetailsSpec.accepted d = false := by
  constructor
  · intro h
    cases hd : newDetailsFromParams r with
    | none => simp [detailsOf, hd] at h
    | some d =>
      refine ⟨d, rfl, ?_⟩
      cases ha : DetailsSpec.accepted d with
      | false => rfl
      | true => rw [(detailsOf_ok_iff r d).mpr ⟨hd, ha⟩] at h; cases h
  · rintro ⟨d, hd, ha⟩
    cases h : detailsOf r with
    | ok d' =>
      have := (detailsOf_ok_iff r d').mp h
      rw [hd] at this
      cases this.1
      rw [ha] at this; cases this.2
    | errParse => simp [detailsOf, hd] at h; split at h <;> cases h
    | errValidate => rfl

end Swat4.C07

namespace Swat4.C07.Examples
open Swat4 Swat4.GS1 Swat4.DetailsProbe Swat4.DetailsSpec

def a (s : String) : Bytes := Bytes.ofAscii s

/-- a decoded status the prober accepts (maps key-sorted, as `expandPayload` of the model builds them) -/
def good (toc : String) (team : String) : Response :=
  ⟨[(a "gametype", a "VIP Escort"), (a "gamevariant", a "SWAT 4"), (a "gamever", a "1.1"), (a "hostname", a "Swat4 Server"),
    (a "hostport", a "10480"), (a "mapname", a "Fairfax Residence"), (a "tocreports", a toc)],
   [[(a "player", a "Joe"), (a "team", a team)]], [(a "Rescue_All_Hostages", a "1")], .gs1⟩

/-- non-vacuity of `accepted_sound`: a concrete accepted details value (ratio `-0/+5`, which `strconv.Atoi` reads as 0/5) -/
example : detailsOf (good "-0/+5" "2") = .ok
    ⟨[.str (a "Swat4 Server"), .int 10480, .str (a "SWAT 4"), .str (a "1.1"), .str (a "VIP Escort"), .int 0, .int 0,
      .str (a "Fairfax Residence"), .bool false, .bool false, .int 0, .int 0, .int 0, .int 0, .int 0, .int 0, .int 0, .int 0,
      .int 0, .int 0, .str (a "-0/+5"), .str [], .str []],
     [[.str (a "Joe"), .int 0, .int 0, .int 2, .bool false, .int 0, .int 0, .int 0, .int 0, .int 0, .int 0, .int 0, .int 0,
       .int 0, .int 0, .int 0, .int 0, .int 0, .bool false, .int 0, .int 0, .bool false]],
     [[.str (a "Rescue_All_Hostages"), .int 1]]⟩ := by decide

/-- the hypotheses of `detailsOf_complete` hold for that response and value (one player, one objective): the
readings through `unmarshal_iff_reads`, `accepted` by evaluation -/
example :
    let d : Details := ⟨[.str (a "Swat4 Server"), .int 10480, .str (a "SWAT 4"), .str (a "1.1"), .str (a "VIP Escort"), .int 0, .int 0,
      .str (a "Fairfax Residence"), .bool false, .bool false, .int 0, .int 0, .int 0, .int 0, .int 0, .int 0, .int 0, .int 0,
      .int 0, .int 0, .str (a "-0/+5"), .str [], .str []],
     [[.str (a "Joe"), .int 0, .int 0, .int 2, .bool false, .int 0, .int 0, .int 0, .int 0, .int 0, .int 0, .int 0, .int 0,
       .int 0, .int 0, .int 0, .int 0, .int 0, .bool false, .int 0, .int 0, .bool false]],
     [[.str (a "Rescue_All_Hostages"), .int 1]]⟩
    StructReads infoSchema (good "-0/+5" "2").fields d.info ∧
    All2 (StructReads playerSchema) (good "-0/+5" "2").players d.players ∧
    All2 (fun o f => StructReads objectiveSchema (objMap o) f) (good "-0/+5" "2").objectives d.objectives ∧
    DetailsSpec.accepted d = true := by
  refine ⟨(unmarshal_iff_reads _ _ _).mp (by decide), .cons ((unmarshal_iff_reads _ _ _).mp (by decide)) .nil,
    .cons ((unmarshal_iff_reads _ _ _).mp (by decide)) .nil, by decide⟩

/-- the hypotheses of `detailsOf_encode` hold for a value with negative and extreme ints, both bool values and a
non-ASCII name (checked through the executable twin `shapedB`) -/
example :
    let d : Details := ⟨[.str (a "Swat4 Server"), .int 65535, .str (a "SWAT 4"), .str (a "1.1"), .str (a "VIP Escort"), .int 0, .int 16,
      .str (a "Fairfax Residence"), .bool true, .bool false, .int 0, .int 5, .int (-9223372036854775808), .int 0, .int (-7), .int 9223372036854775807,
      .int 0, .int 0, .int 0, .int 0, .str (a "-0/+5"), .str [], .str []],
     [[.str [0xc3, 0xa9], .int (-3), .int 0, .int 2, .bool true, .int 4, .int 0, .int 0, .int 0, .int 0, .int 0, .int 0, .int 0,
       .int 0, .int 0, .int 0, .int 0, .int 0, .bool false, .int 0, .int 0, .bool true]],
     [[.str (a "Rescue_All_Hostages"), .int 1]]⟩
    Shaped d ∧ DetailsSpec.accepted d = true ∧ detailsOf (encodeDetails d) = .ok d := by
  intro d
  have hs : Shaped d := shaped_of_B (by decide)
  have ha : DetailsSpec.accepted d = true := by decide
  exact ⟨hs, ha, detailsOf_encode d hs ha⟩

/-- the seeded crash witness is an ordinary validation failure -/
example : detailsOf (good "1/2/3" "2") = .errValidate := by decide
example : detailsOf (good "1/2" "3") = .errValidate := by decide
example : detailsOf (good "1/2" "x") = .errParse := by decide
/-- the whole path on a one-datagram GS1 response: the required `hostport` is missing -/
example : probe [a "\\hostname\\x\\tocreports\\1/2/3\\queryid\\1\\final\\"] = .errValidate := by decide
example : probe [a "\\hostname\\x\\queryid\\1"] = .errTimeout := by decide
example : probe [a "\\hostname\\x\\queryid\\0\\final\\"] = .errQuery := by decide
example : RatioSpec (a "-0/+5") := (ratioSpec_iff _).mp (by decide)
example : ¬ RatioSpec (a "1/2/3") := fun h => by have := (ratioSpec_iff _).mpr h; revert this; decide

end Swat4.C07.Examples

/-! ## a responder that floods (op `flood`; reviewer §3 item 12)

The harness's `flood` responder repeats its datagram until `Query` returns; `Drv/C07.lean` feeds the model
`ds ++ ds ++ ds` instead of an endless stream.  The theorems below say what finite prefix of the endless stream decides
the model's answer — for EVERY datagram list, with no hypothesis on its content (junk, empty and oversize datagrams,
inconsistent duplicates, several finals included; `C08.collect_dup`'s `ConsistentDups` is not needed). -/
namespace Swat4.C07
open Swat4 Swat4.GS1

/-- **C07 (flood, the driver's finite stand-in is exact).**  For every list of datagrams `ds` and every `n`: the query
against a responder that sends `ds` `n + 2` times over ends exactly as the query against one that sends it twice —
with the same response, the same error, or (both) by timeout.  Hence the result of ANY number ≥ 2 of repetitions, and
so of the endless repetition up to any point, is `runQuery (ds ++ ds)`: if two passes are read through without a result
every later pass is too and only the deadline ends the query.  Two passes are needed in general (`flood_one_pass_not_enough`);
one suffices when `ds` is a single datagram (`flood_single_stabilises`), which is all the harness's `flood` op sends. -/
theorem flood_stabilises (ds : List Bytes) (n : Nat) :
    runQuery (List.replicate (n + 2) ds).flatten = runQuery (ds ++ ds) :=
  runQueryFrom_rep [] ds n

/-- **the driver's choice of three repetitions** (`Drv/C07.lean:107`, `ds ++ ds ++ ds`) is justified for every `ds`:
any larger number of repetitions gives the same result as three (and as two). -/
theorem flood_three_suffice (ds : List Bytes) (n : Nat) :
    runQuery (List.replicate (n + 3) ds).flatten = runQuery (ds ++ ds ++ ds) ∧
    runQuery (ds ++ ds ++ ds) = runQuery (ds ++ ds) := by
  have h3 : runQuery (ds ++ ds ++ ds) = runQuery (ds ++ ds) := by
    have := flood_stabilises ds 1
    simpa [List.replicate_succ, List.append_assoc] using this
  exact ⟨(flood_stabilises ds (n + 1)).trans h3.symm, h3⟩

/-- **one datagram repeated** (the only shape the harness's `flood` op accepts): the first read decides — any number
≥ 1 of copies of `d` gives what the single `d` gives. -/
theorem flood_single_stabilises (d : Bytes) (n : Nat) : runQuery (List.replicate (n + 1) d) = runQuery [d] :=
  runQueryFrom_replicate_single d n

/-- **one pass is NOT enough for a list** (so `runQuery ds` would be the wrong stand-in for a flooding responder with
more than one datagram): `\a\b\queryid\2\final\` then `\c\d\queryid\1\final\` — two fragments both marked
final.  The first pass ends still reading (after the first datagram the final number is 2 with one fragment in hand,
after the second the final number is 1 with two); in the second pass the first datagram sets the final number back to 2
while both fragments are in hand, and the query answers `c=d, a=b`.  Three passes give what two give. -/
theorem flood_one_pass_not_enough :
    let d1 : Bytes := [92, 97, 92, 98, 92, 113, 117, 101, 114, 121, 105, 100, 92, 50, 92, 102, 105, 110, 97, 108, 92]
    let d2 : Bytes := [92, 99, 92, 100, 92, 113, 117, 101, 114, 121, 105, 100, 92, 49, 92, 102, 105, 110, 97, 108, 92]
    runQuery [d1, d2] = .timeout ∧
    runQuery ([d1, d2] ++ [d1, d2]) = .response ⟨[([97], [98]), ([99], [100])], [], [], .gs1⟩ ∧
    runQuery ([d1, d2] ++ [d1, d2] ++ [d1, d2]) = .response ⟨[([97], [98]), ([99], [100])], [], [], .gs1⟩ := by
  decide

/-- non-vacuity of the flood theorems on the corpus's own flood datagrams: `\hostname\x\queryid\1` (never final)
repeated times out however often it is repeated; a complete single-fragment status answers at the first read -/
example : runQuery (List.replicate 7 (Bytes.ofAscii "\\hostname\\x\\queryid\\1")) = .timeout ∧
    runQuery [Bytes.ofAscii "\\hostname\\x\\queryid\\1"] = .timeout ∧
    runQuery (List.replicate 5 (Bytes.ofAscii "\\hostname\\x\\queryid\\1\\final\\")) =
      .response ⟨[(Bytes.ofAscii "hostname", Bytes.ofAscii "x")], [], [], .gs1⟩ :=
  ⟨(flood_single_stabilises _ 6).trans (by decide), by decide, (flood_single_stabilises _ 4).trans (by decide)⟩

end Swat4.C07
