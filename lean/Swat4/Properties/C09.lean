import Swat4.Lemmas.LockFencing
import Swat4.Gen.Facts
/-!
# C09 — Concurrent registry writers never lose an update, readers never fail

Property theorems only; the proofs are in `Swat4/Lemmas/LockFencing.lean`.

The objects: `Sys` (`Model/StoreMachine.lean`) is the interleaving of any number of registry
calls (`servers.Repository.Add/Update/Remove` through `updateExclusive` → `redislock.Guard`, and
`Filter`) at storage-command granularity over the Redis-level store `RStore`, with lease-expiry
events (`Ev.expire`, both "expiry invalidates WATCH" and "does not": `Sys.dirties`) and clock
ticks.  `Inv` is the inductive invariant, `Init` the well-formed initial systems.

Every theorem below is for an arbitrary number of clients, arbitrary addresses, event lists of
any length, and arbitrary resolvers that — applied to a record stored under the caller's address
— return a record for that address (`KeyPreserving`, implied by `AddrPreserving`:
`AddrPreserving.keyPreserving`).  `Inv`, `Init`, `LogInv`, `AddrPreserving` are defined in the
lemma file.
-/
namespace Swat4.C09
open Swat4 Std

/-- Well-formed initial systems satisfy the invariant. (Go: any set of repository calls about to
start, over any keyspace whose records are stored under their own address.) -/
theorem inv_init {s : Sys} (h : Init s) : Inv s := Swat4.inv_init h

/-- The invariant survives every event: one storage command of any writer or reader, the expiry of
any lock lease — whether or not the server treats expiry as a modification of a WATCHed key
(`s.dirties` is arbitrary) — and the passage of time. -/
theorem inv_step {s : Sys} (h : Inv s) (e : Ev) : Inv (s.step e) := Swat4.inv_step h e

/-- … hence every schedule. -/
theorem inv_run {s : Sys} (h : Inv s) (es : List Ev) : Inv (s.run es) := Swat4.inv_run h es

/-- the invariant holds in every state reachable from a well-formed initial system -/
theorem inv_reachable {s : Sys} (h : Init s) (es : List Ev) : Inv (s.run es) := Swat4.inv_run (Swat4.inv_init h) es

/-- **Fencing.** At any instant at most one call per server address has both passed
`Guard`'s ownership check (`GET lock = own token`) and still holds a valid WATCH on the lock key;
i.e. at most one call per address can have its `MULTI…EXEC` accepted next — even when leases
expire early and several calls believe they hold the lock. -/
theorem clean_unique {s : Sys} (h : Inv s) {i j : Nat} {wi wj : Writer}
    (hi : s.clients[i]? = some (.writer wi)) (hj : s.clients[j]? = some (.writer wj))
    (hk : wi.key = wj.key) (ci : Clean s.store wi) (cj : Clean s.store wj) : i = j :=
  Swat4.clean_unique h hi hj hk ci cj

/-- **Commits are atomic.** If call `i` is about to have its `EXEC` accepted (its WATCHed lock-key
version is still current), then the batch it queued and the result it is going to return are exactly
what the operation (`add` / `update` / `remove` with its resolver) decides on the record stored *at
this instant* — the `HGET` it made earlier is not stale — the batch writes only the call's own
address, and the step applies exactly that batch (`Sys.commitBy`). -/
theorem C09_commit_atomic {s : Sys} (h : Inv s) {i : Nat} {w : Writer}
    {v : Nat} {ex : Option Server} {now : Int} {b : Batch} {r : WResult}
    (hc : s.clients[i]? = some (.writer w)) (hpc : w.pc = .exec v ex now b r) (hv : s.store.verOf w.key = v) :
    decideOp w.op (s.store.items[w.key]?) now = .inr (b, r) ∧ b.key = w.key ∧
      s.step (.step i) = s.commitBy i w b r := by
  have hw := h.winv i w hc
  refine ⟨?_, hw.execKey v ex now b r hpc, Sys.step_commit s i w hc hpc hv⟩
  rw [← hw.readCur v ex now b r hpc hv.symm]; exact hw.execDecide v ex now b r hpc

/-- **Rows change only by a commit.** Every event either is the accepted `EXEC` of a writer whose
WATCH is still valid — then the new system is `commitBy`: that writer's batch applied, the writer on
its way out with the decided result, the ghost log grown by exactly this commit — or leaves
`servers:items`, `servers:updated`, `servers:refreshed` and the status sets untouched and the log
unchanged.  (No write happens outside the fenced transaction.) -/
theorem C09_rows_change_only_by_commit (s : Sys) (e : Ev) :
    (∃ (i : Nat) (w : Writer) (b : Batch) (r : WResult), IsCommit s e i w b r ∧ s.step e = s.commitBy i w b r) ∨
    ((s.step e).store.RowsEq s.store ∧ (s.step e).log = s.log) :=
  step_frame s e

/-- **Replay.** After any schedule the row families are the logged commits applied in order to
the initial rows: calls that never committed (aborted, lost the lock, exhausted their attempts,
crashed mid-way) changed nothing. -/
theorem C09_replay (s : Sys) (es : List Ev) :
    ∃ L : List Commit, (s.run es).log = s.log ++ L ∧ (s.run es).store.RowsEq (replay s.store L) :=
  run_replay s es

/-- **Linearizability at the commit instants.** From any well-formed initial system and for any
schedule, `LogInv` holds of the ghost log (which receives one entry per accepted `EXEC`, see
`C09_rows_change_only_by_commit`): the row families are the logged batches replayed over the initial
rows; the `n`-th logged commit's call has decided — on the record that the *sequential replay of the
first `n` commits* leaves at its address — exactly the logged batch and the result it returns
(`fin?`), and that batch writes only that address; a call whose commit flag is up is in the log;
every call commits at most once.  So the concurrent execution is equivalent to running the
committed operations one after another in commit order: no update is lost, none is applied twice. -/
theorem C09_linearizable {s0 : Sys} (h : Init s0) (es : List Ev) : LogInv s0.store (s0.run es) :=
  loginv_run (Swat4.inv_init h) (loginv_init h) es

/-- the `n`-th commit, spelled out: the call returns what the operation decides on the sequentially
replayed record -/
theorem C09_committed_result {s0 : Sys} (h : Init s0) (es : List Ev) (n : Nat) (c : Commit)
    (hn : (s0.run es).log[n]? = some c) :
    ∃ (w : Writer) (now : Int) (r : WResult), (s0.run es).clients[c.client]? = some (.writer w) ∧
      w.pc.fin? = some r ∧
      decideOp w.op ((replay s0.store ((s0.run es).log.take n)).items[w.key]?) now = .inr (c.batch, r) := by
  obtain ⟨w, now, r, hc, _, hf, hb, hd, _⟩ := (C09_linearizable h es).entries n c hn
  exact ⟨w, now, r, hc, hf, hb ▸ hd⟩

/-- **No effect unless committed.** A call whose `EXEC` was never accepted (it returned an error,
found nothing to do, is still running or was abandoned) has no entry in the log — by `C09_replay`
it contributed nothing to the rows. -/
theorem C09_no_effect_unless_committed {s0 : Sys} (h : Init s0) (es : List Ev) (i : Nat) (w : Writer)
    (hc : (s0.run es).clients[i]? = some (.writer w)) (hcm : w.committed = false) :
    ∀ c ∈ (s0.run es).log, c.client ≠ i := by
  intro c hmem hci
  obtain ⟨n, hn⟩ := List.getElem?_of_mem hmem
  obtain ⟨w', _, _, hc', hcm', _⟩ := (C09_linearizable h es).entries n c hn
  rw [hci, hc] at hc'; cases hc'
  rw [hcm] at hcm'; cases hcm'

/-- **An error means no effect.** A call that returned an error (`not found`, `exists`, lock lost,
attempts exhausted) never had an `EXEC` accepted: it has no entry in the log and so, by
`C09_replay`, changed no row. -/
theorem C09_error_no_effect {s0 : Sys} (h : Init s0) (es : List Ev) (i : Nat) (w : Writer) (err : WErr)
    (hc : (s0.run es).clients[i]? = some (.writer w)) (hpc : w.pc = .done (.error err)) :
    w.committed = false ∧ ∀ c ∈ (s0.run es).log, c.client ≠ i := by
  have hl := C09_linearizable h es
  have hnc : w.committed = false := by
    cases hcm : w.committed with
    | false => rfl
    | true =>
      exfalso
      obtain ⟨c, hmem, hci⟩ := hl.flagged i w hc hcm
      obtain ⟨n, hn⟩ := List.getElem?_of_mem hmem
      obtain ⟨w', _, r, hc', _, hf, _, hd, _⟩ := hl.entries n c hn
      rw [hci, hc] at hc'; cases hc'
      rw [hpc] at hf
      obtain ⟨x, hx⟩ := decide_inr_ok hd
      rw [hx] at hf; cases hf
  exact ⟨hnc, C09_no_effect_unless_committed h es i w hc hnc⟩

/-- every storage command of an unfinished call strictly decreases `attemptsLeft * 16 + rank pc`,
whatever the store contains -/
theorem C09_measure_decreases (st : RStore) (clock : Int) (fresh i : Nat) (w : Writer) (h : ¬ w.finished) :
    (wstep st clock fresh i w).2.1.measure < w.measure :=
  wstep_measure st clock fresh i w h

/-- **Bounded.** In any schedule — any interleaving with other clients, expiries, ticks — the number
of storage commands call `i` executes before it returns is at most its initial measure … -/
theorem C09_bounded_measure (i : Nat) (s : Sys) (w : Writer) (hc : s.clients[i]? = some (.writer w)) (es : List Ev) :
    ownSteps i s es ≤ w.measure := by
  obtain ⟨w', _, hle⟩ := ownSteps_le i s w hc es
  omega

/-- … which for a call as `updateExclusive` starts it (5 attempts) is 75 ≤ 5 · 16 = 80. -/
theorem C09_bounded (i : Nat) (s : Sys) (op : WOp) (tok : Nat)
    (hc : s.clients[i]? = some (.writer (Writer.start op tok))) (es : List Ev) :
    ownSteps i s es ≤ 80 := by
  have := C09_bounded_measure i s _ hc es
  rw [Writer.start_measure] at this
  omega

/-- … and a call that is scheduled 80 times has returned, whatever happened in between (no
livelock inside the call: the retry loop is bounded by `MaxAttempts`). -/
theorem C09_finishes (i : Nat) (s : Sys) (op : WOp) (tok : Nat)
    (hc : s.clients[i]? = some (.writer (Writer.start op tok))) (es : List Ev) (hn : 80 ≤ stepsOf i es) :
    ∃ w' : Writer, (s.run es).clients[i]? = some (.writer w') ∧ w'.finished :=
  finishes_of_stepsOf i s _ hc es (by rw [Writer.start_measure]; omega)

/-- **Listing.** A `Filter` call's `HMGET` step always yields a result (the result type
`List Server` has no failure case: missing items are skipped), and every record in it was the
stored record of one of the requested keys at the instant of the `HMGET`; in an `Inv` state that
record is the one of the address it is stored under. -/
theorem C09_listing (s : Sys) (i : Nat) (keys : List Nat) (hc : s.clients[i]? = some (.reader ⟨.hmget keys⟩)) :
    (s.step (.step i)).clients[i]? = some (.reader ⟨.done (s.store.hmgetItems keys)⟩) ∧
    (∀ r ∈ s.store.hmgetItems keys, ∃ k ∈ keys, s.store.items[k]? = some r) ∧
    (Inv s → ∀ r ∈ s.store.hmgetItems keys, r.addr.key ∈ keys) := by
  refine ⟨Sys.step_clients_self_reader s i _ hc, fun r hr => mem_hmgetItems hr, ?_⟩
  intro h r hr
  obtain ⟨k, hk, hget⟩ := mem_hmgetItems hr
  rw [h.keyed k r hget]; exact hk

/-- a `Filter` call returns after at most two storage commands (index pipeline, `HMGET`), whatever
the store holds at either instant -/
theorem C09_reader_finishes (st1 st2 : RStore) (r : Reader) : ∃ rs, (rstep st2 (rstep st1 r)).pc = .done rs := by
  cases hpc : r.pc with
  | index fs =>
    by_cases he : (st1.filterKeys fs).isEmpty = true
    · have h1 : rstep st1 r = ⟨.done []⟩ := by simp only [rstep, hpc, he, if_true]
      rw [h1]; exact ⟨_, rfl⟩
    · have h1 : rstep st1 r = ⟨.hmget (st1.filterKeys fs)⟩ := by simp only [rstep, hpc, he]; rfl
      rw [h1]; exact ⟨_, rfl⟩
  | hmget keys => simp only [rstep, hpc]; exact ⟨_, rfl⟩
  | done rs => simp only [rstep, hpc]; exact ⟨_, rfl⟩

/-! ## non-vacuity: two writers racing on one address -/

namespace Example

def svr : Server := { addr := ⟨16909060, 10480⟩, queryPort := 10481, status := 1#9, info := [], details := ⟨[], [], []⟩, refreshedAt := none, version := 0 }

/-- the merging resolver: keep the stored record -/
def keep : Resolver := fun ex => some ex

def s0 : Sys :=
  { store := {}, clock := 0, nextTok := 2,
    clients := [.writer (Writer.start ⟨.add, svr, keep⟩ 0), .writer (Writer.start ⟨.update, svr, keep⟩ 1)] }

theorem clients_cases {i : Nat} {w : Writer} (h : s0.clients[i]? = some (.writer w)) :
    (i = 0 ∧ w = Writer.start ⟨.add, svr, keep⟩ 0) ∨ (i = 1 ∧ w = Writer.start ⟨.update, svr, keep⟩ 1) := by
  match i, h with
  | 0, h => left; simp [s0] at h; exact ⟨rfl, h.symm⟩
  | 1, h => right; simp [s0] at h; exact ⟨rfl, h.symm⟩
  | i + 2, h => simp [s0] at h

theorem keep_ap : AddrPreserving keep := by
  intro s r h; cases h; rfl

/-- the hypotheses of the theorems above are satisfiable: two calls racing on one address -/
theorem init_s0 : Init s0 := by
  refine ⟨?_, ?_, ?_, ?_, ?_, ?_, ?_, rfl⟩
  · intro i w h
    rcases clients_cases h with ⟨_, rfl⟩ | ⟨_, rfl⟩ <;> decide
  · intro i j wi wj hi hj ht
    rcases clients_cases hi with ⟨rfl, rfl⟩ | ⟨rfl, rfl⟩ <;> rcases clients_cases hj with ⟨rfl, rfl⟩ | ⟨rfl, rfl⟩
    · rfl
    · cases ht
    · cases ht
    · rfl
  · intro i w h
    rcases clients_cases h with ⟨_, rfl⟩ | ⟨_, rfl⟩ <;> exact ⟨rfl, rfl⟩
  · intro i w h
    rcases clients_cases h with ⟨_, rfl⟩ | ⟨_, rfl⟩ <;> exact AddrPreserving.keyPreserving keep_ap
  · intro k r h; simp [s0] at h
  · intro k t h; simp [s0, RStore.lastOf] at h
  · intro k c h; simp [s0] at h

example : Inv s0 := inv_init init_s0

/-- after `SET NX`, `WATCH`, `GET`, `HGET` the first call stands at `EXEC` with a valid WATCH: the
hypotheses of `C09_commit_atomic` are satisfiable -/
def w4 : Writer :=
  { op := ⟨.add, svr, keep⟩, tok := 0, attemptsLeft := 4,
    pc := .exec 1 none 0 (.save { svr with version := 1 } 0) (.ok (some { svr with version := 1 })) }

example : (s0.run [.step 0, .step 0, .step 0, .step 0]).clients[0]? = some (.writer w4) ∧
    (s0.run [.step 0, .step 0, .step 0, .step 0]).store.verOf w4.key = 1 := ⟨rfl, rfl⟩

set_option maxRecDepth 8000 in
/-- the lease expires without invalidating the WATCH (`dirties = false`), the second call takes the
lock — and the first call's `EXEC` is refused: it goes to the retry path and nothing is logged -/
example :
    let s := { s0 with dirties := false }.run
      [.step 0, .step 0, .step 0, .step 0, .expire svr.addr.key, .step 1, .step 0]
    s.clients[0]? = some (.writer { w4 with pc := .unwatch .retry }) ∧ s.log.length = 0 := ⟨rfl, rfl⟩

set_option maxRecDepth 8000 in
/-- without the second call's `SET NX` the same `EXEC` is accepted although the lease is gone -/
example :
    let s := { s0 with dirties := false }.run [.step 0, .step 0, .step 0, .step 0, .expire svr.addr.key, .step 0]
    s.log.length = 1 ∧ s.store.items[svr.addr.key]? = some { svr with version := 1 } := ⟨rfl, by decide⟩

set_option maxRecDepth 100000 in
/-- A wart the model inherits from `redislock.release` (safe, by the theorems above, but it costs an
attempt): the ownership check and the `DEL` of the release are separate commands — `tx.Del` is sent
outside `MULTI…EXEC`, so the release's `WATCH` fences nothing.  Call 0 commits and checks that it
still owns the lock; the lease expires; call 1 acquires the lock and passes its ownership check;
call 0's `DEL` then removes call 1's lock; call 1's `EXEC` is refused (the `DEL` modified the
WATCHed key) although call 1 held the lock legitimately, and the lock key is free for a third call. -/
example :
    let s := s0.run [.step 0, .step 0, .step 0, .step 0, .step 0, .step 0, .step 0, .step 0, .expire svr.addr.key,
      .step 1, .step 1, .step 1, .step 0, .step 1, .step 1]
    s.clients[1]? = some (.writer { op := ⟨.update, svr, keep⟩, tok := 1, attemptsLeft := 4, pc := .unwatch .retry }) ∧
      s.store.locks.contains svr.addr.key = false ∧ s.log.length = 1 := ⟨rfl, rfl, rfl⟩

end Example


/-- the constants the machine is written against are the ones in the source (regenerated `Gen/Facts.lean`): five
attempts per call (`Writer.start` leaves four after the first), a finite lease on every lock (`SET NX EX`), and the
key names the canonical dump is parsed by -/
theorem facts_ok : Facts.lockMaxAttempts = 5 ∧ 0 < Facts.lockLeaseMs ∧
    Facts.serversKey_itemsKey = "servers:items" ∧ Facts.serversKey_updatesKey = "servers:updated" ∧
    Facts.serversKey_refreshesKey = "servers:refreshed" ∧ Facts.serversKey_statusKeyFmt = "servers:status:%s" ∧
    Facts.serversKey_lockKeyFmt = "servers:lock:%s" := by decide

theorem start_attempts (op : WOp) (tok : Nat) : (Writer.start op tok).attemptsLeft + 1 = Facts.lockMaxAttempts := rfl

end Swat4.C09
