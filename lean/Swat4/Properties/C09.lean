import Swat4.Lemmas.FactsExtra09
import Swat4.Lemmas.LockFencing
import Swat4.Gen.Facts
import Swat4.Lemmas.StoreSpecRefine
import Swat4.Lemmas.ListingTotal
import Swat4.Lemmas.UseCaseKeyPres
/-!
# C09 — Concurrent registry writers never lose an update, readers never fail

Property theorems only; the proofs are in `Swat4/Lemmas/LockFencing.lean`.

The objects: `Sys` (`Model/StoreMachine.lean`) is the interleaving of any number of registry
calls (`servers.Repository.Add/Update/Remove` through `updateExclusive` → `redislock.Guard`, and
`Filter`) at storage-command granularity over the Redis-level store `RStore`, with lease-expiry
events (`Ev.expire`, both "expiry invalidates WATCH" and "does not": `Sys.dirties`) and clock
ticks.  `Inv` is the inductive invariant, `Init` the well-formed initial systems.

Every theorem below is for an arbitrary number of clients, arbitrary addresses, event lists of
any length, and arbitrary resolvers that — applied to a record stored under the caller's address
— return a record for that address (`KeyPreserving`, implied by `AddrPreserving`:
`AddrPreserving.keyPreserving`).  `Inv`, `Init`, `LogInv`, `AddrPreserving` are defined in the
lemma file.
-/
namespace Swat4.C09
open Swat4 Std

/-- Well-formed initial systems satisfy the invariant. (Go: any set of repository calls about to
start, over any keyspace whose records are stored under their own address.) -/
theorem inv_init {s : Sys} (h : Init s) : Inv s := Swat4.inv_init h

/-- The invariant survives every event: one storage command of any writer or reader, the expiry of
any lock lease — whether or not the server treats expiry as a modification of a WATCHed key
(`s.dirties` is arbitrary) — and the passage of time. -/
theorem inv_step {s : Sys} (h : Inv s) (e : Ev) : Inv (s.step e) := Swat4.inv_step h e

/-- … hence every schedule. -/
theorem inv_run {s : Sys} (h : Inv s) (es : List Ev) : Inv (s.run es) := Swat4.inv_run h es

/-- the invariant holds in every state reachable from a well-formed initial system -/
theorem inv_reachable {s : Sys} (h : Init s) (es : List Ev) : Inv (s.run es) := Swat4.inv_run (Swat4.inv_init h) es

/-- **Fencing.** At any instant at most one call per server address has both passed
`Guard`'s ownership check (`GET lock = own token`) and still holds a valid WATCH on the lock key;
i.e. at most one call per address can have its `MULTI…EXEC` accepted next — even when leases
expire early and several calls believe they hold the lock. -/
theorem clean_unique {s : Sys} (h : Inv s) {i j : Nat} {wi wj : Writer}
    (hi : s.clients[i]? = some (.writer wi)) (hj : s.clients[j]? = some (.writer wj))
    (hk : wi.key = wj.key) (ci : Clean s.store wi) (cj : Clean s.store wj) : i = j :=
  Swat4.clean_unique h hi hj hk ci cj

/-- **Commits are atomic.** If call `i` is about to have its `EXEC` accepted (its WATCHed lock-key
version is still current), then the batch it queued and the result it is going to return are exactly
what the operation (`add` / `update` / `remove` with its resolver) decides on the record stored *at
this instant* — the `HGET` it made earlier is not stale — the batch writes only the call's own
address, and the step applies exactly that batch (`Sys.commitBy`). -/
theorem C09_commit_atomic {s : Sys} (h : Inv s) {i : Nat} {w : Writer}
    {v : Nat} {ex : Option Server} {now : Int} {b : Batch} {r : WResult}
    (hc : s.clients[i]? = some (.writer w)) (hpc : w.pc = .exec v ex now b r) (hv : s.store.verOf w.key = v) :
    decideOp w.op (s.store.items[w.key]?) now = .inr (b, r) ∧ b.key = w.key ∧
      s.step (.step i) = s.commitBy i w b r := by
  have hw := h.winv i w hc
  refine ⟨?_, hw.execKey v ex now b r hpc, Sys.step_commit s i w hc hpc hv⟩
  rw [← hw.readCur v ex now b r hpc hv.symm]; exact hw.execDecide v ex now b r hpc

/-- **Rows change only by a commit.** Every event either is the accepted `EXEC` of a writer whose
WATCH is still valid — then the new system is `commitBy`: that writer's batch applied, the writer on
its way out with the decided result, the ghost log grown by exactly this commit — or leaves
`servers:items`, `servers:updated`, `servers:refreshed` and the status sets untouched and the log
unchanged.  (No write happens outside the fenced transaction.) -/
theorem C09_rows_change_only_by_commit (s : Sys) (e : Ev) :
    (∃ (i : Nat) (w : Writer) (b : Batch) (r : WResult), IsCommit s e i w b r ∧ s.step e = s.commitBy i w b r) ∨
    ((s.step e).store.RowsEq s.store ∧ (s.step e).log = s.log) :=
  step_frame s e

/-- **Replay.** After any schedule the row families are the logged commits applied in order to
the initial rows: calls that never committed (aborted, lost the lock, exhausted their attempts,
crashed mid-way) changed nothing. -/
theorem C09_replay (s : Sys) (es : List Ev) :
    ∃ L : List Commit, (s.run es).log = s.log ++ L ∧ (s.run es).store.RowsEq (replay s.store L) :=
  run_replay s es

/-- **Linearizability at the commit instants.** From any well-formed initial system and for any
schedule, `LogInv` holds of the ghost log (which receives one entry per accepted `EXEC`, see
`C09_rows_change_only_by_commit`): the row families are the logged batches replayed over the initial
rows; the `n`-th logged commit's call has decided — on the record that the *sequential replay of the
first `n` commits* leaves at its address — exactly the logged batch and the result it returns
(`fin?`), and that batch writes only that address; a call whose commit flag is up is in the log;
every call commits at most once.  So the concurrent execution is equivalent to running the
committed operations one after another in commit order: no update is lost, none is applied twice. -/
theorem C09_linearizable {s0 : Sys} (h : Init s0) (es : List Ev) : LogInv s0.store (s0.run es) :=
  loginv_run (Swat4.inv_init h) (loginv_init h) es

/-- the `n`-th commit, spelled out: the call returns what the operation decides on the sequentially
replayed record -/
theorem C09_committed_result {s0 : Sys} (h : Init s0) (es : List Ev) (n : Nat) (c : Commit)
    (hn : (s0.run es).log[n]? = some c) :
    ∃ (w : Writer) (now : Int) (r : WResult), (s0.run es).clients[c.client]? = some (.writer w) ∧
      w.pc.fin? = some r ∧
      decideOp w.op ((replay s0.store ((s0.run es).log.take n)).items[w.key]?) now = .inr (c.batch, r) := by
  obtain ⟨w, now, r, hc, _, hf, hb, hd, _⟩ := (C09_linearizable h es).entries n c hn
  exact ⟨w, now, r, hc, hf, hb ▸ hd⟩

/-- **No effect unless committed.** A call whose `EXEC` was never accepted (it returned an error,
found nothing to do, is still running or was abandoned) has no entry in the log — by `C09_replay`
it contributed nothing to the rows. -/
theorem C09_no_effect_unless_committed {s0 : Sys} (h : Init s0) (es : List Ev) (i : Nat) (w : Writer)
    (hc : (s0.run es).clients[i]? = some (.writer w)) (hcm : w.committed = false) :
    ∀ c ∈ (s0.run es).log, c.client ≠ i := by
  intro c hmem hci
  obtain ⟨n, hn⟩ := List.getElem?_of_mem hmem
  obtain ⟨w', _, _, hc', hcm', _⟩ := (C09_linearizable h es).entries n c hn
  rw [hci, hc] at hc'; cases hc'
  rw [hcm] at hcm'; cases hcm'

/-- **An error means no effect.** A call that returned an error (`not found`, `exists`, lock lost,
attempts exhausted) never had an `EXEC` accepted: it has no entry in the log and so, by
`C09_replay`, changed no row. -/
theorem C09_error_no_effect {s0 : Sys} (h : Init s0) (es : List Ev) (i : Nat) (w : Writer) (err : WErr)
    (hc : (s0.run es).clients[i]? = some (.writer w)) (hpc : w.pc = .done (.error err)) :
    w.committed = false ∧ ∀ c ∈ (s0.run es).log, c.client ≠ i := by
  have hl := C09_linearizable h es
  have hnc : w.committed = false := by
    cases hcm : w.committed with
    | false => rfl
    | true =>
      exfalso
      obtain ⟨c, hmem, hci⟩ := hl.flagged i w hc hcm
      obtain ⟨n, hn⟩ := List.getElem?_of_mem hmem
      obtain ⟨w', _, r, hc', _, hf, _, hd, _⟩ := hl.entries n c hn
      rw [hci, hc] at hc'; cases hc'
      rw [hpc] at hf
      obtain ⟨x, hx⟩ := decide_inr_ok hd
      rw [hx] at hf; cases hf
  exact ⟨hnc, C09_no_effect_unless_committed h es i w hc hnc⟩

/-- every storage command of an unfinished call strictly decreases `attemptsLeft * 16 + rank pc`,
whatever the store contains -/
theorem C09_measure_decreases (st : RStore) (clock : Int) (fresh i : Nat) (w : Writer) (h : ¬ w.finished) :
    (wstep st clock fresh i w).2.1.measure < w.measure :=
  wstep_measure st clock fresh i w h

/-- **Bounded.** In any schedule — any interleaving with other clients, expiries, ticks — the number
of storage commands call `i` executes before it returns is at most its initial measure … -/
theorem C09_bounded_measure (i : Nat) (s : Sys) (w : Writer) (hc : s.clients[i]? = some (.writer w)) (es : List Ev) :
    ownSteps i s es ≤ w.measure := by
  obtain ⟨w', _, hle⟩ := ownSteps_le i s w hc es
  omega

/-- … which for a call as `updateExclusive` starts it (5 attempts) is 75 ≤ 5 · 16 = 80. -/
theorem C09_bounded (i : Nat) (s : Sys) (op : WOp) (tok : Nat)
    (hc : s.clients[i]? = some (.writer (Writer.start op tok))) (es : List Ev) :
    ownSteps i s es ≤ 80 := by
  have := C09_bounded_measure i s _ hc es
  rw [Writer.start_measure] at this
  omega

/-- … and a call that is scheduled 80 times has returned, whatever happened in between (no
livelock inside the call: the retry loop is bounded by `MaxAttempts`). -/
theorem C09_finishes (i : Nat) (s : Sys) (op : WOp) (tok : Nat)
    (hc : s.clients[i]? = some (.writer (Writer.start op tok))) (es : List Ev) (hn : 80 ≤ stepsOf i es) :
    ∃ w' : Writer, (s.run es).clients[i]? = some (.writer w') ∧ w'.finished :=
  finishes_of_stepsOf i s _ hc es (by rw [Writer.start_measure]; omega)

/-- **Listing.** A `Filter` call's `HMGET` step always yields a result (the result type
`List Server` has no failure case: missing items are skipped), and every record in it was the
stored record of one of the requested keys at the instant of the `HMGET`; in an `Inv` state that
record is the one of the address it is stored under. -/
theorem C09_listing (s : Sys) (i : Nat) (keys : List Nat) (hc : s.clients[i]? = some (.reader ⟨.hmget keys⟩)) :
    (s.step (.step i)).clients[i]? = some (.reader ⟨.done (s.store.hmgetItems keys)⟩) ∧
    (∀ r ∈ s.store.hmgetItems keys, ∃ k ∈ keys, s.store.items[k]? = some r) ∧
    (Inv s → ∀ r ∈ s.store.hmgetItems keys, r.addr.key ∈ keys) := by
  refine ⟨Sys.step_clients_self_reader s i _ hc, fun r hr => mem_hmgetItems hr, ?_⟩
  intro h r hr
  obtain ⟨k, hk, hget⟩ := mem_hmgetItems hr
  rw [h.keyed k r hget]; exact hk

/-- a `Filter` call returns after at most two storage commands (index pipeline, `HMGET`), whatever
the store holds at either instant -/
theorem C09_reader_finishes (st1 st2 : RStore) (r : Reader) : ∃ rs, (rstep st2 (rstep st1 r)).pc = .done rs := by
  cases hpc : r.pc with
  | index fs =>
    by_cases he : (st1.filterKeys fs).isEmpty = true
    · have h1 : rstep st1 r = ⟨.done []⟩ := by simp only [rstep, hpc, he, if_true]
      rw [h1]; exact ⟨_, rfl⟩
    · have h1 : rstep st1 r = ⟨.hmget (st1.filterKeys fs)⟩ := by simp only [rstep, hpc, he]; rfl
      rw [h1]; exact ⟨_, rfl⟩
  | hmget keys => simp only [rstep, hpc]; exact ⟨_, rfl⟩
  | done rs => simp only [rstep, hpc]; exact ⟨_, rfl⟩

/-! ## non-vacuity: two writers racing on one address -/

namespace Example

def svr : Server := { addr := ⟨16909060, 10480⟩, queryPort := 10481, status := 1#9, info := [], details := ⟨[], [], []⟩, refreshedAt := none, version := 0 }

/-- the merging resolver: keep the stored record -/
def keep : Resolver := fun ex => some ex

def s0 : Sys :=
  { store := {}, clock := 0, nextTok := 2,
    clients := [.writer (Writer.start ⟨.add, svr, keep⟩ 0), .writer (Writer.start ⟨.update, svr, keep⟩ 1)] }

theorem clients_cases {i : Nat} {w : Writer} (h : s0.clients[i]? = some (.writer w)) :
    (i = 0 ∧ w = Writer.start ⟨.add, svr, keep⟩ 0) ∨ (i = 1 ∧ w = Writer.start ⟨.update, svr, keep⟩ 1) := by
  match i, h with
  | 0, h => left; simp [s0] at h; exact ⟨rfl, h.symm⟩
  | 1, h => right; simp [s0] at h; exact ⟨rfl, h.symm⟩
  | i + 2, h => simp [s0] at h

theorem keep_ap : AddrPreserving keep := by
  intro s r h; cases h; rfl

/-- the hypotheses of the theorems above are satisfiable: two calls racing on one address -/
theorem init_s0 : Init s0 := by
  refine ⟨?_, ?_, ?_, ?_, ?_, ?_, ?_, rfl⟩
  · intro i w h
    rcases clients_cases h with ⟨_, rfl⟩ | ⟨_, rfl⟩ <;> decide
  · intro i j wi wj hi hj ht
    rcases clients_cases hi with ⟨rfl, rfl⟩ | ⟨rfl, rfl⟩ <;> rcases clients_cases hj with ⟨rfl, rfl⟩ | ⟨rfl, rfl⟩
    · rfl
    · cases ht
    · cases ht
    · rfl
  · intro i w h
    rcases clients_cases h with ⟨_, rfl⟩ | ⟨_, rfl⟩ <;> exact ⟨rfl, rfl⟩
  · intro i w h
    rcases clients_cases h with ⟨_, rfl⟩ | ⟨_, rfl⟩ <;> exact AddrPreserving.keyPreserving keep_ap
  · intro k r h; simp [s0] at h
  · intro k t h; simp [s0, RStore.lastOf] at h
  · intro k c h; simp [s0] at h

example : Inv s0 := inv_init init_s0

/-- after `SET NX`, `WATCH`, `GET`, `HGET` the first call stands at `EXEC` with a valid WATCH: the
hypotheses of `C09_commit_atomic` are satisfiable -/
def w4 : Writer :=
  { op := ⟨.add, svr, keep⟩, tok := 0, attemptsLeft := 4,
    pc := .exec 1 none 0 (.save { svr with version := 1 } 0) (.ok (some { svr with version := 1 })) }

example : (s0.run [.step 0, .step 0, .step 0, .step 0]).clients[0]? = some (.writer w4) ∧
    (s0.run [.step 0, .step 0, .step 0, .step 0]).store.verOf w4.key = 1 := ⟨rfl, rfl⟩

set_option maxRecDepth 8000 in
/-- the lease expires without invalidating the WATCH (`dirties = false`), the second call takes the
lock — and the first call's `EXEC` is refused: it goes to the retry path and nothing is logged -/
example :
    let s := { s0 with dirties := false }.run
      [.step 0, .step 0, .step 0, .step 0, .expire svr.addr.key, .step 1, .step 0]
    s.clients[0]? = some (.writer { w4 with pc := .unwatch .retry }) ∧ s.log.length = 0 := ⟨rfl, rfl⟩

set_option maxRecDepth 8000 in
/-- without the second call's `SET NX` the same `EXEC` is accepted although the lease is gone -/
example :
    let s := { s0 with dirties := false }.run [.step 0, .step 0, .step 0, .step 0, .expire svr.addr.key, .step 0]
    s.log.length = 1 ∧ s.store.items[svr.addr.key]? = some { svr with version := 1 } := ⟨rfl, by decide⟩

set_option maxRecDepth 100000 in
/-- A wart the model inherits from `redislock.release` (safe, by the theorems above, but it costs an
attempt): the ownership check and the `DEL` of the release are separate commands — `tx.Del` is sent
outside `MULTI…EXEC`, so the release's `WATCH` fences nothing.  Call 0 commits and checks that it
still owns the lock; the lease expires; call 1 acquires the lock and passes its ownership check;
call 0's `DEL` then removes call 1's lock; call 1's `EXEC` is refused (the `DEL` modified the
WATCHed key) although call 1 held the lock legitimately, and the lock key is free for a third call. -/
example :
    let s := s0.run [.step 0, .step 0, .step 0, .step 0, .step 0, .step 0, .step 0, .step 0, .expire svr.addr.key,
      .step 1, .step 1, .step 1, .step 0, .step 1, .step 1]
    s.clients[1]? = some (.writer { op := ⟨.update, svr, keep⟩, tok := 1, attemptsLeft := 4, pc := .unwatch .retry }) ∧
      s.store.locks.contains svr.addr.key = false ∧ s.log.length = 1 := ⟨rfl, rfl, rfl⟩

end Example


/-- the constants the machine is written against are the ones in the source (regenerated `Gen/Facts.lean`): five
attempts per call (`Writer.start` leaves four after the first), a finite lease on every lock (`SET NX EX`), and the
key names the canonical dump is parsed by -/
theorem facts_ok : Facts.lockMaxAttempts = 5 ∧ 0 < Facts.lockLeaseMs ∧
    Facts.serversKey_itemsKey = "servers:items" ∧ Facts.serversKey_updatesKey = "servers:updated" ∧
    Facts.serversKey_refreshesKey = "servers:refreshed" ∧ Facts.serversKey_statusKeyFmt = "servers:status:%s" ∧
    Facts.serversKey_lockKeyFmt = "servers:lock:%s" := by decide

theorem start_attempts (op : WOp) (tok : Nat) : (Writer.start op tok).attemptsLeft + 1 = Facts.lockMaxAttempts := rfl

end Swat4.C09

/-! # Additions: the versioned-map specification, listings, and the source facts the model is built on -/
namespace Swat4.C09
open Swat4 Std

/-! ## the interleaved system refines the versioned map of C11 (`Spec/Registry.lean`)

`C09_linearizable` is stated with the model function `decideOp`.  The two theorems below restate it against the
*specification* `AbsState.add / update / remove` (wrapped as `specWrite`, `Lemmas/StoreRefine.lean`) through C11's
abstraction relation `Rel`: `Sys.committedOps s` is the list of the operations behind the log entries of `s`, in
commit order, each with the clock reading its batch was stamped with; `specFold a0 ops` applies them one after
another to the specification state `a0`. -/

/-- **Refinement of the versioned map** (clause "the outcome equals applying each committed operation atomically at
its commit instant to the then-current record").  From any well-formed initial system whose store stands for the
specification state `a0`, after any schedule (any interleaving, lease expiries at any point, clock ticks) the store
stands for `a0` with the committed operations applied atomically one after another in commit order — by the
*specification's* `add / update / remove`, resolver and version gate included.  Calls that did not commit do not
occur in the fold: they changed nothing. -/
theorem C09_refines_spec {s0 : Sys} (h : Init s0) {a0 : AbsState} (hrel : Rel s0.store a0) (es : List Ev) :
    ∃ ops : List (Int × WOp), ops = (s0.run es).committedOps ∧
      Rel (s0.run es).store (ops.foldl (fun a p => (specWrite a p.1 p.2).1) a0) :=
  ⟨_, rfl, loginv_refines_spec (C09_linearizable h es) hrel⟩

/-- … and the results (same clause): the call behind the `n`-th commit is the `n`-th committed operation and returns
exactly what the specification returns for it on the state the first `n` committed operations produce. -/
theorem C09_committed_result_spec {s0 : Sys} (h : Init s0) {a0 : AbsState} (hrel : Rel s0.store a0) (es : List Ev)
    (n : Nat) (c : Commit) (hn : (s0.run es).log[n]? = some c) :
    ∃ (w : Writer) (r : WResult), (s0.run es).clients[c.client]? = some (.writer w) ∧ w.pc.fin? = some r ∧
      (s0.run es).committedOps[n]? = some (c.batch.now, w.op) ∧
      r = (specWrite (specFold a0 ((s0.run es).committedOps.take n)) c.batch.now w.op).2 :=
  loginv_result_spec (C09_linearizable h es) hrel n c hn

/-- every log entry contributes one committed operation -/
theorem C09_committedOps_length {s0 : Sys} (h : Init s0) (es : List Ev) :
    (s0.run es).committedOps.length = (s0.run es).log.length := by
  have hl := C09_linearizable h es
  unfold Sys.committedOps
  generalize hL : (s0.run es).log = L
  have hall : ∀ c ∈ L, ∃ p, (s0.run es).opOf c = some p := by
    intro c hc
    rw [← hL] at hc
    obtain ⟨m, hm⟩ := List.getElem?_of_mem hc
    obtain ⟨w, _, _, hcl, _⟩ := hl.entries m c hm
    exact ⟨(c.batch.now, w.op), by simp only [Sys.opOf, hcl]⟩
  clear hL
  induction L with
  | nil => rfl
  | cons x xs ih =>
    obtain ⟨p, hp⟩ := hall x List.mem_cons_self
    simp only [List.filterMap_cons, hp, List.length_cons]
    rw [ih (fun c hc => hall c (List.mem_cons_of_mem _ hc))]

/-- **A listing returns committed versions** (clause "returns, for every server it reports, a committed version of
that server"; joins `C09_listing` with `C09_rows_change_only_by_commit` / `C09_linearizable`).  Whenever — after any
schedule from a well-formed initial system — a `Filter` call stands at its `HMGET`, its step yields the result
`hmgetItems keys` (`C09_listing`), and every record in that result is either the record an *initial* row held under
one of the requested keys, or exactly the record saved by the batch of a logged commit — i.e. of an accepted `EXEC`,
whose call (by `C09_committed_result_spec`) returned that very record as its result. Nothing half-written, nothing
from an aborted call can be seen. -/
theorem C09_listing_committed {s0 : Sys} (h : Init s0) (es : List Ev) (i : Nat) (keys : List Nat)
    (hc : (s0.run es).clients[i]? = some (.reader ⟨.hmget keys⟩)) :
    ((s0.run es).step (.step i)).clients[i]? = some (.reader ⟨.done ((s0.run es).store.hmgetItems keys)⟩) ∧
    ∀ r ∈ (s0.run es).store.hmgetItems keys,
      (∃ k ∈ keys, s0.store.items[k]? = some r) ∨
      (∃ c ∈ (s0.run es).log, ∃ now, c.batch = .save r now) :=
  ⟨(C09_listing _ i keys hc).1, loginv_listing (C09_linearizable h es) keys⟩

namespace Example

/-- the hypotheses of `C09_refines_spec` are satisfiable: the example system starts on the empty keyspace, which
stands for the empty registry -/
example : Rel s0.store {} := Swat4.rel_empty

/-- both calls run to completion one after the other, the clock advancing by 5 in between -/
def both : List Ev :=
  List.replicate 10 (.step 0) ++ [.tick 5] ++ List.replicate 10 (.step 1)

set_option maxRecDepth 100000 in
/-- … both commit, in this order, at clock readings 0 and 5 -/
example : (s0.run both).committedOps.map (fun p => (p.1, p.2.kind)) = [(0, .add), (5, .update)] ∧
    (s0.run both).log.length = 2 := ⟨rfl, rfl⟩

set_option maxRecDepth 100000 in
/-- the specification folded over them: `add` stores version 1, `update` (caller version 0 < 1, merging resolver keeps
the stored record) stores version 2 at clock 5 — -/
example : (specFold {} (s0.run both).committedOps).servers[svr.addr.key]? = some ⟨{ svr with version := 2 }, 5⟩ := by
  decide

set_option maxRecDepth 100000 in
/-- — and that is what the store holds, as `C09_refines_spec` says -/
example : (s0.run both).store.items[svr.addr.key]? = some { svr with version := 2 } ∧
    (s0.run both).store.updated[svr.addr.key]? = some 5 := by decide

/-- a writer and a `Filter` call (no criterion: everything) on the empty keyspace -/
def s1 : Sys :=
  { store := {}, clock := 0, nextTok := 1,
    clients := [.writer (Writer.start ⟨.add, svr, keep⟩ 0), .reader ⟨.index {}⟩] }

theorem clients1_cases {i : Nat} {w : Writer} (h : s1.clients[i]? = some (.writer w)) :
    i = 0 ∧ w = Writer.start ⟨.add, svr, keep⟩ 0 := by
  match i, h with
  | 0, h => simp [s1] at h; exact ⟨rfl, h.symm⟩
  | 1, h => simp [s1] at h
  | i + 2, h => simp [s1] at h

theorem init_s1 : Init s1 := by
  refine ⟨?_, ?_, ?_, ?_, ?_, ?_, ?_, rfl⟩
  · intro i w h; obtain ⟨_, rfl⟩ := clients1_cases h; decide
  · intro i j wi wj hi hj _
    obtain ⟨rfl, _⟩ := clients1_cases hi
    obtain ⟨rfl, _⟩ := clients1_cases hj
    rfl
  · intro i w h; obtain ⟨_, rfl⟩ := clients1_cases h; exact ⟨rfl, rfl⟩
  · intro i w h; obtain ⟨_, rfl⟩ := clients1_cases h; exact AddrPreserving.keyPreserving keep_ap
  · intro k r h; simp [s1] at h
  · intro k t h; simp [s1, RStore.lastOf] at h
  · intro k c h; simp [s1] at h

set_option maxRecDepth 100000 in
/-- the hypotheses of `C09_listing_committed` are satisfiable: after the writer's commit (5 commands) the reader's
index pipeline finds the key and the reader stands at its `HMGET` — -/
example : (s1.run [.step 0, .step 0, .step 0, .step 0, .step 0, .step 1]).clients[1]? =
    some (.reader ⟨.hmget [svr.addr.key]⟩) := rfl

set_option maxRecDepth 100000 in
/-- — the listing then returns the committed version-1 record, which is the record saved by the (only) log entry -/
example :
    let s := s1.run [.step 0, .step 0, .step 0, .step 0, .step 0, .step 1]
    s.store.hmgetItems [svr.addr.key] = [{ svr with version := 1 }] ∧
      s.log.map (·.batch) = [.save { svr with version := 1 } 0] := by decide

end Example

/-! ## the source facts the store model is built on (regenerated `Gen/Facts.lean`, section `storewrites`)

`Model/Store.lean` / `Model/StoreMachine.lean` take for granted that (1) all row writes of a `save` / `remove` are
ONE atomic step (`saveBatch`, `removeBatch`), (2) that step is fenced by the WATCH on the lock key (`wstep … .exec`
compares `verOf`), (3) the lock key is the key of the address the rows are stored under (`k := c.op.svr.addr.key` for
both), (4) the lock cell is created by one `SET NX` that always carries the lease as TTL, (5) each acquisition has a
fresh token (`Writer.tok := fresh`), (6) the release's ownership check and `DEL` are separate commands (`relGet`,
`relDel`).  None of this can be proved about the model — it *is* the model.  The harness' go/ast extractor
(`harness/internal/facts/storewrites.go`) reports the corresponding syntactic shapes of `servers.go` and `redislock.go`
on every run, and the theorems below pin them literally: any new write site, any write that escapes the
`TxPipelined` closure, any `TxPipelined` on another receiver, any change of the lock-key expression, of the `SetNX`
arguments or of where the token is drawn changes a list and breaks a theorem. -/

/-- **(1), (6): every Redis write outside a `MULTI…EXEC` closure is a step of its own in the model.**  The only write
call sites of `servers.go`, `instances.go`, `probes.go`, `redislock.go` that are not `pipe.X(…)` inside a
`….TxPipelined(ctx, func(pipe){…})` closure are `Guard`'s `m.client.SetNX` (`WPC.setnx`) and `release`'s `tx.Del`
(`WPC.relDel`, a separate command — see the wart in `Example`); and the writes of `save` / `remove` are all queued
on the `pipe` of a `TxPipelined` whose receiver is the function's `tx *redis.Tx` parameter. -/
theorem facts_writes_fenced :
    Facts.storeWritesOutsideTx =
      [("redislock", "Guard", "m.client", "SetNX"), ("redislock", "release", "tx *redis.Tx", "Del")] ∧
    Facts.storeWritesInTx.filter (fun x => x.1 == "servers") =
      [("servers", "remove", "tx *redis.Tx", "HDel"), ("servers", "remove", "tx *redis.Tx", "ZRem"),
       ("servers", "remove", "tx *redis.Tx", "ZRem"), ("servers", "remove", "tx *redis.Tx", "SRem"),
       ("servers", "save", "tx *redis.Tx", "HSet"), ("servers", "save", "tx *redis.Tx", "ZAdd"),
       ("servers", "save", "tx *redis.Tx", "ZRem"), ("servers", "save", "tx *redis.Tx", "ZAdd"),
       ("servers", "save", "tx *redis.Tx", "SAdd"), ("servers", "save", "tx *redis.Tx", "SRem")] ∧
    Facts.storeReadCmds = ["Get", "HGet", "HLen", "HMGet", "SCard", "SInter", "SUnion", "ZCard", "ZRange", "ZRangeArgs", "ZRangeArgsWithScores"] := by
  decide

/-- **(2): `EXEC` is sent on the WATCHing connection.**  The complete list of `Watch` / `Pipelined` / `TxPipelined` /
`Pipeline` / `TxPipeline` calls of `servers.go` and `redislock.go`: the two writers `save` and `remove` call
`TxPipelined` on their `tx *redis.Tx` parameter (never on `r.client`, never a bare `Pipelined`); the only calls on
`r.client` are the read-only index pipeline of `Filter` and the `SCARD`s of `CountByStatus`; `Watch` is called by
`Guard` and `release` only. -/
theorem facts_tx_calls :
    Facts.storeTxCalls.filter (fun x => x.1 == "servers" || x.1 == "redislock") =
      [("servers", "remove", "tx *redis.Tx", "TxPipelined"), ("servers", "filterServerKeys", "r.client", "Pipelined"),
       ("servers", "CountByStatus", "r.client", "TxPipelined"), ("servers", "save", "tx *redis.Tx", "TxPipelined"),
       ("redislock", "Guard", "m.client", "Watch"), ("redislock", "release", "m.client", "Watch")] := by
  decide

/-- … read off the list: every function of `servers.go` that writes (`facts_writes_fenced`) sends its transaction
with `TxPipelined` on its `tx *redis.Tx` parameter -/
theorem facts_writers_exec_on_tx :
    ∀ x ∈ Facts.storeTxCalls, x.1 = "servers" → (x.2.1 = "save" ∨ x.2.1 = "remove") →
      x.2.2 = ("tx *redis.Tx", "TxPipelined") := by
  decide

/-- **(2), continued: that `tx` is the one `Guard` WATCHes the lock key on.**  Every function literal that takes a
`*redis.Tx` and whom it is passed to — `Add`/`Update`/`Remove` → `updateExclusive` → `r.locker.Guard(ctx, lockKey,
lease, …)` → `m.client.Watch(ctx, …, key)` — and every call that hands a `*redis.Tx` on passes the `tx` parameter it
received (`op(tx)`, `r.add(ctx, tx, …)`, `r.save(ctx, tx, …)`, …): the `tx` in `save` / `remove` is the connection on
which `Guard` issued `WATCH key` with `key` = the lock key. -/
theorem facts_tx_provenance :
    Facts.storeTxLits =
      [("servers", "Add", "r.updateExclusive", "ctx, svr"), ("servers", "Update", "r.updateExclusive", "ctx, svr"),
       ("servers", "Remove", "r.updateExclusive", "ctx, svr"),
       ("servers", "updateExclusive", "r.locker.Guard", "ctx, lockKey, r.lockOpts.LeaseDuration"),
       ("redislock", "Guard", "m.client.Watch", "ctx, key"), ("redislock", "release", "m.client.Watch", "ctx, key")] ∧
    Facts.storeTxArgs =
      [("servers", "Add", "r.add", "tx *redis.Tx"), ("servers", "add", "r.save", "tx *redis.Tx"),
       ("servers", "add", "r.save", "tx *redis.Tx"), ("servers", "Update", "r.update", "tx *redis.Tx"),
       ("servers", "update", "r.save", "tx *redis.Tx"), ("servers", "Remove", "r.remove", "tx *redis.Tx"),
       ("servers", "updateExclusive", "op", "tx *redis.Tx"), ("redislock", "Guard", "op", "tx *redis.Tx")] := by
  decide

/-- **(3): the lock key is the key of the address the rows are written under.**  `updateExclusive` is the only caller of
`Guard`; the key it passes has the single definition `fmt.Sprintf(lockKeyFmt, svr.Addr.String())`, and
`svr.Addr.String()` is also the expression `save` and `remove` use as hash field / index member. -/
theorem facts_lock_key :
    Facts.lockGuardCalls =
      [("updateExclusive", "r.locker", "ctx context.Context, lockKey, r.lockOpts.LeaseDuration, func")] ∧
    Facts.lockKeyDefs = [("updateExclusive", "lockKey", "fmt.Sprintf(lockKeyFmt, svr.Addr.String())")] ∧
    Facts.lockKeyExpr = "svr.Addr.String()" ∧
    Facts.storeItemFieldDefs = [("remove", "svrAddr", "svr.Addr.String()"), ("save", "svrAddr", "svr.Addr.String()")] ∧
    (∀ d ∈ Facts.storeItemFieldDefs, d.2.2 = Facts.lockKeyExpr) := by
  decide

/-- **(4), (5): one `SET NX` with the lease as TTL; a fresh token per acquisition.**  The only `SetNX` of `redislock.go`
is `m.client.SetNX(ctx, key, token, ttl)` in `Guard`, with `key` and `ttl` the second and third parameters of `Guard`
(which `updateExclusive` fills with the lock key and `r.lockOpts.LeaseDuration` — `facts_lock_key`; the lease is
positive — `facts_ok`); no other call in the file can set, change or remove an expiry (`Expire`, `PExpire`, `Persist`,
`Set…`, …); the value is the local `token := uuid.NewString()` defined in `Guard`, and that is the only call into a
`uuid` / `rand` package in the file (not in `NewManager`). -/
theorem facts_lock_setnx :
    Facts.lockSetNX = [("Guard", "m.client", "ctx context.Context, key string, token, ttl time.Duration")] ∧
    Facts.lockGuardParams = ["ctx context.Context", "key string", "ttl time.Duration", "op func(tx *redis.Tx) error"] ∧
    Facts.lockExpireCalls = [] ∧
    Facts.lockTokenGen = [("Guard", "uuid.NewString()")] ∧
    Facts.lockTokenDefs = [("Guard", "token", "uuid.NewString()")] := by
  decide

end Swat4.C09

/-! # Additions (review round 2): a listing racing with a remove

"A listing … never fails because a server was removed in the meantime" held so far by type only (`hmgetItems` returns a
list; missing items are skipped), and no example had a remove *between* the reader's index read and its `HMGET`.
`listing_skips_removed_witness` is that run; `C09_listing_total` packages, for every schedule: the `Filter` call stays a
reader, has finished once it was scheduled twice, and whatever it finished with are committed versions. -/
namespace Swat4.C09
open Swat4 Std

namespace Example

def svrB : Server := { svr with addr := ⟨16909061, 10480⟩ }

/-- two `Add`s (addresses A = `svr`, B = `svrB`), a `Remove` of A carrying the stored version 1, and a `Filter` call
without criterion (everything), on the empty keyspace -/
def s2 : Sys :=
  { store := {}, clock := 0, nextTok := 3,
    clients := [.writer (Writer.start ⟨.add, svr, keep⟩ 0), .writer (Writer.start ⟨.add, svrB, keep⟩ 1),
                .writer (Writer.start ⟨.remove, { svr with version := 1 }, keep⟩ 2), .reader ⟨.index {}⟩] }

theorem clients2_cases {i : Nat} {w : Writer} (h : s2.clients[i]? = some (.writer w)) :
    (i = 0 ∧ w = Writer.start ⟨.add, svr, keep⟩ 0) ∨ (i = 1 ∧ w = Writer.start ⟨.add, svrB, keep⟩ 1) ∨
    (i = 2 ∧ w = Writer.start ⟨.remove, { svr with version := 1 }, keep⟩ 2) := by
  match i, h with
  | 0, h => left; simp [s2] at h; exact ⟨rfl, h.symm⟩
  | 1, h => right; left; simp [s2] at h; exact ⟨rfl, h.symm⟩
  | 2, h => right; right; simp [s2] at h; exact ⟨rfl, h.symm⟩
  | 3, h => simp [s2] at h
  | i + 4, h => simp [s2] at h

theorem init_s2 : Init s2 := by
  refine ⟨?_, ?_, ?_, ?_, ?_, ?_, ?_, rfl⟩
  · intro i w h
    rcases clients2_cases h with ⟨_, rfl⟩ | ⟨_, rfl⟩ | ⟨_, rfl⟩ <;> decide
  · intro i j wi wj hi hj ht
    rcases clients2_cases hi with ⟨rfl, rfl⟩ | ⟨rfl, rfl⟩ | ⟨rfl, rfl⟩ <;>
      rcases clients2_cases hj with ⟨rfl, rfl⟩ | ⟨rfl, rfl⟩ | ⟨rfl, rfl⟩ <;> first | rfl | cases ht
  · intro i w h
    rcases clients2_cases h with ⟨_, rfl⟩ | ⟨_, rfl⟩ | ⟨_, rfl⟩ <;> exact ⟨rfl, rfl⟩
  · intro i w h
    rcases clients2_cases h with ⟨_, rfl⟩ | ⟨_, rfl⟩ | ⟨_, rfl⟩ <;> exact AddrPreserving.keyPreserving keep_ap
  · intro k r h; simp [s2] at h
  · intro k t h; simp [s2, RStore.lastOf] at h
  · intro k c h; simp [s2] at h

/-- both `Add`s run to completion, then the reader's index pipeline -/
def listPre : List Ev := List.replicate 11 (.step 0) ++ List.replicate 11 (.step 1) ++ [.step 3]

/-- the `Remove` of A runs to completion while the reader sits between its index read and its `HMGET` -/
def listRemove : List Ev := List.replicate 11 (.step 2)

set_option maxRecDepth 200000 in
/-- **`listing_skips_removed_witness`** (clause "never fails because a server was removed in the meantime"): after both
`Add`s the reader's index read yields the keys of A and B and the reader stands at `HMGET [A, B]`; the `Remove` of A then
commits (A's record is gone, the log has three entries); the reader's `HMGET` finds nil for A, **skips it**, and the
call returns `[B]` at its committed version 1 — no error, no stale A. -/
theorem listing_skips_removed_witness :
    Init s2 ∧
    (s2.run listPre).clients[3]? = some (.reader ⟨.hmget [svr.addr.key, svrB.addr.key]⟩) ∧
    (s2.run (listPre ++ listRemove)).store.items[svr.addr.key]? = none ∧
    (s2.run (listPre ++ listRemove)).log.length = 3 ∧
    (s2.run (listPre ++ listRemove)).clients[3]? = some (.reader ⟨.hmget [svr.addr.key, svrB.addr.key]⟩) ∧
    (s2.run (listPre ++ listRemove ++ [.step 3])).clients[3]? = some (.reader ⟨.done [{ svrB with version := 1 }]⟩) :=
  ⟨init_s2, rfl, by decide, rfl, rfl, rfl⟩

end Example

/-- **A listing interleaved with writers is total and returns committed versions** (clauses "returns, for every server
it reports, a committed version of that server and never fails because a server was removed in the meantime").  From any
well-formed initial system in which client `i` is a `Filter` call about to start (`.index fs`), after **any** schedule
(any interleaving with writers — removes included —, lease expiries, ticks):
(a) client `i` is still a reader (it has no failure state to go to);
(b) if it was scheduled at least twice (`stepsOf i es ≥ 2`: index pipeline, `HMGET`) it has finished with some result;
(c) whenever it has finished, every record of its result is a committed version: the record an initial row held, or
    exactly the record saved by a logged commit (`Committed`; the log only grows — `Sys.run_log_prefix` — so a record
    that was committed at the instant of the `HMGET` stays committed). -/
theorem C09_listing_total {s0 : Sys} (h : Init s0) (i : Nat) (fs : FilterSet)
    (hc : s0.clients[i]? = some (.reader ⟨.index fs⟩)) (es : List Ev) :
    (∃ r', (s0.run es).clients[i]? = some (.reader r')) ∧
    (2 ≤ stepsOf i es → ∃ rs, (s0.run es).clients[i]? = some (.reader ⟨.done rs⟩)) ∧
    (∀ rs, (s0.run es).clients[i]? = some (.reader ⟨.done rs⟩) → ∀ r ∈ rs, Committed s0.store (s0.run es).log r) := by
  obtain ⟨r', h1, h2⟩ := reader_rank_run i s0 _ hc es
  refine ⟨⟨r', h1⟩, fun hn => ?_, ?_⟩
  · have : r'.rank = 0 := by
      have : (⟨.index fs⟩ : Reader).rank = 2 := rfl
      omega
    obtain ⟨rs, rfl⟩ := Reader.done_of_rank_zero this
    exact ⟨rs, h1⟩
  · have h0 : RInv s0.store s0 i := by
      intro rs hrs
      rw [hc] at hrs
      simp only [Option.some.injEq, Client.reader.injEq, Reader.mk.injEq] at hrs
      cases hrs
    exact rinv_run (Swat4.inv_init h) (loginv_init h) h0 es

/-- log-prefix monotonicity: the commit log after any schedule extends the log before it (nothing is ever unlogged) -/
theorem C09_log_prefix (s : Sys) (es : List Ev) : ∃ L, (s.run es).log = s.log ++ L := s.run_log_prefix es

set_option maxRecDepth 200000 in
/-- non-vacuity of `C09_listing_total` on the witness run: the reader (client 3 of `Example.s2`, at `.index {}`) was
scheduled twice, has finished with `[B@1]`, and that record is the one saved by a logged commit -/
example :
    stepsOf 3 (Example.listPre ++ Example.listRemove ++ [.step 3]) = 2 ∧
    Committed Example.s2.store (Example.s2.run (Example.listPre ++ Example.listRemove ++ [.step 3])).log
      { Example.svrB with version := 1 } := by
  refine ⟨by decide, ?_⟩
  exact (C09_listing_total Example.init_s2 3 {} rfl _).2.2 _ Example.listing_skips_removed_witness.2.2.2.2.2
    _ (List.mem_singleton.2 rfl)

end Swat4.C09


/-! # Additions (review round 3): `KeyPreserving` for the resolvers of all use cases

`facts_lock_key` compares the *spelling* `svr.Addr.String()` of the lock key and of the keys of the batch across different
`svr` bindings; what makes the lock of the caller's address protect the record the batch writes is that the conflict callback
returns a record **of the address it was given** — the hypothesis `KeyPreserving` (`Init.resAP`) of every theorem above,
which so far was discharged only for the witnesses' resolver `keep`.  Here it is proved for every registry write any of the
modelled use cases can issue. -/
namespace Swat4.C09
open Swat4 Swat4.UC Std

/-- **the conflict callbacks of all use cases return a record of the address they were given** (`AddrPreserving`) — for
every `Add` / `Update` / `Update`-with-clock / `Remove` call that the program tree of the use case can issue, whatever the
replies of the earlier calls: heartbeat report (`Add` with `reported`, port-discovery `Update`), keepalive, probe
success / retry / failure (`Update` with `handleSuccess` at the commit's clock value, `handleRetry`, `handleFailure`), REST
submission (create / discover), refresh, revival, instance cleanup, listing — from C13's walk `usecases_callbacks_stable`
("keeps address and version") — and removal (`fun s => some s`) and the two server cleaners (`cleanResolver`: refuse, or the
record as it is), whose `Remove` callbacks C13 does not look at. -/
theorem usecases_resolvers_addr_preserving :
    (∀ z m req, KeyPres.ProgAddrPreserving (UC.report z m req)) ∧
    (∀ i ip, KeyPres.ProgAddrPreserving (UC.renew i ip)) ∧
    (∀ prb outcome, KeyPres.ProgAddrPreserving (UC.probe prb outcome)) ∧
    (∀ z m a, KeyPres.ProgAddrPreserving (UC.addServer z m a)) ∧
    (∀ m d, KeyPres.ProgAddrPreserving (UC.refresh m d)) ∧
    (∀ m a b c d e f, KeyPres.ProgAddrPreserving (UC.revive m a b c d e f)) ∧
    (∀ ret, KeyPres.ProgAddrPreserving (cleanInstances ret)) ∧
    (∀ l st, KeyPres.ProgAddrPreserving (listServers l st)) ∧
    (∀ i a, KeyPres.ProgAddrPreserving (UC.remove i a)) ∧
    (∀ ret, KeyPres.ProgAddrPreserving (cleanServers ret)) ∧
    (∀ ret, KeyPres.ProgAddrPreserving (cleanServers2 ret)) :=
  ⟨fun z m req => KeyPres.of_progStable (VerMono.report_stable z m req),
   fun i ip => KeyPres.of_progStable (VerMono.renew_stable i ip),
   fun prb o => KeyPres.of_progStable (VerMono.probe_stable prb o),
   fun z m a => KeyPres.of_progStable (VerMono.addServer_stable z m a),
   fun m d => KeyPres.of_progStable (VerMono.refresh_stable m d),
   fun m a b c d e f => KeyPres.of_progStable (VerMono.revive_stable m a b c d e f),
   fun ret => KeyPres.of_progStable (VerMono.cleanInstances_stable ret),
   fun l st => KeyPres.of_progStable (VerMono.listServers_stable l st),
   KeyPres.remove_addr, KeyPres.cleanServers_addr, KeyPres.cleanServers2_addr⟩

/-- **`usecases_resolvers_key_preserving`** — the hypothesis `KeyPreserving` of the C09 theorems holds for the registry
write (`KeyPres.wop?`: kind, caller's record, callback — at any clock value for a clock-reading callback) of **every** call
of **every** use case as modelled: report, keepalive (renew), probe (success / retry / failure), REST submission (create /
discover), refresh, revival, instance cleanup, listing, removal, and both server cleaners. -/
theorem usecases_resolvers_key_preserving :
    (∀ z m req, KeyPres.ProgKeyPreserving (UC.report z m req)) ∧
    (∀ i ip, KeyPres.ProgKeyPreserving (UC.renew i ip)) ∧
    (∀ prb outcome, KeyPres.ProgKeyPreserving (UC.probe prb outcome)) ∧
    (∀ z m a, KeyPres.ProgKeyPreserving (UC.addServer z m a)) ∧
    (∀ m d, KeyPres.ProgKeyPreserving (UC.refresh m d)) ∧
    (∀ m a b c d e f, KeyPres.ProgKeyPreserving (UC.revive m a b c d e f)) ∧
    (∀ ret, KeyPres.ProgKeyPreserving (cleanInstances ret)) ∧
    (∀ l st, KeyPres.ProgKeyPreserving (listServers l st)) ∧
    (∀ i a, KeyPres.ProgKeyPreserving (UC.remove i a)) ∧
    (∀ ret, KeyPres.ProgKeyPreserving (cleanServers ret)) ∧
    (∀ ret, KeyPres.ProgKeyPreserving (cleanServers2 ret)) := by
  obtain ⟨h1, h2, h3, h4, h5, h6, h7, h8, h9, h10, h11⟩ := usecases_resolvers_addr_preserving
  exact ⟨fun z m req => (h1 z m req).key, fun i ip => (h2 i ip).key, fun p o => (h3 p o).key, fun z m a => (h4 z m a).key,
    fun m d => (h5 m d).key, fun m a b c d e f => (h6 m a b c d e f).key, fun r => (h7 r).key, fun l st => (h8 l st).key,
    fun i a => (h9 i a).key, fun r => (h10 r).key, fun r => (h11 r).key⟩

/-- … which is `Init.resAP`: a system whose writer clients each perform the registry write of a key-preserving call (every
call of every use case is one) satisfies the resolver clause of `Init` -/
theorem resAP_of_calls (s : Sys)
    (h : ∀ (i : Nat) (w : Writer), s.clients[i]? = some (.writer w) →
      ∃ (β : Type) (c : Call β) (t : Int), KeyPres.CallKeyPreserving c ∧ KeyPres.wop? c t = some w.op) :
    ∀ (i : Nat) (w : Writer), s.clients[i]? = some (.writer w) → KeyPreserving w.op := by
  intro i w hc
  obtain ⟨β, c, t, hk, hop⟩ := h i w hc
  exact hk t w.op hop

/-- the first call of a program that satisfies `ProgKeyPreserving` is key-preserving, and so is everything after any reply -/
theorem progKeyPreserving_call {α β : Type} (c : Call β) (k : β → Prog α) (h : KeyPres.ProgKeyPreserving (.call c k)) :
    KeyPres.CallKeyPreserving c ∧ ∀ b, KeyPres.ProgKeyPreserving (k b) := by
  cases h with
  | call _ _ hc hk => exact ⟨hc, hk⟩

/-- non-vacuity: the removal use case does reach its `Remove` (record found, instance found, same IP), and that call's write
is the `WOp` `⟨remove, svr, fun s => some s⟩`, which is key-preserving by the theorem -/
example (svr : Server) : KeyPreserving ⟨.remove, svr, fun s => some s⟩ :=
  (KeyPres.CallAddrPreserving.key (c := Call.removeServer svr fun s => some s) KeyPres.idResolver_addr) 0 _ rfl

/-- the predicate is not vacuous: a callback that answers with a record of another address is not key-preserving -/
example : ¬ KeyPreserving ⟨.update, Example.svr, fun _ => some Example.svrB⟩ :=
  KeyPres.not_keyPreserving_witness _ _ (by simp [Example.svr, Example.svrB, Addr.key])

end Swat4.C09
