import Swat4.Lemmas.FactsExtra16
import Swat4.Model.USys
import Swat4.Lemmas.Prog
import Swat4.Lemmas.Backed
import Swat4.Lemmas.BackedSys
import Swat4.Lemmas.BackedStrict
import Swat4.Lemmas.MarkKept
import Swat4.Lemmas.BackedPop
import Swat4.Drv.UCRun
/-!
# C16 — No crash leaves a server waiting forever for a probe that does not exist

`Backed` (`Lemmas/Backed.lean`): every retry mark has a queued probe of that goal.  The use cases that set a mark
(`UC.report` → `maybeDiscoverPort`, `UC.addServer` → `discoverServer`, `UC.probeRetry`) enqueue first
and mark second; a mark is cleared only by a probe outcome.

A client death or a storage fault inside a repository call means, at the level of the use-case programs: the
program stops before one of its calls or after it, or the call returns the storage error with or without having
taken effect and the program continues on its error branch.  `Prog.runChoices cs p s now` is such a run: every
prefix of every behaviour of `p`, with any mix of faults, is `runChoices cs` for some `cs`.  The theorems below
say that `Backed` holds after **every** such run of every use case that writes the registry or the queue, except
for the one mark whose probe the running prober itself holds (`BackedExcept`) — and that this exception is real
(`C16_holder_counterexample`, the known finding).
-/
namespace Swat4.C16
open Swat4 Swat4.UC Std

/-- enqueueing never breaks backing -/
theorem backed_enqueue (s : AbsState) (now : Int) (p : Probe) (after before : GoTime) (h : Backed s) :
    Backed (s.enqueue now p after before) := by
  intro k row g hrow hmark
  rw [enqueue_servers] at hrow
  obtain ⟨q, hq, hqa⟩ := h k row g hrow hmark
  exact ⟨q, enqueue_queue_mono s now p after before q hq, hqa⟩

/-- a report or a keepalive never adds a retry mark -/
theorem reported_adds_no_mark : ∀ (w : Status) (g : Goal),
    Status.has (Status.update w (Status.master ||| Status.info)) (retryMark g) = true → Status.has w (retryMark g) = true := by
  intro w g; cases g <;> revert w <;> decide

/-- a retry mark is cleared only by an outcome of a probe of that goal: success and final failure clear it,
nothing else in the model removes a bit except `new` -/
theorem outcomes_clear_mark : ∀ (w : Status),
    Status.has (successStatus .details w) Status.detailsRetry = false ∧
    Status.has (failureStatus .details w) Status.detailsRetry = false ∧
    Status.has (successStatus .port w) Status.portRetry = false ∧
    Status.has (failureStatus .port w) Status.portRetry = false := by
  decide

/-- the filter set `refreshservers.Execute` queries with (`refreshservers.go:62`:
`WithStatus(ds.Port).NoStatus(ds.DetailsRetry)`) -/
def refreshFS : FilterSet := { withStatus := Status.port, noStatus := Status.detailsRetry }

/-- the filter set `reviveservers.Execute` queries with (`reviveservers.go:76-80`:
`ActiveAfter(minScope).ActiveBefore(maxScope).NoStatus(ds.Port | ds.PortRetry)`) -/
def reviveFS (minScope maxScope : Int) : FilterSet :=
  { activeAfter := some minScope, activeBefore := some maxScope, noStatus := Status.port ||| Status.portRetry }

/-- these are the filter sets the modelled use cases issue: the first call of `UC.refresh` / `UC.revive` is the
filtered query with exactly them, and the probes are made from its reply only -/
theorem usecases_filter_sets (m d lo hi minC maxC : Int) (draws : Nat → Int) :
    (UC.refresh m d = .call (.filterServers refreshFS) fun r =>
      match r with
      | .error e => pure (.error (.repo e))
      | .ok svrs => (enqueueAll (fun s => (⟨s.addr, s.queryPort, .details, 0, m⟩, none, some d)) svrs 0).bind fun n => pure (.ok n)) ∧
    (UC.revive m lo hi minC maxC d draws = .call (.filterServers (reviveFS lo hi)) fun r =>
      match r with
      | .error e => pure (.error (.repo e))
      | .ok svrs => (enqueueAll (fun s => (⟨s.addr, s.addr.port, .port, 0, m⟩,
          some (selectCountdown minC maxC (draws s.addr.key)), some d)) svrs 0).bind fun n => pure (.ok n)) :=
  ⟨rfl, rfl⟩

/-- a status word with the details-retry bit fails refresh's `noStatus`; one with the port-retry bit fails revival's -/
theorem mark_fails_noStatus : ∀ (w : Status),
    (Status.has w Status.detailsRetry = true → Status.hasAny w refreshFS.noStatus = true) ∧
    (Status.has w Status.portRetry = true → Status.hasAny w (Status.port ||| Status.portRetry) = true) := by
  decide

/-- **servers carrying a retry mark are skipped by refresh, revival, re-submission and re-report** — stated on the filter
sets and branches the use cases actually use (`usecases_filter_sets`):
 1. a row carrying `details_retry` does not satisfy refresh's filter (`refreshservers.go:62`), so no server in the reply of
    refresh's query carries it;
 2. a row carrying `port_retry` does not satisfy revival's filter, whatever the scope window (`reviveservers.go:76-80`);
 3. `addserver.maybeDiscoverServer` for a stored record carrying either mark returns at once — `ServerHasDetails` (when it
    also has details) or `ErrServerDiscoveryInProgress` — without any repository call (`addserver.go:116-126`);
 4. `reportserver.maybeDiscoverPort` for a record carrying `port_retry` returns at once (`reportserver.go:160`). -/
theorem marked_are_skipped :
    (∀ (row : SRow), Status.has row.svr.status Status.detailsRetry = true → refreshFS.pred row = false) ∧
    (∀ (s : AbsState) (sv : Server), sv ∈ s.filter refreshFS → Status.has sv.status Status.detailsRetry = false) ∧
    (∀ (lo hi : Int) (row : SRow), Status.has row.svr.status Status.portRetry = true → (reviveFS lo hi).pred row = false) ∧
    (∀ (s : AbsState) (lo hi : Int) (sv : Server), sv ∈ s.filter (reviveFS lo hi) → Status.has sv.status Status.portRetry = false) ∧
    (∀ (m : Int) (svr : Server), Status.hasAny svr.status (Status.portRetry ||| Status.detailsRetry) = true →
      maybeDiscoverServer m svr = pure (.hasDetails svr) ∨ maybeDiscoverServer m svr = pure .inProgress) ∧
    (∀ (m : Int) (svr : Server), Status.has svr.status Status.portRetry = true → maybeDiscoverPort m svr = pure ()) := by
  have h1 : ∀ (row : SRow), Status.has row.svr.status Status.detailsRetry = true → refreshFS.pred row = false := by
    intro row h
    have := (mark_fails_noStatus row.svr.status).1 h
    simp [FilterSet.pred, this]
  have h3 : ∀ (lo hi : Int) (row : SRow), Status.has row.svr.status Status.portRetry = true → (reviveFS lo hi).pred row = false := by
    intro lo hi row h
    have := (mark_fails_noStatus row.svr.status).2 h
    simp [FilterSet.pred, reviveFS, this]
  have sel : ∀ (s : AbsState) (fs : FilterSet) (sv : Server), sv ∈ s.filter fs → ∃ row : SRow, row.svr = sv ∧ fs.pred row = true := by
    intro s fs sv hsv
    unfold AbsState.filter at hsv
    simp only [List.mem_map, List.mem_filter] at hsv
    obtain ⟨kv, ⟨_, hp⟩, rfl⟩ := hsv
    exact ⟨kv.2, rfl, hp⟩
  refine ⟨h1, ?_, h3, ?_, ?_, ?_⟩
  · intro s sv hsv
    obtain ⟨row, rfl, hp⟩ := sel s _ sv hsv
    cases hm : Status.has row.svr.status Status.detailsRetry with
    | false => rfl
    | true => rw [h1 row hm] at hp; cases hp
  · intro s lo hi sv hsv
    obtain ⟨row, rfl, hp⟩ := sel s _ sv hsv
    cases hm : Status.has row.svr.status Status.portRetry with
    | false => rfl
    | true => rw [h3 lo hi row hm] at hp; cases hp
  · intro m svr h
    unfold maybeDiscoverServer
    by_cases hd : Status.has svr.status Status.details = true
    · exact Or.inl (by rw [if_pos hd])
    · exact Or.inr (by rw [if_neg hd, if_pos h])
  · intro m svr h
    have : Status.hasNone svr.status (Status.port ||| Status.portRetry) = false := by
      revert h; generalize svr.status = w; revert w; decide
    unfold maybeDiscoverPort
    simp [this]

/-- **re-submission of a marked server touches nothing**: when the record stored under the submitted address carries a retry
mark, `addserver.Execute` leaves registry, instance table and queue exactly as they were — run to completion, stopped
anywhere, or with its lookup failing — in particular it enqueues no second probe and cannot clear the mark -/
theorem addServer_marked_noop (z : Fields) (m : Int) (a : Addr) (s : AbsState) (now : Int) (row : SRow)
    (hrow : s.getRow a = some row)
    (hmark : Status.hasAny row.svr.status (Status.portRetry ||| Status.detailsRetry) = true) :
    ((UC.addServer z m a).run s now).1 = s ∧ ∀ cs, (UC.addServer z m a).runChoices cs s now = s := by
  have hget : s.get a = .ok row.svr := by unfold AbsState.get; rw [hrow]
  have hk := marked_are_skipped.2.2.2.2.1 m row.svr hmark
  constructor
  · simp only [UC.addServer, Prog.run_call, Call.exec, hget]
    rcases hk with hk | hk <;> rw [hk] <;> rfl
  · intro cs
    cases cs with
    | nil => rfl
    | cons c cs =>
      cases c
      · simp only [UC.addServer, Prog.runChoices, Call.exec, hget]
        rcases hk with hk | hk <;> rw [hk] <;> cases cs <;> rfl
      · simp only [UC.addServer, Prog.runChoices, Call.faultReply]
        cases cs <;> rfl
      · simp only [UC.addServer, Prog.runChoices, Call.faultReply, Call.exec]
        cases cs <;> rfl

/-- non-vacuity: `W.state` stores A with the port-retry mark: revival does not select it, re-submission is a no-op -/
example : W.state.filter (reviveFS (-100) 100) = [] ∧ ((UC.addServer [] 2 W.A).run W.state 5).1.queue = [] := by
  refine ⟨by decide, ?_⟩
  have h := (addServer_marked_noop [] 2 W.A W.state 5 ⟨W.svr, 0⟩ (by decide) (by decide)).1
  rw [h]; rfl

/-- discovery marks only what it has just queued: after `maybeDiscoverPort` ran alone (no fault), the server is
backed if the registry was — the enqueue precedes the mark -/
theorem discover_order (maxRetries : Int) (svr : Server) (h : Status.hasNone svr.status (Status.port ||| Status.portRetry) = true) :
    ∃ k, maybeDiscoverPort maxRetries svr =
      .call (.enqueue ⟨svr.addr, svr.addr.port, .port, 0, maxRetries⟩ none none) k := by
  unfold maybeDiscoverPort
  simp [h]

/-- REST submission likewise: the first storage write of `discoverServer` is the enqueue (the repaired order) -/
theorem submission_order (maxRetries : Int) (svr : Server) :
    ∃ k, discoverServer maxRetries svr = .call (.enqueue ⟨svr.addr, svr.addr.port, .port, 0, maxRetries⟩ none none) k :=
  ⟨_, rfl⟩

/-- the probe retry path: the re-queue precedes the mark (see also C13 `retry_requeue`) -/
theorem retry_order (prb : Probe) (svr : Server) (h : prb.retries < prb.maxRetries) :
    ∃ k : Int → Except RErr Unit → Prog ProbeEnd, probeRetry prb svr = .call .now fun now =>
      .call (.enqueue { prb with retries := prb.retries + 1 } (some (now + second * expFloor (prb.retries + 1))) none) (k now) := by
  unfold probeRetry Probe.incRetries
  have : ¬ prb.retries ≥ prb.maxRetries := by omega
  simp only [this, if_false, Bool.not_true, Bool.false_eq_true]
  exact ⟨_, rfl⟩


/-- **`runChoices` is the model's own small-step semantics**: one choice is one `Prog.step1` (the call succeeds)
or one `Prog.stepFault` (it fails, without / with effect) of the interleaving model `USys`; an exhausted list is
a client that died at that call boundary.  So the theorems below quantify over exactly the crash and fault
placements the correspondence run injects. -/
theorem runChoices_steps {α : Type} (p : Prog α) (s : AbsState) (now : Int) (cs : List Choice) :
    p.runChoices [] s now = s ∧
    p.runChoices (.ok :: cs) s now = (p.step1 s now).2.runChoices cs (p.step1 s now).1 now ∧
    p.runChoices (.faultNoEffect :: cs) s now = (p.stepFault false s now).2.runChoices cs (p.stepFault false s now).1 now ∧
    p.runChoices (.faultEffect :: cs) s now = (p.stepFault true s now).2.runChoices cs (p.stepFault true s now).1 now := by
  cases p with
  | ret a => refine ⟨rfl, ?_, ?_, ?_⟩ <;> (cases cs <;> rfl)
  | call c k =>
    refine ⟨rfl, rfl, ?_, ?_⟩
    · simp only [Prog.runChoices, Prog.stepFault]
      cases c.faultReply <;> rfl
    · simp only [Prog.runChoices, Prog.stepFault]
      cases c.faultReply <;> rfl

/-! ## every crash point, every fault placement -/

/-- **heartbeat-triggered discovery.**  From a backed, keyed store, `reportserver.Execute` leaves every retry mark
backed wherever it stops (`cs` exhausted = the reporter died at that call boundary) and whichever of its calls
fail, before or after taking effect. -/
theorem report_backed (cs : List Choice) (zeroInfo : Fields) (maxRetries : Int) (req : ReportReq) (now : Int) (s : AbsState)
    (hb : Backed s) (hk : Keyed s) : Backed (Prog.runChoices cs (UC.report zeroInfo maxRetries req) s now) :=
  ((report_good (fun _ => True) zeroInfo maxRetries req trivial).backed cs s now hb hk).1

/-- **REST submission** (`addserver.Execute`, after the repair: enqueue first, mark second): the same. -/
theorem addServer_backed (cs : List Choice) (zeroInfo : Fields) (maxRetries : Int) (a : Addr) (now : Int) (s : AbsState)
    (hb : Backed s) (hk : Keyed s) : Backed (Prog.runChoices cs (UC.addServer zeroInfo maxRetries a) s now) :=
  ((addServer_good (fun _ => True) zeroInfo maxRetries a trivial).backed cs s now hb hk).1

/-- **the prober, every outcome, every crash point, every fault placement.**  The prober holds the popped probe
`prb`, so the store is backed except possibly for the mark `(prb.addr, prb.goal)`.  Whatever the outcome (success,
retry with budget left, final failure) and wherever `probeserver.Execute` stops or fails, no *other* mark loses its
backing.  `hcanon`: the record stored under the probe's key carries the probe's address (probes are made from
stored records; without it the model's `Addr.key`, which is not injective on out-of-range ports, would let the
retry mark land on a record with another address). -/
theorem probe_backed (cs : List Choice) (prb : Probe) (outcome : Option ProbeResult) (now : Int) (s : AbsState)
    (hb : BackedExcept s prb.addr prb.goal) (hk : Keyed s)
    (hcanon : ∀ (row : SRow), s.servers[prb.addr.key]? = some row → row.svr.addr = prb.addr) :
    BackedExcept (Prog.runChoices cs (UC.probe prb outcome) s now) prb.addr prb.goal :=
  ((probe_good (fun _ => True) prb outcome (E := fun _ _ => False) (R := fun x => x = prb.addr) rfl).backedExcept
    cs s now hb hk hcanon).1

/-- the retry path on its own (`probeserver.retry`, entered with the record the lookup returned: it lives under
the probe's key): the same, at every crash point and fault placement — the re-queue precedes the mark. -/
theorem probeRetry_backed (cs : List Choice) (prb : Probe) (svr : Server) (t : Int) (now : Int) (s : AbsState)
    (hb : BackedExcept s prb.addr prb.goal) (hk : Keyed s)
    (hrow : s.servers[prb.addr.key]? = some ⟨svr, t⟩) (hcanon : svr.addr = prb.addr) :
    BackedExcept (Prog.runChoices cs (UC.probeRetry prb svr) s now) prb.addr prb.goal := by
  refine ((probeRetry_good (fun _ => True) prb svr (E := fun a g => a = svr.addr ∧ Marked svr g) (R := fun x => x = prb.addr)
    hcanon rfl (by rw [hcanon]) (fun g hg => ⟨rfl, hg⟩)).runChoices_kinv (X := fun a' g' => a' = prb.addr ∧ g' = prb.goal)
    cs s now ⟨hb, hk, ?_, ?_, fun _ _ _ => trivial, fun _ _ => trivial⟩).1
  · rintro a g ⟨rfl, hm⟩
    exact hb _ _ g hrow hm
  · intro x hx row hr
    subst hx
    rw [hrow] at hr; cases hr; exact hcanon

/-- **the holder ran to completion without a fault**: the store is fully `Backed` again, whatever the outcome —
success and final failure clear the mark of the probe's goal, a retry is backed by the re-queued probe.  Together
with `probe_backed` this makes the known finding precise: the only way the mark `(prb.addr, prb.goal)` is left
unbacked is that its holder stopped early or took an error branch. -/
theorem probe_complete_backed (prb : Probe) (outcome : Option ProbeResult) (now : Int) (s : AbsState)
    (hb : BackedExcept s prb.addr prb.goal) (hk : Keyed s)
    (hcanon : ∀ (row : SRow), s.servers[prb.addr.key]? = some row → row.svr.addr = prb.addr) :
    Backed ((UC.probe prb outcome).run s now).1 ∧
    ∀ n, 4 ≤ n → Backed (Prog.runChoices (List.replicate n Choice.ok) (UC.probe prb outcome) s now) := by
  have h := probe_run_backed prb outcome s now hb hk hcanon
  refine ⟨h, fun n hn => ?_⟩
  rw [runChoices_all_ok _ _ _ _ (Nat.le_trans (probe_runSteps_le prb outcome s now) hn)]
  exact h

/-- a fault-free choice list that covers the whole run is the sequential run (`Prog.run`) -/
theorem runChoices_ok_eq_run {α : Type} (p : Prog α) (s : AbsState) (now : Int) (n : Nat) (hn : p.runSteps s now ≤ n) :
    p.runChoices (List.replicate n Choice.ok) s now = (p.run s now).1 :=
  runChoices_all_ok p s now n hn

/-- **refresh and revival** only enqueue: `Backed` is preserved at every crash point, under every fault placement. -/
theorem refresh_revive_backed (cs : List Choice) (now : Int) (s : AbsState) (hb : Backed s) (hk : Keyed s) :
    (∀ (maxRetries deadline : Int), Backed (Prog.runChoices cs (UC.refresh maxRetries deadline) s now)) ∧
    (∀ (maxRetries minScope maxScope minCountdown maxCountdown deadline : Int) (draws : Nat → Int),
      Backed (Prog.runChoices cs (UC.revive maxRetries minScope maxScope minCountdown maxCountdown deadline draws) s now)) :=
  ⟨fun maxRetries deadline => ((refresh_good (fun _ => True) maxRetries deadline).backed cs s now hb hk).1,
   fun maxRetries minScope maxScope minCountdown maxCountdown deadline draws =>
    ((revive_good (fun _ => True) maxRetries minScope maxScope minCountdown maxCountdown deadline draws).backed cs s now hb hk).1⟩

/-- **keepalive and removal**: a keepalive rewrites the refresh time only (status untouched), a removed server has
no marks: `Backed` is preserved at every crash point, under every fault placement. -/
theorem renew_remove_backed (cs : List Choice) (now : Int) (s : AbsState) (hb : Backed s) (hk : Keyed s) :
    (∀ (instanceId srcIp : Nat), Backed (Prog.runChoices cs (UC.renew instanceId srcIp) s now)) ∧
    (∀ (instanceId : Nat) (a : Addr), Backed (Prog.runChoices cs (UC.remove instanceId a) s now)) :=
  ⟨fun instanceId srcIp => ((renew_good (fun _ => True) instanceId srcIp).backed cs s now hb hk).1,
   fun instanceId a => ((remove_good (fun _ => True) instanceId a).backed cs s now hb hk).1⟩

/-- **`Keyed` is an invariant** of all these runs (every row stays under its own address key), so the theorems
above compose along any sequence of use-case executions, each with its own crash point and faults. -/
theorem keyed_preserved (cs : List Choice) (now : Int) (s : AbsState) (hk : Keyed s) :
    (∀ zeroInfo maxRetries req, Keyed (Prog.runChoices cs (UC.report zeroInfo maxRetries req) s now)) ∧
    (∀ zeroInfo maxRetries a, Keyed (Prog.runChoices cs (UC.addServer zeroInfo maxRetries a) s now)) ∧
    (∀ prb outcome, (∀ (row : SRow), s.servers[prb.addr.key]? = some row → row.svr.addr = prb.addr) →
      Keyed (Prog.runChoices cs (UC.probe prb outcome) s now)) ∧
    (∀ maxRetries deadline, Keyed (Prog.runChoices cs (UC.refresh maxRetries deadline) s now)) ∧
    (∀ maxRetries minScope maxScope minCountdown maxCountdown deadline draws,
      Keyed (Prog.runChoices cs (UC.revive maxRetries minScope maxScope minCountdown maxCountdown deadline draws) s now)) ∧
    (∀ instanceId srcIp, Keyed (Prog.runChoices cs (UC.renew instanceId srcIp) s now)) ∧
    (∀ instanceId a, Keyed (Prog.runChoices cs (UC.remove instanceId a) s now)) := by
  -- `Keyed` does not depend on the queue: run the framework with everything excepted
  have key : ∀ {α : Type} {p : Prog α} {R : Addr → Prop}, Good (fun _ => True) (fun _ _ => False) R p →
      (∀ a, R a → ∀ (row : SRow), s.servers[a.key]? = some row → row.svr.addr = a) → Keyed (p.runChoices cs s now) :=
    fun hp hR => (hp.runChoices_kinv (X := fun _ _ => True) cs s now
      ⟨fun _ _ _ _ _ => Or.inl trivial, hk, fun _ _ hf => hf.elim, hR, fun _ _ _ => trivial, fun _ _ => trivial⟩).2
  refine ⟨fun z m r => key (report_good _ z m r trivial) (fun _ hf => hf.elim),
    fun z m a => key (addServer_good _ z m a trivial) (fun _ hf => hf.elim),
    fun prb outcome hc => key (probe_good _ prb outcome (R := fun x => x = prb.addr) rfl) (fun a ha row hr => by subst ha; exact hc row hr),
    fun m d => key (refresh_good _ m d (R := fun _ => False)) (fun _ hf => hf.elim),
    fun m a b c d e f => key (revive_good _ m a b c d e f (R := fun _ => False)) (fun _ hf => hf.elim),
    fun i sip => key (renew_good _ i sip (R := fun _ => False)) (fun _ hf => hf.elim),
    fun i a => key (remove_good _ i a (R := fun _ => False)) (fun _ hf => hf.elim)⟩

/-- the executable oracle decides `Backed` -/
theorem backedB_correct (s : AbsState) : backedB s = true ↔ Backed s := backedB_iff s

/-- **the known finding, proved** (holder loss).  `W.state`: server A carries `port_retry`, the queue is empty — the
only port probe for A has been popped and is held by the prober; everything else is in order (`BackedExcept`,
`Keyed`).  If the holder `UC.probe ⟨A, …, port, 0, 2⟩ none` (a failed probe with retry budget) stops before its
first call, after the lookup, or after the clock read, or if its lookup or its re-enqueue fails without effect,
the mark is left with no probe: `Backed` is false.  Run to completion — or even when the re-enqueue took
effect and only its reply was lost — it re-queues the probe and the state is `Backed`. -/
theorem C16_holder_counterexample :
    BackedExcept W.state W.A .port ∧ Keyed W.state ∧ W.state.queue = [] ∧
    ¬ Backed (Prog.runChoices [] (UC.probe W.probe none) W.state 5) ∧
    ¬ Backed (Prog.runChoices [.ok] (UC.probe W.probe none) W.state 5) ∧
    ¬ Backed (Prog.runChoices [.ok, .ok] (UC.probe W.probe none) W.state 5) ∧
    ¬ Backed (Prog.runChoices [.faultNoEffect] (UC.probe W.probe none) W.state 5) ∧
    ¬ Backed (Prog.runChoices [.ok, .ok, .faultNoEffect] (UC.probe W.probe none) W.state 5) ∧
    Backed (Prog.runChoices [.ok, .ok, .faultEffect] (UC.probe W.probe none) W.state 5) ∧
    Backed (Prog.runChoices [.ok, .ok, .ok] (UC.probe W.probe none) W.state 5) ∧
    Backed (Prog.runChoices [.ok, .ok, .ok, .ok] (UC.probe W.probe none) W.state 5) := by
  refine ⟨W.state_backedExcept, W.state_keyed, rfl, ?_, ?_, ?_, ?_, ?_, ?_, ?_, ?_⟩ <;>
    first
    | (rw [← backedB_iff, Bool.not_eq_true]; decide)
    | (rw [← backedB_iff]; decide)

/-- the positive counterpart through the general theorem: the witness satisfies the hypotheses of
`probe_complete_backed` (they are not vacuous) and the completed run is `Backed` for every outcome -/
theorem C16_holder_completes (outcome : Option ProbeResult) (now : Int) :
    Backed ((UC.probe W.probe outcome).run W.state now).1 :=
  (probe_complete_backed W.probe outcome now W.state W.state_backedExcept W.state_keyed W.state_canon).1


/-! ## interleaved -/

/-- **C16 for every system without a popper.**  Clients are any programs of the reporter (heartbeat, keepalive,
removal), the REST submission, the refresher, the reviver, the cleaners and the listing (`Client`: the use cases
above, possibly after a clock read and followed by a rendering of the result), with valid addresses; the store
starts backed, with every row under its own key and valid (`KeyedOk`).  Then after **any** event list — clients
taking turns call by call, dying before or after their pending call took effect, calls failing with or without
effect, clock ticks — every retry mark has a queued probe.  The proof rests on the monotonicity fact stated as the
third conjunct: in such a system the queue only grows, so whatever a client enqueued before marking is still
queued when its mark commits, however long the others ran in between.  (With a popper in the system this is
false: `C16_holder_counterexample`, and the consumed-before-mark finding of the correspondence run.) -/
theorem C16_interleaved (u : USys) (es : List UEv) (hb : Backed u.abs) (hk : KeyedOk u.abs)
    (hc : ∀ c ∈ u.clients, Client c.prog) :
    Backed (u.run es).abs ∧ KeyedOk (u.run es).abs ∧ ∀ q ∈ u.abs.queue, q ∈ (u.run es).abs.queue :=
  sys_backed u es hb hk hc

/-- non-vacuity: the empty store is backed and well keyed; the system model's reporter / submission clients are `Client`s -/
example : Backed {} ∧ KeyedOk {} := ⟨fun k row g h => by simp at h, fun k row h => by simp at h⟩
example (z : Fields) (m : Int) (req : ReportReq) (h : req.addr.PortOk) :
    Client ((UC.report z m req).bind fun r => pure (match r with | .ok _ => "ok" | .error _ => "err")) :=
  Client.map _ _ (Client.report z m req h)
example (m iv : Int) : Client (Prog.call Call.now fun now => (UC.refresh m (now + iv)).bind fun r => pure (match r with | .ok _ => "ok" | .error _ => "err")) :=
  Client.now _ (fun _ => Client.map _ _ (Client.refresh _ _))


/-! ## expiry taken into account: `BackedStrict`

`Backed` accepts any queued probe of the right address and goal as backing, also one with an `expires` time — which
`PopMany` drops silently once the time has passed (`AbsState.popManyLoop`: `fresh := batch.filter (!·.expired now)`).
`Strict.BackedStrict` demands a backing probe with `expires = none`.  Which enqueues carry an expiry: the refresher and
the reviver pass `before = some deadline` (`usecases_filter_sets`) and set no mark; the three places that set a mark
enqueue with no expiry (`discover_order`, `submission_order`: `none none`; `retry_order`: `(some ready) none`).  Hence
every theorem above holds for `BackedStrict` as well: the `*_backed_strict` theorems below (proofs: the same
development with `InQS` / `learnES`, `Lemmas/BackedStrict.lean`). -/

open Strict in
/-- `BackedStrict` is the stronger invariant -/
theorem backedStrict_backed (s : AbsState) (h : BackedStrict s) : Backed s := h.backed

open Strict in
/-- **the difference is real**: `Strict.W.expiring` — A carries `details_retry`, the only queued details probe for A is
a refresh probe expiring at 10 — is `Backed` but not `BackedStrict`; a `PopMany` at clock 20 delivers nothing (the probe
is dropped as expired, counted), the queue is empty and the mark is an orphan that no client holds.  From a
`BackedStrict` state this cannot happen to a mark whose backing has not been popped (`pop_strict_held`). -/
theorem expiring_backing_orphaned :
    Backed Strict.W.expiring ∧ ¬ BackedStrict Strict.W.expiring ∧
    (Strict.W.expiring.popMany 20 5).2 = ([], 1) ∧ (Strict.W.expiring.popMany 20 5).1.queue = [] ∧
    ¬ Backed (Strict.W.expiring.popMany 20 5).1 := by
  refine ⟨?_, ?_, by decide, by decide, ?_⟩
  · rw [← backedB_iff]; decide
  · rw [← backedStrictB_iff, Bool.not_eq_true]; decide
  · rw [← backedB_iff, Bool.not_eq_true]; decide

open Strict in
/-- **heartbeat-triggered discovery, strict**: `report_backed` for `BackedStrict` — every crash point, every fault
placement; the discovery probe is enqueued with no expiry before the mark is written -/
theorem report_backed_strict (cs : List Choice) (zeroInfo : Fields) (maxRetries : Int) (req : ReportReq) (now : Int) (s : AbsState)
    (hb : BackedStrict s) (hk : Keyed s) : BackedStrict (Prog.runChoices cs (UC.report zeroInfo maxRetries req) s now) :=
  ((Strict.report_good (fun _ => True) zeroInfo maxRetries req trivial).backed cs s now hb hk).1

open Strict in
/-- **REST submission, strict**: `addServer_backed` for `BackedStrict` -/
theorem addServer_backed_strict (cs : List Choice) (zeroInfo : Fields) (maxRetries : Int) (a : Addr) (now : Int) (s : AbsState)
    (hb : BackedStrict s) (hk : Keyed s) : BackedStrict (Prog.runChoices cs (UC.addServer zeroInfo maxRetries a) s now) :=
  ((Strict.addServer_good (fun _ => True) zeroInfo maxRetries a trivial).backed cs s now hb hk).1

open Strict in
/-- **the prober, strict**: `probe_backed` for `BackedStrict` — whatever the probe the prober holds (also a refresh or
revival probe that carried an expiry), whatever the outcome, crash point and fault placement, no *other* mark loses its
non-expiring backing; the retry path re-queues with no expiry (`retry_order`) before marking -/
theorem probe_backed_strict (cs : List Choice) (prb : Probe) (outcome : Option ProbeResult) (now : Int) (s : AbsState)
    (hb : BackedExceptS s prb.addr prb.goal) (hk : Keyed s)
    (hcanon : ∀ (row : SRow), s.servers[prb.addr.key]? = some row → row.svr.addr = prb.addr) :
    BackedExceptS (Prog.runChoices cs (UC.probe prb outcome) s now) prb.addr prb.goal :=
  ((Strict.probe_good (fun _ => True) prb outcome (E := fun _ _ => False) (R := fun x => x = prb.addr) rfl).backedExcept
    cs s now hb hk hcanon).1

open Strict in
/-- **the holder ran to completion without a fault, strict**: `probe_complete_backed` for `BackedStrict` -/
theorem probe_complete_backed_strict (prb : Probe) (outcome : Option ProbeResult) (now : Int) (s : AbsState)
    (hb : BackedExceptS s prb.addr prb.goal) (hk : Keyed s)
    (hcanon : ∀ (row : SRow), s.servers[prb.addr.key]? = some row → row.svr.addr = prb.addr) :
    BackedStrict ((UC.probe prb outcome).run s now).1 ∧
    ∀ n, 4 ≤ n → BackedStrict (Prog.runChoices (List.replicate n Choice.ok) (UC.probe prb outcome) s now) := by
  have h := Strict.probe_run_backed prb outcome s now hb hk hcanon
  refine ⟨h, fun n hn => ?_⟩
  rw [runChoices_all_ok _ _ _ _ (Nat.le_trans (probe_runSteps_le prb outcome s now) hn)]
  exact h

open Strict in
/-- **refresh and revival, strict**: they only enqueue (their probes do expire, and back nothing: they set no mark) -/
theorem refresh_revive_backed_strict (cs : List Choice) (now : Int) (s : AbsState) (hb : BackedStrict s) (hk : Keyed s) :
    (∀ (maxRetries deadline : Int), BackedStrict (Prog.runChoices cs (UC.refresh maxRetries deadline) s now)) ∧
    (∀ (maxRetries minScope maxScope minCountdown maxCountdown deadline : Int) (draws : Nat → Int),
      BackedStrict (Prog.runChoices cs (UC.revive maxRetries minScope maxScope minCountdown maxCountdown deadline draws) s now)) :=
  ⟨fun maxRetries deadline => ((Strict.refresh_good (fun _ => True) maxRetries deadline).backed cs s now hb hk).1,
   fun maxRetries minScope maxScope minCountdown maxCountdown deadline draws =>
    ((Strict.revive_good (fun _ => True) maxRetries minScope maxScope minCountdown maxCountdown deadline draws).backed cs s now hb hk).1⟩

open Strict in
/-- **keepalive and removal, strict** -/
theorem renew_remove_backed_strict (cs : List Choice) (now : Int) (s : AbsState) (hb : BackedStrict s) (hk : Keyed s) :
    (∀ (instanceId srcIp : Nat), BackedStrict (Prog.runChoices cs (UC.renew instanceId srcIp) s now)) ∧
    (∀ (instanceId : Nat) (a : Addr), BackedStrict (Prog.runChoices cs (UC.remove instanceId a) s now)) :=
  ⟨fun instanceId srcIp => ((Strict.renew_good (fun _ => True) instanceId srcIp).backed cs s now hb hk).1,
   fun instanceId a => ((Strict.remove_good (fun _ => True) instanceId a).backed cs s now hb hk).1⟩

open Strict in
/-- **C16 for every system without a popper, strict**: `C16_interleaved` for `BackedStrict`, over the same clients
(now including the two-step cleaner `Client.cleanServers2`) and the same events -/
theorem C16_interleaved_strict (u : USys) (es : List UEv) (hb : BackedStrict u.abs) (hk : KeyedOk u.abs)
    (hc : ∀ c ∈ u.clients, Client c.prog) :
    BackedStrict (u.run es).abs ∧ KeyedOk (u.run es).abs ∧ ∀ q ∈ u.abs.queue, q ∈ (u.run es).abs.queue :=
  Strict.sys_backed u es hb hk hc

/-- non-vacuity: the empty store is `BackedStrict`; the store after a fault-free heartbeat of a new server is
`BackedStrict` with a mark in it (the `port_retry` mark of A, backed by the non-expiring discovery probe) -/
example : Strict.BackedStrict {} := fun k row g h => by simp at h
example : Strict.BackedStrict ((UC.report [] 2 ⟨W.A, 10481, 7, some []⟩).run {} 5).1 ∧
    ((UC.report [] 2 ⟨W.A, 10481, 7, some []⟩).run {} 5).1.queue.map (·.expires) = [none] ∧
    (((UC.report [] 2 ⟨W.A, 10481, 7, some []⟩).run {} 5).1.servers.toList.map fun kv => Status.has kv.2.svr.status Status.portRetry) = [true] := by
  refine ⟨?_, by decide, by decide⟩
  rw [← Strict.backedStrictB_iff]; decide
/-- the two-step cleaner as the system model runs it is a `Client` -/
example (r : Int) : Client ((UC.cleanServers2 r).bind fun _ => pure "ok") := Client.map _ _ (Client.cleanServers2 r)


/-! ## a retry mark is cleared only by a probe outcome

`Marks.MarksKept rm s s'`: every row of `s'` carries every retry mark that the row of `s` under the same key carried,
and (`rm = false`) every key that had a row still has one.  One theorem per use case, at every crash point and under
every fault placement (`Prog.runChoices`).  What is left are the prober's `HandleSuccess` / `HandleFailure`
(`outcomes_clear_mark`): the only writes that clear a retry bit of a row that stays. -/

open Marks in
/-- **heartbeat** (`reportserver.Execute`, including its port discovery): never clears a retry mark, never removes a row -/
theorem mark_preserved_report (cs : List Choice) (zeroInfo : Fields) (maxRetries : Int) (req : ReportReq) (now : Int) (s : AbsState)
    (hk : Keyed s) : MarksKept false s (Prog.runChoices cs (UC.report zeroInfo maxRetries req) s now) :=
  (report_pres zeroInfo maxRetries req).marksKept hk cs now

open Marks in
/-- **keepalive** (`renewserver.Execute`) -/
theorem mark_preserved_renew (cs : List Choice) (instanceId srcIp : Nat) (now : Int) (s : AbsState) (hk : Keyed s) :
    MarksKept false s (Prog.runChoices cs (UC.renew instanceId srcIp) s now) :=
  (renew_pres instanceId srcIp).marksKept hk cs now

open Marks in
/-- **removal** (`removeserver.Execute`): the row is removed whole or left as it is — no row that stays loses a mark -/
theorem mark_preserved_remove (cs : List Choice) (instanceId : Nat) (a : Addr) (now : Int) (s : AbsState) (hk : Keyed s) :
    MarksKept true s (Prog.runChoices cs (UC.remove instanceId a) s now) :=
  (remove_pres instanceId a).marksKept hk cs now

open Marks in
/-- **REST submission / discovery** (`addserver.Execute`): sets `port_retry` or nothing -/
theorem mark_preserved_discover (cs : List Choice) (zeroInfo : Fields) (maxRetries : Int) (a : Addr) (now : Int) (s : AbsState)
    (hk : Keyed s) : MarksKept false s (Prog.runChoices cs (UC.addServer zeroInfo maxRetries a) s now) :=
  (addServer_pres zeroInfo maxRetries a).marksKept hk cs now

open Marks in
/-- **refresh** (`refreshservers.Execute`): writes no row -/
theorem mark_preserved_refresh (cs : List Choice) (maxRetries deadline : Int) (now : Int) (s : AbsState) (hk : Keyed s) :
    MarksKept false s (Prog.runChoices cs (UC.refresh maxRetries deadline) s now) :=
  (refresh_pres maxRetries deadline).marksKept hk cs now

open Marks in
/-- **revival** (`reviveservers.Execute`): writes no row -/
theorem mark_preserved_revive (cs : List Choice) (maxRetries minScope maxScope minCountdown maxCountdown deadline : Int)
    (draws : Nat → Int) (now : Int) (s : AbsState) (hk : Keyed s) :
    MarksKept false s (Prog.runChoices cs (UC.revive maxRetries minScope maxScope minCountdown maxCountdown deadline draws) s now) :=
  (revive_pres maxRetries minScope maxScope minCountdown maxCountdown deadline draws).marksKept hk cs now

open Marks in
/-- **cleaner** (`ServerCleaner.Clean`, atomic and two-step): removes rows whole; no row that stays loses a mark -/
theorem mark_preserved_clean (cs : List Choice) (retention : Int) (now : Int) (s : AbsState) (hk : Keyed s) :
    MarksKept true s (Prog.runChoices cs (UC.cleanServers retention) s now) ∧
    MarksKept true s (Prog.runChoices cs (UC.cleanServers2 retention) s now) :=
  ⟨(cleanServers_pres retention).marksKept hk cs now, (cleanServers2_pres retention).marksKept hk cs now⟩

open Marks in
/-- **the prober's retry with budget left** (`probeserver.retry`, entered with the stored record) keeps every mark too:
only a success or the final failure clears one -/
theorem mark_preserved_probeRetry (cs : List Choice) (prb : Probe) (svr : Server) (t : Int) (now : Int) (s : AbsState)
    (hk : Keyed s) (hrow : s.servers[svr.addr.key]? = some ⟨svr, t⟩) (hb : prb.retries < prb.maxRetries) :
    MarksKept false s (Prog.runChoices cs (UC.probeRetry prb svr) s now) :=
  (probeRetry_budget_pres prb svr (fun row0 h0 g hm => by rw [hrow] at h0; cases h0; exact hm) hb).marksKept hk cs now

/-- non-vacuity: `W.staleState` (A marked `port_retry`, keyed) — a heartbeat of A run to completion keeps the mark, and
the prober's success clears it -/
example : Marks.MarksKept false W.staleState ((UC.report [] 2 ⟨W.A, 10481, 7, some []⟩).run W.staleState 5).1 ∧
    ((((UC.report [] 2 ⟨W.A, 10481, 7, some []⟩).run W.staleState 5).1.servers.toList.map
      fun kv => Status.has kv.2.svr.status Status.portRetry) = [true]) ∧
    ((((UC.probe W.probe (some ⟨⟨[], [], []⟩, 10481⟩)).run W.staleState 5).1.servers.toList.map
      fun kv => Status.has kv.2.svr.status Status.portRetry) = [false]) := by
  refine ⟨?_, by decide, by decide⟩
  have hk : Keyed W.staleState := W.state_keyed
  have := mark_preserved_report (List.replicate ((UC.report [] 2 ⟨W.A, 10481, 7, some []⟩).runSteps W.staleState 5) .ok)
    [] 2 ⟨W.A, 10481, 7, some []⟩ 5 W.staleState hk
  rwa [runChoices_all_ok _ _ _ _ (Nat.le_refl _)] at this


/-! ## the popper: what `PopMany` does to the backing, and a whole fault-free batch -/

open Strict in
/-- **a pop never drops the backing of a mark silently** (from a `BackedStrict` store).  After `PopMany(n)` at any
clock, every retry mark is backed by a non-expiring probe still queued or by one of the probes the call handed to the
prober (`Strict.Held`): the only marks without a queued probe are those whose probe somebody now holds — the situation
`probe_backed_strict` starts from.  `hinj`: queue ids are distinct (they are fresh UUIDs; `AbsState.enqueue` uses a
counter).  With plain `Backed` this fails: `expiring_backing_orphaned`. -/
theorem pop_strict_held (s : AbsState) (now : Int) (n : Int) (hb : BackedStrict s) (hinj : IdInj s.queue) :
    BackedExS (Held (s.popMany now n).2.1) (s.popMany now n).1 ∧ (s.popMany now n).1.servers = s.servers ∧
    (∀ p ∈ (s.popMany now n).2.1, ∃ x ∈ s.queue, x.probe = p) :=
  ⟨popMany_strict s now n hb hinj, Strict.popMany_servers s now n, (popMany_covers s now n hinj).2.2⟩

open Strict in
/-- **a fault-free prober batch restores the invariant.**  `UC.proberRunWith n oc order`
(`Model/UseCases/ProberRun.lean`) is the Model's prober runner: `PopMany(n)`, then `probeserver.Execute` for every popped
probe in turn, each to completion; the program the driver runs for a `pop` client is its instance `UC.proberRun`
(`runner_is_model`, `runner_complete_backed` below).  From a `BackedStrict` store (rows well keyed with valid addresses,
distinct queue ids, valid probe addresses), for every `n`, every clock, every outcome per probe and every order of the
batch, the store after the batch is `BackedStrict` (hence `Backed`) and well keyed.  So the holder-loss finding
(`C16_holder_counterexample`) needs a holder that stops early or takes an error branch — the batch itself, however
large and in whatever order, repairs every mark it unbacked. -/
theorem pop_complete_backed (n : Int) (oc : Probe → Option ProbeResult) (order : List Probe → List Probe)
    (horder : ∀ ps p, p ∈ order ps ↔ p ∈ ps) (s : AbsState) (now : Int)
    (hb : BackedStrict s) (hk : KeyedOk s) (hinj : IdInj s.queue) (hq : ∀ q ∈ s.queue, q.probe.addr.PortOk) :
    BackedStrict ((UC.proberRunWith n oc order).run s now).1 ∧ Backed ((UC.proberRunWith n oc order).run s now).1 ∧
    KeyedOk ((UC.proberRunWith n oc order).run s now).1 :=
  have h := Strict.pop_complete_backed n oc order horder s now hb hk hinj hq
  ⟨h.1, h.1.backed, h.2⟩

/-- non-vacuity: `W.staleState` (A marked `port_retry`, its non-expiring probe queued) satisfies the hypotheses; the
batch pops the probe and — the probe failing with budget left — re-queues it with one more retry -/
example : Strict.BackedStrict W.staleState ∧ KeyedOk W.staleState ∧ Strict.IdInj W.staleState.queue ∧
    (∀ q ∈ W.staleState.queue, q.probe.addr.PortOk) ∧
    (W.staleState.popMany 1000 5).2.1 = [W.probe] ∧
    ((UC.proberRunWith 5 (fun _ => none) id).run W.staleState 1000).1.queue.map (fun q => (q.probe.retries, q.expires)) = [(1, none)] := by
  refine ⟨?_, ?_, ?_, ?_, by decide, by decide⟩
  · rw [← Strict.backedStrictB_iff]; decide
  · intro k row h
    obtain ⟨rfl, rfl⟩ := W.state_row k row h
    exact ⟨rfl, by unfold Addr.PortOk; decide⟩
  · exact Strict.idInj_of_nodup (by decide)
  · intro q hq
    have : q = ⟨0, W.probe, 0, none⟩ := by simpa [W.staleState] using hq
    subst this
    unfold Addr.PortOk; decide

/-- **the tie between the driver and the Model's runner** (audit record for reviewer item "driver semantics outside
Model", C16).  The program the correspondence run executes for a harness client `pop|<n>|<outcome>`
(`Drv/UCRun.lean: USpec.prog`) IS `UC.proberRun n outcome` — `PopMany(n)`, the batch in `UC.sortBatch` order,
`UC.probe` for each — followed only by the rendering of its report (a `pure`, no storage call); and `UC.proberRun` is
`UC.proberRunWith` at the constant outcome and that order.  Both equalities are definitional: the driver contains no
runner of its own any more. -/
theorem runner_is_model (cfg : Drv.UCfg) (draws : Nat → Int) (n : Int) (outcome : Option ProbeResult) :
    (Drv.USpec.pop n outcome).prog cfg draws =
      (UC.proberRun n outcome).bind (fun r => pure (Drv.renderProberReport r)) ∧
    UC.proberRun n outcome = UC.proberRunWith n (fun _ => outcome) UC.sortBatch :=
  ⟨rfl, rfl⟩

/-- rendering adds no storage call: the state a `pop` client of the driver ends in is the state of `UC.proberRun` -/
theorem runner_state (cfg : Drv.UCfg) (draws : Nat → Int) (n : Int) (outcome : Option ProbeResult) (s : AbsState) (now : Int) :
    (((Drv.USpec.pop n outcome).prog cfg draws).run s now).1 = ((UC.proberRun n outcome).run s now).1 := by
  rw [(runner_is_model cfg draws n outcome).1, Prog.run_bind]
  rfl

open Strict in
/-- **`pop_complete_backed` about what the driver actually runs.**  The program of the driver's `pop` client — for every
batch size, every (single) network outcome, every clock —, run to completion without a fault from a `BackedStrict` store
(hypotheses as in `pop_complete_backed`), ends `BackedStrict`, `Backed` and well keyed.  `UC.sortBatch` is a
reordering (`Strict.mem_sortBatch`), so `pop_complete_backed` applies. -/
theorem runner_complete_backed (cfg : Drv.UCfg) (draws : Nat → Int) (n : Int) (outcome : Option ProbeResult)
    (s : AbsState) (now : Int)
    (hb : BackedStrict s) (hk : KeyedOk s) (hinj : IdInj s.queue) (hq : ∀ q ∈ s.queue, q.probe.addr.PortOk) :
    BackedStrict (((Drv.USpec.pop n outcome).prog cfg draws).run s now).1 ∧
    Backed (((Drv.USpec.pop n outcome).prog cfg draws).run s now).1 ∧
    KeyedOk (((Drv.USpec.pop n outcome).prog cfg draws).run s now).1 := by
  rw [runner_state]
  exact pop_complete_backed n (fun _ => outcome) UC.sortBatch mem_sortBatch s now hb hk hinj hq

/-- non-vacuity of `runner_complete_backed` (hypotheses: the `example` after `pop_complete_backed`): on `W.staleState` the
driver's `pop|5|fail` client pops the one probe, fails it with budget left and re-queues it without expiry, and reports
`popped:1:0+retried` -/
example : (((Drv.USpec.pop 5 none).prog {} fun _ => 0).run W.staleState 1000).2 = "popped:1:0+retried" ∧
    (((Drv.USpec.pop 5 none).prog {} fun _ => 0).run W.staleState 1000).1.queue.map (fun q => (q.probe.retries, q.expires)) = [(1, none)] := by
  decide


/-! ## the hypotheses are needed; a third way to lose the backing -/

/-- **why `hcanon` / valid addresses are assumed** (a model artifact: `Addr.key` is injective only on ports
1..65535, the real key `Addr.String()` is injective and `addr.New` rejects other ports).  (1) A fault-free,
complete `probeserver` run for a probe whose address is *not* the one stored under its key breaks a fully backed,
keyed store: the re-queued probe carries the probe's address, the mark lands on the stored record.  (2) In a
popper-free system started from the empty store, one reporter with an out-of-range address that collides with a
valid one is enough to break `Backed` by interleaving alone. -/
theorem address_hypotheses_needed :
    (Backed W.badState ∧ Keyed W.badState ∧
      ¬ Backed ((UC.probe ⟨W.goodA, 5, .port, 0, 2⟩ none).run W.badState 5).1) ∧
    (W.badA.key = W.goodA.key ∧ ¬ W.badA.PortOk ∧ W.goodA.PortOk ∧
      Backed (W.collisionSys.run (W.collisionEvents.take 10)).abs ∧
      ¬ Backed (W.collisionSys.run W.collisionEvents).abs) := by
  refine ⟨⟨?_, ?_, ?_⟩, by decide, by unfold Addr.PortOk; decide, by unfold Addr.PortOk; decide, ?_, ?_⟩
  · rw [← backedB_iff]; decide
  · intro k row h
    simp only [W.badState, ExtTreeMap.getElem?_insert] at h
    split at h
    · rename_i hk
      cases h
      simpa using hk
    · simp at h
  · rw [← backedB_iff, Bool.not_eq_true]; decide
  · rw [← backedB_iff]; decide
  · rw [← backedB_iff, Bool.not_eq_true]; decide

/-- **a race that needs no crash and no fault** (not one of the two recorded findings; it needs a popper *and* a
removal between a reporter's lookup and its write, so the popper-free theorem above is not affected).  A is marked
`port_retry` and its probe is queued.  A reporter looks A up; a cleaner removes A; a prober pops A's probe, finds
no server and drops the probe; the reporter's `Add` then stores its stale copy — mark included — as a new row
(`servers.Add` saves the caller's record when the row is absent) and, seeing the mark, does not enqueue.  All
three clients have finished, the queue is empty, the mark has no probe. -/
theorem stale_readd_unbacked :
    Backed W.staleSys.abs ∧
    (W.staleSys.run W.staleEvents).clients.map UClient.live = [false, false, false] ∧
    (W.staleSys.run W.staleEvents).abs.queue = [] ∧
    ¬ Backed (W.staleSys.run W.staleEvents).abs := by
  refine ⟨?_, by decide, by decide, ?_⟩
  · rw [← backedB_iff]; decide
  · rw [← backedB_iff, Bool.not_eq_true]; decide

/-- **Configuration wiring (regenerated fact).**  How configuration reaches the prober component: poll interval, concurrency, probe timeout and the port offsets of the port prober: every field of every
configuration literal in `cmd/swat4master` that concerns this property, with the source text of the value it is given
(`verifharness facts`, go/ast, on every run).  A command-line value wired to another field, a unit conversion or a
`max`/`min` slipped into one of these literals changes the generated list and breaks this theorem; the harness itself
drives these components through their real fx modules (DESIGN 10.8), this pins what the modules are given. -/
def configRows : List (String × String × String × String × String) :=
    [("components/prober/prober.go", "*command.Run", "Config", "PollInterval", "globals.ProbePollSchedule"),
     ("components/prober/prober.go", "*command.Run", "Config", "Concurrency", "globals.ProbeConcurrency"),
     ("components/prober/prober.go", "*command.Run", "Config", "ProbeTimeout", "globals.ProbeTimeout"),
     ("components/prober/prober.go", "*command.Run", "Config", "PortOffsets", "globals.DiscoveryRevivalPorts"),
     ("components/prober/prober.go", "provideRunnerOpts", "proberunner.RunnerOpts", "PollInterval", "cfg.PollInterval"),
     ("components/prober/prober.go", "provideRunnerOpts", "proberunner.RunnerOpts", "Concurrency", "cfg.Concurrency"),
     ("components/prober/prober.go", "provideRunnerOpts", "proberunner.RunnerOpts", "ProbeTimeout", "cfg.ProbeTimeout"),
     ("components/prober/prober.go", "providePortProberOpts", "portprober.Opts", "Offsets", "cfg.PortOffsets")]

theorem facts_config_wiring :
    (Facts.configWiring.filter fun r => configRows.contains r) = configRows ∧
    (Facts.configWiring.filter fun r => configRows.any fun c => c.1 == r.1 && c.2.1 == r.2.1 && c.2.2.1 == r.2.2.1 && c.2.2.2.1 == r.2.2.2.1) = configRows := by
  decide

end Swat4.C16


/-! ## progress: every chain of probes for one mark ends (`probe_progress`) -/

namespace Swat4.C16.Progress
open Swat4 Swat4.UC Std Swat4.C16 Swat4.C16.Strict

/-! ### sums over lists -/

def sumOf {α : Type} (f : α → Nat) (l : List α) : Nat := (l.map f).sum

theorem sumOf_nil {α : Type} (f : α → Nat) : sumOf f [] = 0 := rfl
theorem sumOf_cons {α : Type} (f : α → Nat) (x : α) (l : List α) : sumOf f (x :: l) = f x + sumOf f l := by
  simp [sumOf]
theorem sumOf_append {α : Type} (f : α → Nat) (l1 l2 : List α) : sumOf f (l1 ++ l2) = sumOf f l1 + sumOf f l2 := by
  simp [sumOf]
theorem sumOf_map {α β : Type} (f : β → Nat) (h : α → β) (l : List α) : sumOf f (l.map h) = sumOf (fun x => f (h x)) l := by
  simp [sumOf, Function.comp_def]

theorem sumOf_perm {α : Type} (f : α → Nat) {l1 l2 : List α} (h : l1.Perm l2) : sumOf f l1 = sumOf f l2 := by
  induction h with
  | nil => rfl
  | cons x _ ih => rw [sumOf_cons, sumOf_cons, ih]
  | swap x y l => simp only [sumOf_cons]; omega
  | trans _ _ ih1 ih2 => exact ih1.trans ih2

theorem sumOf_filter_split {α : Type} (f : α → Nat) (p : α → Bool) (l : List α) :
    sumOf f l = sumOf f (l.filter p) + sumOf f (l.filter fun x => !p x) := by
  induction l with
  | nil => rfl
  | cons x t ih =>
    cases hp : p x
    · simp only [List.filter_cons, hp, Bool.false_eq_true, if_false, Bool.not_false, if_true, sumOf_cons]; omega
    · simp only [List.filter_cons, hp, if_true, Bool.not_true, Bool.false_eq_true, if_false, sumOf_cons]; omega

theorem sumOf_le {α : Type} (f g : α → Nat) (l : List α) (h : ∀ x ∈ l, f x ≤ g x) : sumOf f l ≤ sumOf g l := by
  induction l with
  | nil => exact Nat.le_refl _
  | cons x t ih =>
    rw [sumOf_cons, sumOf_cons]
    have := h x (List.mem_cons_self)
    have := ih (fun y hy => h y (List.mem_cons_of_mem _ hy))
    omega

theorem sumOf_eq_zero {α : Type} (f : α → Nat) (l : List α) (h : sumOf f l = 0) : ∀ x ∈ l, f x = 0 := by
  induction l with
  | nil => intro x hx; cases hx
  | cons y t ih =>
    rw [sumOf_cons] at h
    intro x hx
    rcases List.mem_cons.1 hx with rfl | hx
    · omega
    · exact ih (by omega) x hx

theorem sumOf_zero {α : Type} (l : List α) : sumOf (fun _ : α => 0) l = 0 := by
  induction l with
  | nil => rfl
  | cons x t ih => rw [sumOf_cons, ih]

theorem sumOf_pos {α : Type} (f : α → Nat) (l : List α) (x : α) (hx : x ∈ l) (hf : 0 < f x) : 0 < sumOf f l := by
  induction l with
  | nil => cases hx
  | cons y t ih =>
    rw [sumOf_cons]
    rcases List.mem_cons.1 hx with rfl | hx
    · omega
    · have := ih hx; omega

/-! ### the potential of a mark -/

/-- the attempts a probe still has: this one, and one per retry left -/
def budget (p : Probe) : Nat := (p.maxRetries - p.retries).toNat + 1

/-- is `p` a probe of goal `g` for address `a`? -/
def forAG (a : Addr) (g : Goal) (p : Probe) : Bool := decide (p.addr = a ∧ p.goal = g)

/-- weight of a probe: its budget if it is for `(a, g)` -/
def wP (a : Addr) (g : Goal) (p : Probe) : Nat := if forAG a g p then budget p else 0
/-- `1` if the probe is for `(a, g)` -/
def cP (a : Addr) (g : Goal) (p : Probe) : Nat := if forAG a g p then 1 else 0

/-- **the potential of the mark `(a, g)`**: the attempts all queued probes for `(a, g)` still have, together -/
def pot (a : Addr) (g : Goal) (q : List QItem) : Nat := sumOf (fun x => wP a g x.probe) q
/-- the number of queued probes for `(a, g)` -/
def cnt (a : Addr) (g : Goal) (q : List QItem) : Nat := sumOf (fun x => cP a g x.probe) q

theorem cP_le_wP (a : Addr) (g : Goal) (p : Probe) : cP a g p ≤ wP a g p := by
  unfold cP wP budget; split <;> omega

/-- the re-queued probe has one attempt less -/
theorem wP_inc (a : Addr) (g : Goal) (p : Probe) (h : p.retries < p.maxRetries) :
    wP a g { p with retries := p.retries + 1 } + cP a g p = wP a g p := by
  have hf : forAG a g { p with retries := p.retries + 1 } = forAG a g p := rfl
  unfold wP cP
  rw [hf]
  cases forAG a g p
  · rfl
  · simp only [if_true, budget]; omega

theorem pot_zero_iff_none (a : Addr) (g : Goal) (q : List QItem) (h : pot a g q = 0) :
    ∀ x ∈ q, ¬ (x.probe.addr = a ∧ x.probe.goal = g) := by
  intro x hx hag
  have := sumOf_eq_zero _ q h x hx
  simp only [wP, forAG, hag, and_self, decide_true, if_true, budget] at this
  omega

/-! ### `PopMany` when everything ready fits into the batch -/

theorem readySorted_nil_of {q : List QItem} {now : Int} (h : ∀ x ∈ q, ¬ x.ready ≤ now) :
    AbsState.readySorted q now = [] := by
  cases hr : AbsState.readySorted q now with
  | nil => rfl
  | cons y t =>
    have : y ∈ AbsState.readySorted q now := by rw [hr]; exact List.mem_cons_self
    exact absurd (mem_readySorted.1 this).2 (h y (mem_readySorted.1 this).1)

theorem dropBatch_ready {q : List QItem} {now : Int} (hinj : IdInj q) :
    dropBatch q (AbsState.readySorted q now) = q.filter fun x => !decide (x.ready ≤ now) := by
  unfold dropBatch
  apply List.filter_congr
  intro x hx
  congr 1
  by_cases hr : x.ready ≤ now
  · simp only [hr, decide_true]
    rw [List.any_eq_true]
    exact ⟨x, mem_readySorted.2 ⟨hx, hr⟩, by simp⟩
  · simp only [hr, decide_false]
    cases hany : (AbsState.readySorted q now).any fun b => b.id == x.id with
    | false => rfl
    | true =>
      rw [List.any_eq_true] at hany
      obtain ⟨b, hb, hid⟩ := hany
      have hb' := mem_readySorted.1 hb
      have : b = x := hinj b hb'.1 x hx (by simpa using hid)
      subst this
      exact absurd hb'.2 hr

theorem popManyLoop_fit (now : Int) (N : Nat) (q : List QItem) (fuel : Nat) (hf : q.length ≤ fuel) (hinj : IdInj q)
    (hN : 0 < N) (hfit : (q.filter fun x => x.ready ≤ now).length ≤ N) :
    (AbsState.popManyLoop now N (fuel + 1) q [] 0).1 = (q.filter fun x => !decide (x.ready ≤ now)) ∧
    (AbsState.popManyLoop now N (fuel + 1) q [] 0).2.1 = (keptOf (AbsState.readySorted q now) now).map (·.probe) := by
  have hRlen : (AbsState.readySorted q now).length ≤ N := by rw [(readySorted_perm q now).length_eq]; exact hfit
  have htake : (AbsState.readySorted q now).take (N - ([] : List Probe).length) = AbsState.readySorted q now := by
    simp only [List.length_nil, Nat.sub_zero]; exact List.take_of_length_le hRlen
  rw [popManyLoop_succ, htake]
  have h0 : ¬ ([] : List Probe).length ≥ N := by simp only [List.length_nil]; omega
  rw [if_neg h0]
  cases hR : AbsState.readySorted q now with
  | nil =>
    simp only [List.isEmpty_nil, if_true, keptOf, List.filter_nil, List.map_nil, and_true]
    symm
    rw [List.filter_eq_self]
    intro x hx
    have : ¬ x.ready ≤ now := fun hr => by
      have := mem_readySorted.2 ⟨hx, hr⟩
      rw [hR] at this; cases this
    simp [this]
  | cons y t =>
    simp only [List.isEmpty_cons, Bool.false_eq_true, if_false, List.nil_append, Nat.zero_add]
    rw [← hR, dropBatch_ready hinj]
    have hq1 : 1 ≤ q.length := by
      have : y ∈ AbsState.readySorted q now := by rw [hR]; exact List.mem_cons_self
      exact List.length_pos_of_mem (mem_readySorted.1 this).1
    obtain ⟨f, rfl⟩ : ∃ f, fuel = f + 1 := ⟨fuel - 1, by omega⟩
    rw [popManyLoop_succ]
    have hnil : AbsState.readySorted (q.filter fun x => !decide (x.ready ≤ now)) now = [] := by
      apply readySorted_nil_of
      intro x hx
      have := (List.mem_filter.1 hx).2
      simpa using this
    rw [hnil]
    simp only [List.take_nil, List.isEmpty_nil, if_true]
    split <;> exact ⟨rfl, rfl⟩

/-- **`PopMany(n)` when all the ready items fit**: with distinct ids, `0 < n` and at most `n` items ready at `now`, the
call takes exactly the ready items out of the queue and returns the probes of those that have not expired -/
theorem popMany_fit (s : AbsState) (now : Int) (n : Int) (hinj : IdInj s.queue) (hn : 0 < n)
    (hfit : (s.queue.filter fun x => x.ready ≤ now).length ≤ n.toNat) :
    (s.popMany now n).1.queue = (s.queue.filter fun x => !decide (x.ready ≤ now)) ∧
    (s.popMany now n).2.1 = (keptOf (AbsState.readySorted s.queue now) now).map (·.probe) ∧
    (s.popMany now n).1.nextId = s.nextId ∧ (s.popMany now n).1.servers = s.servers := by
  have h := popManyLoop_fit now n.toNat s.queue s.queue.length (Nat.le_refl _) hinj (by omega) hfit
  unfold AbsState.popMany
  rw [if_neg (by omega)]
  exact ⟨h.1, h.2, rfl, rfl⟩

/-! ### one `probeserver.Execute`: what it does to the queue -/

theorem update_nextId (s : AbsState) (now : Int) (svr : Server) (res : Resolver) : (s.update now svr res).1.nextId = s.nextId := by
  unfold AbsState.update
  cases s.getRow svr.addr with
  | none => rfl
  | some ex =>
    dsimp only
    split
    · cases res ex.svr <;> rfl
    · rfl

/-- the queue after one fault-free `probeserver.Execute`: unchanged, or — exactly when the probe failed with retries left
and the server is stored — the same probe with one more retry appended, non-expiring, ready after the backoff -/
theorem probe_run_queue (prb : Probe) (oc : Option ProbeResult) (s : AbsState) (now : Int) :
    (((UC.probe prb oc).run s now).1.queue = s.queue ∧ ((UC.probe prb oc).run s now).1.nextId = s.nextId) ∨
    (oc = none ∧ prb.retries < prb.maxRetries ∧ (∃ row, s.servers[prb.addr.key]? = some row) ∧
      ((UC.probe prb oc).run s now).1.queue =
        s.queue ++ [⟨s.nextId, { prb with retries := prb.retries + 1 }, now + second * expFloor (prb.retries + 1), none⟩] ∧
      ((UC.probe prb oc).run s now).1.nextId = s.nextId + 1) := by
  cases hrow : s.servers[prb.addr.key]? with
  | none => rw [probe_run_none _ _ _ _ hrow]; exact Or.inl ⟨rfl, rfl⟩
  | some ex =>
    have hg : s.getRow prb.addr = some ex := hrow
    cases oc with
    | some res =>
      left
      simp only [UC.probe, Prog.run_call, Call.exec, AbsState.get, hg]
      split <;> simp only [Prog.run_pure, update_queue, update_nextId, and_self]
    | none =>
      by_cases hout : prb.retries < prb.maxRetries
      · right
        refine ⟨rfl, hout, ⟨ex, rfl⟩, ?_⟩
        have hout' : ¬ prb.retries ≥ prb.maxRetries := by omega
        simp only [UC.probe, Prog.run_call, Call.exec, AbsState.get, hg, probeRetry, Probe.incRetries, hout', if_false,
          Bool.not_true]
        simp only [Bool.false_eq_true, if_false, Prog.run_call, Call.exec]
        split <;> simp only [Prog.run_pure, update_queue, update_nextId, AbsState.enqueue, Bool.false_eq_true, if_false, and_self]
      · left
        have hout' : prb.retries ≥ prb.maxRetries := by omega
        simp only [UC.probe, Prog.run_call, Call.exec, AbsState.get, hg, probeRetry, Probe.incRetries, hout', if_true,
          Bool.not_false, probeFail]
        split <;> simp only [Prog.run_pure, update_queue, update_nextId, and_self]

/-- one handled probe pays one attempt: the potential of `(a, g)` after the run, plus one if the probe was for `(a, g)`,
is at most the potential before plus the probe's own weight -/
theorem probe_run_pot (a : Addr) (g : Goal) (prb : Probe) (oc : Option ProbeResult) (s : AbsState) (now : Int) :
    pot a g ((UC.probe prb oc).run s now).1.queue + cP a g prb ≤ pot a g s.queue + wP a g prb := by
  rcases probe_run_queue prb oc s now with ⟨hq, _⟩ | ⟨_, hlt, _, hq, _⟩
  · rw [hq]; have := cP_le_wP a g prb; omega
  · rw [hq]
    unfold pot
    rw [sumOf_append, sumOf_cons, sumOf_nil]
    have := wP_inc a g prb hlt
    simp only at this ⊢
    omega

/-- the runner over a batch: every handled probe for `(a, g)` pays one attempt -/
theorem probeEach_pot (a : Addr) (g : Goal) (oc : Probe → Option ProbeResult) (now : Int) :
    ∀ (ps : List Probe) (s : AbsState),
      pot a g ((UC.probeEach oc ps).run s now).1.queue + sumOf (cP a g) ps ≤ pot a g s.queue + sumOf (wP a g) ps := by
  intro ps
  induction ps with
  | nil => intro s; simp [UC.probeEach, sumOf_nil]
  | cons p rest ih =>
    intro s
    have hrun : ((UC.probeEach oc (p :: rest)).run s now).1 =
        ((UC.probeEach oc rest).run ((UC.probe p (oc p)).run s now).1 now).1 :=
      Strict.probeEach_cons_state oc p rest s now
    rw [hrun, sumOf_cons, sumOf_cons]
    have h1 := probe_run_pot a g p (oc p) s now
    have h2 := ih ((UC.probe p (oc p)).run s now).1
    omega

/-! ### one batch -/

/-- the scheduling hypotheses on one batch, for the mark `(a, g)`: the batch size is positive and at least the number of
items ready at the batch's clock (so the pop takes them all), the order the runner handles the batch in is a
permutation of it, and every queued probe for `(a, g)` is ready at the batch's clock -/
structure Fair (a : Addr) (g : Goal) (n : Int) (order : List Probe → List Probe) (now : Int) (s : AbsState) : Prop where
  npos : 0 < n
  fits : (s.queue.filter fun x => x.ready ≤ now).length ≤ n.toNat
  perm : ∀ ps, (order ps).Perm ps
  ready : ∀ x ∈ s.queue, x.probe.addr = a → x.probe.goal = g → x.ready ≤ now

/-- **one fair batch pays one attempt per queued probe for `(a, g)`**: after a fault-free prober batch, the potential of
`(a, g)` plus the number of probes for `(a, g)` that were queued is at most the potential before -/
theorem batch_pot (a : Addr) (g : Goal) (n : Int) (oc : Probe → Option ProbeResult) (order : List Probe → List Probe)
    (s : AbsState) (now : Int) (hinj : IdInj s.queue) (hf : Fair a g n order now s) :
    pot a g ((UC.proberRunWith n oc order).run s now).1.queue + cnt a g s.queue ≤ pot a g s.queue := by
  obtain ⟨hq, hgot, _, _⟩ := popMany_fit s now n hinj hf.npos hf.fits
  have hrun : ((UC.proberRunWith n oc order).run s now).1 =
      ((UC.probeEach oc (order (s.popMany now n).2.1)).run (s.popMany now n).1 now).1 :=
    Strict.proberRunWith_state n oc order s now
  rw [hrun]
  have h1 := probeEach_pot a g oc now (order (s.popMany now n).2.1) (s.popMany now n).1
  have e1 : sumOf (cP a g) (order (s.popMany now n).2.1) =
      sumOf (fun x : QItem => cP a g x.probe) (keptOf (AbsState.readySorted s.queue now) now) := by
    rw [sumOf_perm _ (hf.perm _), hgot, sumOf_map]
  have e2 : sumOf (wP a g) (order (s.popMany now n).2.1) =
      sumOf (fun x : QItem => wP a g x.probe) (keptOf (AbsState.readySorted s.queue now) now) := by
    rw [sumOf_perm _ (hf.perm _), hgot, sumOf_map]
  have e3 : pot a g (s.popMany now n).1.queue = pot a g (s.queue.filter fun x => !decide (x.ready ≤ now)) := by rw [hq]
  rw [e1, e2, e3] at h1
  -- the queue splits into ready and not ready; the ready part into kept and expired
  have hsplit := sumOf_filter_split (fun x : QItem => wP a g x.probe) (fun x => decide (x.ready ≤ now)) s.queue
  have hR := sumOf_perm (fun x : QItem => wP a g x.probe) (readySorted_perm s.queue now)
  have hRk := sumOf_filter_split (fun x : QItem => wP a g x.probe) (fun x => !x.expired now) (AbsState.readySorted s.queue now)
  have hcsplit := sumOf_filter_split (fun x : QItem => cP a g x.probe) (fun x => decide (x.ready ≤ now)) s.queue
  have hcR := sumOf_perm (fun x : QItem => cP a g x.probe) (readySorted_perm s.queue now)
  have hcRk := sumOf_filter_split (fun x : QItem => cP a g x.probe) (fun x => !x.expired now) (AbsState.readySorted s.queue now)
  have hexp := sumOf_le (fun x : QItem => cP a g x.probe) (fun x : QItem => wP a g x.probe)
    ((AbsState.readySorted s.queue now).filter fun x => !!x.expired now) (fun x _ => cP_le_wP a g x.probe)
  -- nothing for `(a, g)` is left among the items that are not ready
  have hnr : sumOf (fun x : QItem => cP a g x.probe) (s.queue.filter fun x => !decide (x.ready ≤ now)) = 0 := by
    have : ∀ x ∈ (s.queue.filter fun x => !decide (x.ready ≤ now)), (fun x : QItem => cP a g x.probe) x ≤ (fun _ => 0) x := by
      intro x hx
      obtain ⟨hxq, hnr⟩ := List.mem_filter.1 hx
      have hnr' : ¬ x.ready ≤ now := by simpa using hnr
      show cP a g x.probe ≤ 0
      unfold cP forAG
      split
      · rename_i h
        have h' : x.probe.addr = a ∧ x.probe.goal = g := by simpa using h
        exact absurd (hf.ready x hxq h'.1 h'.2) hnr'
      · exact Nat.le_refl _
    have h0 := sumOf_le _ _ _ this
    have := sumOf_zero (s.queue.filter fun x : QItem => !decide (x.ready ≤ now))
    omega
  unfold pot cnt keptOf at *
  omega

/-! ### the invariants a batch keeps -/

/-- the queue is well formed: ids identify items and are below the counter, probe addresses are valid -/
structure QOk (s : AbsState) : Prop where
  inj : IdInj s.queue
  fresh : ∀ x ∈ s.queue, x.id < s.nextId
  ports : ∀ x ∈ s.queue, x.probe.addr.PortOk

theorem probe_run_qok (prb : Probe) (oc : Option ProbeResult) (s : AbsState) (now : Int) (h : QOk s) (hp : prb.addr.PortOk) :
    QOk ((UC.probe prb oc).run s now).1 := by
  rcases probe_run_queue prb oc s now with ⟨hq, hn⟩ | ⟨_, _, _, hq, hn⟩
  · exact ⟨by rw [hq]; exact h.inj, by rw [hq, hn]; exact h.fresh, by rw [hq]; exact h.ports⟩
  · refine ⟨?_, ?_, ?_⟩
    · rw [hq]
      intro x hx y hy hxy
      rcases List.mem_append.1 hx with hx | hx <;> rcases List.mem_append.1 hy with hy | hy
      · exact h.inj x hx y hy hxy
      · have := h.fresh x hx
        rw [List.mem_singleton.1 hy] at hxy
        simp only at hxy
        omega
      · have := h.fresh y hy
        rw [List.mem_singleton.1 hx] at hxy
        simp only at hxy
        omega
      · rw [List.mem_singleton.1 hx, List.mem_singleton.1 hy]
    · rw [hq, hn]
      intro x hx
      rcases List.mem_append.1 hx with hx | hx
      · have := h.fresh x hx; omega
      · rw [List.mem_singleton.1 hx]; simp only; omega
    · rw [hq]
      intro x hx
      rcases List.mem_append.1 hx with hx | hx
      · exact h.ports x hx
      · rw [List.mem_singleton.1 hx]; exact hp

theorem probeEach_qok (oc : Probe → Option ProbeResult) (now : Int) :
    ∀ (ps : List Probe) (s : AbsState), QOk s → (∀ p ∈ ps, p.addr.PortOk) → QOk ((UC.probeEach oc ps).run s now).1 := by
  intro ps
  induction ps with
  | nil => intro s h _; exact h
  | cons p rest ih =>
    intro s h hp
    have hrun : ((UC.probeEach oc (p :: rest)).run s now).1 =
        ((UC.probeEach oc rest).run ((UC.probe p (oc p)).run s now).1 now).1 :=
      Strict.probeEach_cons_state oc p rest s now
    rw [hrun]
    exact ih _ (probe_run_qok p (oc p) s now h (hp p List.mem_cons_self)) (fun q hq => hp q (List.mem_cons_of_mem _ hq))

theorem popMany_nextId (s : AbsState) (now : Int) (n : Int) : (s.popMany now n).1.nextId = s.nextId := by
  unfold AbsState.popMany; split <;> rfl

theorem batch_qok (n : Int) (oc : Probe → Option ProbeResult) (order : List Probe → List Probe)
    (horder : ∀ ps, (order ps).Perm ps) (s : AbsState) (now : Int) (h : QOk s) :
    QOk ((UC.proberRunWith n oc order).run s now).1 := by
  have hcov := popMany_covers s now n h.inj
  have hrun : ((UC.proberRunWith n oc order).run s now).1 =
      ((UC.probeEach oc (order (s.popMany now n).2.1)).run (s.popMany now n).1 now).1 :=
    Strict.proberRunWith_state n oc order s now
  rw [hrun]
  refine probeEach_qok oc now _ _ ⟨?_, ?_, ?_⟩ ?_
  · intro x hx y hy hxy; exact h.inj x (hcov.2.1 x hx) y (hcov.2.1 y hy) hxy
  · intro x hx; rw [popMany_nextId]; exact h.fresh x (hcov.2.1 x hx)
  · intro x hx; exact h.ports x (hcov.2.1 x hx)
  · intro p hp
    obtain ⟨x, hx, rfl⟩ := hcov.2.2 p ((horder _).mem_iff.1 hp)
    exact h.ports x hx

/-! ### a sequence of batches -/

/-- one prober batch: size, network outcome per probe, handling order, clock -/
structure Batch where
  n : Int
  oc : Probe → Option ProbeResult
  order : List Probe → List Probe
  now : Int

def Batch.run (b : Batch) (s : AbsState) : AbsState := ((UC.proberRunWith b.n b.oc b.order).run s b.now).1

/-- the store after a sequence of fault-free prober batches, nothing else running in between -/
def runBatches : List Batch → AbsState → AbsState
  | [], s => s
  | b :: bs, s => runBatches bs (b.run s)

/-- every batch of the sequence is `Fair` for `(a, g)` in the state it starts from -/
def FairRun (a : Addr) (g : Goal) : List Batch → AbsState → Prop
  | [], _ => True
  | b :: bs, s => Fair a g b.n b.order b.now s ∧ FairRun a g bs (b.run s)

/-- the store invariants a batch keeps: `BackedStrict`, rows well keyed with valid addresses, well-formed queue -/
structure WF (s : AbsState) : Prop where
  backed : BackedStrict s
  keyed : KeyedOk s
  qok : QOk s

theorem batch_wf (b : Batch) (s : AbsState) (h : WF s) (hperm : ∀ ps, (b.order ps).Perm ps) : WF (b.run s) := by
  have := Strict.pop_complete_backed b.n b.oc b.order (fun ps p => (hperm ps).mem_iff) s b.now h.backed h.keyed h.qok.inj h.qok.ports
  exact ⟨this.1, this.2, batch_qok b.n b.oc b.order hperm s b.now h.qok⟩

theorem runBatches_pot (a : Addr) (g : Goal) : ∀ (bs : List Batch) (s : AbsState), WF s → FairRun a g bs s →
    WF (runBatches bs s) ∧ pot a g (runBatches bs s).queue ≤ pot a g s.queue - bs.length := by
  intro bs
  induction bs with
  | nil => intro s h _; exact ⟨h, by simp [runBatches]⟩
  | cons b bs ih =>
    intro s h hfair
    obtain ⟨hf, hrest⟩ := hfair
    have hwf := batch_wf b s h hf.perm
    obtain ⟨h1, h2⟩ := ih (b.run s) hwf hrest
    refine ⟨h1, ?_⟩
    have hb := batch_pot a g b.n b.oc b.order s b.now h.qok.inj hf
    have hb' : pot a g (b.run s).queue + cnt a g s.queue ≤ pot a g s.queue := hb
    simp only [runBatches, List.length_cons]
    -- if anything for `(a, g)` is queued the batch pays at least one attempt
    by_cases h0 : pot a g s.queue = 0
    · omega
    · have hc : 0 < cnt a g s.queue := by
        by_cases hc : cnt a g s.queue = 0
        · exfalso
          apply h0
          have hz := sumOf_eq_zero _ _ hc
          have : ∀ x ∈ s.queue, (fun x : QItem => wP a g x.probe) x ≤ (fun _ => 0) x := by
            intro x hx
            have := hz x hx
            show wP a g x.probe ≤ 0
            unfold cP at this
            unfold wP
            split
            · rename_i hh; rw [if_pos hh] at this; omega
            · exact Nat.le_refl _
          have h' := sumOf_le _ _ _ this
          have := sumOf_zero s.queue
          unfold pot; omega
        · omega
      omega

/-- the potential is at most `maxRetries + 1` per queued probe for `(a, g)` (for probes with a non-negative retry count
and a budget of at most `m`) -/
theorem pot_le (a : Addr) (g : Goal) (m : Int) (q : List QItem)
    (h : ∀ x ∈ q, x.probe.addr = a → x.probe.goal = g → 0 ≤ x.probe.retries ∧ x.probe.maxRetries ≤ m) :
    pot a g q ≤ cnt a g q * (m.toNat + 1) := by
  induction q with
  | nil => simp [pot, cnt, sumOf_nil]
  | cons x t ih =>
    have ih' := ih (fun y hy => h y (List.mem_cons_of_mem _ hy))
    unfold pot cnt at ih' ⊢
    rw [sumOf_cons, sumOf_cons, Nat.add_mul]
    have hx := h x List.mem_cons_self
    have : wP a g x.probe ≤ cP a g x.probe * (m.toNat + 1) := by
      unfold wP cP forAG
      split
      · rename_i hh
        have hh' : x.probe.addr = a ∧ x.probe.goal = g := by simpa using hh
        have := hx hh'.1 hh'.2
        simp only [budget, Nat.one_mul]; omega
      · simp
    omega

/-- **one handled probe, seen from its mark**: in a well-keyed store where the server of the probe is stored, a fault-free
`probeserver.Execute` for `prb` either CLEARS the retry mark of the probe's goal on that server (a success, or a
failure with no retry left) leaving the queue alone, or (failure with retries left) appends to the queue the same probe
with `retries + 1`, non-expiring, ready after the backoff `⌊e^(retries+1)⌋` seconds. -/
theorem probe_step_progress (prb : Probe) (oc : Option ProbeResult) (s : AbsState) (now : Int) (hko : KeyedOk s)
    (ex : SRow) (hrow : s.servers[prb.addr.key]? = some ex) :
    ((oc ≠ none ∨ prb.retries ≥ prb.maxRetries) ∧ ((UC.probe prb oc).run s now).1.queue = s.queue ∧
      ∀ row, ((UC.probe prb oc).run s now).1.servers[prb.addr.key]? = some row →
        Status.has row.svr.status (retryMark prb.goal) = false) ∨
    (oc = none ∧ prb.retries < prb.maxRetries ∧
      ((UC.probe prb oc).run s now).1.queue =
        s.queue ++ [⟨s.nextId, { prb with retries := prb.retries + 1 }, now + second * expFloor (prb.retries + 1), none⟩]) := by
  have hk : Keyed s := fun k row h => (hko k row h).1
  have hkey := hk _ _ hrow
  rcases probe_run_queue prb oc s now with ⟨hq, hn⟩ | ⟨ho, hlt, _, hq, _⟩
  · cases oc with
    | some res =>
      refine Or.inl ⟨Or.inl (by simp), hq, fun row hr => ?_⟩
      rw [probe_run_success _ _ _ _ ex hrow hk] at hr
      have hkey' : (handleSuccess prb.goal res now ex.svr).addr.key = prb.addr.key := by rw [handleSuccess_addr]; exact hkey
      rw [← hkey', save_row] at hr
      cases hr
      show Status.has (handleSuccess prb.goal res now ex.svr).status (retryMark prb.goal) = false
      rw [handleSuccess_status]
      exact unmark_success _ _
    | none =>
      by_cases hout : prb.retries < prb.maxRetries
      · -- a retry advances the id counter: the first alternative of `probe_run_queue` is impossible
        exfalso
        have hout' : ¬ prb.retries ≥ prb.maxRetries := by omega
        have hg : s.getRow prb.addr = some ex := hrow
        have : ((UC.probe prb none).run s now).1.nextId = s.nextId + 1 := by
          simp only [UC.probe, Prog.run_call, Call.exec, AbsState.get, hg, probeRetry, Probe.incRetries, hout', if_false,
            Bool.not_true]
          simp only [Bool.false_eq_true, if_false, Prog.run_call, Call.exec]
          split <;> simp only [Prog.run_pure, update_nextId, AbsState.enqueue, Bool.false_eq_true, if_false]
        omega
      · refine Or.inl ⟨Or.inr (by omega), hq, fun row hr => ?_⟩
        rw [probe_run_fail _ _ _ ex hrow hk (by omega)] at hr
        have hkey' : (handleFailure prb.goal ex.svr).addr.key = prb.addr.key := hkey
        rw [← hkey', save_row] at hr
        cases hr
        exact unmark_failure _ _
  · exact Or.inr ⟨ho, hlt, hq⟩

end Swat4.C16.Progress

namespace Swat4.C16
open Swat4 Swat4.UC Std Strict Progress

/-- **C16 (progress surrogate — "always eventually probed again" has no liveness theorem; this is what can be said of
the prober batches alone).**  Fix a server address `a` (valid port) and a goal `g`.  Start from any store that is
`BackedStrict`, well keyed with valid addresses and has a well-formed queue (`Progress.WF`), and run any sequence `bs`
of fault-free prober batches (`PopMany(n)`, then `probeserver.Execute` for every popped probe, any outcome per probe),
nothing else writing in between.  Scheduling hypotheses, per batch (`Progress.Fair`, checked in the state the batch
starts from): `0 < n`; at most `n` items are ready at the batch's clock (the pop takes all of them); the runner handles
the batch in some permutation of it; every queued probe for `(a, g)` is ready at the batch's clock (the clock is past
its backoff).  Then, with `pot` = the attempts all queued probes for `(a, g)` still have together
(`Σ (maxRetries − retries) + 1`):

1. if `a` is stored and carries the retry mark of `g`, a probe for `(a, g)` is queued: `pot > 0` (this is `BackedStrict`);
2. the invariants hold again after the batches, and every batch that finds a probe for `(a, g)` queued pays at least one
   attempt: `pot` after `bs` is at most `pot − |bs|`;
3. hence once `|bs| ≥ pot` — for a single queued probe with `retries = 0` that is `maxRetries + 1` batches
   (`Progress.pot_le`) — NO probe for `(a, g)` is queued any more and `a`, if still stored, does NOT carry the mark:
   every chain of retries ends, with the mark cleared by a success or by the final failure
   (`Progress.probe_step_progress` says which, probe by probe).

What this does not say: that such batches are ever run (the prober's ticker and the clock are outside the model), and
nothing about marks whose probe a crashed prober held (`C16_holder_counterexample`). -/
theorem probe_progress (a : Addr) (g : Goal) (ha : a.PortOk) (s : AbsState) (hwf : Progress.WF s)
    (bs : List Progress.Batch) (hfair : Progress.FairRun a g bs s) :
    (∀ row, s.servers[a.key]? = some row → Status.has row.svr.status (retryMark g) = true → 0 < Progress.pot a g s.queue) ∧
    Progress.WF (Progress.runBatches bs s) ∧
    Progress.pot a g (Progress.runBatches bs s).queue ≤ Progress.pot a g s.queue - bs.length ∧
    (Progress.pot a g s.queue ≤ bs.length →
      (∀ x ∈ (Progress.runBatches bs s).queue, ¬ (x.probe.addr = a ∧ x.probe.goal = g)) ∧
      ∀ row, (Progress.runBatches bs s).servers[a.key]? = some row → Status.has row.svr.status (retryMark g) = false) := by
  have canon : ∀ (t : AbsState), Progress.WF t → ∀ row, t.servers[a.key]? = some row →
      Status.has row.svr.status (retryMark g) = true → ∃ q ∈ t.queue, q.probe.addr = a ∧ q.probe.goal = g := by
    intro t ht row hrow hm
    obtain ⟨q, hq, _, hqa, hqg⟩ := ht.backed _ row g hrow hm
    have hr := ht.keyed _ row hrow
    have : row.svr.addr = a := Addr.key_inj hr.2 ha hr.1
    exact ⟨q, hq, hqa.trans this, hqg⟩
  obtain ⟨h1, h2⟩ := Progress.runBatches_pot a g bs s hwf hfair
  refine ⟨fun row hrow hm => ?_, h1, h2, fun hle => ?_⟩
  · obtain ⟨q, hq, hqa, hqg⟩ := canon s hwf row hrow hm
    refine Progress.sumOf_pos _ _ q hq ?_
    simp only [Progress.wP, Progress.forAG, hqa, hqg, and_self, decide_true, if_true, Progress.budget]
    omega
  · have hz : Progress.pot a g (Progress.runBatches bs s).queue = 0 := by omega
    have hnone := Progress.pot_zero_iff_none a g _ hz
    refine ⟨hnone, fun row hrow => ?_⟩
    cases hm : Status.has row.svr.status (retryMark g) with
    | false => rfl
    | true =>
      obtain ⟨q, hq, hqa, hqg⟩ := canon _ h1 row hrow hm
      exact absurd ⟨hqa, hqg⟩ (hnone q hq)

/-- the three batches of the example: batch size 5, every probe fails, handled in pop order, at clocks 1000,
3·10⁹ and 2·10¹⁰ (past the backoffs `2 s` and `7 s` of the re-queued probes) -/
def W.progressBatches : List Progress.Batch :=
  [⟨5, fun _ => none, id, 1000⟩, ⟨5, fun _ => none, id, 3000000000⟩, ⟨5, fun _ => none, id, 20000000000⟩]

/-- non-vacuity of `probe_progress`: `W.staleState` (A marked `port_retry`, its probe with `retries = 0`,
`maxRetries = 2` queued: potential 3) satisfies `Progress.WF`; the three failing batches are `Fair`; and the conclusion
is what the model computes: after them the queue is empty and A no longer carries `port_retry` (it carries `no_port`:
the final failure).  After two batches the mark is still there, backed by the probe with `retries = 2`. -/
example : Progress.WF W.staleState ∧ Progress.FairRun W.A .port W.progressBatches W.staleState ∧
    Progress.pot W.A .port W.staleState.queue = 3 ∧
    (Progress.runBatches W.progressBatches W.staleState).queue = [] ∧
    ((Progress.runBatches W.progressBatches W.staleState).servers[W.A.key]?).map
      (fun row => (Status.has row.svr.status Status.portRetry, Status.has row.svr.status Status.noPort)) = some (false, true) ∧
    (Progress.runBatches (W.progressBatches.take 2) W.staleState).queue.map (fun q => (q.id, q.probe.retries, q.ready, q.expires)) =
      [(2, 2, 10000000000, none)] ∧
    ((Progress.runBatches (W.progressBatches.take 2) W.staleState).servers[W.A.key]?).map
      (fun row => Status.has row.svr.status Status.portRetry) = some true := by
  have hq1 : (Progress.Batch.run ⟨5, fun _ => none, id, 1000⟩ W.staleState).queue =
      [⟨1, ⟨W.A, 10480, .port, 1, 2⟩, 2000001000, none⟩] := by decide
  have hq2 : (Progress.Batch.run ⟨5, fun _ => none, id, 3000000000⟩
      (Progress.Batch.run ⟨5, fun _ => none, id, 1000⟩ W.staleState)).queue =
      [⟨2, ⟨W.A, 10480, .port, 2, 2⟩, 10000000000, none⟩] := by decide
  refine ⟨⟨?_, ?_, ?_, ?_, ?_⟩, ⟨⟨by decide, by decide, fun _ => List.Perm.refl _, ?_⟩,
    ⟨by decide, by rw [hq1]; decide, fun _ => List.Perm.refl _, ?_⟩,
    ⟨by decide, by rw [hq2]; decide, fun _ => List.Perm.refl _, ?_⟩, trivial⟩, by decide, by decide, by decide, by decide, by decide⟩
  · rw [← Strict.backedStrictB_iff]; decide
  · intro k row h
    obtain ⟨rfl, rfl⟩ := W.state_row k row h
    exact ⟨rfl, by unfold Addr.PortOk; decide⟩
  · exact Strict.idInj_of_nodup (by decide)
  · intro x hx
    have : x = ⟨0, W.probe, 0, none⟩ := by simpa [W.staleState] using hx
    subst this; decide
  · intro x hx
    have : x = ⟨0, W.probe, 0, none⟩ := by simpa [W.staleState] using hx
    subst this
    unfold Addr.PortOk; decide
  · intro x hx _ _
    have : x = ⟨0, W.probe, 0, none⟩ := by simpa [W.staleState] using hx
    subst this; decide
  · intro x hx _ _
    rw [hq1] at hx
    rw [List.mem_singleton.1 hx]; decide
  · intro x hx _ _
    rw [hq2] at hx
    rw [List.mem_singleton.1 hx]; decide

/-! ## the strict twin of `probeRetry_backed` (third outside review, item 3) -/

open Strict in
/-- **the retry path on its own, strict**: `probeRetry_backed` for `BackedStrict` — `probeserver.retry`, entered with the record
the lookup returned (it lives under the probe's key), keeps every OTHER mark backed by a NON-EXPIRING probe at every crash point
and under every fault placement: the re-queue (`AddBetween(prb, now + delay, NC)`: no expiry, `retry_order`) precedes the mark.
Clause of C16 covered: "a retry mark is set only together with a queued probe", for the mark-setting path of the prober, with the
backing probe required not to expire. -/
theorem probeRetry_backed_strict (cs : List Choice) (prb : Probe) (svr : Server) (t : Int) (now : Int) (s : AbsState)
    (hb : BackedExceptS s prb.addr prb.goal) (hk : Keyed s)
    (hrow : s.servers[prb.addr.key]? = some ⟨svr, t⟩) (hcanon : svr.addr = prb.addr) :
    BackedExceptS (Prog.runChoices cs (UC.probeRetry prb svr) s now) prb.addr prb.goal := by
  refine ((Strict.probeRetry_good (fun _ => True) prb svr (E := fun a g => a = svr.addr ∧ Marked svr g) (R := fun x => x = prb.addr)
    hcanon rfl (by rw [hcanon]) (fun g hg => ⟨rfl, hg⟩)).runChoices_kinv (X := fun a' g' => a' = prb.addr ∧ g' = prb.goal)
    cs s now ⟨hb, hk, ?_, ?_, fun _ _ _ => trivial, fun _ _ => trivial⟩).1
  · rintro a g ⟨rfl, hm⟩
    exact hb _ _ g hrow hm
  · intro x hx row hr
    subst hx
    rw [hrow] at hr; cases hr; exact hcanon

open Strict in
/-- non-vacuity of `probeRetry_backed_strict`'s hypotheses: the holder-loss witness `W.state` (A marked `port_retry`, the only
port probe for A popped and held) is `BackedExceptS … A port`, keyed, and A's record is stored under the probe's key with the
probe's address; the retry run to completion re-queues a non-expiring probe (the store is `BackedStrict` again). -/
example : BackedExceptS W.state W.probe.addr W.probe.goal ∧ Keyed W.state ∧
    W.state.servers[W.probe.addr.key]? = some ⟨W.svr, 0⟩ ∧ W.svr.addr = W.probe.addr ∧
    backedStrictB ((UC.probeRetry W.probe W.svr).run W.state 5).1 = true := by
  refine ⟨?_, W.state_keyed, by decide, rfl, by decide⟩
  intro k row g h hm
  obtain ⟨rfl, rfl⟩ := W.state_row k row h
  cases g with
  | details => exact absurd hm (by decide)
  | port => exact Or.inl ⟨rfl, rfl⟩

end Swat4.C16
