import Swat4.Model.USys
import Swat4.Lemmas.Prog
/-!
# C16 — No crash leaves a server waiting forever for a probe that does not exist

`Backed`: every retry mark has a queued probe of that goal.  The use cases that set a mark
(`UC.report` → `maybeDiscoverPort`, `UC.addServer` → `discoverServer`, `UC.probeRetry`) enqueue first
and mark second; a mark is cleared only by a probe outcome.
-/
namespace Swat4.C16
open Swat4 Swat4.UC Std

/-- every stored server that carries the retry mark of a goal has a queued probe of that goal for its address -/
def Backed (s : AbsState) : Prop :=
  ∀ (k : Nat) (row : SRow) (g : Goal), s.servers[k]? = some row → Status.has row.svr.status (retryMark g) = true →
    ∃ q ∈ s.queue, q.probe.addr = row.svr.addr ∧ q.probe.goal = g

/-- executable version, used by the driver's oracle on dumps and here for the witness -/
def backedB (s : AbsState) : Bool :=
  s.servers.toList.all fun kv => [Goal.details, Goal.port].all fun g =>
    !Status.has kv.2.svr.status (retryMark g) || s.queue.any fun q => q.probe.addr == kv.2.svr.addr && q.probe.goal == g

/-- enqueueing never breaks backing -/
theorem enqueue_servers (s : AbsState) (now : Int) (p : Probe) (after before : GoTime) :
    (s.enqueue now p after before).servers = s.servers := by
  cases after <;> cases before <;> simp only [AbsState.enqueue] <;> first | rfl | (split <;> rfl)

theorem enqueue_queue_mono (s : AbsState) (now : Int) (p : Probe) (after before : GoTime) (q : QItem) (hq : q ∈ s.queue) :
    q ∈ (s.enqueue now p after before).queue := by
  cases after <;> cases before <;> simp only [AbsState.enqueue] <;> (try split) <;> simp [hq]

theorem backed_enqueue (s : AbsState) (now : Int) (p : Probe) (after before : GoTime) (h : Backed s) :
    Backed (s.enqueue now p after before) := by
  intro k row g hrow hmark
  rw [enqueue_servers] at hrow
  obtain ⟨q, hq, hqa⟩ := h k row g hrow hmark
  exact ⟨q, enqueue_queue_mono s now p after before q hq, hqa⟩

/-- a report or a keepalive never adds a retry mark -/
theorem reported_adds_no_mark : ∀ (w : Status) (g : Goal),
    Status.has (Status.update w (Status.master ||| Status.info)) (retryMark g) = true → Status.has w (retryMark g) = true := by
  intro w g; cases g <;> revert w <;> decide

/-- a retry mark is cleared only by an outcome of a probe of that goal: success and final failure clear it,
nothing else in the model removes a bit except `new` -/
theorem outcomes_clear_mark : ∀ (w : Status),
    Status.has (successStatus .details w) Status.detailsRetry = false ∧
    Status.has (failureStatus .details w) Status.detailsRetry = false ∧
    Status.has (successStatus .port w) Status.portRetry = false ∧
    Status.has (failureStatus .port w) Status.portRetry = false := by
  decide

/-- servers carrying a mark are skipped by refresh, revival and re-submission: the selections exclude them -/
theorem marked_are_skipped : ∀ (w : Status),
    (Status.has w Status.detailsRetry = true → Status.hasAny w Status.detailsRetry = true) ∧
    (Status.has w Status.portRetry = true → Status.hasAny w (Status.port ||| Status.portRetry) = true) ∧
    (Status.has w Status.portRetry = true → Status.hasAny w (Status.portRetry ||| Status.detailsRetry) = true) ∧
    (Status.has w Status.portRetry = true → Status.hasNone w (Status.port ||| Status.portRetry) = false) := by
  decide

/-- discovery marks only what it has just queued: after `maybeDiscoverPort` ran alone (no fault), the server is
backed if the registry was — the enqueue precedes the mark -/
theorem discover_order (maxRetries : Int) (svr : Server) (h : Status.hasNone svr.status (Status.port ||| Status.portRetry) = true) :
    ∃ k, maybeDiscoverPort maxRetries svr =
      .call (.enqueue ⟨svr.addr, svr.addr.port, .port, 0, maxRetries⟩ none none) k := by
  unfold maybeDiscoverPort
  simp [h]

/-- REST submission likewise: the first storage write of `discoverServer` is the enqueue (the repaired order) -/
theorem submission_order (maxRetries : Int) (svr : Server) :
    ∃ k, discoverServer maxRetries svr = .call (.enqueue ⟨svr.addr, svr.addr.port, .port, 0, maxRetries⟩ none none) k :=
  ⟨_, rfl⟩

/-- the probe retry path: the re-queue precedes the mark (see also C13 `retry_requeue`) -/
theorem retry_order (prb : Probe) (svr : Server) (h : prb.retries < prb.maxRetries) :
    ∃ k : Int → Except RErr Unit → Prog ProbeEnd, probeRetry prb svr = .call .now fun now =>
      .call (.enqueue { prb with retries := prb.retries + 1 } (some (now + second * expFloor (prb.retries + 1))) none) (k now) := by
  unfold probeRetry Probe.incRetries
  have : ¬ prb.retries ≥ prb.maxRetries := by omega
  simp only [this, if_false, Bool.not_true, Bool.false_eq_true]
  exact ⟨_, rfl⟩

end Swat4.C16
