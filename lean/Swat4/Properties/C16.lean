import Swat4.Lemmas.FactsExtra16
import Swat4.Model.USys
import Swat4.Lemmas.Prog
import Swat4.Lemmas.Backed
import Swat4.Lemmas.BackedSys
import Swat4.Lemmas.BackedStrict
import Swat4.Lemmas.MarkKept
import Swat4.Lemmas.BackedPop
import Swat4.Drv.UCRun
/-!
# C16 — No crash leaves a server waiting forever for a probe that does not exist

`Backed` (`Lemmas/Backed.lean`): every retry mark has a queued probe of that goal.  The use cases that set a mark
(`UC.report` → `maybeDiscoverPort`, `UC.addServer` → `discoverServer`, `UC.probeRetry`) enqueue first
and mark second; a mark is cleared only by a probe outcome.

A client death or a storage fault inside a repository call means, at the level of the use-case programs: the
program stops before one of its calls or after it, or the call returns the storage error with or without having
taken effect and the program continues on its error branch.  `Prog.runChoices cs p s now` is such a run: every
prefix of every behaviour of `p`, with any mix of faults, is `runChoices cs` for some `cs`.  The theorems below
say that `Backed` holds after **every** such run of every use case that writes the registry or the queue, except
for the one mark whose probe the running prober itself holds (`BackedExcept`) — and that this exception is real
(`C16_holder_counterexample`, the known finding).
-/
namespace Swat4.C16
open Swat4 Swat4.UC Std

/-- enqueueing never breaks backing -/
theorem backed_enqueue (s : AbsState) (now : Int) (p : Probe) (after before : GoTime) (h : Backed s) :
    Backed (s.enqueue now p after before) := by
  intro k row g hrow hmark
  rw [enqueue_servers] at hrow
  obtain ⟨q, hq, hqa⟩ := h k row g hrow hmark
  exact ⟨q, enqueue_queue_mono s now p after before q hq, hqa⟩

/-- a report or a keepalive never adds a retry mark -/
theorem reported_adds_no_mark : ∀ (w : Status) (g : Goal),
    Status.has (Status.update w (Status.master ||| Status.info)) (retryMark g) = true → Status.has w (retryMark g) = true := by
  intro w g; cases g <;> revert w <;> decide

/-- a retry mark is cleared only by an outcome of a probe of that goal: success and final failure clear it,
nothing else in the model removes a bit except `new` -/
theorem outcomes_clear_mark : ∀ (w : Status),
    Status.has (successStatus .details w) Status.detailsRetry = false ∧
    Status.has (failureStatus .details w) Status.detailsRetry = false ∧
    Status.has (successStatus .port w) Status.portRetry = false ∧
    Status.has (failureStatus .port w) Status.portRetry = false := by
  decide

/-- the filter set `refreshservers.Execute` queries with (`refreshservers.go:62`:
`WithStatus(ds.Port).NoStatus(ds.DetailsRetry)`) -/
def refreshFS : FilterSet := { withStatus := Status.port, noStatus := Status.detailsRetry }

/-- the filter set `reviveservers.Execute` queries with (`reviveservers.go:76-80`:
`ActiveAfter(minScope).ActiveBefore(maxScope).NoStatus(ds.Port | ds.PortRetry)`) -/
def reviveFS (minScope maxScope : Int) : FilterSet :=
  { activeAfter := some minScope, activeBefore := some maxScope, noStatus := Status.port ||| Status.portRetry }

/-- these are the filter sets the modelled use cases issue: the first call of `UC.refresh` / `UC.revive` is the
filtered query with exactly them, and the probes are made from its reply only -/
theorem usecases_filter_sets (m d lo hi minC maxC : Int) (draws : Nat → Int) :
    (UC.refresh m d = .call (.filterServers refreshFS) fun r =>
      match r with
      | .error e => pure (.error (.repo e))
      | .ok svrs => (enqueueAll (fun s => (⟨s.addr, s.queryPort, .details, 0, m⟩, none, some d)) svrs 0).bind fun n => pure (.ok n)) ∧
    (UC.revive m lo hi minC maxC d draws = .call (.filterServers (reviveFS lo hi)) fun r =>
      match r with
      | .error e => pure (.error (.repo e))
      | .ok svrs => (enqueueAll (fun s => (⟨s.addr, s.addr.port, .port, 0, m⟩,
          some (selectCountdown minC maxC (draws s.addr.key)), some d)) svrs 0).bind fun n => pure (.ok n)) :=
  ⟨rfl, rfl⟩

/-- a status word with the details-retry bit fails refresh's `noStatus`; one with the port-retry bit fails revival's -/
theorem mark_fails_noStatus : ∀ (w : Status),
    (Status.has w Status.detailsRetry = true → Status.hasAny w refreshFS.noStatus = true) ∧
    (Status.has w Status.portRetry = true → Status.hasAny w (Status.port ||| Status.portRetry) = true) := by
  decide

/-- **servers carrying a retry mark are skipped by refresh, revival, re-submission and re-report** — stated on the filter
sets and branches the use cases actually use (`usecases_filter_sets`):
 1. a row carrying `details_retry` does not satisfy refresh's filter (`refreshservers.go:62`), so no server in the reply of
    refresh's query carries it;
 2. a row carrying `port_retry` does not satisfy revival's filter, whatever the scope window (`reviveservers.go:76-80`);
 3. `addserver.maybeDiscoverServer` for a stored record carrying either mark returns at once — `ServerHasDetails` (when it
    also has details) or `ErrServerDiscoveryInProgress` — without any repository call (`addserver.go:116-126`);
 4. `reportserver.maybeDiscoverPort` for a record carrying `port_retry` returns at once (`reportserver.go:160`). -/
theorem marked_are_skipped :
    (∀ (row : SRow), Status.has row.svr.status Status.detailsRetry = true → refreshFS.pred row = false) ∧
    (∀ (s : AbsState) (sv : Server), sv ∈ s.filter refreshFS → Status.has sv.status Status.detailsRetry = false) ∧
    (∀ (lo hi : Int) (row : SRow), Status.has row.svr.status Status.portRetry = true → (reviveFS lo hi).pred row = false) ∧
    (∀ (s : AbsState) (lo hi : Int) (sv : Server), sv ∈ s.filter (reviveFS lo hi) → Status.has sv.status Status.portRetry = false) ∧
    (∀ (m : Int) (svr : Server), Status.hasAny svr.status (Status.portRetry ||| Status.detailsRetry) = true →
      maybeDiscoverServer m svr = pure (.hasDetails svr) ∨ maybeDiscoverServer m svr = pure .inProgress) ∧
    (∀ (m : Int) (svr : Server), Status.has svr.status Status.portRetry = true → maybeDiscoverPort m svr = pure ()) := by
  have h1 : ∀ (row : SRow), Status.has row.svr.status Status.detailsRetry = true → refreshFS.pred row = false := by
    intro row h
    have := (mark_fails_noStatus row.svr.status).1 h
    simp [FilterSet.pred, this]
  have h3 : ∀ (lo hi : Int) (row : SRow), Status.has row.svr.status Status.portRetry = true → (reviveFS lo hi).pred row = false := by
    intro lo hi row h
    have := (mark_fails_noStatus row.svr.status).2 h
    simp [FilterSet.pred, reviveFS, this]
  have sel : ∀ (s : AbsState) (fs : FilterSet) (sv : Server), sv ∈ s.filter fs → ∃ row : SRow, row.svr = sv ∧ fs.pred row = true := by
    intro s fs sv hsv
    unfold AbsState.filter at hsv
    simp only [List.mem_map, List.mem_filter] at hsv
    obtain ⟨kv, ⟨_, hp⟩, rfl⟩ := hsv
    exact ⟨kv.2, rfl, hp⟩
  refine ⟨h1, ?_, h3, ?_, ?_, ?_⟩
  · intro s sv hsv
    obtain ⟨row, rfl, hp⟩ := sel s _ sv hsv
    cases hm : Status.has row.svr.status Status.detailsRetry with
    | false => rfl
    | true => rw [h1 row hm] at hp; cases hp
  · intro s lo hi sv hsv
    obtain ⟨row, rfl, hp⟩ := sel s _ sv hsv
    cases hm : Status.has row.svr.status Status.portRetry with
    | false => rfl
    | true => rw [h3 lo hi row hm] at hp; cases hp
  · intro m svr h
    unfold maybeDiscoverServer
    by_cases hd : Status.has svr.status Status.details = true
    · exact Or.inl (by rw [if_pos hd])
    · exact Or.inr (by rw [if_neg hd, if_pos h])
  · intro m svr h
    have : Status.hasNone svr.status (Status.port ||| Status.portRetry) = false := by
      revert h; generalize svr.status = w; revert w; decide
    unfold maybeDiscoverPort
    simp [this]

/-- **re-submission of a marked server touches nothing**: when the record stored under the submitted address carries a retry
mark, `addserver.Execute` leaves registry, instance table and queue exactly as they were — run to completion, stopped
anywhere, or with its lookup failing — in particular it enqueues no second probe and cannot clear the mark -/
theorem addServer_marked_noop (z : Fields) (m : Int) (a : Addr) (s : AbsState) (now : Int) (row : SRow)
    (hrow : s.getRow a = some row)
    (hmark : Status.hasAny row.svr.status (Status.portRetry ||| Status.detailsRetry) = true) :
    ((UC.addServer z m a).run s now).1 = s ∧ ∀ cs, (UC.addServer z m a).runChoices cs s now = s := by
  have hget : s.get a = .ok row.svr := by unfold AbsState.get; rw [hrow]
  have hk := marked_are_skipped.2.2.2.2.1 m row.svr hmark
  constructor
  · simp only [UC.addServer, Prog.run_call, Call.exec, hget]
    rcases hk with hk | hk <;> rw [hk] <;> rfl
  · intro cs
    cases cs with
    | nil => rfl
    | cons c cs =>
      cases c
      · simp only [UC.addServer, Prog.runChoices, Call.exec, hget]
        rcases hk with hk | hk <;> rw [hk] <;> cases cs <;> rfl
      · simp only [UC.addServer, Prog.runChoices, Call.faultReply]
        cases cs <;> rfl
      · simp only [UC.addServer, Prog.runChoices, Call.faultReply, Call.exec]
        cases cs <;> rfl

/-- non-vacuity: `W.state` stores A with the port-retry mark: revival does not select it, re-submission is a no-op -/
example : W.state.filter (reviveFS (-100) 100) = [] ∧ ((UC.addServer [] 2 W.A).run W.state 5).1.queue = [] := by
  refine ⟨by decide, ?_⟩
  have h := (addServer_marked_noop [] 2 W.A W.state 5 ⟨W.svr, 0⟩ (by decide) (by decide)).1
  rw [h]; rfl

/-- discovery marks only what it has just queued: after `maybeDiscoverPort` ran alone (no fault), the server is
backed if the registry was — the enqueue precedes the mark -/
theorem discover_order (maxRetries : Int) (svr : Server) (h : Status.hasNone svr.status (Status.port ||| Status.portRetry) = true) :
    ∃ k, maybeDiscoverPort maxRetries svr =
      .call (.enqueue ⟨svr.addr, svr.addr.port, .port, 0, maxRetries⟩ none none) k := by
  unfold maybeDiscoverPort
  simp [h]

/-- REST submission likewise: the first storage write of `discoverServer` is the enqueue (the repaired order) -/
theorem submission_order (maxRetries : Int) (svr : Server) :
    ∃ k, discoverServer maxRetries svr = .call (.enqueue ⟨svr.addr, svr.addr.port, .port, 0, maxRetries⟩ none none) k :=
  ⟨_, rfl⟩

/-- the probe retry path: the re-queue precedes the mark (see also C13 `retry_requeue`) -/
theorem retry_order (prb : Probe) (svr : Server) (h : prb.retries < prb.maxRetries) :
    ∃ k : Int → Except RErr Unit → Prog ProbeEnd, probeRetry prb svr = .call .now fun now =>
      .call (.enqueue { prb with retries := prb.retries + 1 } (some (now + second * expFloor (prb.retries + 1))) none) (k now) := by
  unfold probeRetry Probe.incRetries
  have : ¬ prb.retries ≥ prb.maxRetries := by omega
  simp only [this, if_false, Bool.not_true, Bool.false_eq_true]
  exact ⟨_, rfl⟩


/-- **`runChoices` is the model's own small-step semantics**: one choice is one `Prog.step1` (the call succeeds)
or one `Prog.stepFault` (it fails, without / with effect) of the interleaving model `USys`; an exhausted list is
a client that died at that call boundary.  So the theorems below quantify over exactly the crash and fault
placements the correspondence run injects. -/
theorem runChoices_steps {α : Type} (p : Prog α) (s : AbsState) (now : Int) (cs : List Choice) :
    p.runChoices [] s now = s ∧
    p.runChoices (.ok :: cs) s now = (p.step1 s now).2.runChoices cs (p.step1 s now).1 now ∧
    p.runChoices (.faultNoEffect :: cs) s now = (p.stepFault false s now).2.runChoices cs (p.stepFault false s now).1 now ∧
    p.runChoices (.faultEffect :: cs) s now = (p.stepFault true s now).2.runChoices cs (p.stepFault true s now).1 now := by
  cases p with
  | ret a => refine ⟨rfl, ?_, ?_, ?_⟩ <;> (cases cs <;> rfl)
  | call c k =>
    refine ⟨rfl, rfl, ?_, ?_⟩
    · simp only [Prog.runChoices, Prog.stepFault]
      cases c.faultReply <;> rfl
    · simp only [Prog.runChoices, Prog.stepFault]
      cases c.faultReply <;> rfl

/-! ## every crash point, every fault placement -/

/-- **heartbeat-triggered discovery.**  From a backed, keyed store, `reportserver.Execute` leaves every retry mark
backed wherever it stops (`cs` exhausted = the reporter died at that call boundary) and whichever of its calls
fail, before or after taking effect. -/
theorem report_backed (cs : List Choice) (zeroInfo : Fields) (maxRetries : Int) (req : ReportReq) (now : Int) (s : AbsState)
    (hb : Backed s) (hk : Keyed s) : Backed (Prog.runChoices cs (UC.report zeroInfo maxRetries req) s now) :=
  ((report_good (fun _ => True) zeroInfo maxRetries req trivial).backed cs s now hb hk).1

/-- **REST submission** (`addserver.Execute`, after the repair: enqueue first, mark second): the same. -/
theorem addServer_backed (cs : List Choice) (zeroInfo : Fields) (maxRetries : Int) (a : Addr) (now : Int) (s : AbsState)
    (hb : Backed s) (hk : Keyed s) : Backed (Prog.runChoices cs (UC.addServer zeroInfo maxRetries a) s now) :=
  ((addServer_good (fun _ => True) zeroInfo maxRetries a trivial).backed cs s now hb hk).1

/-- **the prober, every outcome, every crash point, every fault placement.**  The prober holds the popped probe
`prb`, so the store is backed except possibly for the mark `(prb.addr, prb.goal)`.  Whatever the outcome (success,
retry with budget left, final failure) and wherever `probeserver.Execute` stops or fails, no *other* mark loses its
backing.  `hcanon`: the record stored under the probe's key carries the probe's address (probes are made from
stored records; without it the model's `Addr.key`, which is not injective on out-of-range ports, would let the
retry mark land on a record with another address). -/
theorem probe_backed (cs : List Choice) (prb : Probe) (outcome : Option ProbeResult) (now : Int) (s : AbsState)
    (hb : BackedExcept s prb.addr prb.goal) (hk : Keyed s)
    (hcanon : ∀ (row : SRow), s.servers[prb.addr.key]? = some row → row.svr.addr = prb.addr) :
    BackedExcept (Prog.runChoices cs (UC.probe prb outcome) s now) prb.addr prb.goal :=
  ((probe_good (fun _ => True) prb outcome (E := fun _ _ => False) (R := fun x => x = prb.addr) rfl).backedExcept
    cs s now hb hk hcanon).1

/-- the retry path on its own (`probeserver.retry`, entered with the record the lookup returned: it lives under
the probe's key): the same, at every crash point and fault placement — the re-queue precedes the mark. -/
theorem probeRetry_backed (cs : List Choice) (prb : Probe) (svr : Server) (t : Int) (now : Int) (s : AbsState)
    (hb : BackedExcept s prb.addr prb.goal) (hk : Keyed s)
    (hrow : s.servers[prb.addr.key]? = some ⟨svr, t⟩) (hcanon : svr.addr = prb.addr) :
    BackedExcept (Prog.runChoices cs (UC.probeRetry prb svr) s now) prb.addr prb.goal := by
  refine ((probeRetry_good (fun _ => True) prb svr (E := fun a g => a = svr.addr ∧ Marked svr g) (R := fun x => x = prb.addr)
    hcanon rfl (by rw [hcanon]) (fun g hg => ⟨rfl, hg⟩)).runChoices_kinv (X := fun a' g' => a' = prb.addr ∧ g' = prb.goal)
    cs s now ⟨hb, hk, ?_, ?_, fun _ _ _ => trivial, fun _ _ => trivial⟩).1
  · rintro a g ⟨rfl, hm⟩
    exact hb _ _ g hrow hm
  · intro x hx row hr
    subst hx
    rw [hrow] at hr; cases hr; exact hcanon

/-- **the holder ran to completion without a fault**: the store is fully `Backed` again, whatever the outcome —
success and final failure clear the mark of the probe's goal, a retry is backed by the re-queued probe.  Together
with `probe_backed` this makes the known finding precise: the only way the mark `(prb.addr, prb.goal)` is left
unbacked is that its holder stopped early or took an error branch. -/
theorem probe_complete_backed (prb : Probe) (outcome : Option ProbeResult) (now : Int) (s : AbsState)
    (hb : BackedExcept s prb.addr prb.goal) (hk : Keyed s)
    (hcanon : ∀ (row : SRow), s.servers[prb.addr.key]? = some row → row.svr.addr = prb.addr) :
    Backed ((UC.probe prb outcome).run s now).1 ∧
    ∀ n, 4 ≤ n → Backed (Prog.runChoices (List.replicate n Choice.ok) (UC.probe prb outcome) s now) := by
  have h := probe_run_backed prb outcome s now hb hk hcanon
  refine ⟨h, fun n hn => ?_⟩
  rw [runChoices_all_ok _ _ _ _ (Nat.le_trans (probe_runSteps_le prb outcome s now) hn)]
  exact h

/-- a fault-free choice list that covers the whole run is the sequential run (`Prog.run`) -/
theorem runChoices_ok_eq_run {α : Type} (p : Prog α) (s : AbsState) (now : Int) (n : Nat) (hn : p.runSteps s now ≤ n) :
    p.runChoices (List.replicate n Choice.ok) s now = (p.run s now).1 :=
  runChoices_all_ok p s now n hn

/-- **refresh and revival** only enqueue: `Backed` is preserved at every crash point, under every fault placement. -/
theorem refresh_revive_backed (cs : List Choice) (now : Int) (s : AbsState) (hb : Backed s) (hk : Keyed s) :
    (∀ (maxRetries deadline : Int), Backed (Prog.runChoices cs (UC.refresh maxRetries deadline) s now)) ∧
    (∀ (maxRetries minScope maxScope minCountdown maxCountdown deadline : Int) (draws : Nat → Int),
      Backed (Prog.runChoices cs (UC.revive maxRetries minScope maxScope minCountdown maxCountdown deadline draws) s now)) :=
  ⟨fun maxRetries deadline => ((refresh_good (fun _ => True) maxRetries deadline).backed cs s now hb hk).1,
   fun maxRetries minScope maxScope minCountdown maxCountdown deadline draws =>
    ((revive_good (fun _ => True) maxRetries minScope maxScope minCountdown maxCountdown deadline draws).backed cs s now hb hk).1⟩

/-- **keepalive and removal**: a keepalive rewrites the refresh time only (status untouched), a removed server has
no marks: `Backed` is preserved at every crash point, under every fault placement. -/
theorem renew_remove_backed (cs : List Choice) (now : Int) (s : AbsState) (hb : Backed s) (hk : Keyed s) :
    (∀ (instanceId srcIp : Nat), Backed (Prog.runChoices cs (UC.renew instanceId srcIp) s now)) ∧
    (∀ (instanceId : Nat) (a : Addr), Backed (Prog.runChoices cs (UC.remove instanceId a) s now)) :=
  ⟨fun instanceId srcIp => ((renew_good (fun _ => True) instanceId srcIp).backed cs s now hb hk).1,
   fun instanceId a => ((remove_good (fun _ => True) instanceId a).backed cs s now hb hk).1⟩

/-- **`Keyed` is an invariant** of all these runs (every row stays under its own address key), so the theorems
above compose along any sequence of use-case executions, each with its own crash point and faults. -/
theorem keyed_preserved (cs : List Choice) (now : Int) (s : AbsState) (hk : Keyed s) :
    (∀ zeroInfo maxRetries req, Keyed (Prog.runChoices cs (UC.report zeroInfo maxRetries req) s now)) ∧
    (∀ zeroInfo maxRetries a, Keyed (Prog.runChoices cs (UC.addServer zeroInfo maxRetries a) s now)) ∧
    (∀ prb outcome, (∀ (row : SRow), s.servers[prb.addr.key]? = some row → row.svr.addr = prb.addr) →
      Keyed (Prog.runChoices cs (UC.probe prb outcome) s now)) ∧
    (∀ maxRetries deadline, Keyed (Prog.runChoices cs (UC.refresh maxRetries deadline) s now)) ∧
    (∀ maxRetries minScope maxScope minCountdown maxCountdown deadline draws,
      Keyed (Prog.runChoices cs (UC.revive maxRetries minScope maxScope minCountdown maxCountdown deadline draws) s now)) ∧
    (∀ instanceId srcIp, Keyed (Prog.runChoices cs (UC.renew instanceId srcIp) s now)) ∧
    (∀ instanceId a, Keyed (Prog.runChoices cs (UC.remove instanceId a) s now)) := by
  -- `Keyed` does not depend on the queue: run the framework with everything excepted
  have key : ∀ {α : Type} {p : Prog α} {R : Addr → Prop}, Good (fun _ => True) (fun _ _ => False) R p →
      (∀ a, R a → ∀ (row : SRow), s.servers[a.key]? = some row → row.svr.addr = a) → Keyed (p.runChoices cs s now) :=
    fun hp hR => (hp.runChoices_kinv (X := fun _ _ => True) cs s now
      ⟨fun _ _ _ _ _ => Or.inl trivial, hk, fun _ _ hf => hf.elim, hR, fun _ _ _ => trivial, fun _ _ => trivial⟩).2
  refine ⟨fun z m r => key (report_good _ z m r trivial) (fun _ hf => hf.elim),
    fun z m a => key (addServer_good _ z m a trivial) (fun _ hf => hf.elim),
    fun prb outcome hc => key (probe_good _ prb outcome (R := fun x => x = prb.addr) rfl) (fun a ha row hr => by subst ha; exact hc row hr),
    fun m d => key (refresh_good _ m d (R := fun _ => False)) (fun _ hf => hf.elim),
    fun m a b c d e f => key (revive_good _ m a b c d e f (R := fun _ => False)) (fun _ hf => hf.elim),
    fun i sip => key (renew_good _ i sip (R := fun _ => False)) (fun _ hf => hf.elim),
    fun i a => key (remove_good _ i a (R := fun _ => False)) (fun _ hf => hf.elim)⟩

/-- the executable oracle decides `Backed` -/
theorem backedB_correct (s : AbsState) : backedB s = true ↔ Backed s := backedB_iff s

/-- **the known finding, proved** (holder loss).  `W.state`: server A carries `port_retry`, the queue is empty — the
only port probe for A has been popped and is held by the prober; everything else is in order (`BackedExcept`,
`Keyed`).  If the holder `UC.probe ⟨A, …, port, 0, 2⟩ none` (a failed probe with retry budget) stops before its
first call, after the lookup, or after the clock read, or if its lookup or its re-enqueue fails without effect,
the mark is left with no probe: `Backed` is false.  Run to completion — or even when the re-enqueue took
effect and only its reply was lost — it re-queues the probe and the state is `Backed`. -/
theorem C16_holder_counterexample :
    BackedExcept W.state W.A .port ∧ Keyed W.state ∧ W.state.queue = [] ∧
    ¬ Backed (Prog.runChoices [] (UC.probe W.probe none) W.state 5) ∧
    ¬ Backed (Prog.runChoices [.ok] (UC.probe W.probe none) W.state 5) ∧
    ¬ Backed (Prog.runChoices [.ok, .ok] (UC.probe W.probe none) W.state 5) ∧
    ¬ Backed (Prog.runChoices [.faultNoEffect] (UC.probe W.probe none) W.state 5) ∧
    ¬ Backed (Prog.runChoices [.ok, .ok, .faultNoEffect] (UC.probe W.probe none) W.state 5) ∧
    Backed (Prog.runChoices [.ok, .ok, .faultEffect] (UC.probe W.probe none) W.state 5) ∧
    Backed (Prog.runChoices [.ok, .ok, .ok] (UC.probe W.probe none) W.state 5) ∧
    Backed (Prog.runChoices [.ok, .ok, .ok, .ok] (UC.probe W.probe none) W.state 5) := by
  refine ⟨W.state_backedExcept, W.state_keyed, rfl, ?_, ?_, ?_, ?_, ?_, ?_, ?_, ?_⟩ <;>
    first
    | (rw [← backedB_iff, Bool.not_eq_true]; decide)
    | (rw [← backedB_iff]; decide)

/-- the positive counterpart through the general theorem: the witness satisfies the hypotheses of
`probe_complete_backed` (they are not vacuous) and the completed run is `Backed` for every outcome -/
theorem C16_holder_completes (outcome : Option ProbeResult) (now : Int) :
    Backed ((UC.probe W.probe outcome).run W.state now).1 :=
  (probe_complete_backed W.probe outcome now W.state W.state_backedExcept W.state_keyed W.state_canon).1


/-! ## interleaved -/

/-- **C16 for every system without a popper.**  Clients are any programs of the reporter (heartbeat, keepalive,
removal), the REST submission, the refresher, the reviver, the cleaners and the listing (`Client`: the use cases
above, possibly after a clock read and followed by a rendering of the result), with valid addresses; the store
starts backed, with every row under its own key and valid (`KeyedOk`).  Then after **any** event list — clients
taking turns call by call, dying before or after their pending call took effect, calls failing with or without
effect, clock ticks — every retry mark has a queued probe.  The proof rests on the monotonicity fact stated as the
third conjunct: in such a system the queue only grows, so whatever a client enqueued before marking is still
queued when its mark commits, however long the others ran in between.  (With a popper in the system this is
false: `C16_holder_counterexample`, and the consumed-before-mark finding of the correspondence run.) -/
theorem C16_interleaved (u : USys) (es : List UEv) (hb : Backed u.abs) (hk : KeyedOk u.abs)
    (hc : ∀ c ∈ u.clients, Client c.prog) :
    Backed (u.run es).abs ∧ KeyedOk (u.run es).abs ∧ ∀ q ∈ u.abs.queue, q ∈ (u.run es).abs.queue :=
  sys_backed u es hb hk hc

/-- non-vacuity: the empty store is backed and well keyed; the system model's reporter / submission clients are `Client`s -/
example : Backed {} ∧ KeyedOk {} := ⟨fun k row g h => by simp at h, fun k row h => by simp at h⟩
example (z : Fields) (m : Int) (req : ReportReq) (h : req.addr.PortOk) :
    Client ((UC.report z m req).bind fun r => pure (match r with | .ok _ => "ok" | .error _ => "err")) :=
  Client.map _ _ (Client.report z m req h)
example (m iv : Int) : Client (Prog.call Call.now fun now => (UC.refresh m (now + iv)).bind fun r => pure (match r with | .ok _ => "ok" | .error _ => "err")) :=
  Client.now _ (fun _ => Client.map _ _ (Client.refresh _ _))


/-! ## expiry taken into account: `BackedStrict`

`Backed` accepts any queued probe of the right address and goal as backing, also one with an `expires` time — which
`PopMany` drops silently once the time has passed (`AbsState.popManyLoop`: `fresh := batch.filter (!·.expired now)`).
`Strict.BackedStrict` demands a backing probe with `expires = none`.  Which enqueues carry an expiry: the refresher and
the reviver pass `before = some deadline` (`usecases_filter_sets`) and set no mark; the three places that set a mark
enqueue with no expiry (`discover_order`, `submission_order`: `none none`; `retry_order`: `(some ready) none`).  Hence
every theorem above holds for `BackedStrict` as well: the `*_backed_strict` theorems below (proofs: the same
development with `InQS` / `learnES`, `Lemmas/BackedStrict.lean`). -/

open Strict in
/-- `BackedStrict` is the stronger invariant -/
theorem backedStrict_backed (s : AbsState) (h : BackedStrict s) : Backed s := h.backed

open Strict in
/-- **the difference is real**: `Strict.W.expiring` — A carries `details_retry`, the only queued details probe for A is
a refresh probe expiring at 10 — is `Backed` but not `BackedStrict`; a `PopMany` at clock 20 delivers nothing (the probe
is dropped as expired, counted), the queue is empty and the mark is an orphan that no client holds.  From a
`BackedStrict` state this cannot happen to a mark whose backing has not been popped (`pop_strict_held`). -/
theorem expiring_backing_orphaned :
    Backed Strict.W.expiring ∧ ¬ BackedStrict Strict.W.expiring ∧
    (Strict.W.expiring.popMany 20 5).2 = ([], 1) ∧ (Strict.W.expiring.popMany 20 5).1.queue = [] ∧
    ¬ Backed (Strict.W.expiring.popMany 20 5).1 := by
  refine ⟨?_, ?_, by decide, by decide, ?_⟩
  · rw [← backedB_iff]; decide
  · rw [← backedStrictB_iff, Bool.not_eq_true]; decide
  · rw [← backedB_iff, Bool.not_eq_true]; decide

open Strict in
/-- **heartbeat-triggered discovery, strict**: `report_backed` for `BackedStrict` — every crash point, every fault
placement; the discovery probe is enqueued with no expiry before the mark is written -/
theorem report_backed_strict (cs : List Choice) (zeroInfo : Fields) (maxRetries : Int) (req : ReportReq) (now : Int) (s : AbsState)
    (hb : BackedStrict s) (hk : Keyed s) : BackedStrict (Prog.runChoices cs (UC.report zeroInfo maxRetries req) s now) :=
  ((Strict.report_good (fun _ => True) zeroInfo maxRetries req trivial).backed cs s now hb hk).1

open Strict in
/-- **REST submission, strict**: `addServer_backed` for `BackedStrict` -/
theorem addServer_backed_strict (cs : List Choice) (zeroInfo : Fields) (maxRetries : Int) (a : Addr) (now : Int) (s : AbsState)
    (hb : BackedStrict s) (hk : Keyed s) : BackedStrict (Prog.runChoices cs (UC.addServer zeroInfo maxRetries a) s now) :=
  ((Strict.addServer_good (fun _ => True) zeroInfo maxRetries a trivial).backed cs s now hb hk).1

open Strict in
/-- **the prober, strict**: `probe_backed` for `BackedStrict` — whatever the probe the prober holds (also a refresh or
revival probe that carried an expiry), whatever the outcome, crash point and fault placement, no *other* mark loses its
non-expiring backing; the retry path re-queues with no expiry (`retry_order`) before marking -/
theorem probe_backed_strict (cs : List Choice) (prb : Probe) (outcome : Option ProbeResult) (now : Int) (s : AbsState)
    (hb : BackedExceptS s prb.addr prb.goal) (hk : Keyed s)
    (hcanon : ∀ (row : SRow), s.servers[prb.addr.key]? = some row → row.svr.addr = prb.addr) :
    BackedExceptS (Prog.runChoices cs (UC.probe prb outcome) s now) prb.addr prb.goal :=
  ((Strict.probe_good (fun _ => True) prb outcome (E := fun _ _ => False) (R := fun x => x = prb.addr) rfl).backedExcept
    cs s now hb hk hcanon).1

open Strict in
/-- **the holder ran to completion without a fault, strict**: `probe_complete_backed` for `BackedStrict` -/
theorem probe_complete_backed_strict (prb : Probe) (outcome : Option ProbeResult) (now : Int) (s : AbsState)
    (hb : BackedExceptS s prb.addr prb.goal) (hk : Keyed s)
    (hcanon : ∀ (row : SRow), s.servers[prb.addr.key]? = some row → row.svr.addr = prb.addr) :
    BackedStrict ((UC.probe prb outcome).run s now).1 ∧
    ∀ n, 4 ≤ n → BackedStrict (Prog.runChoices (List.replicate n Choice.ok) (UC.probe prb outcome) s now) := by
  have h := Strict.probe_run_backed prb outcome s now hb hk hcanon
  refine ⟨h, fun n hn => ?_⟩
  rw [runChoices_all_ok _ _ _ _ (Nat.le_trans (probe_runSteps_le prb outcome s now) hn)]
  exact h

open Strict in
/-- **refresh and revival, strict**: they only enqueue (their probes do expire, and back nothing: they set no mark) -/
theorem refresh_revive_backed_strict (cs : List Choice) (now : Int) (s : AbsState) (hb : BackedStrict s) (hk : Keyed s) :
    (∀ (maxRetries deadline : Int), BackedStrict (Prog.runChoices cs (UC.refresh maxRetries deadline) s now)) ∧
    (∀ (maxRetries minScope maxScope minCountdown maxCountdown deadline : Int) (draws : Nat → Int),
      BackedStrict (Prog.runChoices cs (UC.revive maxRetries minScope maxScope minCountdown maxCountdown deadline draws) s now)) :=
  ⟨fun maxRetries deadline => ((Strict.refresh_good (fun _ => True) maxRetries deadline).backed cs s now hb hk).1,
   fun maxRetries minScope maxScope minCountdown maxCountdown deadline draws =>
    ((Strict.revive_good (fun _ => True) maxRetries minScope maxScope minCountdown maxCountdown deadline draws).backed cs s now hb hk).1⟩

open Strict in
/-- **keepalive and removal, strict** -/
theorem renew_remove_backed_strict (cs : List Choice) (now : Int) (s : AbsState) (hb : BackedStrict s) (hk : Keyed s) :
    (∀ (instanceId srcIp : Nat), BackedStrict (Prog.runChoices cs (UC.renew instanceId srcIp) s now)) ∧
    (∀ (instanceId : Nat) (a : Addr), BackedStrict (Prog.runChoices cs (UC.remove instanceId a) s now)) :=
  ⟨fun instanceId srcIp => ((Strict.renew_good (fun _ => True) instanceId srcIp).backed cs s now hb hk).1,
   fun instanceId a => ((Strict.remove_good (fun _ => True) instanceId a).backed cs s now hb hk).1⟩

open Strict in
/-- **C16 for every system without a popper, strict**: `C16_interleaved` for `BackedStrict`, over the same clients
(now including the two-step cleaner `Client.cleanServers2`) and the same events -/
theorem C16_interleaved_strict (u : USys) (es : List UEv) (hb : BackedStrict u.abs) (hk : KeyedOk u.abs)
    (hc : ∀ c ∈ u.clients, Client c.prog) :
    BackedStrict (u.run es).abs ∧ KeyedOk (u.run es).abs ∧ ∀ q ∈ u.abs.queue, q ∈ (u.run es).abs.queue :=
  Strict.sys_backed u es hb hk hc

/-- non-vacuity: the empty store is `BackedStrict`; the store after a fault-free heartbeat of a new server is
`BackedStrict` with a mark in it (the `port_retry` mark of A, backed by the non-expiring discovery probe) -/
example : Strict.BackedStrict {} := fun k row g h => by simp at h
example : Strict.BackedStrict ((UC.report [] 2 ⟨W.A, 10481, 7, some []⟩).run {} 5).1 ∧
    ((UC.report [] 2 ⟨W.A, 10481, 7, some []⟩).run {} 5).1.queue.map (·.expires) = [none] ∧
    (((UC.report [] 2 ⟨W.A, 10481, 7, some []⟩).run {} 5).1.servers.toList.map fun kv => Status.has kv.2.svr.status Status.portRetry) = [true] := by
  refine ⟨?_, by decide, by decide⟩
  rw [← Strict.backedStrictB_iff]; decide
/-- the two-step cleaner as the system model runs it is a `Client` -/
example (r : Int) : Client ((UC.cleanServers2 r).bind fun _ => pure "ok") := Client.map _ _ (Client.cleanServers2 r)


/-! ## a retry mark is cleared only by a probe outcome

`Marks.MarksKept rm s s'`: every row of `s'` carries every retry mark that the row of `s` under the same key carried,
and (`rm = false`) every key that had a row still has one.  One theorem per use case, at every crash point and under
every fault placement (`Prog.runChoices`).  What is left are the prober's `HandleSuccess` / `HandleFailure`
(`outcomes_clear_mark`): the only writes that clear a retry bit of a row that stays. -/

open Marks in
/-- **heartbeat** (`reportserver.Execute`, including its port discovery): never clears a retry mark, never removes a row -/
theorem mark_preserved_report (cs : List Choice) (zeroInfo : Fields) (maxRetries : Int) (req : ReportReq) (now : Int) (s : AbsState)
    (hk : Keyed s) : MarksKept false s (Prog.runChoices cs (UC.report zeroInfo maxRetries req) s now) :=
  (report_pres zeroInfo maxRetries req).marksKept hk cs now

open Marks in
/-- **keepalive** (`renewserver.Execute`) -/
theorem mark_preserved_renew (cs : List Choice) (instanceId srcIp : Nat) (now : Int) (s : AbsState) (hk : Keyed s) :
    MarksKept false s (Prog.runChoices cs (UC.renew instanceId srcIp) s now) :=
  (renew_pres instanceId srcIp).marksKept hk cs now

open Marks in
/-- **removal** (`removeserver.Execute`): the row is removed whole or left as it is — no row that stays loses a mark -/
theorem mark_preserved_remove (cs : List Choice) (instanceId : Nat) (a : Addr) (now : Int) (s : AbsState) (hk : Keyed s) :
    MarksKept true s (Prog.runChoices cs (UC.remove instanceId a) s now) :=
  (remove_pres instanceId a).marksKept hk cs now

open Marks in
/-- **REST submission / discovery** (`addserver.Execute`): sets `port_retry` or nothing -/
theorem mark_preserved_discover (cs : List Choice) (zeroInfo : Fields) (maxRetries : Int) (a : Addr) (now : Int) (s : AbsState)
    (hk : Keyed s) : MarksKept false s (Prog.runChoices cs (UC.addServer zeroInfo maxRetries a) s now) :=
  (addServer_pres zeroInfo maxRetries a).marksKept hk cs now

open Marks in
/-- **refresh** (`refreshservers.Execute`): writes no row -/
theorem mark_preserved_refresh (cs : List Choice) (maxRetries deadline : Int) (now : Int) (s : AbsState) (hk : Keyed s) :
    MarksKept false s (Prog.runChoices cs (UC.refresh maxRetries deadline) s now) :=
  (refresh_pres maxRetries deadline).marksKept hk cs now

open Marks in
/-- **revival** (`reviveservers.Execute`): writes no row -/
theorem mark_preserved_revive (cs : List Choice) (maxRetries minScope maxScope minCountdown maxCountdown deadline : Int)
    (draws : Nat → Int) (now : Int) (s : AbsState) (hk : Keyed s) :
    MarksKept false s (Prog.runChoices cs (UC.revive maxRetries minScope maxScope minCountdown maxCountdown deadline draws) s now) :=
  (revive_pres maxRetries minScope maxScope minCountdown maxCountdown deadline draws).marksKept hk cs now

open Marks in
/-- **cleaner** (`ServerCleaner.Clean`, atomic and two-step): removes rows whole; no row that stays loses a mark -/
theorem mark_preserved_clean (cs : List Choice) (retention : Int) (now : Int) (s : AbsState) (hk : Keyed s) :
    MarksKept true s (Prog.runChoices cs (UC.cleanServers retention) s now) ∧
    MarksKept true s (Prog.runChoices cs (UC.cleanServers2 retention) s now) :=
  ⟨(cleanServers_pres retention).marksKept hk cs now, (cleanServers2_pres retention).marksKept hk cs now⟩

open Marks in
/-- **the prober's retry with budget left** (`probeserver.retry`, entered with the stored record) keeps every mark too:
only a success or the final failure clears one -/
theorem mark_preserved_probeRetry (cs : List Choice) (prb : Probe) (svr : Server) (t : Int) (now : Int) (s : AbsState)
    (hk : Keyed s) (hrow : s.servers[svr.addr.key]? = some ⟨svr, t⟩) (hb : prb.retries < prb.maxRetries) :
    MarksKept false s (Prog.runChoices cs (UC.probeRetry prb svr) s now) :=
  (probeRetry_budget_pres prb svr (fun row0 h0 g hm => by rw [hrow] at h0; cases h0; exact hm) hb).marksKept hk cs now

/-- non-vacuity: `W.staleState` (A marked `port_retry`, keyed) — a heartbeat of A run to completion keeps the mark, and
the prober's success clears it -/
example : Marks.MarksKept false W.staleState ((UC.report [] 2 ⟨W.A, 10481, 7, some []⟩).run W.staleState 5).1 ∧
    ((((UC.report [] 2 ⟨W.A, 10481, 7, some []⟩).run W.staleState 5).1.servers.toList.map
      fun kv => Status.has kv.2.svr.status Status.portRetry) = [true]) ∧
    ((((UC.probe W.probe (some ⟨⟨[], [], []⟩, 10481⟩)).run W.staleState 5).1.servers.toList.map
      fun kv => Status.has kv.2.svr.status Status.portRetry) = [false]) := by
  refine ⟨?_, by decide, by decide⟩
  have hk : Keyed W.staleState := W.state_keyed
  have := mark_preserved_report (List.replicate ((UC.report [] 2 ⟨W.A, 10481, 7, some []⟩).runSteps W.staleState 5) .ok)
    [] 2 ⟨W.A, 10481, 7, some []⟩ 5 W.staleState hk
  rwa [runChoices_all_ok _ _ _ _ (Nat.le_refl _)] at this


/-! ## the popper: what `PopMany` does to the backing, and a whole fault-free batch -/

open Strict in
/-- **a pop never drops the backing of a mark silently** (from a `BackedStrict` store).  After `PopMany(n)` at any
clock, every retry mark is backed by a non-expiring probe still queued or by one of the probes the call handed to the
prober (`Strict.Held`): the only marks without a queued probe are those whose probe somebody now holds — the situation
`probe_backed_strict` starts from.  `hinj`: queue ids are distinct (they are fresh UUIDs; `AbsState.enqueue` uses a
counter).  With plain `Backed` this fails: `expiring_backing_orphaned`. -/
theorem pop_strict_held (s : AbsState) (now : Int) (n : Int) (hb : BackedStrict s) (hinj : IdInj s.queue) :
    BackedExS (Held (s.popMany now n).2.1) (s.popMany now n).1 ∧ (s.popMany now n).1.servers = s.servers ∧
    (∀ p ∈ (s.popMany now n).2.1, ∃ x ∈ s.queue, x.probe = p) :=
  ⟨popMany_strict s now n hb hinj, Strict.popMany_servers s now n, (popMany_covers s now n hinj).2.2⟩

open Strict in
/-- **a fault-free prober batch restores the invariant.**  `UC.proberRunWith n oc order`
(`Model/UseCases/ProberRun.lean`) is the Model's prober runner: `PopMany(n)`, then `probeserver.Execute` for every popped
probe in turn, each to completion; the program the driver runs for a `pop` client is its instance `UC.proberRun`
(`runner_is_model`, `runner_complete_backed` below).  From a `BackedStrict` store (rows well keyed with valid addresses,
distinct queue ids, valid probe addresses), for every `n`, every clock, every outcome per probe and every order of the
batch, the store after the batch is `BackedStrict` (hence `Backed`) and well keyed.  So the holder-loss finding
(`C16_holder_counterexample`) needs a holder that stops early or takes an error branch — the batch itself, however
large and in whatever order, repairs every mark it unbacked. -/
theorem pop_complete_backed (n : Int) (oc : Probe → Option ProbeResult) (order : List Probe → List Probe)
    (horder : ∀ ps p, p ∈ order ps ↔ p ∈ ps) (s : AbsState) (now : Int)
    (hb : BackedStrict s) (hk : KeyedOk s) (hinj : IdInj s.queue) (hq : ∀ q ∈ s.queue, q.probe.addr.PortOk) :
    BackedStrict ((UC.proberRunWith n oc order).run s now).1 ∧ Backed ((UC.proberRunWith n oc order).run s now).1 ∧
    KeyedOk ((UC.proberRunWith n oc order).run s now).1 :=
  have h := Strict.pop_complete_backed n oc order horder s now hb hk hinj hq
  ⟨h.1, h.1.backed, h.2⟩

/-- non-vacuity: `W.staleState` (A marked `port_retry`, its non-expiring probe queued) satisfies the hypotheses; the
batch pops the probe and — the probe failing with budget left — re-queues it with one more retry -/
example : Strict.BackedStrict W.staleState ∧ KeyedOk W.staleState ∧ Strict.IdInj W.staleState.queue ∧
    (∀ q ∈ W.staleState.queue, q.probe.addr.PortOk) ∧
    (W.staleState.popMany 1000 5).2.1 = [W.probe] ∧
    ((UC.proberRunWith 5 (fun _ => none) id).run W.staleState 1000).1.queue.map (fun q => (q.probe.retries, q.expires)) = [(1, none)] := by
  refine ⟨?_, ?_, ?_, ?_, by decide, by decide⟩
  · rw [← Strict.backedStrictB_iff]; decide
  · intro k row h
    obtain ⟨rfl, rfl⟩ := W.state_row k row h
    exact ⟨rfl, by unfold Addr.PortOk; decide⟩
  · exact Strict.idInj_of_nodup (by decide)
  · intro q hq
    have : q = ⟨0, W.probe, 0, none⟩ := by simpa [W.staleState] using hq
    subst this
    unfold Addr.PortOk; decide

/-- **the tie between the driver and the Model's runner** (audit record for reviewer item "driver semantics outside
Model", C16).  The program the correspondence run executes for a harness client `pop|<n>|<outcome>`
(`Drv/UCRun.lean: USpec.prog`) IS `UC.proberRun n outcome` — `PopMany(n)`, the batch in `UC.sortBatch` order,
`UC.probe` for each — followed only by the rendering of its report (a `pure`, no storage call); and `UC.proberRun` is
`UC.proberRunWith` at the constant outcome and that order.  Both equalities are definitional: the driver contains no
runner of its own any more. -/
theorem runner_is_model (cfg : Drv.UCfg) (draws : Nat → Int) (n : Int) (outcome : Option ProbeResult) :
    (Drv.USpec.pop n outcome).prog cfg draws =
      (UC.proberRun n outcome).bind (fun r => pure (Drv.renderProberReport r)) ∧
    UC.proberRun n outcome = UC.proberRunWith n (fun _ => outcome) UC.sortBatch :=
  ⟨rfl, rfl⟩

/-- rendering adds no storage call: the state a `pop` client of the driver ends in is the state of `UC.proberRun` -/
theorem runner_state (cfg : Drv.UCfg) (draws : Nat → Int) (n : Int) (outcome : Option ProbeResult) (s : AbsState) (now : Int) :
    (((Drv.USpec.pop n outcome).prog cfg draws).run s now).1 = ((UC.proberRun n outcome).run s now).1 := by
  rw [(runner_is_model cfg draws n outcome).1, Prog.run_bind]
  rfl

open Strict in
/-- **`pop_complete_backed` about what the driver actually runs.**  The program of the driver's `pop` client — for every
batch size, every (single) network outcome, every clock —, run to completion without a fault from a `BackedStrict` store
(hypotheses as in `pop_complete_backed`), ends `BackedStrict`, `Backed` and well keyed.  `UC.sortBatch` is a
reordering (`Strict.mem_sortBatch`), so `pop_complete_backed` applies. -/
theorem runner_complete_backed (cfg : Drv.UCfg) (draws : Nat → Int) (n : Int) (outcome : Option ProbeResult)
    (s : AbsState) (now : Int)
    (hb : BackedStrict s) (hk : KeyedOk s) (hinj : IdInj s.queue) (hq : ∀ q ∈ s.queue, q.probe.addr.PortOk) :
    BackedStrict (((Drv.USpec.pop n outcome).prog cfg draws).run s now).1 ∧
    Backed (((Drv.USpec.pop n outcome).prog cfg draws).run s now).1 ∧
    KeyedOk (((Drv.USpec.pop n outcome).prog cfg draws).run s now).1 := by
  rw [runner_state]
  exact pop_complete_backed n (fun _ => outcome) UC.sortBatch mem_sortBatch s now hb hk hinj hq

/-- non-vacuity of `runner_complete_backed` (hypotheses: the `example` after `pop_complete_backed`): on `W.staleState` the
driver's `pop|5|fail` client pops the one probe, fails it with budget left and re-queues it without expiry, and reports
`popped:1:0+retried` -/
example : (((Drv.USpec.pop 5 none).prog {} fun _ => 0).run W.staleState 1000).2 = "popped:1:0+retried" ∧
    (((Drv.USpec.pop 5 none).prog {} fun _ => 0).run W.staleState 1000).1.queue.map (fun q => (q.probe.retries, q.expires)) = [(1, none)] := by
  decide


/-! ## the hypotheses are needed; a third way to lose the backing -/

/-- **why `hcanon` / valid addresses are assumed** (a model artifact: `Addr.key` is injective only on ports
1..65535, the real key `Addr.String()` is injective and `addr.New` rejects other ports).  (1) A fault-free,
complete `probeserver` run for a probe whose address is *not* the one stored under its key breaks a fully backed,
keyed store: the re-queued probe carries the probe's address, the mark lands on the stored record.  (2) In a
popper-free system started from the empty store, one reporter with an out-of-range address that collides with a
valid one is enough to break `Backed` by interleaving alone. -/
theorem address_hypotheses_needed :
    (Backed W.badState ∧ Keyed W.badState ∧
      ¬ Backed ((UC.probe ⟨W.goodA, 5, .port, 0, 2⟩ none).run W.badState 5).1) ∧
    (W.badA.key = W.goodA.key ∧ ¬ W.badA.PortOk ∧ W.goodA.PortOk ∧
      Backed (W.collisionSys.run (W.collisionEvents.take 10)).abs ∧
      ¬ Backed (W.collisionSys.run W.collisionEvents).abs) := by
  refine ⟨⟨?_, ?_, ?_⟩, by decide, by unfold Addr.PortOk; decide, by unfold Addr.PortOk; decide, ?_, ?_⟩
  · rw [← backedB_iff]; decide
  · intro k row h
    simp only [W.badState, ExtTreeMap.getElem?_insert] at h
    split at h
    · rename_i hk
      cases h
      simpa using hk
    · simp at h
  · rw [← backedB_iff, Bool.not_eq_true]; decide
  · rw [← backedB_iff]; decide
  · rw [← backedB_iff, Bool.not_eq_true]; decide

/-- **a race that needs no crash and no fault** (not one of the two recorded findings; it needs a popper *and* a
removal between a reporter's lookup and its write, so the popper-free theorem above is not affected).  A is marked
`port_retry` and its probe is queued.  A reporter looks A up; a cleaner removes A; a prober pops A's probe, finds
no server and drops the probe; the reporter's `Add` then stores its stale copy — mark included — as a new row
(`servers.Add` saves the caller's record when the row is absent) and, seeing the mark, does not enqueue.  All
three clients have finished, the queue is empty, the mark has no probe. -/
theorem stale_readd_unbacked :
    Backed W.staleSys.abs ∧
    (W.staleSys.run W.staleEvents).clients.map UClient.live = [false, false, false] ∧
    (W.staleSys.run W.staleEvents).abs.queue = [] ∧
    ¬ Backed (W.staleSys.run W.staleEvents).abs := by
  refine ⟨?_, by decide, by decide, ?_⟩
  · rw [← backedB_iff]; decide
  · rw [← backedB_iff, Bool.not_eq_true]; decide

/-- **Configuration wiring (regenerated fact).**  How configuration reaches the prober component: poll interval, concurrency, probe timeout and the port offsets of the port prober: every field of every
configuration literal in `cmd/swat4master` that concerns this property, with the source text of the value it is given
(`verifharness facts`, go/ast, on every run).  A command-line value wired to another field, a unit conversion or a
`max`/`min` slipped into one of these literals changes the generated list and breaks this theorem; the harness itself
drives these components through their real fx modules (DESIGN 10.8), this pins what the modules are given. -/
def configRows : List (String × String × String × String × String) :=
    [("components/prober/prober.go", "*command.Run", "Config", "PollInterval", "globals.ProbePollSchedule"),
     ("components/prober/prober.go", "*command.Run", "Config", "Concurrency", "globals.ProbeConcurrency"),
     ("components/prober/prober.go", "*command.Run", "Config", "ProbeTimeout", "globals.ProbeTimeout"),
     ("components/prober/prober.go", "*command.Run", "Config", "PortOffsets", "globals.DiscoveryRevivalPorts"),
     ("components/prober/prober.go", "provideRunnerOpts", "proberunner.RunnerOpts", "PollInterval", "cfg.PollInterval"),
     ("components/prober/prober.go", "provideRunnerOpts", "proberunner.RunnerOpts", "Concurrency", "cfg.Concurrency"),
     ("components/prober/prober.go", "provideRunnerOpts", "proberunner.RunnerOpts", "ProbeTimeout", "cfg.ProbeTimeout"),
     ("components/prober/prober.go", "providePortProberOpts", "portprober.Opts", "Offsets", "cfg.PortOffsets")]

theorem facts_config_wiring :
    (Facts.configWiring.filter fun r => configRows.contains r) = configRows ∧
    (Facts.configWiring.filter fun r => configRows.any fun c => c.1 == r.1 && c.2.1 == r.2.1 && c.2.2.1 == r.2.2.1 && c.2.2.2.1 == r.2.2.2.1) = configRows := by
  decide

end Swat4.C16
