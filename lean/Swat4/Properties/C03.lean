import Swat4.Model.Filter
import Swat4.Spec.FilterSpec
import Swat4.Spec.FilterBridge
/-!
# C03 — A listing contains exactly the live servers that match status and filter
-/
namespace Swat4.C03
open Swat4 Swat4.Filter Swat4.FilterSpec

/-- **malformed ⇒ blank.** A filter string that `NewFromString` rejects gives the browser the blank
query, which matches every record: a parse error degrades to *no filtering*. -/
theorem malformed_is_blank (s : Bytes) (e : ParseErr) (h : newFromString s = .error e) :
    browserQuery s = [] ∧ ∀ i, queryMatch (browserQuery s) i = true := by
  have : browserQuery s = [] := by
    unfold browserQuery
    split
    · rfl
    · rw [h]
  exact ⟨this, fun i => by rw [this]; rfl⟩

end Swat4.C03
