import Swat4.Lemmas.FactsExtra03
import Swat4.Lemmas.Filter
import Swat4.Lemmas.FilterChecked
import Swat4.Lemmas.FilterSound
import Swat4.Lemmas.FilterComplete
import Swat4.Lemmas.FilterLeniency
/-!
# C03 — A listing contains exactly the live servers that match status and filter

Property theorems only.  `Swat4.Filter.*` is the model of `filter.go`, `query.go`, the browser's and the
REST handler's query construction, `listservers.Execute` and `servers.Filter`; `Swat4.FilterSpec.*` is the
specification written from the property text (`sat`, `render`, `WfClause`, `selected`, `flagClauses`,
and the lenient grammar `QueryText`).

`Lemmas/FilterLeniency.lean` (imported, so checked with this file) pins, one `example` per string, what
the parser makes of ~120 edge-case strings; its right-hand sides are the REAL Go parser's answers.
-/
namespace Swat4.C03
open Swat4 Swat4.Filter Swat4.FilterSpec

/-- The facts of the source the theorems below rely on (regenerated `Gen/Facts.lean`):
every `details.Info` field is an `int`, `bool` or `string` and param names are distinct (so "the field
named f" is well defined); every query-field name is non-empty, free of the operator bytes `! = < >`,
is not an integer literal and does not start with a quote (so it can stand on either side of a
clause unambiguously); the six names `prepareQuery` uses are query fields and are spelt in the model
as in the specification; the two frontends' required statuses have index sets. -/
theorem facts_ok :
    (∀ f ∈ Facts.infoSchema, f.2 ≤ 2) ∧
    (Facts.infoSchema.map (·.1)).Nodup ∧
    (∀ g ∈ Facts.queryFields, g ≠ [] ∧ (∀ b ∈ g, isOpByte b = false) ∧ atoi g = none ∧ g.head? ≠ some 0x27) ∧
    ([nGamevariant, nGamever, nGametype, nPassword, nNumplayers, nMaxplayers] =
      [fGamevariant, fGamever, fGametype, fPassword, fNumplayers, fMaxplayers]) ∧
    (∀ n ∈ [nGamevariant, nGamever, nGametype, nPassword, nNumplayers, nMaxplayers], n ∈ Facts.queryFields) ∧
    Facts.statusMembers = [1, 2, 4, 8, 16, 32, 64, 128, 256] ∧
    Facts.statusMaster = 2 ∧ Facts.statusInfo = 4 := by decide

/-- every status word of nine bits only has bits with an index set (`ds.Members()`) -/
theorem required_in_scope (required : Nat) (h : required < 512) :
    ∀ b ∈ bitsOf required, b ∈ Facts.statusMembers := by
  intro b hb
  obtain ⟨i, hi, rfl⟩ := (mem_bitsOf _ _).1 hb
  have h1 := Nat.ge_two_pow_of_testBit hi
  have hi9 : i < 9 := by
    apply Nat.lt_of_not_le
    intro h9
    have : 2 ^ 9 ≤ 2 ^ i := Nat.pow_le_pow_right (by decide) h9
    omega
  have : ∀ j, j < 9 → 2 ^ j ∈ Facts.statusMembers := by decide
  exact this i hi9

/-- **Totality.**  `NewFromString` returns a non-empty list of filters or one of five errors — on every
byte string.  The total form of the model has no `panic` outcome, so this is true by construction; that
the construction is faithful is `filter_parse_never_panics` below (the checked form, with every index /
slice expression of the Go code explicit, equals this one).  The inventory of the Go code's partial
operations:

* `filter.Parse`: `filterBytes[i:j]` (twice) and `filterBytes[i:]` — `i` is only ever assigned from `j`,
  `j` counts the bytes consumed so far, so `0 ≤ i ≤ j ≤ len`;
* `parseRawFilterValue`: `rawVal[0]`, `rawVal[len-1]`, `rawVal[1:len-1]` — evaluated only after
  `len(rawVal) > 2` (short-circuit `&&`);
* `scanFilter`: `s[:i]`, `s[i+5:]` — `i` is the index `strings.Index` returned for the 5-byte separator, so `i+5 ≤ len`;
* `Filter.Match`, `compare`, `compareToInt`, `compareToString`: type switches with `default` branches and a
  checked assertion `this.(string)`; `getStructField` is called with `&info`, a non-nil pointer to a struct;
* `query.MustNew…`/`filter.MustNew` (which do panic) are not on the path of either frontend.

The loop of `NewFromString` terminates because every round consumes at least one byte
(`Swat4.Filter.rawFilters_eq`: the model's fuel is never exhausted). -/
theorem parse_total (s : Bytes) :
    (∃ fs, newFromString s = .ok fs ∧ fs ≠ []) ∨ (∃ e, newFromString s = .error e) := by
  unfold newFromString
  cases parseAll (rawFilters s) with
  | error e => exact .inr ⟨e, rfl⟩
  | ok fs =>
    cases fs with
    | nil => exact .inr ⟨.empty, rfl⟩
    | cons f fs => exact .inl ⟨f :: fs, rfl, by simp⟩

/-- **No panic, no endless loop** (the clause "never … a crash"; also C06 for the filter bytes of a TCP
payload).  `newFromStringChecked` is `query.NewFromString` with every Go index / slice expression
written as a checked operation on the string the source applies it to, with the index computed as the
source computes it — `s[:i]`, `s[i+5:]` with `i := strings.Index(s, " and ")` in `scanFilter`;
`filterBytes[i:j]` (twice) and `filterBytes[i:]` in `filter.Parse`; `rawVal[0]`, `rawVal[len-1]`,
`rawVal[1:len-1]` behind the short-circuit `len(rawVal) > 2 &&` in `parseRawFilterValue` — outcome
`panic` when out of range, and the loop of `NewFromString` on fuel (`hang` when exhausted).  On every
byte string it returns exactly what the total model returns: a value or an error, never `panic`/`hang`. -/
theorem filter_parse_never_panics (s : Bytes) : newFromStringChecked s = Chk.ofExcept (newFromString s) :=
  newFromStringChecked_eq s

/-- `filter_parse_never_panics` in the form "the outcome is neither a panic nor a hang" -/
theorem filter_parse_outcome (s : Bytes) : newFromStringChecked s ≠ .panic ∧ newFromStringChecked s ≠ .hang := by
  rw [filter_parse_never_panics]
  cases newFromString s <;> exact ⟨by simp [Chk.ofExcept], by simp [Chk.ofExcept]⟩

/-- `scanFilter` alone: the index `strings.Index(s, " and ")` returns is in range for `s[:i]` and `s[i+5:]` -/
theorem scanFilter_never_panics (s : Bytes) : scanFilterChecked s = .ok (scanFilter s) := scanFilterChecked_eq s

/-- `filter.Parse` alone: `filterBytes[i:j]` and `filterBytes[i:]` are in range at every step of the state machine -/
theorem filterParse_never_panics (bs : Bytes) : parseChecked bs = Chk.ofExcept (parse bs) := parseChecked_eq bs

/-- `parseRawFilterValue` alone: the index expressions are guarded by `len(rawVal) > 2` -/
theorem parseRawFilterValue_never_panics (raw : Bytes) : parseValueChecked raw = Chk.ofExcept (parseValue raw) :=
  parseValueChecked_eq raw

/-- the loop equation of `NewFromString` holds for the fuelled model (termination of the Go loop) -/
theorem loop_terminates (s : Bytes) :
    rawFilters s = if s.isEmpty then [] else (scanFilter s).1 :: rawFilters (scanFilter s).2 :=
  rawFilters_eq s

/-- **Malformed ⇒ blank.**  A filter string that `NewFromString` rejects — for whatever reason — gives
the browser the blank query, and the blank query matches every record: a parse error degrades to
*no filtering*, never to an error, an empty reply or a crash. -/
theorem malformed_is_blank (s : Bytes) (e : ParseErr) (h : newFromString s = .error e) :
    browserQuery s = [] ∧ ∀ i, queryMatch (browserQuery s) i = true := by
  have : browserQuery s = [] := by
    unfold browserQuery
    split
    · rfl
    · rw [h]
  exact ⟨this, fun i => by rw [this]; rfl⟩

/-- a string that parses is used as parsed -/
theorem wellformed_is_used (s : Bytes) (fs : List Filter) (h : newFromString s = .ok fs) :
    browserQuery s = fs := by
  unfold browserQuery
  split
  · rename_i hs
    have : s = [] := by cases s <;> simp_all
    subst this
    simp [newFromString, rawFilters, rawFiltersFuel, parseAll] at h
  · rw [h]

/-- **Match = sat.**  What `Query.Match` makes of one parsed filter (an error counts as "no match") is
exactly the declarative meaning of the clause — for *every* clause and record: ints and 0/1-booleans
compare with all four operators, strings with `=`/`!=` only, a field reference denotes the referenced
int or string (a referenced bool denotes nothing), and a missing field, a type mismatch or an
unsupported operator is `false`. -/
theorem match_sat (i : Info) (c : Clause) : matchOne (toFilter c) i = sat i c := matchOne_sat i c

/-- `Query.Match` is the conjunction of the clauses' meanings -/
theorem query_match_sat (i : Info) (q : List Clause) : queryMatch (q.map toFilter) i = q.all (sat i) :=
  queryMatch_sat i q

/-- **Selection.**  For every registry, clock value, liveness, required status (whose bits have index
sets: `required_in_scope`) and clause list, `listservers.Execute` over `servers.Filter` returns exactly
the stored servers that carry the required status, were refreshed at or after `now − liveness` (and
were refreshed at all), and satisfy every clause — in registry order (the Go listing is a permutation
of it: Appendix C, "Listing order"). -/
theorem selection_eq_filter (recs : List Record) (now liveness : Int) (required : Nat)
    (hreq : ∀ b ∈ bitsOf required, b ∈ Facts.statusMembers) (q : List Clause) :
    listServers recs now liveness required (q.map toFilter) =
      recs.filter fun r => selected now liveness required q (toServer r) := by
  unfold listServers repoFilter
  rw [List.filter_filter]
  apply List.filter_congr
  intro r _
  exact select_eq now liveness required hreq q r

/-- the boundary is inclusive: a server refreshed exactly at `now − liveness` with the required status
is listed by the blank query, one refreshed 1 ns earlier is not -/
theorem boundary_inclusive (now liveness : Int) (required : Nat)
    (hreq : ∀ b ∈ bitsOf required, b ∈ Facts.statusMembers) (a : String) (i : Info) :
    listServers [⟨a, required, .at (now - liveness), i⟩] now liveness required [] = [⟨a, required, .at (now - liveness), i⟩] ∧
    listServers [⟨a, required, .at (now - liveness - 1), i⟩] now liveness required [] = [] := by
  constructor
  · rw [show ([] : List Filter) = ([] : List Clause).map toFilter from rfl, selection_eq_filter _ _ _ _ hreq]
    simp [selected, toServer, Nat.and_self]
  · rw [show ([] : List Filter) = ([] : List Clause).map toFilter from rfl, selection_eq_filter _ _ _ _ hreq]
    simp [selected, toServer]
    omega

/-- **REST flags.**  `prepareQuery` turns the six flags into exactly the clauses the specification
reads from them (three string equalities when non-empty, `password != 1`, `numplayers != maxplayers`,
`numplayers > 0`), in that order; no flag ⇒ blank query. -/
theorem rest_flags (f : Flags) : prepareQuery (toForm f) = (flagClauses f).map toFilter := by
  have hq : ∀ n ∈ [nGamevariant, nGamever, nGametype, nPassword, nNumplayers, nMaxplayers], isQueryField n = true := by decide
  have h1 : ∀ v, newFilter nGamevariant [0x3d] v = .ok ⟨nGamevariant, .eq, v⟩ := fun v => by
    simp [newFilter, hq, opOfRaw]
  have h2 : ∀ v, newFilter nGamever [0x3d] v = .ok ⟨nGamever, .eq, v⟩ := fun v => by
    simp [newFilter, hq, opOfRaw]
  have h3 : ∀ v, newFilter nGametype [0x3d] v = .ok ⟨nGametype, .eq, v⟩ := fun v => by
    simp [newFilter, hq, opOfRaw]
  have h4 : ∀ v, newFilter nPassword [0x21, 0x3d] v = .ok ⟨nPassword, .ne, v⟩ := fun v => by
    simp [newFilter, hq, opOfRaw]
  have h5 : ∀ v, newFilter nNumplayers [0x21, 0x3d] v = .ok ⟨nNumplayers, .ne, v⟩ := fun v => by
    simp [newFilter, hq, opOfRaw]
  have h6 : ∀ v, newFilter nNumplayers [0x3e] v = .ok ⟨nNumplayers, .gt, v⟩ := fun v => by
    simp [newFilter, hq, opOfRaw]
  obtain ⟨gv, gver, gt, np, nf, ne⟩ := f
  unfold prepareQuery flagClauses toForm
  simp only [h1, h2, h3, h4, h5, h6, maybeAdd]
  cases gv <;> cases gver <;> cases gt <;> cases np <;> cases nf <;> cases ne <;> rfl

/-- **Round trip of the grammar.**  For every non-empty list of well-formed clauses — any query field,
any of the four operators, any `int`, any non-empty string (quotes, operator bytes, spaces inside
included) or query-field reference, as long as no clause can be mistaken for two (`sepFree`) —
`NewFromString` reads the rendered filter string back as exactly those clauses, in order. -/
theorem parse_render (q : List Clause) (hne : q ≠ []) (h : ∀ c ∈ q, WfClause c) :
    newFromString (render q) = .ok (q.map toFilter) := by
  have hq : QueryFieldsOk := by decide
  have hval : ∀ c ∈ q, WfVal c.value := by
    intro c hc
    have := (h c hc).2.1
    cases hv : c.value <;> rw [hv] at this <;> exact this
  have hraw : rawFilters (render q) = q.map renderClause := by
    apply rawFilters_render
    intro c hc
    refine ⟨(h c hc).2.2, ?_⟩
    have hf := (hq c.field (h c hc).1).1
    unfold renderClause
    cases hfc : c.field with
    | nil => exact absurd hfc hf
    | cons x xs => simp
  have hall : parseAll (q.map renderClause) = .ok (q.map toFilter) :=
    parseAll_map q fun c hc => parse_renderClause hq c (h c hc).1 (hval c hc)
  unfold newFromString
  rw [hraw, hall]
  cases q with
  | nil => exact absurd rfl hne
  | cons c q => rfl

/-- **Soundness of the parser** (the converse of `parse_render`): a filter string `NewFromString` accepts
is a spelling — in the lenient grammar `FilterSpec.QueryText`: clause texts without `" and "` inside,
joined by `" and "`, optionally one more `" and "` at the end; a clause text is a query field, `=`, `!=`,
`<` or `>`, and a decimal literal (optional sign, leading zeros), a non-empty single-quoted string (any
bytes inside) or a query-field name — of exactly the clauses returned.  So an accepted string means
what it looks like; every string outside that grammar degrades to the blank query (`malformed_is_blank`). -/
theorem parse_sound (s : Bytes) (fs : List Filter) (h : newFromString s = .ok fs) :
    QueryText s (fs.map ofFilter) := newFromString_sound s fs h

/-- **Completeness of the lenient grammar** (generalises `parse_render` beyond canonical spellings): every
spelling `s` of a non-empty clause list `q` — `QueryText s q` — is accepted and read as exactly `q` -/
theorem parse_complete (s : Bytes) (q : List Clause) (h : QueryText s q) :
    newFromString s = .ok (q.map toFilter) := newFromString_complete s q h

/-- **The accepted language, exactly.**  `NewFromString` accepts `s` with result `fs` if and only if `s` is a
spelling of `fs` in the lenient grammar.  Every other byte string is rejected (and gives the blank query). -/
theorem accepted_language (s : Bytes) (fs : List Filter) :
    newFromString s = .ok fs ↔ QueryText s (fs.map ofFilter) := by
  constructor
  · exact parse_sound s fs
  · intro h
    have := parse_complete s _ h
    rw [this, List.map_map]
    congr 1
    conv => rhs; rw [← List.map_id fs]
    apply List.map_congr_left
    intro f _
    obtain ⟨fld, op, v⟩ := f
    cases v <;> rfl

/-- a leading `+` is accepted by `strconv.Atoi` and denotes the same integer (not produced by `render`) -/
theorem plus_sign_accepted (n : Nat) (h : n < 2 ^ 63) : atoi (0x2b :: natDigits n) = some (n : Int) := by
  have hd := digitsAcc_natDigits n
  have : (natDigits n).isEmpty = false := by cases hh : natDigits n <;> simp_all [natDigits_ne_nil]
  unfold atoi
  simp [this, hd, h]

/-- **C03, browser side.**  For a filter string of the grammar (the rendering of well-formed clauses),
the browser's listing is exactly the stored servers with status `master`, refreshed no earlier than
`now − liveness`, that satisfy every clause. -/
theorem C03_main (recs : List Record) (now liveness : Int) (q : List Clause) (hne : q ≠ [])
    (h : ∀ c ∈ q, WfClause c) :
    listServers recs now liveness Facts.statusMaster (browserQuery (render q)) =
      recs.filter fun r => selected now liveness Facts.statusMaster q (toServer r) := by
  rw [wellformed_is_used _ _ (parse_render q hne h)]
  exact selection_eq_filter recs now liveness _ (required_in_scope _ (by decide)) q

/-- `toFilter` and `ofFilter` are mutually inverse: the model's `Filter` and the specification's `Clause`
carry the same data -/
theorem toFilter_ofFilter (f : Filter) : toFilter (ofFilter f) = f := by
  obtain ⟨fld, op, v⟩ := f
  cases v <;> rfl

theorem ofFilter_toFilter (c : Clause) : ofFilter (toFilter c) = c := by
  obtain ⟨fld, op, v⟩ := c
  cases v <;> rfl

/-- **C03, browser side, every accepted string.**  Whatever filter string the parser accepts — in the
image of `render` or not (`+5`, leading zeros, a trailing `" and "`, quotes inside quotes, …) — the browser's
listing is exactly the stored servers with status `master`, refreshed no earlier than `now − liveness`,
that satisfy (in the declarative sense `sat`) every clause the parser returned; `parse_sound` says how
those clauses relate to the text. -/
theorem browser_listing_parsed (recs : List Record) (now liveness : Int) (s : Bytes) (fs : List Filter)
    (h : newFromString s = .ok fs) :
    listServers recs now liveness Facts.statusMaster (browserQuery s) =
      recs.filter fun r => selected now liveness Facts.statusMaster (fs.map ofFilter) (toServer r) := by
  rw [wellformed_is_used s fs h]
  have e : fs = (fs.map ofFilter).map toFilter := by
    rw [List.map_map]
    conv => lhs; rw [← List.map_id fs]
    apply List.map_congr_left
    intro f _
    exact (toFilter_ofFilter f).symm
  conv => lhs; rw [e]
  exact selection_eq_filter recs now liveness _ (required_in_scope _ (by decide)) _

/-- **C03, browser side, every byte string**: accepted, rejected or empty — the listing is the
specification's selection for the clauses `browserQuery` ends up with (none when the string is empty or rejected) -/
theorem browser_listing_any (recs : List Record) (now liveness : Int) (s : Bytes) :
    listServers recs now liveness Facts.statusMaster (browserQuery s) =
      recs.filter fun r => selected now liveness Facts.statusMaster ((browserQuery s).map ofFilter) (toServer r) := by
  have e : browserQuery s = ((browserQuery s).map ofFilter).map toFilter := by
    rw [List.map_map]
    conv => lhs; rw [← List.map_id (browserQuery s)]
    apply List.map_congr_left
    intro f _
    exact (toFilter_ofFilter f).symm
  conv => lhs; rw [e]
  exact selection_eq_filter recs now liveness _ (required_in_scope _ (by decide)) _

/-- **C03, browser side, stated on the text**: for every spelling `s` (lenient grammar) of a non-empty clause
list `q`, the browser's listing is exactly the specification's selection for `q` -/
theorem C03_lenient (recs : List Record) (now liveness : Int) (s : Bytes) (q : List Clause) (h : QueryText s q) :
    listServers recs now liveness Facts.statusMaster (browserQuery s) =
      recs.filter fun r => selected now liveness Facts.statusMaster q (toServer r) := by
  rw [wellformed_is_used _ _ (parse_complete s q h)]
  exact selection_eq_filter recs now liveness _ (required_in_scope _ (by decide)) q

/-- the REST listing is the specification's selection for the flags' clauses and status `info` -/
theorem rest_listing (recs : List Record) (now liveness : Int) (f : Flags) :
    listServers recs now liveness Facts.statusInfo (prepareQuery (toForm f)) =
      recs.filter fun r => selected now liveness Facts.statusInfo (flagClauses f) (toServer r) := by
  rw [rest_flags]
  exact selection_eq_filter recs now liveness _ (required_in_scope _ (by decide)) _

/-- the browser listing: status `master`; a string that does not parse selects by status and liveness alone -/
theorem browser_listing_malformed (recs : List Record) (now liveness : Int) (s : Bytes) (e : ParseErr)
    (h : newFromString s = .error e) :
    listServers recs now liveness Facts.statusMaster (browserQuery s) =
      recs.filter fun r => selected now liveness Facts.statusMaster [] (toServer r) := by
  rw [(malformed_is_blank s e h).1]
  exact selection_eq_filter recs now liveness _ (required_in_scope _ (by decide)) []

end Swat4.C03

/-- non-vacuity: `numplayers!=maxplayers` is a well-formed clause -/
example : Swat4.FilterSpec.WfClause ⟨Swat4.FilterSpec.fNumplayers, .ne, .fld Swat4.FilterSpec.fMaxplayers⟩ := by decide
/-- non-vacuity: `gamevariant='SWAT 4'` (a string with a space) is a well-formed clause -/
example : Swat4.FilterSpec.WfClause ⟨Swat4.FilterSpec.fGamevariant, .eq, .str [0x53, 0x57, 0x41, 0x54, 0x20, 0x34]⟩ := by decide
/-- non-vacuity: a string with quotes, an operator byte and the word "and" inside is well-formed -/
example : Swat4.FilterSpec.WfClause ⟨Swat4.FilterSpec.fGametype, .ne, .str [0x69, 0x74, 0x27, 0x73, 0x3d, 0x61, 0x6e, 0x64]⟩ := by decide
/-- non-vacuity: the frontends' statuses satisfy the hypothesis of `selection_eq_filter` -/
example : ∀ b ∈ Swat4.Filter.bitsOf Swat4.Facts.statusMaster, b ∈ Swat4.Facts.statusMembers := by decide
/-- non-vacuity of `browser_listing_parsed` / `parse_sound`: a string outside `render`'s image that parses
(`+`, leading zeros, quotes inside quotes, trailing separator) -/
example : Swat4.Filter.newFromString (Swat4.Bytes.ofAscii "numplayers>+007 and hostname='a'b' and ") =
    .ok [⟨Swat4.Bytes.ofAscii "numplayers", .gt, .int 7⟩, ⟨Swat4.Bytes.ofAscii "hostname", .eq, .str (Swat4.Bytes.ofAscii "a'b")⟩] := rfl
/-- non-vacuity of `parse_complete` / `C03_lenient`: that non-canonical string is a `QueryText` of its two clauses -/
example : Swat4.FilterSpec.QueryText (Swat4.Bytes.ofAscii "numplayers>+007 and hostname='a'b' and ")
    [⟨Swat4.Bytes.ofAscii "numplayers", .gt, .int 7⟩, ⟨Swat4.Bytes.ofAscii "hostname", .eq, .str (Swat4.Bytes.ofAscii "a'b")⟩] :=
  Swat4.C03.parse_sound _ [⟨Swat4.Bytes.ofAscii "numplayers", .gt, .int 7⟩, ⟨Swat4.Bytes.ofAscii "hostname", .eq, .str (Swat4.Bytes.ofAscii "a'b")⟩] rfl
