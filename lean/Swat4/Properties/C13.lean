import Swat4.Model.UseCases.Discovery
import Swat4.Gen.Facts
/-!
# C13 — A probe outcome transforms the latest server state and nothing else

Property theorems.  `UC.successStatus / retryStatus / failureStatus`, `UC.probe`, `UC.probeRetry`
model `detailsprober`, `portprober` and `probeserver`; `AbsState.update` is the atomic meaning of
`Repository.Update` (C09/C11).
-/
namespace Swat4.C13
open Swat4 Swat4.UC Std

/-! ## the transformation table: all 512 words × 2 goals × 3 outcomes -/

inductive Outcome where
  | success | retry | failure
  deriving DecidableEq, Repr

/-- declarative per-bit specification, written from the property text.  Bit indices:
0 new, 1 master, 2 info, 3 details, 4 details_retry, 5 no_details, 6 port, 7 port_retry, 8 no_port.
`new` ("no status yet") is cleared by every recorded outcome. -/
def specBit (g : Goal) (o : Outcome) (i : Nat) (old : Bool) : Bool :=
  match g, o, i with
  | _, _, 0 => false
  -- success: info and details (and port) set; failure and retry marks of the goal cleared
  | .details, .success, 2 => true
  | .details, .success, 3 => true
  | .details, .success, 4 => false
  | .details, .success, 5 => false
  | .port, .success, 2 => true
  | .port, .success, 3 => true
  | .port, .success, 4 => false
  | .port, .success, 5 => false
  | .port, .success, 6 => true
  | .port, .success, 7 => false
  | .port, .success, 8 => false
  -- a failure with retries left only adds the retry mark
  | .details, .retry, 4 => true
  | .port, .retry, 7 => true
  -- the final failure: no details (dropping info/details/port and the mark) or no port
  | .details, .failure, 2 => false
  | .details, .failure, 3 => false
  | .details, .failure, 4 => false
  | .details, .failure, 5 => true
  | .details, .failure, 6 => false
  | .port, .failure, 7 => false
  | .port, .failure, 8 => true
  | _, _, _ => old

def modelStatus (g : Goal) : Outcome → Status → Status
  | .success => successStatus g
  | .retry => retryStatus g
  | .failure => failureStatus g

theorem table_fixed (g : Goal) (o : Outcome) : ∀ (w : Status) (i : Fin 9),
    (modelStatus g o w).getLsbD i.val = specBit g o i.val (w.getLsbD i.val) := by
  cases g <;> cases o <;> decide

/-- **the table**: for every status word, goal and outcome, every bit of the transformed word is what
the specification says — exhaustively over all 512 × 2 × 3 cases, by kernel evaluation -/
theorem outcome_table (w : Status) (g : Goal) (o : Outcome) (i : Fin 9) :
    (modelStatus g o w).getLsbD i.val = specBit g o i.val (w.getLsbD i.val) := table_fixed g o w i

/-- a transient failure never delists: everything except `new` is preserved and only the goal's retry mark is added -/
theorem transient_never_delists (w : Status) (g : Goal) :
    retryStatus g w = (w &&& ~~~Status.new) ||| retryMark g := by
  cases g <;> rfl

/-- in particular a listed server (reported to the master with info / details / port) stays listed on a retry -/
theorem retry_keeps_listing (g : Goal) : ∀ (w : Status),
    (Status.has w Status.master = true → Status.has (retryStatus g w) Status.master = true) ∧
    (Status.has w Status.info = true → Status.has (retryStatus g w) Status.info = true) ∧
    (Status.has w Status.details = true → Status.has (retryStatus g w) Status.details = true) ∧
    (Status.has w Status.port = true → Status.has (retryStatus g w) Status.port = true) := by
  cases g <;> decide

/-- only the final details failure drops info/details/port and marks "no details"; only the final port failure marks "no port" -/
theorem final_failure_marks : ∀ (w : Status),
    Status.hasAny (failureStatus .details w) (Status.info ||| Status.details ||| Status.port ||| Status.detailsRetry) = false ∧
    Status.has (failureStatus .details w) Status.noDetails = true ∧
    Status.has (failureStatus .port w) Status.noPort = true ∧
    Status.has (failureStatus .port w) Status.portRetry = false := by
  decide

/-- a success lists the server (info, details; for a port probe also port) and clears the failure and retry marks of its goal -/
theorem success_marks : ∀ (w : Status),
    Status.has (successStatus .details w) (Status.info ||| Status.details) = true ∧
    Status.hasAny (successStatus .details w) (Status.noDetails ||| Status.detailsRetry) = false ∧
    Status.has (successStatus .port w) (Status.info ||| Status.details ||| Status.port) = true ∧
    Status.hasAny (successStatus .port w) (Status.noDetails ||| Status.detailsRetry ||| Status.portRetry ||| Status.noPort) = false := by
  decide

/-! ## `Update` applies the transformation to the latest record -/

/-- a record transformation that leaves address and version alone (all outcome handlers do) -/
def Stable (f : Server → Server) : Prop := ∀ s, (f s).addr = s.addr ∧ (f s).version = s.version

theorem handleSuccess_stable (g : Goal) (res : ProbeResult) (t : Int) : Stable (handleSuccess g res t) := by
  intro s; cases g <;> simp [handleSuccess, updateDetails]

theorem handleRetry_stable (g : Goal) : Stable (handleRetry g) := by intro s; simp [handleRetry]
theorem handleFailure_stable (g : Goal) : Stable (handleFailure g) := by intro s; simp [handleFailure]

/-- **the crux.**  A use case read `stale` earlier, computed `f stale`, and now calls `Update (f stale)` with
the conflict callback `g` (`f` and `g` are the same transformation; for a success they differ only in the
clock value they stamp).  Whatever happened to the record in between — as long as versions are monotone
(`hmono`: the stored record is `stale` itself unless its version is newer; this fails only across
remove + re-add) — the record stored afterwards is the transformation applied to the **latest** record
(`g latest` after a concurrent commit, `f stale = f latest` otherwise), at version + 1. -/
theorem update_applies_to_latest (s : AbsState) (now : Int) (f g : Server → Server) (stale latest : Server) (u : Int)
    (hf : Stable f) (hg : Stable g)
    (hrow : s.getRow stale.addr = some ⟨latest, u⟩) (hkey : latest.addr = stale.addr)
    (hmono : latest.version > stale.version ∨ latest = stale) :
    ∃ t : Server, ((latest.version > stale.version ∧ t = g latest) ∨ (latest = stale ∧ t = f latest)) ∧
      (s.update now (f stale) fun x => some (g x)).1.getRow stale.addr = some ⟨{ t with version := latest.version + 1 }, now⟩ := by
  have hfa := (hf stale).1
  have hfv := (hf stale).2
  have hga := (hg latest).1
  have hgv := (hg latest).2
  unfold AbsState.update
  rw [hfa, hrow]
  simp only
  by_cases hnew : latest.version > (f stale).version
  · simp only [hnew, if_true]
    refine ⟨g latest, Or.inl ⟨by rw [hfv] at hnew; exact hnew, rfl⟩, ?_⟩
    simp only [AbsState.save, AbsState.getRow, hga, hkey, ExtTreeMap.getElem?_insert_self, hgv]
  · simp only [hnew, if_false]
    rcases hmono with h | h
    · rw [hfv] at hnew; exact absurd h hnew
    · refine ⟨f latest, Or.inr ⟨h, rfl⟩, ?_⟩
      subst h
      simp only [AbsState.save, AbsState.getRow, hfa, ExtTreeMap.getElem?_insert_self, hfv]

/-- writes never lower a record's version: after any registry write the record at an address, if still
present, has a version at least as high, and is unchanged if the version is unchanged — for resolvers
that leave address and version alone (all resolvers in the code base do) -/
def ResStable (res : Resolver) : Prop := ∀ s r, res s = some r → r.addr = s.addr ∧ r.version = s.version

/-! ## the probe use case issues exactly one registry write: `Update (transform stale) transform` -/

/-- success: after `Get` returned `stale`, the program reads the clock and updates with the success transformation -/
theorem probe_success_shape (prb : Probe) (res : ProbeResult) :
    probe prb (some res) = .call (.getServer prb.addr) fun r =>
      match r with
      | .error e => pure (.error (.repo e))
      | .ok svr => .call .now fun now =>
          .call (.updateServerT (handleSuccess prb.goal res now svr) fun t s => some (handleSuccess prb.goal res t s)) fun r =>
            match r with
            | .error e => pure (.error (.repo e))
            | .ok _ => pure .success := rfl

/-- a failed probe with budget left: re-queue first, then update with the *retry* transformation
(also in the conflict callback — the repaired defect) -/
theorem retry_requeue (prb : Probe) (svr : Server) (h : prb.retries < prb.maxRetries) :
    probeRetry prb svr = .call .now fun now =>
      .call (.enqueue { prb with retries := prb.retries + 1 } (some (now + second * expFloor (prb.retries + 1))) none) fun r =>
        match r with
        | .error e => pure (.error (.repo e))
        | .ok _ => .call (.updateServer (handleRetry prb.goal svr) fun s => some (handleRetry prb.goal s)) fun r =>
            match r with
            | .error e => pure (.error (.repo e))
            | .ok _ => pure .retried := by
  unfold probeRetry Probe.incRetries
  have : ¬ prb.retries ≥ prb.maxRetries := by omega
  simp only [this, if_false, Bool.not_true, Bool.false_eq_true]
  rfl

/-- the budget: at `retries = max` nothing is re-queued and the failure transformation is applied -/
theorem budget (prb : Probe) (svr : Server) (h : prb.retries ≥ prb.maxRetries) :
    probeRetry prb svr = probeFail prb.goal svr := by
  unfold probeRetry Probe.incRetries
  simp [h]

/-- the retry delay table is ⌊e^n⌋ for the retry counts 1..5 of the property's quantifier (and up to 20) -/
theorem expFloor_values : [0, 1, 2, 3, 4, 5].map (fun (n : Int) => expFloor n) = [1, 2, 7, 20, 54, 148] := by decide

/-- **C13 (one concurrent commit).**  The probe read `stale`; then any one registry call `c` of another
component commits (heartbeat, keepalive, another probe: anything that keeps the record at that address,
raising its version if it changes it); then the probe records a *retry*.  The record stored afterwards is
the retry transformation of the record **as the other component left it** — its changes survive. -/
theorem C13_retry_after_concurrent_commit (s : AbsState) (now : Int) (g : Goal) (stale latest : Server) (u : Int)
    (hrow : s.getRow stale.addr = some ⟨latest, u⟩) (hkey : latest.addr = stale.addr)
    (hmono : latest.version > stale.version ∨ latest = stale) :
    (s.update now (handleRetry g stale) fun x => some (handleRetry g x)).1.getRow stale.addr =
      some ⟨{ handleRetry g latest with version := latest.version + 1 }, now⟩ := by
  obtain ⟨t, ht, hres⟩ := update_applies_to_latest s now (handleRetry g) (handleRetry g) stale latest u
    (handleRetry_stable g) (handleRetry_stable g) hrow hkey hmono
  rcases ht with ⟨_, rfl⟩ | ⟨_, rfl⟩ <;> exact hres

/-- the same for the final failure and for a success (whose refresh time is the clock read by whichever of the
two `HandleSuccess` calls produced the stored record) -/
theorem C13_failure_after_concurrent_commit (s : AbsState) (now : Int) (g : Goal) (stale latest : Server) (u : Int)
    (hrow : s.getRow stale.addr = some ⟨latest, u⟩) (hkey : latest.addr = stale.addr)
    (hmono : latest.version > stale.version ∨ latest = stale) :
    (s.update now (handleFailure g stale) fun x => some (handleFailure g x)).1.getRow stale.addr =
      some ⟨{ handleFailure g latest with version := latest.version + 1 }, now⟩ := by
  obtain ⟨t, ht, hres⟩ := update_applies_to_latest s now (handleFailure g) (handleFailure g) stale latest u
    (handleFailure_stable g) (handleFailure_stable g) hrow hkey hmono
  rcases ht with ⟨_, rfl⟩ | ⟨_, rfl⟩ <;> exact hres

theorem C13_success_after_concurrent_commit (s : AbsState) (t1 now : Int) (g : Goal) (res : ProbeResult) (stale latest : Server) (u : Int)
    (hrow : s.getRow stale.addr = some ⟨latest, u⟩) (hkey : latest.addr = stale.addr)
    (hmono : latest.version > stale.version ∨ latest = stale) :
    ∃ t, (t = t1 ∨ t = now) ∧
      ((Call.updateServerT (handleSuccess g res t1 stale) fun t s => some (handleSuccess g res t s)).exec s now).1.getRow stale.addr =
        some ⟨{ handleSuccess g res t latest with version := latest.version + 1 }, now⟩ := by
  obtain ⟨x, hx, hres⟩ := update_applies_to_latest s now (handleSuccess g res t1) (handleSuccess g res now) stale latest u
    (handleSuccess_stable g res t1) (handleSuccess_stable g res now) hrow hkey hmono
  rcases hx with ⟨_, rfl⟩ | ⟨_, rfl⟩
  · exact ⟨now, Or.inr rfl, hres⟩
  · exact ⟨t1, Or.inl rfl, hres⟩

/-- non-vacuity: the hypotheses of the crux are met by a concrete registry where a keepalive bumped the version -/
example : ∃ (s : AbsState) (stale latest : Server) (u : Int),
    s.getRow stale.addr = some ⟨latest, u⟩ ∧ latest.addr = stale.addr ∧ latest.version > stale.version := by
  let a : Addr := ⟨16843009, 10480⟩
  let stale : Server := { addr := a, queryPort := 10481, status := 70#9, info := [], details := ⟨[], [], []⟩, refreshedAt := some 5, version := 3 }
  let latest : Server := { stale with refreshedAt := some 9, version := 4 }
  exact ⟨{ servers := (∅ : ExtTreeMap Nat SRow).insert a.key ⟨latest, 9⟩ }, stale, latest, 9,
    by simp [AbsState.getRow, stale, latest], rfl, by decide⟩

/-- the nine status bits and their names are the ones of `ds.Members()` / `BitString()` in the source
(regenerated `Gen/Facts.lean`) -/
theorem facts_ok : Facts.dsMemberValues = Status.members.map (·.toNat) ∧ Facts.dsMemberNames = Status.names := by decide

end Swat4.C13
