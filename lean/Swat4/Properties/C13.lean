import Swat4.Model.UseCases.Discovery
import Swat4.Spec.ProbeOutcome
import Swat4.Gen.Facts
import Swat4.Lemmas.C13Run
import Swat4.Lemmas.C13Exp
import Swat4.Lemmas.C13Race
import Swat4.Lemmas.C13Bridge
import Swat4.Lemmas.C13Exp20
import Swat4.Lemmas.C13Budget
import Swat4.Lemmas.UseCaseMore
/-!
# C13 — A probe outcome transforms the latest server state and nothing else

Property theorems.  `UC.successStatus / retryStatus / failureStatus`, `UC.probe`, `UC.probeRetry`
model `detailsprober`, `portprober` and `probeserver`; `AbsState.update` is the atomic meaning of
`Repository.Update` (C09/C11).
-/
namespace Swat4.C13
open Swat4 Swat4.UC Std Swat4.C13Run

/-! ## the transformation table: all 512 words × 2 goals × 3 outcomes

`Outcome` and the declarative per-bit specification `specBit` live in `Spec/ProbeOutcome.lean` (same namespace, core only), so
that the driver's `table` oracle evaluates the very definition the theorems below are about. -/

def modelStatus (g : Goal) : Outcome → Status → Status
  | .success => successStatus g
  | .retry => retryStatus g
  | .failure => failureStatus g

theorem table_fixed (g : Goal) (o : Outcome) : ∀ (w : Status) (i : Fin 9),
    (modelStatus g o w).getLsbD i.val = specBit g o i.val (w.getLsbD i.val) := by
  cases g <;> cases o <;> decide

/-- **the table**: for every status word, goal and outcome, every bit of the transformed word is what
the specification says — exhaustively over all 512 × 2 × 3 cases, by kernel evaluation -/
theorem outcome_table (w : Status) (g : Goal) (o : Outcome) (i : Fin 9) :
    (modelStatus g o w).getLsbD i.val = specBit g o i.val (w.getLsbD i.val) := table_fixed g o w i

/-- a transient failure never delists: everything except `new` is preserved and only the goal's retry mark is added -/
theorem transient_never_delists (w : Status) (g : Goal) :
    retryStatus g w = (w &&& ~~~Status.new) ||| retryMark g := by
  cases g <;> rfl

/-- in particular a listed server (reported to the master with info / details / port) stays listed on a retry -/
theorem retry_keeps_listing (g : Goal) : ∀ (w : Status),
    (Status.has w Status.master = true → Status.has (retryStatus g w) Status.master = true) ∧
    (Status.has w Status.info = true → Status.has (retryStatus g w) Status.info = true) ∧
    (Status.has w Status.details = true → Status.has (retryStatus g w) Status.details = true) ∧
    (Status.has w Status.port = true → Status.has (retryStatus g w) Status.port = true) := by
  cases g <;> decide

/-- only the final details failure drops info/details/port and marks "no details"; only the final port failure marks "no port" -/
theorem final_failure_marks : ∀ (w : Status),
    Status.hasAny (failureStatus .details w) (Status.info ||| Status.details ||| Status.port ||| Status.detailsRetry) = false ∧
    Status.has (failureStatus .details w) Status.noDetails = true ∧
    Status.has (failureStatus .port w) Status.noPort = true ∧
    Status.has (failureStatus .port w) Status.portRetry = false := by
  decide

/-- a success lists the server (info, details; for a port probe also port) and clears the failure and retry marks of its goal -/
theorem success_marks : ∀ (w : Status),
    Status.has (successStatus .details w) (Status.info ||| Status.details) = true ∧
    Status.hasAny (successStatus .details w) (Status.noDetails ||| Status.detailsRetry) = false ∧
    Status.has (successStatus .port w) (Status.info ||| Status.details ||| Status.port) = true ∧
    Status.hasAny (successStatus .port w) (Status.noDetails ||| Status.detailsRetry ||| Status.portRetry ||| Status.noPort) = false := by
  decide

/-! ## `Update` applies the transformation to the latest record -/

/-- a record transformation that leaves address and version alone (all outcome handlers do) -/
def Stable (f : Server → Server) : Prop := ∀ s, (f s).addr = s.addr ∧ (f s).version = s.version

theorem handleSuccess_stable (g : Goal) (res : ProbeResult) (t : Int) : Stable (handleSuccess g res t) := by
  intro s; cases g <;> simp [handleSuccess, updateDetails]

theorem handleRetry_stable (g : Goal) : Stable (handleRetry g) := by intro s; simp [handleRetry]
theorem handleFailure_stable (g : Goal) : Stable (handleFailure g) := by intro s; simp [handleFailure]

/-- **the crux.**  A use case read `stale` earlier, computed `f stale`, and now calls `Update (f stale)` with
the conflict callback `g` (`f` and `g` are the same transformation; for a success they differ only in the
clock value they stamp).  Whatever happened to the record in between — as long as versions are monotone
(`hmono`: the stored record is `stale` itself unless its version is newer; this fails only across
remove + re-add) — the record stored afterwards is the transformation applied to the **latest** record
(`g latest` after a concurrent commit, `f stale = f latest` otherwise), at version + 1. -/
theorem update_applies_to_latest (s : AbsState) (now : Int) (f g : Server → Server) (stale latest : Server) (u : Int)
    (hf : Stable f) (hg : Stable g)
    (hrow : s.getRow stale.addr = some ⟨latest, u⟩) (hkey : latest.addr = stale.addr)
    (hmono : latest.version > stale.version ∨ latest = stale) :
    ∃ t : Server, ((latest.version > stale.version ∧ t = g latest) ∨ (latest = stale ∧ t = f latest)) ∧
      (s.update now (f stale) fun x => some (g x)).1.getRow stale.addr = some ⟨{ t with version := latest.version + 1 }, now⟩ := by
  have hfa := (hf stale).1
  have hfv := (hf stale).2
  have hga := (hg latest).1
  have hgv := (hg latest).2
  unfold AbsState.update
  rw [hfa, hrow]
  simp only
  by_cases hnew : latest.version > (f stale).version
  · simp only [hnew, if_true]
    refine ⟨g latest, Or.inl ⟨by rw [hfv] at hnew; exact hnew, rfl⟩, ?_⟩
    simp only [AbsState.save, AbsState.getRow, hga, hkey, ExtTreeMap.getElem?_insert_self, hgv]
  · simp only [hnew, if_false]
    rcases hmono with h | h
    · rw [hfv] at hnew; exact absurd h hnew
    · refine ⟨f latest, Or.inr ⟨h, rfl⟩, ?_⟩
      subst h
      simp only [AbsState.save, AbsState.getRow, hfa, ExtTreeMap.getElem?_insert_self, hfv]

/-- writes never lower a record's version: after any registry write the record at an address, if still
present, has a version at least as high, and is unchanged if the version is unchanged — for resolvers
that leave address and version alone (all resolvers in the code base do) -/
def ResStable (res : Resolver) : Prop := ∀ s r, res s = some r → r.addr = s.addr ∧ r.version = s.version

/-! ## the probe use case issues exactly one registry write: `Update (transform stale) transform` -/

/-- success: after `Get` returned `stale`, the program reads the clock and updates with the success transformation -/
theorem probe_success_shape (prb : Probe) (res : ProbeResult) :
    probe prb (some res) = .call (.getServer prb.addr) fun r =>
      match r with
      | .error e => pure (.error (.repo e))
      | .ok svr => .call .now fun now =>
          .call (.updateServerT (handleSuccess prb.goal res now svr) fun t s => some (handleSuccess prb.goal res t s)) fun r =>
            match r with
            | .error e => pure (.error (.repo e))
            | .ok _ => pure .success := rfl

/-- a failed probe with budget left: re-queue first, then update with the *retry* transformation
(also in the conflict callback — the repaired defect) -/
theorem retry_requeue (prb : Probe) (svr : Server) (h : prb.retries < prb.maxRetries) :
    probeRetry prb svr = .call .now fun now =>
      .call (.enqueue { prb with retries := prb.retries + 1 } (some (now + second * expFloor (prb.retries + 1))) none) fun r =>
        match r with
        | .error e => pure (.error (.repo e))
        | .ok _ => .call (.updateServer (handleRetry prb.goal svr) fun s => some (handleRetry prb.goal s)) fun r =>
            match r with
            | .error e => pure (.error (.repo e))
            | .ok _ => pure .retried := by
  unfold probeRetry Probe.incRetries
  have : ¬ prb.retries ≥ prb.maxRetries := by omega
  simp only [this, if_false, Bool.not_true, Bool.false_eq_true]
  rfl

/-- the budget: at `retries = max` nothing is re-queued and the failure transformation is applied -/
theorem budget (prb : Probe) (svr : Server) (h : prb.retries ≥ prb.maxRetries) :
    probeRetry prb svr = probeFail prb.goal svr := by
  unfold probeRetry Probe.incRetries
  simp [h]

/-- the retry delay table is ⌊e^n⌋ for the retry counts 1..5 of the property's quantifier (and up to 20) -/
theorem expFloor_values : [0, 1, 2, 3, 4, 5].map (fun (n : Int) => expFloor n) = [1, 2, 7, 20, 54, 148] := by decide

/-- **C13 (one concurrent commit).**  The probe read `stale`; then any one registry call `c` of another
component commits (heartbeat, keepalive, another probe: anything that keeps the record at that address,
raising its version if it changes it); then the probe records a *retry*.  The record stored afterwards is
the retry transformation of the record **as the other component left it** — its changes survive. -/
theorem C13_retry_after_concurrent_commit (s : AbsState) (now : Int) (g : Goal) (stale latest : Server) (u : Int)
    (hrow : s.getRow stale.addr = some ⟨latest, u⟩) (hkey : latest.addr = stale.addr)
    (hmono : latest.version > stale.version ∨ latest = stale) :
    (s.update now (handleRetry g stale) fun x => some (handleRetry g x)).1.getRow stale.addr =
      some ⟨{ handleRetry g latest with version := latest.version + 1 }, now⟩ := by
  obtain ⟨t, ht, hres⟩ := update_applies_to_latest s now (handleRetry g) (handleRetry g) stale latest u
    (handleRetry_stable g) (handleRetry_stable g) hrow hkey hmono
  rcases ht with ⟨_, rfl⟩ | ⟨_, rfl⟩ <;> exact hres

/-- the same for the final failure and for a success (whose refresh time is the clock read by whichever of the
two `HandleSuccess` calls produced the stored record) -/
theorem C13_failure_after_concurrent_commit (s : AbsState) (now : Int) (g : Goal) (stale latest : Server) (u : Int)
    (hrow : s.getRow stale.addr = some ⟨latest, u⟩) (hkey : latest.addr = stale.addr)
    (hmono : latest.version > stale.version ∨ latest = stale) :
    (s.update now (handleFailure g stale) fun x => some (handleFailure g x)).1.getRow stale.addr =
      some ⟨{ handleFailure g latest with version := latest.version + 1 }, now⟩ := by
  obtain ⟨t, ht, hres⟩ := update_applies_to_latest s now (handleFailure g) (handleFailure g) stale latest u
    (handleFailure_stable g) (handleFailure_stable g) hrow hkey hmono
  rcases ht with ⟨_, rfl⟩ | ⟨_, rfl⟩ <;> exact hres

theorem C13_success_after_concurrent_commit (s : AbsState) (t1 now : Int) (g : Goal) (res : ProbeResult) (stale latest : Server) (u : Int)
    (hrow : s.getRow stale.addr = some ⟨latest, u⟩) (hkey : latest.addr = stale.addr)
    (hmono : latest.version > stale.version ∨ latest = stale) :
    ∃ t, (t = t1 ∨ t = now) ∧
      ((Call.updateServerT (handleSuccess g res t1 stale) fun t s => some (handleSuccess g res t s)).exec s now).1.getRow stale.addr =
        some ⟨{ handleSuccess g res t latest with version := latest.version + 1 }, now⟩ := by
  obtain ⟨x, hx, hres⟩ := update_applies_to_latest s now (handleSuccess g res t1) (handleSuccess g res now) stale latest u
    (handleSuccess_stable g res t1) (handleSuccess_stable g res now) hrow hkey hmono
  rcases hx with ⟨_, rfl⟩ | ⟨_, rfl⟩
  · exact ⟨now, Or.inr rfl, hres⟩
  · exact ⟨t1, Or.inl rfl, hres⟩

/-- non-vacuity: the hypotheses of the crux are met by a concrete registry where a keepalive bumped the version -/
example : ∃ (s : AbsState) (stale latest : Server) (u : Int),
    s.getRow stale.addr = some ⟨latest, u⟩ ∧ latest.addr = stale.addr ∧ latest.version > stale.version := by
  let a : Addr := ⟨16843009, 10480⟩
  let stale : Server := { addr := a, queryPort := 10481, status := 70#9, info := [], details := ⟨[], [], []⟩, refreshedAt := some 5, version := 3 }
  let latest : Server := { stale with refreshedAt := some 9, version := 4 }
  exact ⟨{ servers := (∅ : ExtTreeMap Nat SRow).insert a.key ⟨latest, 9⟩ }, stale, latest, 9,
    by simp [AbsState.getRow, stale, latest], rfl, by decide⟩

/-! ## the executed use case: `(probe prb outcome).run s now`, whole result state -/

/-- **clause "a failure with retries left only adds the retry mark and re-queues the same probe with one more
retry, ready after floor(e^retries) seconds" — on an executed run.**  `probeserver.Execute` (probeserver.go:62-80,
112-160) run to completion on a registry holding `latest` at the probed address, the probe failed, budget left.
The result is given as an equation on the **whole** state: the registry differs only at the probed address, where
`handleRetry goal latest` is stored one version up with update time `now` (`save`); the queue is the old queue plus
exactly one item — the same probe (address, port, goal, max) with `retries + 1`, ready at
`now + 1 s · expFloor (retries + 1)`, without expiry (`AddBetween(…, after, repositories.NC)`, probeserver.go:104) and
with the next fresh id; the instance table is untouched; the use case returns `ErrProbeRetried`.
`haddr` is the store invariant "a record is stored under its own address". -/
theorem probe_retry_run (s : AbsState) (now : Int) (prb : Probe) (latest : Server) (u : Int)
    (hrow : s.getRow prb.addr = some ⟨latest, u⟩) (haddr : latest.addr = prb.addr)
    (h : prb.retries < prb.maxRetries) :
    (probe prb none).run s now =
      ({ servers := s.servers.insert prb.addr.key ⟨{ handleRetry prb.goal latest with version := latest.version + 1 }, now⟩,
         instances := s.instances,
         queue := s.queue ++ [⟨s.nextId, { prb with retries := prb.retries + 1 }, now + second * expFloor (prb.retries + 1), none⟩],
         nextId := s.nextId + 1 }, .retried) := by
  rw [probe_unfold]
  simp only [Prog.run_call, Call.exec, AbsState.get, hrow]
  have := probeRetry_run s now prb latest latest u (haddr ▸ hrow) rfl (Or.inr rfl) h
  rw [haddr] at this
  exact this

/-- **clause "only the final failure marks the server as having no details / no port" — on an executed run**
(`retries ≥ max`: `IncRetries` refuses, probeserver.go:118-128, `fail` 162-182): the stored record is `handleFailure goal`
of the **latest** stored record, one version up; the queue is unchanged (nothing re-queued: "never beyond its retry
budget"); nothing else changes; the use case returns `ErrOutOfRetries`. -/
theorem probe_failure_run (s : AbsState) (now : Int) (prb : Probe) (latest : Server) (u : Int)
    (hrow : s.getRow prb.addr = some ⟨latest, u⟩) (haddr : latest.addr = prb.addr)
    (h : prb.retries ≥ prb.maxRetries) :
    (probe prb none).run s now =
      ({ servers := s.servers.insert prb.addr.key ⟨{ handleFailure prb.goal latest with version := latest.version + 1 }, now⟩,
         instances := s.instances, queue := s.queue, nextId := s.nextId }, .outOfRetries) := by
  rw [probe_unfold]
  simp only [Prog.run_call, Call.exec, AbsState.get, hrow]
  rw [probeRetry_final prb latest h]
  have := probeFail_run s now prb.goal latest latest u (haddr ▸ hrow) rfl (Or.inr rfl)
  rw [haddr] at this
  exact this

/-- **clause "success stores the probed details (and query port), refreshes the server …" — on an executed run**
(probeserver.go:82-100): stored record = `handleSuccess goal res now` of the latest stored record, one version up;
queue, instances, id counter unchanged. -/
theorem probe_success_run (s : AbsState) (now : Int) (prb : Probe) (res : ProbeResult) (latest : Server) (u : Int)
    (hrow : s.getRow prb.addr = some ⟨latest, u⟩) (haddr : latest.addr = prb.addr) :
    (probe prb (some res)).run s now =
      ({ servers := s.servers.insert prb.addr.key ⟨{ handleSuccess prb.goal res now latest with version := latest.version + 1 }, now⟩,
         instances := s.instances, queue := s.queue, nextId := s.nextId }, .success) := by
  rw [probe_unfold]
  simp only [Prog.run_call, Call.exec, AbsState.get, hrow]
  have := probeSuccessRest_run s now prb res latest latest u (haddr ▸ hrow) rfl (Or.inr rfl)
  rw [haddr] at this
  exact this

/-- the probed server is not stored (removed before the probe was popped): `Get` fails with `ErrServerNotFound`,
`Execute` returns that error before probing (probeserver.go:63-70) — whatever the outcome would have been, **nothing**
is written: no record is created, nothing is re-queued. -/
theorem probe_missing_run (s : AbsState) (now : Int) (prb : Probe) (outcome : Option ProbeResult)
    (hrow : s.getRow prb.addr = none) :
    (probe prb outcome).run s now = (s, .error (.repo .serverNotFound)) := by
  rw [probe_unfold]
  simp only [Prog.run_call, Call.exec, AbsState.get, hrow]
  rfl

/-! ## the same with one concurrent commit between the probe's `Get` and its write -/

/-- **C13 for a retry, on a two-client history, whole state.**  The probe's `Get` returned `r0`; then *any* call `W`
of another component commits (hypotheses: afterwards the address holds `w`, whose version is higher unless it is `r0`
itself); then the probe runs on.  The final state is `W`'s state with `handleRetry goal w` — the retry transformation of
the record **as `W` left it** — stored one version up, plus the one re-queued probe; everything else is exactly as `W`
left it ("the concurrent update's own changes survive … and nothing else"). -/
theorem probe_retry_race {β : Type} (s0 : AbsState) (t0 tW now : Int) (prb : Probe) (r0 : Server) (u0 : Int)
    (W : Call β) (w : Server) (uw : Int)
    (hrow0 : s0.getRow prb.addr = some ⟨r0, u0⟩) (ha0 : r0.addr = prb.addr)
    (hW : (W.exec s0 tW).1.getRow prb.addr = some ⟨w, uw⟩) (haw : w.addr = prb.addr)
    (hmono : w.version > r0.version ∨ w = r0) (h : prb.retries < prb.maxRetries) :
    raceRun (probe prb none) 1 t0 W tW now s0 =
      ({ servers := (W.exec s0 tW).1.servers.insert prb.addr.key ⟨{ handleRetry prb.goal w with version := w.version + 1 }, now⟩,
         instances := (W.exec s0 tW).1.instances,
         queue := (W.exec s0 tW).1.queue ++
           [⟨(W.exec s0 tW).1.nextId, { prb with retries := prb.retries + 1 }, now + second * expFloor (prb.retries + 1), none⟩],
         nextId := (W.exec s0 tW).1.nextId + 1 }, .retried) := by
  unfold raceRun
  rw [probe_step_get s0 t0 prb none r0 u0 hrow0]
  have := probeRetry_run (W.exec s0 tW).1 now prb r0 w uw (ha0 ▸ hW) (haw.trans ha0.symm) hmono h
  rw [ha0] at this
  exact this

/-- the same history for the final failure -/
theorem probe_failure_race {β : Type} (s0 : AbsState) (t0 tW now : Int) (prb : Probe) (r0 : Server) (u0 : Int)
    (W : Call β) (w : Server) (uw : Int)
    (hrow0 : s0.getRow prb.addr = some ⟨r0, u0⟩) (ha0 : r0.addr = prb.addr)
    (hW : (W.exec s0 tW).1.getRow prb.addr = some ⟨w, uw⟩) (haw : w.addr = prb.addr)
    (hmono : w.version > r0.version ∨ w = r0) (h : prb.retries ≥ prb.maxRetries) :
    raceRun (probe prb none) 1 t0 W tW now s0 =
      ({ servers := (W.exec s0 tW).1.servers.insert prb.addr.key ⟨{ handleFailure prb.goal w with version := w.version + 1 }, now⟩,
         instances := (W.exec s0 tW).1.instances, queue := (W.exec s0 tW).1.queue, nextId := (W.exec s0 tW).1.nextId },
       .outOfRetries) := by
  unfold raceRun
  rw [probe_step_get s0 t0 prb none r0 u0 hrow0]
  simp only
  rw [probeRetry_final prb r0 h]
  have := probeFail_run (W.exec s0 tW).1 now prb.goal r0 w uw (ha0 ▸ hW) (haw.trans ha0.symm) hmono
  rw [ha0] at this
  exact this

/-- the same history for a success (clock fixed at `now` after the commit: both `HandleSuccess` calls stamp `now`;
`C13_success_after_concurrent_commit` covers distinct clock values) -/
theorem probe_success_race {β : Type} (s0 : AbsState) (t0 tW now : Int) (prb : Probe) (res : ProbeResult) (r0 : Server) (u0 : Int)
    (W : Call β) (w : Server) (uw : Int)
    (hrow0 : s0.getRow prb.addr = some ⟨r0, u0⟩) (ha0 : r0.addr = prb.addr)
    (hW : (W.exec s0 tW).1.getRow prb.addr = some ⟨w, uw⟩) (haw : w.addr = prb.addr)
    (hmono : w.version > r0.version ∨ w = r0) :
    raceRun (probe prb (some res)) 1 t0 W tW now s0 =
      ({ servers := (W.exec s0 tW).1.servers.insert prb.addr.key ⟨{ handleSuccess prb.goal res now w with version := w.version + 1 }, now⟩,
         instances := (W.exec s0 tW).1.instances, queue := (W.exec s0 tW).1.queue, nextId := (W.exec s0 tW).1.nextId },
       .success) := by
  unfold raceRun
  rw [probe_step_get s0 t0 prb (some res) r0 u0 hrow0]
  have := probeSuccessRest_run (W.exec s0 tW).1 now prb res r0 w uw (ha0 ▸ hW) (haw.trans ha0.symm) hmono
  rw [ha0] at this
  exact this

/-- the concurrent call **removed** the server: the retry is queued all the same (the `AddBetween` precedes the
`Update`, probeserver.go:132 vs 143), the `Update` fails with `ErrServerNotFound` (servers.go:134-137) and the registry
stays exactly as the remover left it — a removed server is not resurrected by a probe outcome.  (The orphan retry
finds no server when popped: `probe_missing_run`.) -/
theorem probe_retry_race_removed {β : Type} (s0 : AbsState) (t0 tW now : Int) (prb : Probe) (r0 : Server) (u0 : Int)
    (W : Call β)
    (hrow0 : s0.getRow prb.addr = some ⟨r0, u0⟩) (ha0 : r0.addr = prb.addr)
    (hW : (W.exec s0 tW).1.getRow prb.addr = none) (h : prb.retries < prb.maxRetries) :
    raceRun (probe prb none) 1 t0 W tW now s0 =
      ({ servers := (W.exec s0 tW).1.servers, instances := (W.exec s0 tW).1.instances,
         queue := (W.exec s0 tW).1.queue ++
           [⟨(W.exec s0 tW).1.nextId, { prb with retries := prb.retries + 1 }, now + second * expFloor (prb.retries + 1), none⟩],
         nextId := (W.exec s0 tW).1.nextId + 1 }, .error (.repo .serverNotFound)) := by
  unfold raceRun
  rw [probe_step_get s0 t0 prb none r0 u0 hrow0]
  exact probeRetry_run_removed (W.exec s0 tW).1 now prb r0 (ha0 ▸ hW) h

/-! ## field level: what each outcome handler writes -/

/-- **field level, success** — all seven fields of the result.  Mirrors `DetailsProber.HandleSuccess`
(detailsprober.go:101-111: `UpdateDetails(det)` = `Details = det; Info = det.Info` (server.go:89-92), `Refresh(now)`
(server.go:94-96), `UpdateDiscoveryStatus(Info|Details)`, `ClearDiscoveryStatus(NoDetails|DetailsRetry)`; `QueryPort` is not
assigned) and `PortProber.HandleSuccess` (portprober.go:208-219: additionally `svr.QueryPort = result.Port`, line 213, and
the port bits).  Address and version are untouched by both. -/
theorem handleSuccess_fields (g : Goal) (res : ProbeResult) (now : Int) (s : Server) :
    (handleSuccess g res now s).details = res.details ∧
    (handleSuccess g res now s).info = res.details.info ∧
    (handleSuccess g res now s).refreshedAt = some now ∧
    (handleSuccess g res now s).queryPort = (match g with | .port => res.port | .details => s.queryPort) ∧
    (handleSuccess g res now s).status = successStatus g s.status ∧
    (handleSuccess g res now s).addr = s.addr ∧
    (handleSuccess g res now s).version = s.version := by
  rw [handleSuccess_eq]; exact ⟨rfl, rfl, rfl, rfl, rfl, rfl, rfl⟩

/-- **field level, retry**: `HandleRetry` touches only the status word (detailsprober.go:113-116,
portprober.go:221-224: a single `UpdateDiscoveryStatus(…Retry)`) -/
theorem handleRetry_only_status (g : Goal) (s : Server) :
    handleRetry g s = { s with status := retryStatus g s.status } := rfl

/-- **field level, final failure**: `HandleFailure` touches only the status word (detailsprober.go:118-122,
portprober.go:226-230: `ClearDiscoveryStatus` + `UpdateDiscoveryStatus`); in particular the stored info, details, query
port and refresh time of a delisted server are kept -/
theorem handleFailure_only_status (g : Goal) (s : Server) :
    handleFailure g s = { s with status := failureStatus g s.status } := rfl

/-! ## the retry delay table is Go's `math.Exp` -/

/-- **the retry delay is Go's.**  Regenerated `Gen/Facts.lean`, section `c13retry` (harness/internal/c13/facts.go):
(1) the source text of `retryDelay := …` in `probeserver.retry` (probeserver.go:130) is still the expression the fact
generator evaluates; (2) the model's table `expFloor n` equals `int64(time.Duration(math.Exp(float64(n))))` as computed
by Go for every `n = 0..20`; (3) `second * expFloor n` equals `int64(time.Second * time.Duration(math.Exp(float64(n))))`,
the duration handed to `clock.Now().Add`.  Complete finite table, by kernel evaluation. -/
theorem expFloor_matches_go :
    Facts.retryDelayExprGo = "time.Second * time.Duration(math.Exp(float64(retries)))" ∧
    (List.range 21).map (fun (n : Nat) => expFloor (n : Int)) = Facts.expFloorGo ∧
    (List.range 21).map (fun (n : Nat) => second * expFloor (n : Int)) = Facts.retryDelayGoNs := by decide

/-! ## outside `hmono`: remove + re-add during the probe (ABA) -/

/-- **what `hmono` excludes — remove + re-add during the probe (ABA).**  A client read `stale`; the server is removed
(by a client holding the same copy) and registered anew (`fresh`, whose version counter restarted, so
`fresh.version < stale.version`: a new registration is saved at version 1, any stored record has version ≥ 1).  Then the
first client's `Update (f stale)` with callback `f`: the stored version is **not** newer, so the conflict callback is not
consulted and `f stale` — built from the record of the *previous* incarnation — **overwrites the fresh registration**,
at version `stale.version + 1`.  So without `hmono` the property fails in the model: the record stored is the
transformation of the stale copy, not of the latest record, and the re-registration's own data does not survive. -/
theorem aba_overwrites_fresh_registration (s0 : AbsState) (t1 t2 t3 : Int) (f : Server → Server) (hf : Stable f)
    (stale : Server) (u : Int) (fresh : Server)
    (hrow : s0.getRow stale.addr = some ⟨stale, u⟩)
    (hfa : fresh.addr = stale.addr) (hlow : fresh.version < stale.version) :
    let s1 := ((Call.removeServer stale fun x => some x).exec s0 t1).1
    let s2 := ((Call.addServer fresh fun _ => none).exec s1 t2).1
    s1.getRow stale.addr = none ∧
    s2.getRow stale.addr = some ⟨{ fresh with version := fresh.version + 1 }, t2⟩ ∧
    (Call.updateServer (f stale) fun x => some (f x)).exec s2 t3 =
      ({ s2 with servers := s2.servers.insert stale.addr.key ⟨{ f stale with version := stale.version + 1 }, t3⟩ },
       .ok { f stale with version := stale.version + 1 }) := by
  intro s1 s2
  have h1 : s1 = { s0 with servers := s0.servers.erase stale.addr.key } := by
    show ((s0.remove stale fun x => some x)).1 = _
    rw [remove_eq s0 stale _ stale u hrow (Int.le_refl _)]
  have hg1 : s1.getRow stale.addr = none := by
    rw [h1]; simp only [AbsState.getRow, ExtTreeMap.getElem?_erase_self]
  have h2 : s2 = { s1 with servers := s1.servers.insert fresh.addr.key ⟨{ fresh with version := fresh.version + 1 }, t2⟩ } := by
    show (s1.add t2 fresh fun _ => none).1 = _
    rw [add_fresh_eq s1 t2 fresh _ (hfa ▸ hg1)]
  have hg2 : s2.getRow stale.addr = some ⟨{ fresh with version := fresh.version + 1 }, t2⟩ := by
    rw [h2]; simp only [AbsState.getRow, hfa, ExtTreeMap.getElem?_insert_self]
  refine ⟨hg1, hg2, ?_⟩
  change s2.update t3 (f stale) (fun x => some (f x)) = _
  have hfa' := (hf stale).1
  have hfv := (hf stale).2
  have := update_overwrite_eq s2 t3 (f stale) (fun x => some (f x)) { fresh with version := fresh.version + 1 } t2
    (hfa' ▸ hg2) (by rw [hfv]; show fresh.version + 1 ≤ stale.version; omega)
  rw [this]
  simp only [hfa', hfv]

/-- the witness: a listed server (master, info, details, port) at version 3, last refreshed at 5 … -/
def abaStale : Server :=
  { addr := ⟨16843009, 10480⟩, queryPort := 10481, status := 78#9, info := [.int 16], details := ⟨[.int 16], [], []⟩,
    refreshedAt := some 5, version := 3 }
/-- … and its fresh registration by a heartbeat at 20 (`NewFromAddr`, reported: master, info), not yet saved -/
def abaFresh : Server :=
  { addr := ⟨16843009, 10480⟩, queryPort := 10481, status := 6#9, info := [.int 0], details := ⟨[], [], []⟩,
    refreshedAt := some 20, version := 0 }
def abaState : AbsState := { servers := (∅ : ExtTreeMap Nat SRow).insert abaStale.addr.key ⟨abaStale, 5⟩ }

/-- the ABA history on concrete records: a listed server (version 3, refreshed at 5) is being probed; it is removed and
re-registered by a heartbeat at 20 with new info (saved at version 1); the probe's retry `Update` then stores the *old*
record (old info, refresh time 5, old status + `details_retry`) at version 4 over the registration of 20. -/
theorem aba_witness :
    abaState.getRow abaStale.addr = some ⟨abaStale, 5⟩ ∧ abaFresh.addr = abaStale.addr ∧ abaFresh.version < abaStale.version ∧
    abaFresh.info ≠ abaStale.info ∧
    (((Call.addServer abaFresh fun _ => none).exec ((Call.removeServer abaStale fun x => some x).exec abaState 10).1 20).1.getRow abaStale.addr
        = some ⟨{ abaFresh with version := 1 }, 20⟩) ∧
    ((Call.updateServer (handleRetry .details abaStale) fun x => some (handleRetry .details x)).exec
        ((Call.addServer abaFresh fun _ => none).exec ((Call.removeServer abaStale fun x => some x).exec abaState 10).1 20).1 30).1.getRow abaStale.addr =
      some ⟨{ abaStale with status := 94#9, version := 4 }, 30⟩ := by
  have hrow : abaState.getRow abaStale.addr = some ⟨abaStale, 5⟩ := by
    simp only [AbsState.getRow, abaState, ExtTreeMap.getElem?_insert_self]
  obtain ⟨_, h2, h3⟩ := aba_overwrites_fresh_registration abaState 10 20 30 (handleRetry .details) (handleRetry_stable _)
    abaStale 5 abaFresh hrow rfl (by decide)
  refine ⟨hrow, rfl, by decide, by decide, h2, ?_⟩
  rw [h3]
  simp only [AbsState.getRow, ExtTreeMap.getElem?_insert_self]
  decide

/-! ## the conflict callbacks of the other use cases -/

/-- **keepalive (`renewserver.Execute`), conflict callback.**  History: the keepalive performs its `instances.Get` and
`servers.Get` (returning `r0`); one call `W` of another component commits, leaving `w` at the address; the keepalive
runs on (`clock.Now()`, `Update(svr.Refresh(now), func(s){ s.Refresh(now) })`).  Final state: `W`'s state with
`{ w with refreshedAt := now }` stored one version up — `Refresh` applied to the **latest** record; status, info,
details and query port written by `W` survive; nothing else changes. -/
theorem renew_conflict_refreshes_latest {β : Type} (s0 : AbsState) (t0 tW now : Int) (id srcIp : Nat) (a : Addr) (ui : Int)
    (r0 : Server) (u0 : Int) (W : Call β) (w : Server) (uw : Int)
    (hins : s0.instances[id]? = some (a, ui)) (hip : a.ip = srcIp)
    (hrow0 : s0.getRow a = some ⟨r0, u0⟩) (ha0 : r0.addr = a)
    (hW : (W.exec s0 tW).1.getRow a = some ⟨w, uw⟩) (haw : w.addr = a)
    (hmono : w.version > r0.version ∨ w = r0) :
    raceRun (renew id srcIp) 2 t0 W tW now s0 =
      ({ servers := (W.exec s0 tW).1.servers.insert a.key ⟨{ w with refreshedAt := some now, version := w.version + 1 }, now⟩,
         instances := (W.exec s0 tW).1.instances, queue := (W.exec s0 tW).1.queue, nextId := (W.exec s0 tW).1.nextId },
       .ok ()) := by
  unfold raceRun renew
  simp only [stepN_succ, stepN_zero, step1_call, exec_insGet, exec_getServer, exec_now, exec_updateServer, AbsState.insGet,
    hins, hip, ne_eq, not_true_eq_false, if_false, AbsState.get, hrow0, Prog.run_call]
  have := update_eq (W.exec s0 tW).1 now (fun s => { s with refreshedAt := some now }) r0 w uw (fun _ => ⟨rfl, rfl⟩)
    (ha0 ▸ hW) (haw.trans ha0.symm) hmono
  rw [this, ha0]
  rfl

/-- **heartbeat (`reportserver.Execute`), callback of its `Add`.**  History: the report's `Get` returned `r0`; one call
`W` of another component commits, leaving `w`; the report runs its next two calls (`clock.Now()`,
`Add(reported(r0), func(existing){ existing.UpdateInfo; Refresh; UpdateDiscoveryStatus(Master|Info) })`).  State after
the `Add`: `W`'s state with `reported info now w` stored one version up.  `Add` consults its callback whenever a
record exists (servers.go:98-106), so this holds for *any* `w` — no version hypothesis, also across remove + re-add. -/
theorem report_conflict_applies_to_latest {β : Type} (s0 : AbsState) (t0 tW now : Int) (zeroInfo : Fields) (maxRetries : Int)
    (req : ReportReq) (info : Fields) (r0 : Server) (u0 : Int) (W : Call β) (w : Server) (uw : Int)
    (hinfo : req.info = some info)
    (hrow0 : s0.getRow req.addr = some ⟨r0, u0⟩) (ha0 : r0.addr = req.addr)
    (hW : (W.exec s0 tW).1.getRow req.addr = some ⟨w, uw⟩) (haw : w.addr = req.addr) :
    (stepN 2 (stepN 1 (report zeroInfo maxRetries req) s0 t0).2
        (W.exec (stepN 1 (report zeroInfo maxRetries req) s0 t0).1 tW).1 now).1 =
      { servers := (W.exec s0 tW).1.servers.insert req.addr.key ⟨{ reported info now w with version := w.version + 1 }, now⟩,
        instances := (W.exec s0 tW).1.instances, queue := (W.exec s0 tW).1.queue, nextId := (W.exec s0 tW).1.nextId } := by
  unfold report
  simp only [stepN_succ, stepN_zero, step1_call, exec_getServer, exec_now, exec_addServer, AbsState.get, hrow0, hinfo]
  have hW' : (W.exec s0 tW).1.getRow (reported info now r0).addr = some ⟨w, uw⟩ := by
    show (W.exec s0 tW).1.getRow r0.addr = _
    rw [ha0]; exact hW
  rw [add_existing_eq (W.exec s0 tW).1 now (reported info now r0) (reported info now) w uw hW']
  have hk : (reported info now w).addr.key = req.addr.key := congrArg Addr.key haw
  rw [hk]
  rfl

/-- the same when the report's `Get` found nothing (it built a new record with `NewFromAddr`) and another component
registered the address in the meantime (two first heartbeats, or a REST submission): the callback is applied to the
record that is there, the freshly built one is dropped -/
theorem report_conflict_on_first_registration {β : Type} (s0 : AbsState) (t0 tW now : Int) (zeroInfo : Fields) (maxRetries : Int)
    (req : ReportReq) (info : Fields) (n0 : Server) (W : Call β) (w : Server) (uw : Int)
    (hinfo : req.info = some info)
    (hrow0 : s0.getRow req.addr = none) (hnew : newServer zeroInfo req.addr req.queryPort = some n0)
    (hW : (W.exec s0 tW).1.getRow req.addr = some ⟨w, uw⟩) (haw : w.addr = req.addr) :
    (stepN 2 (stepN 1 (report zeroInfo maxRetries req) s0 t0).2
        (W.exec (stepN 1 (report zeroInfo maxRetries req) s0 t0).1 tW).1 now).1 =
      { servers := (W.exec s0 tW).1.servers.insert req.addr.key ⟨{ reported info now w with version := w.version + 1 }, now⟩,
        instances := (W.exec s0 tW).1.instances, queue := (W.exec s0 tW).1.queue, nextId := (W.exec s0 tW).1.nextId } := by
  have hn0 : n0.addr = req.addr := by
    unfold newServer at hnew
    split at hnew
    · exact absurd hnew (by simp)
    · cases hnew; rfl
  unfold report
  simp only [stepN_succ, stepN_zero, step1_call, exec_getServer, exec_now, exec_addServer, AbsState.get, hrow0, hinfo, hnew]
  have hW' : (W.exec s0 tW).1.getRow (reported info now n0).addr = some ⟨w, uw⟩ := by
    show (W.exec s0 tW).1.getRow n0.addr = _
    rw [hn0]; exact hW
  rw [add_existing_eq (W.exec s0 tW).1 now (reported info now n0) (reported info now) w uw hW']
  have hk : (reported info now w).addr.key = req.addr.key := congrArg Addr.key haw
  rw [hk]
  rfl

/-- **`maybeDiscoverPort`, conflict callback refuses.**  History: the report queued the port probe (first call); one
call `W` commits, leaving a newer record `w` that has `port` or `port_retry`; then the report's
`Update(pending + port_retry, callback)`.  The callback refuses, the `Update` writes **nothing**: the final state is
exactly `W`'s. -/
theorem discover_conflict_refuses_when_marked {β : Type} (s0 : AbsState) (t0 tW now : Int) (maxRetries : Int) (svr : Server)
    (W : Call β) (w : Server) (uw : Int)
    (hnone : Status.hasNone svr.status (Status.port ||| Status.portRetry) = true)
    (hW : (W.exec (s0.enqueue t0 ⟨svr.addr, svr.addr.port, .port, 0, maxRetries⟩ none none) tW).1.getRow svr.addr = some ⟨w, uw⟩)
    (hver : w.version > svr.version)
    (hmark : Status.hasAny w.status (Status.port ||| Status.portRetry) = true) :
    raceRun (maybeDiscoverPort maxRetries svr) 1 t0 W tW now s0 =
      ((W.exec (s0.enqueue t0 ⟨svr.addr, svr.addr.port, .port, 0, maxRetries⟩ none none) tW).1, ()) := by
  unfold raceRun maybeDiscoverPort
  simp only [hnone, Bool.not_true, Bool.false_eq_true, if_false, stepN_succ, stepN_zero, step1_call, exec_enqueue,
    Prog.run_call, exec_updateServer]
  rw [update_refused_eq _ now { svr with status := Status.update svr.status Status.portRetry } _ w uw hW hver
    (by simp only [hmark, if_true])]
  rfl

/-- … and when the newer record has neither mark, `port_retry` is added to the **latest** record (not to the copy the
report holds) -/
theorem discover_conflict_marks_latest {β : Type} (s0 : AbsState) (t0 tW now : Int) (maxRetries : Int) (svr : Server)
    (W : Call β) (w : Server) (uw : Int)
    (hnone : Status.hasNone svr.status (Status.port ||| Status.portRetry) = true)
    (hW : (W.exec (s0.enqueue t0 ⟨svr.addr, svr.addr.port, .port, 0, maxRetries⟩ none none) tW).1.getRow svr.addr = some ⟨w, uw⟩)
    (haw : w.addr = svr.addr) (hver : w.version > svr.version)
    (hmark : Status.hasAny w.status (Status.port ||| Status.portRetry) = false) :
    raceRun (maybeDiscoverPort maxRetries svr) 1 t0 W tW now s0 =
      (let sW := (W.exec (s0.enqueue t0 ⟨svr.addr, svr.addr.port, .port, 0, maxRetries⟩ none none) tW).1
       { servers := sW.servers.insert svr.addr.key
           ⟨{ w with status := Status.update w.status Status.portRetry, version := w.version + 1 }, now⟩,
         instances := sW.instances, queue := sW.queue, nextId := sW.nextId }, ()) := by
  unfold raceRun maybeDiscoverPort
  simp only [hnone, Bool.not_true, Bool.false_eq_true, if_false, stepN_succ, stepN_zero, step1_call, exec_enqueue,
    Prog.run_call, exec_updateServer]
  rw [update_resolved_eq _ now { svr with status := Status.update svr.status Status.portRetry } _ w
    { w with status := Status.update w.status Status.portRetry } uw hW hver
    (by simp only [hmark, Bool.false_eq_true, if_false])]
  have hk : ({ w with status := Status.update w.status Status.portRetry } : Server).addr.key = svr.addr.key := congrArg Addr.key haw
  rw [hk]
  rfl

/-- instance of `probe_retry_race` (its hypotheses are satisfiable by the code's own calls): the concurrent call is the
keepalive's `Update`.  Both changes are in the stored record: the keepalive's refresh time and the probe's retry mark,
two versions up; info, details, query port and all other status bits are those of `r0` — nothing is delisted. -/
theorem keepalive_survives_probe_retry (s0 : AbsState) (t0 tW now : Int) (prb : Probe) (r0 : Server) (u0 : Int)
    (hrow0 : s0.getRow prb.addr = some ⟨r0, u0⟩) (ha0 : r0.addr = prb.addr) (h : prb.retries < prb.maxRetries) :
    (raceRun (probe prb none) 1 t0
        (Call.updateServer { r0 with refreshedAt := some tW } fun s => some { s with refreshedAt := some tW }) tW now s0).1.getRow prb.addr =
      some ⟨{ r0 with refreshedAt := some tW, status := retryStatus prb.goal r0.status, version := r0.version + 1 + 1 }, now⟩ := by
  have hW := update_commit_row s0 tW (fun s => { s with refreshedAt := some tW }) (fun _ => ⟨rfl, rfl⟩) prb.addr r0 u0 hrow0 ha0
  rw [probe_retry_race s0 t0 tW now prb r0 u0 _ _ tW hrow0 ha0 hW ha0 (Or.inl (by show r0.version + 1 > r0.version; omega)) h]
  simp only [AbsState.getRow, ExtTreeMap.getElem?_insert_self]
  rfl

/-- instance of `renew_conflict_refreshes_latest`, the opposite order: the probe's retry `Update` commits between the
keepalive's `Get` and its `Update`; the retry mark survives the keepalive -/
theorem retry_mark_survives_keepalive (s0 : AbsState) (t0 tW now : Int) (id srcIp : Nat) (a : Addr) (ui : Int) (g : Goal)
    (r0 : Server) (u0 : Int)
    (hins : s0.instances[id]? = some (a, ui)) (hip : a.ip = srcIp)
    (hrow0 : s0.getRow a = some ⟨r0, u0⟩) (ha0 : r0.addr = a) :
    (raceRun (renew id srcIp) 2 t0
        (Call.updateServer (handleRetry g r0) fun s => some (handleRetry g s)) tW now s0).1.getRow a =
      some ⟨{ r0 with refreshedAt := some now, status := retryStatus g r0.status, version := r0.version + 1 + 1 }, now⟩ := by
  have hW := update_commit_row s0 tW (handleRetry g) (handleRetry_keeps g) a r0 u0 hrow0 ha0
  rw [renew_conflict_refreshes_latest s0 t0 tW now id srcIp a ui r0 u0 _ _ tW hins hip hrow0 ha0 hW ha0
    (Or.inl (by show r0.version + 1 > r0.version; omega))]
  simp only [AbsState.getRow, ExtTreeMap.getElem?_insert_self]
  rfl

/-- a port success always leaves the `port` bit (all 512 words) -/
theorem port_success_marks_port : ∀ w : Status, Status.hasAny (successStatus .port w) (Status.port ||| Status.portRetry) = true := by
  decide

/-- instance of `discover_conflict_refuses_when_marked`: a port probe succeeded between the report's queueing and its
marking; the discovered query port and status stay as the probe stored them -/
theorem discover_refuses_after_port_success (s0 : AbsState) (t0 tW now : Int) (maxRetries : Int) (svr : Server) (u : Int)
    (res : ProbeResult)
    (hnone : Status.hasNone svr.status (Status.port ||| Status.portRetry) = true)
    (hrow : s0.getRow svr.addr = some ⟨svr, u⟩) :
    (raceRun (maybeDiscoverPort maxRetries svr) 1 t0
        (Call.updateServer (handleSuccess .port res tW svr) fun x => some (handleSuccess .port res tW x)) tW now s0).1.getRow svr.addr =
      some ⟨{ handleSuccess .port res tW svr with version := svr.version + 1 }, tW⟩ := by
  have hrow' : (s0.enqueue t0 ⟨svr.addr, svr.addr.port, .port, 0, maxRetries⟩ none none).getRow svr.addr = some ⟨svr, u⟩ := hrow
  have hW := update_commit_row _ tW (handleSuccess .port res tW) (handleSuccess_keeps _ _ _) svr.addr svr u hrow' rfl
  rw [discover_conflict_refuses_when_marked s0 t0 tW now maxRetries svr _ _ tW hnone hW
    (by show svr.version + 1 > svr.version; omega)
    (by show Status.hasAny (handleSuccess .port res tW svr).status _ = true
        rw [(handleSuccess_fields .port res tW svr).2.2.2.2.1]; exact port_success_marks_port _)]
  exact hW

/-- non-vacuity of the run-level hypotheses: a registry holding the probed server, a probe with budget left; a record
without port marks -/
example : ∃ (s : AbsState) (prb : Probe) (latest : Server) (u : Int),
    s.getRow prb.addr = some ⟨latest, u⟩ ∧ latest.addr = prb.addr ∧ prb.retries < prb.maxRetries ∧
    Status.hasNone (6#9 : Status) (Status.port ||| Status.portRetry) = true :=
  ⟨abaState, ⟨abaStale.addr, 10481, .details, 0, 2⟩, abaStale, 5, aba_witness.1, rfl, by decide, by decide⟩

/-- non-vacuity of the keepalive history's hypotheses -/
example : ∃ (s0 : AbsState) (id srcIp : Nat) (a : Addr) (ui : Int) (r0 : Server) (u0 : Int),
    s0.instances[id]? = some (a, ui) ∧ a.ip = srcIp ∧ s0.getRow a = some ⟨r0, u0⟩ ∧ r0.addr = a :=
  ⟨{ abaState with instances := (∅ : ExtTreeMap Nat (Addr × Int)).insert 7 (abaStale.addr, 5) }, 7, 16843009, abaStale.addr, 5,
    abaStale, 5, by simp only [ExtTreeMap.getElem?_insert_self], rfl, aba_witness.1, rfl⟩

/-! ## `expFloor n = ⌊e^n⌋` (Mathlib, no floating point) -/

/-- **"ready after floor(e^retries) seconds"**, for the retry counts of the property's quantifier: the model's table
entry is the integer part of the real number `e^n` for `n ≤ 5` (`Lemmas/C13Exp.lean`: from Mathlib's bounds
`2.7182818283 < e < 2.7182818286`; no floating point involved).  With `expFloor_matches_go` this also says that Go's
`math.Exp` followed by the truncating conversion yields `⌊e^n⌋` for these `n`. -/
theorem expFloor_brackets_exp (n : ℕ) (hn : n ≤ 5) :
    ((expFloor (n : Int) : Int) : ℝ) ≤ Real.exp n ∧ Real.exp n < ((expFloor (n : Int) : Int) : ℝ) + 1 :=
  C13Run.expFloor_brackets_exp n hn

/-! ## `hmono` discharged: versions only grow (reviewer W1) -/

/-- `ResStable` is the hypothesis of `exec_version_mono` (`VerMono.ResKeeps`) -/
theorem resStable_iff (res : Resolver) : ResStable res ↔ VerMono.ResKeeps res := Iff.rfl

/-- the conflict callback of a call leaves address and version alone (`ResStable`); calls without a callback that can
store a record (`Remove`'s callback only decides) qualify trivially -/
def CallResStable : {β : Type} → Call β → Prop
  | _, .addServer _ res => ResStable res
  | _, .updateServer _ res => ResStable res
  | _, .updateServerT _ res => ∀ t, ResStable (res t)
  | _, _ => True

theorem callResStable_iff {β : Type} (c : Call β) : CallResStable c ↔ VerMono.CallStable c := by cases c <;> exact Iff.rfl

/-- **`exec_version_mono` — the premise `hmono` of every race theorem, proved for every repository call of the model.**
`c` is *any* `Call` (registry `Add`, `Update`, `Update` with clock-reading callback, `Remove`, and all the calls that do not
write the registry), with any record argument, executed at any clock value on a store whose rows sit under their own keys;
its conflict callback leaves address and version alone (`CallResStable`; every callback the use cases pass does:
`usecases_callbacks_stable`).  If the address `a` holds a row before and after the call, the row is unchanged or its version
is strictly larger.  (`Remove` can make the row disappear — `exec_keeps_row` says only `Remove` can; disappearing and
re-appearing with a restarted counter takes two calls: `aba_overwrites_fresh_registration`.) -/
theorem exec_version_mono {β : Type} (c : Call β) (hc : CallResStable c) (s : AbsState) (hk : RowInv.Keyed s) (t : Int)
    (a : Addr) (before after : SRow)
    (hb : s.getRow a = some before) (ha : (c.exec s t).1.getRow a = some after) :
    after.svr.version > before.svr.version ∨ after = before := by
  rcases (VerMono.exec_rowLe c ((callResStable_iff c).1 hc) s hk t a.key).1 before hb with h | ⟨row', h, hrel⟩
  · have ha' : (c.exec s t).1.servers[a.key]? = some after := ha
    rw [h] at ha'; cases ha'
  · have ha' : (c.exec s t).1.servers[a.key]? = some after := ha
    rw [h] at ha'; cases ha'
    rcases hrel with h | h
    · exact Or.inr h
    · exact Or.inl h

/-- only a `Remove` makes a row disappear: after any other call a stored address is still stored -/
theorem exec_keeps_row {β : Type} (c : Call β) (hc : CallResStable c) (hn : VerMono.NoRemove c) (s : AbsState)
    (hk : RowInv.Keyed s) (t : Int) (a : Addr) (before : SRow) (hb : s.getRow a = some before) :
    ∃ after, (c.exec s t).1.getRow a = some after ∧ (after.svr.version > before.svr.version ∨ after = before) := by
  obtain ⟨row', h, hrel⟩ := (VerMono.exec_rowLe c ((callResStable_iff c).1 hc) s hk t a.key).2 hn before hb
  exact ⟨row', h, hrel.symm.imp id id⟩

/-- **every conflict callback of every use case is stable** — walk over the program trees: whatever the replies, every
call a use case issues satisfies `CallResStable`; report, keepalive, probe outcome handling, REST submission, refresh,
revival, instance cleanup and listing moreover never issue a `Remove` (`VerMono.ProgStable`), so along them no row ever
disappears.  Removal and the two server cleaners do remove (their callbacks are stable all the same). -/
theorem usecases_callbacks_stable :
    (∀ z m req, VerMono.ProgStable (UC.report z m req)) ∧
    (∀ i ip, VerMono.ProgStable (UC.renew i ip)) ∧
    (∀ prb outcome, VerMono.ProgStable (UC.probe prb outcome)) ∧
    (∀ z m a, VerMono.ProgStable (UC.addServer z m a)) ∧
    (∀ m d, VerMono.ProgStable (UC.refresh m d)) ∧
    (∀ m a b c d e f, VerMono.ProgStable (UC.revive m a b c d e f)) ∧
    (∀ ret, VerMono.ProgStable (cleanInstances ret)) ∧
    (∀ l st, VerMono.ProgStable (listServers l st)) ∧
    (∀ i a, VerMono.ResStableProg (UC.remove i a)) ∧
    (∀ ret, VerMono.ResStableProg (cleanServers ret)) ∧
    (∀ ret, VerMono.ResStableProg (cleanServers2 ret)) :=
  ⟨VerMono.report_stable, VerMono.renew_stable, VerMono.probe_stable, VerMono.addServer_stable, VerMono.refresh_stable,
   VerMono.revive_stable, VerMono.cleanInstances_stable, VerMono.listServers_stable, VerMono.remove_resStable,
   VerMono.cleanServers_resStable, VerMono.cleanServers2_resStable⟩

/-- **any program without `Remove`**, run to completion at any clock value: every row is still stored afterwards,
unchanged or with a strictly larger version (induction over its calls) -/
theorem prog_version_mono {α : Type} (W : Prog α) (hW : VerMono.ProgStable W) (s : AbsState) (hk : RowInv.Keyed s) (t : Int)
    (a : Addr) (before : SRow) (hb : s.getRow a = some before) :
    ∃ after, (W.run s t).1.getRow a = some after ∧ (after.svr.version > before.svr.version ∨ after = before) := by
  obtain ⟨row', h, hrel⟩ := (VerMono.run_mono hW s t hk).2 a.key before hb
  exact ⟨row', h, hrel.symm.imp id id⟩

/-! ### the race theorems without `hmono`, for an arbitrary concurrent call -/

theorem rowLe_of {s0 s' : AbsState} {a : Addr} {row0 row' : SRow} (h0 : s0.getRow a = some row0)
    (h' : s'.servers[a.key]? = some row') (hrel : row' = row0 ∨ row'.svr.version > row0.svr.version) :
    VerMono.RowLe (s0.servers[a.key]?) (s'.servers[a.key]?) := by
  intro row hr
  have h0' : s0.servers[a.key]? = some row0 := h0
  rw [h0'] at hr; cases hr
  exact ⟨row', h', hrel⟩

/-- **"whatever else updates the server" — retry.**  The probe's `Get` returned `r0`; then **any** repository call `W` of
another component commits (any `Call` with a stable callback, at any clock value `tW` — a heartbeat's `Add`, a keepalive's or
another probe's `Update`, the port discovery's `Update`, a cleaner's or a removal's `Remove`, …); then the probe runs on.
Either the address still holds a record `w` — then `w` is `r0` or newer (**derived**, no `hmono`) and the final state is
`W`'s state with `handleRetry goal w`, the retry transformation of the record as `W` left it, stored one version up, plus
the one re-queued probe, everything else exactly as `W` left it; or `W` removed the record (then `W` is a `Remove`) — the
retry is queued, the `Update` fails with `ErrServerNotFound` and the registry stays as the remover left it. -/
theorem probe_retry_race_any {β : Type} (s0 : AbsState) (t0 tW now : Int) (prb : Probe) (r0 : Server) (u0 : Int)
    (W : Call β) (hW : CallResStable W) (hk : RowInv.Keyed s0)
    (hrow0 : s0.getRow prb.addr = some ⟨r0, u0⟩) (h : prb.retries < prb.maxRetries) :
    (∃ (w : Server) (uw : Int), (W.exec s0 tW).1.getRow prb.addr = some ⟨w, uw⟩ ∧ (w.version > r0.version ∨ w = r0) ∧
      raceRun (probe prb none) 1 t0 W tW now s0 =
        ({ servers := (W.exec s0 tW).1.servers.insert prb.addr.key ⟨{ handleRetry prb.goal w with version := w.version + 1 }, now⟩,
           instances := (W.exec s0 tW).1.instances,
           queue := (W.exec s0 tW).1.queue ++
             [⟨(W.exec s0 tW).1.nextId, { prb with retries := prb.retries + 1 }, now + second * expFloor (prb.retries + 1), none⟩],
           nextId := (W.exec s0 tW).1.nextId + 1 }, .retried)) ∨
    ((W.exec s0 tW).1.getRow prb.addr = none ∧ ¬ VerMono.NoRemove W ∧
      raceRun (probe prb none) 1 t0 W tW now s0 =
        ({ servers := (W.exec s0 tW).1.servers, instances := (W.exec s0 tW).1.instances,
           queue := (W.exec s0 tW).1.queue ++
             [⟨(W.exec s0 tW).1.nextId, { prb with retries := prb.retries + 1 }, now + second * expFloor (prb.retries + 1), none⟩],
           nextId := (W.exec s0 tW).1.nextId + 1 }, .error (.repo .serverNotFound))) := by
  have hWs := (callResStable_iff W).1 hW
  have hkr : r0.addr.key = prb.addr.key := hk prb.addr.key ⟨r0, u0⟩ hrow0
  rcases (VerMono.exec_rowLe W hWs s0 hk tW prb.addr.key).1 _ hrow0 with hnone | ⟨row', hrow', hrel⟩
  · refine Or.inr ⟨hnone, fun hn => ?_, ?_⟩
    · obtain ⟨row', hrow', _⟩ := (VerMono.exec_rowLe W hWs s0 hk tW prb.addr.key).2 hn _ hrow0
      rw [hnone] at hrow'; cases hrow'
    · unfold raceRun
      rw [probe_step_get s0 t0 prb none r0 u0 hrow0]
      exact probeRetry_run_removed (W.exec s0 tW).1 now prb r0 (by rw [getRow_key hkr]; exact hnone) h
  · left
    have hk2 : RowInv.Keyed (queued (W.exec s0 tW).1 { prb with retries := prb.retries + 1 } (now + second * expFloor (prb.retries + 1))) :=
      keyed_queued (VerMono.exec_keyed W s0 tW hk) _ _
    obtain ⟨w, uw, hw, hmono, hrun⟩ := probe_retry_slots s0 t0 now now now prb r0 u0 (fun x => (W.exec x tW).1) id id hk hrow0 h hk2
      (rowLe_of hrow0 hrow' hrel)
    refine ⟨w, uw, hw, hmono, ?_⟩
    rw [raceRun_eq_raceRunL, ← raceRunL_snoc_id [(1, t0, fun x => (W.exec x tW).1)] 1 now,
      ← raceRunL_snoc_id ([(1, t0, fun x => (W.exec x tW).1)] ++ [(1, now, id)]) 1 now]
    exact hrun

/-- **"whatever else updates the server" — final failure** (`retries ≥ max`), same history -/
theorem probe_failure_race_any {β : Type} (s0 : AbsState) (t0 tW now : Int) (prb : Probe) (r0 : Server) (u0 : Int)
    (W : Call β) (hW : CallResStable W) (hk : RowInv.Keyed s0)
    (hrow0 : s0.getRow prb.addr = some ⟨r0, u0⟩) (h : prb.retries ≥ prb.maxRetries) :
    (∃ (w : Server) (uw : Int), (W.exec s0 tW).1.getRow prb.addr = some ⟨w, uw⟩ ∧ (w.version > r0.version ∨ w = r0) ∧
      raceRun (probe prb none) 1 t0 W tW now s0 =
        ({ servers := (W.exec s0 tW).1.servers.insert prb.addr.key ⟨{ handleFailure prb.goal w with version := w.version + 1 }, now⟩,
           instances := (W.exec s0 tW).1.instances, queue := (W.exec s0 tW).1.queue, nextId := (W.exec s0 tW).1.nextId },
         .outOfRetries)) ∨
    ((W.exec s0 tW).1.getRow prb.addr = none ∧ ¬ VerMono.NoRemove W ∧
      raceRun (probe prb none) 1 t0 W tW now s0 = ((W.exec s0 tW).1, .error (.repo .serverNotFound))) := by
  have hWs := (callResStable_iff W).1 hW
  have hkr : r0.addr.key = prb.addr.key := hk prb.addr.key ⟨r0, u0⟩ hrow0
  rcases (VerMono.exec_rowLe W hWs s0 hk tW prb.addr.key).1 _ hrow0 with hnone | ⟨row', hrow', hrel⟩
  · refine Or.inr ⟨hnone, fun hn => ?_, ?_⟩
    · obtain ⟨row', hrow', _⟩ := (VerMono.exec_rowLe W hWs s0 hk tW prb.addr.key).2 hn _ hrow0
      rw [hnone] at hrow'; cases hrow'
    · unfold raceRun
      rw [probe_step_get s0 t0 prb none r0 u0 hrow0]
      simp only
      rw [probeRetry_final prb r0 h]
      unfold probeFail
      simp only [Prog.run_call, exec_updateServer]
      rw [update_missing_eq _ now _ _ (show (W.exec s0 tW).1.getRow (handleFailure prb.goal r0).addr = none by
        show (W.exec s0 tW).1.getRow r0.addr = none
        rw [getRow_key hkr]; exact hnone)]
      rfl
  · left
    obtain ⟨w, uw, hw, hmono, hrun⟩ := probe_failure_slots s0 t0 now prb r0 u0 (fun x => (W.exec x tW).1) hk hrow0 h
      (VerMono.exec_keyed W s0 tW hk) (rowLe_of hrow0 hrow' hrel)
    exact ⟨w, uw, hw, hmono, hrun⟩

/-- **"whatever else updates the server" — success**, same history (clock fixed at `now` after `W`'s commit, so both
`HandleSuccess` calls stamp `now`; `probe_success_race_at` has the placement with two different clock values) -/
theorem probe_success_race_any {β : Type} (s0 : AbsState) (t0 tW now : Int) (prb : Probe) (res : ProbeResult) (r0 : Server) (u0 : Int)
    (W : Call β) (hW : CallResStable W) (hk : RowInv.Keyed s0)
    (hrow0 : s0.getRow prb.addr = some ⟨r0, u0⟩) :
    (∃ (w : Server) (uw : Int), (W.exec s0 tW).1.getRow prb.addr = some ⟨w, uw⟩ ∧ (w.version > r0.version ∨ w = r0) ∧
      raceRun (probe prb (some res)) 1 t0 W tW now s0 =
        ({ servers := (W.exec s0 tW).1.servers.insert prb.addr.key ⟨{ handleSuccess prb.goal res now w with version := w.version + 1 }, now⟩,
           instances := (W.exec s0 tW).1.instances, queue := (W.exec s0 tW).1.queue, nextId := (W.exec s0 tW).1.nextId },
         .success)) ∨
    ((W.exec s0 tW).1.getRow prb.addr = none ∧ ¬ VerMono.NoRemove W ∧
      raceRun (probe prb (some res)) 1 t0 W tW now s0 = ((W.exec s0 tW).1, .error (.repo .serverNotFound))) := by
  have hWs := (callResStable_iff W).1 hW
  have hkr : r0.addr.key = prb.addr.key := hk prb.addr.key ⟨r0, u0⟩ hrow0
  rcases (VerMono.exec_rowLe W hWs s0 hk tW prb.addr.key).1 _ hrow0 with hnone | ⟨row', hrow', hrel⟩
  · refine Or.inr ⟨hnone, fun hn => ?_, ?_⟩
    · obtain ⟨row', hrow', _⟩ := (VerMono.exec_rowLe W hWs s0 hk tW prb.addr.key).2 hn _ hrow0
      rw [hnone] at hrow'; cases hrow'
    · unfold raceRun
      rw [probe_step_get s0 t0 prb (some res) r0 u0 hrow0]
      simp only [probeSuccessRest, Prog.run_call, exec_now, exec_updateServerT]
      rw [update_missing_eq _ now _ _ (show (W.exec s0 tW).1.getRow (handleSuccess prb.goal res now r0).addr = none by
        rw [(handleSuccess_keeps prb.goal res now r0).1, getRow_key hkr]; exact hnone)]
      rfl
  · left
    obtain ⟨w, uw, hw, hmono, hrun⟩ := probe_success_slots s0 t0 now now prb res r0 u0 (fun x => (W.exec x tW).1) id hk hrow0
      (VerMono.exec_keyed W s0 tW hk) (rowLe_of hrow0 hrow' hrel)
    refine ⟨w, uw, hw, hmono, ?_⟩
    rw [raceRun_eq_raceRunL, ← raceRunL_snoc_id [(1, t0, fun x => (W.exec x tW).1)] 1 now]
    simp only [ite_self] at hrun
    exact hrun

/-! ### … for an arbitrary activity of the others, at every placement (reviewer: "race placements k = 2 and k = 3") -/

/-- the probe a retry re-queues: the same probe with one more retry -/
abbrev requeued (prb : Probe) : Probe := { prb with retries := prb.retries + 1 }
/-- its ready time when the retry delay is counted from clock value `t` -/
abbrev retryReady (prb : Probe) (t : Int) : Int := t + second * expFloor (prb.retries + 1)

/-- **retry, the others placed after the probe's `k`-th call, `k = 1, 2, 3`** (`Get`; `Get, clock.Now()`; `Get, clock.Now(),
AddBetween`), the probe's first `k` calls at clock `t0`, the rest at clock `now`.  `F` is *any* activity of the others
(`Others`: one call, a whole use case, several of them, a `USys` interleaving — anything without `Remove` whose conflict
callbacks are stable).  `s2` is the state in which the probe's `Update` runs: for `k ≤ 2` the others' state plus the
re-queued probe, whose delay counts from the clock value the probe read — `now` for `k = 1`, `t0` for `k = 2` (read before
the others ran); for `k = 3` what the others made of the state that already contained the re-queued probe.  In every case
`s2` holds a record `w` under the probe's key that is `r0` or newer, and the result is `s2` with `handleRetry goal w` stored
one version up at update time `now`, nothing else changed. -/
theorem probe_retry_race_at (k : Nat) (hk13 : 1 ≤ k ∧ k ≤ 3) (s0 : AbsState) (t0 now : Int) (prb : Probe) (r0 : Server) (u0 : Int)
    (F : AbsState → AbsState) (hF : Others F) (hk : RowInv.Keyed s0)
    (hrow0 : s0.getRow prb.addr = some ⟨r0, u0⟩) (h : prb.retries < prb.maxRetries) :
    ∃ (w : Server) (uw : Int),
      (if k = 3 then F (queued s0 (requeued prb) (retryReady prb t0))
        else queued (F s0) (requeued prb) (retryReady prb (if k = 1 then now else t0))).getRow prb.addr = some ⟨w, uw⟩ ∧
      (w.version > r0.version ∨ w = r0) ∧
      raceRunL (probe prb none) [(k, t0, F)] now s0 =
        ({ (if k = 3 then F (queued s0 (requeued prb) (retryReady prb t0))
              else queued (F s0) (requeued prb) (retryReady prb (if k = 1 then now else t0))) with
            servers := (if k = 3 then F (queued s0 (requeued prb) (retryReady prb t0))
              else queued (F s0) (requeued prb) (retryReady prb (if k = 1 then now else t0))).servers.insert prb.addr.key ⟨{ handleRetry prb.goal w with version := w.version + 1 }, now⟩ },
         .retried) := by
  have hk123 : k = 1 ∨ k = 2 ∨ k = 3 := by omega
  rcases hk123 with rfl | rfl | rfl
  · simp only [show ¬ (1 = 3) by decide, if_false, if_true]
    rw [← raceRunL_snoc_id [(1, t0, F)] 1 now, ← raceRunL_snoc_id ([(1, t0, F)] ++ [(1, now, id)]) 1 now]
    exact probe_retry_slots s0 t0 now now now prb r0 u0 F id id hk hrow0 h (keyed_queued (hF s0 hk).1 _ _) ((hF s0 hk).2 prb.addr.key)
  · simp only [show ¬ (2 = 3) by decide, show ¬ (2 = 1) by decide, if_false]
    rw [raceRunL_split2, ← raceRunL_snoc_id [(1, t0, id), (1, t0, F)] 1 now]
    exact probe_retry_slots s0 t0 t0 now now prb r0 u0 id F id hk hrow0 h (keyed_queued (hF s0 hk).1 _ _) ((hF s0 hk).2 prb.addr.key)
  · simp only [if_true]
    rw [raceRunL_split3]
    have hq : RowInv.Keyed (queued s0 (requeued prb) (retryReady prb t0)) := keyed_queued hk _ _
    exact probe_retry_slots s0 t0 t0 t0 now prb r0 u0 id id F hk hrow0 h (hF _ hq).1
      (((VerMono.Mono.of_servers (s := s0) (s' := queued s0 (requeued prb) (retryReady prb t0)) rfl).trans (hF _ hq).2) prb.addr.key)

/-- **final failure with any activity of the others between `Get` and `Update`** (the failure branch has no other call) -/
theorem probe_failure_race_others (s0 : AbsState) (t0 now : Int) (prb : Probe) (r0 : Server) (u0 : Int)
    (F : AbsState → AbsState) (hF : Others F) (hk : RowInv.Keyed s0)
    (hrow0 : s0.getRow prb.addr = some ⟨r0, u0⟩) (h : prb.retries ≥ prb.maxRetries) :
    ∃ (w : Server) (uw : Int), (F s0).getRow prb.addr = some ⟨w, uw⟩ ∧ (w.version > r0.version ∨ w = r0) ∧
      raceRunL (probe prb none) [(1, t0, F)] now s0 =
        ({ (F s0) with servers := (F s0).servers.insert prb.addr.key ⟨{ handleFailure prb.goal w with version := w.version + 1 }, now⟩ },
         .outOfRetries) :=
  probe_failure_slots s0 t0 now prb r0 u0 F hk hrow0 h (hF s0 hk).1 ((hF s0 hk).2 prb.addr.key)

/-- **success, the others placed after the probe's `k`-th call, `k = 1, 2`** (`Get`; `Get, clock.Now()`).  The stored record
is `HandleSuccess` of the latest record `w`.  Its refresh time: for `k = 1` always `now`; for `k = 2` the probe read the
clock (`t0`) *before* the others ran, so its own copy is stamped `t0`, and it is the copy that is stored when the others
left the record alone; when they changed it, the conflict callback re-stamps the latest record with the clock at commit,
`now`. -/
theorem probe_success_race_at (k : Nat) (hk12 : 1 ≤ k ∧ k ≤ 2) (s0 : AbsState) (t0 now : Int) (prb : Probe) (res : ProbeResult)
    (r0 : Server) (u0 : Int) (F : AbsState → AbsState) (hF : Others F) (hk : RowInv.Keyed s0)
    (hrow0 : s0.getRow prb.addr = some ⟨r0, u0⟩) :
    ∃ (w : Server) (uw : Int), (F s0).getRow prb.addr = some ⟨w, uw⟩ ∧ (w.version > r0.version ∨ w = r0) ∧
      raceRunL (probe prb (some res)) [(k, t0, F)] now s0 =
        ({ (F s0) with servers := (F s0).servers.insert prb.addr.key ⟨{ handleSuccess prb.goal res (if w.version > r0.version then now else if k = 1 then now else t0) w with version := w.version + 1 }, now⟩ },
         .success) := by
  have hk12' : k = 1 ∨ k = 2 := by omega
  rcases hk12' with rfl | rfl
  · simp only [if_true]
    rw [← raceRunL_snoc_id [(1, t0, F)] 1 now]
    exact probe_success_slots s0 t0 now now prb res r0 u0 F id hk hrow0 (hF s0 hk).1 ((hF s0 hk).2 prb.addr.key)
  · simp only [show ¬ (2 = 1) by decide, if_false]
    rw [raceRunL_split2]
    exact probe_success_slots s0 t0 t0 now prb res r0 u0 id F hk hrow0 (hF s0 hk).1 ((hF s0 hk).2 prb.addr.key)

/-- the placements for a single concurrent call `W` in the notation of the earlier theorems: `raceRun … k … W …` is the
one-slot history with `F = W.exec · tW`, and such an `F` qualifies when `W` is not a `Remove` -/
theorem raceRun_at_call {α β : Type} (pA : Prog α) (k : Nat) (t0 : Int) (W : Call β) (tW now : Int) (s : AbsState)
    (hW : CallResStable W) (hn : VerMono.NoRemove W) :
    raceRun pA k t0 W tW now s = raceRunL pA [(k, t0, fun x => (W.exec x tW).1)] now s ∧ Others (fun x => (W.exec x tW).1) :=
  ⟨rfl, others_call W ((callResStable_iff W).1 hW) hn tW⟩

/-- … and for a whole use case `W` run to completion at clock `tW` between two calls of the probe (any program without
`Remove`: heartbeat, keepalive, another probe, REST submission, refresh, revival, listing — `usecases_callbacks_stable`) -/
theorem others_usecase {γ : Type} (W : Prog γ) (hW : VerMono.ProgStable W) (tW : Int) : Others (fun x => (W.run x tW).1) :=
  others_run W hW tW

/-- non-vacuity of the `_any` / `_at` theorems: a keyed store holding the probed server; the keepalive's `Update` is a call
with a stable callback; a whole heartbeat or keepalive use case, and their composition, are activities of "the others" -/
theorem abaState_keyed : RowInv.Keyed abaState := by
  intro k row h
  simp only [abaState, ExtTreeMap.getElem?_insert] at h
  split at h
  · rename_i hk
    cases h
    have : abaStale.addr.key = k := by simpa using hk
    exact this
  · simp at h

example : RowInv.Keyed abaState ∧ abaState.getRow abaStale.addr = some ⟨abaStale, 5⟩ ∧
    CallResStable (Call.updateServer { abaStale with refreshedAt := some 9 } fun s => some { s with refreshedAt := some 9 }) ∧
    Others (fun x => ((UC.renew 7 16843009).run x 9).1) ∧
    Others (fun x => ((UC.report [] 3 ⟨abaStale.addr, 10481, 7, some []⟩).run ((UC.renew 7 16843009).run x 9).1 12).1) :=
  ⟨abaState_keyed, aba_witness.1, fun s r h => by cases h; exact ⟨rfl, rfl⟩,
   others_usecase _ (usecases_callbacks_stable.2.1 7 16843009) 9,
   (others_usecase _ (usecases_callbacks_stable.2.1 7 16843009) 9).comp (others_usecase _ (usecases_callbacks_stable.1 [] 3 _) 12)⟩

/-- instance of `probe_retry_race_any` with **no** version hypothesis: the keepalive's `Update` commits between the probe's
`Get` and its retry; the stored record carries both the keepalive's refresh time and the retry mark -/
example : ∃ (w : Server) (uw : Int),
    ((Call.updateServer { abaStale with refreshedAt := some 9 } fun s => some { s with refreshedAt := some 9 }).exec abaState 9).1.getRow abaStale.addr
      = some ⟨w, uw⟩ ∧ (w.version > abaStale.version ∨ w = abaStale) := by
  rcases probe_retry_race_any abaState 8 9 10 ⟨abaStale.addr, 10481, .details, 0, 2⟩ abaStale 5
    (Call.updateServer { abaStale with refreshedAt := some 9 } fun s => some { s with refreshedAt := some 9 })
    (fun s r h => by cases h; exact ⟨rfl, rfl⟩) abaState_keyed aba_witness.1 (by decide) with ⟨w, uw, hw, hm, _⟩ | ⟨hn, hrem, _⟩
  · exact ⟨w, uw, hw, hm⟩
  · exact absurd trivial hrem

/-! ### the system model the driver replays (`USys`) against the `Prog`-level histories (reviewer W1, second half)

`Lemmas/C13Bridge.lean`: `C13Run.usys_retry_bridge` (any `USys`, any events of the other clients and ticks between the
probe's three scheduled calls: the store is that of a `raceRunL` history in which `Get` **and** the clock read happen at the
clock value of the first step), `C13Run.usys_probe_retry_any` (explicit result when the others never `Remove`),
`C13Run.usys_two_clients_retry` (two clients, schedule of `raceRun`, any ticks: `= raceRun … 2 …`) and
`C13Run.usys_two_clients_retry_iff` (`= raceRun … 1 …`, the history of `probe_retry_race`, **iff** no tick separates the
calls).  Below: the no-tick bridge in the notation of `probe_retry_race`, with the hypothesis explicit. -/

/-- **bridge, no tick in between.**  Two clients in the system model — the probe and a client whose only call is `W` —
scheduled "probe's `Get`, `W`, probe's `AddBetween`, probe's `Update`" with **no clock tick in between** (`d1 = d2 = d3 = 0`
in `raceSchedule`): the final store is exactly that of `raceRun (probe prb none) 1 t W tW t`, the history the `probe_*_race`
theorems speak about.  (`usys_two_clients_retry_iff`: with a tick in between it is not — the retry delay then counts from
the clock value at the `Get`.) -/
theorem usys_matches_raceRun_no_tick {β : Type} (s0 : AbsState) (t : Int) (prb : Probe) (g : ProbeEnd → String) (W : Call β)
    (gW : β → String) (aW : Int) (r0 : Server) (u0 : Int)
    (hrow0 : s0.getRow prb.addr = some ⟨r0, u0⟩) (h : prb.retries < prb.maxRetries) :
    ((twoClients s0 t prb g W gW aW).run (raceSchedule 0 0 0)).abs =
      (raceRun (probe prb none) 1 t W (wClock W aW t) t s0).1 := by
  have := (usys_two_clients_retry_iff s0 t prb g W gW aW 0 0 0 r0 u0 hrow0 h ⟨Int.le_refl _, Int.le_refl _, Int.le_refl _⟩).2 ⟨rfl, rfl, rfl⟩
  simp only [Int.add_zero] at this
  exact this

/-- the hypothesis "no tick in between" holds in a concrete run, and a run with a tick (5 s between the probe's `Get` and
the keepalive's `Update`) differs from the `raceRun … 1` history in the ready time of the re-queued probe: the system model
(and the real use case, which reads the clock right after `Get`) counts the delay from clock 100, `raceRun … 1` from 105 -/
example :
    let prb : Probe := ⟨abaStale.addr, 10481, .details, 0, 2⟩
    let W := Call.updateServer { abaStale with refreshedAt := some 9 } fun s => some { s with refreshedAt := some 9 }
    ((twoClients abaState 100 prb (fun _ => "") W (fun _ => "") 0).run (raceSchedule 0 0 0)).abs =
        (raceRun (probe prb none) 1 100 W 100 100 abaState).1 ∧
    ((twoClients abaState 100 prb (fun _ => "") W (fun _ => "") 0).run (raceSchedule 5 0 0)).abs ≠
        (raceRun (probe prb none) 1 100 W 105 105 abaState).1 := by
  intro prb W
  refine ⟨usys_matches_raceRun_no_tick abaState 100 prb _ W _ 0 abaStale 5 aba_witness.1 (by decide), ?_⟩
  intro heq
  have := (usys_two_clients_retry_iff abaState 100 prb (fun _ => "") W (fun _ => "") 0 5 0 0 abaStale 5 aba_witness.1 (by decide)
    ⟨by decide, by decide, by decide⟩).1 (by simpa [wClock, Call.clockAtArrival] using heq)
  exact absurd this.1 (by decide)

/-- non-vacuity of `usys_probe_retry_any`: the two-client system of `twoClients` — its second client (one `Update` with a
stable callback) is `ProgStable`, the store is keyed and holds the probed server, the probe has budget left -/
example :
    let prb : Probe := ⟨abaStale.addr, 10481, .details, 0, 2⟩
    let W := Call.updateServer { abaStale with refreshedAt := some 9 } fun s => some { s with refreshedAt := some 9 }
    let u := twoClients abaState 100 prb (fun _ => "") W (fun _ => "") 0
    (∃ c, u.clients[0]? = some c ∧ c.prog = rendered (probe prb none) (fun _ => "") ∧ c.started = true ∧ c.dead = false) ∧
    u.abs.getRow prb.addr = some ⟨abaStale, 5⟩ ∧ prb.retries < prb.maxRetries ∧ RowInv.Keyed u.abs ∧
    (∀ (j : Nat) (c' : UClient), j ≠ 0 → u.clients[j]? = some c' → VerMono.ProgStable c'.prog) := by
  intro prb W u
  refine ⟨⟨_, rfl, rfl, rfl, rfl⟩, aba_witness.1, by decide, abaState_keyed, ?_⟩
  intro j c' hj hc'
  match j, hj with
  | 1, _ =>
    have : c' = { prog := .call W fun b => .ret ((fun _ => "") b), started := true, arrival := 0 } := by
      simp only [u, twoClients, List.getElem?_cons_succ, List.getElem?_cons_zero, Option.some.injEq] at hc'; exact hc'.symm
    subst this
    exact VerMono.AllCalls.call _ _ ⟨fun s r h => by cases h; exact ⟨rfl, rfl⟩, trivial⟩ fun _ => VerMono.AllCalls.ret _
  | j + 2, _ => simp [u, twoClients] at hc'

/-- the success and final-failure branches in the system model (two scheduled calls each): `C13Run.usys_two_clients_success`
(`= raceRun (probe prb (some res)) 2 …` for any ticks: the probe's own copy is stamped with the clock value at its `Get`, the
conflict callback with the one at commit) and `C13Run.usys_two_clients_failure` (`= raceRun (probe prb none) 1 …` for any
ticks: the failure branch reads no clock).  With no tick in between, the success run is the history of `probe_success_race`: -/
theorem usys_success_matches_raceRun_no_tick {β : Type} (s0 : AbsState) (t : Int) (prb : Probe) (res : ProbeResult)
    (g : ProbeEnd → String) (W : Call β) (gW : β → String) (aW : Int) (r0 : Server) (u0 : Int)
    (hrow0 : s0.getRow prb.addr = some ⟨r0, u0⟩) :
    ((twoClientsO s0 t prb (some res) g W gW aW).run (raceSchedule2 0 0)).abs =
      (raceRun (probe prb (some res)) 1 t W (wClock W aW t) t s0).1 := by
  have := usys_two_clients_success s0 t prb res g W gW aW 0 0 r0 u0 hrow0
  simp only [Int.add_zero] at this
  rw [this, raceRun_success_two_eq_one s0 t _ prb res r0 u0 W hrow0]

/-! ## the retry delay table and its scope (reviewer W5) -/

/-- **scope of the delay table made explicit: within it, the model is `⌊e^n⌋`.**  For every `n ≤ 20` the model's `expFloor n`
is the integer part of the real number `e^n` (`Lemmas/C13Exp20.lean`, from Mathlib's `|e − 363916618873/133877442384| ≤ 10⁻²⁰`;
no floating point).  Extends `expFloor_brackets_exp` (`n ≤ 5`) to the whole table. -/
theorem expFloor_in_scope (n : ℕ) (hn : n ≤ 20) : expFloor (n : Int) = ⌊Real.exp n⌋ := C13Run.expFloor_eq_floor_exp20 n hn

/-- **… and beyond it, it is not**: for `n > 20` the model's `expFloor n` is `0` ("ready immediately") whereas `⌊e^n⌋ ≥ 1`
(Go: about `e^21` s).  Retry budgets above 20 are outside the model; the driver reports such a case as unmodelled. -/
theorem expFloor_out_of_scope (n : ℕ) (hn : 20 < n) : expFloor (n : Int) = 0 ∧ expFloor (n : Int) ≠ ⌊Real.exp n⌋ := by
  have h0 : expFloor (n : Int) = 0 := C13Run.expFloor_beyond n (by omega)
  refine ⟨h0, ?_⟩
  rw [h0]
  have : (1 : Int) ≤ ⌊Real.exp n⌋ := Int.le_floor.2 (by simpa using Real.one_le_exp (Nat.cast_nonneg n))
  omega

/-- **every probe the use cases enqueue is within its retry budget** (`0 ≤ retries ≤ maxRetries`): walk over the program
trees — the port-discovery probe of a heartbeat / REST submission and the probes of refresh and revival start at `0` (the
configured maxima must be `≥ 0`); what `probeserver.Execute` re-queues has `retries + 1 ≤ maxRetries` because `IncRetries`
refuses at `retries ≥ maxRetries` (for a probe that itself has `0 ≤ retries`). -/
theorem usecases_enqueue_within_budget :
    (∀ z m req, 0 ≤ m → VerMono.AllCalls (fun c => C13Budget.EnqOK c) (UC.report z m req)) ∧
    (∀ prb outcome, 0 ≤ prb.retries → VerMono.AllCalls (fun c => C13Budget.EnqOK c) (UC.probe prb outcome)) ∧
    (∀ z m a, 0 ≤ m → VerMono.AllCalls (fun c => C13Budget.EnqOK c) (UC.addServer z m a)) ∧
    (∀ m d, 0 ≤ m → VerMono.AllCalls (fun c => C13Budget.EnqOK c) (UC.refresh m d)) ∧
    (∀ m a b c d e f, 0 ≤ m → VerMono.AllCalls (fun c => C13Budget.EnqOK c) (UC.revive m a b c d e f)) :=
  ⟨fun z m req hm => C13Budget.report_enq z m hm req, fun prb o h0 => C13Budget.probe_enq prb h0 o,
   fun z m a hm => C13Budget.addServer_enq z m hm a, fun m d hm => C13Budget.refresh_enq m hm d,
   fun m a b c d e f hm => C13Budget.revive_enq m hm a b c d e f⟩

/-- **invariant: every queued probe has `0 ≤ retries ≤ maxRetries`** — kept by every repository call whose `AddBetween`
enqueues a probe within its budget (`PopMany` only removes, and hands out what was queued), hence by every interleaving of
such clients in the system model: calls, crashes, faults with or without effect, clock ticks. -/
theorem queued_within_budget (u : USys) (es : List UEv) (hes : ∀ e ∈ es, USysInd.EvOK (fun _ => True) e)
    (h : C13Budget.QueueOK u.abs) (hcl : ∀ c ∈ u.clients, VerMono.AllCalls (fun c => C13Budget.EnqOK c) c.prog) :
    ∀ q ∈ (u.run es).abs.queue, 0 ≤ q.probe.retries ∧ q.probe.retries ≤ q.probe.maxRetries :=
  C13Budget.usys_queueOK u es hes h hcl

/-- hence, when the configured maxima are at most 20, the delay of every retry of a queued probe is in the table's scope:
`second · ⌊e^(retries+1)⌋` with the mathematical floor -/
theorem retry_delay_in_scope (p : Probe) (h : 0 ≤ p.retries ∧ p.retries ≤ p.maxRetries) (hlt : p.retries < p.maxRetries)
    (hmax : p.maxRetries ≤ 20) : expFloor (p.retries + 1) = ⌊Real.exp ((p.retries + 1).toNat : ℕ)⌋ := by
  have h1 : ((p.retries + 1).toNat : Int) = p.retries + 1 := Int.toNat_of_nonneg (by omega)
  have := expFloor_in_scope (p.retries + 1).toNat (by omega)
  rw [h1] at this
  exact this

/-- non-vacuity: the empty queue satisfies the invariant; a probe at `retries = 4` of `5` is re-queued at 5 with delay
`⌊e^5⌋ = 148` s -/
example : C13Budget.QueueOK {} ∧ expFloor ((4 : Int) + 1) = 148 ∧ (148 : Int) = ⌊Real.exp ((5 : ℕ) : ℝ)⌋ :=
  ⟨fun q hq => by simp at hq, by decide, by
    have := expFloor_in_scope 5 (by decide)
    rw [← this]; decide⟩

/-- the nine status bits and their names are the ones of `ds.Members()` / `BitString()` in the source
(regenerated `Gen/Facts.lean`) -/
theorem facts_ok : Facts.dsMemberValues = Status.members.map (·.toNat) ∧ Facts.dsMemberNames = Status.names := by decide

/-- **the driver's `table` oracle is the specification of `outcome_table`, as a word**: `specWord` (`Spec/ProbeOutcome.lean`: the
nine `specBit`s assembled into a number — what `Drv/C13.lean` compares the implementation's word with) equals the model's
transformed word for every status word, goal and outcome.  So the oracle side (`specWord`) and the model side (`UC.*Status`) of
the `table` verdict are two definitions of different origin that are proved to coincide — exhaustively, by kernel evaluation. -/
theorem specWord_is_model (g : Goal) (o : Outcome) : ∀ w : Status, specWord g o w.toNat = (modelStatus g o w).toNat := by
  cases g <;> cases o <;> decide

/-! ## the programs `usecases_callbacks_stable` left out (third outside review, item 6) -/

/-- **`usecases_callbacks_stable`, the two remaining client programs.**  The list of `usecases_callbacks_stable` is written by
hand; two programs the drivers run as clients were not in it: `Heartbeat6.renewIP` (the keepalive use case with the request's
`net.IP` as it is — an `Update` with a callback — run by the `dg6` op) and the prober runner `UC.proberRunWith` / `UC.proberRun`
(`PopMany(n)`, then `UC.probe` for every popped probe in any order with any outcomes; the program of a `pop|<n>|<outcome>`
client).  Both are `VerMono.ProgStable`: every conflict callback they can pass leaves address and version alone and they never
issue a `Remove` — so `prog_version_mono`, `Others` (`others_run`) and the `_at` race theorems apply to them as concurrent
activities as well. -/
theorem usecases_callbacks_stable_more :
    (∀ i ip, VerMono.ProgStable (Heartbeat6.renewIP i ip)) ∧
    (∀ n oc order, VerMono.ProgStable (UC.proberRunWith n oc order)) ∧
    (∀ n outcome, VerMono.ProgStable (UC.proberRun n outcome)) :=
  ⟨UseCaseMore.renewIP_stable, UseCaseMore.proberRunWith_stable, UseCaseMore.proberRun_stable⟩

/-- … hence the hypothesis `KeyPreserving` of the C09 theorems (`C09.usecases_resolvers_key_preserving`, whose hand-written list
has the same gap; `Properties/C09.lean` is not restated for it) holds for every registry write of these two programs too:
`KeyPres.of_progStable`, `ProgAddrPreserving.key`. -/
theorem usecases_more_key_preserving :
    (∀ i ip, KeyPres.ProgKeyPreserving (Heartbeat6.renewIP i ip)) ∧
    (∀ n oc order, KeyPres.ProgKeyPreserving (UC.proberRunWith n oc order)) ∧
    (∀ n outcome, KeyPres.ProgKeyPreserving (UC.proberRun n outcome)) :=
  ⟨fun i ip => (KeyPres.of_progStable (UseCaseMore.renewIP_stable i ip)).key,
   fun n oc order => (KeyPres.of_progStable (UseCaseMore.proberRunWith_stable n oc order)).key,
   fun n o => (KeyPres.of_progStable (UseCaseMore.proberRun_stable n o)).key⟩

/-! ## witnesses the review found missing (third outside review, item 7) -/

/-- **the `Remove` disjunct of `probe_retry_race_any` is inhabited**: a removal of the probed server (`Remove` with the stored
copy, as the removal use case and the cleaners issue it) commits between the probe's `Get` and its retry.  The theorem's SECOND
disjunct holds: the address is gone, `W` is a `Remove`, the retry probe is queued all the same (one item, `retries = 1`, no
expiry) and the run ends with `ErrServerNotFound` — the registry as the remover left it (empty). -/
example :
    let prb : Probe := ⟨abaStale.addr, 10481, .details, 0, 2⟩
    let W := Call.removeServer abaStale fun x => some x
    CallResStable W ∧ (W.exec abaState 9).1.getRow prb.addr = none ∧ ¬ VerMono.NoRemove W ∧
    (raceRun (probe prb none) 1 8 W 9 10 abaState).2 = .error (.repo .serverNotFound) ∧
    (raceRun (probe prb none) 1 8 W 9 10 abaState).1.servers.toList = [] ∧
    ((raceRun (probe prb none) 1 8 W 9 10 abaState).1.queue.map fun q => (q.probe.retries, q.expires)) = [(1, none)] := by
  intro prb W
  rcases probe_retry_race_any abaState 8 9 10 prb abaStale 5 W trivial abaState_keyed aba_witness.1 (by decide) with
    ⟨w, uw, hw, _, _⟩ | ⟨hn, hrem, hrun⟩
  · have hnone : (W.exec abaState 9).1.getRow prb.addr = none := by decide
    rw [hnone] at hw; cases hw
  · exact ⟨trivial, hn, hrem, by rw [hrun], by decide, by decide⟩

/-- instance of `probe_failure_race_any` (the final failure, `retries = max = 2`): the keepalive's `Update` commits between the
probe's `Get` and its failure `Update`; the FIRST disjunct holds — the record the keepalive left is there, unchanged or newer
than what the probe read (here: one version up) — and the run ends `outOfRetries` with nothing re-queued -/
example :
    let prb : Probe := ⟨abaStale.addr, 10481, .details, 2, 2⟩
    let W := Call.updateServer { abaStale with refreshedAt := some 9 } fun s => some { s with refreshedAt := some 9 }
    (∃ (w : Server) (uw : Int), (W.exec abaState 9).1.getRow prb.addr = some ⟨w, uw⟩ ∧ (w.version > abaStale.version ∨ w = abaStale)) ∧
    (raceRun (probe prb none) 1 8 W 9 10 abaState).2 = .outOfRetries ∧
    (raceRun (probe prb none) 1 8 W 9 10 abaState).1.queue = [] := by
  intro prb W
  rcases probe_failure_race_any abaState 8 9 10 prb abaStale 5 W (fun s r h => by cases h; exact ⟨rfl, rfl⟩) abaState_keyed
    aba_witness.1 (by decide) with ⟨w, uw, hw, hm, hrun⟩ | ⟨_, hrem, _⟩
  · exact ⟨⟨w, uw, hw, hm⟩, by rw [hrun], by decide⟩
  · exact absurd trivial hrem

/-- instance of `probe_success_race_any`: the same keepalive between the probe's `Get` and its success `Update`; the FIRST
disjunct holds, the run ends `success`, and the stored record carries the keepalive's work one more version up (version 5 =
3 + the keepalive's + the probe's) with the probe's refresh time `now = 10` -/
example :
    let prb : Probe := ⟨abaStale.addr, 10481, .details, 0, 2⟩
    let res : ProbeResult := ⟨⟨[], [], []⟩, 10481⟩
    let W := Call.updateServer { abaStale with refreshedAt := some 9 } fun s => some { s with refreshedAt := some 9 }
    (∃ (w : Server) (uw : Int), (W.exec abaState 9).1.getRow prb.addr = some ⟨w, uw⟩ ∧ (w.version > abaStale.version ∨ w = abaStale)) ∧
    (raceRun (probe prb (some res)) 1 8 W 9 10 abaState).2 = .success ∧
    ((raceRun (probe prb (some res)) 1 8 W 9 10 abaState).1.getRow prb.addr).map (fun row => (row.svr.version, row.svr.refreshedAt)) =
      some (5, some 10) := by
  intro prb res W
  rcases probe_success_race_any abaState 8 9 10 prb res abaStale 5 W (fun s r h => by cases h; exact ⟨rfl, rfl⟩) abaState_keyed
    aba_witness.1 with ⟨w, uw, hw, hm, hrun⟩ | ⟨_, hrem, _⟩
  · exact ⟨⟨w, uw, hw, hm⟩, by rw [hrun], by decide⟩
  · exact absurd trivial hrem

end Swat4.C13
