import Swat4.Lemmas.GS1
import Swat4.Lemmas.GS1Choice
import Swat4.Spec.GS1Spec
/-!
# C08 — Status responses decode faithfully in every dialect, split and order

Property theorems only.  `GS1.*` is the model of `gs1.go` and of the port prober's choice
(`Model/GS1.lean`); `GS1Spec.*` holds the abstract status, the encoders of the dialects and
`toResponse` (`Spec/GS1Spec.lean`).
-/
namespace Swat4.C08
open Swat4 Swat4.GS1 Swat4.GS1Spec

/-! ## port discovery: which answer is kept -/

/-- the answers `probePort` forwards: they decoded and their hostport equals the game port -/
def acceptedOf (gamePort : Int) (arrivals : List PortAnswer) : List PortAnswer :=
  arrivals.filter (accepted gamePort)

theorem chooseAccepted_cons (x : Ver × Int) (t : List (Ver × Int)) :
    chooseAccepted (x :: t) = some ((x :: t).foldl compareResponses (.unknown, 0)) := rfl

/-- **C08 (port choice).** If at least one candidate port gave an accepted answer, the prober keeps
an accepted answer `a`; nothing accepted that arrived before it is more capable, and everything
accepted that arrived after it is strictly less capable: the most capable dialect
(GS1 mod > AdminMod > vanilla) wins, a tie goes to the latest arrival. -/
theorem best_response (gamePort : Int) (arrivals : List PortAnswer) (h : acceptedOf gamePort arrivals ≠ []) :
    ∃ pre a post, acceptedOf gamePort arrivals = pre ++ a :: post ∧
      choose gamePort arrivals = some (a.resp.version, a.port) ∧
      (∀ b ∈ pre, b.resp.version.toNat ≤ a.resp.version.toNat) ∧
      (∀ b ∈ post, b.resp.version.toNat < a.resp.version.toNat) := by
  unfold choose
  change acceptedOf gamePort arrivals ≠ [] at h
  show ∃ pre a post, acceptedOf gamePort arrivals = pre ++ a :: post ∧
      chooseAccepted ((acceptedOf gamePort arrivals).map fun a => (a.resp.version, a.port)) = some (a.resp.version, a.port) ∧ _
  generalize acceptedOf gamePort arrivals = acc at h ⊢
  cases acc with
  | nil => exact absurd rfl h
  | cons a0 rest =>
    simp only [List.map_cons, chooseAccepted_cons]
    rcases foldl_compare_split (((a0 :: rest).map fun a => (a.resp.version, a.port))) (.unknown, 0) with ⟨_, h2⟩ | ⟨pre, x, post, h1, h2, _, h4, h5⟩
    · have := h2 (a0.resp.version, a0.port) (by simp)
      simp [Ver.toNat] at this
    · rw [List.map_eq_append_iff] at h1
      obtain ⟨pre', rest', hsplit, hpre, hrest⟩ := h1
      rw [List.map_eq_cons_iff] at hrest
      obtain ⟨a, post', hr, hx, hpost⟩ := hrest
      refine ⟨pre', a, post', by rw [hsplit, hr], ?_, ?_, ?_⟩
      · simp only [List.map_cons] at h2; rw [h2, ← hx]
      · intro b hb
        have := h4 (b.resp.version, b.port) (by rw [← hpre]; exact List.mem_map.mpr ⟨b, hb, rfl⟩)
        rw [← hx] at this; exact this
      · intro b hb
        have := h5 (b.resp.version, b.port) (by rw [← hpost]; exact List.mem_map.mpr ⟨b, hb, rfl⟩)
        rw [← hx] at this; exact this

/-- the kept answer's dialect is the maximum over the accepted answers -/
theorem best_response_max (gamePort : Int) (arrivals : List PortAnswer) (v : Ver) (p : Int)
    (h : choose gamePort arrivals = some (v, p)) :
    (∃ a ∈ acceptedOf gamePort arrivals, a.resp.version = v ∧ a.port = p) ∧
      ∀ b ∈ acceptedOf gamePort arrivals, b.resp.version.toNat ≤ v.toNat := by
  by_cases hne : acceptedOf gamePort arrivals = []
  · simp [choose, acceptedOf] at hne h
    have : (arrivals.filter (accepted gamePort)) = [] := by
      rw [List.filter_eq_nil_iff]; intro a ha; simpa using hne a ha
    rw [this] at h; simp [chooseAccepted] at h
  · obtain ⟨pre, a, post, hs, hc, hp, hq⟩ := best_response gamePort arrivals hne
    rw [hc] at h
    cases h
    refine ⟨⟨a, by rw [hs]; simp, rfl, rfl⟩, ?_⟩
    intro b hb
    rw [hs] at hb
    rcases List.mem_append.mp hb with hb | hb
    · exact hp b hb
    · rcases List.mem_cons.mp hb with rfl | hb
      · exact Nat.le_refl _
      · exact Nat.le_of_lt (hq b hb)

/-- no accepted answer ⇔ port discovery fails -/
theorem best_response_none (gamePort : Int) (arrivals : List PortAnswer) :
    choose gamePort arrivals = none ↔ acceptedOf gamePort arrivals = [] := by
  unfold choose
  show chooseAccepted ((acceptedOf gamePort arrivals).map _) = none ↔ _
  cases acceptedOf gamePort arrivals with
  | nil => simp [chooseAccepted]
  | cons a t => simp [chooseAccepted]

/-- **C08 (arrival order).** The dialect of the kept answer (and whether discovery succeeds at all)
does not depend on the order in which the candidate ports answer.  (The port itself may: equal
dialects are resolved by arrival.) -/
theorem best_response_perm (gamePort : Int) (arrivals arrivals' : List PortAnswer) (hp : arrivals.Perm arrivals') :
    (choose gamePort arrivals).map (·.1) = (choose gamePort arrivals').map (·.1) := by
  unfold choose
  have hperm : ((arrivals.filter (accepted gamePort)).map fun a => (a.resp.version, a.port)).Perm
      ((arrivals'.filter (accepted gamePort)).map fun a => (a.resp.version, a.port)) := (hp.filter _).map _
  generalize (arrivals.filter (accepted gamePort)).map (fun a => (a.resp.version, a.port)) = l at hperm
  generalize (arrivals'.filter (accepted gamePort)).map (fun a => (a.resp.version, a.port)) = l' at hperm
  cases l with
  | nil => rw [← hperm.nil_eq]
  | cons x t =>
    cases l' with
    | nil => exact absurd hperm.eq_nil (by simp)
    | cons x' t' =>
      simp only [chooseAccepted_cons, Option.map_some]
      congr 1
      apply Ver.toNat_inj
      rw [foldl_compare_ver, foldl_compare_ver]
      exact hperm.foldl_eq' (by intro a _ b _ z; show max (max z _) _ = max (max z _) _; omega) _

end Swat4.C08

/-- non-vacuity of `best_response`: two accepted answers, AdminMod then vanilla, game port 10480 -/
example : Swat4.C08.acceptedOf 10480
    [⟨10481, ⟨[(Swat4.GS1.kHostport, [0x31, 0x30, 0x34, 0x38, 0x30])], [], [], .am⟩⟩,
     ⟨10482, ⟨[(Swat4.GS1.kHostport, [0x31, 0x30, 0x34, 0x38, 0x30])], [], [], .vanilla⟩⟩] ≠ [] := by decide
