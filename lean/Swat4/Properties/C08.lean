import Swat4.Lemmas.GS1
import Swat4.Lemmas.GS1Choice
import Swat4.Lemmas.GS1Collect
import Swat4.Lemmas.GS1Parse
import Swat4.Lemmas.GS1Expand
import Swat4.Lemmas.GS1Decode
import Swat4.Lemmas.GS1Players
import Swat4.Lemmas.GS1Atoi
import Swat4.Spec.GS1Spec
import Swat4.Lemmas.GS1Shared
/-!
# C08 — Status responses decode faithfully in every dialect, split and order

Property theorems only.  `GS1.*` is the model of `gs1.go` and of the port prober's choice
(`Model/GS1.lean`); `GS1Spec.*` holds the abstract status, the encoders of the dialects and
`toResponse` (`Spec/GS1Spec.lean`).
-/
namespace Swat4.C08
open Swat4 Swat4.GS1 Swat4.GS1Spec

/-! ## port discovery: which answer is kept -/

/-- the answers `probePort` forwards: they decoded and their hostport equals the game port -/
def acceptedOf (gamePort : Int) (arrivals : List PortAnswer) : List PortAnswer :=
  arrivals.filter (accepted gamePort)

/-- **C08 (which answers count).** `probePort`'s gate, stated without the model's own helpers: an
answer is accepted exactly when `strconv.Atoi` (the reporter model's definition, `Heartbeat.atoi`)
of its `hostport` field (core `List.lookup`; a missing key reads as the empty string, as a Go map
does) succeeds and equals the game port — so a missing, empty, non-numeric or out-of-range hostport
is rejected, a signed or zero-padded spelling of the game port is accepted. -/
theorem accepted_iff (gamePort : Int) (a : PortAnswer) :
    accepted gamePort a = true ↔
      Heartbeat.atoi ((a.resp.fields.lookup kHostport).getD []) = some gamePort := by
  simp only [accepted, hostportOf, atoi_eq_heartbeat, lookupKV_eq_lookup, beq_iff_eq]

/-- the accepted answers are exactly the arrivals whose hostport parses to the game port, in arrival order -/
theorem acceptedOf_eq (gamePort : Int) (arrivals : List PortAnswer) :
    acceptedOf gamePort arrivals =
      arrivals.filter fun a => decide (Heartbeat.atoi ((a.resp.fields.lookup kHostport).getD []) = some gamePort) := by
  unfold acceptedOf
  congr 1
  funext a
  rw [Bool.eq_iff_iff, accepted_iff, decide_eq_true_iff]

theorem chooseAccepted_cons (x : Ver × Int) (t : List (Ver × Int)) :
    chooseAccepted (x :: t) = some ((x :: t).foldl compareResponses (.unknown, 0)) := rfl

/-- **C08 (port choice).** If at least one candidate port gave an accepted answer, the prober keeps
an accepted answer `a`; nothing accepted that arrived before it is more capable, and everything
accepted that arrived after it is strictly less capable: the most capable dialect
(GS1 mod > AdminMod > vanilla) wins, a tie goes to the latest arrival. -/
theorem best_response (gamePort : Int) (arrivals : List PortAnswer) (h : acceptedOf gamePort arrivals ≠ []) :
    ∃ pre a post, acceptedOf gamePort arrivals = pre ++ a :: post ∧
      choose gamePort arrivals = some (a.resp.version, a.port) ∧
      (∀ b ∈ pre, b.resp.version.toNat ≤ a.resp.version.toNat) ∧
      (∀ b ∈ post, b.resp.version.toNat < a.resp.version.toNat) := by
  unfold choose
  change acceptedOf gamePort arrivals ≠ [] at h
  show ∃ pre a post, acceptedOf gamePort arrivals = pre ++ a :: post ∧
      chooseAccepted ((acceptedOf gamePort arrivals).map fun a => (a.resp.version, a.port)) = some (a.resp.version, a.port) ∧ _
  generalize acceptedOf gamePort arrivals = acc at h ⊢
  cases acc with
  | nil => exact absurd rfl h
  | cons a0 rest =>
    simp only [List.map_cons, chooseAccepted_cons]
    rcases foldl_compare_split (((a0 :: rest).map fun a => (a.resp.version, a.port))) (.unknown, 0) with ⟨_, h2⟩ | ⟨pre, x, post, h1, h2, _, h4, h5⟩
    · have := h2 (a0.resp.version, a0.port) (by simp)
      simp [Ver.toNat] at this
    · rw [List.map_eq_append_iff] at h1
      obtain ⟨pre', rest', hsplit, hpre, hrest⟩ := h1
      rw [List.map_eq_cons_iff] at hrest
      obtain ⟨a, post', hr, hx, hpost⟩ := hrest
      refine ⟨pre', a, post', by rw [hsplit, hr], ?_, ?_, ?_⟩
      · simp only [List.map_cons] at h2; rw [h2, ← hx]
      · intro b hb
        have := h4 (b.resp.version, b.port) (by rw [← hpre]; exact List.mem_map.mpr ⟨b, hb, rfl⟩)
        rw [← hx] at this; exact this
      · intro b hb
        have := h5 (b.resp.version, b.port) (by rw [← hpost]; exact List.mem_map.mpr ⟨b, hb, rfl⟩)
        rw [← hx] at this; exact this

/-- the kept answer's dialect is the maximum over the accepted answers -/
theorem best_response_max (gamePort : Int) (arrivals : List PortAnswer) (v : Ver) (p : Int)
    (h : choose gamePort arrivals = some (v, p)) :
    (∃ a ∈ acceptedOf gamePort arrivals, a.resp.version = v ∧ a.port = p) ∧
      ∀ b ∈ acceptedOf gamePort arrivals, b.resp.version.toNat ≤ v.toNat := by
  by_cases hne : acceptedOf gamePort arrivals = []
  · simp [choose, acceptedOf] at hne h
    have : (arrivals.filter (accepted gamePort)) = [] := by
      rw [List.filter_eq_nil_iff]; intro a ha; simpa using hne a ha
    rw [this] at h; simp [chooseAccepted] at h
  · obtain ⟨pre, a, post, hs, hc, hp, hq⟩ := best_response gamePort arrivals hne
    rw [hc] at h
    cases h
    refine ⟨⟨a, by rw [hs]; simp, rfl, rfl⟩, ?_⟩
    intro b hb
    rw [hs] at hb
    rcases List.mem_append.mp hb with hb | hb
    · exact hp b hb
    · rcases List.mem_cons.mp hb with rfl | hb
      · exact Nat.le_refl _
      · exact Nat.le_of_lt (hq b hb)

/-- no accepted answer ⇔ port discovery fails -/
theorem best_response_none (gamePort : Int) (arrivals : List PortAnswer) :
    choose gamePort arrivals = none ↔ acceptedOf gamePort arrivals = [] := by
  unfold choose
  show chooseAccepted ((acceptedOf gamePort arrivals).map _) = none ↔ _
  cases acceptedOf gamePort arrivals with
  | nil => simp [chooseAccepted]
  | cons a t => simp [chooseAccepted]

/-- **C08 (arrival order).** The dialect of the kept answer (and whether discovery succeeds at all)
does not depend on the order in which the candidate ports answer.  (The port itself may: equal
dialects are resolved by arrival.) -/
theorem best_response_perm (gamePort : Int) (arrivals arrivals' : List PortAnswer) (hp : arrivals.Perm arrivals') :
    (choose gamePort arrivals).map (·.1) = (choose gamePort arrivals').map (·.1) := by
  unfold choose
  have hperm : ((arrivals.filter (accepted gamePort)).map fun a => (a.resp.version, a.port)).Perm
      ((arrivals'.filter (accepted gamePort)).map fun a => (a.resp.version, a.port)) := (hp.filter _).map _
  generalize (arrivals.filter (accepted gamePort)).map (fun a => (a.resp.version, a.port)) = l at hperm
  generalize (arrivals'.filter (accepted gamePort)).map (fun a => (a.resp.version, a.port)) = l' at hperm
  cases l with
  | nil => rw [← hperm.nil_eq]
  | cons x t =>
    cases l' with
    | nil => exact absurd hperm.eq_nil (by simp)
    | cons x' t' =>
      simp only [chooseAccepted_cons, Option.map_some]
      congr 1
      apply Ver.toNat_inj
      rw [foldl_compare_ver, foldl_compare_ver]
      exact hperm.foldl_eq' (by intro a _ b _ z; show max (max z _) _ = max (max z _) _; omega) _

/-! ## reassembly: order/duplication independence, completion -/

/-- the fragments `collectPayload` sees in a list of datagrams -/
def fragsOf (frs : List Bytes) : List Fragment := frs.filterMap insp

/-- duplicates carry identical content, all fragments are of one dialect, all finals agree on the
fragment number: what a single (possibly repeating) well-formed sender produces -/
def ConsistentDups (frs : List Bytes) : Prop := ConsistentFrags (fragsOf frs)

theorem all_insp_perm {a b : List Bytes} (h : a.Perm b) :
    a.all (fun r => (insp r).isSome) = b.all (fun r => (insp r).isSome) := by
  rw [Bool.eq_iff_iff, List.all_eq_true, List.all_eq_true]
  exact ⟨fun hh x hx => hh x (h.mem_iff.mpr hx), fun hh x hx => hh x (h.mem_iff.mp hx)⟩

/-- **C08 (order and duplication independence).** Reassembly of a consistent set of datagrams
gives the same result — payload, buffer capacity, dialect tag, or the same error class — in
every arrival order. -/
theorem collect_perm (a b : List Bytes) (h : a.Perm b) (hc : ConsistentDups a) :
    collectPayload a = collectPayload b := by
  unfold collectPayload
  rw [collectLoop_eq, collectLoop_eq, all_insp_perm h,
    foldl_step_perm _ _ (h.filterMap insp) hc]

/-- duplicates do not matter either: delivering a datagram of a consistent stream once more
changes nothing but the spare capacity of the buffer -/
theorem collect_dup (a : List Bytes) (d : Bytes) (hd : d ∈ a) (hc : ConsistentDups (d :: a)) :
    (collectPayload (d :: a)).isOk = (collectPayload a).isOk ∧
      ∀ c c', collectPayload (d :: a) = .ok c → collectPayload a = .ok c' →
        c.payload = c'.payload ∧ c.version = c'.version := by
  have hperm : (d :: a).Perm (a ++ [d]) := by
    have := (List.perm_append_comm (l₁ := [d]) (l₂ := a)); simpa using this
  rw [collect_perm _ _ hperm hc]
  unfold collectPayload
  rw [collectLoop_eq, collectLoop_eq]
  have hall : (a ++ [d]).all (fun r => (insp r).isSome) = a.all (fun r => (insp r).isSome) := by
    rw [List.all_append]
    by_cases h : a.all (fun r => (insp r).isSome) = true
    · have := List.all_eq_true.mp h d hd
      simp [h, this]
    · simp [h]
  rw [hall]
  by_cases hok : a.all (fun r => (insp r).isSome) = true
  · simp only [hok, if_true, Res.ok_bind]
    have hd' : ∃ f, insp d = some f := Option.isSome_iff_exists.mp (List.all_eq_true.mp hok d hd)
    obtain ⟨f, hf⟩ := hd'
    rw [List.filterMap_append]
    simp only [List.filterMap_cons, hf, List.filterMap_nil, List.foldl_append, List.foldl_cons, List.foldl_nil]
    generalize hst : (a.filterMap insp).foldl CState.step CState.init = st
    -- `f` was already folded in: stepping with it again leaves count, ordered and version as they are
    have hfm : f ∈ fragsOf a := List.mem_filterMap.mpr ⟨d, hd, hf⟩
    have hcons : ConsistentFrags (fragsOf a) := by
      intro x hx y hy
      exact hc x (by simp only [fragsOf, List.filterMap_cons, hf]; exact List.mem_cons_of_mem _ hx)
        y (by simp only [fragsOf, List.filterMap_cons, hf]; exact List.mem_cons_of_mem _ hy)
    -- move `f` to the end of `a`'s fragments
    obtain ⟨pre, post, hsplit⟩ := List.append_of_mem hfm
    have hp2 : (fragsOf a).Perm (pre ++ post ++ [f]) := by
      rw [hsplit]
      exact List.perm_middle.trans (List.perm_append_comm (l₁ := [f]) (l₂ := pre ++ post))
    have hst2 : st = ((pre ++ post).foldl CState.step CState.init).step f := by
      rw [← hst, show a.filterMap insp = fragsOf a from rfl, foldl_step_perm _ _ hp2 hcons, List.foldl_append]
      rfl
    generalize (pre ++ post).foldl CState.step CState.init = s0 at hst2
    subst hst2
    have hcount : ((s0.step f).step f).count = (s0.step f).count := by
      simp only [CState.step]; split <;> rfl
    have hord : ((s0.step f).step f).ordered = (s0.step f).ordered := by
      simp only [CState.step]
      generalize s0.ordered = m
      induction m with
      | nil => simp [insertKV]
      | cons hd t ih => obtain ⟨k, v⟩ := hd; grind [insertKV]
    have hver : ((s0.step f).step f).version = (s0.step f).version := rfl
    simp only [CState.finish, hcount, hord, hver]
    split
    · exact ⟨rfl, fun c c' h1 _ => by cases h1⟩
    · refine ⟨rfl, ?_⟩
      intro c c' h1 h2
      cases h1; cases h2
      exact ⟨rfl, rfl⟩
  · simp [hok, Res.isOk]

/-- **C08 (completion).** Reassembly completes exactly when every datagram received so far
inspects, a final fragment has been seen, and the number of distinct fragment numbers seen
equals the (last) final fragment's number. -/
theorem collect_complete_iff (frs : List Bytes) :
    (collectPayload frs).isOk = true ↔
      (∀ r ∈ frs, (insp r).isSome = true) ∧
      ∃ n : Nat, lastFinal (fragsOf frs) = some (n : Int) ∧ distinctCount ((fragsOf frs).map (·.order)) = n := by
  unfold collectPayload
  rw [collectLoop_eq]
  by_cases hall : frs.all (fun r => (insp r).isSome) = true
  · have hall' : ∀ r ∈ frs, (insp r).isSome = true := List.all_eq_true.mp hall
    simp only [hall, if_true, Res.ok_bind]
    show ((fragsOf frs).foldl CState.step CState.init).finish.isOk = true ↔ _
    have hcount : ((fragsOf frs).foldl CState.step CState.init).count = (lastFinal (fragsOf frs)).getD (-1) :=
      foldl_step_count (fragsOf frs) CState.init
    have hlen : ((fragsOf frs).foldl CState.step CState.init).ordered.length =
        distinctCount ((fragsOf frs).map (·.order)) := by
      rw [foldl_step_ordered]
      have hs := foldl_insert_sorted (fragsOf frs) CState.init.ordered (by simp [CState.init, keysOf])
      have hm := foldl_insert_mem (fragsOf frs) CState.init.ordered
      rw [distinctCount_eq_of_sorted_cover _ _ hs (by intro x; rw [hm x]; simp [CState.init, keysOf])]
      simp [keysOf]
    generalize (fragsOf frs).foldl CState.step CState.init = st at hcount hlen ⊢
    have hfin : st.finish.isOk = true ↔ ¬(st.count = -1 ∨ st.count ≠ (st.ordered.length : Int)) := by
      unfold CState.finish
      split <;> rename_i hh <;> simp [Res.isOk, hh]
    rw [hfin, hcount, hlen]
    cases hl : lastFinal (fragsOf frs) with
    | none => simp
    | some m =>
      simp only [Option.getD_some]
      constructor
      · intro h
        refine ⟨hall', distinctCount ((fragsOf frs).map (·.order)), ?_, rfl⟩
        congr 1
        omega
      · rintro ⟨_, n, hn, hd⟩
        cases hn
        omega
  · have : ¬ ∀ r ∈ frs, (insp r).isSome = true := fun h => hall (List.all_eq_true.mpr h)
    simp [hall, this, Res.isOk]

/-- **C08 (not before everything has arrived).** In a stream whose fragment numbers lie within
`1..n` (`n` the final fragment's number), completion means that every number `1..n` has arrived:
the query does not complete before the final fragment and all lower-numbered ones are there.
(Without the bound the code can complete with a gap — numbers {1,3,4}, final 3 — which the
model mirrors; such streams are outside the property's quantifier.) -/
theorem collect_complete_all_arrived (frs : List Bytes) (h : (collectPayload frs).isOk = true) (n : Nat)
    (hn : lastFinal (fragsOf frs) = some (n : Int))
    (hb : ∀ f ∈ fragsOf frs, 1 ≤ f.order ∧ f.order ≤ n) :
    ∀ i : Int, 1 ≤ i → i ≤ n → ∃ f ∈ fragsOf frs, f.order = i := by
  obtain ⟨_, n', hn', hd⟩ := (collect_complete_iff frs).mp h
  rw [hn] at hn'
  have hnn : n = n' := by cases hn'; rfl
  subst hnn
  -- the sorted key list of the reassembly map
  let ks := keysOf ((fragsOf frs).foldl (fun m f => insertKV f.order f.data m) [])
  have hs : ks.Pairwise (· < ·) := foldl_insert_sorted (fragsOf frs) [] (by simp [keysOf])
  have hm : ∀ x, x ∈ ks ↔ x ∈ (fragsOf frs).map (·.order) := by
    intro x; rw [foldl_insert_mem]; simp [keysOf]
  have hl : ks.length = n := by rw [← distinctCount_eq_of_sorted_cover _ ks hs hm]; exact hd
  intro i h1 h2
  have := sorted_full ks 1 hs (by
    intro x hx
    obtain ⟨f, hf, rfl⟩ := List.mem_map.mp ((hm x).mp hx)
    have := hb f hf
    omega) i h1 (by omega)
  obtain ⟨f, hf, hfo⟩ := List.mem_map.mp ((hm i).mp this)
  exact ⟨f, hf, hfo⟩

/-! ## parameter parsing -/

/-- a key/value list on the wire: `\k₁\v₁\k₂\v₂…` -/
def render (kvs : List (Bytes × Bytes)) : Bytes := body (kvs.flatMap fun kv => [kv.1, kv.2])

/-- **C08 (parse ∘ render).** `parseParams` recovers exactly the rendered pairs, in order, for all
backslash-free names and values (empty ones included). -/
theorem parse_render (kvs : List (Bytes × Bytes)) (h : ∀ kv ∈ kvs, noBsl kv.1 ∧ noBsl kv.2) :
    parseParams (render kvs) = .ok (kvs.map fun kv => ⟨kv.1, kv.2⟩) := by
  unfold render
  rw [parseParams_body, pairUp_flat]
  intro g hg
  obtain ⟨kv, hkv, hg⟩ := List.mem_flatMap.mp hg
  have := h kv hkv
  simp only [List.mem_cons, List.not_mem_nil, or_false] at hg
  rcases hg with rfl | rfl
  · exact this.1
  · exact this.2

/-- fragments cut anywhere between fields reassemble: parsing the concatenation of the fragment
bodies is parsing the whole field sequence (an odd trailing field is dropped) -/
theorem parse_concat (chunks : List (List Bytes)) (h : ∀ ch ∈ chunks, ∀ g ∈ ch, noBsl g) :
    parseParams (chunks.map body).flatten = .ok (pairUp chunks.flatten) := by
  have hb : (chunks.map body).flatten = body chunks.flatten := by
    induction chunks with
    | nil => rfl
    | cons c t ih =>
      simp only [List.map_cons, List.flatten_cons, body_append]
      rw [ih (fun ch hch => h ch (List.mem_cons_of_mem _ hch))]
  rw [hb, parseParams_body]
  intro g hg
  obtain ⟨ch, hch, hg⟩ := List.mem_flatten.mp hg
  exact h ch hch g hg

/-! ## expansion of the reassembled payload -/

theorem framingFields_ok (d : Dialect) : ∀ kv ∈ framingFields d, usc ∉ kv.1 ∧ bsl ∉ kv.1 ∧ bsl ∉ kv.2 := by
  cases d <;> decide

/-- **C08 (expand ∘ encode).** The reassembled payload of a well-formed status sent in ANY wire order
`w` (pairs of different players, server fields and objectives interleaved at will, player indexes
with gaps and in any order) — its rendered pair sequence followed by the framing fields the dialect
leaves in the payload — expands to exactly `toResponse`: the server fields (latin-1 → UTF-8, later
duplicates win), the players grouped by index in ascending order with their keys, the objectives in
order, and the dialect tag. -/
theorem expand_concat (d : Dialect) (s : GS1Spec.Status) (wf : WfStatus s) (w : List Item) (hw : WireOf s w) :
    expandPayload (body (flatItems w ++ (framingFields d).flatMap fun kv => [kv.1, kv.2])) d.ver = .ok (toResponse d s) :=
  expandPayload_wire s wf w hw (framingFields d) (framingFields_ok d) d.ver

/-! ## the whole path: encode, deliver in any order with duplicates, query -/

/-- **C08 (inspect ∘ encode).** In every fragmenting dialect (GS1 mod, AdminMod with `queryid` on the
last / on every / on no fragment), fragment `i` (zero-based) of `n` of a well-formed status in any
wire order, cut anywhere between two fields (also between a name and its value), is recognised with
number `i+1`, as final iff it is the last one, with the dialect's tag, and carrying exactly its part of
the payload (`fragData`: the chunk's fields, plus the framing fields the dialect leaves in the last one). -/
theorem inspect_encode (d : Dialect) (hd : d.fragmenting = true) (s : GS1Spec.Status) (wf : WfStatus s)
    (w : List Item) (hw : WireOf s w) (cuts : List Nat)
    (ch : List Bytes) (hch : ch ∈ chunks (flatItems w) cuts) (n i : Nat) (hi : i + 1 < 9223372036854775808) :
    inspectFragment (fragment d n i ch) = .ok ⟨decide (i + 1 = n), ((i + 1 : Nat) : Int), d.ver, fragData d n i ch⟩ :=
  inspect_fragment d hd n i ch
    (ChunkOK_of_mem_chunks _ (FlatOK_flatItems w (wireOf_wfItem hw wf)) cuts ch hch) hi

/-- "every datagram of the encoding has arrived" -/
def Covers (E dl : List Bytes) : Prop := ∀ x ∈ E, x ∈ dl

/-- **C08 (reassembly of any delivery).** For a well-formed status in any wire order, encoded in any
dialect and cut anywhere, and any delivery of its datagrams — any order, any duplication —
`collectPayload` completes exactly when every datagram has arrived (never before the final fragment
and all lower-numbered ones are there), and then hands over the rendered pair sequence with the
dialect's tag. -/
theorem C08_collect (d : Dialect) (s : GS1Spec.Status) (wf : WfStatus s) (w : List Item) (hw : WireOf s w) (cuts : List Nat)
    (hc : cuts.length + 1 < 9223372036854775808) (dl : List Bytes) (hsub : ∀ x ∈ dl, x ∈ encodeWire d w cuts) :
    (Covers (encodeWire d w cuts) dl → ∃ cap, collectPayload dl =
        .ok ⟨body (flatItems w ++ (framingFields d).flatMap fun kv => [kv.1, kv.2]), cap, d.ver⟩) ∧
    (¬ Covers (encodeWire d w cuts) dl → collectPayload dl = .err .incomplete) := by
  have ok := FlatOK_flatItems w (wireOf_wfItem hw wf)
  have := collect_of_numbered (encode_insp d (flatItems w) ok cuts hc) (expected_numbered d (flatItems w) cuts) dl hsub
  rw [expected_data] at this
  exact this

/-- **C08.** For every well-formed status, sent with its pairs in ANY wire order `w` (`WireOf s w`:
player indexes with gaps, players in any order of index, the pairs of different players, the server
fields and the objectives interleaved at will), in the vanilla, AdminMod or GS1-mod dialect (and
their variants), cut into fragments at any field boundaries, delivered in any order with duplicates:
the query yields exactly `toResponse` — the encoded server fields, the players grouped by index in
ascending order with their keys, the objectives in order, latin-1 text as UTF-8, the dialect tag —
as soon as, and not before, every fragment has arrived; a delivery that lacks a fragment ends in
the timeout.  (Datagrams are at most 2048 bytes, the read buffer; the fragment count and the player
indexes are below 2^63.) -/
theorem C08_decode (d : Dialect) (s : GS1Spec.Status) (wf : WfStatus s) (w : List Item) (hw : WireOf s w) (cuts : List Nat)
    (hc : cuts.length + 1 < 9223372036854775808)
    (hsz : ∀ x ∈ encodeWire d w cuts, x.length ≤ bufferSize)
    (dl : List Bytes) (hsub : ∀ x ∈ dl, x ∈ encodeWire d w cuts) :
    (Covers (encodeWire d w cuts) dl → runQuery dl = .response (toResponse d s)) ∧
    (¬ Covers (encodeWire d w cuts) dl → runQuery dl = .timeout) := by
  have ok := FlatOK_flatItems w (wireOf_wfItem hw wf)
  simp only [encodeWire] at hsz hsub ⊢
  have hexp : expandPayload ((expected d (flatItems w) cuts).map (·.data)).flatten d.ver = .ok (toResponse d s) := by
    rw [expected_data]; exact expand_concat d s wf w hw
  have hne := encode_ne_nil d (flatItems w) ok cuts hc
  have hnc : ¬ (∀ x ∈ encodeFlat d (flatItems w) cuts, x ∈ ([] : List Bytes)) := by
    intro h
    cases he : encodeFlat d (flatItems w) cuts with
    | nil => exact hne he
    | cons x t => have := h x (by rw [he]; simp); cases this
  have := runQuery_of_numbered (encode_insp d (flatItems w) ok cuts hc) (expected_numbered d (flatItems w) cuts)
    (toResponse d s) hexp hsz [] dl (by simpa using hsub) hnc
  simpa [runQuery, Covers] using this

/-- **C08, in the servers' own order** (server fields, the players one after another as listed, the
objectives): the instance `w = items s` of `C08_decode`. -/
theorem C08_decode_own_order (d : Dialect) (s : GS1Spec.Status) (wf : WfStatus s) (cuts : List Nat)
    (hc : cuts.length + 1 < 9223372036854775808)
    (hsz : ∀ x ∈ encodeStatus d s cuts, x.length ≤ bufferSize)
    (dl : List Bytes) (hsub : ∀ x ∈ dl, x ∈ encodeStatus d s cuts) :
    (Covers (encodeStatus d s cuts) dl → runQuery dl = .response (toResponse d s)) ∧
    (¬ Covers (encodeStatus d s cuts) dl → runQuery dl = .timeout) :=
  C08_decode d s wf (items s) (wireOf_items s wf.player_ids) cuts hc hsz dl hsub

/-- **C08 (no early completion), stated on one step of `getResponse`:** while a fragment is still
missing after the new datagram, the query keeps reading. -/
theorem C08_keeps_reading (d : Dialect) (s : GS1Spec.Status) (wf : WfStatus s) (w : List Item) (hw : WireOf s w) (cuts : List Nat)
    (hc : cuts.length + 1 < 9223372036854775808)
    (hsz : ∀ x ∈ encodeWire d w cuts, x.length ≤ bufferSize)
    (frs : List Bytes) (x : Bytes) (hsub : ∀ y ∈ frs ++ [x], y ∈ encodeWire d w cuts)
    (hmiss : ¬ Covers (encodeWire d w cuts) (frs ++ [x])) : feed frs x = .incomplete := by
  have ok := FlatOK_flatItems w (wireOf_wfItem hw wf)
  have hx : x ∈ encodeWire d w cuts := hsub x (by simp)
  have htake : x.take bufferSize = x := List.take_of_length_le (hsz x hx)
  have hxne : ¬ x.length = 0 := by
    intro h0
    obtain ⟨F, _, hi⟩ := insp_of_mem (encode_insp d (flatItems w) ok cuts hc) hx
    rw [List.length_eq_zero_iff.mp h0, insp_nil] at hi; cases hi
  have := (C08_collect d s wf w hw cuts hc (frs ++ [x]) hsub).2 hmiss
  unfold feed
  simp only [htake, hxne, if_false, this]

/-! ## players: grouped by index, ascending, whatever the wire order -/

/-- **C08 (players grouped by index in ascending order).** Whatever the wire order `w` of the status
— player indexes with gaps (0, 2, 7), listed or sent in any order, the pairs of different players
interleaved — and whatever the dialect, the fragmentation and the delivery: once every fragment has
arrived the query answers, and the players of the answer are the maps of `ps`, where `ps` is THE
arrangement of the status's players that is strictly ascending by index (`ps` is a permutation of
`s.players` and sorted; there is exactly one such list, `sortById s.players`).  Each player's map holds
exactly that player's pairs (`mkMap`: latin-1 → UTF-8, a repeated key keeps its last value); gaps in
the indexes are closed up (the answer is a list, the index itself is not kept). -/
theorem C08_players_sorted (d : Dialect) (s : GS1Spec.Status) (wf : WfStatus s) (w : List Item) (hw : WireOf s w) (cuts : List Nat)
    (hc : cuts.length + 1 < 9223372036854775808)
    (hsz : ∀ x ∈ encodeWire d w cuts, x.length ≤ bufferSize)
    (dl : List Bytes) (hsub : ∀ x ∈ dl, x ∈ encodeWire d w cuts) (hcov : Covers (encodeWire d w cuts) dl) :
    ∃ r ps, runQuery dl = .response r ∧ r.players = ps.map (fun p => mkMap p.2) ∧
      ps.Perm s.players ∧ ps.Pairwise (fun a b => a.1 < b.1) ∧
      ∀ ps' : List (Nat × List (Bytes × Bytes)), ps'.Perm s.players → ps'.Pairwise (fun a b => a.1 < b.1) → ps' = ps :=
  ⟨toResponse d s, sortById s.players, (C08_decode d s wf w hw cuts hc hsz dl hsub).1 hcov, rfl,
    sortById_perm _, sortById_sorted _ wf.player_ids, fun ps' hp hs => (sortById_unique _ ps' hp hs).symm⟩

/-- **C08 (any permutation of the player pairs).** Two well-formed statuses that give every player
index the same pairs up to order — the players listed in another order, and/or a player's pairs in
another order (its keys being pairwise different; with a repeated key the LAST value wins, so there
the order matters) — decode to the same players.  Together with `C08_decode` (any interleaving of
the pairs on the wire): every permutation of the `key_N\value` pairs of a status yields the same
players, ascending by index. -/
theorem C08_players_perm (d d' : Dialect) (s s' : GS1Spec.Status) (wf : WfStatus s) (wf' : WfStatus s')
    (hk : ∀ p ∈ s.players, (p.2.map (·.1)).Nodup)
    (h : ∀ id, (pairsFor s.players id).Perm (pairsFor s'.players id)) :
    (toResponse d s).players = (toResponse d' s').players := by
  have := playerTable_perm s.players s'.players wf.player_ids wf'.player_ids
    (fun p hp => (wf.player_keys p hp).1) (fun p hp => (wf'.player_keys p hp).1) hk h
  have := congrArg (List.map (·.2)) this
  simpa [playerTable, toResponse, List.map_map, Function.comp_def] using this

/-- listing the players in another order changes nothing -/
theorem C08_players_listing (d : Dialect) (s s' : GS1Spec.Status) (wf : WfStatus s)
    (hf : s'.fields = s.fields) (ho : s'.objectives = s.objectives) (hp : s'.players.Perm s.players) :
    toResponse d s' = toResponse d s := by
  have : sortById s'.players = sortById s.players :=
    sortById_unique _ _ ((sortById_perm _).trans hp.symm) (sortById_sorted _ wf.player_ids)
  simp only [toResponse, hf, ho, this]

/-! ## the helpers shared by the model and `toResponse`, characterised on their own

`GS1Spec.mkMap` / `toResponse` call the model's `GS1.latin1` and `GS1.insertKV`, so on those two functions
`C08_decode` compares the model with itself.  The theorems below say what the two functions compute
without mentioning them on the right-hand side. -/

/-- **C08 ("latin-1 → UTF-8").** The bytes `latin1 bs` are valid UTF-8, and decoding them with Lean
core's `String.fromUTF8?` gives the string whose characters are, one per input byte and in order, the code
points with the same numbers (`Char.ofNat b.toNat`: ISO 8859-1 is the first 256 code points of Unicode).
Equivalently (`latin1_bytes`) the output is the concatenation of core's UTF-8 encodings
(`String.utf8EncodeChar`) of those code points. -/
theorem latin1_spec (bs : Bytes) :
    ∃ s : String, String.fromUTF8? (latin1 bs).toByteArray = some s ∧
      s.toList = bs.map (fun b => Char.ofNat b.toNat) :=
  ⟨_, latin1_fromUTF8 bs, String.toList_ofList⟩

/-- `latin1_spec` on the byte level: the output is core's UTF-8 encoding of the code points, and so the
byte content of the string made of them -/
theorem latin1_bytes (bs : Bytes) :
    latin1 bs = (bs.map fun b => Char.ofNat b.toNat).flatMap String.utf8EncodeChar ∧
    latin1 bs = (String.ofList (bs.map fun b => Char.ofNat b.toNat)).toUTF8.data.toList :=
  ⟨latin1_eq_flatMap bs, latin1_eq_toUTF8 bs⟩

/-- the code point of a byte has the byte's number (so 7-bit bytes are kept and `0xE9` becomes U+00E9) -/
theorem latin1_codePoint (b : UInt8) : (Char.ofNat b.toNat).toNat = b.toNat := codePoint_toNat b

/-- **C08 ("a later duplicate wins"), one insertion.**  After `insertKV k v m` the lookup of `k` gives `v`
and the lookup of every other key is what it was; and, by list membership alone (no `lookupKV`): the pair
`(k, v)` is in the result, pairs under other keys are neither added nor lost, and when the keys of `m` are
strictly ascending (the invariant of every map in the model and in `mkMap`) no other value remains under
`k`. -/
theorem insertKV_lookup (k : Bytes) (v : Bytes) (m : List (Bytes × Bytes)) :
    lookupKV k (insertKV k v m) = some v ∧
    (∀ k', k' ≠ k → lookupKV k' (insertKV k v m) = lookupKV k' m) ∧
    (k, v) ∈ insertKV k v m ∧
    (∀ k' v', k' ≠ k → ((k', v') ∈ insertKV k v m ↔ (k', v') ∈ m)) ∧
    ((keysG m).Pairwise (· < ·) → ∀ w, (k, w) ∈ insertKV k v m → w = v) := by
  refine ⟨by rw [lookupKV_insertKV_g]; simp, ?_, insertKV_mem_self k v m, ?_, ?_⟩
  · intro k' hk; rw [lookupKV_insertKV_g]; simp [hk]
  · intro k' v' hk; exact insertKV_mem_other k v m k' v' hk
  · intro hs w hw; exact insertKV_mem_key strictTotal_bytes k v w m hs hw

/-- **C08 ("a later duplicate wins"), the whole map.**  `mkMap kvs` — the field map and each player's map
of `toResponse` — holds `(k, w)` exactly when `k` occurs in `kvs` and `w` is the latin-1 → UTF-8 conversion
of the value of the LAST pair with key `k` (core `List.lookup` on the reversed list). -/
theorem mkMap_mem (kvs : List (Bytes × Bytes)) (k w : Bytes) :
    (k, w) ∈ mkMap kvs ↔ ∃ v, List.lookup k kvs.reverse = some v ∧ w = latin1 v := by
  rw [mkMap_eq, foldl_insField_mem kvs [] (by simp [keysG]) k w]
  cases List.lookup k kvs.reverse with
  | none => simp
  | some v => simp

/-- `latin1_spec`, `mkMap_mem` on concrete data: `S é r v` (latin-1 `53 E9 72 76`) becomes `53 C3 A9 72 76`,
which core decodes to "Sérv"; of two `a` pairs the second wins -/
example : latin1 [0x53, 0xe9, 0x72, 0x76] = [0x53, 0xc3, 0xa9, 0x72, 0x76] ∧
    String.fromUTF8? (latin1 [0x53, 0xe9, 0x72, 0x76]).toByteArray = some "Sérv" ∧
    mkMap [([0x61], [0x31]), ([0x62], [0xe9]), ([0x61], [0x32])] = [([0x61], [0x32]), ([0x62], [0xc3, 0xa9])] := by
  refine ⟨by decide, ?_, by decide⟩
  rw [latin1_fromUTF8]; rfl

end Swat4.C08

/-- non-vacuity of `best_response`: two accepted answers, AdminMod then vanilla, game port 10480 -/
example : Swat4.C08.acceptedOf 10480
    [⟨10481, ⟨[(Swat4.GS1.kHostport, [0x31, 0x30, 0x34, 0x38, 0x30])], [], [], .am⟩⟩,
     ⟨10482, ⟨[(Swat4.GS1.kHostport, [0x31, 0x30, 0x34, 0x38, 0x30])], [], [], .vanilla⟩⟩] ≠ [] := by decide

/-- non-vacuity of `collect_perm`: the two GS1 fragments `\a\b\queryid\1` and `\c\d\queryid\2\final\` are consistent -/
example : Swat4.C08.ConsistentDups
    [[0x5c, 0x61, 0x5c, 0x62, 0x5c, 0x71, 0x75, 0x65, 0x72, 0x79, 0x69, 0x64, 0x5c, 0x31],
     [0x5c, 0x63, 0x5c, 0x64, 0x5c, 0x71, 0x75, 0x65, 0x72, 0x79, 0x69, 0x64, 0x5c, 0x32, 0x5c, 0x66, 0x69, 0x6e, 0x61, 0x6c, 0x5c]] := by
  unfold Swat4.C08.ConsistentDups Swat4.GS1.ConsistentFrags
  decide

/-- non-vacuity of `C08_decode`: a well-formed status with a latin-1 host name, three players with the
indexes 7, 0, 2 (gaps, not ascending) and one objective -/
def Swat4.C08.exStatus : Swat4.GS1Spec.Status :=
  ⟨[([0x68, 0x6f, 0x73, 0x74, 0x6e, 0x61, 0x6d, 0x65], [0x53, 0xe9, 0x72, 0x76]), ([0x68, 0x6f, 0x73, 0x74, 0x70, 0x6f, 0x72, 0x74], [0x31, 0x30, 0x34, 0x38, 0x30])],
   [(7, [([0x70, 0x6c, 0x61, 0x79, 0x65, 0x72], [0x4a, 0x6f]), ([0x73, 0x63, 0x6f, 0x72, 0x65], [0x33])]),
    (0, [([0x70, 0x6c, 0x61, 0x79, 0x65, 0x72], [0x41])]),
    (2, [([0x70, 0x6c, 0x61, 0x79, 0x65, 0x72], [0x42]), ([0x73, 0x63, 0x6f, 0x72, 0x65], [0x39])])],
   [([0x41, 0x5f, 0x42], [0x31])]⟩

example : Swat4.GS1Spec.WfStatus Swat4.C08.exStatus :=
  ⟨by decide, by decide, by decide, by decide, by decide, by decide, by decide, by decide, by decide⟩

/-- a wire order of `exStatus` with everything interleaved: `score_2`, the objective, `player_7`, `hostport`,
`player_2`, `player_0`, `hostname`… wait for `score_7` at the very end -/
def Swat4.C08.exWire : List Swat4.GS1Spec.Item :=
  [.player 2 [0x70, 0x6c, 0x61, 0x79, 0x65, 0x72] [0x42],
   .objective [0x41, 0x5f, 0x42] [0x31],
   .player 7 [0x70, 0x6c, 0x61, 0x79, 0x65, 0x72] [0x4a, 0x6f],
   .field [0x68, 0x6f, 0x73, 0x74, 0x6e, 0x61, 0x6d, 0x65] [0x53, 0xe9, 0x72, 0x76],
   .player 2 [0x73, 0x63, 0x6f, 0x72, 0x65] [0x39],
   .player 0 [0x70, 0x6c, 0x61, 0x79, 0x65, 0x72] [0x41],
   .field [0x68, 0x6f, 0x73, 0x74, 0x70, 0x6f, 0x72, 0x74] [0x31, 0x30, 0x34, 0x38, 0x30],
   .player 7 [0x73, 0x63, 0x6f, 0x72, 0x65] [0x33]]

/-- non-vacuity of `WireOf` (hypothesis of `C08_decode`, `C08_players_sorted`): an interleaved, out-of-order wire -/
example : Swat4.GS1Spec.WireOf Swat4.C08.exStatus Swat4.C08.exWire :=
  (Swat4.GS1.wireOfB_iff _ _).mp (by decide)

/-- … and the players of its faithful decoding are those with the indexes 0, 2, 7, in this order -/
example : (Swat4.GS1Spec.toResponse .gs1 Swat4.C08.exStatus).players =
    [[([0x70, 0x6c, 0x61, 0x79, 0x65, 0x72], [0x41])],
     [([0x70, 0x6c, 0x61, 0x79, 0x65, 0x72], [0x42]), ([0x73, 0x63, 0x6f, 0x72, 0x65], [0x39])],
     [([0x70, 0x6c, 0x61, 0x79, 0x65, 0x72], [0x4a, 0x6f]), ([0x73, 0x63, 0x6f, 0x72, 0x65], [0x33])]] := by decide

/-- the model run on that wire, GS1 dialect, two fragments delivered last-first, gives exactly that -/
example : Swat4.GS1.runQuery ((Swat4.GS1Spec.encodeWire .gs1 Swat4.C08.exWire [6]).reverse) =
    .response (Swat4.GS1Spec.toResponse .gs1 Swat4.C08.exStatus) := by decide

/-- non-vacuity of `C08_players_perm`: the same players listed in ascending order, `score`/`player` of 7 swapped -/
example : ∀ id, (Swat4.GS1Spec.pairsFor Swat4.C08.exStatus.players id).Perm (Swat4.GS1Spec.pairsFor
    [(0, [([0x70, 0x6c, 0x61, 0x79, 0x65, 0x72], [0x41])]),
     (2, [([0x70, 0x6c, 0x61, 0x79, 0x65, 0x72], [0x42]), ([0x73, 0x63, 0x6f, 0x72, 0x65], [0x39])]),
     (7, [([0x73, 0x63, 0x6f, 0x72, 0x65], [0x33]), ([0x70, 0x6c, 0x61, 0x79, 0x65, 0x72], [0x4a, 0x6f])])] id) := by
  intro id
  simp only [Swat4.C08.exStatus, Swat4.GS1Spec.pairsFor]
  by_cases h7 : 7 = id
  · subst h7; simp only [if_true]; exact List.Perm.swap _ _ _
  · by_cases h0 : 0 = id
    · subst h0; simp
    · by_cases h2 : 2 = id
      · subst h2; simp
      · simp [h7, h0, h2]

/-! ### quirks of the decoder outside the well-formed streams (mirrored by the model; documented, not required) -/

/-- a non-numeric index (`a_b`) makes the whole response malformed -/
example : Swat4.GS1.expandPayload [0x5c, 0x61, 0x5f, 0x62, 0x5c, 0x31] .gs1 = .err .malformed := by rfl

/-- an index beyond int64 (`a_9223372036854775808`: `strconv.Atoi` range error) makes the whole response malformed -/
example : Swat4.GS1.expandPayload ([0x5c, 0x61, 0x5f] ++ Swat4.GS1Spec.decimal 9223372036854775808 ++ [0x5c, 0x31]) .gs1 =
    .err .malformed := by rfl

/-- the index is everything after the FIRST underscore: `a_b_1` is key `a` of index `b_1` → malformed -/
example : Swat4.GS1.expandPayload [0x5c, 0x61, 0x5f, 0x62, 0x5f, 0x31, 0x5c, 0x31] .gs1 = .err .malformed := by rfl

/-- `a_` (nothing after the underscore) is dropped silently -/
example : Swat4.GS1.expandPayload [0x5c, 0x61, 0x5f, 0x5c, 0x31] .gs1 = .ok ⟨[], [], [], .gs1⟩ := by rfl

/-- `strconv.Atoi` spellings of one index (`a_1`, `b_+1`, `c_01`) name the same player; a negative index (`d_-1`) sorts first -/
example : Swat4.GS1.expandPayload
    [0x5c, 0x61, 0x5f, 0x31, 0x5c, 0x78, 0x5c, 0x62, 0x5f, 0x2b, 0x31, 0x5c, 0x79, 0x5c, 0x63, 0x5f, 0x30, 0x31, 0x5c, 0x7a,
     0x5c, 0x64, 0x5f, 0x2d, 0x31, 0x5c, 0x77] .gs1 =
    .ok ⟨[], [[([0x64], [0x77])], [([0x61], [0x78]), ([0x62], [0x79]), ([0x63], [0x7a])]], [], .gs1⟩ := by rfl

/-- a repeated key of one player: the later value wins -/
example : Swat4.GS1.expandPayload [0x5c, 0x61, 0x5f, 0x33, 0x5c, 0x78, 0x5c, 0x61, 0x5f, 0x33, 0x5c, 0x79] .gs1 =
    .ok ⟨[], [[([0x61], [0x79])]], [], .gs1⟩ := by rfl
