import Swat4.Lemmas.GS1
import Swat4.Lemmas.GS1Choice
import Swat4.Lemmas.GS1Collect
import Swat4.Lemmas.GS1Parse
import Swat4.Lemmas.GS1Expand
import Swat4.Lemmas.GS1Decode
import Swat4.Spec.GS1Spec
/-!
# C08 — Status responses decode faithfully in every dialect, split and order

Property theorems only.  `GS1.*` is the model of `gs1.go` and of the port prober's choice
(`Model/GS1.lean`); `GS1Spec.*` holds the abstract status, the encoders of the dialects and
`toResponse` (`Spec/GS1Spec.lean`).
-/
namespace Swat4.C08
open Swat4 Swat4.GS1 Swat4.GS1Spec

/-! ## port discovery: which answer is kept -/

/-- the answers `probePort` forwards: they decoded and their hostport equals the game port -/
def acceptedOf (gamePort : Int) (arrivals : List PortAnswer) : List PortAnswer :=
  arrivals.filter (accepted gamePort)

theorem chooseAccepted_cons (x : Ver × Int) (t : List (Ver × Int)) :
    chooseAccepted (x :: t) = some ((x :: t).foldl compareResponses (.unknown, 0)) := rfl

/-- **C08 (port choice).** If at least one candidate port gave an accepted answer, the prober keeps
an accepted answer `a`; nothing accepted that arrived before it is more capable, and everything
accepted that arrived after it is strictly less capable: the most capable dialect
(GS1 mod > AdminMod > vanilla) wins, a tie goes to the latest arrival. -/
theorem best_response (gamePort : Int) (arrivals : List PortAnswer) (h : acceptedOf gamePort arrivals ≠ []) :
    ∃ pre a post, acceptedOf gamePort arrivals = pre ++ a :: post ∧
      choose gamePort arrivals = some (a.resp.version, a.port) ∧
      (∀ b ∈ pre, b.resp.version.toNat ≤ a.resp.version.toNat) ∧
      (∀ b ∈ post, b.resp.version.toNat < a.resp.version.toNat) := by
  unfold choose
  change acceptedOf gamePort arrivals ≠ [] at h
  show ∃ pre a post, acceptedOf gamePort arrivals = pre ++ a :: post ∧
      chooseAccepted ((acceptedOf gamePort arrivals).map fun a => (a.resp.version, a.port)) = some (a.resp.version, a.port) ∧ _
  generalize acceptedOf gamePort arrivals = acc at h ⊢
  cases acc with
  | nil => exact absurd rfl h
  | cons a0 rest =>
    simp only [List.map_cons, chooseAccepted_cons]
    rcases foldl_compare_split (((a0 :: rest).map fun a => (a.resp.version, a.port))) (.unknown, 0) with ⟨_, h2⟩ | ⟨pre, x, post, h1, h2, _, h4, h5⟩
    · have := h2 (a0.resp.version, a0.port) (by simp)
      simp [Ver.toNat] at this
    · rw [List.map_eq_append_iff] at h1
      obtain ⟨pre', rest', hsplit, hpre, hrest⟩ := h1
      rw [List.map_eq_cons_iff] at hrest
      obtain ⟨a, post', hr, hx, hpost⟩ := hrest
      refine ⟨pre', a, post', by rw [hsplit, hr], ?_, ?_, ?_⟩
      · simp only [List.map_cons] at h2; rw [h2, ← hx]
      · intro b hb
        have := h4 (b.resp.version, b.port) (by rw [← hpre]; exact List.mem_map.mpr ⟨b, hb, rfl⟩)
        rw [← hx] at this; exact this
      · intro b hb
        have := h5 (b.resp.version, b.port) (by rw [← hpost]; exact List.mem_map.mpr ⟨b, hb, rfl⟩)
        rw [← hx] at this; exact this

/-- the kept answer's dialect is the maximum over the accepted answers -/
theorem best_response_max (gamePort : Int) (arrivals : List PortAnswer) (v : Ver) (p : Int)
    (h : choose gamePort arrivals = some (v, p)) :
    (∃ a ∈ acceptedOf gamePort arrivals, a.resp.version = v ∧ a.port = p) ∧
      ∀ b ∈ acceptedOf gamePort arrivals, b.resp.version.toNat ≤ v.toNat := by
  by_cases hne : acceptedOf gamePort arrivals = []
  · simp [choose, acceptedOf] at hne h
    have : (arrivals.filter (accepted gamePort)) = [] := by
      rw [List.filter_eq_nil_iff]; intro a ha; simpa using hne a ha
    rw [this] at h; simp [chooseAccepted] at h
  · obtain ⟨pre, a, post, hs, hc, hp, hq⟩ := best_response gamePort arrivals hne
    rw [hc] at h
    cases h
    refine ⟨⟨a, by rw [hs]; simp, rfl, rfl⟩, ?_⟩
    intro b hb
    rw [hs] at hb
    rcases List.mem_append.mp hb with hb | hb
    · exact hp b hb
    · rcases List.mem_cons.mp hb with rfl | hb
      · exact Nat.le_refl _
      · exact Nat.le_of_lt (hq b hb)

/-- no accepted answer ⇔ port discovery fails -/
theorem best_response_none (gamePort : Int) (arrivals : List PortAnswer) :
    choose gamePort arrivals = none ↔ acceptedOf gamePort arrivals = [] := by
  unfold choose
  show chooseAccepted ((acceptedOf gamePort arrivals).map _) = none ↔ _
  cases acceptedOf gamePort arrivals with
  | nil => simp [chooseAccepted]
  | cons a t => simp [chooseAccepted]

/-- **C08 (arrival order).** The dialect of the kept answer (and whether discovery succeeds at all)
does not depend on the order in which the candidate ports answer.  (The port itself may: equal
dialects are resolved by arrival.) -/
theorem best_response_perm (gamePort : Int) (arrivals arrivals' : List PortAnswer) (hp : arrivals.Perm arrivals') :
    (choose gamePort arrivals).map (·.1) = (choose gamePort arrivals').map (·.1) := by
  unfold choose
  have hperm : ((arrivals.filter (accepted gamePort)).map fun a => (a.resp.version, a.port)).Perm
      ((arrivals'.filter (accepted gamePort)).map fun a => (a.resp.version, a.port)) := (hp.filter _).map _
  generalize (arrivals.filter (accepted gamePort)).map (fun a => (a.resp.version, a.port)) = l at hperm
  generalize (arrivals'.filter (accepted gamePort)).map (fun a => (a.resp.version, a.port)) = l' at hperm
  cases l with
  | nil => rw [← hperm.nil_eq]
  | cons x t =>
    cases l' with
    | nil => exact absurd hperm.eq_nil (by simp)
    | cons x' t' =>
      simp only [chooseAccepted_cons, Option.map_some]
      congr 1
      apply Ver.toNat_inj
      rw [foldl_compare_ver, foldl_compare_ver]
      exact hperm.foldl_eq' (by intro a _ b _ z; show max (max z _) _ = max (max z _) _; omega) _

/-! ## reassembly: order/duplication independence, completion -/

/-- the fragments `collectPayload` sees in a list of datagrams -/
def fragsOf (frs : List Bytes) : List Fragment := frs.filterMap insp

/-- duplicates carry identical content, all fragments are of one dialect, all finals agree on the
fragment number: what a single (possibly repeating) well-formed sender produces -/
def ConsistentDups (frs : List Bytes) : Prop := ConsistentFrags (fragsOf frs)

theorem all_insp_perm {a b : List Bytes} (h : a.Perm b) :
    a.all (fun r => (insp r).isSome) = b.all (fun r => (insp r).isSome) := by
  rw [Bool.eq_iff_iff, List.all_eq_true, List.all_eq_true]
  exact ⟨fun hh x hx => hh x (h.mem_iff.mpr hx), fun hh x hx => hh x (h.mem_iff.mp hx)⟩

/-- **C08 (order and duplication independence).** Reassembly of a consistent set of datagrams
gives the same result — payload, buffer capacity, dialect tag, or the same error class — in
every arrival order. -/
theorem collect_perm (a b : List Bytes) (h : a.Perm b) (hc : ConsistentDups a) :
    collectPayload a = collectPayload b := by
  unfold collectPayload
  rw [collectLoop_eq, collectLoop_eq, all_insp_perm h,
    foldl_step_perm _ _ (h.filterMap insp) hc]

/-- duplicates do not matter either: delivering a datagram of a consistent stream once more
changes nothing but the spare capacity of the buffer -/
theorem collect_dup (a : List Bytes) (d : Bytes) (hd : d ∈ a) (hc : ConsistentDups (d :: a)) :
    (collectPayload (d :: a)).isOk = (collectPayload a).isOk ∧
      ∀ c c', collectPayload (d :: a) = .ok c → collectPayload a = .ok c' →
        c.payload = c'.payload ∧ c.version = c'.version := by
  have hperm : (d :: a).Perm (a ++ [d]) := by
    have := (List.perm_append_comm (l₁ := [d]) (l₂ := a)); simpa using this
  rw [collect_perm _ _ hperm hc]
  unfold collectPayload
  rw [collectLoop_eq, collectLoop_eq]
  have hall : (a ++ [d]).all (fun r => (insp r).isSome) = a.all (fun r => (insp r).isSome) := by
    rw [List.all_append]
    by_cases h : a.all (fun r => (insp r).isSome) = true
    · have := List.all_eq_true.mp h d hd
      simp [h, this]
    · simp [h]
  rw [hall]
  by_cases hok : a.all (fun r => (insp r).isSome) = true
  · simp only [hok, if_true, Res.ok_bind]
    have hd' : ∃ f, insp d = some f := Option.isSome_iff_exists.mp (List.all_eq_true.mp hok d hd)
    obtain ⟨f, hf⟩ := hd'
    rw [List.filterMap_append]
    simp only [List.filterMap_cons, hf, List.filterMap_nil, List.foldl_append, List.foldl_cons, List.foldl_nil]
    generalize hst : (a.filterMap insp).foldl CState.step CState.init = st
    -- `f` was already folded in: stepping with it again leaves count, ordered and version as they are
    have hfm : f ∈ fragsOf a := List.mem_filterMap.mpr ⟨d, hd, hf⟩
    have hcons : ConsistentFrags (fragsOf a) := by
      intro x hx y hy
      exact hc x (by simp only [fragsOf, List.filterMap_cons, hf]; exact List.mem_cons_of_mem _ hx)
        y (by simp only [fragsOf, List.filterMap_cons, hf]; exact List.mem_cons_of_mem _ hy)
    -- move `f` to the end of `a`'s fragments
    obtain ⟨pre, post, hsplit⟩ := List.append_of_mem hfm
    have hp2 : (fragsOf a).Perm (pre ++ post ++ [f]) := by
      rw [hsplit]
      exact List.perm_middle.trans (List.perm_append_comm (l₁ := [f]) (l₂ := pre ++ post))
    have hst2 : st = ((pre ++ post).foldl CState.step CState.init).step f := by
      rw [← hst, show a.filterMap insp = fragsOf a from rfl, foldl_step_perm _ _ hp2 hcons, List.foldl_append]
      rfl
    generalize (pre ++ post).foldl CState.step CState.init = s0 at hst2
    subst hst2
    have hcount : ((s0.step f).step f).count = (s0.step f).count := by
      simp only [CState.step]; split <;> rfl
    have hord : ((s0.step f).step f).ordered = (s0.step f).ordered := by
      simp only [CState.step]
      generalize s0.ordered = m
      induction m with
      | nil => simp [insertKV]
      | cons hd t ih => obtain ⟨k, v⟩ := hd; grind [insertKV]
    have hver : ((s0.step f).step f).version = (s0.step f).version := rfl
    simp only [CState.finish, hcount, hord, hver]
    split
    · exact ⟨rfl, fun c c' h1 _ => by cases h1⟩
    · refine ⟨rfl, ?_⟩
      intro c c' h1 h2
      cases h1; cases h2
      exact ⟨rfl, rfl⟩
  · simp [hok, Res.isOk]

/-- **C08 (completion).** Reassembly completes exactly when every datagram received so far
inspects, a final fragment has been seen, and the number of distinct fragment numbers seen
equals the (last) final fragment's number. -/
theorem collect_complete_iff (frs : List Bytes) :
    (collectPayload frs).isOk = true ↔
      (∀ r ∈ frs, (insp r).isSome = true) ∧
      ∃ n : Nat, lastFinal (fragsOf frs) = some (n : Int) ∧ distinctCount ((fragsOf frs).map (·.order)) = n := by
  unfold collectPayload
  rw [collectLoop_eq]
  by_cases hall : frs.all (fun r => (insp r).isSome) = true
  · have hall' : ∀ r ∈ frs, (insp r).isSome = true := List.all_eq_true.mp hall
    simp only [hall, if_true, Res.ok_bind]
    show ((fragsOf frs).foldl CState.step CState.init).finish.isOk = true ↔ _
    have hcount : ((fragsOf frs).foldl CState.step CState.init).count = (lastFinal (fragsOf frs)).getD (-1) :=
      foldl_step_count (fragsOf frs) CState.init
    have hlen : ((fragsOf frs).foldl CState.step CState.init).ordered.length =
        distinctCount ((fragsOf frs).map (·.order)) := by
      rw [foldl_step_ordered]
      have hs := foldl_insert_sorted (fragsOf frs) CState.init.ordered (by simp [CState.init, keysOf])
      have hm := foldl_insert_mem (fragsOf frs) CState.init.ordered
      rw [distinctCount_eq_of_sorted_cover _ _ hs (by intro x; rw [hm x]; simp [CState.init, keysOf])]
      simp [keysOf]
    generalize (fragsOf frs).foldl CState.step CState.init = st at hcount hlen ⊢
    have hfin : st.finish.isOk = true ↔ ¬(st.count = -1 ∨ st.count ≠ (st.ordered.length : Int)) := by
      unfold CState.finish
      split <;> rename_i hh <;> simp [Res.isOk, hh]
    rw [hfin, hcount, hlen]
    cases hl : lastFinal (fragsOf frs) with
    | none => simp
    | some m =>
      simp only [Option.getD_some]
      constructor
      · intro h
        refine ⟨hall', distinctCount ((fragsOf frs).map (·.order)), ?_, rfl⟩
        congr 1
        omega
      · rintro ⟨_, n, hn, hd⟩
        cases hn
        omega
  · have : ¬ ∀ r ∈ frs, (insp r).isSome = true := fun h => hall (List.all_eq_true.mpr h)
    simp [hall, this, Res.isOk]

/-- **C08 (not before everything has arrived).** In a stream whose fragment numbers lie within
`1..n` (`n` the final fragment's number), completion means that every number `1..n` has arrived:
the query does not complete before the final fragment and all lower-numbered ones are there.
(Without the bound the code can complete with a gap — numbers {1,3,4}, final 3 — which the
model mirrors; such streams are outside the property's quantifier.) -/
theorem collect_complete_all_arrived (frs : List Bytes) (h : (collectPayload frs).isOk = true) (n : Nat)
    (hn : lastFinal (fragsOf frs) = some (n : Int))
    (hb : ∀ f ∈ fragsOf frs, 1 ≤ f.order ∧ f.order ≤ n) :
    ∀ i : Int, 1 ≤ i → i ≤ n → ∃ f ∈ fragsOf frs, f.order = i := by
  obtain ⟨_, n', hn', hd⟩ := (collect_complete_iff frs).mp h
  rw [hn] at hn'
  have hnn : n = n' := by cases hn'; rfl
  subst hnn
  -- the sorted key list of the reassembly map
  let ks := keysOf ((fragsOf frs).foldl (fun m f => insertKV f.order f.data m) [])
  have hs : ks.Pairwise (· < ·) := foldl_insert_sorted (fragsOf frs) [] (by simp [keysOf])
  have hm : ∀ x, x ∈ ks ↔ x ∈ (fragsOf frs).map (·.order) := by
    intro x; rw [foldl_insert_mem]; simp [keysOf]
  have hl : ks.length = n := by rw [← distinctCount_eq_of_sorted_cover _ ks hs hm]; exact hd
  intro i h1 h2
  have := sorted_full ks 1 hs (by
    intro x hx
    obtain ⟨f, hf, rfl⟩ := List.mem_map.mp ((hm x).mp hx)
    have := hb f hf
    omega) i h1 (by omega)
  obtain ⟨f, hf, hfo⟩ := List.mem_map.mp ((hm i).mp this)
  exact ⟨f, hf, hfo⟩

/-! ## parameter parsing -/

/-- a key/value list on the wire: `\k₁\v₁\k₂\v₂…` -/
def render (kvs : List (Bytes × Bytes)) : Bytes := body (kvs.flatMap fun kv => [kv.1, kv.2])

/-- **C08 (parse ∘ render).** `parseParams` recovers exactly the rendered pairs, in order, for all
backslash-free names and values (empty ones included). -/
theorem parse_render (kvs : List (Bytes × Bytes)) (h : ∀ kv ∈ kvs, noBsl kv.1 ∧ noBsl kv.2) :
    parseParams (render kvs) = .ok (kvs.map fun kv => ⟨kv.1, kv.2⟩) := by
  unfold render
  rw [parseParams_body, pairUp_flat]
  intro g hg
  obtain ⟨kv, hkv, hg⟩ := List.mem_flatMap.mp hg
  have := h kv hkv
  simp only [List.mem_cons, List.not_mem_nil, or_false] at hg
  rcases hg with rfl | rfl
  · exact this.1
  · exact this.2

/-- fragments cut anywhere between fields reassemble: parsing the concatenation of the fragment
bodies is parsing the whole field sequence (an odd trailing field is dropped) -/
theorem parse_concat (chunks : List (List Bytes)) (h : ∀ ch ∈ chunks, ∀ g ∈ ch, noBsl g) :
    parseParams (chunks.map body).flatten = .ok (pairUp chunks.flatten) := by
  have hb : (chunks.map body).flatten = body chunks.flatten := by
    induction chunks with
    | nil => rfl
    | cons c t ih =>
      simp only [List.map_cons, List.flatten_cons, body_append]
      rw [ih (fun ch hch => h ch (List.mem_cons_of_mem _ hch))]
  rw [hb, parseParams_body]
  intro g hg
  obtain ⟨ch, hch, hg⟩ := List.mem_flatten.mp hg
  exact h ch hch g hg

/-! ## expansion of the reassembled payload -/

theorem framingFields_ok (d : Dialect) : ∀ kv ∈ framingFields d, usc ∉ kv.1 ∧ bsl ∉ kv.1 ∧ bsl ∉ kv.2 := by
  cases d <;> decide

/-- **C08 (expand ∘ encode).** The reassembled payload of a well-formed status — its rendered field
sequence followed by the framing fields the dialect leaves in the payload — expands to exactly
`toResponse`: the server fields (latin-1 → UTF-8, later duplicates win), the players grouped by
index in ascending order with their keys, the objectives in order, and the dialect tag. -/
theorem expand_concat (d : Dialect) (s : Status) (wf : WfStatus s) (hn : s.players.length ≤ 9223372036854775808) :
    expandPayload (body (flat s ++ (framingFields d).flatMap fun kv => [kv.1, kv.2])) d.ver = .ok (toResponse d s) :=
  expandPayload_flat s wf hn (framingFields d) (framingFields_ok d) d.ver

/-! ## the whole path: encode, deliver in any order with duplicates, query -/

/-- **C08 (inspect ∘ encode).** In every fragmenting dialect (GS1 mod, AdminMod with `queryid` on the
last / on every / on no fragment), fragment `i` (zero-based) of `n` of a well-formed status, cut
anywhere between two fields (also between a name and its value), is recognised with number `i+1`,
as final iff it is the last one, with the dialect's tag, and carrying exactly its part of the
payload (`fragData`: the chunk's fields, plus the framing fields the dialect leaves in the last one). -/
theorem inspect_encode (d : Dialect) (hd : d.fragmenting = true) (s : Status) (wf : WfStatus s) (cuts : List Nat)
    (ch : List Bytes) (hch : ch ∈ chunks (flat s) cuts) (n i : Nat) (hi : i + 1 < 9223372036854775808) :
    inspectFragment (fragment d n i ch) = .ok ⟨decide (i + 1 = n), ((i + 1 : Nat) : Int), d.ver, fragData d n i ch⟩ :=
  inspect_fragment d hd n i ch (ChunkOK_of_mem_chunks s wf cuts ch hch) hi

/-- "every datagram of the encoding has arrived" -/
def Covers (E dl : List Bytes) : Prop := ∀ x ∈ E, x ∈ dl

/-- **C08 (reassembly of any delivery).** For a well-formed status encoded in any dialect and cut
anywhere, and any delivery of its datagrams — any order, any duplication — `collectPayload`
completes exactly when every datagram has arrived (never before the final fragment and all
lower-numbered ones are there), and then hands over the rendered field sequence with the
dialect's tag. -/
theorem C08_collect (d : Dialect) (s : Status) (wf : WfStatus s) (cuts : List Nat)
    (hc : cuts.length + 1 < 9223372036854775808) (dl : List Bytes) (hsub : ∀ x ∈ dl, x ∈ encodeStatus d s cuts) :
    (Covers (encodeStatus d s cuts) dl → ∃ cap, collectPayload dl =
        .ok ⟨body (flat s ++ (framingFields d).flatMap fun kv => [kv.1, kv.2]), cap, d.ver⟩) ∧
    (¬ Covers (encodeStatus d s cuts) dl → collectPayload dl = .err .incomplete) := by
  have := collect_of_numbered (encode_insp d s wf cuts hc) (expected_numbered d s cuts) dl hsub
  rw [expected_data] at this
  exact this

/-- **C08.** For every well-formed status, in the vanilla, AdminMod or GS1-mod dialect (and their
variants), cut into fragments at any field boundaries, delivered in any order with duplicates:
the query yields exactly `toResponse` — the encoded server fields, the players grouped by index in
ascending order with their keys, the objectives in order, latin-1 text as UTF-8, the dialect tag —
as soon as, and not before, every fragment has arrived; a delivery that lacks a fragment ends in
the timeout.  (Datagrams are at most 2048 bytes, the read buffer; fragment and player counts are
below 2^63.) -/
theorem C08_decode (d : Dialect) (s : Status) (wf : WfStatus s) (cuts : List Nat)
    (hc : cuts.length + 1 < 9223372036854775808) (hn : s.players.length ≤ 9223372036854775808)
    (hsz : ∀ x ∈ encodeStatus d s cuts, x.length ≤ bufferSize)
    (dl : List Bytes) (hsub : ∀ x ∈ dl, x ∈ encodeStatus d s cuts) :
    (Covers (encodeStatus d s cuts) dl → runQuery dl = .response (toResponse d s)) ∧
    (¬ Covers (encodeStatus d s cuts) dl → runQuery dl = .timeout) := by
  have hexp : expandPayload ((expected d s cuts).map (·.data)).flatten d.ver = .ok (toResponse d s) := by
    rw [expected_data]; exact expand_concat d s wf hn
  have hne := encode_ne_nil d s wf cuts hc
  have hnc : ¬ (∀ x ∈ encodeStatus d s cuts, x ∈ ([] : List Bytes)) := by
    intro h
    cases he : encodeStatus d s cuts with
    | nil => exact hne he
    | cons x t => have := h x (by rw [he]; simp); cases this
  have := runQuery_of_numbered (encode_insp d s wf cuts hc) (expected_numbered d s cuts) (toResponse d s) hexp hsz
    [] dl (by simpa using hsub) hnc
  simpa [runQuery, Covers] using this

/-- **C08 (no early completion), stated on one step of `getResponse`:** while a fragment is still
missing after the new datagram, the query keeps reading. -/
theorem C08_keeps_reading (d : Dialect) (s : Status) (wf : WfStatus s) (cuts : List Nat)
    (hc : cuts.length + 1 < 9223372036854775808)
    (hsz : ∀ x ∈ encodeStatus d s cuts, x.length ≤ bufferSize)
    (frs : List Bytes) (x : Bytes) (hsub : ∀ y ∈ frs ++ [x], y ∈ encodeStatus d s cuts)
    (hmiss : ¬ Covers (encodeStatus d s cuts) (frs ++ [x])) : feed frs x = .incomplete := by
  have hx : x ∈ encodeStatus d s cuts := hsub x (by simp)
  have htake : x.take bufferSize = x := List.take_of_length_le (hsz x hx)
  have hxne : ¬ x.length = 0 := by
    intro h0
    obtain ⟨F, _, hi⟩ := insp_of_mem (encode_insp d s wf cuts hc) hx
    rw [List.length_eq_zero_iff.mp h0, insp_nil] at hi; cases hi
  have := (C08_collect d s wf cuts hc (frs ++ [x]) hsub).2 hmiss
  unfold feed
  simp only [htake, hxne, if_false, this]

end Swat4.C08

/-- non-vacuity of `best_response`: two accepted answers, AdminMod then vanilla, game port 10480 -/
example : Swat4.C08.acceptedOf 10480
    [⟨10481, ⟨[(Swat4.GS1.kHostport, [0x31, 0x30, 0x34, 0x38, 0x30])], [], [], .am⟩⟩,
     ⟨10482, ⟨[(Swat4.GS1.kHostport, [0x31, 0x30, 0x34, 0x38, 0x30])], [], [], .vanilla⟩⟩] ≠ [] := by decide

/-- non-vacuity of `collect_perm`: the two GS1 fragments `\a\b\queryid\1` and `\c\d\queryid\2\final\` are consistent -/
example : Swat4.C08.ConsistentDups
    [[0x5c, 0x61, 0x5c, 0x62, 0x5c, 0x71, 0x75, 0x65, 0x72, 0x79, 0x69, 0x64, 0x5c, 0x31],
     [0x5c, 0x63, 0x5c, 0x64, 0x5c, 0x71, 0x75, 0x65, 0x72, 0x79, 0x69, 0x64, 0x5c, 0x32, 0x5c, 0x66, 0x69, 0x6e, 0x61, 0x6c, 0x5c]] := by
  unfold Swat4.C08.ConsistentDups Swat4.GS1.ConsistentFrags
  decide

/-- non-vacuity of `C08_decode`: a well-formed status with a latin-1 host name, one player and one objective -/
example : Swat4.GS1Spec.WfStatus
    ⟨[([0x68, 0x6f, 0x73, 0x74, 0x6e, 0x61, 0x6d, 0x65], [0x53, 0xe9, 0x72, 0x76]), ([0x68, 0x6f, 0x73, 0x74, 0x70, 0x6f, 0x72, 0x74], [0x31, 0x30, 0x34, 0x38, 0x30])],
     [[([0x70, 0x6c, 0x61, 0x79, 0x65, 0x72], [0x4a, 0x6f]), ([0x73, 0x63, 0x6f, 0x72, 0x65], [0x33])]],
     [([0x41, 0x5f, 0x42], [0x31])]⟩ :=
  ⟨by decide, by decide, by decide, by decide, by decide, by decide, by decide⟩
