import Swat4.Lemmas.FactsExtra06
import Swat4.Lemmas.ReporterErr
import Swat4.Lemmas.ReporterLenient
import Swat4.Lemmas.ReporterPost
import Swat4.Model.BrowserReq06
import Swat4.Lemmas.HeartbeatChecked
import Swat4.Lemmas.BrowserPipeline
import Swat4.Lemmas.BrowserReqBridge
import Swat4.Properties.C01
import Swat4.Properties.C02
import Swat4.Properties.C03
import Swat4.Model.UdpServer
import Swat4.Model.ReporterReach
/-!
# C06 — No inbound bytes can crash a listener or change state unless well-formed

UDP half: `Heartbeat.dispatch` (the reporter dispatcher with its handlers and use cases).
TCP half: `BrowserReq06.newRequest` / `handle` (the browser request parser, outcome class only).
"Returns promptly" and "the process keeps running" are run-time facts, measured by the harness
(`udpsrv` stream), not theorems.  "Sends at most one reply" is NOT a theorem either: `Outcome` / `TcpOutcome`
cannot express two replies, so the clause is covered by the harness's reply count only (see below).

"Unchanged unless well-formed": `malformed_no_effect` is stated over `WellFormedMutating`, which is defined FROM
the model ("the model accepted it") and is therefore definitional.  The clause with content is
`mutation_implies_decodable`: a datagram that changes the state is accepted by the INDEPENDENT decoder
`ReporterSpec.decode?` as a heartbeat or keepalive, or exhibits one of three documented parser leniencies
(`ReporterSpec.Quirk`, Spec/ReporterLenient.lean) — each witnessed below — and `acts_as_wellformed`: in every
case it has exactly the effect and reply of a well-formed message.
-/
namespace Swat4.C06
open Swat4 Swat4.Heartbeat Swat4.Rep Swat4.BrowserReq06 Swat4.ReporterSpec

/-! ## UDP: totality -/

theorem finish_ne_panic (r : AbsState × Except UC.UErr Unit) (ok : Outcome) (h : ok ≠ .panic) :
    (finish r ok).2 ≠ .panic := by
  unfold finish
  cases r.2 with
  | ok _ => exact h
  | error _ => intro h'; cases h'

theorem handleHeartbeat_ne_panic (cfg : Cfg) (st : AbsState) (srcIp srcPort : Nat) (b : Bytes) (now : Int) :
    (handleHeartbeat cfg st srcIp srcPort b now).2 ≠ .panic := by
  unfold handleHeartbeat
  repeat' split
  all_goals first
    | (intro h; cases h; done)
    | (apply finish_ne_panic; intro h; cases h)

/-- **UDP totality.** For every state, source and NON-EMPTY datagram the dispatcher returns a reply, stays
silent or reports an error — it never panics.  `hb` is `udpserver`'s `n > 0` guard. -/
theorem udp_total (cfg : Cfg) (st : AbsState) (srcIp srcPort : Nat) (b : Bytes) (hb : b ≠ []) (now : Int) :
    (dispatch cfg st srcIp srcPort b now).2 ≠ .panic := by
  unfold dispatch
  cases b with
  | nil => exact absurd rfl hb
  | cons t rest =>
    dsimp only
    split
    · exact handleHeartbeat_ne_panic cfg st srcIp srcPort (t :: rest) now
    · split
      · unfold handleKeepalive
        split
        · intro h; cases h
        · apply finish_ne_panic; intro h; cases h
      · split
        · unfold handleChallenge
          split <;> (intro h; cases h)
        · split <;> (intro h; cases h)

/-- the guard is needed: on an empty payload `payload[0]` is out of range (observed on the real
dispatcher by the harness: `panic: runtime error: index out of range [0] with length 0`) -/
theorem udp_empty_panics (cfg : Cfg) (st : AbsState) (srcIp srcPort : Nat) (now : Int) :
    dispatch cfg st srcIp srcPort [] now = (st, .panic) := rfl

/-! ## at most one reply -/

/-- the datagrams written back for an outcome -/
def replies : Outcome → List Bytes
  | .reply b => [b]
  | _ => []

/-- At most one reply per datagram (`Dispatcher.Handle` writes `resp` once when it is non-nil).
TYPE-LEVEL ONLY, NOT AN AUDITED OBLIGATION: this holds for any function into `Outcome` whatsoever (the type has
no way to express two replies), so it says nothing about the code.  The clause "sends at most one reply" of C06
is covered by the harness only: the `udpsrv` stream (thorough tier) sends datagrams to the real `udpserver` on a
socket and COUNTS the reply datagrams that come back (`replies:<n>`, oracle `n ≤ number of datagrams`,
signature `udp-more-than-one-reply`); the in-process stream compares the one response slice the real `dispatch`
returns with the model's outcome; the TCP stream compares the total number of bytes the real handler wrote on
the connection with the model's reply length. -/
theorem at_most_one_reply (cfg : Cfg) (st : AbsState) (srcIp srcPort : Nat) (b : Bytes) (now : Int) :
    (replies (dispatch cfg st srcIp srcPort b now).2).length ≤ 1 := by
  cases (dispatch cfg st srcIp srcPort b now).2 <;> simp [replies]

/-- TCP: the handler writes at most once -/
def tcpReplies : TcpOutcome → Nat
  | .reply _ => 1
  | _ => 0

/-- TYPE-LEVEL ONLY, NOT AN AUDITED OBLIGATION (see `at_most_one_reply`): holds for any function into `TcpOutcome`. -/
theorem tcp_at_most_one_reply (p : Option Bytes) : tcpReplies (handle p) ≤ 1 := by
  cases handle p <;> simp [tcpReplies]

/-! ## malformed ⇒ no effect -/

theorem finish_err (r : AbsState × Except UC.UErr Unit) (ok : Outcome) (hok : ok ≠ .err) (h : (finish r ok).2 = .err) :
    ∃ e, r.2 = .error e := by
  unfold finish at h
  cases hr : r.2 with
  | ok _ => rw [hr] at h; exact absurd h hok
  | error e => exact ⟨e, rfl⟩

theorem handleHeartbeat_rejected (cfg : Cfg) (st : AbsState) (srcIp srcPort : Nat) (b : Bytes) (now : Int) :
    (handleHeartbeat cfg st srcIp srcPort b now).2 = .err → (handleHeartbeat cfg st srcIp srcPort b now).1 = st := by
  unfold handleHeartbeat
  cases parseInstanceID b with
  | none => intro _; rfl
  | some p =>
    obtain ⟨id, r⟩ := p
    dsimp only
    cases parseHeartbeatParams r with
    | none => intro _; rfl
    | some fields =>
      dsimp only
      by_cases hne : fields.isEmpty = true
      · rw [if_pos hne]; intro _; rfl
      · rw [if_neg hne]
        cases parseAddr srcIp fields with
        | none => intro _; rfl
        | some p =>
          obtain ⟨a, qp⟩ := p
          dsimp only
          by_cases hs : fields.get? kStatechanged = some [0x32]
          · rw [if_pos hs]
            intro h
            obtain ⟨e, he⟩ := finish_err _ _ (by intro h'; cases h') h
            exact remove_err _ _ _ _ e he
          · rw [if_neg hs]
            intro h
            obtain ⟨e, he⟩ := finish_err _ _ (by intro h'; cases h') h
            exact report_err _ _ _ _ _ e he

theorem handleKeepalive_rejected (st : AbsState) (srcIp : Nat) (b : Bytes) (now : Int) :
    (handleKeepalive st srcIp b now).2 = .err → (handleKeepalive st srcIp b now).1 = st := by
  unfold handleKeepalive
  cases parseInstanceID b with
  | none => intro _; rfl
  | some p =>
    dsimp only
    intro h
    obtain ⟨e, he⟩ := finish_err _ _ (by intro h'; cases h') h
    exact renew_err _ _ _ _ e he

/-- **A rejected datagram leaves the state unchanged.** Whenever the dispatcher's outcome is an error
(unknown message type, short datagram, scanner error, no reportable field, hostport/localport missing or
not numeric, address not acceptable, values that do not parse or validate, unknown or foreign instance,
server not found, …), registry, instance table and probe queue are exactly what they were. -/
theorem rejected_no_effect (cfg : Cfg) (st : AbsState) (srcIp srcPort : Nat) (b : Bytes) (now : Int)
    (h : (dispatch cfg st srcIp srcPort b now).2 = .err) : (dispatch cfg st srcIp srcPort b now).1 = st := by
  revert h
  unfold dispatch
  cases b with
  | nil => intro _; rfl
  | cons t rest =>
    dsimp only
    by_cases ht : t.toNat = Facts.reporterMsgHeartbeat
    · rw [if_pos ht]; exact handleHeartbeat_rejected cfg st srcIp srcPort (t :: rest) now
    · rw [if_neg ht]
      by_cases hk : t.toNat = Facts.reporterMsgKeepalive
      · rw [if_pos hk]; exact handleKeepalive_rejected st srcIp (t :: rest) now
      · rw [if_neg hk]
        intro _
        split
        · rfl
        · split <;> rfl

/- a datagram that gets as far as a use case (heartbeat of at least 5 bytes whose body scans to a non-empty field map
from which the address derives, or a keepalive of at least 5 bytes): `Swat4.C06.reachesUseCase` IS
`Swat4.Heartbeat.reachesUseCase` (`Model/ReporterReach.lean`), the definition the C06 driver's oracle evaluates too
(`Swat4.Drv.C06.reaches`) -/
export Swat4.Heartbeat (reachesUseCase)

/-- `WellFormedMutating` — DEFINED FROM THE MODEL (it mentions `dispatch` itself: "the model did not answer
`err`"), so theorems stated over it are definitional; the independent statement is `mutation_implies_decodable`.
The datagram is a heartbeat, removal or keepalive that reaches its use case and
that the use case accepts (report: values parse and validate, query port valid for a new server;
removal: server present, instance present and owned by the sender's IP; keepalive: instance known, owned
by the sender's IP, its server present) -/
def WellFormedMutating (cfg : Cfg) (st : AbsState) (srcIp srcPort : Nat) (b : Bytes) (now : Int) : Prop :=
  reachesUseCase srcIp b = true ∧ (dispatch cfg st srcIp srcPort b now).2 ≠ .err

/-- a datagram that does not reach a use case changes nothing (whatever it is answered).  (`reachesUseCase` is
defined with the model's own scanner: this is a fact about the model's control flow, used by
`mutation_implies_decodable`, not a well-formedness statement by itself.) -/
theorem unreached_no_effect (cfg : Cfg) (st : AbsState) (srcIp srcPort : Nat) (b : Bytes) (now : Int)
    (h : reachesUseCase srcIp b = false) : (dispatch cfg st srcIp srcPort b now).1 = st := by
  revert h
  unfold reachesUseCase dispatch
  cases b with
  | nil => intro _; rfl
  | cons t rest =>
    dsimp only
    by_cases ht : t.toNat = Facts.reporterMsgHeartbeat
    · rw [if_pos ht, if_pos ht]
      unfold handleHeartbeat
      cases parseInstanceID (t :: rest) with
      | none => intro _; rfl
      | some p =>
        obtain ⟨id, r⟩ := p
        dsimp only
        cases parseHeartbeatParams r with
        | none => intro _; rfl
        | some fields =>
          dsimp only
          by_cases hne : fields.isEmpty = true
          · rw [if_pos hne]; intro _; rfl
          · rw [if_neg hne]
            cases parseAddr srcIp fields with
            | none => intro _; rfl
            | some p =>
              intro h
              simp at h
              exact absurd (by simp [h]) hne
    · rw [if_neg ht, if_neg ht]
      by_cases hk : t.toNat = Facts.reporterMsgKeepalive
      · rw [if_pos hk, if_pos hk]
        unfold handleKeepalive
        cases parseInstanceID (t :: rest) with
        | none => intro _; rfl
        | some p => intro h; cases h
      · rw [if_neg hk, if_neg hk]
        intro _
        split
        · rfl
        · split <;> rfl

/-- **Malformed ⇒ no effect** — DEFINITIONAL: `WellFormedMutating` is "the model reached a use case and did not
answer `err`", so this is `rejected_no_effect` + `unreached_no_effect` repackaged; it does not say that a
mutating datagram is well-formed by any standard other than the model's own.  For that see
`mutation_implies_decodable` below.  Unless the datagram is a well-formed mutating message, the state after it
is the state before it. -/
theorem malformed_no_effect (cfg : Cfg) (st : AbsState) (srcIp srcPort : Nat) (b : Bytes) (now : Int)
    (h : ¬ WellFormedMutating cfg st srcIp srcPort b now) : (dispatch cfg st srcIp srcPort b now).1 = st := by
  by_cases hr : reachesUseCase srcIp b = true
  · by_cases he : (dispatch cfg st srcIp srcPort b now).2 = .err
    · exact rejected_no_effect cfg st srcIp srcPort b now he
    · exact absurd ⟨hr, he⟩ h
  · exact unreached_no_effect cfg st srcIp srcPort b now (by simpa using hr)

/-- in particular challenge and availability requests never change the state -/
theorem only_heartbeat_keepalive_mutate (cfg : Cfg) (st : AbsState) (srcIp srcPort : Nat) (t : UInt8) (rest : Bytes) (now : Int)
    (h1 : t.toNat ≠ Facts.reporterMsgHeartbeat) (h2 : t.toNat ≠ Facts.reporterMsgKeepalive) :
    (dispatch cfg st srcIp srcPort (t :: rest) now).1 = st := by
  apply unreached_no_effect
  unfold reachesUseCase
  dsimp only
  rw [if_neg h1, if_neg h2]

/-! ## mutation ⇒ decodable by the independent decoder -/

theorem u8_of_toNat {t : UInt8} {n : Nat} (x : UInt8) (hx : x.toNat = n) (h : t.toNat = n) : t = x :=
  UInt8.toNat_inj.mp (h.trans hx.symm)

theorem parseInstanceID_some {b id r : Bytes} {t : UInt8} (h : parseInstanceID (t :: b) = some (id, r)) :
    id.length = 4 ∧ b = id ++ r := by
  unfold parseInstanceID at h
  split at h
  · cases h
  · rename_i hl
    simp only [List.length_cons] at hl
    simp only [List.drop_succ_cons, List.drop_zero, Option.some.injEq, Prod.mk.injEq] at h
    obtain ⟨h1, h2⟩ := h
    subst h1 h2
    exact ⟨by simp only [List.length_take]; omega, (List.take_append_drop 4 b).symm⟩

/-- the conclusion of `mutation_implies_decodable`: the independent decoder accepts the datagram as a heartbeat
or a keepalive, or the datagram exhibits one of the three documented leniencies -/
def DecodableOrQuirk (b : Bytes) : Prop :=
  (∃ m, decode? b = some m ∧ (m.isHeartbeat = true ∨ m.isKeepalive = true)) ∨ Quirk b

/-- every datagram that gets as far as a use case is decodable or quirky (the use case need not accept it) -/
theorem reaches_implies_decodable (srcIp : Nat) (b : Bytes) (h : reachesUseCase srcIp b = true) : DecodableOrQuirk b := by
  unfold reachesUseCase at h
  cases b with
  | nil => cases h
  | cons t rest =>
    dsimp only at h
    by_cases ht : t.toNat = Facts.reporterMsgHeartbeat
    · rw [if_pos ht] at h
      have ht3 : t = 0x03 := u8_of_toNat 0x03 (by decide) ht
      subst ht3
      cases hp : parseInstanceID (0x03 :: rest) with
      | none => rw [hp] at h; cases h
      | some p =>
        obtain ⟨id, r⟩ := p
        rw [hp] at h
        dsimp only at h
        obtain ⟨hid, hrest⟩ := parseInstanceID_some hp
        cases hf : parseHeartbeatParams r with
        | none => rw [hf] at h; cases h
        | some fields =>
          unfold parseHeartbeatParams at hf
          obtain ⟨items, trailer, hall, htr, hshape, _⟩ := scan_lenient r.length r [] fields (Nat.le_refl _) hf
          cases hshape with
          | inl hs =>
            cases hpu : pairUp items with
            | none =>
              right
              exact Quirk.oddSkip id items trailer hid hall htr hpu (by rw [hrest, hs])
            | some kvs =>
              left
              obtain ⟨henc, hwfk⟩ := pairUp_some items.length items (Nat.le_refl _) kvs hall hpu
              have hwf : WfHeartbeat ⟨id, kvs, trailer⟩ := by
                simp only [WfHeartbeat, wfHeartbeat, hid, hwfk, beq_self_eq_true, Bool.true_and]
                exact htr
              refine ⟨.heartbeat ⟨id, kvs, trailer⟩, ?_, Or.inl rfl⟩
              have hb : (0x03 : UInt8) :: rest = encodeHeartbeat ⟨id, kvs, trailer⟩ := by
                unfold encodeHeartbeat
                rw [hrest, hs, henc]
              rw [hb]
              exact decode?_encodeHeartbeat _ hwf
          | inr hs =>
            right
            refine Quirk.unterminated id items hid hall ?_
            rw [hrest, ← hs.2]
            simp
    · rw [if_neg ht] at h
      by_cases hk : t.toNat = Facts.reporterMsgKeepalive
      · rw [if_pos hk] at h
        have ht8 : t = 0x08 := u8_of_toNat 0x08 (by decide) hk
        subst ht8
        cases hp : parseInstanceID (0x08 :: rest) with
        | none => rw [hp] at h; cases h
        | some p =>
          obtain ⟨id, r⟩ := p
          obtain ⟨hid, hrest⟩ := parseInstanceID_some hp
          cases r with
          | nil =>
            left
            rw [hrest, List.append_nil]
            exact ⟨.keepalive id, decode?_keepalive id hid, Or.inr rfl⟩
          | cons x xs =>
            right
            exact Quirk.keepaliveTrailer id (x :: xs) hid (by simp) (by rw [hrest])
      · rw [if_neg hk] at h; cases h

/-- **A datagram that changes the state is well-formed by the independent decoder, up to three documented
leniencies.**  C06 clause "the registry, instance table and probe queue are unchanged unless the message is a
well-formed heartbeat, keepalive or removal".  For every state, source, clock and datagram `b`: if the state
after `dispatch` differs from the state before, then EITHER `ReporterSpec.decode? b = some m` for a heartbeat
(report or removal) or keepalive `m` — the decoder written from the wire format, sharing no code with the
scanner — OR `b` is (`ReporterSpec.Quirk`)
* a keepalive followed by extra bytes (`keepalive.Handler` ignores `payload[5:]`), or
* a heartbeat whose LAST string lacks its NUL (`ConsumeCString` returns the rest of the slice when there is no NUL), or
* a heartbeat in which unknown strings do not come in name/value pairs (`parseHeartbeatParams` `continue`s on an
  unknown name WITHOUT consuming its value).
`Quirk` is stated over the bytes alone (concatenations of NUL-terminated strings); it does not mention the scanner.
The statement WITHOUT the `Quirk` disjunct is FALSE of the model and of the Go code: see the three witnesses below. -/
theorem mutation_implies_decodable (cfg : Cfg) (st : AbsState) (srcIp srcPort : Nat) (b : Bytes) (now : Int)
    (h : (dispatch cfg st srcIp srcPort b now).1 ≠ st) : DecodableOrQuirk b := by
  apply reaches_implies_decodable srcIp
  cases hr : reachesUseCase srcIp b with
  | true => rfl
  | false => exact absurd (unreached_no_effect cfg st srcIp srcPort b now hr) h


theorem handleHeartbeat_congr (cfg : Cfg) (st : AbsState) (ip port : Nat) (now : Int) (p1 p2 id r1 r2 : Bytes) (fields : FieldMap)
    (h1 : parseInstanceID p1 = some (id, r1)) (h1' : parseHeartbeatParams r1 = some fields)
    (h2 : parseInstanceID p2 = some (id, r2)) (h2' : parseHeartbeatParams r2 = some fields) :
    handleHeartbeat cfg st ip port p1 now = handleHeartbeat cfg st ip port p2 now := by
  unfold handleHeartbeat
  rw [h1, h2]
  dsimp only
  rw [h1', h2']

theorem dispatch_heartbeat (cfg : Cfg) (st : AbsState) (ip port : Nat) (now : Int) (rest : Bytes) :
    dispatch cfg st ip port (0x03 :: rest) now = handleHeartbeat cfg st ip port (0x03 :: rest) now := by
  have h1 : ((0x03 : UInt8).toNat = Facts.reporterMsgHeartbeat) = True := by decide
  unfold dispatch
  simp only [h1, if_true]

theorem dispatch_keepalive (cfg : Cfg) (st : AbsState) (ip port : Nat) (now : Int) (rest : Bytes) :
    dispatch cfg st ip port (0x08 :: rest) now = handleKeepalive st ip (0x08 :: rest) now := by
  have h1 : ((0x08 : UInt8).toNat = Facts.reporterMsgHeartbeat) = False := by decide
  have h2 : ((0x08 : UInt8).toNat = Facts.reporterMsgKeepalive) = True := by decide
  unfold dispatch
  simp only [h1, h2, if_false, if_true]

/-- **… and, quirky or not, it acts exactly as a well-formed message.**  Every datagram that reaches a use case
(in particular every datagram that changes the state) has, in every state, exactly the effect and the outcome of
`encode m` for a well-formed heartbeat/keepalive `m` that the independent decoder accepts: for a heartbeat the
message with the same instance id and the reportable pairs of the datagram in order (skipped strings and trailer
dropped), for a keepalive the first five bytes.  So the leniencies let no NEW state transition in: by
`C04.step_refines` the effect is `ReporterSpec.absStep` of `m`. -/
theorem acts_as_wellformed (cfg : Cfg) (st : AbsState) (srcIp srcPort : Nat) (b : Bytes) (now : Int)
    (h : reachesUseCase srcIp b = true) :
    ∃ m, wfMsg m = true ∧ (m.isHeartbeat = true ∨ m.isKeepalive = true) ∧ decode? (encode m) = some m ∧
      dispatch cfg st srcIp srcPort b now = dispatch cfg st srcIp srcPort (encode m) now := by
  unfold reachesUseCase at h
  cases b with
  | nil => cases h
  | cons t rest =>
    dsimp only at h
    by_cases ht : t.toNat = Facts.reporterMsgHeartbeat
    · rw [if_pos ht] at h
      have ht3 : t = 0x03 := u8_of_toNat 0x03 (by decide) ht
      subst ht3
      cases hp : parseInstanceID (0x03 :: rest) with
      | none => rw [hp] at h; cases h
      | some p =>
        obtain ⟨id, r⟩ := p
        rw [hp] at h
        dsimp only at h
        obtain ⟨hid, hrest⟩ := parseInstanceID_some hp
        cases hf : parseHeartbeatParams r with
        | none => rw [hf] at h; cases h
        | some fields =>
          have hf' := hf
          unfold parseHeartbeatParams at hf'
          obtain ⟨items, trailer, hall, htr, hshape, hfields⟩ := scan_lenient r.length r [] fields (Nat.le_refl _) hf'
          have hwfk := pairsOf_wf items hall
          have hwf : WfHeartbeat ⟨id, pairsOf items, []⟩ := by
            simp only [WfHeartbeat, wfHeartbeat, hid, hwfk, beq_self_eq_true, Bool.true_and]
          refine ⟨.heartbeat ⟨id, pairsOf items, []⟩, hwf, Or.inl rfl, decode?_encodeHeartbeat _ hwf, ?_⟩
          show dispatch cfg st srcIp srcPort (0x03 :: rest) now
            = dispatch cfg st srcIp srcPort (0x03 :: (id ++ (encodePairs (pairsOf items) ++ []))) now
          rw [dispatch_heartbeat, dispatch_heartbeat]
          refine handleHeartbeat_congr cfg st srcIp srcPort now _ _ id r (encodePairs (pairsOf items) ++ []) fields hp hf
            (parseInstanceID_cons _ id _ hid) ?_
          unfold parseHeartbeatParams
          rw [parseParamsAux_encode [] rfl (pairsOf items) hwfk [] _ (Nat.le_refl _), hfields,
            fieldsOfItems_pairs items hall]
    · rw [if_neg ht] at h
      by_cases hk : t.toNat = Facts.reporterMsgKeepalive
      · rw [if_pos hk] at h
        have ht8 : t = 0x08 := u8_of_toNat 0x08 (by decide) hk
        subst ht8
        cases hp : parseInstanceID (0x08 :: rest) with
        | none => rw [hp] at h; cases h
        | some p =>
          obtain ⟨id, r⟩ := p
          obtain ⟨hid, hrest⟩ := parseInstanceID_some hp
          refine ⟨.keepalive id, by simp [wfMsg, hid], Or.inr rfl, decode?_keepalive id hid, ?_⟩
          show dispatch cfg st srcIp srcPort (0x08 :: rest) now = dispatch cfg st srcIp srcPort (0x08 :: id) now
          rw [dispatch_keepalive, dispatch_keepalive]
          unfold handleKeepalive
          have h2 := parseInstanceID_cons 0x08 id [] hid
          rw [List.append_nil] at h2
          rw [hp, h2]
      · rw [if_neg hk] at h; cases h


/-! ### the leniencies are real: three witnesses (model by `decide`; the same datagrams were run through the real
dispatcher with the harness — `C06 hist …` — and are accepted there too) -/

/-- a valid first report for game port 10480 (NUL-terminated pairs) -/
def okBody : Bytes :=
  kv "hostname" "Srv" ++ kv "hostport" "10480" ++ kv "localport" "10481" ++ kv "gamevariant" "SWAT 4" ++ kv "gamever" "1.1" ++
  kv "gametype" "VIP Escort" ++ kv "mapname" "A-Bomb Nightclub" ++ kv "numplayers" "3" ++ kv "maxplayers" "16"

def okItems : List Item :=
  [.pair (ascii "hostname") (ascii "Srv"), .pair (ascii "hostport") (ascii "10480"), .pair (ascii "localport") (ascii "10481"),
   .pair (ascii "gamevariant") (ascii "SWAT 4"), .pair (ascii "gamever") (ascii "1.1"), .pair (ascii "gametype") (ascii "VIP Escort"),
   .pair (ascii "mapname") (ascii "A-Bomb Nightclub"), .pair (ascii "numplayers") (ascii "3"), .pair (ascii "maxplayers") (ascii "16")]

def xid : Bytes := [0xde, 0xad, 0xbe, 0xef]

/-- the report with its final NUL cut off -/
def wUnterminated : Bytes := (0x03 :: (xid ++ okBody)).dropLast
/-- the report preceded by ONE unknown string (no value) -/
def wOddSkip : Bytes := 0x03 :: (xid ++ (ascii "junk" ++ 0 :: okBody))
/-- a keepalive with one extra byte -/
def wKeepalive : Bytes := 0x08 :: (xid ++ [0x00])

theorem ne_of_servers_size {s t : AbsState} (h : s.servers.size ≠ t.servers.size) : s ≠ t :=
  fun e => h (by rw [e])

set_option maxRecDepth 20000 in
/-- **Witness 1 (unterminated last string).** The strict decoder rejects it, the dispatcher registers the server
(Go: `ConsumeCString` returns `data, nil` when no NUL is left and the loop ends on `len(unparsed) == 0`). -/
example : decode? wUnterminated = none ∧ (dispatch ⟨3⟩ {} 0x01010101 1234 wUnterminated 1000).1 ≠ {} ∧ Quirk wUnterminated :=
  ⟨by decide, ne_of_servers_size (by decide), Quirk.unterminated xid okItems rfl (by decide) (by decide)⟩

set_option maxRecDepth 20000 in
/-- **Witness 2 (unknown string without a value).** Read strictly the pairs misalign (`junk`=`hostname`,
`Srv`=`hostport`, …) and the decoder rejects; the scanner skips `junk` alone and registers the server. -/
example : decode? wOddSkip = none ∧ (dispatch ⟨3⟩ {} 0x01010101 1234 wOddSkip 1000).1 ≠ {} ∧ Quirk wOddSkip :=
  ⟨by decide, ne_of_servers_size (by decide),
    Quirk.oddSkip xid (.skip (ascii "junk") :: okItems) [] rfl (by decide) rfl (by decide) (by decide)⟩

/-- the registry after the (well-formed) report from 1.1.1.1 at clock 1000 -/
def stReg : AbsState := (dispatch ⟨3⟩ {} 0x01010101 1234 (0x03 :: (xid ++ okBody)) 1000).1

set_option maxRecDepth 20000 in
/-- **Witness 3 (keepalive with trailing bytes).** Six bytes: the strict decoder rejects, the handler refreshes
the server (`refreshedAt` 1000 → 2024). -/
example : decode? wKeepalive = none ∧ (dispatch ⟨3⟩ stReg 0x01010101 1234 wKeepalive 2024).1 ≠ stReg ∧ Quirk wKeepalive := by
  refine ⟨by decide, ?_, Quirk.keepaliveTrailer xid [0x00] rfl (by decide) rfl⟩
  intro e
  have h : ((dispatch ⟨3⟩ stReg 0x01010101 1234 wKeepalive 2024).1.servers[(⟨0x01010101, 10480⟩ : Addr).key]?).map (·.svr.refreshedAt)
      = (stReg.servers[(⟨0x01010101, 10480⟩ : Addr).key]?).map (·.svr.refreshedAt) := by rw [e]
  revert h
  decide

set_option maxRecDepth 20000 in
/-- the hypothesis of `reaches_implies_decodable` / `acts_as_wellformed` is satisfiable, by quirky and by strict datagrams -/
example : reachesUseCase 0x01010101 wUnterminated = true ∧ reachesUseCase 0x01010101 wOddSkip = true ∧
    reachesUseCase 0x01010101 wKeepalive = true ∧ reachesUseCase 0x01010101 (0x03 :: (xid ++ okBody)) = true := by
  refine ⟨?_, ?_, ?_, ?_⟩ <;> decide

set_option maxRecDepth 20000 in
/-- non-vacuity of the first disjunct: the well-formed report is accepted by the decoder and changes the state -/
example : (decode? (0x03 :: (xid ++ okBody))).map Msg.isHeartbeat = some true ∧
    (dispatch ⟨3⟩ {} 0x01010101 1234 (0x03 :: (xid ++ okBody)) 1000).1 ≠ {} :=
  ⟨by decide, ne_of_servers_size (by decide)⟩

/-! ## TCP: totality of the request parser -/

theorem slice?_isSome {b : Bytes} {lo hi : Nat} (h1 : lo ≤ hi) (h2 : hi ≤ b.length) : ∃ x, slice? b lo hi = some x := by
  unfold slice?
  rw [if_pos ⟨h1, h2⟩]
  exact ⟨_, rfl⟩

theorem be32?_isSome {b : Bytes} (h : b.length = 4) : ∃ n, be32? b = some n := by
  match b, h with
  | [x, y, z, w], _ => exact ⟨_, rfl⟩

theorem validateOptions_ne_panic (fields : List Bytes) (u : Bytes) : validateOptions fields u ≠ .panic := by
  unfold validateOptions
  split
  · intro h; cases h
  · rename_i hl
    have hl' : u.length = 4 := by
      by_cases h : u.length = 4
      · exact h
      · exact absurd h hl
    obtain ⟨n, hn⟩ := be32?_isSome hl'
    rw [hn]
    dsimp only
    split <;> (intro h; cases h)

theorem parseFields_ne_panic (u : Bytes) : parseFields u ≠ .panic := by
  unfold parseFields
  dsimp only
  split
  · intro h; cases h
  · split
    · intro h; cases h
    · rename_i hl
      have hl' : 1 ≤ (consume 0 u).1.length := by omega
      have h0 : ∃ c, (consume 0 u).1[0]? = some c := by
        cases hc : (consume 0 u).1 with
        | nil => rw [hc] at hl'; simp at hl'
        | cons c _ => exact ⟨c, rfl⟩
      obtain ⟨c, hc⟩ := h0
      rw [hc]
      dsimp only
      split
      · intro h; cases h
      · obtain ⟨fu, hfu⟩ := slice?_isSome (b := (consume 0 u).1) hl' (Nat.le_refl _)
        rw [hfu]
        dsimp only
        split
        · intro h; cases h
        · split
          · intro h; cases h
          · exact validateOptions_ne_panic _ _

theorem parseChallenge_ne_panic (u : Bytes) : parseChallenge u ≠ .panic := by
  unfold parseChallenge
  split
  · intro h; cases h
  · rename_i hl
    obtain ⟨a, ha⟩ := slice?_isSome (b := u) (lo := 0) (hi := 8) (by omega) (by omega)
    obtain ⟨c, hc⟩ := slice?_isSome (b := u) (lo := 8) (hi := u.length) (by omega) (Nat.le_refl _)
    rw [ha, hc]
    dsimp only
    unfold parseFilters
    split
    · intro h; cases h
    · exact parseFields_ne_panic _

theorem parse_ne_panic (u : Bytes) : parse u ≠ .panic := by
  unfold parse
  split
  · intro h; cases h
  · split
    · intro h; cases h
    · exact parseChallenge_ne_panic _

/-- the one fact the slice `data[9:dataLen]` needs about the generated constants -/
theorem facts_ok : 9 ≤ Facts.reporterTcpMinRequestLen ∧ Facts.reporterTcpMaxFields ≤ 255
    ∧ Facts.reporterMsgHeartbeat ≠ Facts.reporterMsgKeepalive := by decide

/-- **TCP totality (request parser).** For every byte string, `browsing.NewRequest` returns a request or an
error; none of its slice/index expressions (`data[:2]`, `data[9:dataLen]`, `unparsed[:8]`, `unparsed[8:]`,
`fields[0]`, `fields[1:]`, `Uint16`, `Uint32`) can fail, because of the length checks in front of them. -/
theorem tcp_total (b : Bytes) : newRequest b ≠ .panic := by
  unfold newRequest
  split
  · intro h; cases h
  · rename_i hl
    obtain ⟨hdr, hh⟩ := slice?_isSome (b := b) (lo := 0) (hi := 2) (by omega) (by omega)
    rw [hh]
    dsimp only
    have hlen : hdr.length = 2 := by
      unfold slice? at hh
      split at hh
      · cases hh; simp; omega
      · cases hh
    have h16 : ∃ n, be16? hdr = some n := by
      match hdr, hlen with
      | [x, y], _ => exact ⟨_, rfl⟩
    obtain ⟨n, hn⟩ := h16
    rw [hn]
    dsimp only
    split
    · intro h; cases h
    · rename_i hc
      have h9 := facts_ok.1
      obtain ⟨u, hu⟩ := slice?_isSome (b := b) (lo := 9) (hi := n) (by omega) (by omega)
      rw [hu]
      exact parse_ne_panic _

/-- the handler as a whole: whatever arrives on the connection (including nothing), no panic -/
theorem tcp_handle_total (p : Option Bytes) : handle p ≠ .panic := by
  unfold handle
  cases p with
  | none => intro h; cases h
  | some b =>
    dsimp only
    have := tcp_total b
    cases hn : newRequest b with
    | ok f => intro h; cases h
    | err => intro h; cases h
    | panic => exact absurd hn this

/-! ## UDP: totality with every index / slice expression checked (`Model/HeartbeatChecked.lean`)

`udp_total` above is about `Heartbeat.dispatch`, whose `ParseInstanceID` / `parseHeartbeatParams` are written with the
total `take` / `drop` / `cstrHead` / `cstrTail`: apart from `payload[0]` it cannot panic BY CONSTRUCTION.  The theorem
with content is about `HeartbeatChecked.dispatchChecked`, the transcription of the same Go path in which
`payload[0]`, `payload[1:5]`, `payload[5:]`, `unparsed[0]` (twice per round), `data[i]` / `data[:i]` / `data[i+1:]` of
`binutils.ConsumeString`, the six slice expressions and `PutUint16` of the reply, and `hextable[…]` / `dst[j]` /
`dst[j+1]` of `hex.Encode` are operations that CAN fail (`panic`) and the scanner loop runs on fuel (`hang`). -/

/-- **UDP totality, checked transcription.**  C06 clause "for every byte string received on the reporter UDP port the
service keeps running".  For every state, source, clock and NON-EMPTY datagram (`udpserver`'s `n > 0` guard), the
checked transcription of `Dispatcher.Handle` → `dispatch` → handler → reply construction returns normally — no index
or slice expression is out of range, the scanner loop ends within its fuel — with exactly the state and outcome of
`Heartbeat.dispatch`, and that outcome is a reply, silence or an error, not `panic`.  (On the empty datagram both
say `panic`: `udp_checked_panics_iff`, `udp_empty_panics`.) -/
theorem udp_never_panics_checked (cfg : Cfg) (st : AbsState) (srcIp srcPort : Nat) (b : Bytes) (hb : b ≠ []) (now : Int) :
    HeartbeatChecked.dispatchChecked cfg st srcIp srcPort b now = .ok (dispatch cfg st srcIp srcPort b now)
    ∧ (dispatch cfg st srcIp srcPort b now).2 ≠ .panic := by
  refine ⟨?_, udp_total cfg st srcIp srcPort b hb now⟩
  rw [HeartbeatChecked.dispatchChecked_eq]
  cases b with
  | nil => exact absurd rfl hb
  | cons t rest => rfl

/-- the checked transcription panics EXACTLY on the empty datagram (and never hangs: by `udp_never_panics_checked`
every other datagram is `.ok`) -/
theorem udp_checked_panics_iff (cfg : Cfg) (st : AbsState) (srcIp srcPort : Nat) (b : Bytes) (now : Int) :
    HeartbeatChecked.dispatchChecked cfg st srcIp srcPort b now = .panic ↔ b = [] := by
  rw [HeartbeatChecked.dispatchChecked_eq]
  cases b with
  | nil => simp
  | cons t rest => simp

set_option maxRecDepth 20000 in
/-- non-vacuity: on a concrete registration the checked transcription runs through the scanner, the use case and the
reply construction, and answers the 28-byte reply -/
example : HeartbeatChecked.dispatchChecked ⟨3⟩ {} 0x01010101 1234 (0x03 :: (xid ++ okBody)) 1000
      = .ok (dispatch ⟨3⟩ {} 0x01010101 1234 (0x03 :: (xid ++ okBody)) 1000)
    ∧ (dispatch ⟨3⟩ {} 0x01010101 1234 (0x03 :: (xid ++ okBody)) 1000).2 = .reply (heartbeatReply xid 0x01010101 1234)
    ∧ (heartbeatReply xid 0x01010101 1234).length = 28 :=
  ⟨(udp_never_panics_checked ⟨3⟩ {} 0x01010101 1234 (0x03 :: (xid ++ okBody)) (by simp) 1000).1, by decide, by decide⟩

/-! ## TCP: the whole handler pipeline (`Model/BrowserPipeline.lean`) -/

/-- the query `process` ends up with is C03's `browserQuery`; the checked parser neither panics nor hangs -/
theorem parseQuery_eq (filters : Bytes) : BrowserPipeline.parseQuery filters = .ok (Filter.browserQuery filters) := by
  unfold BrowserPipeline.parseQuery Filter.browserQuery
  split
  · rfl
  · rw [C03.filter_parse_never_panics]
    cases Filter.newFromString filters <;> rfl

/-- **TCP totality, whole pipeline.**  C06 clause "for every byte string received on the browser TCP port the service
keeps running, sends at most one reply".  For EVERY byte string read from the connection (in particular every one of
at most 2048 bytes, the size of the handler's read buffer) or a failed read, every requester, every behaviour of the
listing use case — any function from the parsed query to a list of selected servers or an error — and every 23
cipher header draws, the model of the whole of `browser.Handler.Handle` — `browsing.NewRequest` (checked, C01),
`query.NewFromString` (checked, C03), listing, `packServers` (checked, `packServersChecked_eq`), `crypt.Encrypt`
(fuelled, C02) — ends in exactly one reply or in a close without reply: never `panic`, never `hang`.  When it
replies, the filters used are C03's `browserQuery`, the plaintext is C01's `packServers` of the listing and the
reply is 23 bytes longer than it. -/
theorem tcp_pipeline_total (conn : Option Bytes) (client : Browsing.Client)
    (listing : List Filter.Filter → Option (List Browsing.Server)) (rnd : Crypt.Rnd) :
    BrowserPipeline.pipeline conn client listing rnd = .closed ∨
    ∃ payload req servers out, conn = some payload
      ∧ Browsing.parseRequest Browsing.Cfg.facts payload = .ok req
      ∧ listing (Filter.browserQuery req.filters) = some servers
      ∧ Crypt.encrypt? Browsing.gameKey req.challenge rnd (Browsing.packServers Browsing.Schema.facts client req.fields servers) = some out
      ∧ out.length = (Browsing.packServers Browsing.Schema.facts client req.fields servers).length + 23
      ∧ BrowserPipeline.pipeline conn client listing rnd = .reply out := by
  unfold BrowserPipeline.pipeline
  cases conn with
  | none => left; rfl
  | some payload =>
    dsimp only
    have hp := C01.parse_total payload
    cases hreq : Browsing.parseRequest Browsing.Cfg.facts payload with
    | error e => left; rfl
    | panic => exact absurd hreq hp.1
    | hang => exact absurd hreq hp.2
    | ok req =>
      dsimp only
      rw [parseQuery_eq]
      dsimp only
      cases hl : listing (Filter.browserQuery req.filters) with
      | none => left; rfl
      | some servers =>
        dsimp only
        rw [BrowserPipeline.packServersChecked_eq]
        dsimp only
        have he := C02.encrypt_total Browsing.gameKey req.challenge rnd
          (Browsing.packServers Browsing.Schema.facts client req.fields servers)
        cases henc : Crypt.encrypt? Browsing.gameKey req.challenge rnd
            (Browsing.packServers Browsing.Schema.facts client req.fields servers) with
        | none => rw [henc] at he; cases he
        | some out =>
          right
          exact ⟨payload, req, servers, out, rfl, hreq, hl, henc, C02.encrypt_length _ _ _ _ _ henc, rfl⟩

/-- `tcp_pipeline_total` in the form "neither of the two outcomes that must not happen" -/
theorem tcp_pipeline_never_panics (conn : Option Bytes) (client : Browsing.Client)
    (listing : List Filter.Filter → Option (List Browsing.Server)) (rnd : Crypt.Rnd) :
    BrowserPipeline.pipeline conn client listing rnd ≠ .panic ∧ BrowserPipeline.pipeline conn client listing rnd ≠ .hang := by
  rcases tcp_pipeline_total conn client listing rnd with h | ⟨_, _, _, out, _, _, _, _, _, h⟩ <;> rw [h] <;>
    exact ⟨(by intro c; cases c), (by intro c; cases c)⟩

/-- **The pipeline refines `handle`** (the request-parse-only model the differential TCP stream compares with the
code): with a listing that does not fail (healthy storage), the pipeline replies exactly when `handle` says `reply`,
and closes exactly when `handle` says `closed`.  Uses `BrowserReqBridge.newRequest_eq` (the C06 request model is the
outcome class of the C01 one). -/
theorem tcp_pipeline_refines_handle (conn : Option Bytes) (client : Browsing.Client)
    (listing : List Filter.Filter → Option (List Browsing.Server)) (hl : ∀ q, (listing q).isSome) (rnd : Crypt.Rnd) :
    ((∃ out, BrowserPipeline.pipeline conn client listing rnd = .reply out) ↔ ∃ fields, handle conn = .reply fields) ∧
    (BrowserPipeline.pipeline conn client listing rnd = .closed ↔ handle conn = .closed) := by
  rcases tcp_pipeline_total conn client listing rnd with h | ⟨payload, req, servers, out, hc, hreq, _, _, _, h⟩
  · -- closed: the request did not parse, or nothing was read (the listing cannot fail)
    rw [h]
    have hh : handle conn = .closed := by
      cases conn with
      | none => rfl
      | some payload =>
        unfold handle
        dsimp only
        rw [BrowserReqBridge.newRequest_eq]
        revert h
        unfold BrowserPipeline.pipeline
        dsimp only
        cases hreq : Browsing.parseRequest Browsing.Cfg.facts payload with
        | error e => intro _; rfl
        | panic => intro c; cases c
        | hang => intro c; cases c
        | ok req =>
          dsimp only
          rw [parseQuery_eq]
          dsimp only
          have := hl (Filter.browserQuery req.filters)
          cases hls : listing (Filter.browserQuery req.filters) with
          | none => rw [hls] at this; cases this
          | some servers =>
            dsimp only
            rw [BrowserPipeline.packServersChecked_eq]
            dsimp only
            cases Crypt.encrypt? Browsing.gameKey req.challenge rnd
              (Browsing.packServers Browsing.Schema.facts client req.fields servers) <;> (intro c; cases c)
    rw [hh]
    exact ⟨⟨fun ⟨_, c⟩ => (by cases c), fun ⟨_, c⟩ => (by cases c)⟩, ⟨fun _ => rfl, fun _ => rfl⟩⟩
  · rw [h]
    have hh : handle conn = .reply req.fields := by
      subst hc
      unfold handle
      dsimp only
      rw [BrowserReqBridge.newRequest_eq, hreq]
      rfl
    rw [hh]
    exact ⟨⟨fun _ => ⟨_, rfl⟩, fun _ => ⟨_, rfl⟩⟩, ⟨fun c => (by cases c), fun c => (by cases c)⟩⟩

/-- a well-formed list request asking for `hostname` and `gamever`, no filter -/
def okTcpRequest : Bytes :=
  [0, 49, 0, 1, 3, 0, 0, 0, 0] ++ Bytes.ofAscii "a" ++ [0] ++ Bytes.ofAscii "a" ++ [0] ++ [1, 2, 3, 4, 5, 6, 7, 8] ++ [0] ++
    Bytes.ofAscii "\\hostname\\ping\\gamever" ++ [0, 0, 0, 0, 1]

/-- non-vacuity of `tcp_pipeline_total`: both disjuncts occur — a well-formed request is answered by a reply (whatever
the listing and the cipher draws), a truncated one and a failed read by a close -/
example (client : Browsing.Client) (rnd : Crypt.Rnd) (servers : List Browsing.Server) :
    (∃ out, BrowserPipeline.pipeline (some okTcpRequest) client (fun _ => some servers) rnd = .reply out)
    ∧ BrowserPipeline.pipeline (some (okTcpRequest.take 30)) client (fun _ => some servers) rnd = .closed
    ∧ BrowserPipeline.pipeline none client (fun _ => some servers) rnd = .closed :=
  ⟨(tcp_pipeline_refines_handle _ client _ (fun _ => rfl) rnd).1.mpr ⟨[Bytes.ofAscii "hostname", Bytes.ofAscii "gamever"], by decide⟩,
   (tcp_pipeline_refines_handle _ client _ (fun _ => rfl) rnd).2.mpr (by decide), rfl⟩

/-- **Configuration wiring (regenerated fact).**  How configuration reaches the reporter and browser components: listen addresses, the UDP read buffer size, the TCP client timeout: every field of every
configuration literal in `cmd/swat4master` that concerns this property, with the source text of the value it is given
(`verifharness facts`, go/ast, on every run).  A command-line value wired to another field, a unit conversion or a
`max`/`min` slipped into one of these literals changes the generated list and breaks this theorem; the harness itself
drives these components through their real fx modules (DESIGN 10.8), this pins what the modules are given. -/
def configRows : List (String × String × String × String × String) :=
    [("components/browser/browser.go", "*command.Run", "Config", "ListenAddr", "c.BrowserListenAddr"),
     ("components/browser/browser.go", "*command.Run", "Config", "ClientTimeout", "c.BrowserClientTimeout"),
     ("components/reporter/reporter.go", "*command.Run", "Config", "ListenAddr", "c.ReporterListenAddr"),
     ("components/reporter/reporter.go", "*command.Run", "Config", "BufferSize", "c.ReporterBufferSize")]

theorem facts_config_wiring :
    (Facts.configWiring.filter fun r => configRows.contains r) = configRows ∧
    (Facts.configWiring.filter fun r => configRows.any fun c => c.1 == r.1 && c.2.1 == r.2.1 && c.2.2.1 == r.2.2.1 && c.2.2.2.1 == r.2.2.2.1) = configRows := by
  decide

/-! ## the socket layer in front of the dispatcher -/

/-- **no datagram can crash the UDP listener, socket layer included**: whatever arrives — any length, also none and
more than the buffer holds — the read loop (`UdpServer.deliver`) hands the dispatcher either nothing (an empty read,
which changes nothing and does not end the loop) or a non-empty prefix of the datagram, and on a non-empty payload the
dispatcher does not panic (`udp_total`).  The dispatcher's one panicking input, the empty payload
(`udp_empty_panics`), cannot reach it from the socket. -/
theorem udp_socket_never_panics (cfg : Cfg) (st : AbsState) (srcIp srcPort bufSize : Nat) (p : Bytes) (now : Int) :
    match UdpServer.deliver bufSize p with
    | none => True
    | some b => (dispatch cfg st srcIp srcPort b now).2 ≠ .panic := by
  cases h : UdpServer.deliver bufSize p with
  | none => trivial
  | some b => exact udp_total cfg st srcIp srcPort b (UdpServer.deliver_nonempty h) now

/-- what the dispatcher sees is a prefix of what was sent, and all of it when it fits — including a datagram of
exactly the buffer's size (a "truncated?" test `n ≥ len(buffer)` would drop those) -/
theorem udp_socket_delivers (bufSize : Nat) (p : Bytes) (hp : p ≠ []) (hn : p.length ≤ bufSize) :
    UdpServer.deliver bufSize p = some p := UdpServer.deliver_fits hp hn

example (x : UInt8) (rest : Bytes) (h : rest.length = 2047) : UdpServer.deliver 2048 (x :: rest) = some (x :: rest) :=
  UdpServer.deliver_fits (by simp) (by simp [h])

end Swat4.C06
