import Swat4.Lemmas.ReporterErr
import Swat4.Model.BrowserReq06
/-!
# C06 — No inbound bytes can crash a listener or change state unless well-formed

UDP half: `Heartbeat.dispatch` (the reporter dispatcher with its handlers and use cases).
TCP half: `BrowserReq06.newRequest` / `handle` (the browser request parser, outcome class only).
"Returns promptly" and "the process keeps running" are run-time facts, measured by the harness
(`udpsrv` stream), not theorems.
-/
namespace Swat4.C06
open Swat4 Swat4.Heartbeat Swat4.Rep Swat4.BrowserReq06

/-! ## UDP: totality -/

theorem finish_ne_panic (r : AbsState × Except UC.UErr Unit) (ok : Outcome) (h : ok ≠ .panic) :
    (finish r ok).2 ≠ .panic := by
  unfold finish
  cases r.2 with
  | ok _ => exact h
  | error _ => intro h'; cases h'

theorem handleHeartbeat_ne_panic (cfg : Cfg) (st : AbsState) (srcIp srcPort : Nat) (b : Bytes) (now : Int) :
    (handleHeartbeat cfg st srcIp srcPort b now).2 ≠ .panic := by
  unfold handleHeartbeat
  repeat' split
  all_goals first
    | (intro h; cases h; done)
    | (apply finish_ne_panic; intro h; cases h)

/-- **UDP totality.** For every state, source and NON-EMPTY datagram the dispatcher returns a reply, stays
silent or reports an error — it never panics.  `hb` is `udpserver`'s `n > 0` guard. -/
theorem udp_total (cfg : Cfg) (st : AbsState) (srcIp srcPort : Nat) (b : Bytes) (hb : b ≠ []) (now : Int) :
    (dispatch cfg st srcIp srcPort b now).2 ≠ .panic := by
  unfold dispatch
  cases b with
  | nil => exact absurd rfl hb
  | cons t rest =>
    dsimp only
    split
    · exact handleHeartbeat_ne_panic cfg st srcIp srcPort (t :: rest) now
    · split
      · unfold handleKeepalive
        split
        · intro h; cases h
        · apply finish_ne_panic; intro h; cases h
      · split
        · unfold handleChallenge
          split <;> (intro h; cases h)
        · split <;> (intro h; cases h)

/-- the guard is needed: on an empty payload `payload[0]` is out of range (observed on the real
dispatcher by the harness: `panic: runtime error: index out of range [0] with length 0`) -/
theorem udp_empty_panics (cfg : Cfg) (st : AbsState) (srcIp srcPort : Nat) (now : Int) :
    dispatch cfg st srcIp srcPort [] now = (st, .panic) := rfl

/-! ## at most one reply -/

/-- the datagrams written back for an outcome -/
def replies : Outcome → List Bytes
  | .reply b => [b]
  | _ => []

/-- **At most one reply per datagram** (`Dispatcher.Handle` writes `resp` once when it is non-nil) -/
theorem at_most_one_reply (cfg : Cfg) (st : AbsState) (srcIp srcPort : Nat) (b : Bytes) (now : Int) :
    (replies (dispatch cfg st srcIp srcPort b now).2).length ≤ 1 := by
  cases (dispatch cfg st srcIp srcPort b now).2 <;> simp [replies]

/-- TCP: the handler writes at most once -/
def tcpReplies : TcpOutcome → Nat
  | .reply _ => 1
  | _ => 0

theorem tcp_at_most_one_reply (p : Option Bytes) : tcpReplies (handle p) ≤ 1 := by
  cases handle p <;> simp [tcpReplies]

/-! ## malformed ⇒ no effect -/

theorem finish_err (r : AbsState × Except UC.UErr Unit) (ok : Outcome) (hok : ok ≠ .err) (h : (finish r ok).2 = .err) :
    ∃ e, r.2 = .error e := by
  unfold finish at h
  cases hr : r.2 with
  | ok _ => rw [hr] at h; exact absurd h hok
  | error e => exact ⟨e, rfl⟩

theorem handleHeartbeat_rejected (cfg : Cfg) (st : AbsState) (srcIp srcPort : Nat) (b : Bytes) (now : Int) :
    (handleHeartbeat cfg st srcIp srcPort b now).2 = .err → (handleHeartbeat cfg st srcIp srcPort b now).1 = st := by
  unfold handleHeartbeat
  cases parseInstanceID b with
  | none => intro _; rfl
  | some p =>
    obtain ⟨id, r⟩ := p
    dsimp only
    cases parseHeartbeatParams r with
    | none => intro _; rfl
    | some fields =>
      dsimp only
      by_cases hne : fields.isEmpty = true
      · rw [if_pos hne]; intro _; rfl
      · rw [if_neg hne]
        cases parseAddr srcIp fields with
        | none => intro _; rfl
        | some p =>
          obtain ⟨a, qp⟩ := p
          dsimp only
          by_cases hs : fields.get? kStatechanged = some [0x32]
          · rw [if_pos hs]
            intro h
            obtain ⟨e, he⟩ := finish_err _ _ (by intro h'; cases h') h
            exact remove_err _ _ _ _ e he
          · rw [if_neg hs]
            intro h
            obtain ⟨e, he⟩ := finish_err _ _ (by intro h'; cases h') h
            exact report_err _ _ _ _ _ e he

theorem handleKeepalive_rejected (st : AbsState) (srcIp : Nat) (b : Bytes) (now : Int) :
    (handleKeepalive st srcIp b now).2 = .err → (handleKeepalive st srcIp b now).1 = st := by
  unfold handleKeepalive
  cases parseInstanceID b with
  | none => intro _; rfl
  | some p =>
    dsimp only
    intro h
    obtain ⟨e, he⟩ := finish_err _ _ (by intro h'; cases h') h
    exact renew_err _ _ _ _ e he

/-- **A rejected datagram leaves the state unchanged.** Whenever the dispatcher's outcome is an error
(unknown message type, short datagram, scanner error, no reportable field, hostport/localport missing or
not numeric, address not acceptable, values that do not parse or validate, unknown or foreign instance,
server not found, …), registry, instance table and probe queue are exactly what they were. -/
theorem rejected_no_effect (cfg : Cfg) (st : AbsState) (srcIp srcPort : Nat) (b : Bytes) (now : Int)
    (h : (dispatch cfg st srcIp srcPort b now).2 = .err) : (dispatch cfg st srcIp srcPort b now).1 = st := by
  revert h
  unfold dispatch
  cases b with
  | nil => intro _; rfl
  | cons t rest =>
    dsimp only
    by_cases ht : t.toNat = Facts.reporterMsgHeartbeat
    · rw [if_pos ht]; exact handleHeartbeat_rejected cfg st srcIp srcPort (t :: rest) now
    · rw [if_neg ht]
      by_cases hk : t.toNat = Facts.reporterMsgKeepalive
      · rw [if_pos hk]; exact handleKeepalive_rejected st srcIp (t :: rest) now
      · rw [if_neg hk]
        intro _
        split
        · rfl
        · split <;> rfl

/-- a datagram that gets as far as a use case: a heartbeat (type 03) of at least 5 bytes whose body scans
to a non-empty field map from which the address derives (`hostport`/`localport` numeric, `hostport` in
1..65535, source IP acceptable), or a keepalive (type 08) of at least 5 bytes -/
def reachesUseCase (srcIp : Nat) (payload : Bytes) : Bool :=
  match payload with
  | [] => false
  | t :: _ =>
    if t.toNat = Facts.reporterMsgHeartbeat then
      match parseInstanceID payload with
      | none => false
      | some (_, rest) =>
        match parseHeartbeatParams rest with
        | none => false
        | some fields => !fields.isEmpty && (parseAddr srcIp fields).isSome
    else if t.toNat = Facts.reporterMsgKeepalive then (parseInstanceID payload).isSome
    else false

/-- `WellFormedMutating`: the datagram is a heartbeat, removal or keepalive that reaches its use case and
that the use case accepts (report: values parse and validate, query port valid for a new server;
removal: server present, instance present and owned by the sender's IP; keepalive: instance known, owned
by the sender's IP, its server present) -/
def WellFormedMutating (cfg : Cfg) (st : AbsState) (srcIp srcPort : Nat) (b : Bytes) (now : Int) : Prop :=
  reachesUseCase srcIp b = true ∧ (dispatch cfg st srcIp srcPort b now).2 ≠ .err

/-- a datagram that does not reach a use case changes nothing (whatever it is answered) -/
theorem unreached_no_effect (cfg : Cfg) (st : AbsState) (srcIp srcPort : Nat) (b : Bytes) (now : Int)
    (h : reachesUseCase srcIp b = false) : (dispatch cfg st srcIp srcPort b now).1 = st := by
  revert h
  unfold reachesUseCase dispatch
  cases b with
  | nil => intro _; rfl
  | cons t rest =>
    dsimp only
    by_cases ht : t.toNat = Facts.reporterMsgHeartbeat
    · rw [if_pos ht, if_pos ht]
      unfold handleHeartbeat
      cases parseInstanceID (t :: rest) with
      | none => intro _; rfl
      | some p =>
        obtain ⟨id, r⟩ := p
        dsimp only
        cases parseHeartbeatParams r with
        | none => intro _; rfl
        | some fields =>
          dsimp only
          by_cases hne : fields.isEmpty = true
          · rw [if_pos hne]; intro _; rfl
          · rw [if_neg hne]
            cases parseAddr srcIp fields with
            | none => intro _; rfl
            | some p =>
              intro h
              simp at h
              exact absurd (by simp [h]) hne
    · rw [if_neg ht, if_neg ht]
      by_cases hk : t.toNat = Facts.reporterMsgKeepalive
      · rw [if_pos hk, if_pos hk]
        unfold handleKeepalive
        cases parseInstanceID (t :: rest) with
        | none => intro _; rfl
        | some p => intro h; cases h
      · rw [if_neg hk, if_neg hk]
        intro _
        split
        · rfl
        · split <;> rfl

/-- **Malformed ⇒ no effect.** Unless the datagram is a well-formed mutating message, the state after it
is the state before it. -/
theorem malformed_no_effect (cfg : Cfg) (st : AbsState) (srcIp srcPort : Nat) (b : Bytes) (now : Int)
    (h : ¬ WellFormedMutating cfg st srcIp srcPort b now) : (dispatch cfg st srcIp srcPort b now).1 = st := by
  by_cases hr : reachesUseCase srcIp b = true
  · by_cases he : (dispatch cfg st srcIp srcPort b now).2 = .err
    · exact rejected_no_effect cfg st srcIp srcPort b now he
    · exact absurd ⟨hr, he⟩ h
  · exact unreached_no_effect cfg st srcIp srcPort b now (by simpa using hr)

/-- in particular challenge and availability requests never change the state -/
theorem only_heartbeat_keepalive_mutate (cfg : Cfg) (st : AbsState) (srcIp srcPort : Nat) (t : UInt8) (rest : Bytes) (now : Int)
    (h1 : t.toNat ≠ Facts.reporterMsgHeartbeat) (h2 : t.toNat ≠ Facts.reporterMsgKeepalive) :
    (dispatch cfg st srcIp srcPort (t :: rest) now).1 = st := by
  apply unreached_no_effect
  unfold reachesUseCase
  dsimp only
  rw [if_neg h1, if_neg h2]

/-! ## TCP: totality of the request parser -/

theorem slice?_isSome {b : Bytes} {lo hi : Nat} (h1 : lo ≤ hi) (h2 : hi ≤ b.length) : ∃ x, slice? b lo hi = some x := by
  unfold slice?
  rw [if_pos ⟨h1, h2⟩]
  exact ⟨_, rfl⟩

theorem be32?_isSome {b : Bytes} (h : b.length = 4) : ∃ n, be32? b = some n := by
  match b, h with
  | [x, y, z, w], _ => exact ⟨_, rfl⟩

theorem validateOptions_ne_panic (fields : List Bytes) (u : Bytes) : validateOptions fields u ≠ .panic := by
  unfold validateOptions
  split
  · intro h; cases h
  · rename_i hl
    have hl' : u.length = 4 := by
      by_cases h : u.length = 4
      · exact h
      · exact absurd h hl
    obtain ⟨n, hn⟩ := be32?_isSome hl'
    rw [hn]
    dsimp only
    split <;> (intro h; cases h)

theorem parseFields_ne_panic (u : Bytes) : parseFields u ≠ .panic := by
  unfold parseFields
  dsimp only
  split
  · intro h; cases h
  · split
    · intro h; cases h
    · rename_i hl
      have hl' : 1 ≤ (consume 0 u).1.length := by omega
      have h0 : ∃ c, (consume 0 u).1[0]? = some c := by
        cases hc : (consume 0 u).1 with
        | nil => rw [hc] at hl'; simp at hl'
        | cons c _ => exact ⟨c, rfl⟩
      obtain ⟨c, hc⟩ := h0
      rw [hc]
      dsimp only
      split
      · intro h; cases h
      · obtain ⟨fu, hfu⟩ := slice?_isSome (b := (consume 0 u).1) hl' (Nat.le_refl _)
        rw [hfu]
        dsimp only
        split
        · intro h; cases h
        · split
          · intro h; cases h
          · exact validateOptions_ne_panic _ _

theorem parseChallenge_ne_panic (u : Bytes) : parseChallenge u ≠ .panic := by
  unfold parseChallenge
  split
  · intro h; cases h
  · rename_i hl
    obtain ⟨a, ha⟩ := slice?_isSome (b := u) (lo := 0) (hi := 8) (by omega) (by omega)
    obtain ⟨c, hc⟩ := slice?_isSome (b := u) (lo := 8) (hi := u.length) (by omega) (Nat.le_refl _)
    rw [ha, hc]
    dsimp only
    unfold parseFilters
    split
    · intro h; cases h
    · exact parseFields_ne_panic _

theorem parse_ne_panic (u : Bytes) : parse u ≠ .panic := by
  unfold parse
  split
  · intro h; cases h
  · split
    · intro h; cases h
    · exact parseChallenge_ne_panic _

/-- the one fact the slice `data[9:dataLen]` needs about the generated constants -/
theorem facts_ok : 9 ≤ Facts.reporterTcpMinRequestLen ∧ Facts.reporterTcpMaxFields ≤ 255
    ∧ Facts.reporterMsgHeartbeat ≠ Facts.reporterMsgKeepalive := by decide

/-- **TCP totality (request parser).** For every byte string, `browsing.NewRequest` returns a request or an
error; none of its slice/index expressions (`data[:2]`, `data[9:dataLen]`, `unparsed[:8]`, `unparsed[8:]`,
`fields[0]`, `fields[1:]`, `Uint16`, `Uint32`) can fail, because of the length checks in front of them. -/
theorem tcp_total (b : Bytes) : newRequest b ≠ .panic := by
  unfold newRequest
  split
  · intro h; cases h
  · rename_i hl
    obtain ⟨hdr, hh⟩ := slice?_isSome (b := b) (lo := 0) (hi := 2) (by omega) (by omega)
    rw [hh]
    dsimp only
    have hlen : hdr.length = 2 := by
      unfold slice? at hh
      split at hh
      · cases hh; simp; omega
      · cases hh
    have h16 : ∃ n, be16? hdr = some n := by
      match hdr, hlen with
      | [x, y], _ => exact ⟨_, rfl⟩
    obtain ⟨n, hn⟩ := h16
    rw [hn]
    dsimp only
    split
    · intro h; cases h
    · rename_i hc
      have h9 := facts_ok.1
      obtain ⟨u, hu⟩ := slice?_isSome (b := b) (lo := 9) (hi := n) (by omega) (by omega)
      rw [hu]
      exact parse_ne_panic _

/-- the handler as a whole: whatever arrives on the connection (including nothing), no panic -/
theorem tcp_handle_total (p : Option Bytes) : handle p ≠ .panic := by
  unfold handle
  cases p with
  | none => intro h; cases h
  | some b =>
    dsimp only
    have := tcp_total b
    cases hn : newRequest b with
    | ok f => intro h; cases h
    | err => intro h; cases h
    | panic => exact absurd hn this

end Swat4.C06
