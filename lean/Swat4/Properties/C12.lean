import Swat4.Model.QueueSys
import Swat4.Properties.C10
/-!
# C12 — Every queued probe is delivered at most once, on time and in order

`QueueMachine.qstep` / `QueueSys` model `probes.enqueue` and `probes.PopMany` command by command.
-/
namespace Swat4.C12
open Swat4 Std

/-- a probe whose explicit ready time is not earlier than its expiry is never queued: the call issues no storage command at all -/
theorem never_queued (p : Probe) (a b : Int) (h : a ≥ b) : (QOp.enqueue p (some a) (some b)).begin = .done .unit := by
  simp [QOp.begin, h]

/-- an accepted enqueue is one atomic batch that writes the payload and the ordering entry under the same fresh id -/
theorem enqueue_one_batch (st : RStore) (clock : Int) (fresh : Nat) (p : Probe) (after before : GoTime) :
    (qstep st clock fresh (.enqueue p after before) .start).1 =
      st.enqueueBatch fresh p before (match after with | some a => a | none => clock) ∧
    (qstep st clock fresh (.enqueue p after before) .start).2.1 = .done .unit := by
  cases after <;> exact ⟨rfl, rfl⟩

/-- payload and ordering structures never leak entries: every command of every queue call keeps the key sets of
`probes:items` and `probes:queue` equal (instance of C10's invariant) -/
theorem no_leak (st : RStore) (clock : Int) (fresh : Nat) (op : QOp) (pc : QPC) (h : RStore.Consistent st) :
    ∀ id : Nat, id ∈ (qstep st clock fresh op pc).1.pQueue ↔ id ∈ (qstep st clock fresh op pc).1.pItems :=
  (C10.qstep_consistent h clock fresh op pc).prb

/-- a `PopMany` of a non-positive count returns at once with an empty batch -/
theorem pop_nonpositive (n : Int) (h : n ≤ 0) : (QOp.popMany n).begin = .done (.probes [] 0) := by
  simp [QOp.begin, h]

end Swat4.C12
