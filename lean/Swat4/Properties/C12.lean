import Swat4.Model.QueueSys
import Swat4.Properties.C10
import Swat4.Lemmas.QueueSys
/-!
# C12 — Every queued probe is delivered at most once, on time and in order

`QueueMachine.qstep` / `QueueSys` model `probes.enqueue` and `probes.PopMany` command by command.

The interleaving theorems quantify over **all** event lists `es` (any number of producers and consumers, any
interleaving of storage commands, clock ticks, deaths before / after a command) from any initial state `s0` with
`s0.Init` (consistent store, empty probe queue, clients that have popped nothing and — if already started — stand
at the first command of their call).  They are stated over `reach s0 es`, the state of the ghost-augmented system
`GSys` (Lemmas/QueueSys.lean): the validated model `QSys` plus a log of accepted enqueues (`GEnq`: id, client,
probe, expiry, ready time, clock) and a log of entries taken out of the store by pop batches (`GPop`: id, client,
probe, expiry, score, clock of the batch, returned / counted expired).  `ghost_faithful` shows that erasing the
logs gives exactly the model's run, `ghost_popped` that the model's own ghost field `QClient.popped` is the log's
projection, and `batch_is_log` that the value a `PopMany` returns is what the log says.
-/
namespace Swat4.C12
open Swat4 Std

/-- a probe whose explicit ready time is not earlier than its expiry is never queued: the call issues no storage command at all -/
theorem never_queued (p : Probe) (a b : Int) (h : a ≥ b) : (QOp.enqueue p (some a) (some b)).begin = .done .unit := by
  simp [QOp.begin, h]

/-- an accepted enqueue is one atomic batch that writes the payload and the ordering entry under the same fresh id -/
theorem enqueue_one_batch (st : RStore) (clock : Int) (fresh : Nat) (p : Probe) (after before : GoTime) :
    (qstep st clock fresh (.enqueue p after before) .start).1 =
      st.enqueueBatch fresh p before (match after with | some a => a | none => clock) ∧
    (qstep st clock fresh (.enqueue p after before) .start).2.1 = .done .unit := by
  cases after <;> exact ⟨rfl, rfl⟩

/-- payload and ordering structures never leak entries: every command of every queue call keeps the key sets of
`probes:items` and `probes:queue` equal (instance of C10's invariant) -/
theorem no_leak (st : RStore) (clock : Int) (fresh : Nat) (op : QOp) (pc : QPC) (h : RStore.Consistent st) :
    ∀ id : Nat, id ∈ (qstep st clock fresh op pc).1.pQueue ↔ id ∈ (qstep st clock fresh op pc).1.pItems :=
  (C10.qstep_consistent h clock fresh op pc).prb

/-- a `PopMany` of a non-positive count returns at once with an empty batch -/
theorem pop_nonpositive (n : Int) (h : n ≤ 0) : (QOp.popMany n).begin = .done (.probes [] 0) := by
  simp [QOp.begin, h]

/-! ## the ghost system is the model -/

/-- the ghost state reached from `s0` by the events `es` -/
abbrev reach (s0 : QSys) (es : List QSysEv) : GSys := (GSys.init s0).run es

/-- erasing the ghost logs of `reach s0 es` gives exactly the state the model (and the driver) computes by folding
`QSys.stepT` over `es` -/
theorem ghost_faithful (s0 : QSys) (es : List QSysEv) :
    (reach s0 es).sys = (es.foldl (fun (acc : QSys × List String) e => acc.1.stepT acc.2 e) (s0, [])).1 :=
  GSys.run_sys _ es []

/-- the model's own ghost field `popped` of every client is the projection of the pop log onto that client -/
theorem ghost_popped (s0 : QSys) (h0 : s0.Init) (es : List QSysEv) (i : Nat) (c : QClient)
    (hc : (reach s0 es).sys.clients[i]? = some c) : c.popped = poppedOf i (reach s0 es).pops :=
  (((GInv.init h0).run es).clients i c hc).popped

/-- what a `PopMany n` call holds at every pc, and returns when done, is exactly what the log says this consumer was
handed (`returned = true` records, in order) and the number it dropped as expired (`returned = false` records) -/
theorem batch_is_log (s0 : QSys) (h0 : s0.Init) (es : List QSysEv) (i : Nat) (c : QClient) (n : Int)
    (hc : (reach s0 es).sys.clients[i]? = some c) (hs : c.started = true) (hop : c.op = .popMany n) :
    match c.pc with
    | .popRange got e => got = retOf i (reach s0 es).pops ∧ e = expOf i (reach s0 es).pops
    | .popExec got e _ => got = retOf i (reach s0 es).pops ∧ e = expOf i (reach s0 es).pops
    | .done (.probes got e) => got = retOf i (reach s0 es).pops ∧ e = expOf i (reach s0 es).pops
    | _ => False := by
  have h := (((GInv.init h0).run es).clients i c hc).pc hs
  rw [hop] at h
  cases hpc : c.pc with
  | popRange got e => rw [hpc] at h; exact ⟨h.1, h.2.1⟩
  | popExec got e ids => rw [hpc] at h; exact ⟨h.1, h.2.1⟩
  | done r =>
    rw [hpc] at h
    cases r with
    | probes got e => exact ⟨h.1, h.2.1⟩
    | _ => exact h
  | _ => rw [hpc] at h; exact h

/-- the initial states the driver builds (`Drv/C12.lean`: empty store, any clock, any list of calls, each either not yet
started or standing at its first command with arrival clock = the system clock) are admissible: `Init` and the
arrival-clock hypothesis of `not_early` hold -/
theorem init_of_calls (clock : Int) (fresh : Nat) (calls : List (QOp × Bool)) :
    let s0 : QSys := { clock := clock, fresh := fresh, clients := calls.map fun (x : QOp × Bool) =>
      if x.2 then ({ op := x.1, pc := .start } : QClient) else ({ op := x.1, pc := x.1.begin, started := true, arrival := clock } : QClient) }
    s0.Init ∧ ∀ c ∈ s0.clients, c.started = true → c.arrival ≤ s0.clock := by
  intro s0
  refine ⟨⟨RStore.consistent_empty, fun id => by simp [s0], ?_⟩, ?_⟩
  · intro c hc
    obtain ⟨x, _, rfl⟩ := List.mem_map.1 hc
    by_cases hx : x.2 = true
    · rw [if_pos hx]; exact ⟨rfl, fun h => by cases h⟩
    · rw [if_neg hx]; exact ⟨rfl, fun _ => rfl⟩
  · intro c hc hs
    obtain ⟨x, _, rfl⟩ := List.mem_map.1 hc
    by_cases hx : x.2 = true
    · rw [if_pos hx] at hs; cases hs
    · rw [if_neg hx]; exact Int.le_refl _

/-! ## 1. ids -/

/-- ids are never reused: every id in `probes:items` / `probes:queue` is below the counter `fresh`; the `k`-th accepted
enqueue of the run got id `s0.fresh + k` (strictly increasing, all below the counter), and the counter has moved by
exactly the number of accepted enqueues -/
theorem ids_fresh (s0 : QSys) (h0 : s0.Init) (es : List QSysEv) :
    (∀ id : Nat, id ∈ (reach s0 es).sys.store.pItems → id < (reach s0 es).sys.fresh) ∧
    (∀ id : Nat, id ∈ (reach s0 es).sys.store.pQueue → id < (reach s0 es).sys.fresh) ∧
    (reach s0 es).sys.fresh = s0.fresh + (reach s0 es).enqs.length ∧
    (reach s0 es).enqs.map (·.id) = List.range' s0.fresh (reach s0 es).enqs.length := by
  have hG := (GInv.init h0).run es
  have hF := GFInv.run (f0 := s0.fresh) (GInv.init h0) ⟨rfl, rfl⟩ es
  exact ⟨hG.lt, fun id hid => hG.queueLt hid, hF.1, hF.2⟩

/-- one accepted enqueue: the batch writes both structures under the id `fresh` and the counter moves on, whatever
the store, the clock and the call's arguments -/
theorem enqueue_uses_fresh (st : RStore) (clock : Int) (fresh : Nat) (p : Probe) (after before : GoTime) :
    (qstep st clock fresh (.enqueue p after before) .start).1.pItems = st.pItems.insert fresh (p, before) ∧
    (∃ r, (qstep st clock fresh (.enqueue p after before) .start).1.pQueue = st.pQueue.insert fresh r) ∧
    (qstep st clock fresh (.enqueue p after before) .start).2.2.1 = true := by
  cases after <;> exact ⟨rfl, ⟨_, rfl⟩, rfl⟩

/-! ## 2. conservation, at most once -/

/-- **conservation**: at every reachable state the ids ever enqueued are exactly the ids still queued together with
the ids in the pop log (taken by some consumer: handed to it, counted as expired, or held when it died); no id is
both queued and popped; no id occurs twice in the pop log; no id was enqueued twice.  So every enqueued probe is in
exactly one place: the queue, or exactly one record of the pop log — which belongs to exactly one consumer
(`at_most_once`) and is reflected in that consumer's `popped` field (`ghost_popped`) -/
theorem conservation (s0 : QSys) (h0 : s0.Init) (es : List QSysEv) :
    (∀ id : Nat, id ∈ (reach s0 es).enqs.map (·.id) ↔
      (id ∈ (reach s0 es).sys.store.pQueue ∨ id ∈ (reach s0 es).pops.map (·.id))) ∧
    (∀ id : Nat, id ∈ (reach s0 es).pops.map (·.id) → id ∉ (reach s0 es).sys.store.pQueue) ∧
    ((reach s0 es).pops.map (·.id)).Nodup ∧
    ((reach s0 es).enqs.map (·.id)).Nodup := by
  have hG := (GInv.init h0).run es
  exact ⟨hG.cover, hG.popOut, hG.popNodup, hG.enqInc.imp (fun h => Nat.ne_of_lt h)⟩

/-- what is popped is what was enqueued: every pop record carries the probe, the expiry and (as its score) the
ready time of the enqueue record with the same id; and every entry still stored does too -/
theorem integrity (s0 : QSys) (h0 : s0.Init) (es : List QSysEv) :
    (∀ d ∈ (reach s0 es).pops, ∃ e ∈ (reach s0 es).enqs,
      e.id = d.id ∧ e.probe = d.probe ∧ e.expires = d.expires ∧ d.ready = some e.ready) ∧
    (∀ (id : Nat) (pe : Probe × GoTime) (r : Int),
      (reach s0 es).sys.store.pItems[id]? = some pe → (reach s0 es).sys.store.pQueue[id]? = some r →
      ∃ e ∈ (reach s0 es).enqs, e.id = id ∧ e.probe = pe.1 ∧ e.expires = pe.2 ∧ e.ready = r) := by
  have hG := (GInv.init h0).run es
  exact ⟨hG.popSrc, hG.src⟩

/-- **at most once**: two pop records with the same id are the same record — in particular the same consumer and the
same batch; an id is never handed to two consumers, nor twice to one -/
theorem at_most_once (s0 : QSys) (h0 : s0.Init) (es : List QSysEv) (d1 d2 : GPop)
    (h1 : d1 ∈ (reach s0 es).pops) (h2 : d2 ∈ (reach s0 es).pops) (hid : d1.id = d2.id) :
    d1 = d2 ∧ d1.client = d2.client := by
  have := eq_of_nodup_map ((GInv.init h0).run es).popNodup h1 h2 hid
  exact ⟨this, by rw [this]⟩

/-! ## 3. batch size -/

/-- a `PopMany n` call never holds more than `n` probes, at any pc; in particular the returned batch has at most `n`
entries (and is empty for `n ≤ 0`) -/
theorem batch_size (s0 : QSys) (h0 : s0.Init) (es : List QSysEv) (i : Nat) (c : QClient) (n : Int)
    (hc : (reach s0 es).sys.clients[i]? = some c) (hs : c.started = true) (hop : c.op = .popMany n) :
    match c.pc with
    | .popRange got _ => got.length ≤ n.toNat
    | .popExec got _ ids => got.length + ids.length ≤ n.toNat
    | .done (.probes ps _) => ps.length ≤ n.toNat
    | _ => False := by
  have h := (((GInv.init h0).run es).clients i c hc).pc hs
  rw [hop] at h
  cases hpc : c.pc with
  | popRange got e => rw [hpc] at h; exact Nat.le_of_lt h.2.2
  | popExec got e ids => rw [hpc] at h; exact h.2.2.2
  | done r =>
    rw [hpc] at h
    cases r with
    | probes got e => exact h.2.2
    | _ => exact h
  | _ => rw [hpc] at h; exact h

/-! ## 4./5. timing -/

/-- **not early** (clock monotone: every tick amount ≥ 0): every entry a consumer took out of the store had a ready
time — the one it was enqueued with — no later than the system clock at the moment of that pop batch -/
theorem not_early (s0 : QSys) (h0 : s0.Init) (harr : ∀ c ∈ s0.clients, c.started = true → c.arrival ≤ s0.clock)
    (es : List QSysEv) (hm : Monotone es) (d : GPop) (hd : d ∈ (reach s0 es).pops) :
    ∃ e ∈ (reach s0 es).enqs, e.id = d.id ∧ e.probe = d.probe ∧ d.ready = some e.ready ∧ e.ready ≤ d.clk := by
  have hG := (GInv.init h0).run es
  have hT := GTInv.run (GInv.init h0) (TInv.init h0 harr) es hm
  obtain ⟨e, he, h1, h2, _, h4⟩ := hG.popSrc d hd
  obtain ⟨r, h5, h6, _⟩ := hT.popT d hd
  rw [h4] at h5; cases h5
  exact ⟨e, he, h1, h2, h4, h6⟩

/-- **not late**: an entry that is handed to the consumer (`returned`, i.e. part of the batch by `batch_is_log`) has no
expiry or an expiry not before the clock at its pop batch; an entry with an earlier expiry is counted, not returned -/
theorem not_late (s0 : QSys) (h0 : s0.Init) (es : List QSysEv) (d : GPop) (hd : d ∈ (reach s0 es).pops) :
    (d.returned = true → d.expires = none ∨ ∃ x, d.expires = some x ∧ d.clk ≤ x) ∧
    (d.returned = false → ∃ x, d.expires = some x ∧ x < d.clk) := by
  have h := ((GInv.init h0).run es).popRet d hd
  rw [h]
  unfold expiredAt
  cases d.expires with
  | none => simp
  | some x => simp

/-! ## 6. no leak at every reachable state -/

/-- payload and ordering structures have the same key set (and the whole C10 invariant holds) in every state the
model reaches from a consistent store: after every prefix of every interleaving, whatever the clients' states -/
theorem no_leak_run (s0 : QSys) (h : RStore.Consistent s0.store) (es : List QSysEv) :
    RStore.Consistent (s0.run es).store ∧
    ∀ id : Nat, id ∈ (s0.run es).store.pQueue ↔ id ∈ (s0.run es).store.pItems :=
  ⟨QSys.run_consistent h es, (QSys.run_consistent h es).prb⟩

/-- … and after the driver's completion phase (`QSys.finish`: start every client, run the live ones round-robin) -/
theorem no_leak_finish (s0 : QSys) (h : RStore.Consistent s0.store) (es : List QSysEv) (fuel : Nat) :
    RStore.Consistent ((s0.run es).finish [] fuel).1.store :=
  QSys.finish_consistent (QSys.run_consistent h es) [] fuel

/-! ## the state the driver compares: after the completion phase -/

/-- erasing the logs of the ghost completion phase gives the model's `QSys.finish` (start every client, then run the
live ones round-robin), whatever the trace so far -/
theorem ghost_faithful_finish (s0 : QSys) (es : List QSysEv) (tr : List String) (fuel : Nat) :
    ((reach s0 es).finish fuel).sys = ((reach s0 es).sys.finish tr fuel).1 :=
  GSys.finish_sys _ tr fuel

/-- conservation, at-most-once, integrity, batch accounting and batch size also hold in the final state the driver
compares (events, then `finish`) -/
theorem conservation_final (s0 : QSys) (h0 : s0.Init) (es : List QSysEv) (fuel : Nat) :
    (∀ id : Nat, id ∈ ((reach s0 es).finish fuel).enqs.map (·.id) ↔
      (id ∈ ((reach s0 es).finish fuel).sys.store.pQueue ∨ id ∈ ((reach s0 es).finish fuel).pops.map (·.id))) ∧
    (∀ id : Nat, id ∈ ((reach s0 es).finish fuel).pops.map (·.id) → id ∉ ((reach s0 es).finish fuel).sys.store.pQueue) ∧
    (((reach s0 es).finish fuel).pops.map (·.id)).Nodup ∧
    (∀ d ∈ ((reach s0 es).finish fuel).pops, ∃ e ∈ ((reach s0 es).finish fuel).enqs,
      e.id = d.id ∧ e.probe = d.probe ∧ e.expires = d.expires ∧ d.ready = some e.ready) ∧
    (∀ (i : Nat) (c : QClient), ((reach s0 es).finish fuel).sys.clients[i]? = some c →
      c.popped = poppedOf i ((reach s0 es).finish fuel).pops ∧
      (c.started = true → PcOK c.op c.pc (retOf i ((reach s0 es).finish fuel).pops) (expOf i ((reach s0 es).finish fuel).pops))) := by
  have hG := ((GInv.init h0).run es).finish fuel
  exact ⟨hG.cover, hG.popOut, hG.popNodup, hG.popSrc, fun i c hc => ⟨(hG.clients i c hc).popped, (hG.clients i c hc).pc⟩⟩

/-- not-early / not-late in the final state the driver compares -/
theorem timing_final (s0 : QSys) (h0 : s0.Init) (harr : ∀ c ∈ s0.clients, c.started = true → c.arrival ≤ s0.clock)
    (es : List QSysEv) (hm : Monotone es) (fuel : Nat) (d : GPop) (hd : d ∈ ((reach s0 es).finish fuel).pops) :
    (∃ r, d.ready = some r ∧ r ≤ d.clk) ∧
    (d.returned = true → d.expires = none ∨ ∃ x, d.expires = some x ∧ d.clk ≤ x) := by
  have hG := ((GInv.init h0).run es).finish fuel
  have hT := GTInv.finish ((GInv.init h0).run es) (GTInv.run (GInv.init h0) (TInv.init h0 harr) es hm) fuel
  obtain ⟨r, h5, h6, _⟩ := hT.popT d hd
  refine ⟨⟨r, h5, h6⟩, ?_⟩
  rw [hG.popRet d hd]
  unfold expiredAt
  cases d.expires with
  | none => simp
  | some x => simp

/-! ## 7./8. batch order -/

/-- the returned batch of consumer `i` is in ready-time order (stated on the pop records that make up the batch, see `batch_is_log`) -/
def SortedBatch (g : GSys) (i : Nat) : Prop :=
  (g.pops.filter fun d => d.client == i && d.returned).Pairwise fun a b => ∃ ra rb, a.ready = some ra ∧ b.ready = some rb ∧ ra ≤ rb

/- FULL STATEMENT (false of the model and of the code, see `batch_unsorted_witness`):
theorem batch_sorted (s0 : QSys) (h0 : s0.Init) (es : List QSysEv) (i : Nat) : SortedBatch (reach s0 es) i
-/

/-- **batch order, sequential side condition** (the `_partial` of `batch_sorted`; extra hypothesis `hno`): split the run
as `es1 ++ es2` such that consumer `i`'s call lies within `es2` (after `es1` it has popped nothing and is not between a
`ZRANGEBYSCORE` and its batch).  If no enqueue executes during `es2` (the enqueue log does not grow) — other consumers,
ticks of either sign and deaths are allowed — the batch consumer `i` holds / returns is in ready-time order.
What is missing for the full statement is false: see `batch_unsorted_witness` -/
theorem batch_sorted_seq (s0 : QSys) (h0 : s0.Init) (es1 es2 : List QSysEv) (i : Nat)
    (hfresh : ∀ d ∈ (reach s0 es1).pops, d.client ≠ i)
    (hnot : ∀ c got e ids, (reach s0 es1).sys.clients[i]? = some c → c.started = true → c.pc ≠ .popExec got e ids)
    (hno : (reach s0 (es1 ++ es2)).enqs.length = (reach s0 es1).enqs.length) :
    SortedBatch (reach s0 (es1 ++ es2)) i := by
  have hG1 := (GInv.init h0).run es1
  have h1 : SeqInv (reach s0 es1).enqs.length i (reach s0 es1) :=
    ⟨hG1, Nat.le_refl _, fun _ => SInv.ofFresh hfresh hnot⟩
  have h2 := h1.run es2
  have hr : reach s0 (es1 ++ es2) = (reach s0 es1).run es2 := GSys.run_append _ _ _
  rw [hr] at hno ⊢
  exact (h2.2.2 (Nat.le_of_eq hno)).batch h2.1

/-- **batch order, concurrent side condition** (the stronger `_partial`; extra hypotheses `hm`, `hlate`): as
`batch_sorted_seq`, but enqueues may execute during the call provided each of them has a ready time that is not
before the system clock at the moment its batch executes (every producer in the repository: `ready ≥ now`), and the
clock is monotone.  A late enqueue with a past ready time is exactly what `batch_unsorted_witness` uses -/
theorem batch_sorted_conc (s0 : QSys) (h0 : s0.Init) (harr : ∀ c ∈ s0.clients, c.started = true → c.arrival ≤ s0.clock)
    (es1 es2 : List QSysEv) (hm : Monotone (es1 ++ es2)) (i : Nat)
    (hfresh : ∀ d ∈ (reach s0 es1).pops, d.client ≠ i)
    (hnot : ∀ c got e ids, (reach s0 es1).sys.clients[i]? = some c → c.started = true → c.pc ≠ .popExec got e ids)
    (hlate : ∀ (k : Nat) (e : GEnq), (reach s0 es1).enqs.length ≤ k → (reach s0 (es1 ++ es2)).enqs[k]? = some e → e.clk ≤ e.ready) :
    SortedBatch (reach s0 (es1 ++ es2)) i := by
  have hm1 : Monotone es1 := fun e he => hm e (List.mem_append.2 (Or.inl he))
  have hm2 : Monotone es2 := fun e he => hm e (List.mem_append.2 (Or.inr he))
  have hG1 := (GInv.init h0).run es1
  have hT1 := GTInv.run (GInv.init h0) (TInv.init h0 harr) es1 hm1
  have h1 : ConcInv (reach s0 es1).enqs.length i (reach s0 es1) :=
    ⟨hG1, hT1, Nat.le_refl _, fun _ => SInv.ofFresh hfresh hnot⟩
  have h2 := h1.run es2 hm2
  have hr : reach s0 (es1 ++ es2) = (reach s0 es1).run es2 := GSys.run_append _ _ _
  rw [hr] at hlate ⊢
  exact (h2.2.2.2 hlate).batch h2.1

def wp1 : Probe := ⟨⟨1, 10481⟩, 10481, .details, 0, 3⟩
def wp2 : Probe := ⟨⟨2, 10482⟩, 10482, .details, 0, 3⟩

/-- clock 100; producer 0 enqueues `wp1` ready at 50; consumer 1 is a `PopMany 2`; producer 2 enqueues `wp2` with a ready
time (10) that is already in the past -/
def witness : QSys :=
  { clock := 100
    clients := [{ op := .enqueue wp1 (some 50) none, pc := .start },
                { op := .popMany 2, pc := .start },
                { op := .enqueue wp2 (some 10) none, pc := .start }] }

/-- producer 0 runs; the consumer issues its first `ZRANGEBYSCORE` (sees only `wp1`); producer 2 runs; the consumer runs to
completion: pops `wp1`, needs one more, second round finds `wp2` -/
def witnessEvents : List QSysEv := [.run 0, .step 1, .run 2, .run 1]

theorem witness_init : witness.Init := by
  refine ⟨RStore.consistent_empty, fun id => by simp [witness], ?_⟩
  intro c hc
  simp only [witness, List.mem_cons, List.not_mem_nil, or_false] at hc
  rcases hc with rfl | rfl | rfl <;> exact ⟨rfl, fun h => by cases h⟩

set_option maxRecDepth 100000 in
theorem witness_pops : (reach witness witnessEvents).pops =
    [⟨0, 1, wp1, none, some 50, 100, true⟩, ⟨1, 1, wp2, none, some 10, 100, true⟩] := by rfl

set_option maxRecDepth 100000 in
theorem batch_unsorted_witness :
    witness.Init ∧
    ((witness.run witnessEvents).clients[1]?).map (·.pc) = some (.done (.probes [wp1, wp2] 0)) ∧
    ((reach witness witnessEvents).enqs.map fun e => (e.id, e.probe, e.ready, e.clk)) = [(0, wp1, 50, 100), (1, wp2, 10, 100)] ∧
    ¬ SortedBatch (reach witness witnessEvents) 1 := by
  refine ⟨witness_init, by rfl, by rfl, ?_⟩
  unfold SortedBatch
  rw [witness_pops]
  simp [List.filter]

set_option maxRecDepth 100000 in
/-- non-vacuity of the hypotheses of `batch_sorted_seq` / `batch_sorted_conc`: on the witness system, with the late producer
left out of the schedule (`es1` = producer 0 runs, `es2` = the consumer runs), all hypotheses hold and the consumer returns `[wp1]` -/
example :
    SortedBatch (reach witness ([.run 0] ++ [.run 1])) 1 ∧
    (((reach witness ([.run 0] ++ [.run 1])).sys.clients[1]?).map (·.pc)) = some (.done (.probes [wp1] 0)) := by
  refine ⟨batch_sorted_seq witness witness_init [.run 0] [.run 1] 1 ?_ ?_ (by rfl), by rfl⟩
  · have : (reach witness [.run 0]).pops = [] := by rfl
    rw [this]; intro d hd; cases hd
  · intro c got e ids hc hs
    have : ((reach witness [.run 0]).sys.clients[1]?) = some { op := .popMany 2, pc := .start } := by rfl
    rw [this] at hc
    cases hc
    cases hs

set_option maxRecDepth 100000 in
/-- the witness schedule violates exactly the side condition of `batch_sorted_conc`: the second enqueue executes at clock 100
with ready time 10 -/
example : ¬ (∀ (k : Nat) (e : GEnq), (reach witness [.run 0, .step 1]).enqs.length ≤ k →
    (reach witness ([.run 0, .step 1] ++ [.run 2, .run 1])).enqs[k]? = some e → e.clk ≤ e.ready) := by
  intro h
  have := h 1 ⟨1, 2, wp2, none, 10, 100⟩ (by decide) (by rfl)
  exact absurd this (by decide)

end Swat4.C12
