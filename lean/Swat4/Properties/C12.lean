import Swat4.Lemmas.FactsExtra12
import Swat4.Gen.Facts
import Swat4.Model.QueueSys
import Swat4.Properties.C10
import Swat4.Lemmas.QueueSys
import Swat4.Lemmas.QueueDeliver
import Swat4.Lemmas.QueuePopBound
import Swat4.Lemmas.QueueEnqOwner
/-!
# C12 — Every queued probe is delivered at most once, on time and in order

`QueueMachine.qstep` / `QueueSys` model `probes.enqueue` and `probes.PopMany` command by command: rounds of
`ZRANGEBYSCORE … WITHSCORES` + `MULTI{ZREM,HMGET,HDEL}`; every fetched item keeps the score it was ranged with, and the
items of all rounds are stably sorted by that score before the call returns (`finishBatch`).

The interleaving theorems quantify over **all** event lists `es` (any number of producers and consumers, any
interleaving of storage commands, clock ticks, deaths before / after a command) from any initial state `s0` with
`s0.Init` (consistent store, empty probe queue, clients that have popped nothing and — if already started — stand
at the first command of their call).  They are stated over `reach s0 es`, the state of the ghost-augmented system
`GSys` (Lemmas/QueueSys.lean): the validated model `QSys` plus a log of accepted enqueues (`GEnq`: id, client,
probe, expiry, ready time, clock) and a log of entries taken out of the store by pop batches (`GPop`: id, client,
probe, expiry, score, clock of the batch, returned / counted expired).  `ghost_faithful` shows that erasing the
logs gives exactly the model's run, `ghost_popped` that the model's own ghost field `QClient.popped` is the log's
projection, and `batch_is_log` that what a `PopMany` holds is what the log says, and what it returns is the log's batch
records stably sorted by score.

"Each batch is ordered by ready time" is `batch_sorted_all` (section 7/8): every interleaving, no side condition.

"At most one consumer" is `at_most_once` / `handed_at_most_one`; "exactly one if it has not expired and no consumer dies
while holding it" is `delivered_if_live` (section 9), with `lost_if_dies` showing that the death hypothesis is needed.
-/
namespace Swat4.C12
open Swat4 Std

/-- a probe whose explicit ready time is not earlier than its expiry is never queued: the call issues no storage command at all -/
theorem never_queued (p : Probe) (a b : Int) (h : a ≥ b) : (QOp.enqueue p (some a) (some b)).begin = .done .unit := by
  simp [QOp.begin, h]

/-- an accepted enqueue is one atomic batch that writes the payload and the ordering entry under the same fresh id -/
theorem enqueue_one_batch (st : RStore) (clock : Int) (fresh : Nat) (p : Probe) (after before : GoTime) :
    (qstep st clock fresh (.enqueue p after before) .start).1 =
      st.enqueueBatch fresh p before (match after with | some a => a | none => clock) ∧
    (qstep st clock fresh (.enqueue p after before) .start).2.1 = .done .unit := by
  cases after <;> exact ⟨rfl, rfl⟩

/-- payload and ordering structures never leak entries: every command of every queue call keeps the key sets of
`probes:items` and `probes:queue` equal (instance of C10's invariant) -/
theorem no_leak (st : RStore) (clock : Int) (fresh : Nat) (op : QOp) (pc : QPC) (h : RStore.Consistent st) :
    ∀ id : Nat, id ∈ (qstep st clock fresh op pc).1.pQueue ↔ id ∈ (qstep st clock fresh op pc).1.pItems :=
  (C10.qstep_consistent h clock fresh op pc).prb

/-- a `PopMany` of a non-positive count returns at once with an empty batch -/
theorem pop_nonpositive (n : Int) (h : n ≤ 0) : (QOp.popMany n).begin = .done (.probes [] 0) := by
  simp [QOp.begin, h]

/-! ## the ghost system is the model -/

/-- the ghost state reached from `s0` by the events `es` -/
abbrev reach (s0 : QSys) (es : List QSysEv) : GSys := (GSys.init s0).run es

/-- erasing the ghost logs of `reach s0 es` gives exactly the state the model (and the driver) computes by folding
`QSys.stepT` over `es` -/
theorem ghost_faithful (s0 : QSys) (es : List QSysEv) :
    (reach s0 es).sys = (es.foldl (fun (acc : QSys × List String) e => acc.1.stepT acc.2 e) (s0, [])).1 :=
  GSys.run_sys _ es []

/-- the model's own ghost field `popped` of every client is the projection of the pop log onto that client -/
theorem ghost_popped (s0 : QSys) (h0 : s0.Init) (es : List QSysEv) (i : Nat) (c : QClient)
    (hc : (reach s0 es).sys.clients[i]? = some c) : c.popped = poppedOf i (reach s0 es).pops :=
  (((GInv.init h0).run es).clients i c hc).popped

/-- what a `PopMany n` call holds at every pc is exactly what the log says this consumer was handed (`returned = true`
records, in fetch order: payloads `retOf`, with scores `retS`) and the number it dropped as expired (`returned = false`
records); what it returns when done is the payload list of its batch records stably sorted by score — a rearrangement of
`retOf` (same payloads, same multiplicities) -/
theorem batch_is_log (s0 : QSys) (h0 : s0.Init) (es : List QSysEv) (i : Nat) (c : QClient) (n : Int)
    (hc : (reach s0 es).sys.clients[i]? = some c) (hs : c.started = true) (hop : c.op = .popMany n) :
    match c.pc with
    | .popRange got e => got = retS i (reach s0 es).pops ∧ got.map (·.1) = retOf i (reach s0 es).pops ∧ e = expOf i (reach s0 es).pops
    | .popExec got e _ _ => got = retS i (reach s0 es).pops ∧ got.map (·.1) = retOf i (reach s0 es).pops ∧ e = expOf i (reach s0 es).pops
    | .done (.probes ps e) =>
      ps = (sortByScore GPop.score (batchRecs i (reach s0 es).pops)).map (·.probe) ∧
      ps.Perm (retOf i (reach s0 es).pops) ∧ e = expOf i (reach s0 es).pops
    | _ => False := by
  have hG := (GInv.init h0).run es
  have h := (hG.clients i c hc).pc hs
  rw [hop] at h
  cases hpc : c.pc with
  | popRange got e => rw [hpc] at h; exact ⟨h.1, by rw [h.1, retS_fst], h.2.1⟩
  | popExec got e ids scs => rw [hpc] at h; exact ⟨h.1, by rw [h.1, retS_fst], h.2.1⟩
  | done r =>
    rw [hpc] at h
    cases r with
    | probes ps e => exact ⟨(hG.done_batch hc hs hop hpc).1, hG.batch_perm hc hs hop hpc, h.2.1⟩
    | _ => exact h
  | _ => rw [hpc] at h; exact h

/-- the initial states the driver builds (`Drv/C12.lean`: empty store, any clock, any list of calls, each either not yet
started or standing at its first command with arrival clock = the system clock) are admissible: `Init` and the
arrival-clock hypothesis of `not_early` hold -/
theorem init_of_calls (clock : Int) (fresh : Nat) (calls : List (QOp × Bool)) :
    let s0 : QSys := { clock := clock, fresh := fresh, clients := calls.map fun (x : QOp × Bool) =>
      if x.2 then ({ op := x.1, pc := .start } : QClient) else ({ op := x.1, pc := x.1.begin, started := true, arrival := clock } : QClient) }
    s0.Init ∧ ∀ c ∈ s0.clients, c.started = true → c.arrival ≤ s0.clock := by
  intro s0
  refine ⟨⟨RStore.consistent_empty, fun id => by simp [s0], ?_⟩, ?_⟩
  · intro c hc
    obtain ⟨x, _, rfl⟩ := List.mem_map.1 hc
    by_cases hx : x.2 = true
    · rw [if_pos hx]; exact ⟨rfl, fun h => by cases h⟩
    · rw [if_neg hx]; exact ⟨rfl, fun _ => rfl⟩
  · intro c hc hs
    obtain ⟨x, _, rfl⟩ := List.mem_map.1 hc
    by_cases hx : x.2 = true
    · rw [if_pos hx] at hs; cases hs
    · rw [if_neg hx]; exact Int.le_refl _

/-! ## 1. ids -/

/-- ids are never reused: every id in `probes:items` / `probes:queue` is below the counter `fresh`; the `k`-th accepted
enqueue of the run got id `s0.fresh + k` (strictly increasing, all below the counter), and the counter has moved by
exactly the number of accepted enqueues -/
theorem ids_fresh (s0 : QSys) (h0 : s0.Init) (es : List QSysEv) :
    (∀ id : Nat, id ∈ (reach s0 es).sys.store.pItems → id < (reach s0 es).sys.fresh) ∧
    (∀ id : Nat, id ∈ (reach s0 es).sys.store.pQueue → id < (reach s0 es).sys.fresh) ∧
    (reach s0 es).sys.fresh = s0.fresh + (reach s0 es).enqs.length ∧
    (reach s0 es).enqs.map (·.id) = List.range' s0.fresh (reach s0 es).enqs.length := by
  have hG := (GInv.init h0).run es
  have hF := GFInv.run (f0 := s0.fresh) (GInv.init h0) ⟨rfl, rfl⟩ es
  exact ⟨hG.lt, fun id hid => hG.queueLt hid, hF.1, hF.2⟩

/-- one accepted enqueue: the batch writes both structures under the id `fresh` and the counter moves on, whatever
the store, the clock and the call's arguments -/
theorem enqueue_uses_fresh (st : RStore) (clock : Int) (fresh : Nat) (p : Probe) (after before : GoTime) :
    (qstep st clock fresh (.enqueue p after before) .start).1.pItems = st.pItems.insert fresh (p, before) ∧
    (∃ r, (qstep st clock fresh (.enqueue p after before) .start).1.pQueue = st.pQueue.insert fresh r) ∧
    (qstep st clock fresh (.enqueue p after before) .start).2.2.1 = true := by
  cases after <;> exact ⟨rfl, ⟨_, rfl⟩, rfl⟩

/-! ## 2. conservation, at most once -/

/-- **conservation**: at every reachable state the ids ever enqueued are exactly the ids still queued together with
the ids in the pop log (taken by some consumer: handed to it, counted as expired, or held when it died); no id is
both queued and popped; no id occurs twice in the pop log; no id was enqueued twice.  So every enqueued probe is in
exactly one place: the queue, or exactly one record of the pop log — which belongs to exactly one consumer
(`at_most_once`) and is reflected in that consumer's `popped` field (`ghost_popped`) -/
theorem conservation (s0 : QSys) (h0 : s0.Init) (es : List QSysEv) :
    (∀ id : Nat, id ∈ (reach s0 es).enqs.map (·.id) ↔
      (id ∈ (reach s0 es).sys.store.pQueue ∨ id ∈ (reach s0 es).pops.map (·.id))) ∧
    (∀ id : Nat, id ∈ (reach s0 es).pops.map (·.id) → id ∉ (reach s0 es).sys.store.pQueue) ∧
    ((reach s0 es).pops.map (·.id)).Nodup ∧
    ((reach s0 es).enqs.map (·.id)).Nodup := by
  have hG := (GInv.init h0).run es
  exact ⟨hG.cover, hG.popOut, hG.popNodup, hG.enqInc.imp (fun h => Nat.ne_of_lt h)⟩

/-- what is popped is what was enqueued: every pop record carries the probe, the expiry and (as its score) the
ready time of the enqueue record with the same id; and every entry still stored does too -/
theorem integrity (s0 : QSys) (h0 : s0.Init) (es : List QSysEv) :
    (∀ d ∈ (reach s0 es).pops, ∃ e ∈ (reach s0 es).enqs,
      e.id = d.id ∧ e.probe = d.probe ∧ e.expires = d.expires ∧ d.ready = some e.ready) ∧
    (∀ (id : Nat) (pe : Probe × GoTime) (r : Int),
      (reach s0 es).sys.store.pItems[id]? = some pe → (reach s0 es).sys.store.pQueue[id]? = some r →
      ∃ e ∈ (reach s0 es).enqs, e.id = id ∧ e.probe = pe.1 ∧ e.expires = pe.2 ∧ e.ready = r) := by
  have hG := (GInv.init h0).run es
  exact ⟨hG.popSrc, hG.src⟩

/-- **at most once**: two pop records with the same id are the same record — in particular the same consumer and the
same batch; an id is never handed to two consumers, nor twice to one -/
theorem at_most_once (s0 : QSys) (h0 : s0.Init) (es : List QSysEv) (d1 d2 : GPop)
    (h1 : d1 ∈ (reach s0 es).pops) (h2 : d2 ∈ (reach s0 es).pops) (hid : d1.id = d2.id) :
    d1 = d2 ∧ d1.client = d2.client := by
  have := eq_of_nodup_map ((GInv.init h0).run es).popNodup h1 h2 hid
  exact ⟨this, by rw [this]⟩

/-! ## 3. batch size -/

/-- a `PopMany n` call never holds more than `n` probes, at any pc; in particular the returned batch has at most `n`
entries (and is empty for `n ≤ 0`) -/
theorem batch_size (s0 : QSys) (h0 : s0.Init) (es : List QSysEv) (i : Nat) (c : QClient) (n : Int)
    (hc : (reach s0 es).sys.clients[i]? = some c) (hs : c.started = true) (hop : c.op = .popMany n) :
    match c.pc with
    | .popRange got _ => got.length ≤ n.toNat
    | .popExec got _ ids _ => got.length + ids.length ≤ n.toNat
    | .done (.probes ps _) => ps.length ≤ n.toNat
    | _ => False := by
  have h := (((GInv.init h0).run es).clients i c hc).pc hs
  rw [hop] at h
  cases hpc : c.pc with
  | popRange got e => rw [hpc] at h; exact Nat.le_of_lt h.2.2
  | popExec got e ids scs => rw [hpc] at h; exact h.2.2.2.1
  | done r =>
    rw [hpc] at h
    cases r with
    | probes got e => exact h.2.2
    | _ => exact h
  | _ => rw [hpc] at h; exact h

/-! ## 4./5. timing -/

/-- **not early** (clock monotone: every tick amount ≥ 0): every entry a consumer took out of the store had a ready
time — the one it was enqueued with — no later than the system clock at the moment of that pop batch -/
theorem not_early (s0 : QSys) (h0 : s0.Init) (harr : ∀ c ∈ s0.clients, c.started = true → c.arrival ≤ s0.clock)
    (es : List QSysEv) (hm : Monotone es) (d : GPop) (hd : d ∈ (reach s0 es).pops) :
    ∃ e ∈ (reach s0 es).enqs, e.id = d.id ∧ e.probe = d.probe ∧ d.ready = some e.ready ∧ e.ready ≤ d.clk := by
  have hG := (GInv.init h0).run es
  have hT := GTInv.run (GInv.init h0) (TInv.init h0 harr) es hm
  obtain ⟨e, he, h1, h2, _, h4⟩ := hG.popSrc d hd
  obtain ⟨r, h5, h6, _⟩ := hT.popT d hd
  rw [h4] at h5; cases h5
  exact ⟨e, he, h1, h2, h4, h6⟩

/-- **not late**: an entry that is handed to the consumer (`returned`, i.e. part of the batch by `batch_is_log`) has no
expiry or an expiry not before the clock at its pop batch; an entry with an earlier expiry is counted, not returned -/
theorem not_late (s0 : QSys) (h0 : s0.Init) (es : List QSysEv) (d : GPop) (hd : d ∈ (reach s0 es).pops) :
    (d.returned = true → d.expires = none ∨ ∃ x, d.expires = some x ∧ d.clk ≤ x) ∧
    (d.returned = false → ∃ x, d.expires = some x ∧ x < d.clk) := by
  have h := ((GInv.init h0).run es).popRet d hd
  rw [h]
  unfold expiredAt
  cases d.expires with
  | none => simp
  | some x => simp

/-! ## 6. no leak at every reachable state -/

/-- payload and ordering structures have the same key set (and the whole C10 invariant holds) in every state the
model reaches from a consistent store: after every prefix of every interleaving, whatever the clients' states -/
theorem no_leak_run (s0 : QSys) (h : RStore.Consistent s0.store) (es : List QSysEv) :
    RStore.Consistent (s0.run es).store ∧
    ∀ id : Nat, id ∈ (s0.run es).store.pQueue ↔ id ∈ (s0.run es).store.pItems :=
  ⟨QSys.run_consistent h es, (QSys.run_consistent h es).prb⟩

/-- … and after the driver's completion phase (`QSys.finish`: start every client, run the live ones round-robin) -/
theorem no_leak_finish (s0 : QSys) (h : RStore.Consistent s0.store) (es : List QSysEv) (fuel : Nat) :
    RStore.Consistent ((s0.run es).finish [] fuel).1.store :=
  QSys.finish_consistent (QSys.run_consistent h es) [] fuel

/-! ## the state the driver compares: after the completion phase -/

/-- erasing the logs of the ghost completion phase gives the model's `QSys.finish` (start every client, then run the
live ones round-robin), whatever the trace so far -/
theorem ghost_faithful_finish (s0 : QSys) (es : List QSysEv) (tr : List String) (fuel : Nat) :
    ((reach s0 es).finish fuel).sys = ((reach s0 es).sys.finish tr fuel).1 :=
  GSys.finish_sys _ tr fuel

/-- conservation, at-most-once, integrity, batch accounting and batch size also hold in the final state the driver
compares (events, then `finish`) -/
theorem conservation_final (s0 : QSys) (h0 : s0.Init) (es : List QSysEv) (fuel : Nat) :
    (∀ id : Nat, id ∈ ((reach s0 es).finish fuel).enqs.map (·.id) ↔
      (id ∈ ((reach s0 es).finish fuel).sys.store.pQueue ∨ id ∈ ((reach s0 es).finish fuel).pops.map (·.id))) ∧
    (∀ id : Nat, id ∈ ((reach s0 es).finish fuel).pops.map (·.id) → id ∉ ((reach s0 es).finish fuel).sys.store.pQueue) ∧
    (((reach s0 es).finish fuel).pops.map (·.id)).Nodup ∧
    (∀ d ∈ ((reach s0 es).finish fuel).pops, ∃ e ∈ ((reach s0 es).finish fuel).enqs,
      e.id = d.id ∧ e.probe = d.probe ∧ e.expires = d.expires ∧ d.ready = some e.ready) ∧
    (∀ (i : Nat) (c : QClient), ((reach s0 es).finish fuel).sys.clients[i]? = some c →
      c.popped = poppedOf i ((reach s0 es).finish fuel).pops ∧
      (c.started = true → PcOK c.op c.pc (retS i ((reach s0 es).finish fuel).pops) (expOf i ((reach s0 es).finish fuel).pops))) := by
  have hG := ((GInv.init h0).run es).finish fuel
  exact ⟨hG.cover, hG.popOut, hG.popNodup, hG.popSrc, fun i c hc => ⟨(hG.clients i c hc).popped, (hG.clients i c hc).pc⟩⟩

/-- not-early / not-late in the final state the driver compares -/
theorem timing_final (s0 : QSys) (h0 : s0.Init) (harr : ∀ c ∈ s0.clients, c.started = true → c.arrival ≤ s0.clock)
    (es : List QSysEv) (hm : Monotone es) (fuel : Nat) (d : GPop) (hd : d ∈ ((reach s0 es).finish fuel).pops) :
    (∃ r, d.ready = some r ∧ r ≤ d.clk) ∧
    (d.returned = true → d.expires = none ∨ ∃ x, d.expires = some x ∧ d.clk ≤ x) := by
  have hG := ((GInv.init h0).run es).finish fuel
  have hT := GTInv.finish ((GInv.init h0).run es) (GTInv.run (GInv.init h0) (TInv.init h0 harr) es hm) fuel
  obtain ⟨r, h5, h6, _⟩ := hT.popT d hd
  refine ⟨⟨r, h5, h6⟩, ?_⟩
  rw [hG.popRet d hd]
  unfold expiredAt
  cases d.expires with
  | none => simp
  | some x => simp

/-! ## 7./8. batch order -/

/-- the batch `ps` of consumer `i` **is ordered by ready time**: it is the payload list of a rearrangement `recs` of the
consumer's batch records (`batchRecs i`: the entries it took out of the store and did not drop as expired) in which every
record stands before every record with a later ready time — the ready time being the one of the accepted enqueue with the
same id, which is also the score the record was popped with -/
def BatchSorted (g : GSys) (i : Nat) (ps : List Probe) : Prop :=
  ∃ recs : List GPop, recs.Perm (batchRecs i g.pops) ∧ ps = recs.map (·.probe) ∧
    recs.Pairwise fun a b => ∃ ea ∈ g.enqs, ∃ eb ∈ g.enqs,
      ea.id = a.id ∧ eb.id = b.id ∧ a.ready = some ea.ready ∧ b.ready = some eb.ready ∧ ea.ready ≤ eb.ready

theorem batchSorted_of_inv {g : GSys} (hG : GInv g) {i : Nat} {c : QClient} {n : Int} {ps : List Probe} {k : Nat}
    (hc : g.sys.clients[i]? = some c) (hs : c.started = true) (hop : c.op = .popMany n) (hpc : c.pc = .done (.probes ps k)) :
    BatchSorted g i ps := by
  obtain ⟨recs, hperm, hps, hsorted⟩ := hG.batch_sorted hc hs hop hpc
  refine ⟨recs, hperm, hps, List.Pairwise.imp_of_mem ?_ hsorted⟩
  intro a b ha hb hab
  obtain ⟨ra, rb, hra, hrb, hle⟩ := hab
  obtain ⟨ea, hea, h1, _, _, h4⟩ := hG.popSrc a (mem_batchRecs.1 (hperm.mem_iff.1 ha)).1
  obtain ⟨eb, heb, h5, _, _, h8⟩ := hG.popSrc b (mem_batchRecs.1 (hperm.mem_iff.1 hb)).1
  rw [hra] at h4; rw [hrb] at h8
  cases h4; cases h8
  exact ⟨ea, hea, eb, heb, h1, h5, hra, hrb, hle⟩

/-- **every batch is ordered by ready time, from every state satisfying the system invariant**: start the ghost system in
any state `g0` with `GInv g0` (consistent store, log and store agree, every consumer's pc agrees with the log — any number
of items already queued, calls in flight at any pc), run any event list (all interleavings of the storage commands of any
number of consumers and producers, ticks of either sign, deaths before / after a command): whenever a `PopMany` call is
finished, the batch `ps` it returned is ordered by ready time.  No side condition on producers (ready times in the past
included) and none on the clock -/
theorem batch_sorted_inv (g0 : GSys) (hinv : GInv g0) (es : List QSysEv) (i : Nat) (c : QClient) (n : Int) (ps : List Probe) (k : Nat)
    (hc : (g0.run es).sys.clients[i]? = some c) (hs : c.started = true) (hop : c.op = .popMany n)
    (hpc : c.pc = .done (.probes ps k)) : BatchSorted (g0.run es) i ps :=
  batchSorted_of_inv (hinv.run es) hc hs hop hpc

/-- **each batch is ordered by ready time** (the clause of C12; full strength: ALL event lists, i.e. all interleavings of
consumers and producers, crashes included, from every admissible initial state): every batch returned by a finished
`PopMany` is sorted by ready time, non-decreasing.  This is what the final `sort.SliceStable` by queue score of the repaired
`PopMany` establishes; before the repair the call returned the fetch order, which is not sorted in general
(`fetch_order_unsorted_witness`) -/
theorem batch_sorted_all (s0 : QSys) (h0 : s0.Init) (es : List QSysEv) (i : Nat) (c : QClient) (n : Int) (ps : List Probe) (k : Nat)
    (hc : (reach s0 es).sys.clients[i]? = some c) (hs : c.started = true) (hop : c.op = .popMany n)
    (hpc : c.pc = .done (.probes ps k)) : BatchSorted (reach s0 es) i ps :=
  batch_sorted_inv (GSys.init s0) (GInv.init h0) es i c n ps k hc hs hop hpc

/-- the same in the final state the driver compares (events, then `finish`) -/
theorem batch_sorted_all_final (s0 : QSys) (h0 : s0.Init) (es : List QSysEv) (fuel : Nat) (i : Nat) (c : QClient) (n : Int)
    (ps : List Probe) (k : Nat)
    (hc : ((reach s0 es).finish fuel).sys.clients[i]? = some c) (hs : c.started = true) (hop : c.op = .popMany n)
    (hpc : c.pc = .done (.probes ps k)) : BatchSorted ((reach s0 es).finish fuel) i ps :=
  batchSorted_of_inv (((GInv.init h0).run es).finish fuel) hc hs hop hpc

/-- the **fetch order** of consumer `i` — the order in which its rounds took its batch records out of the store, which is
the order of `retOf` and of the items the call holds while it runs — is in ready-time order.  When this holds the final sort
of `PopMany` changes nothing; it does not hold in general (`fetch_order_unsorted_witness`) -/
def SortedBatch (g : GSys) (i : Nat) : Prop :=
  (g.pops.filter fun d => d.client == i && d.returned).Pairwise fun a b => ∃ ra rb, a.ready = some ra ∧ b.ready = some rb ∧ ra ≤ rb

/-- **fetch order, sequential side condition** (extra hypothesis `hno`): split the run as `es1 ++ es2` such that consumer
`i`'s call lies within `es2` (after `es1` it has popped nothing and is not between a `ZRANGEBYSCORE` and its batch).  If no
enqueue executes during `es2` (the enqueue log does not grow) — other consumers, ticks of either sign and deaths are
allowed — the rounds of consumer `i` fetch in ready-time order: the batch it returns is in fetch order, the final sort is
the identity.  Without `hno` the fetch order need not be sorted (`fetch_order_unsorted_witness`); the returned batch is
(`batch_sorted_all`) -/
theorem batch_sorted_seq (s0 : QSys) (h0 : s0.Init) (es1 es2 : List QSysEv) (i : Nat)
    (hfresh : ∀ d ∈ (reach s0 es1).pops, d.client ≠ i)
    (hnot : ∀ c got e ids scs, (reach s0 es1).sys.clients[i]? = some c → c.started = true → c.pc ≠ .popExec got e ids scs)
    (hno : (reach s0 (es1 ++ es2)).enqs.length = (reach s0 es1).enqs.length) :
    SortedBatch (reach s0 (es1 ++ es2)) i := by
  have hG1 := (GInv.init h0).run es1
  have h1 : SeqInv (reach s0 es1).enqs.length i (reach s0 es1) :=
    ⟨hG1, Nat.le_refl _, fun _ => SInv.ofFresh hfresh hnot⟩
  have h2 := h1.run es2
  have hr : reach s0 (es1 ++ es2) = (reach s0 es1).run es2 := GSys.run_append _ _ _
  rw [hr] at hno ⊢
  exact (h2.2.2 (Nat.le_of_eq hno)).batch h2.1

/-- **fetch order, concurrent side condition** (extra hypotheses `hm`, `hlate`): as `batch_sorted_seq`, but enqueues may
execute during the call provided each of them has a ready time that is not before the system clock at the moment its batch
executes (every producer in the repository: `ready ≥ now`), and the clock is monotone: then, too, the rounds fetch in
ready-time order and the final sort is the identity.  A late enqueue with a past ready time is exactly what
`fetch_order_unsorted_witness` uses -/
theorem fetch_sorted_conc (s0 : QSys) (h0 : s0.Init) (harr : ∀ c ∈ s0.clients, c.started = true → c.arrival ≤ s0.clock)
    (es1 es2 : List QSysEv) (hm : Monotone (es1 ++ es2)) (i : Nat)
    (hfresh : ∀ d ∈ (reach s0 es1).pops, d.client ≠ i)
    (hnot : ∀ c got e ids scs, (reach s0 es1).sys.clients[i]? = some c → c.started = true → c.pc ≠ .popExec got e ids scs)
    (hlate : ∀ (k : Nat) (e : GEnq), (reach s0 es1).enqs.length ≤ k → (reach s0 (es1 ++ es2)).enqs[k]? = some e → e.clk ≤ e.ready) :
    SortedBatch (reach s0 (es1 ++ es2)) i := by
  have hm1 : Monotone es1 := fun e he => hm e (List.mem_append.2 (Or.inl he))
  have hm2 : Monotone es2 := fun e he => hm e (List.mem_append.2 (Or.inr he))
  have hG1 := (GInv.init h0).run es1
  have hT1 := GTInv.run (GInv.init h0) (TInv.init h0 harr) es1 hm1
  have h1 : ConcInv (reach s0 es1).enqs.length i (reach s0 es1) :=
    ⟨hG1, hT1, Nat.le_refl _, fun _ => SInv.ofFresh hfresh hnot⟩
  have h2 := h1.run es2 hm2
  have hr : reach s0 (es1 ++ es2) = (reach s0 es1).run es2 := GSys.run_append _ _ _
  rw [hr] at hlate ⊢
  exact (h2.2.2.2 hlate).batch h2.1

/-- a batch returned in sorted fetch order is the fetch order itself: if `SortedBatch` holds (e.g. by `batch_sorted_seq`),
a finished `PopMany` of consumer `i` returned exactly `retOf i` — the final sort moved nothing -/
theorem batch_is_fetch_order (s0 : QSys) (h0 : s0.Init) (es : List QSysEv) (i : Nat) (c : QClient) (n : Int) (ps : List Probe) (k : Nat)
    (hc : (reach s0 es).sys.clients[i]? = some c) (hs : c.started = true) (hop : c.op = .popMany n)
    (hpc : c.pc = .done (.probes ps k)) (hsorted : SortedBatch (reach s0 es) i) : ps = retOf i (reach s0 es).pops := by
  have hG := (GInv.init h0).run es
  have h := (hG.clients i c hc).pc hs
  rw [hop, hpc] at h
  rw [h.1, ← retS_fst]
  refine finishBatch_of_sorted _ ?_
  unfold retS
  rw [List.pairwise_map]
  refine List.Pairwise.imp ?_ hsorted
  intro a b hab
  obtain ⟨ra, rb, hra, hrb, hle⟩ := hab
  simp only [hra, hrb, Option.getD_some]
  exact hle

def wp1 : Probe := ⟨⟨1, 10481⟩, 10481, .details, 0, 3⟩
def wp2 : Probe := ⟨⟨2, 10482⟩, 10482, .details, 0, 3⟩

/-- clock 100; producer 0 enqueues `wp1` ready at 50; consumer 1 is a `PopMany 2`; producer 2 enqueues `wp2` with a ready
time (10) that is already in the past -/
def witness : QSys :=
  { clock := 100
    clients := [{ op := .enqueue wp1 (some 50) none, pc := .start },
                { op := .popMany 2, pc := .start },
                { op := .enqueue wp2 (some 10) none, pc := .start }] }

/-- producer 0 runs; the consumer issues its first `ZRANGEBYSCORE` (sees only `wp1`); producer 2 runs; the consumer runs to
completion: pops `wp1`, needs one more, second round finds `wp2` -/
def witnessEvents : List QSysEv := [.run 0, .step 1, .run 2, .run 1]

theorem witness_init : witness.Init := by
  refine ⟨RStore.consistent_empty, fun id => by simp [witness], ?_⟩
  intro c hc
  simp only [witness, List.mem_cons, List.not_mem_nil, or_false] at hc
  rcases hc with rfl | rfl | rfl <;> exact ⟨rfl, fun h => by cases h⟩

set_option maxRecDepth 100000 in
theorem witness_pops : (reach witness witnessEvents).pops =
    [⟨0, 1, wp1, none, some 50, 100, true⟩, ⟨1, 1, wp2, none, some 10, 100, true⟩] := by rfl

set_option maxRecDepth 100000 in
/-- **why the final sort is needed** (the defect `C12-late-past-ready`, recorded as fixed): on this 4-event schedule the
rounds of the consumer fetch `wp1` (ready 50) and then `wp2` (ready 10, enqueued — with a ready time already in the past —
while the call was in progress): the fetch order `[wp1, wp2]`, which is what `PopMany` returned before the repair, is not
in ready-time order.  The repaired call returns `[wp2, wp1]` -/
theorem fetch_order_unsorted_witness :
    witness.Init ∧
    retOf 1 (reach witness witnessEvents).pops = [wp1, wp2] ∧
    ((reach witness witnessEvents).enqs.map fun e => (e.id, e.probe, e.ready, e.clk)) = [(0, wp1, 50, 100), (1, wp2, 10, 100)] ∧
    ¬ SortedBatch (reach witness witnessEvents) 1 ∧
    ((witness.run witnessEvents).clients[1]?).map (·.pc) = some (.done (.probes [wp2, wp1] 0)) := by
  refine ⟨witness_init, by rw [witness_pops]; rfl, by rfl, ?_, by rfl⟩
  unfold SortedBatch
  rw [witness_pops]
  simp [List.filter]

set_option maxRecDepth 100000 in
/-- non-vacuity of `batch_sorted_all` on the schedule of the old counterexample: the consumer is a started `PopMany 2`
that has finished with `[wp2, wp1]`; the theorem applies and says this batch is ordered by ready time (10 ≤ 50) -/
example :
    (((reach witness witnessEvents).sys.clients[1]?).map fun c => (c.started, c.pc)) = some (true, .done (.probes [wp2, wp1] 0)) ∧
    BatchSorted (reach witness witnessEvents) 1 [wp2, wp1] := by
  have hcl : (((reach witness witnessEvents).sys.clients[1]?).map fun c => (c.started, c.pc)) =
      some (true, .done (.probes [wp2, wp1] 0)) := by rfl
  refine ⟨hcl, ?_⟩
  cases hc : (reach witness witnessEvents).sys.clients[1]? with
  | none => rw [hc] at hcl; cases hcl
  | some c =>
    rw [hc] at hcl
    simp only [Option.map_some, Option.some.injEq, Prod.mk.injEq] at hcl
    have hop : c.op = .popMany 2 := by
      have : ((reach witness witnessEvents).sys.clients[1]?).map (·.op) = some (.popMany 2) := by rfl
      rw [hc] at this
      simpa using this
    exact batch_sorted_all witness witness_init witnessEvents 1 c 2 [wp2, wp1] 0 hc hcl.1 hop hcl.2

set_option maxRecDepth 100000 in
/-- non-vacuity of the hypotheses of `batch_sorted_seq` / `fetch_sorted_conc`: on the witness system, with the late producer
left out of the schedule (`es1` = producer 0 runs, `es2` = the consumer runs), all hypotheses hold and the consumer returns `[wp1]` -/
example :
    SortedBatch (reach witness ([.run 0] ++ [.run 1])) 1 ∧
    (((reach witness ([.run 0] ++ [.run 1])).sys.clients[1]?).map (·.pc)) = some (.done (.probes [wp1] 0)) := by
  refine ⟨batch_sorted_seq witness witness_init [.run 0] [.run 1] 1 ?_ ?_ (by rfl), by rfl⟩
  · have : (reach witness [.run 0]).pops = [] := by rfl
    rw [this]; intro d hd; cases hd
  · intro c got e ids scs hc hs
    have : ((reach witness [.run 0]).sys.clients[1]?) = some { op := .popMany 2, pc := .start } := by rfl
    rw [this] at hc
    cases hc
    cases hs

set_option maxRecDepth 100000 in
/-- non-vacuity of `batch_is_fetch_order`: same schedule; the fetch order is sorted, the consumer has finished, and what it
returned is the fetch order `retOf` -/
example : retOf 1 (reach witness [.run 0, .run 1]).pops = [wp1] := by
  have hsorted : SortedBatch (reach witness [.run 0, .run 1]) 1 := by
    have hp : (reach witness [.run 0, .run 1]).pops = [⟨0, 1, wp1, none, some 50, 100, true⟩] := by rfl
    unfold SortedBatch
    rw [hp]
    simp [List.filter]
  have hcl : (((reach witness [.run 0, .run 1]).sys.clients[1]?).map fun c => (c.started, c.op, c.pc)) =
      some (true, .popMany 2, .done (.probes [wp1] 0)) := by rfl
  cases hc : (reach witness [.run 0, .run 1]).sys.clients[1]? with
  | none => rw [hc] at hcl; cases hcl
  | some c =>
    rw [hc] at hcl
    simp only [Option.map_some, Option.some.injEq, Prod.mk.injEq] at hcl
    exact (batch_is_fetch_order witness witness_init [.run 0, .run 1] 1 c 2 [wp1] 0 hc hcl.1 hcl.2.1 hcl.2.2 hsorted).symm

set_option maxRecDepth 100000 in
/-- the witness schedule violates exactly the side condition of `fetch_sorted_conc`: the second enqueue executes at clock 100
with ready time 10 -/
example : ¬ (∀ (k : Nat) (e : GEnq), (reach witness [.run 0, .step 1]).enqs.length ≤ k →
    (reach witness ([.run 0, .step 1] ++ [.run 2, .run 1])).enqs[k]? = some e → e.clk ≤ e.ready) := by
  intro h
  have := h 1 ⟨1, 2, wp2, none, 10, 100⟩ (by decide) (by rfl)
  exact absurd this (by decide)

/-! ## 9. exactly one consumer, if the probe has not expired and no consumer dies while holding it

Batches are lists of probes, i.e. of *payloads*, and two different queue entries (ids) may carry equal payloads; "the
probe occurs exactly once in the batches" is therefore stated on pop records / ids (which the log keeps) and tied to the
payload lists (`Delivery.position`: position by position in fetch order; `Delivery.held`: the returned batch is a
rearrangement — the stable sort by score — of the fetch order and contains the payload), not by counting equal payloads. -/

/-- the pop record `d` is unexpired at the clock of its pop batch (the value `PopMany`'s `isItemExpired` test uses) -/
def Unexpired (d : GPop) : Prop := d.expires = none ∨ ∃ x, d.expires = some x ∧ d.clk ≤ x

theorem unexpired_iff (d : GPop) : Unexpired d ↔ expiredAt d.expires d.clk = false := by
  unfold Unexpired expiredAt
  cases d.expires with
  | none => simp
  | some x => simp

/-- **the entry `id` has been handed to consumer `j`**: client `j` is a started `PopMany` call that is *not dead* and has
finished with the batch `got` (the value its caller received), and one of the pop records that make up `j`'s batch
(`batchRecs j pops`, whose payloads are exactly `got` by `batch_is_log`) has this id and its payload in `got`.
A consumer that died (`dead = true`: `crashBefore` any command, or `crashAfter` a command — in particular right after the
`ZREM+HMGET+HDEL` batch that took the entry out) never hands anything to its caller, whatever pc the model shows for it -/
def HandedTo (g : GSys) (id j : Nat) : Prop :=
  ∃ c n got k, g.sys.clients[j]? = some c ∧ c.op = .popMany n ∧ c.started = true ∧ c.dead = false ∧
    c.pc = .done (.probes got k) ∧ ∃ d ∈ batchRecs j g.pops, d.id = id ∧ d.probe ∈ got

/-- what is known about the enqueue record `e` once the pop record `d` has taken it out of the store -/
structure Delivery (g : GSys) (e : GEnq) (d : GPop) : Prop where
  /-- `d` is the record of `e` … -/
  id : d.id = e.id
  /-- … and the only one (`at_most_once`): hence one consumer `d.client`, one pop batch -/
  unique : ∀ d' ∈ g.pops, d'.id = e.id → d' = d
  /-- same probe, expiry and ready time as enqueued (`integrity`) -/
  same : d.probe = e.probe ∧ d.expires = e.expires ∧ d.ready = some e.ready
  /-- the consumer exists, has started, and is a `PopMany` call -/
  owner : ∃ c n, g.sys.clients[d.client]? = some c ∧ c.started = true ∧ c.op = .popMany n
  /-- (b) unexpired at the clock of the pop batch ⇒ appended to the batch (converse of `not_late`); expired ⇒ counted, not appended -/
  verdict : (Unexpired d → d.returned = true) ∧ (¬ Unexpired d → d.returned = false)
  /-- unexpired ⇒ among all records appended to some consumer's batch the id occurs exactly once; consumer by consumer:
  once in the batch records of `d.client`, in no other consumer's -/
  once : Unexpired d →
    (g.pops.filter fun d' => d'.id == e.id && d'.returned).length = 1 ∧
    ∀ j, ((batchRecs j g.pops).filter fun d' => d'.id == e.id).length = if j = d.client then 1 else 0
  /-- expired ⇒ in nobody's batch -/
  dropped : ¬ Unexpired d → (g.pops.filter fun d' => d'.id == e.id && d'.returned) = []
  /-- unexpired ⇒ the record sits at a position `k` of its consumer's batch records, and the payload at position `k` of
  the batch the log attributes to that consumer (fetch order; the returned batch is its stable sort by score, see `held`) -/
  position : Unexpired d →
    ∃ k : Nat, (batchRecs d.client g.pops)[k]? = some d ∧ (retOf d.client g.pops)[k]? = some d.probe
  /-- unexpired ⇒ the consumer holds the probe in its batch at every pc from the pop batch on (dead or alive: if it is
  dead this is what was lost), and (c) if it has finished, the probe is in the batch `ps` it finished with, which is a
  rearrangement of what it held (same payloads, same multiplicities: nothing added, dropped or duplicated by the final sort) -/
  held : Unexpired d → ∀ c, g.sys.clients[d.client]? = some c →
    match c.pc with
    | .popRange got _ => got.map (·.1) = retOf d.client g.pops ∧ d.probe ∈ got.map (·.1)
    | .popExec got _ _ _ => got.map (·.1) = retOf d.client g.pops ∧ d.probe ∈ got.map (·.1)
    | .done (.probes ps _) => ps.Perm (retOf d.client g.pops) ∧ d.probe ∈ ps
    | _ => False
  /-- **at most one** consumer, whatever happens -/
  atMostOne : ∀ j, HandedTo g e.id j → j = d.client
  /-- (c) **exactly one**: unexpired, and the consumer did not die (`dead = false`) and has finished its call
  (`pc.live = false`) ⇒ the entry has been handed to `d.client` (and, by `atMostOne`, to nobody else) -/
  exactlyOne : Unexpired d → ∀ c, g.sys.clients[d.client]? = some c → c.dead = false → c.pc.live = false →
    HandedTo g e.id d.client

theorem delivery_of {g : GSys} (hG : GInv g) (hO : PopOwner g) {e : GEnq} (he : e ∈ g.enqs) {d : GPop} (hd : d ∈ g.pops)
    (hid : d.id = e.id) : Delivery g e d := by
  have hend : (g.enqs.map (·.id)).Nodup := hG.enqInc.imp (fun h => Nat.ne_of_lt h)
  have huniq : ∀ d' ∈ g.pops, d'.id = e.id → d' = d := fun d' hd' h' =>
    eq_of_nodup_map hG.popNodup hd' hd (h'.trans hid.symm)
  have hret : Unexpired d → d.returned = true := by
    intro hu; rw [hG.popRet d hd, (unexpired_iff d).1 hu]; rfl
  have hnret : ¬ Unexpired d → d.returned = false := by
    intro hu
    rw [hG.popRet d hd]
    cases hx : expiredAt d.expires d.clk with
    | true => rfl
    | false => exact absurd ((unexpired_iff d).2 hx) hu
  have hheld : Unexpired d → ∀ c, g.sys.clients[d.client]? = some c →
      match c.pc with
      | .popRange got _ => got.map (·.1) = retOf d.client g.pops ∧ d.probe ∈ got.map (·.1)
      | .popExec got _ _ _ => got.map (·.1) = retOf d.client g.pops ∧ d.probe ∈ got.map (·.1)
      | .done (.probes ps _) => ps.Perm (retOf d.client g.pops) ∧ d.probe ∈ ps
      | _ => False := by
    intro hu c hc
    obtain ⟨c', n, hc', hs, hop⟩ := hO d hd
    rw [hc] at hc'; cases hc'
    have hm := mem_retOf hd (hret hu)
    have h := (hG.clients _ c hc).pc hs
    rw [hop] at h
    cases hpc : c.pc with
    | popRange got k =>
      rw [hpc] at h
      have he : got.map (·.1) = retOf d.client g.pops := by rw [h.1, retS_fst]
      exact ⟨he, he ▸ hm⟩
    | popExec got k ids scs =>
      rw [hpc] at h
      have he : got.map (·.1) = retOf d.client g.pops := by rw [h.1, retS_fst]
      exact ⟨he, he ▸ hm⟩
    | done r =>
      rw [hpc] at h
      cases r with
      | probes ps k =>
        have hp := hG.batch_perm hc hs hop hpc
        exact ⟨hp, hp.mem_iff.2 hm⟩
      | _ => exact h
    | _ => rw [hpc] at h; exact h
  refine ⟨hid, huniq, ?_, hO d hd, ⟨hret, hnret⟩, ?_, ?_, fun hu => retOf_position hd (hret hu), hheld, ?_, ?_⟩
  · obtain ⟨e', he', h1, h2, h3, h4⟩ := hG.popSrc d hd
    have : e' = e := eq_of_nodup_map hend he' he (h1.trans hid)
    subst this
    exact ⟨h2.symm, h3.symm, h4⟩
  · intro hu
    rw [← hid]
    refine ⟨filter_id_length_one hG.popNodup hd (fun d' => d'.returned) (hret hu), fun j => ?_⟩
    unfold batchRecs
    rw [List.filter_filter]
    by_cases hj : j = d.client
    · rw [if_pos hj]
      exact filter_id_length_one hG.popNodup hd (fun d' => d'.client == j && d'.returned) (by simp [hj, hret hu])
    · rw [if_neg hj]
      have hj' : ¬ d.client = j := fun h => hj h.symm
      rw [filter_id_nil hG.popNodup hd (fun d' => d'.client == j && d'.returned) (by simp [hj'])]
      rfl
  · intro hu
    rw [← hid]
    exact filter_id_nil hG.popNodup hd (fun d' => d'.returned) (hnret hu)
  · rintro j ⟨c, n, got, k, hc, hop, hs, hdead, hpc, d', hd', hid', _⟩
    obtain ⟨h1, h2, _⟩ := mem_batchRecs.1 hd'
    rw [huniq d' h1 hid'] at h2
    exact h2.symm
  · intro hu c hc hdead hlive
    obtain ⟨c', n, hc', hs, hop⟩ := hO d hd
    rw [hc] at hc'; cases hc'
    have h := hheld hu c hc
    cases hpc : c.pc with
    | done r =>
      rw [hpc] at h
      cases r with
      | probes got k =>
        exact ⟨c, n, got, k, hc, hop, hs, hdead, hpc, d, mem_batchRecs.2 ⟨hd, rfl, hret hu⟩, hid, h.2⟩
      | _ => exact absurd h id
    | _ => rw [hpc] at hlive; cases hlive

/-- **exactly one consumer if unexpired and nobody dies while holding it** (the second half of the property; the first
half is `at_most_once` / `Delivery.atMostOne`).  At every reachable state, every accepted enqueue `e` is in exactly one
place: (a) still queued and in no pop record; or out of the queue and in exactly one pop record `d` — one consumer
`d.client`, same probe / expiry / ready time — for which `Delivery` holds: (b) if `d` is unexpired at the clock of its pop
batch it was appended to that consumer's batch (`verdict`; otherwise it was counted as expired and is in nobody's batch,
`dropped`), its id occurs exactly once among all records appended to batches — once in `d.client`'s, in no other
consumer's (`once`) — the consumer holds the payload at every later pc (`held`, `position`; the batch it finally returns is
a rearrangement of what it held: the stable sort by score), and (c) if that consumer is not
dead and has finished, the entry has been handed to it (`exactlyOne`) and to no other consumer (`atMostOne`).
Assembled from `conservation`, `integrity`, `at_most_once`, `not_late` (its converse direction, `GInv.popRet`),
`batch_is_log`, and the invariant `PopOwner` (Lemmas/QueueDeliver.lean).  The hypothesis "not dead" cannot be dropped:
`lost_if_dies`, `lost_if_dies_done` -/
theorem delivered_if_live (s0 : QSys) (h0 : s0.Init) (es : List QSysEv) (e : GEnq) (he : e ∈ (reach s0 es).enqs) :
    (e.id ∈ (reach s0 es).sys.store.pQueue ∧ ∀ d ∈ (reach s0 es).pops, d.id ≠ e.id) ∨
    (e.id ∉ (reach s0 es).sys.store.pQueue ∧ ∃ d ∈ (reach s0 es).pops, Delivery (reach s0 es) e d) := by
  obtain ⟨hG, hO⟩ := GInvOwner.run (GInv.init h0) (PopOwner.init s0) es
  rcases (hG.cover e.id).1 (List.mem_map.2 ⟨e, he, rfl⟩) with hq | hp
  · refine Or.inl ⟨hq, fun d hd hid => ?_⟩
    exact hG.popOut e.id (List.mem_map.2 ⟨d, hd, hid⟩) hq
  · obtain ⟨d, hd, hid⟩ := List.mem_map.1 hp
    exact Or.inr ⟨hG.popOut e.id hp, d, hd, delivery_of hG hO he hd hid⟩

/-- **at most one consumer** in terms of `HandedTo`: an id is never handed to two consumers (any reachable state, any
deaths, expired or not) -/
theorem handed_at_most_one (s0 : QSys) (h0 : s0.Init) (es : List QSysEv) (id j1 j2 : Nat)
    (h1 : HandedTo (reach s0 es) id j1) (h2 : HandedTo (reach s0 es) id j2) : j1 = j2 := by
  obtain ⟨_, _, _, _, _, _, _, _, _, d1, hd1, hid1, _⟩ := h1
  obtain ⟨_, _, _, _, _, _, _, _, _, d2, hd2, hid2, _⟩ := h2
  obtain ⟨m1, c1, _⟩ := mem_batchRecs.1 hd1
  obtain ⟨m2, c2, _⟩ := mem_batchRecs.1 hd2
  rw [← c1, ← c2]
  exact (at_most_once s0 h0 es d1 d2 m1 m2 (hid1.trans hid2.symm)).2

/-- the same in the final state the driver compares (events, then `finish`: every client that is not dead has finished
unless the fuel ran out) -/
theorem delivered_if_live_final (s0 : QSys) (h0 : s0.Init) (es : List QSysEv) (fuel : Nat) (e : GEnq)
    (he : e ∈ ((reach s0 es).finish fuel).enqs) :
    (e.id ∈ ((reach s0 es).finish fuel).sys.store.pQueue ∧ ∀ d ∈ ((reach s0 es).finish fuel).pops, d.id ≠ e.id) ∨
    (e.id ∉ ((reach s0 es).finish fuel).sys.store.pQueue ∧
      ∃ d ∈ ((reach s0 es).finish fuel).pops, Delivery ((reach s0 es).finish fuel) e d) := by
  obtain ⟨hG, hO⟩ := GInvOwner.finish ((GInv.init h0).run es) (GInvOwner.run (GInv.init h0) (PopOwner.init s0) es).2 fuel
  rcases (hG.cover e.id).1 (List.mem_map.2 ⟨e, he, rfl⟩) with hq | hp
  · refine Or.inl ⟨hq, fun d hd hid => ?_⟩
    exact hG.popOut e.id (List.mem_map.2 ⟨d, hd, hid⟩) hq
  · obtain ⟨d, hd, hid⟩ := List.mem_map.1 hp
    exact Or.inr ⟨hG.popOut e.id hp, d, hd, delivery_of hG hO he hd hid⟩

/-! ### non-vacuity, and why "no consumer dies while holding it" is needed -/

set_option maxRecDepth 100000 in
/-- non-vacuity of `delivered_if_live`: on the witness system with the schedule "producer 0 runs, the consumer runs"
(`[.run 0, .run 1]`) the enqueue of `wp1` (id 0) is in the second case, its pop record is unexpired, the consumer is alive
and done — so the entry has been handed to consumer 1, whose returned batch is `[wp1]`, and to nobody else -/
example :
    HandedTo (reach witness [.run 0, .run 1]) 0 1 ∧
    (∀ j, HandedTo (reach witness [.run 0, .run 1]) 0 j → j = 1) ∧
    ((reach witness [.run 0, .run 1]).pops.filter fun d' => d'.id == 0 && d'.returned).length = 1 ∧
    (((reach witness [.run 0, .run 1]).sys.clients[1]?).map (·.pc)) = some (.done (.probes [wp1] 0)) := by
  have henqs : (reach witness [.run 0, .run 1]).enqs = [⟨0, 0, wp1, none, 50, 100⟩] := by rfl
  have hpops : (reach witness [.run 0, .run 1]).pops = [⟨0, 1, wp1, none, some 50, 100, true⟩] := by rfl
  have hdead : ((reach witness [.run 0, .run 1]).sys.clients[1]?).map (·.dead) = some false := by rfl
  have hpc : ((reach witness [.run 0, .run 1]).sys.clients[1]?).map (·.pc) = some (.done (.probes [wp1] 0)) := by rfl
  have h := delivered_if_live witness witness_init [.run 0, .run 1] ⟨0, 0, wp1, none, 50, 100⟩
    (by rw [henqs]; exact List.mem_singleton.2 rfl)
  rcases h with ⟨_, hno⟩ | ⟨_, d, hd, hD⟩
  · exact absurd rfl (hno ⟨0, 1, wp1, none, some 50, 100, true⟩ (by rw [hpops]; exact List.mem_singleton.2 rfl))
  · rw [hpops] at hd
    have hd' := List.mem_singleton.1 hd
    subst hd'
    have hu : Unexpired ⟨0, 1, wp1, none, some 50, 100, true⟩ := Or.inl rfl
    obtain ⟨c, n, hc, _, _⟩ := hD.owner
    have hc1 : (reach witness [.run 0, .run 1]).sys.clients[1]? = some c := hc
    rw [hc1] at hdead hpc
    simp only [Option.map_some, Option.some.injEq] at hdead hpc
    exact ⟨hD.exactlyOne hu c hc hdead (by rw [hpc]; rfl), hD.atMostOne, (hD.once hu).1, by rw [hc1]; simp [hpc]⟩

set_option maxRecDepth 100000 in
/-- non-vacuity of `delivered_if_live_final`: producer 0 runs, then the completion phase runs everybody round-robin (the
consumer and the late producer 2 interleaved): entry 0 has been handed to consumer 1, which fetched `wp1`, then `wp2`, and
finishes with `[wp2, wp1]` (ready times 10, 50) -/
example :
    HandedTo ((reach witness [.run 0]).finish 10) 0 1 ∧
    ((((reach witness [.run 0]).finish 10).sys.clients[1]?).map (·.pc)) = some (.done (.probes [wp2, wp1] 0)) := by
  have henqs : ((reach witness [.run 0]).finish 10).enqs = [⟨0, 0, wp1, none, 50, 100⟩, ⟨1, 2, wp2, none, 10, 100⟩] := by rfl
  have hpops : ((reach witness [.run 0]).finish 10).pops =
      [⟨0, 1, wp1, none, some 50, 100, true⟩, ⟨1, 1, wp2, none, some 10, 100, true⟩] := by rfl
  have hdead : (((reach witness [.run 0]).finish 10).sys.clients[1]?).map (·.dead) = some false := by rfl
  have hpc : (((reach witness [.run 0]).finish 10).sys.clients[1]?).map (·.pc) = some (.done (.probes [wp2, wp1] 0)) := by rfl
  refine ⟨?_, hpc⟩
  have h := delivered_if_live_final witness witness_init [.run 0] 10 ⟨0, 0, wp1, none, 50, 100⟩
    (by rw [henqs]; exact List.mem_cons_self)
  rcases h with ⟨_, hno⟩ | ⟨_, d, hd, hD⟩
  · exact absurd rfl (hno ⟨0, 1, wp1, none, some 50, 100, true⟩ (by rw [hpops]; exact List.mem_cons_self))
  · have hd0 : d = ⟨0, 1, wp1, none, some 50, 100, true⟩ :=
      (hD.unique _ (by rw [hpops]; exact List.mem_cons_self) rfl).symm
    subst hd0
    obtain ⟨c, n, hc, _, _⟩ := hD.owner
    have hc1 : ((reach witness [.run 0]).finish 10).sys.clients[1]? = some c := hc
    rw [hc1] at hdead hpc
    simp only [Option.map_some, Option.some.injEq] at hdead hpc
    exact hD.exactlyOne (Or.inl rfl) c hc hdead (by rw [hpc]; rfl)

/-- producer 0 runs; the consumer issues its `ZRANGEBYSCORE`, then dies right after its `ZREM+HMGET+HDEL` batch returned
(`crashAfter`); a later attempt to run it does nothing -/
def deadEvents : List QSysEv := [.run 0, .step 1, .crashAfter 1, .run 1]

set_option maxRecDepth 100000 in
/-- **the hypothesis "no consumer dies while holding it" is needed**: on the witness system, if the consumer dies right
after its pop batch, the unexpired entry 0 (`wp1`) is out of the store and in the pop log — taken by consumer 1, appended to
its batch — but the consumer is dead (standing at its next `ZRANGEBYSCORE`, holding `[wp1]`), so the entry has been handed
to nobody: the probe is lost (at most once, not exactly once) -/
theorem lost_if_dies :
    witness.Init ∧
    ((reach witness deadEvents).enqs.map fun e => (e.id, e.probe, e.expires)) = [(0, wp1, none)] ∧
    (reach witness deadEvents).pops = [⟨0, 1, wp1, none, some 50, 100, true⟩] ∧
    Unexpired ⟨0, 1, wp1, none, some 50, 100, true⟩ ∧
    ((reach witness deadEvents).sys.clients.map fun c => (c.dead, c.pc)) =
      [(false, .done .unit), (true, .popRange [(wp1, 50)] 0), (false, .start)] ∧
    0 ∉ (reach witness deadEvents).sys.store.pQueue ∧
    ∀ j, ¬ HandedTo (reach witness deadEvents) 0 j := by
  have hpops : (reach witness deadEvents).pops = [⟨0, 1, wp1, none, some 50, 100, true⟩] := by rfl
  have hdead : ((reach witness deadEvents).sys.clients[1]?).map (·.dead) = some true := by rfl
  refine ⟨witness_init, by rfl, hpops, Or.inl rfl, by rfl, ?_, ?_⟩
  · exact (conservation witness witness_init deadEvents).2.1 0 (by rw [hpops]; exact List.mem_singleton.2 rfl)
  · rintro j ⟨c, n, got, k, hc, _, _, hd, _, d, hdm, _, _⟩
    obtain ⟨h1, h2, _⟩ := mem_batchRecs.1 hdm
    rw [hpops] at h1
    have := List.mem_singleton.1 h1
    subst this
    subst h2
    have hc1 : (reach witness deadEvents).sys.clients[1]? = some c := hc
    rw [hc1] at hdead
    simp only [Option.map_some, Option.some.injEq] at hdead
    rw [hd] at hdead
    cases hdead

/-- clock 100; producer 0 enqueues `wp1` ready at 50; consumer 1 is a `PopMany 1` -/
def witnessOne : QSys :=
  { clock := 100
    clients := [{ op := .enqueue wp1 (some 50) none, pc := .start },
                { op := .popMany 1, pc := .start }] }

theorem witnessOne_init : witnessOne.Init := by
  refine ⟨RStore.consistent_empty, fun id => by simp [witnessOne], ?_⟩
  intro c hc
  simp only [witnessOne, List.mem_cons, List.not_mem_nil, or_false] at hc
  rcases hc with rfl | rfl <;> exact ⟨rfl, fun h => by cases h⟩

set_option maxRecDepth 100000 in
/-- … and `dead = false` is needed in `HandedTo` / `Delivery.exactlyOne` even when the model shows the pc `done`: a
`PopMany 1` whose process dies right after the pop batch has the pc its call would have returned from
(`done (probes [wp1] 0)`), but it is dead: its caller received nothing, nobody was handed the entry -/
theorem lost_if_dies_done :
    witnessOne.Init ∧
    (reach witnessOne [.run 0, .step 1, .crashAfter 1]).pops = [⟨0, 1, wp1, none, some 50, 100, true⟩] ∧
    ((reach witnessOne [.run 0, .step 1, .crashAfter 1]).sys.clients.map fun c => (c.dead, c.pc)) =
      [(false, .done .unit), (true, .done (.probes [wp1] 0))] ∧
    ∀ j, ¬ HandedTo (reach witnessOne [.run 0, .step 1, .crashAfter 1]) 0 j := by
  have hpops : (reach witnessOne [.run 0, .step 1, .crashAfter 1]).pops = [⟨0, 1, wp1, none, some 50, 100, true⟩] := by rfl
  have hdead : ((reach witnessOne [.run 0, .step 1, .crashAfter 1]).sys.clients[1]?).map (·.dead) = some true := by rfl
  refine ⟨witnessOne_init, hpops, by rfl, ?_⟩
  rintro j ⟨c, n, got, k, hc, _, _, hd, _, d, hdm, _, _⟩
  obtain ⟨h1, h2, _⟩ := mem_batchRecs.1 hdm
  rw [hpops] at h1
  have := List.mem_singleton.1 h1
  subst this
  subst h2
  have hc1 : (reach witnessOne [.run 0, .step 1, .crashAfter 1]).sys.clients[1]? = some c := hc
  rw [hc1] at hdead
  simp only [Option.map_some, Option.some.injEq] at hdead
  rw [hd] at hdead
  cases hdead

/-- **Item ids (regenerated fact).**  `conservation`, `at_most_once` and `ids_fresh` assume that every enqueued probe is stored
under an id no other item has.  In the code that is `itemID := uuid.NewString()` in `probes.go` `enqueue` — a full random
UUID (122 random bits); the expression is read from the source on every run.  A shortened or derived id (collisions after
~2^(bits/2) probes: one payload overwrites another, one probe silently disappears) changes it and breaks this theorem. -/
theorem facts_item_id : Facts.probeItemIDExprs = ["uuid.NewString()"] := by decide

end Swat4.C12

/-! # Additions (review round 2): "a probe whose ready time is not earlier than its expiry is never queued"

**The clause as written is false of the model and of the code.**  `never_queued` covers the only case the code tests:
*both* bounds explicit (`!after.IsZero() && !before.IsZero() && (after.After(before) || after.Equal(before))`,
`probes.go` `enqueue`).  When `after` is the zero time the ready time is `clock.Now()`, read *after* that test, and is never
compared with `before`: `enqueue p none (some b)` with `clock ≥ b` **is queued** (`implicit_ready_past_expiry_is_queued`).
This is the call shape of `refreshservers` (`AddBetween(ctx, prb, repositories.NC, deadline)`), whose deadline is
`now + interval` and therefore in the future for every positive interval — a latent quirk, not a reachable fault of the
shipped wiring.  What holds instead:

* `never_queued_explicit`: the call issues no command **iff** both bounds are explicit and `after ≥ before`; in every
  other case — in particular for an implicit ready time, whatever the clock — its single command queues the probe;
* `implicit_ready_past_expiry_never_delivered`: such an entry (ready time *after* its expiry) is never handed to a
  consumer: the first pop batch that takes it counts it as expired (from `not_early` + `not_late`, monotone clock);
* the boundary `ready = expiry` is different: such an entry is queued **and can be delivered**, exactly at the instant
  `clock = ready = expiry` (`isItemExpired` is `expires.Before(now)`, strict) — `ready_eq_expiry_delivered_witness`,
  `ready_eq_expiry_only_at_instant`. -/
namespace Swat4.C12
open Swat4 Std

/-- **the clause that holds** ("never queued", explicit bounds): an `enqueue` call finishes without issuing any storage
command **iff** both `after` and `before` are explicit and `after ≥ before`.  In every other case the call stands at its
(single) `HSET+ZADD` batch, which — `enqueue_one_batch`, `enqueue_uses_fresh` — queues the probe whatever the clock is:
there is no second test. -/
theorem never_queued_explicit (p : Probe) (after before : GoTime) :
    (QOp.enqueue p after before).begin = .done .unit ↔ ∃ a b, after = some a ∧ before = some b ∧ a ≥ b := by
  cases after with
  | none => simp [QOp.begin]
  | some a =>
    cases before with
    | none => simp [QOp.begin]
    | some b =>
      by_cases h : a ≥ b
      · simp [QOp.begin, h]
      · simp [QOp.begin, h]

/-- … and otherwise it is at `.start`: the call is going to execute its batch -/
theorem queued_otherwise (p : Probe) (after before : GoTime) (h : ¬ ∃ a b, after = some a ∧ before = some b ∧ a ≥ b) :
    (QOp.enqueue p after before).begin = .start := by
  cases after with
  | none => rfl
  | some a =>
    cases before with
    | none => rfl
    | some b =>
      have : ¬ a ≥ b := fun hab => h ⟨a, b, rfl, rfl, hab⟩
      simp [QOp.begin, this]

/-- **the counter-example, for every store, clock and expiry**: an `enqueue` with an *implicit* ready time and an expiry
`b` — **no hypothesis relating `clock` and `b`**, so in particular for `clock ≥ b` — is not dropped: the call stands at
`.start`, and its batch stores the payload with expiry `b` and the queue entry with score `clock` under the fresh id.
The ready time `clock` is never compared with `b`. -/
theorem implicit_ready_always_queued (st : RStore) (clock : Int) (fresh : Nat) (p : Probe) (b : Int) :
    (QOp.enqueue p none (some b)).begin = .start ∧
    (qstep st clock fresh (.enqueue p none (some b)) .start).1.pItems = st.pItems.insert fresh (p, some b) ∧
    (qstep st clock fresh (.enqueue p none (some b)) .start).1.pQueue = st.pQueue.insert fresh clock :=
  ⟨rfl, rfl, rfl⟩

/-- clock 100; producer 0 enqueues `wp1` with implicit ready time (→ 100) and expiry 50 (already past); consumer 1 is a `PopMany 1` -/
def pastExpiry : QSys :=
  { clock := 100
    clients := [{ op := .enqueue wp1 none (some 50), pc := .start },
                { op := .popMany 1, pc := .start }] }

theorem pastExpiry_init : pastExpiry.Init := by
  refine ⟨RStore.consistent_empty, fun id => by simp [pastExpiry], ?_⟩
  intro c hc
  simp only [pastExpiry, List.mem_cons, List.not_mem_nil, or_false] at hc
  rcases hc with rfl | rfl <;> exact ⟨rfl, fun h => by cases h⟩

set_option maxRecDepth 100000 in
/-- **`implicit_ready_past_expiry_is_queued`** (concrete witness; the clause "a probe whose ready time is not earlier than
its expiry is never queued" is FALSE of the model): at clock 100 the producer's `enqueue wp1 none (some 50)` is accepted —
one enqueue record with ready time 100 ≥ expiry 50, and the entry sits in `probes:queue` (score 100) and `probes:items`
(expiry 50).  `probes.go` does the same: the drop test requires `!after.IsZero()`. -/
theorem implicit_ready_past_expiry_is_queued :
    pastExpiry.Init ∧
    ((reach pastExpiry [.run 0]).enqs.map fun e => (e.id, e.probe, e.expires, e.ready, e.clk)) = [(0, wp1, some 50, 100, 100)] ∧
    (reach pastExpiry [.run 0]).sys.store.pQueue[0]? = some 100 ∧
    (reach pastExpiry [.run 0]).sys.store.pItems[0]? = some (wp1, some 50) ∧
    0 ∈ (pastExpiry.run [.run 0]).store.pQueue := by
  refine ⟨pastExpiry_init, by rfl, by decide, by decide, ?_⟩
  unfold QSys.run
  rw [← ghost_faithful]
  exact (RStore.mem_iff_getElem?_some).2 ⟨100, by decide⟩

set_option maxRecDepth 100000 in
/-- … and what happens to it: the consumer's pop batch takes it out and counts it as expired; the batch is empty -/
theorem implicit_ready_past_expiry_dropped_witness :
    (reach pastExpiry [.run 0, .run 1]).pops = [⟨0, 1, wp1, some 50, some 100, 100, false⟩] ∧
    ((reach pastExpiry [.run 0, .run 1]).sys.clients[1]?).map (·.pc) = some (.done (.probes [] 1)) := ⟨by rfl, by rfl⟩

/-- **`implicit_ready_past_expiry_never_delivered`**: an accepted enqueue whose ready time is *after* its expiry
(`x < e.ready`: only possible with an implicit ready time, by `never_queued_explicit`) is never delivered.  For every
interleaving with a monotone clock: every pop record of that id is `returned = false` (counted as expired, dropped), and
the id has been handed to no consumer.  Follows from `not_early` (`e.ready ≤ d.clk`) and `not_late`
(`returned → d.clk ≤ x`). -/
theorem implicit_ready_past_expiry_never_delivered (s0 : QSys) (h0 : s0.Init)
    (harr : ∀ c ∈ s0.clients, c.started = true → c.arrival ≤ s0.clock) (es : List QSysEv) (hm : Monotone es)
    (e : GEnq) (he : e ∈ (reach s0 es).enqs) (x : Int) (hx : e.expires = some x) (hlt : x < e.ready) :
    (∀ d ∈ (reach s0 es).pops, d.id = e.id → d.returned = false) ∧ ∀ j, ¬ HandedTo (reach s0 es) e.id j := by
  have hG := (GInv.init h0).run es
  have hend : ((reach s0 es).enqs.map (·.id)).Nodup := hG.enqInc.imp (fun h => Nat.ne_of_lt h)
  have key : ∀ d ∈ (reach s0 es).pops, d.id = e.id → d.returned = false := by
    intro d hd hid
    obtain ⟨e', he', h1, _, h3, h4⟩ := not_early s0 h0 harr es hm d hd
    have : e' = e := eq_of_nodup_map hend he' he (h1.trans hid)
    subst this
    cases hr : d.returned with
    | false => rfl
    | true =>
      exfalso
      have hexp' : d.expires = some x := by
        obtain ⟨e'', he'', g1, _, g3, _⟩ := hG.popSrc d hd
        have : e'' = e' := eq_of_nodup_map hend he'' he' (g1.trans h1.symm)
        subst this
        rw [← g3, hx]
      rcases (not_late s0 h0 es d hd).1 hr with hn | ⟨y, hy, hle⟩
      · rw [hexp'] at hn; cases hn
      · rw [hexp'] at hy; cases hy; omega
  refine ⟨key, ?_⟩
  rintro j ⟨_, _, _, _, _, _, _, _, _, d, hdm, hid, _⟩
  obtain ⟨h1, _, h3⟩ := mem_batchRecs.1 hdm
  rw [key d h1 hid] at h3
  cases h3

/-- **the boundary `ready = expiry`**: an accepted enqueue whose ready time *equals* its expiry can be delivered, but
only by a pop batch executing at exactly that instant (`d.clk = x`): `isItemExpired` is strict -/
theorem ready_eq_expiry_only_at_instant (s0 : QSys) (h0 : s0.Init)
    (harr : ∀ c ∈ s0.clients, c.started = true → c.arrival ≤ s0.clock) (es : List QSysEv) (hm : Monotone es)
    (e : GEnq) (he : e ∈ (reach s0 es).enqs) (x : Int) (hx : e.expires = some x) (heq : e.ready = x)
    (d : GPop) (hd : d ∈ (reach s0 es).pops) (hid : d.id = e.id) (hr : d.returned = true) : d.clk = x := by
  have hG := (GInv.init h0).run es
  have hend : ((reach s0 es).enqs.map (·.id)).Nodup := hG.enqInc.imp (fun h => Nat.ne_of_lt h)
  obtain ⟨e', he', h1, _, _, h4⟩ := not_early s0 h0 harr es hm d hd
  have : e' = e := eq_of_nodup_map hend he' he (h1.trans hid)
  subst this
  obtain ⟨e'', he'', g1, _, g3, _⟩ := hG.popSrc d hd
  have : e'' = e' := eq_of_nodup_map hend he'' he' (g1.trans h1.symm)
  subst this
  rcases (not_late s0 h0 es d hd).1 hr with hn | ⟨y, hy, hle⟩
  · rw [← g3, hx] at hn; cases hn
  · rw [← g3, hx] at hy; cases hy; omega

/-- clock 100; producer 0 enqueues `wp1` with implicit ready time (→ 100) and expiry exactly 100; consumer 1 is a `PopMany 1` -/
def atExpiry : QSys :=
  { clock := 100
    clients := [{ op := .enqueue wp1 none (some 100), pc := .start },
                { op := .popMany 1, pc := .start }] }

set_option maxRecDepth 100000 in
/-- **`ready_eq_expiry_delivered_witness`**: with ready time = expiry = 100 the probe is queued *and delivered* by a
consumer popping at clock 100 (`returned = true`, batch `[wp1]`) — so "ready ≥ expiry ⇒ never queued" fails at the
boundary even for delivery; one tick later (clock 101) the same entry is dropped as expired -/
theorem ready_eq_expiry_delivered_witness :
    (reach atExpiry [.run 0, .run 1]).pops = [⟨0, 1, wp1, some 100, some 100, 100, true⟩] ∧
    ((reach atExpiry [.run 0, .run 1]).sys.clients[1]?).map (·.pc) = some (.done (.probes [wp1] 0)) ∧
    ((reach atExpiry [.run 0, .tick 1, .run 1]).sys.clients[1]?).map (·.pc) = some (.done (.probes [] 1)) :=
  ⟨by rfl, by rfl, by rfl⟩

set_option maxRecDepth 100000 in
/-- non-vacuity of `implicit_ready_past_expiry_never_delivered`: on `pastExpiry` with the schedule `[.run 0, .run 1]` all
hypotheses hold for the (only) enqueue record, and the conclusion says its pop record was not returned -/
example : ∀ j, ¬ HandedTo (reach pastExpiry [.run 0, .run 1]) 0 j := by
  have harr : ∀ c ∈ pastExpiry.clients, c.started = true → c.arrival ≤ pastExpiry.clock := by
    intro c hc hs
    simp only [pastExpiry, List.mem_cons, List.not_mem_nil, or_false] at hc
    rcases hc with rfl | rfl <;> cases hs
  have hm : Monotone [.run 0, .run 1] := by
    intro e he
    simp only [List.mem_cons, List.not_mem_nil, or_false] at he
    rcases he with rfl | rfl <;> trivial
  have henqs : (reach pastExpiry [.run 0, .run 1]).enqs = [⟨0, 0, wp1, some 50, 100, 100⟩] := by rfl
  exact (implicit_ready_past_expiry_never_delivered pastExpiry pastExpiry_init harr [.run 0, .run 1] hm
    ⟨0, 0, wp1, some 50, 100, 100⟩ (by rw [henqs]; exact List.mem_singleton.2 rfl) 50 rfl (by decide)).2

end Swat4.C12

/-! # Additions (review round 2): how long a `PopMany` runs under interference

`PopMany` has no WATCH / retry loop (nothing like C09's `MaxAttempts`), but it loops "until the batch is full or a round
finds nothing", and a round that finds only *expired* entries leaves the batch as it was.  So there is **no bound in terms
of `n` alone**: producers that keep enqueueing already-expired probes keep a consumer busy (`popMany_fed_witness`).  What
holds, for every interleaving: the number of storage commands the call executes is at most
`2 · (n + number of expired entries it dropped) + 2` (`popMany_own_commands_bounded`) — every command but the last
consumes at least half an entry — and a command of a live call is never refused or repeated (`popMany_command_progress`:
one `qstep`, for every store / clock the other clients may have left).  The honest fairness hypothesis for "terminates" is
therefore: *only finitely many expired entries are ever offered to it*. -/
namespace Swat4.C12
open Swat4 Std

/-- **one command = one unit of progress, whatever the others did** (machine level): for every store, clock and id
counter — i.e. whatever other clients did since the call's previous command — a command of a live `PopMany n` call
strictly raises the potential `QPC.prog` (twice the entries consumed so far: held + counted expired, plus the position
in the round), and leaves the call at a `PopMany` pc.  There is no command that is retried. -/
theorem popMany_command_progress (st : RStore) (clock : Int) (fresh : Nat) (n : Int) (pc : QPC) (hl : pc.live = true)
    (hok : okFor (.popMany n) pc) :
    pc.prog < (qstep st clock fresh (.popMany n) pc).2.1.prog ∧
    okFor (.popMany n) (qstep st clock fresh (.popMany n) pc).2.1 :=
  qstep_pop_prog st clock fresh n pc hl hok

/-- **bound on a `PopMany` call's own commands in any interleaving.**  From any admissible initial system in which client
`i` is a `PopMany n` call, along **every** event list (other consumers and producers stepping in between, ticks of either
sign, deaths), the number of storage commands client `i` executes (`QSys.ownCmds`: the trace labels the model emits for
`i`'s events) is at most `2 · (n + E) + 2`, where `E = expOf i pops` is the number of expired entries the call has dropped
so far.  In particular a call that meets no expired entry executes at most `2n + 2` commands. -/
theorem popMany_own_commands_bounded (s0 : QSys) (h0 : s0.Init) (i : Nat) (c0 : QClient) (n : Int)
    (hc0 : s0.clients[i]? = some c0) (hop0 : c0.op = .popMany n) (es : List QSysEv) :
    QSys.ownCmds i s0 es ≤ 2 * (n.toNat + expOf i (reach s0 es).pops) + 2 := by
  have hP0 : s0.PopAt i n := by
    refine ⟨c0, hc0, hop0, fun hs => ?_⟩
    rw [(h0.clients c0 (List.mem_of_getElem? hc0)).2 hs, ← hop0]
    exact okFor_begin c0.op
  obtain ⟨⟨c, hc, hop, _⟩, hle⟩ := QSys.ownCmds_le_prog hP0 es
  have hrun : s0.run es = (reach s0 es).sys := (ghost_faithful s0 es).symm
  rw [hrun] at hc hle
  have hprog : (reach s0 es).sys.progOf i = c.prog := by simp only [QSys.progOf, hc]
  rw [hprog] at hle
  suffices hb : c.prog ≤ 2 * (n.toNat + expOf i (reach s0 es).pops) + 2 by omega
  unfold QClient.prog
  by_cases hs : c.started = true
  · simp only [hs, if_true]
    have h := (((GInv.init h0).run es).clients i c hc).pc hs
    rw [hop] at h
    cases hpc : c.pc with
    | popRange got e =>
      rw [hpc] at h
      have h1 : e = expOf i (reach s0 es).pops := h.2.1
      have h2 := h.2.2
      simp only [QPC.prog]; omega
    | popExec got e ids scs =>
      rw [hpc] at h
      have h1 : e = expOf i (reach s0 es).pops := h.2.1
      have h2 := h.2.2.2.1
      simp only [QPC.prog]; omega
    | done r =>
      rw [hpc] at h
      cases r with
      | probes ps e =>
        have h1 : e = expOf i (reach s0 es).pops := h.2.1
        have h2 := h.2.2
        simp only [QPC.prog]; omega
      | _ => simp [QPC.prog]
    | _ => simp [QPC.prog]
  · have hs' : c.started = false := by simpa using hs
    simp only [hs', Bool.false_eq_true, if_false]
    rw [hop]
    simp only [QOp.begin]
    split <;> simp [QPC.prog]

/-- a `step` event of a client that is not dead and stands at a live pc always executes exactly one command (so the
bound above is a bound on how often the call can be *scheduled* before it has returned) -/
theorem live_step_executes (s : QSys) (i : Nat) (c : QClient) (hc : s.clients[i]? = some c) (hd : c.dead = false)
    (hl : (c.start s.clock).pc.live = true) : (s.stepT [] (.step i)).2.length = 1 := by
  simp [QSys.stepT, QSys.stepClient, hc, hd, hl]

def xp1 : Probe := ⟨⟨1, 10481⟩, 10481, .details, 0, 3⟩

/-- clock 100; three producers each enqueue a probe that is already expired (implicit ready time 100, expiry 50 — see
`implicit_ready_past_expiry_is_queued`); consumer 3 is a `PopMany 1` -/
def fed : QSys :=
  { clock := 100
    clients := [{ op := .enqueue xp1 none (some 50), pc := .start },
                { op := .enqueue xp1 none (some 50), pc := .start },
                { op := .enqueue xp1 none (some 50), pc := .start },
                { op := .popMany 1, pc := .start }] }

/-- a producer runs before each round of the consumer -/
def fedEvents : List QSysEv :=
  [.run 0, .step 3, .step 3, .run 1, .step 3, .step 3, .run 2, .step 3, .step 3, .step 3]

theorem fed_init : fed.Init := by
  refine ⟨RStore.consistent_empty, fun id => by simp [fed], ?_⟩
  intro c hc
  simp only [fed, List.mem_cons, List.not_mem_nil, or_false] at hc
  rcases hc with rfl | rfl | rfl | rfl <;> exact ⟨rfl, fun h => by cases h⟩

set_option maxRecDepth 100000 in
/-- **no bound in `n` alone** (`popMany_fed_witness`): fed one expired entry before each round, a `PopMany 1` executes 7
commands (three full rounds and the final empty `ZRANGEBYSCORE`) and returns an empty batch with 3 counted expired; with
`k` such producers it executes `2k + 1`.  The bound of `popMany_own_commands_bounded` is `2·(1+3)+2 = 10` here. -/
theorem popMany_fed_witness :
    fed.Init ∧ QSys.ownCmds 3 fed fedEvents = 7 ∧
    ((reach fed fedEvents).sys.clients[3]?).map (·.pc) = some (.done (.probes [] 3)) ∧
    expOf 3 (reach fed fedEvents).pops = 3 :=
  ⟨fed_init, by rfl, by rfl, by rfl⟩

/-- non-vacuity of `popMany_own_commands_bounded` on that schedule -/
example : QSys.ownCmds 3 fed fedEvents ≤ 2 * ((1 : Int).toNat + expOf 3 (reach fed fedEvents).pops) + 2 :=
  popMany_own_commands_bounded fed fed_init 3 { op := .popMany 1, pc := .start } 1 rfl rfl fedEvents

end Swat4.C12

/-! # Additions (review round 2), continued: the explicit-bounds clause at the system level -/
namespace Swat4.C12
open Swat4 Std

/-- **`never_queued_explicit_sys`** (the clause that holds, for every interleaving): at every reachable state, every
accepted enqueue record `e` was made by client `e.client`, which is the call `enqueue e.probe after e.expires`; and **if
that call's ready time was explicit** (`after = some a`) the record's ready time is `a` and it is **strictly before** an
explicit expiry.  So a queued probe whose ready time is not earlier than its expiry can only stem from an *implicit*
ready time (`ready_past_expiry_only_implicit`) — the case `implicit_ready_past_expiry_is_queued` exhibits.  (The ghost
record does not store the flag "explicit"; it is recovered from the producing client, whose `op` never changes.) -/
theorem never_queued_explicit_sys (s0 : QSys) (h0 : s0.Init) (es : List QSysEv) (e : GEnq) (he : e ∈ (reach s0 es).enqs) :
    ∃ (c : QClient) (after : GoTime), (reach s0 es).sys.clients[e.client]? = some c ∧
      c.op = .enqueue e.probe after e.expires ∧
      ∀ a, after = some a → e.ready = a ∧ ∀ b, e.expires = some b → a < b :=
  ((EnqInv.init h0).run es).owner e he

/-- an accepted enqueue whose ready time is not earlier than its expiry was made with an implicit ready time -/
theorem ready_past_expiry_only_implicit (s0 : QSys) (h0 : s0.Init) (es : List QSysEv) (e : GEnq)
    (he : e ∈ (reach s0 es).enqs) (x : Int) (hx : e.expires = some x) (hge : x ≤ e.ready) :
    ∃ c, (reach s0 es).sys.clients[e.client]? = some c ∧ c.op = .enqueue e.probe none (some x) := by
  obtain ⟨c, after, hc, hop, hexp⟩ := never_queued_explicit_sys s0 h0 es e he
  cases after with
  | none => exact ⟨c, hc, by rw [hop, hx]⟩
  | some a =>
    obtain ⟨h1, h2⟩ := hexp a rfl
    have := h2 x hx
    omega

set_option maxRecDepth 100000 in
/-- non-vacuity: on the witness system (producer 0: `enqueue wp1 (some 50) none`) the record of the accepted enqueue is
attributed to client 0 with the explicit ready time 50 -/
example : ∃ c, (reach witness [.run 0]).sys.clients[0]? = some c ∧ c.op = .enqueue wp1 (some 50) none := by
  have henqs : (reach witness [.run 0]).enqs = [⟨0, 0, wp1, none, 50, 100⟩] := by rfl
  obtain ⟨c, after, hc, hop, hexp⟩ := never_queued_explicit_sys witness witness_init [.run 0] ⟨0, 0, wp1, none, 50, 100⟩
    (by rw [henqs]; exact List.mem_singleton.2 rfl)
  have hop0 : ((reach witness [.run 0]).sys.clients[0]?).map (·.op) = some (.enqueue wp1 (some 50) none) := by rfl
  exact ⟨c, hc, by
    have hc' : (reach witness [.run 0]).sys.clients[0]? = some c := hc
    rw [hc'] at hop0
    simpa using hop0⟩

end Swat4.C12

/-! ### non-vacuity of the remaining additions -/
namespace Swat4.C12
open Swat4 Std

/-- `queued_otherwise` / `never_queued_explicit`: explicit `after` before explicit `before`, and an implicit `after` -/
example : (QOp.enqueue wp1 (some 5) (some 7)).begin = .start ∧ (QOp.enqueue wp1 none (some 7)).begin = .start ∧
    (QOp.enqueue wp1 (some 7) (some 7)).begin = .done .unit :=
  ⟨queued_otherwise _ _ _ (by rintro ⟨a, b, ha, hb, h⟩; cases ha; cases hb; exact absurd h (by decide)),
   queued_otherwise _ _ _ (by rintro ⟨a, b, ha, _⟩; cases ha),
   (never_queued_explicit _ _ _).2 ⟨7, 7, rfl, rfl, by decide⟩⟩

/-- `popMany_command_progress` at the first pc of a `PopMany 1` -/
example (st : RStore) : (QPC.popRange [] 0).prog < (qstep st 0 0 (.popMany 1) (.popRange [] 0)).2.1.prog :=
  (popMany_command_progress st 0 0 1 (.popRange [] 0) rfl trivial).1

/-- `live_step_executes`: the (unstarted) consumer of `fed` is not dead and starts at a live pc -/
example : (fed.stepT [] (.step 3)).2.length = 1 :=
  live_step_executes fed 3 { op := .popMany 1, pc := .start } rfl rfl rfl

set_option maxRecDepth 100000 in
/-- `ready_eq_expiry_only_at_instant` on `atExpiry`: the record was returned, and its pop batch ran at clock 100 = expiry -/
example : (100 : Int) = 100 := by
  have harr : ∀ c ∈ atExpiry.clients, c.started = true → c.arrival ≤ atExpiry.clock := by
    intro c hc hs
    simp only [atExpiry, List.mem_cons, List.not_mem_nil, or_false] at hc
    rcases hc with rfl | rfl <;> cases hs
  have hinit : atExpiry.Init := by
    refine ⟨RStore.consistent_empty, fun id => by simp [atExpiry], ?_⟩
    intro c hc
    simp only [atExpiry, List.mem_cons, List.not_mem_nil, or_false] at hc
    rcases hc with rfl | rfl <;> exact ⟨rfl, fun h => by cases h⟩
  have hm : Monotone [.run 0, .run 1] := by
    intro e he
    simp only [List.mem_cons, List.not_mem_nil, or_false] at he
    rcases he with rfl | rfl <;> trivial
  have henqs : (reach atExpiry [.run 0, .run 1]).enqs = [⟨0, 0, wp1, some 100, 100, 100⟩] := by rfl
  have hpops := ready_eq_expiry_delivered_witness.1
  exact (ready_eq_expiry_only_at_instant atExpiry hinit harr [.run 0, .run 1] hm ⟨0, 0, wp1, some 100, 100, 100⟩
    (by rw [henqs]; exact List.mem_singleton.2 rfl) 100 rfl rfl ⟨0, 1, wp1, some 100, some 100, 100, true⟩
    (by rw [hpops]; exact List.mem_singleton.2 rfl) rfl rfl).symm

set_option maxRecDepth 100000 in
/-- `ready_past_expiry_only_implicit` on `pastExpiry`: the record with ready 100 ≥ expiry 50 stems from `enqueue wp1 none (some 50)` -/
example : ∃ c, (reach pastExpiry [.run 0]).sys.clients[0]? = some c ∧ c.op = .enqueue wp1 none (some 50) := by
  have henqs : (reach pastExpiry [.run 0]).enqs = [⟨0, 0, wp1, some 50, 100, 100⟩] := by rfl
  exact ready_past_expiry_only_implicit pastExpiry pastExpiry_init [.run 0] ⟨0, 0, wp1, some 50, 100, 100⟩
    (by rw [henqs]; exact List.mem_singleton.2 rfl) 50 rfl (by decide)

end Swat4.C12

