import Swat4.Model.Browsing
import Swat4.Spec.ServerList
import Swat4.Spec.ServerListExpected
import Swat4.Gen.Facts
/-!
# C01 — Server-list replies decode to exactly the selected servers

Property theorems only.  `Browsing.*` is the model of `browsing.NewRequest`, `params.Marshal` and
`browser.packServers`/`process`; `SBList.sdkDecode` is the SDK-side reference decoder and
`SBList.encodeReq` the definition of a well-formed request, both written independently of it.
-/
namespace Swat4.C01
open Swat4 Swat4.Browsing Swat4.SBList

/-- what the model and the theorems assume about the source (regenerated `Gen/Facts.lean`):
the 16-bit length must cover the 9 bytes the parser skips (so `data[9:dataLen]` cannot panic);
the field cap fits the one-byte key count; whitelisted names are non-empty and free of NUL and
backslash; every `Info` field has a kind `params.Marshal` supports, and parameter names are distinct. -/
theorem facts_ok :
    9 ≤ Facts.browsingMinRequestPayloadLength ∧ Facts.browsingMaxAllowedNumberOfFields ≤ 255 ∧
    (∀ f ∈ Facts.browsingQueryFields, f ≠ [] ∧ ∀ x ∈ f, x ≠ 0 ∧ x ≠ 0x5c) ∧
    (∀ e ∈ Facts.browsingInfoSchema, e.2 ≤ 2) ∧ (Facts.browsingInfoSchema.map (·.1)).Nodup := by decide

end Swat4.C01
