import Swat4.Lemmas.FactsExtra01
import Swat4.Lemmas.Browsing
import Swat4.Lemmas.BrowserReqBridge
import Swat4.Properties.C02
import Swat4.Spec.ServerList
import Swat4.Spec.ServerListExpected
import Swat4.Gen.Facts
import Swat4.Lemmas.BrowserEndToEnd
import Swat4.Properties.C03
import Swat4.Lemmas.Decimal
import Swat4.Lemmas.RecoverRnd01
/-!
# C01 — Server-list replies decode to exactly the selected servers

Property theorems only.  `Browsing.*` is the model of `browsing.NewRequest`, `params.Marshal` and
`browser.packServers`/`process`; `SBList.sdkDecode` is the SDK-side reference decoder and
`SBList.encodeReq` the definition of a well-formed request, both written independently of it.

`Lemmas/BrowserReqBridge.lean` (imported; `Swat4.BrowserReqBridge.newRequest_eq`) ties `Browsing.parseRequest`
to the second, independently written model of `browsing.NewRequest` that C06 uses: same outcome class and
same field list on every byte string.
-/
namespace Swat4.C01
open Swat4 Swat4.Browsing Swat4.SBList

/-- what the model and the theorems assume about the source (regenerated `Gen/Facts.lean`):
the 16-bit length must cover the 9 bytes the parser skips (so `data[9:dataLen]` cannot panic);
the field cap fits the one-byte key count; whitelisted names are non-empty and free of NUL and
backslash; every `Info` field has a kind `params.Marshal` supports, and parameter names are distinct. -/
theorem facts_ok :
    9 ≤ Facts.browsingMinRequestPayloadLength ∧ Facts.browsingMaxAllowedNumberOfFields ≤ 255 ∧
    (∀ f ∈ Facts.browsingQueryFields, f ≠ [] ∧ ∀ x ∈ f, x ≠ 0 ∧ x ≠ 0x5c) ∧
    (∀ e ∈ Facts.browsingInfoSchema, e.2 ≤ 2) ∧ (Facts.browsingInfoSchema.map (·.1)).Nodup := by decide


/-- **Decoding the packed list, any schema.**  For at most 255 NUL-free field names and servers none
of which carries the SDK's end-marker address, the SDK decoder applied to `packServers`' bytes
returns the requester's IPv4 and `port % 65536`, the declared fields in order, and one entry per
server *whose `Info` marshals* (`packServers` skips the others), in order — IPv4, `uint16` of the
query port, and per declared field the marshalled value with NUL bytes dropped (empty if the map
lacks the field) — followed by the end marker and nothing else. -/
theorem sdkDecode_pack_marshalled (schema : Schema) (client : Client) (fields : List Bytes) (servers : List Server)
    (defaultPort : Nat) (hf : fields.length ≤ 255) (hn : ∀ f ∈ fields, NulFree f)
    (hip : ∀ s ∈ servers, s.ip.toBytes ≠ lastServerMarker) :
    sdkDecode (packServers schema client fields servers) defaultPort =
      some { clientIp := client.ip.toBytes, clientPort := client.port % 65536, fields := fields, entries := (servers.filterMap (prepare schema)).map (entryOfPrepared fields), trailing := [] } :=
  sdkDecode_packServers schema client fields servers defaultPort hf hn hip

/-- **Decoding the packed list.**  If moreover parameter names are distinct and every record has
the types its schema declares (Go's typing), the decoded list is exactly `expectedList`: one entry
per server with the stored value of every declared field (integers in decimal, booleans `0`/`1`,
empty for a field the record lacks, NUL bytes dropped). -/
theorem sdkDecode_pack (schema : Schema) (client : Client) (fields : List Bytes) (servers : List Server)
    (defaultPort : Nat) (hf : fields.length ≤ 255) (hn : ∀ f ∈ fields, NulFree f)
    (hnd : (schema.map (·.1)).Nodup) (hwt : ∀ s ∈ servers, WellTyped schema s.info)
    (hip : ∀ s ∈ servers, s.ip.toBytes ≠ lastServerMarker) :
    sdkDecode (packServers schema client fields servers) defaultPort =
      some (expectedList schema client fields servers) := by
  rw [sdkDecode_packServers schema client fields servers defaultPort hf hn hip,
    filterMap_prepare_wellTyped schema servers hwt, List.map_map]
  unfold expectedList
  congr 2
  apply List.map_congr_left
  intro s _
  exact entryOfPrepared_renderAll schema fields s hnd

/-- **The parser is total**: for any configuration whose minimum length covers the nine skipped
bytes, no input makes `NewRequest` index or slice out of range (`panic`), and the field loop
always terminates within its fuel (`hang`). -/
theorem parse_total_cfg (cfg : Cfg) (h9 : 9 ≤ cfg.minLen) (data : Bytes) :
    parseRequest cfg data ≠ .panic ∧ parseRequest cfg data ≠ .hang := by
  have h := parseRequest_safe cfg h9 data
  constructor <;> intro e <;> rw [e] at h <;> exact h

/-- `parse_total_cfg` for the constants in the source -/
theorem parse_total (data : Bytes) :
    parseRequest Cfg.facts data ≠ .panic ∧ parseRequest Cfg.facts data ≠ .hang :=
  parse_total_cfg Cfg.facts facts_ok.1 data

/-- `binutils.ConsumeString` never panics and is the structural scanner `consumeS` -/
theorem consumeString_total (data : Bytes) (delim : UInt8) : consumeString data delim = .ok (consumeS delim data) :=
  consumeString_eq data delim


/-- **Parsing a well-formed request**, for any configuration with `9 ≤ minLen ≤ 26` whose whitelist
rejects the empty name: the raw field list is filtered through the whitelist *before* the cap;
more known fields than the cap is `ErrTooManyFieldsRequested`, none is `ErrNoFieldsRequested`,
otherwise the request carries the filter, the known fields in request order and the challenge. -/
theorem parse_encodeReq_cfg (cfg : Cfg) (h9 : 9 ≤ cfg.minLen) (h26 : cfg.minLen ≤ 26)
    (hempty : cfg.isQueryField [] = false) (r : ListRequest) (h : WfReq r) :
    parseRequest cfg (encodeReq r) =
      if (knownFields cfg.isQueryField r).length > cfg.maxFields then .error .tooManyFields
      else if (knownFields cfg.isQueryField r).length = 0 then .error .noFields
      else .ok { filters := r.filter, fields := knownFields cfg.isQueryField r, challenge := r.challenge } :=
  parseRequest_encodeReq cfg h9 h26 hempty r h

/-- what `parse_encodeReq` needs from the source: `MinRequestPayloadLength` is between the 9 skipped
bytes and the 26 bytes of the shortest well-formed request; the empty name is not whitelisted -/
theorem facts_parse_ok : 9 ≤ Cfg.facts.minLen ∧ Cfg.facts.minLen ≤ 26 ∧ Cfg.facts.isQueryField [] = false := by decide

/-- `parse_encodeReq_cfg` for the constants and the whitelist in the source -/
theorem parse_encodeReq (r : ListRequest) (h : WfReq r) :
    parseRequest Cfg.facts (encodeReq r) =
      if (knownFields Cfg.facts.isQueryField r).length > Cfg.facts.maxFields then .error .tooManyFields
      else if (knownFields Cfg.facts.isQueryField r).length = 0 then .error .noFields
      else .ok { filters := r.filter, fields := knownFields Cfg.facts.isQueryField r, challenge := r.challenge } :=
  parse_encodeReq_cfg Cfg.facts facts_parse_ok.1 facts_parse_ok.2.1 facts_parse_ok.2.2 r h

/-- the handler's key is the key C02 is proved for -/
theorem gameKey_eq : Browsing.gameKey = C02.gameSecret := rfl

/-- known fields are whitelisted names, hence NUL-free (from the generated whitelist) -/
theorem known_nulFree (r : ListRequest) : ∀ f ∈ knownFields Cfg.facts.isQueryField r, NulFree f := by
  intro f hf
  unfold knownFields at hf
  rw [List.mem_filter] at hf
  have hmem : f ∈ Facts.browsingQueryFields := by
    have := hf.2
    simpa [Cfg.facts] using this
  intro x hx
  exact ((facts_ok.2.2.1 f hmem).2 x hx).1

/-- **C01.**  For every well-formed list request with between one and `MaxAllowedNumberOfFields`
known fields, every requester address, every list of selected servers (the selection itself is
property C03) whose records are well typed and none of which has the all-ones address, and every
23 header draws: the handler replies, and the reply — decrypted by the stock SDK cipher with the
game key and the request's challenge, then decoded by the SDK framing rules — is exactly the
promised list: requester IPv4 and `port % 65536`, the known fields in request order, one entry per
selected server (IPv4, `uint16` query port, stored value of every declared field with NULs
dropped), the end marker, nothing after it. -/
theorem C01_main (r : ListRequest) (h : WfReq r)
    (hk : 1 ≤ (knownFields Cfg.facts.isQueryField r).length ∧
      (knownFields Cfg.facts.isQueryField r).length ≤ Cfg.facts.maxFields)
    (client : Client) (selected : List Server)
    (hwt : ∀ s ∈ selected, WellTyped Schema.facts s.info)
    (hip : ∀ s ∈ selected, s.ip.toBytes ≠ lastServerMarker)
    (rnd : Crypt.Rnd) (defaultPort : Nat) :
    ∃ reply, process Cfg.facts Schema.facts gameKey client (encodeReq r) selected rnd = .ok reply ∧
      (GOA.refDecrypt Facts.gameEncKey r.challenge.toList reply).bind (fun plain => sdkDecode plain defaultPort) =
        some (expectedList Schema.facts client (knownFields Cfg.facts.isQueryField r) selected) := by
  have hparse := parse_encodeReq r h
  rw [if_neg (by omega), if_neg (by omega)] at hparse
  have htot := C02.encrypt_total C02.gameSecret r.challenge rnd
    (packServers Schema.facts client (knownFields Cfg.facts.isQueryField r) selected)
  cases henc : Crypt.encrypt? C02.gameSecret r.challenge rnd
      (packServers Schema.facts client (knownFields Cfg.facts.isQueryField r) selected) with
  | none => rw [henc] at htot; cases htot
  | some out =>
    refine ⟨out, ?_, ?_⟩
    · simp only [process, hparse, ok_bind, gameKey_eq, henc, pure_eq_ok]
    · rw [C02.C02_swat4 r.challenge rnd _ out henc]
      simp only [Option.bind_some]
      have hcap : Cfg.facts.maxFields ≤ 255 := facts_ok.2.1
      exact sdkDecode_pack Schema.facts client _ selected defaultPort (by omega) (known_nulFree r)
        facts_ok.2.2.2.2 hwt hip

/-! ### the handler's read buffer

`browser.Handler.Handle` (`internal/browser/browser.go`): `buf := make([]byte, 2048); n, err := conn.Read(buf);
payload := buf[:n]` — ONE `Read` into a 2048-byte buffer, then `process(payload)`.  Whatever the client
sent beyond 2048 bytes is never looked at (the connection is closed by the deferred `conn.Close()`).
`WfReq.length` only bounds a request by the 16-bit prefix (65535); the two theorems below say what the
handler makes of a well-formed request on either side of the buffer size, assuming the single `Read`
delivers everything available up to the buffer size (TCP segmentation is outside the model: a request that
arrives in two segments is cut at the first one by the same code). -/

/-- the size of the handler's read buffer (`browser.go`, `make([]byte, 2048)`) -/
def readBufferSize : Nat := 2048

/-- what `process` is given when the client sent `sent` -/
def handlerPayload (sent : Bytes) : Bytes := sent.take readBufferSize

/-- **C01 for requests that fit the read buffer.**  `C01_main` with the handler's 2048-byte read made
explicit: for a well-formed request of at most 2048 bytes the payload `process` sees is the whole
request, and the reply decodes to exactly the promised list. -/
theorem C01_main_bounded (r : ListRequest) (h : WfReq r)
    (hfit : (encodeReq r).length ≤ readBufferSize)
    (hk : 1 ≤ (knownFields Cfg.facts.isQueryField r).length ∧
      (knownFields Cfg.facts.isQueryField r).length ≤ Cfg.facts.maxFields)
    (client : Client) (selected : List Server)
    (hwt : ∀ s ∈ selected, WellTyped Schema.facts s.info)
    (hip : ∀ s ∈ selected, s.ip.toBytes ≠ lastServerMarker)
    (rnd : Crypt.Rnd) (defaultPort : Nat) :
    ∃ reply, process Cfg.facts Schema.facts gameKey client (handlerPayload (encodeReq r)) selected rnd = .ok reply ∧
      (GOA.refDecrypt Facts.gameEncKey r.challenge.toList reply).bind (fun plain => sdkDecode plain defaultPort) =
        some (expectedList Schema.facts client (knownFields Cfg.facts.isQueryField r) selected) := by
  have e : handlerPayload (encodeReq r) = encodeReq r := List.take_of_length_le hfit
  rw [e]
  exact C01_main r h hk client selected hwt hip rnd defaultPort

/-- **A well-formed request longer than the read buffer gets no reply.**  The 16-bit length prefix of
`encodeReq r` is the full length, which exceeds the 2048 bytes read, so `NewRequest` fails its
`dataLen > len(data)` test with `ErrInvalidRequestFormat`; `process` returns that error and the handler
closes the connection without writing anything — an error, never a truncated or wrong list. -/
theorem C01_oversize_no_reply (r : ListRequest) (h : WfReq r) (hbig : readBufferSize < (encodeReq r).length)
    (client : Client) (selected : List Server) (rnd : Crypt.Rnd) :
    parseRequest Cfg.facts (handlerPayload (encodeReq r)) = .error .invalidFormat ∧
    process Cfg.facts Schema.facts gameKey client (handlerPayload (encodeReq r)) selected rnd = .error .invalidFormat := by
  have hlen := h.length
  generalize hn : (reqBody r).length + 2 = n at hlen
  have hdata : encodeReq r = UInt8.ofNat (n / 256) :: UInt8.ofNat (n % 256) :: reqBody r := by
    unfold encodeReq; simp only [hn]
  have hdl : (encodeReq r).length = n := by rw [hdata]; simp; omega
  have hpl : (handlerPayload (encodeReq r)).length = readBufferSize := by
    unfold handlerPayload
    rw [List.length_take]
    omega
  have h2 : ¬ (handlerPayload (encodeReq r)).length < 2 := by rw [hpl]; decide
  have hs2 : goSlice (handlerPayload (encodeReq r)) 0 2 = some [UInt8.ofNat (n / 256), UInt8.ofNat (n % 256)] := by
    rw [goSlice_take _ 2 (by rw [hpl]; decide)]
    unfold handlerPayload
    rw [List.take_take, hdata]
    rfl
  have hcond : n < Cfg.facts.minLen ∨ n > (handlerPayload (encodeReq r)).length := by
    right; rw [hpl]; omega
  have hparse : parseRequest Cfg.facts (handlerPayload (encodeReq r)) = .error .invalidFormat := by
    simp only [parseRequest, h2, if_false, hs2, orPanic_some, ok_bind, be16?_prefix n hlen, hcond, if_true]
  exact ⟨hparse, by simp only [process, hparse, error_bind]⟩

end Swat4.C01

/-! non-vacuity: a concrete well-formed request with two known fields among three, and a well-typed
record with a NUL inside its hostname, satisfy the hypotheses of `C01_main` -/
section NonVacuity
open Swat4 Swat4.Browsing Swat4.SBList

def exampleReq : ListRequest :=
  { header := [0, 1, 3, 0, 0, 0, 0], gameName := Bytes.ofAscii "swat4", queryGame := Bytes.ofAscii "swat4", challenge := #v[1, 2, 3, 4, 5, 6, 0, 0xff], filter := [], rawFields := [Bytes.ofAscii "hostname", Bytes.ofAscii "ping", Bytes.ofAscii "numplayers"], withFields := false }

example : WfReq exampleReq := ⟨by decide, by decide, by decide, by decide, by decide, by decide⟩

example : knownFields Cfg.facts.isQueryField exampleReq = [Bytes.ofAscii "hostname", Bytes.ofAscii "numplayers"] := by decide

def exampleInfo : Browsing.Info :=
  [.str [0x61, 0x00, 0x62], .int 10480, .str (Bytes.ofAscii "SWAT 4"), .str (Bytes.ofAscii "1.1"), .str (Bytes.ofAscii "CO-OP"), .int 3, .int 16, .str [],
   .bool false, .bool true, .int 0, .int 0, .int (-5), .int 0, .int 0, .int 0, .int 0, .int 0, .int 0, .int 0, .str [], .str []]

example : WellTyped Schema.facts exampleInfo := by
  simp [WellTyped, Schema.facts, Facts.browsingInfoSchema, exampleInfo]

example : (⟨10, 1, 2, 3⟩ : IPv4).toBytes ≠ lastServerMarker := by decide

/-- `exampleReq` fits the read buffer (hypothesis `hfit` of `C01_main_bounded`) -/
example : (encodeReq exampleReq).length ≤ Swat4.C01.readBufferSize := by decide

/-! the other two branches of `parse_encodeReq` -/

/-- 21 known fields (the cap is 20) with an unknown one in between -/
def exampleReqTooMany : ListRequest :=
  { exampleReq with rawFields := List.replicate 10 (Bytes.ofAscii "hostname") ++ [Bytes.ofAscii "ping"] ++ List.replicate 11 (Bytes.ofAscii "numplayers") }

set_option maxRecDepth 10000 in
theorem exampleReqTooMany_wf : WfReq exampleReqTooMany := ⟨by decide, by decide, by decide, by decide, by decide, by decide⟩

set_option maxRecDepth 10000 in
/-- the `tooManyFields` branch: 21 whitelisted names ⇒ `ErrTooManyFieldsRequested` -/
example : parseRequest Cfg.facts (encodeReq exampleReqTooMany) = .error .tooManyFields := by
  rw [Swat4.C01.parse_encodeReq exampleReqTooMany exampleReqTooMany_wf]
  decide

/-- exactly 20 known fields is still served (the cap is inclusive) -/
def exampleReqAtCap : ListRequest :=
  { exampleReq with rawFields := List.replicate 20 (Bytes.ofAscii "hostname") ++ [Bytes.ofAscii "ping"] }

example : (knownFields Cfg.facts.isQueryField exampleReqAtCap).length = Cfg.facts.maxFields := by decide

/-- only names outside the whitelist (and the empty name) -/
def exampleReqNoKnown : ListRequest :=
  { exampleReq with rawFields := [Bytes.ofAscii "ping", [], Bytes.ofAscii "Hostname", Bytes.ofAscii "country"] }

example : WfReq exampleReqNoKnown := ⟨by decide, by decide, by decide, by decide, by decide, by decide⟩

/-- the `noFields` branch: no whitelisted name ⇒ `ErrNoFieldsRequested` -/
example : parseRequest Cfg.facts (encodeReq exampleReqNoKnown) = .error .noFields := by
  rw [Swat4.C01.parse_encodeReq exampleReqNoKnown ⟨by decide, by decide, by decide, by decide, by decide, by decide⟩]
  decide

/-- an empty field list is the same branch -/
example : parseRequest Cfg.facts (encodeReq { exampleReq with rawFields := [] }) = .error .noFields := by
  rw [Swat4.C01.parse_encodeReq _ ⟨by decide, by decide, by decide, by decide, by decide, by decide⟩]
  decide

/-- a well-formed request that does NOT fit the read buffer (hypothesis `hbig` of `C01_oversize_no_reply`):
a 2100-byte filter -/
def exampleReqBig : ListRequest := { exampleReq with filter := List.replicate 2100 0x61 }

theorem reqBody_length (r : ListRequest) :
    (reqBody r).length = r.header.length + r.gameName.length + r.queryGame.length + r.filter.length +
      (joinFields r.rawFields).length + 17 := by
  simp [reqBody]; omega

theorem exampleReqBig_length : (encodeReq exampleReqBig).length = 2160 := by
  have h : (encodeReq exampleReqBig).length = (reqBody exampleReqBig).length + 2 := by simp [encodeReq]
  have hf : exampleReqBig.filter.length = 2100 := List.length_replicate
  have h1 : exampleReqBig.header.length = 7 := rfl
  have h2 : exampleReqBig.gameName.length = 5 := rfl
  have h3 : exampleReqBig.queryGame.length = 5 := rfl
  have h4 : (joinFields exampleReqBig.rawFields).length = 24 := by decide
  rw [h, reqBody_length, hf, h1, h2, h3, h4]

example : WfReq exampleReqBig :=
  ⟨by decide, by decide, by decide,
   by intro x hx; have := (List.mem_replicate.1 hx).2; rw [this]; decide,
   by decide,
   by have := exampleReqBig_length; simp only [encodeReq, List.length_cons] at this; omega⟩
example : Swat4.C01.readBufferSize < (encodeReq exampleReqBig).length := by
  rw [exampleReqBig_length]; decide

end NonVacuity

/-! # End to end: the reply to request `r` lists exactly the servers `r.filter` selects (C01 ∘ C03)

`C01_main` takes the selection as a parameter; C03 (`browser_listing_any`, `selection_eq_filter`) computes a
selection from a registry.  `Lemmas/BrowserEndToEnd.lean` defines the composition the Go handler performs —
`BrowserE2E.browserHandle`: 2048-byte read, `NewRequest`, the filter string's query (blank when empty or
rejected), `listservers.Execute` with status `master`, `packServers`, `crypt.Encrypt` — over a registry of
`BrowserE2E.Stored` servers (the filter model's `Record` plus IPv4, port and query port; `toSel` is the bridge
to `Browsing.Server`, whose `Info` values are *computed from* the record the filter is evaluated on).

**Listing order.**  The Go listing order is the iteration order of a Go map (`slice.Intersection` in
`servers.Repository.Filter`) — arbitrary.  `browserHandle` takes it as the parameter `order`.
`browser_end_to_end` is the statement for the filter model's order (`order := id`, registry order);
`browser_end_to_end_any_order` is the statement for every `order` that permutes its argument: the reply lists
a permutation of the matching servers.  The corollaries hold for every such order. -/
namespace Swat4.C01
open Swat4 Swat4.Browsing Swat4.SBList Swat4.BrowserE2E

/-- what a stock client makes of a reply: the SDK cipher with the game key and the request's challenge, then
the SDK framing decoder (the composition `C01_main` is stated with) -/
def clientDecode (challenge : Vector UInt8 8) (reply : Bytes) (defaultPort : Nat) : Option ServerList :=
  (GOA.refDecrypt Facts.gameEncKey challenge.toList reply).bind (fun plain => sdkDecode plain defaultPort)

/-- the two spellings of the read-buffer size agree -/
theorem readBuffer_eq : BrowserE2E.readBuffer = readBufferSize := rfl

/-- **The bridge to C03, one server.**  The test the handler's use case applies to a stored server for the
filter string `f` (`keeps`: refreshed-index range, status sets, `query.Match` of `browserQuery f`) is C03's
declarative listing predicate (`matching` = `FilterSpec.selected` with status `master` and the clauses of `f`).
Derived from C03's `browser_listing_any` on the one-record registry. -/
theorem keeps_eq_matching (now liveness : Int) (f : Bytes) (x : Stored) :
    keeps now liveness Facts.statusMaster (Filter.browserQuery f) x.row = matching now liveness f x := by
  have h := C03.browser_listing_any [x.row] now liveness f
  rw [listServers_eq_filter_keeps] at h
  unfold matching clausesOf
  simp only [List.filter_cons, List.filter_nil] at h
  cases hk : keeps now liveness Facts.statusMaster (Filter.browserQuery f) x.row <;>
    cases hs : FilterSpec.selected now liveness Facts.statusMaster
      ((Filter.browserQuery f).map FilterSpec.ofFilter) (FilterSpec.toServer x.row) <;>
    simp_all

/-- **Selection, registry order**: the handler's listing for filter string `f` is the registry filtered by
C03's predicate, in registry order -/
theorem listing_eq_matching (recs : List Stored) (now liveness : Int) (f : Bytes) :
    listStored id recs now liveness Facts.statusMaster (Filter.browserQuery f) =
      recs.filter (matching now liveness f) := by
  rw [listStored_id]
  apply List.filter_congr
  intro s _
  exact keeps_eq_matching now liveness f s

/-- **Selection, any order**: whatever order the repository returns its result in, the handler's listing is a
permutation of the registry filtered by C03's predicate -/
theorem listing_perm_matching (order : List Stored → List Stored) (horder : ∀ l, (order l).Perm l)
    (recs : List Stored) (now liveness : Int) (f : Bytes) :
    (listStored order recs now liveness Facts.statusMaster (Filter.browserQuery f)).Perm
      (recs.filter (matching now liveness f)) := by
  have h := listStored_perm order horder recs now liveness Facts.statusMaster (Filter.browserQuery f)
  rw [listing_eq_matching] at h
  exact h

/-- the filter's clauses when the parser accepts the string: those it returned -/
theorem clausesOf_parsed (s : Bytes) (fs : List Filter.Filter) (h : Filter.newFromString s = .ok fs) :
    clausesOf s = fs.map FilterSpec.ofFilter := by
  unfold clausesOf; rw [C03.wellformed_is_used s fs h]

/-- the filter's clauses for a spelling `s` (lenient grammar, C03 `QueryText`) of the clause list `q`: `q` -/
theorem clausesOf_text (s : Bytes) (q : List FilterSpec.Clause) (h : FilterSpec.QueryText s q) : clausesOf s = q := by
  rw [clausesOf_parsed s _ (C03.parse_complete s q h), List.map_map]
  conv => rhs; rw [← List.map_id q]
  apply List.map_congr_left
  intro c _
  exact C03.ofFilter_toFilter c

/-- a filter string the parser rejects contributes no clause (C03 `malformed_is_blank`) -/
theorem clausesOf_malformed (s : Bytes) (e : Filter.ParseErr) (h : Filter.newFromString s = .error e) :
    clausesOf s = [] := by
  unfold clausesOf; rw [(C03.malformed_is_blank s e h).1]; rfl

/-- the empty filter string contributes no clause -/
theorem clausesOf_empty : clausesOf [] = [] := rfl

/-- the common core of the end-to-end theorems: the reply for a well-formed request that fits the read buffer
decodes to the promised list for the handler's own listing `listStored order …` -/
theorem browser_end_to_end_listing (order : List Stored → List Stored) (r : ListRequest) (h : WfReq r)
    (hfit : (encodeReq r).length ≤ readBufferSize)
    (hk : 1 ≤ (knownFields Cfg.facts.isQueryField r).length ∧
      (knownFields Cfg.facts.isQueryField r).length ≤ Cfg.facts.maxFields)
    (recs : List Stored) (now liveness : Int) (client : Client) (rnd : Crypt.Rnd) (defaultPort : Nat)
    (hrec : ∀ s ∈ listStored order recs now liveness Facts.statusMaster (Filter.browserQuery r.filter),
      Shaped Facts.infoSchema s.row.info ∧ s.ip.toBytes ≠ lastServerMarker) :
    ∃ reply, browserHandle order recs now liveness client rnd (encodeReq r) = .ok reply ∧
      clientDecode r.challenge reply defaultPort =
        some (expectedList Schema.facts client (knownFields Cfg.facts.isQueryField r)
          ((listStored order recs now liveness Facts.statusMaster (Filter.browserQuery r.filter)).map toSel)) := by
  have hparse := parse_encodeReq r h
  rw [if_neg (by omega), if_neg (by omega)] at hparse
  have e : (encodeReq r).take BrowserE2E.readBuffer = encodeReq r := List.take_of_length_le hfit
  have hp : parseRequest Cfg.facts ((encodeReq r).take BrowserE2E.readBuffer) =
      .ok { filters := r.filter, fields := knownFields Cfg.facts.isQueryField r, challenge := r.challenge } := by
    rw [e]; exact hparse
  rw [browserHandle_ok order recs now liveness client rnd (encodeReq r) _ hp]
  have hwt : ∀ s ∈ (listStored order recs now liveness Facts.statusMaster (Filter.browserQuery r.filter)).map toSel,
      WellTyped Schema.facts s.info := by
    intro s hs
    obtain ⟨x, hx, rfl⟩ := List.mem_map.1 hs
    have := (hrec x hx).1
    rw [schemas_agree.1] at this
    exact wellTyped_infoVals _ _ this
  have hip : ∀ s ∈ (listStored order recs now liveness Facts.statusMaster (Filter.browserQuery r.filter)).map toSel,
      s.ip.toBytes ≠ lastServerMarker := by
    intro s hs
    obtain ⟨x, hx, rfl⟩ := List.mem_map.1 hs
    exact (hrec x hx).2
  exact C01_main_bounded r h hfit hk client _ hwt hip rnd defaultPort

/-- **C01 ∘ C03, end to end, registry order.**  For every well-formed list request `r` of at most 2048 bytes
with between one and `MaxAllowedNumberOfFields` known fields, every registry `recs`, clock value, liveness,
requester address and 23 header draws — the matching servers being records of the `details.Info` shape and
none of them having the all-ones address — the handler, given the bytes of `r`, replies; and the reply,
decrypted by the stock SDK cipher with the game key and the request's challenge and decoded by the SDK framing
rules, is exactly: the requester's IPv4 and `port % 65536`; the known fields of `r` in request order; one entry
(IPv4, `uint16` query port, the stored value of every declared field as `params.Marshal` renders it, NULs
dropped — `entryOf_eq`) per stored server that carries status `master`, was refreshed at or after
`now − liveness` and satisfies every clause of `r.filter` (none when `r.filter` is empty or rejected) — exactly
`recs.filter (matching now liveness r.filter)`, C03's predicate — in registry order (the filter model's order;
for the Go order see `browser_end_to_end_any_order`); the end marker; nothing after it. -/
theorem browser_end_to_end (r : ListRequest) (h : WfReq r)
    (hfit : (encodeReq r).length ≤ readBufferSize)
    (hk : 1 ≤ (knownFields Cfg.facts.isQueryField r).length ∧
      (knownFields Cfg.facts.isQueryField r).length ≤ Cfg.facts.maxFields)
    (recs : List Stored) (now liveness : Int) (client : Client) (rnd : Crypt.Rnd) (defaultPort : Nat)
    (hrec : ∀ s ∈ recs, matching now liveness r.filter s = true →
      Shaped Facts.infoSchema s.row.info ∧ s.ip.toBytes ≠ lastServerMarker) :
    ∃ reply, browserHandle id recs now liveness client rnd (encodeReq r) = .ok reply ∧
      clientDecode r.challenge reply defaultPort =
        some (expectedList Schema.facts client (knownFields Cfg.facts.isQueryField r)
          ((recs.filter (matching now liveness r.filter)).map toSel)) := by
  have hl := listing_eq_matching recs now liveness r.filter
  have := browser_end_to_end_listing id r h hfit hk recs now liveness client rnd defaultPort (by
    intro s hs
    rw [hl, List.mem_filter] at hs
    exact hrec s hs.1 hs.2)
  rw [hl] at this
  exact this

/-- **C01 ∘ C03, end to end, the Go listing order.**  As `browser_end_to_end`, for every order the repository may
return its result in (`order` permutes its argument — Go map iteration): the reply decodes to the promised
list for a listing that is a permutation of `recs.filter (matching now liveness r.filter)`. -/
theorem browser_end_to_end_any_order (order : List Stored → List Stored) (horder : ∀ l, (order l).Perm l)
    (r : ListRequest) (h : WfReq r) (hfit : (encodeReq r).length ≤ readBufferSize)
    (hk : 1 ≤ (knownFields Cfg.facts.isQueryField r).length ∧
      (knownFields Cfg.facts.isQueryField r).length ≤ Cfg.facts.maxFields)
    (recs : List Stored) (now liveness : Int) (client : Client) (rnd : Crypt.Rnd) (defaultPort : Nat)
    (hrec : ∀ s ∈ recs, matching now liveness r.filter s = true →
      Shaped Facts.infoSchema s.row.info ∧ s.ip.toBytes ≠ lastServerMarker) :
    ∃ (reply : Bytes) (listing : List Stored), browserHandle order recs now liveness client rnd (encodeReq r) = .ok reply ∧
      listing.Perm (recs.filter (matching now liveness r.filter)) ∧
      clientDecode r.challenge reply defaultPort =
        some (expectedList Schema.facts client (knownFields Cfg.facts.isQueryField r) (listing.map toSel)) := by
  have hp := listing_perm_matching order horder recs now liveness r.filter
  obtain ⟨reply, h1, h2⟩ := browser_end_to_end_listing order r h hfit hk recs now liveness client rnd defaultPort (by
    intro s hs
    have hs' := hp.mem_iff.1 hs
    rw [List.mem_filter] at hs'
    exact hrec s hs'.1 hs'.2)
  exact ⟨reply, _, h1, hp, h2⟩

/-- the entries of the promised list are `entryOf` of the listed servers -/
theorem expectedList_entries (client : Client) (fields : List Bytes) (listing : List Stored) :
    (expectedList Schema.facts client fields (listing.map toSel)).entries = listing.map (entryOf fields) := by
  unfold expectedList
  simp only [List.map_map]
  rfl

/-- **Only matching servers are listed** (any listing order).  Every entry of the decoded reply is the entry
of a stored server that carries status `master`, was refreshed at or after `now − liveness` and satisfies every
clause of the request's filter.  So a server that fails any of the three conditions does not appear (unless a
matching server has the very same IPv4, query port and field values — then the entry is that server's): the
second conjunct. -/
theorem browser_lists_only_matching (order : List Stored → List Stored) (horder : ∀ l, (order l).Perm l)
    (r : ListRequest) (h : WfReq r) (hfit : (encodeReq r).length ≤ readBufferSize)
    (hk : 1 ≤ (knownFields Cfg.facts.isQueryField r).length ∧
      (knownFields Cfg.facts.isQueryField r).length ≤ Cfg.facts.maxFields)
    (recs : List Stored) (now liveness : Int) (client : Client) (rnd : Crypt.Rnd) (defaultPort : Nat)
    (hrec : ∀ s ∈ recs, matching now liveness r.filter s = true →
      Shaped Facts.infoSchema s.row.info ∧ s.ip.toBytes ≠ lastServerMarker)
    (reply : Bytes) (hreply : browserHandle order recs now liveness client rnd (encodeReq r) = .ok reply)
    (dec : ServerList) (hdec : clientDecode r.challenge reply defaultPort = some dec) :
    (∀ e ∈ dec.entries, ∃ s ∈ recs, matching now liveness r.filter s = true ∧
      e = entryOf (knownFields Cfg.facts.isQueryField r) s) ∧
    (∀ s, matching now liveness r.filter s = false →
      (∀ s' ∈ recs, matching now liveness r.filter s' = true →
        entryOf (knownFields Cfg.facts.isQueryField r) s' ≠ entryOf (knownFields Cfg.facts.isQueryField r) s) →
      entryOf (knownFields Cfg.facts.isQueryField r) s ∉ dec.entries) := by
  obtain ⟨reply', listing, h1, hp, h2⟩ :=
    browser_end_to_end_any_order order horder r h hfit hk recs now liveness client rnd defaultPort hrec
  rw [hreply] at h1
  cases h1
  rw [hdec] at h2
  cases h2
  have hall : ∀ e ∈ (expectedList Schema.facts client (knownFields Cfg.facts.isQueryField r) (listing.map toSel)).entries,
      ∃ s ∈ recs, matching now liveness r.filter s = true ∧ e = entryOf (knownFields Cfg.facts.isQueryField r) s := by
    intro e he
    rw [expectedList_entries] at he
    obtain ⟨s, hs, rfl⟩ := List.mem_map.1 he
    have hs' := hp.mem_iff.1 hs
    rw [List.mem_filter] at hs'
    exact ⟨s, hs'.1, hs'.2, rfl⟩
  refine ⟨hall, ?_⟩
  intro s _ hne hmem
  obtain ⟨s', hs', hm', he⟩ := hall _ hmem
  exact hne s' hs' hm' he.symm

/-- **Every matching server is listed, as often as it is stored** (any listing order).  The entry of every stored
server that carries status `master`, was refreshed at or after `now − liveness` and satisfies every clause of the
request's filter is in the decoded reply; the reply has exactly as many entries as there are matching servers;
every entry value occurs exactly as often as there are matching servers with that entry; hence, when the matching
servers have pairwise distinct entries (e.g. distinct IPv4 / query port pairs), each of them appears exactly once. -/
theorem browser_lists_all_matching (order : List Stored → List Stored) (horder : ∀ l, (order l).Perm l)
    (r : ListRequest) (h : WfReq r) (hfit : (encodeReq r).length ≤ readBufferSize)
    (hk : 1 ≤ (knownFields Cfg.facts.isQueryField r).length ∧
      (knownFields Cfg.facts.isQueryField r).length ≤ Cfg.facts.maxFields)
    (recs : List Stored) (now liveness : Int) (client : Client) (rnd : Crypt.Rnd) (defaultPort : Nat)
    (hrec : ∀ s ∈ recs, matching now liveness r.filter s = true →
      Shaped Facts.infoSchema s.row.info ∧ s.ip.toBytes ≠ lastServerMarker)
    (reply : Bytes) (hreply : browserHandle order recs now liveness client rnd (encodeReq r) = .ok reply)
    (dec : ServerList) (hdec : clientDecode r.challenge reply defaultPort = some dec) :
    (∀ s ∈ recs, matching now liveness r.filter s = true →
      entryOf (knownFields Cfg.facts.isQueryField r) s ∈ dec.entries) ∧
    dec.entries.length = (recs.filter (matching now liveness r.filter)).length ∧
    (∀ e, dec.entries.count e =
      ((recs.filter (matching now liveness r.filter)).map (entryOf (knownFields Cfg.facts.isQueryField r))).count e) ∧
    (((recs.filter (matching now liveness r.filter)).map (entryOf (knownFields Cfg.facts.isQueryField r))).Nodup →
      ∀ s ∈ recs, matching now liveness r.filter s = true →
        dec.entries.count (entryOf (knownFields Cfg.facts.isQueryField r) s) = 1) := by
  obtain ⟨reply', listing, h1, hp, h2⟩ :=
    browser_end_to_end_any_order order horder r h hfit hk recs now liveness client rnd defaultPort hrec
  rw [hreply] at h1
  cases h1
  rw [hdec] at h2
  cases h2
  rw [expectedList_entries]
  have hpm := hp.map (entryOf (knownFields Cfg.facts.isQueryField r))
  have hmem : ∀ s ∈ recs, matching now liveness r.filter s = true →
      entryOf (knownFields Cfg.facts.isQueryField r) s ∈
        (recs.filter (matching now liveness r.filter)).map (entryOf (knownFields Cfg.facts.isQueryField r)) :=
    fun s hs hm => List.mem_map.2 ⟨s, List.mem_filter.2 ⟨hs, hm⟩, rfl⟩
  refine ⟨fun s hs hm => hpm.mem_iff.2 (hmem s hs hm), ?_, fun e => hpm.count_eq e, ?_⟩
  · rw [List.length_map]; exact hp.length_eq
  · intro hnd s hs hm
    rw [hpm.count_eq, hnd.count, if_pos (hmem s hs hm)]

/-- **A filter string that does not parse lists all live reported servers** (any listing order).  When
`query.NewFromString` rejects the request's filter string — for whatever reason — the handler still replies, and
the reply decodes to the list of (a permutation of) ALL stored servers that carry status `master` and were
refreshed at or after `now − liveness`: the filter degrades to no filtering, never to an error or an empty list. -/
theorem browser_malformed_filter_lists_all_live (order : List Stored → List Stored) (horder : ∀ l, (order l).Perm l)
    (r : ListRequest) (h : WfReq r) (hfit : (encodeReq r).length ≤ readBufferSize)
    (hk : 1 ≤ (knownFields Cfg.facts.isQueryField r).length ∧
      (knownFields Cfg.facts.isQueryField r).length ≤ Cfg.facts.maxFields)
    (e : Filter.ParseErr) (hbad : Filter.newFromString r.filter = .error e)
    (recs : List Stored) (now liveness : Int) (client : Client) (rnd : Crypt.Rnd) (defaultPort : Nat)
    (hrec : ∀ s ∈ recs, FilterSpec.selected now liveness Facts.statusMaster [] (FilterSpec.toServer s.row) = true →
      Shaped Facts.infoSchema s.row.info ∧ s.ip.toBytes ≠ lastServerMarker) :
    ∃ (reply : Bytes) (listing : List Stored), browserHandle order recs now liveness client rnd (encodeReq r) = .ok reply ∧
      listing.Perm (recs.filter fun s =>
        FilterSpec.selected now liveness Facts.statusMaster [] (FilterSpec.toServer s.row)) ∧
      clientDecode r.challenge reply defaultPort =
        some (expectedList Schema.facts client (knownFields Cfg.facts.isQueryField r) (listing.map toSel)) := by
  have hm : matching now liveness r.filter = fun s =>
      FilterSpec.selected now liveness Facts.statusMaster [] (FilterSpec.toServer s.row) := by
    funext s
    unfold matching
    rw [clausesOf_malformed r.filter e hbad]
  have := browser_end_to_end_any_order order horder r h hfit hk recs now liveness client rnd defaultPort (by
    rw [hm]; exact hrec)
  rw [hm] at this
  exact this

/-- what "live reported" means, spelt out: the blank selection is "has the `master` bit and was refreshed at or
after `now − liveness`" -/
theorem selected_blank (now liveness : Int) (sv : FilterSpec.Server) :
    FilterSpec.selected now liveness Facts.statusMaster [] sv = true ↔
      sv.status &&& 2 = 2 ∧ ∃ t, sv.refreshedAt = .at t ∧ now - liveness ≤ t := by
  unfold FilterSpec.selected
  cases hr : sv.refreshedAt with
  | zero => simp
  | «at» t =>
    simp [Facts.statusMaster, and_comm]
    intro _
    exact decide_eq_true_iff

end Swat4.C01

/-! ## non-vacuity of the end-to-end theorems: a concrete registry, request and decoded reply

Four stored servers — one dead (refreshed before `now − liveness`), one live with no players (fails the filter),
one live with three players refreshed exactly at `now − liveness` (matches; the bound is inclusive), one live
with players but without the `master` status — and the request `\hostname\ping\numplayers` with the filter
`numplayers>0`.  Everything below is evaluated by the kernel (`decide`), except the cipher: the 256-round key
schedule is too slow for kernel evaluation, so the decoded reply is computed on the plaintext `packServers`
produces (`plaintext_decodes`) and transferred to the encrypted reply by `browser_end_to_end` (`reply_decodes`). -/
namespace Swat4.C01.E2EExample
open Swat4 Swat4.Browsing Swat4.SBList Swat4.BrowserE2E

/-- a record of the `details.Info` shape: the given host name and player count, every other field zero -/
def info (host : String) (numplayers : Int) : Swat4.Info :=
  Facts.infoSchema.map fun e =>
    (e.1, if e.1 = Bytes.ofAscii "hostname" then Value.str (Bytes.ofAscii host)
          else if e.1 = Bytes.ofAscii "numplayers" then Value.int numplayers
          else match e.2 with
            | 0 => Value.int 0
            | 1 => Value.bool false
            | _ => Value.str [])

def dead : Stored := ⟨⟨"1.1.1.1:10480", 6, .at 800, info "dead" 5⟩, ⟨1, 1, 1, 1⟩, 10480, 10481⟩
def empty : Stored := ⟨⟨"1.1.1.2:10480", 6, .at 950, info "empty" 0⟩, ⟨1, 1, 1, 2⟩, 10480, 10481⟩
def busy : Stored := ⟨⟨"1.1.1.3:10480", 6, .at 900, info "busy" 3⟩, ⟨1, 1, 1, 3⟩, 10480, 75017⟩
def unlisted : Stored := ⟨⟨"1.1.1.4:10480", 4, .at 990, info "unlisted" 7⟩, ⟨1, 1, 1, 4⟩, 10480, 10481⟩

def registry : List Stored := [dead, empty, busy, unlisted]

def req : ListRequest :=
  { header := [0, 1, 3, 0, 0, 0, 0], gameName := Bytes.ofAscii "swat4", queryGame := Bytes.ofAscii "swat4", challenge := #v[1, 2, 3, 4, 5, 6, 0, 0xff], filter := Bytes.ofAscii "numplayers>0", rawFields := [Bytes.ofAscii "hostname", Bytes.ofAscii "ping", Bytes.ofAscii "numplayers"], withFields := false }

def client : Client := ⟨⟨10, 0, 0, 9⟩, 70000⟩

/-- what the client must see: its own address (port mod 65536), the two known fields, the one matching server
with its query port mod 65536 and its stored host name and player count -/
def seen : ServerList :=
  { clientIp := [10, 0, 0, 9], clientPort := 4464, fields := [Bytes.ofAscii "hostname", Bytes.ofAscii "numplayers"],
    entries := [{ ip := [1, 1, 1, 3], port := 9481, values := [Bytes.ofAscii "busy", Bytes.ofAscii "3"] }], trailing := [] }

theorem req_wf : WfReq req := ⟨by decide, by decide, by decide, by decide, by decide, by decide⟩
theorem req_fits : (encodeReq req).length ≤ readBufferSize := by decide
theorem req_known : knownFields Cfg.facts.isQueryField req = [Bytes.ofAscii "hostname", Bytes.ofAscii "numplayers"] := by decide

/-- the filter string parses to the one clause `numplayers > 0` -/
example : clausesOf req.filter = [⟨Bytes.ofAscii "numplayers", .gt, .int 0⟩] := by decide

/-- every stored record has the struct's shape and no server has the end-marker address (hypothesis `hrec`) -/
theorem registry_ok : ∀ s ∈ registry, matching 1000 100 req.filter s = true →
    Shaped Facts.infoSchema s.row.info ∧ s.ip.toBytes ≠ lastServerMarker := by decide

/-- C03's predicate on the four servers: dead, not matching, matching, not `master` -/
example : registry.map (matching 1000 100 req.filter) = [false, false, true, false] := by decide

/-- the selection, computed by the model's own `Filter.listServers` -/
example : (Filter.listServers (registry.map (·.row)) 1000 100 Facts.statusMaster (Filter.browserQuery req.filter)).map (·.addr) =
    ["1.1.1.3:10480"] := by decide

/-- the promised list for this registry and request is `seen` -/
theorem expected_eq : expectedList Schema.facts client (knownFields Cfg.facts.isQueryField req)
    ((registry.filter (matching 1000 100 req.filter)).map toSel) = seen := by decide

/-- the model itself, up to the cipher: the plaintext `packServers` produces for the handler's own listing
decodes (SDK framing) to `seen` — computed, not derived from the theorems -/
theorem plaintext_decodes :
    sdkDecode (packServers Schema.facts client [Bytes.ofAscii "hostname", Bytes.ofAscii "numplayers"]
      ((listStored id registry 1000 100 Facts.statusMaster (Filter.browserQuery req.filter)).map toSel)) 0 = some seen := by
  decide

/-- `browser_end_to_end` on the concrete instance: for every 23 header draws the handler replies to the bytes of
`req`, and the stock client decodes the reply to `seen` -/
theorem reply_decodes (rnd : Crypt.Rnd) :
    ∃ reply, browserHandle id registry 1000 100 client rnd (encodeReq req) = .ok reply ∧
      clientDecode req.challenge reply 0 = some seen := by
  have h := browser_end_to_end req req_wf req_fits (by rw [req_known]; decide) registry 1000 100 client rnd 0 registry_ok
  rw [expected_eq] at h
  exact h

/-- the matching servers have pairwise distinct entries (hypothesis of the "exactly once" clause of
`browser_lists_all_matching`) -/
example : ((registry.filter (matching 1000 100 req.filter)).map
    (entryOf (knownFields Cfg.facts.isQueryField req))).Nodup := by decide

/-- a request whose filter string does not parse (`numplayers>`: nothing after the operator) -/
def reqBad : ListRequest := { req with filter := Bytes.ofAscii "numplayers>" }

theorem reqBad_wf : WfReq reqBad := ⟨by decide, by decide, by decide, by decide, by decide, by decide⟩
theorem reqBad_rejected : Filter.newFromString reqBad.filter = .error .format := rfl

/-- the two live `master` servers — with and without players — in registry order -/
def seenAll : ServerList :=
  { seen with entries := [{ ip := [1, 1, 1, 2], port := 10481, values := [Bytes.ofAscii "empty", Bytes.ofAscii "0"] },
                          { ip := [1, 1, 1, 3], port := 9481, values := [Bytes.ofAscii "busy", Bytes.ofAscii "3"] }] }

/-- `browser_malformed_filter_lists_all_live` on the concrete instance (registry order): the reply lists both
live `master` servers -/
theorem reply_decodes_malformed (rnd : Crypt.Rnd) :
    ∃ reply, browserHandle id registry 1000 100 client rnd (encodeReq reqBad) = .ok reply ∧
      clientDecode reqBad.challenge reply 0 = some seenAll := by
  have hk : knownFields Cfg.facts.isQueryField reqBad = [Bytes.ofAscii "hostname", Bytes.ofAscii "numplayers"] := by decide
  have h := browser_end_to_end reqBad reqBad_wf (by decide) (by rw [hk]; decide) registry 1000 100 client rnd 0 (by decide)
  have e : expectedList Schema.facts client (knownFields Cfg.facts.isQueryField reqBad)
      ((registry.filter (matching 1000 100 reqBad.filter)).map toSel) = seenAll := by decide
  rw [e] at h
  exact h

/-- `browser_malformed_filter_lists_all_live` applies to `reqBad` (its hypothesis `hbad` is `reqBad_rejected`), here
with the repository returning its result reversed (an `order` other than the registry's) -/
example (rnd : Crypt.Rnd) :
    ∃ (reply : Bytes) (listing : List Stored), browserHandle List.reverse registry 1000 100 client rnd (encodeReq reqBad) = .ok reply ∧
      listing.Perm [empty, busy] ∧
      clientDecode reqBad.challenge reply 0 =
        some (expectedList Schema.facts client [Bytes.ofAscii "hostname", Bytes.ofAscii "numplayers"] (listing.map toSel)) := by
  have hk : knownFields Cfg.facts.isQueryField reqBad = [Bytes.ofAscii "hostname", Bytes.ofAscii "numplayers"] := by decide
  have h := browser_malformed_filter_lists_all_live List.reverse (fun l => List.reverse_perm l) reqBad reqBad_wf (by decide)
    (by rw [hk]; decide) .format reqBad_rejected registry 1000 100 client rnd 0 (by decide)
  have e : (registry.filter fun s =>
      FilterSpec.selected 1000 100 Facts.statusMaster [] (FilterSpec.toServer s.row)) = [empty, busy] := by rfl
  rw [e, hk] at h
  exact h

/-- with that order the model's own listing is `[busy, empty]` — not the registry's order, a permutation of it -/
example : (listStored List.reverse registry 1000 100 Facts.statusMaster (Filter.browserQuery reqBad.filter)).map (·.row.addr) =
    ["1.1.1.3:10480", "1.1.1.2:10480"] := by decide

end Swat4.C01.E2EExample

/-! ## "integers in decimal": what `Browsing.decimal` writes

The reference renderer `SBList.renderVal` calls the model's `Browsing.decimal`, so on its own the
clause "integers are rendered in decimal" would compare the model with itself.  The theorems below
characterise the bytes without mentioning `decimal` on the right-hand side. -/
namespace Swat4.C01
open Swat4 Swat4.Browsing Swat4.SBList

/-- "integers in decimal" (C01), shape and value: for every integer `i` the rendering is an optional
`-` (present exactly when `i < 0`) followed by a non-empty run `ds` of ASCII digits `0`–`9` whose
positional value is `|i|` and which starts with `0` only when it is the single digit `0`.  (So there is
no `+`, no leading zero, no `-0`, no other byte; these conditions determine the string.) -/
theorem decimal_spec (i : Int) :
    ∃ ds : Bytes, decimal i = (if i < 0 then [0x2d] else []) ++ ds ∧ ds ≠ [] ∧
      (∀ d ∈ ds, (0x30 : UInt8) ≤ d ∧ d ≤ 0x39) ∧
      ds.foldl (fun a d => a * 10 + (d.toNat - 48)) 0 = i.natAbs ∧
      (ds.head? = some 0x30 → ds = [0x30]) := by
  rw [Decimal.decimal_eq_renderInt]
  unfold FilterSpec.renderInt
  split
  · have ⟨h1, h2, h3, h4⟩ := Decimal.natDigits_spec i.natAbs
    refine ⟨_, rfl, h1, h2, h3, ?_⟩
    intro hh
    rw [h4 hh]; exact Decimal.natDigits_zero
  · have ⟨h1, h2, h3, h4⟩ := Decimal.natDigits_spec i.toNat
    refine ⟨_, by simp, h1, h2, ?_, ?_⟩
    · rw [show (FilterSpec.natDigits i.toNat).foldl (fun a d => a * 10 + (d.toNat - 48)) 0 = i.toNat from h3]; omega
    · intro hh
      rw [h4 hh]; exact Decimal.natDigits_zero

/-- "integers in decimal" (C01), read-back: the independently written model of `strconv.Atoi`
(`Filter.atoi`, C03) parses the rendering of every int64 back to the same integer. -/
theorem decimal_atoi (i : Int) (h1 : -(2 : Int) ^ 63 ≤ i) (h2 : i < (2 : Int) ^ 63) :
    Filter.atoi (decimal i) = some i := by
  rw [Decimal.decimal_eq_renderInt]
  exact Filter.atoi_renderInt i h1 h2

/-- "integers in decimal" (C01): the rendering never contains `+` (nor any byte other than `-` and digits) -/
theorem decimal_bytes (i : Int) : ∀ b ∈ decimal i, b = 0x2d ∨ ((0x30 : UInt8) ≤ b ∧ b ≤ 0x39) := by
  have ⟨ds, e, _, hd, _, _⟩ := decimal_spec i
  intro b hb
  rw [e, List.mem_append] at hb
  cases hb with
  | inl hb => left; split at hb <;> simp_all
  | inr hb => right; exact hd b hb

theorem decimal_no_plus (i : Int) : (0x2b : UInt8) ∉ decimal i := by
  intro h
  cases decimal_bytes i _ h with
  | inl h => exact absurd h (by decide)
  | inr h => exact absurd h.1 (by decide)

/-- the rendering is the filter spec's canonical numeral `FilterSpec.renderInt` (explicit `/10`, `%10`
recursion, written without `Nat.toDigits`) -/
theorem decimal_eq_renderInt (i : Int) : decimal i = FilterSpec.renderInt i := Decimal.decimal_eq_renderInt i

/-- the hypotheses of `decimal_atoi` hold at both ends of int64, and `decimal_spec` on concrete numbers -/
example : Filter.atoi (decimal (-(2 : Int) ^ 63)) = some (-(2 : Int) ^ 63) ∧
    Filter.atoi (decimal ((2 : Int) ^ 63 - 1)) = some ((2 : Int) ^ 63 - 1) :=
  ⟨decimal_atoi _ (by decide) (by decide), decimal_atoi _ (by decide) (by decide)⟩
example : decimal (-120) = Bytes.ofAscii "-120" ∧ decimal 0 = Bytes.ofAscii "0" ∧ decimal 9481 = Bytes.ofAscii "9481" := by decide

end Swat4.C01

/-! # Additions (review round 3): the C01 driver's reconstruction of the header draws -/
namespace Swat4.C01
open Swat4 Swat4.Browsing Swat4.SBList Swat4.BrowserE2E

/-- **the C01 driver's `recoverRnd` is justified** (reviewer section 3 item 8): `Drv.C01.compareReply` reconstructs the 23
header draws of the reply under `Facts.gameEncKey` and the parsed request's challenge and runs the handler model
`browserHandle` with them.  If the reply `out` is what the handler model answers for the real, unobservable draws `rnd`, the
reconstruction succeeds, yields `Crypt.recovered gameKey req.challenge rnd` (`rnd` at every position that reaches the output:
`C02.recoverRnd_agrees`), and the handler model run with it answers exactly `out` — so the driver's comparison "model with
recovered draws = reply" holds iff "model with the real draws = reply". -/
theorem recoverRnd_reply (order : List Stored → List Stored) (recs : List Stored) (now liveness : Int)
    (client : Client) (rnd : Crypt.Rnd) (sent : Bytes) (req : Request) (out : Bytes)
    (hreq : parseRequest Cfg.facts (sent.take readBuffer) = .ok req)
    (h : browserHandle order recs now liveness client rnd sent = .ok out) :
    Drv.toVec? 23 (Drv.C01.recoverRnd Facts.gameEncKey req.challenge.toList out) =
      some (Crypt.recovered gameKey req.challenge rnd) ∧
    browserHandle order recs now liveness client (Crypt.recovered gameKey req.challenge rnd) sent = .ok out :=
  BrowserE2E.browserHandle_recovered order recs now liveness client rnd sent req out hreq h

end Swat4.C01
