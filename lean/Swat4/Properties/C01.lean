import Swat4.Lemmas.Browsing
import Swat4.Properties.C02
import Swat4.Spec.ServerList
import Swat4.Spec.ServerListExpected
import Swat4.Gen.Facts
/-!
# C01 — Server-list replies decode to exactly the selected servers

Property theorems only.  `Browsing.*` is the model of `browsing.NewRequest`, `params.Marshal` and
`browser.packServers`/`process`; `SBList.sdkDecode` is the SDK-side reference decoder and
`SBList.encodeReq` the definition of a well-formed request, both written independently of it.
-/
namespace Swat4.C01
open Swat4 Swat4.Browsing Swat4.SBList

/-- what the model and the theorems assume about the source (regenerated `Gen/Facts.lean`):
the 16-bit length must cover the 9 bytes the parser skips (so `data[9:dataLen]` cannot panic);
the field cap fits the one-byte key count; whitelisted names are non-empty and free of NUL and
backslash; every `Info` field has a kind `params.Marshal` supports, and parameter names are distinct. -/
theorem facts_ok :
    9 ≤ Facts.browsingMinRequestPayloadLength ∧ Facts.browsingMaxAllowedNumberOfFields ≤ 255 ∧
    (∀ f ∈ Facts.browsingQueryFields, f ≠ [] ∧ ∀ x ∈ f, x ≠ 0 ∧ x ≠ 0x5c) ∧
    (∀ e ∈ Facts.browsingInfoSchema, e.2 ≤ 2) ∧ (Facts.browsingInfoSchema.map (·.1)).Nodup := by decide


/-- **Decoding the packed list, any schema.**  For at most 255 NUL-free field names and servers none
of which carries the SDK's end-marker address, the SDK decoder applied to `packServers`' bytes
returns the requester's IPv4 and `port % 65536`, the declared fields in order, and one entry per
server *whose `Info` marshals* (`packServers` skips the others), in order — IPv4, `uint16` of the
query port, and per declared field the marshalled value with NUL bytes dropped (empty if the map
lacks the field) — followed by the end marker and nothing else. -/
theorem sdkDecode_pack_marshalled (schema : Schema) (client : Client) (fields : List Bytes) (servers : List Server)
    (defaultPort : Nat) (hf : fields.length ≤ 255) (hn : ∀ f ∈ fields, NulFree f)
    (hip : ∀ s ∈ servers, s.ip.toBytes ≠ lastServerMarker) :
    sdkDecode (packServers schema client fields servers) defaultPort =
      some { clientIp := client.ip.toBytes, clientPort := client.port % 65536, fields := fields, entries := (servers.filterMap (prepare schema)).map (entryOfPrepared fields), trailing := [] } :=
  sdkDecode_packServers schema client fields servers defaultPort hf hn hip

/-- **Decoding the packed list.**  If moreover parameter names are distinct and every record has
the types its schema declares (Go's typing), the decoded list is exactly `expectedList`: one entry
per server with the stored value of every declared field (integers in decimal, booleans `0`/`1`,
empty for a field the record lacks, NUL bytes dropped). -/
theorem sdkDecode_pack (schema : Schema) (client : Client) (fields : List Bytes) (servers : List Server)
    (defaultPort : Nat) (hf : fields.length ≤ 255) (hn : ∀ f ∈ fields, NulFree f)
    (hnd : (schema.map (·.1)).Nodup) (hwt : ∀ s ∈ servers, WellTyped schema s.info)
    (hip : ∀ s ∈ servers, s.ip.toBytes ≠ lastServerMarker) :
    sdkDecode (packServers schema client fields servers) defaultPort =
      some (expectedList schema client fields servers) := by
  rw [sdkDecode_packServers schema client fields servers defaultPort hf hn hip,
    filterMap_prepare_wellTyped schema servers hwt, List.map_map]
  unfold expectedList
  congr 2
  apply List.map_congr_left
  intro s _
  exact entryOfPrepared_renderAll schema fields s hnd

/-- **The parser is total**: for any configuration whose minimum length covers the nine skipped
bytes, no input makes `NewRequest` index or slice out of range (`panic`), and the field loop
always terminates within its fuel (`hang`). -/
theorem parse_total_cfg (cfg : Cfg) (h9 : 9 ≤ cfg.minLen) (data : Bytes) :
    parseRequest cfg data ≠ .panic ∧ parseRequest cfg data ≠ .hang := by
  have h := parseRequest_safe cfg h9 data
  constructor <;> intro e <;> rw [e] at h <;> exact h

/-- `parse_total_cfg` for the constants in the source -/
theorem parse_total (data : Bytes) :
    parseRequest Cfg.facts data ≠ .panic ∧ parseRequest Cfg.facts data ≠ .hang :=
  parse_total_cfg Cfg.facts facts_ok.1 data

/-- `binutils.ConsumeString` never panics and is the structural scanner `consumeS` -/
theorem consumeString_total (data : Bytes) (delim : UInt8) : consumeString data delim = .ok (consumeS delim data) :=
  consumeString_eq data delim

end Swat4.C01
