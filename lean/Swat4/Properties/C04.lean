import Swat4.Lemmas.ReporterRefine
import Swat4.Lemmas.ReporterPost
import Swat4.Lemmas.ReporterAccept
import Swat4.Properties.C05
/-!
# C04 — A valid heartbeat registers/refreshes the sender and gets the exact reply

Model: `Heartbeat.dispatch` (dispatcher, handlers, scanner, `addr.New`, `params.Unmarshal` + validator over the
generated `details.Info` schema, use cases `UC.report / renew / remove` run on the abstract registry).
Spec: `ReporterSpec` (`encodeHeartbeat`, `WfHeartbeat`, `absStep`), written from the property text.
`Rep.Inv` is the store invariant (rows stored under their own address key, ports in 1..65535); it holds for
the empty store and is preserved by every datagram (`C05.dispatch_safe`).

The refinement theorems (`heartbeat_refines`, `step_refines`, `history_is_fold`) say "model = `absStep`";
since `absStep` shares `infoOf`/`atoi`/`ipAccepted`/`toValidUTF8`/`Status.update` with the model, the clause
"the registry afterwards holds server S:H carrying exactly the reported info values …" is ALSO stated directly:
`heartbeat_post` (the postcondition field by field, `Rep.HeartbeatPost`), `infoOf_field` / `infoOf_named`
(every info value is the reading of the value reported under the field's own `param` key) and
`schema_params_pinned` (the field ↔ key table of the generated schema against a literal list written here).
-/
namespace Swat4.C04
open Swat4 Swat4.Heartbeat Swat4.ReporterSpec Swat4.Rep Std

/-- everything the model assumes about the generated facts: every `details.Info` field is an int, bool
or string; every `validate` tag is one the model implements for that kind; the fixed challenge has 6
bytes; the four message types are the protocol's and distinct; the zero `Info` has one value per field. -/
theorem facts_ok :
    (schema.all fun (_, _, kind, tags) => (kind = 0 ∨ kind = 1 ∨ kind = 2) ∧
      tags.all fun t => t = "required" ∨ (kind = 0 ∧ (t = "gt=0" ∨ t = "gte=0")) ∨ (kind = 2 ∧ t = "ratio")) = true
    ∧ Facts.reporterResponseChallenge.length = 6
    ∧ Facts.reporterMsgChallenge = 1 ∧ Facts.reporterMsgHeartbeat = 3
    ∧ Facts.reporterMsgKeepalive = 8 ∧ Facts.reporterMsgAvailable = 9
    ∧ Facts.reporterResponseIsAvailable = [0xFE, 0xFD, 0x09, 0, 0, 0, 0]
    ∧ zeroInfo.length = schema.length
    ∧ schema.map (·.2.2.1) = Facts.infoFieldKinds := by
  decide


theorem msg_facts : Facts.reporterMsgChallenge = 1 ∧ Facts.reporterMsgHeartbeat = 3 ∧ Facts.reporterMsgKeepalive = 8 ∧ Facts.reporterMsgAvailable = 9 := by decide

/-- **Challenge.** A challenge request (type 01, 4-byte instance id, anything after it) is answered
`FE FD 0A` + instance id and changes nothing. -/
theorem challenge_reply (cfg : Cfg) (st : AbsState) (srcIp srcPort : Nat) (now : Int) (id rest : Bytes)
    (hid : id.length = 4) :
    dispatch cfg st srcIp srcPort (0x01 :: (id ++ rest)) now = (st, .reply ([0xFE, 0xFD, 0x0A] ++ id)) := by
  have h1 : ((0x01 : UInt8).toNat = Facts.reporterMsgHeartbeat) = False := by decide
  have h2 : ((0x01 : UInt8).toNat = Facts.reporterMsgKeepalive) = False := by decide
  have h3 : ((0x01 : UInt8).toNat = Facts.reporterMsgChallenge) = True := by decide
  unfold dispatch
  simp only [h1, h2, h3, if_false, if_true]
  unfold handleChallenge
  rw [parseInstanceID_cons _ _ _ hid]
  rfl

/-- **Availability.** An availability request (type 09, any body) is answered `FE FD 09 00 00 00 00`. -/
theorem available_reply (cfg : Cfg) (st : AbsState) (srcIp srcPort : Nat) (now : Int) (rest : Bytes) :
    dispatch cfg st srcIp srcPort (0x09 :: rest) now = (st, .reply [0xFE, 0xFD, 0x09, 0, 0, 0, 0]) := by
  have h1 : ((0x09 : UInt8).toNat = Facts.reporterMsgHeartbeat) = False := by decide
  have h2 : ((0x09 : UInt8).toNat = Facts.reporterMsgKeepalive) = False := by decide
  have h3 : ((0x09 : UInt8).toNat = Facts.reporterMsgChallenge) = False := by decide
  have h4 : ((0x09 : UInt8).toNat = Facts.reporterMsgAvailable) = True := by decide
  unfold dispatch
  simp only [h1, h2, h3, h4, if_false, if_true]
  rfl

/-- **Reply bytes.** Whenever a heartbeat datagram is accepted (the dispatcher answers it), the answer is the
28 bytes `FE FD 01`, the instance id (`payload[1:5]`), the fixed 6-byte challenge, the lower-case hex of
`00 ‖ source IP ‖ uint16(source port)` (14 characters) and a trailing NUL. -/
theorem reply_bytes (cfg : Cfg) (st : AbsState) (srcIp srcPort : Nat) (now : Int) (rest b : Bytes)
    (h : (dispatch cfg st srcIp srcPort (0x03 :: rest) now).2 = .reply b) :
    b = [0xFE, 0xFD, 0x01] ++ rest.take 4 ++ Facts.reporterResponseChallenge ++
          hexLower (0 :: ipBytes srcIp ++ be16 srcPort) ++ [0]
    ∧ b.length = 28 ∧ (rest.take 4).length = 4 := by
  have h1 : ((0x03 : UInt8).toNat = Facts.reporterMsgHeartbeat) = True := by decide
  revert h
  unfold dispatch
  simp only [h1, if_true]
  unfold handleHeartbeat parseInstanceID
  by_cases hl : (0x03 :: rest).length < 5
  · rw [if_pos hl]; intro h; cases h
  · rw [if_neg hl]
    dsimp only
    have hid : (rest.take 4).length = 4 := by
      simp only [List.length_cons] at hl
      simp only [List.length_take]; omega
    cases parseHeartbeatParams (List.drop 5 (0x03 :: rest)) with
    | none => intro h; cases h
    | some fields =>
      dsimp only
      split
      · intro h; cases h
      · cases parseAddr srcIp fields with
        | none => intro h; cases h
        | some p =>
          dsimp only
          split
          · unfold finish
            intro h
            split at h <;> cases h
          · unfold finish
            intro h
            split at h
            · cases h
              have e : List.take 4 (List.drop 1 (0x03 :: rest)) = rest.take 4 := rfl
              unfold heartbeatReply
              rw [e, copyInto_self 4 _ hid, copyInto_self 6 _ (by decide)]
              refine ⟨rfl, ?_, hid⟩
              simp only [List.length_append, List.length_cons, List.length_nil, hexLower_length, hid, ipBytes, be16]
              have : Facts.reporterResponseChallenge.length = 6 := by decide
              omega
            · cases h



/-- **Scanner round trip.** On the body of every well-formed heartbeat the scanner returns exactly the
reported field map: reportable names only, each value passed through `ToValidUTF8(·, "?")`, a later
duplicate replacing an earlier one, unknown pairs skipped. -/
theorem parse_encodeHeartbeat (d : Hb) (hwf : WfHeartbeat d) :
    parseInstanceID (encodeHeartbeat d) = some (d.id, encodePairs d.kvs ++ d.trailer) ∧
    parseHeartbeatParams (encodePairs d.kvs ++ d.trailer) = some (fieldsOf d.kvs) := by
  simp only [WfHeartbeat, wfHeartbeat, Bool.and_eq_true, beq_iff_eq] at hwf
  obtain ⟨⟨hid, hkvs⟩, htr⟩ := hwf
  constructor
  · unfold encodeHeartbeat parseInstanceID
    have : ¬ ((3 :: (d.id ++ (encodePairs d.kvs ++ d.trailer))).length < 5) := by simp [hid]
    rw [if_neg this]
    have e1 : ((3 :: (d.id ++ (encodePairs d.kvs ++ d.trailer))).drop 1).take 4 = d.id := by
      show (d.id ++ _).take 4 = d.id
      exact List.take_left' hid
    have e2 : (3 :: (d.id ++ (encodePairs d.kvs ++ d.trailer))).drop 5 = encodePairs d.kvs ++ d.trailer := by
      show (d.id ++ _).drop 4 = _
      exact List.drop_left' hid
    rw [e1, e2]
  · unfold parseHeartbeatParams
    exact parseParamsAux_encode d.trailer htr d.kvs hkvs [] _ (Nat.le_refl _)


theorem heartbeatReply_eq (id : Bytes) (hid : id.length = 4) (srcIp srcPort : Nat) :
    heartbeatReply id srcIp srcPort = replyBytes id srcIp srcPort := by
  unfold heartbeatReply replyBytes
  rw [copyInto_self 4 id hid, copyInto_self 6 _ (by decide)]
  rfl

theorem replyOf_finish (r : AbsState × Except UC.UErr Unit) (b : Bytes) :
    replyOf (finish r (.reply b)).2 = if isOk r.2 then some b else none := by
  unfold finish
  cases r.2 <;> rfl

theorem replyOf_finish_silent (r : AbsState × Except UC.UErr Unit) : replyOf (finish r .silent).2 = none := by
  unfold finish
  cases r.2 <;> rfl

/-- the handler after the scanner, against the abstract step -/
theorem handle_fields_refines (cfg : Cfg) (st : AbsState) (hinv : Inv st) (d : Hb) (hid : d.id.length = 4)
    (srcIp srcPort : Nat) (now : Int) :
    let f := fieldsOf d.kvs
    let r : AbsState × Outcome :=
      if f.isEmpty then (st, .err)
      else
        match parseAddr srcIp f with
        | none => (st, .err)
        | some (a, qp) =>
          if f.get? kStatechanged = some [0x32] then finish ((UC.remove (idNat d.id) a).run st now) .silent
          else finish ((UC.report zeroInfo cfg.maxRetries ⟨a, qp, idNat d.id, infoOf f⟩).run st now)
                (.reply (heartbeatReply d.id srcIp srcPort))
    r.1 = (absStep cfg st srcIp srcPort (.heartbeat d) now).1 ∧
    replyOf r.2 = (absStep cfg st srcIp srcPort (.heartbeat d) now).2 := by
  intro f r
  show r.1 = _ ∧ replyOf r.2 = _
  unfold absStep
  simp only [show fieldsOf d.kvs = f from rfl]
  by_cases he : f.isEmpty = true
  · -- no reportable field at all: nothing to look up
    have hnil : f = [] := by simpa using he
    have hr : r = (st, .err) := by simp only [r, he, if_true]
    rw [hr, hnil]
    exact ⟨rfl, rfl⟩
  · have hr : r = (match parseAddr srcIp f with
        | none => (st, .err)
        | some (a, qp) =>
          if f.get? kStatechanged = some [0x32] then finish ((UC.remove (idNat d.id) a).run st now) .silent
          else finish ((UC.report zeroInfo cfg.maxRetries ⟨a, qp, idNat d.id, infoOf f⟩).run st now)
                (.reply (heartbeatReply d.id srcIp srcPort))) := by
      simp only [r, he, Bool.false_eq_true, if_false]
    rw [hr]
    unfold parseAddr parseNumericField
    cases hh : f.get? kHostport with
    | none => exact ⟨rfl, rfl⟩
    | some hv =>
      cases hha : atoi hv with
      | none => simp only [Option.bind_some, hha]; first | exact ⟨rfl, rfl⟩ | exact ⟨trivial, trivial⟩ | trivial
      | some hostport =>
        cases hl : f.get? kLocalport with
        | none => simp only [Option.bind_some, Option.bind_none, hha]; first | exact ⟨rfl, rfl⟩ | exact ⟨trivial, trivial⟩ | trivial
        | some lv =>
          cases hla : atoi lv with
          | none => simp only [Option.bind_some, hha, hla]; first | exact ⟨rfl, rfl⟩ | exact ⟨trivial, trivial⟩ | trivial
          | some localport =>
            simp only [Option.bind_some, hha, hla]
            unfold addrNew
            by_cases hp : hostport < 1 ∨ hostport > 65535
            · rw [if_pos hp]
              have : (hostport < 1 ∨ hostport > 65535 ∨ (!ipAccepted srcIp) = true) := by
                cases hp with
                | inl h => exact Or.inl h
                | inr h => exact Or.inr (Or.inl h)
              rw [if_pos this]
              exact ⟨rfl, rfl⟩
            · rw [if_neg hp]
              by_cases hipa : ipAccepted srcIp = true
              · have hn : ¬ (hostport < 1 ∨ hostport > 65535 ∨ (!ipAccepted srcIp) = true) := by
                  simp only [hipa, Bool.not_true, Bool.false_eq_true, or_false]; exact hp
                rw [if_pos hipa, if_neg hn]
                dsimp only
                have hok : (⟨srcIp, hostport⟩ : Addr).PortOk := by
                  unfold Addr.PortOk; dsimp only; omega
                by_cases hs : f.get? kStatechanged = some [0x32]
                · rw [if_pos hs, if_pos hs]
                  refine ⟨?_, ?_⟩
                  · show ((UC.remove (idNat d.id) ⟨srcIp, hostport⟩).run st now).1 = _
                    rw [remove_refines st hinv now (idNat d.id) ⟨srcIp, hostport⟩ hok]
                    cases st.servers[(⟨srcIp, hostport⟩ : Addr).key]? with
                    | none => rfl
                    | some row =>
                      cases st.instances[idNat d.id]? with
                      | none => rfl
                      | some p =>
                        obtain ⟨ia, t⟩ := p
                        dsimp only
                        by_cases hip : ia.ip ≠ srcIp
                        · rw [if_pos hip, if_pos hip]
                        · rw [if_neg hip, if_neg hip]
                  · rw [replyOf_finish_silent]
                    cases st.servers[(⟨srcIp, hostport⟩ : Addr).key]? with
                    | none => rfl
                    | some row =>
                      cases st.instances[idNat d.id]? with
                      | none => rfl
                      | some p =>
                        obtain ⟨ia, t⟩ := p
                        dsimp only
                        by_cases hip : ia.ip ≠ srcIp
                        · rw [if_pos hip]
                        · rw [if_neg hip]
                · rw [if_neg hs, if_neg hs]
                  have hrr := report_refines cfg.maxRetries st hinv now (idNat d.id) ⟨srcIp, hostport⟩ localport (infoOf f)
                  have h1 := congrArg Prod.fst hrr
                  have h2 := congrArg Prod.snd hrr
                  dsimp only at h1 h2
                  refine ⟨?_, ?_⟩
                  · show ((UC.report zeroInfo cfg.maxRetries ⟨⟨srcIp, hostport⟩, localport, idNat d.id, infoOf f⟩).run st now).1 = _
                    rw [h1]
                    unfold reportSpec
                    cases infoOf f with
                    | none => rfl
                    | some info =>
                      dsimp only
                      cases st.servers[(⟨srcIp, hostport⟩ : Addr).key]? with
                      | some row => rfl
                      | none =>
                        dsimp only
                        by_cases hq : localport < 1 ∨ localport > 65535
                        · simp only [if_pos hq]
                        · simp only [if_neg hq]
                  · rw [replyOf_finish, h2, heartbeatReply_eq d.id hid]
                    unfold reportSpec
                    cases infoOf f with
                    | none => rfl
                    | some info =>
                      dsimp only
                      cases st.servers[(⟨srcIp, hostport⟩ : Addr).key]? with
                      | some row => rfl
                      | none =>
                        dsimp only
                        by_cases hq : localport < 1 ∨ localport > 65535
                        · simp only [if_pos hq]; rfl
                        · simp only [if_neg hq]; rfl
              · have hn : (hostport < 1 ∨ hostport > 65535 ∨ (!ipAccepted srcIp) = true) := by
                  right; right; simpa using hipa
                rw [if_neg hipa, if_pos hn]
                exact ⟨rfl, rfl⟩


/-- **Refinement, heartbeat.** For every state satisfying the store invariant, every well-formed heartbeat
`d` (reportable names with NUL-free non-empty values, unknown names with non-empty values that are not
reportable names, any instance id, any trailer starting with NUL), every source address and clock value:
running the dispatcher on `encodeHeartbeat d` yields exactly the state and the reply of the abstract step —
i.e. when hostport/localport/IP/values are acceptable: the server `(S, hostport)` holds exactly the reported
info, status `master|info` with `new` cleared, `refreshedAt = now`, the instance id is bound to it, a port
probe is queued and `port_retry` set unless `port`/`port_retry` was already set, and the reply is the 28
bytes; for `statechanged=2` from the owner: server and instance are gone, no reply; otherwise nothing changes
and nothing is sent.  The invariant holds again afterwards. -/
theorem heartbeat_refines (cfg : Cfg) (st : AbsState) (hinv : Inv st) (d : Hb) (hwf : WfHeartbeat d)
    (srcIp srcPort : Nat) (now : Int) :
    (dispatch cfg st srcIp srcPort (encodeHeartbeat d) now).1 = (absStep cfg st srcIp srcPort (.heartbeat d) now).1 ∧
    replyOf (dispatch cfg st srcIp srcPort (encodeHeartbeat d) now).2 = (absStep cfg st srcIp srcPort (.heartbeat d) now).2 ∧
    Inv (dispatch cfg st srcIp srcPort (encodeHeartbeat d) now).1 := by
  refine ⟨?_, ?_, (C05.dispatch_safe cfg st srcIp srcPort _ now hinv).1⟩
  all_goals
    have hp := parse_encodeHeartbeat d hwf
    have hid : d.id.length = 4 := by
      simp only [WfHeartbeat, wfHeartbeat, Bool.and_eq_true, beq_iff_eq] at hwf
      exact hwf.1.1
    have hty : ((0x03 : UInt8).toNat = Facts.reporterMsgHeartbeat) = True := by decide
    have hd : dispatch cfg st srcIp srcPort (encodeHeartbeat d) now
        = handleHeartbeat cfg st srcIp srcPort (encodeHeartbeat d) now := by
      unfold dispatch encodeHeartbeat
      simp only [hty, if_true]
    rw [hd]
    unfold handleHeartbeat
    rw [hp.1]
    dsimp only
    rw [hp.2]
    dsimp only
    have := handle_fields_refines cfg st hinv d hid srcIp srcPort now
    first | exact this.1 | exact this.2

/-- **Keepalive.** For every state satisfying the invariant and every keepalive (type 08 + 4-byte id): the
state afterwards is the abstract step's — the server the instance is bound to is refreshed at `now` when the
instance belongs to the sender's IP (and that server exists), nothing changes otherwise — and no reply is
sent in either case. -/
theorem keepalive_silent (cfg : Cfg) (st : AbsState) (hinv : Inv st) (id : Bytes) (hid : id.length = 4)
    (srcIp srcPort : Nat) (now : Int) :
    (dispatch cfg st srcIp srcPort (encode (.keepalive id)) now).1 = (absStep cfg st srcIp srcPort (.keepalive id) now).1 ∧
    replyOf (dispatch cfg st srcIp srcPort (encode (.keepalive id)) now).2 = none := by
  have hty1 : ((0x08 : UInt8).toNat = Facts.reporterMsgHeartbeat) = False := by decide
  have hty2 : ((0x08 : UInt8).toNat = Facts.reporterMsgKeepalive) = True := by decide
  have hd : dispatch cfg st srcIp srcPort (encode (.keepalive id)) now
      = finish ((UC.renew (idNat id) srcIp).run st now) .silent := by
    unfold dispatch encode
    simp only [hty1, hty2, if_false, if_true]
    unfold handleKeepalive
    have := parseInstanceID_cons 0x08 id [] hid
    rw [List.append_nil] at this
    rw [this]
  rw [hd]
  exact ⟨renew_refines st hinv srcIp now id cfg srcPort, replyOf_finish_silent _⟩

/-- the owner's keepalive takes effect: outcome `silent` (not an error) and the row is refreshed -/
theorem keepalive_owner_refreshes (cfg : Cfg) (st : AbsState) (hinv : Inv st) (id : Bytes) (hid : id.length = 4)
    (srcIp srcPort : Nat) (now : Int) (a : Addr) (t : Int) (row : SRow)
    (hb : st.instances[idNat id]? = some (a, t)) (hip : a.ip = srcIp) (hrow : st.servers[a.key]? = some row) :
    (dispatch cfg st srcIp srcPort (encode (.keepalive id)) now).1.servers[a.key]?
      = some ⟨{ row.svr with refreshedAt := some now, version := row.svr.version + 1 }, now⟩ := by
  rw [(keepalive_silent cfg st hinv id hid srcIp srcPort now).1]
  unfold absStep
  simp only [hb, hip, ne_eq, not_true_eq_false, if_false, hrow]
  exact ins_self _ _ _

/-- **Removal.** A well-formed heartbeat with `statechanged=2` is never answered; when the server
`(S, hostport)` exists and the presented instance belongs to the sender's IP, server and instance are
removed (by `heartbeat_refines`: the state is the abstract step's). -/
theorem removal_silent (cfg : Cfg) (st : AbsState) (hinv : Inv st) (d : Hb) (hwf : WfHeartbeat d)
    (h2 : (fieldsOf d.kvs).get? kStatechanged = some [0x32]) (srcIp srcPort : Nat) (now : Int) :
    replyOf (dispatch cfg st srcIp srcPort (encodeHeartbeat d) now).2 = none := by
  rw [(heartbeat_refines cfg st hinv d hwf srcIp srcPort now).2.1]
  unfold absStep
  dsimp only
  cases (FieldMap.get? (fieldsOf d.kvs) kHostport).bind atoi with
  | none => rfl
  | some hostport =>
    cases (FieldMap.get? (fieldsOf d.kvs) kLocalport).bind atoi with
    | none => rfl
    | some localport =>
      dsimp only
      split
      · rfl
      · split
        · split <;> rfl
        · rfl

/-- every well-formed message: the dispatcher on its encoding is the abstract step -/
theorem step_refines (cfg : Cfg) (st : AbsState) (hinv : Inv st) (m : Msg) (hwf : wfMsg m = true)
    (srcIp srcPort : Nat) (now : Int) :
    (dispatch cfg st srcIp srcPort (encode m) now).1 = (absStep cfg st srcIp srcPort m now).1 ∧
    replyOf (dispatch cfg st srcIp srcPort (encode m) now).2 = (absStep cfg st srcIp srcPort m now).2 := by
  cases m with
  | heartbeat d =>
    have := heartbeat_refines cfg st hinv d hwf srcIp srcPort now
    exact ⟨this.1, this.2.1⟩
  | keepalive id =>
    have hid : id.length = 4 := by simpa [wfMsg] using hwf
    have := keepalive_silent cfg st hinv id hid srcIp srcPort now
    refine ⟨this.1, ?_⟩
    rw [this.2]
    unfold absStep
    dsimp only
    split
    · rfl
    · split
      · rfl
      · split <;> rfl
  | challenge id rest =>
    have hid : id.length = 4 := by simpa [wfMsg] using hwf
    unfold encode
    rw [challenge_reply cfg st srcIp srcPort now id rest hid]
    exact ⟨rfl, rfl⟩
  | available rest =>
    unfold encode
    rw [available_reply cfg st srcIp srcPort now rest]
    refine ⟨rfl, ?_⟩
    show some [0xFE, 0xFD, 0x09, 0, 0, 0, 0] = some Facts.reporterResponseIsAvailable
    decide

/-- a message of a history: source IP, source port, message, clock value -/
abbrev Event := Nat × Nat × Msg × Int

def Event.dgram (e : Event) : Dgram := ⟨e.1, e.2.1, encode e.2.2.1, e.2.2.2⟩

/-- **Histories.** The state after any history of well-formed messages — first reports, re-reports,
keepalives, removals, re-registrations, challenges, availability requests, from any sources — is the fold of
the abstract step over the messages. -/
theorem history_is_fold (cfg : Cfg) (es : List Event) :
    ∀ (st : AbsState), Inv st → (∀ e ∈ es, wfMsg e.2.2.1 = true) →
    runHistory cfg st (es.map Event.dgram) = es.foldl (fun s e => (absStep cfg s e.1 e.2.1 e.2.2.1 e.2.2.2).1) st := by
  induction es with
  | nil => intro st _ _; rfl
  | cons e es ih =>
    intro st hinv hwf
    have h1 := step_refines cfg st hinv e.2.2.1 (hwf e List.mem_cons_self) e.1 e.2.1 e.2.2.2
    have hi := (C05.dispatch_safe cfg st e.1 e.2.1 (encode e.2.2.1) e.2.2.2 hinv).1
    simp only [List.map_cons, runHistory, List.foldl_cons]
    have hs : step cfg st (Event.dgram e) = (absStep cfg st e.1 e.2.1 e.2.2.1 e.2.2.2).1 := h1.1
    rw [hs]
    have hi' : Inv (absStep cfg st e.1 e.2.1 e.2.2.1 e.2.2.2).1 := by
      rw [← hs]; exact hi
    have := ih _ hi' (fun e' he' => hwf e' (List.mem_cons_of_mem _ he'))
    simpa [runHistory] using this


/-! ## the postcondition of an accepted heartbeat, stated directly

`Rep.HeartbeatPost cfg st st' a id info localport now` (Lemmas/ReporterPost.lean) says, with the actual field names:
* `server`: `st'.servers[a.key]? = some row` with `row.svr.addr = a`, `row.svr.info = info`,
  `row.svr.refreshedAt = some now`, `row.updatedAt = now`, `row.svr.status` has `master` and `info` and not `new`;
  `queryPort`, `details` and every status bit other than `new|master|info|port_retry` are those of the previous
  record (for a new server: `queryPort = localport ∈ 1..65535`, zero details, no other bit);
  and EITHER the previous record had one of `port`/`port_retry` (then `st'.queue = st.queue`, `nextId` unchanged,
  version + 1) OR `st'.queue = st.queue ++ [⟨st.nextId, ⟨a, a.port, .port, 0, cfg.maxRetries⟩, now, none⟩]`
  (ready = now, no expiry, as `maybeDiscoverPort` enqueues it) and `port_retry` is set;
* `instance_bound`: `st'.instances[id]? = some (a, now)`;
* `other_servers` / `other_instances`: every other server row and every other instance entry is unchanged. -/

/-- **Postcondition of an accepted heartbeat (abstract step).** C04 clause "the registry afterwards holds server
S:H carrying exactly the reported info values, marked as reported-to-master with info, refreshed at the current
time, with the instance id bound to S:H, and a query-port discovery is pending unless the port is already known
or being discovered".  Whenever `absStep` answers heartbeat `d` from `ip:port` at `now` in a state satisfying the
store invariant: `hostport` and `localport` are the `Atoi` readings of the reported fields, `hostport ∈ 1..65535`,
`info` is the reading of the reported values (`infoOf`, pinned field by field by `infoOf_field`), the reply is the
28 bytes, and `HeartbeatPost` holds between the state before and after for address `(ip, hostport)`. -/
theorem heartbeat_post_abs (cfg : Cfg) (st : AbsState) (hinv : Inv st) (d : Hb) (ip port : Nat) (now : Int) (r : Bytes)
    (hacc : (absStep cfg st ip port (.heartbeat d) now).2 = some r) :
    ∃ (hostport localport : Int) (info : Fields),
      ((fieldsOf d.kvs).get? kHostport).bind atoi = some hostport ∧
      ((fieldsOf d.kvs).get? kLocalport).bind atoi = some localport ∧
      infoOf (fieldsOf d.kvs) = some info ∧
      1 ≤ hostport ∧ hostport ≤ 65535 ∧ r = replyBytes d.id ip port ∧
      HeartbeatPost cfg st (absStep cfg st ip port (.heartbeat d) now).1 ⟨ip, hostport⟩ (idNat d.id) info localport now := by
  obtain ⟨hostport, localport, info, base, h1, h2, h3, h4, _, _, h7, h8, h9, h10⟩ :=
    absStep_heartbeat_accept cfg st d ip port now r hacc
  refine ⟨hostport, localport, info, h1, h2, h7, h3, h4, h9, ?_⟩
  rw [h10]
  exact acceptedState_post cfg st hinv ⟨ip, hostport⟩ ⟨h3, h4⟩ (idNat d.id) base info localport now h8

/-- **Postcondition of an accepted heartbeat (model of the code).** The same statement for the dispatcher:
whenever `Heartbeat.dispatch` answers the datagram of a well-formed heartbeat `d` (outcome `reply r`), the
registry, the instance table and the probe queue afterwards satisfy `HeartbeatPost` (see above) for the address
`(source IP, reported hostport)`, the presented instance id and the reported info. -/
theorem heartbeat_post (cfg : Cfg) (st : AbsState) (hinv : Inv st) (d : Hb) (hwf : WfHeartbeat d) (ip port : Nat) (now : Int)
    (r : Bytes) (hacc : (dispatch cfg st ip port (encodeHeartbeat d) now).2 = .reply r) :
    ∃ (hostport localport : Int) (info : Fields),
      ((fieldsOf d.kvs).get? kHostport).bind atoi = some hostport ∧
      ((fieldsOf d.kvs).get? kLocalport).bind atoi = some localport ∧
      infoOf (fieldsOf d.kvs) = some info ∧
      1 ≤ hostport ∧ hostport ≤ 65535 ∧ r = replyBytes d.id ip port ∧
      HeartbeatPost cfg st (dispatch cfg st ip port (encodeHeartbeat d) now).1 ⟨ip, hostport⟩ (idNat d.id) info localport now := by
  have href := heartbeat_refines cfg st hinv d hwf ip port now
  have h2 : (absStep cfg st ip port (.heartbeat d) now).2 = some r := by
    rw [← href.2.1, hacc]; rfl
  rw [href.1]
  exact heartbeat_post_abs cfg st hinv d ip port now r h2

/-! ## the reported info, field by field -/

/-- how a reported value is read into a struct field of a kind, written out from the property text:
int (kind 0) by `strconv.Atoi`, bool (kind 1) from `1/true/0/false`, string (kind 2) the bytes themselves;
an absent key gives the zero value -/
def reading (kind : Nat) (x : Option Bytes) : Option Val :=
  match kind, x with
  | 0, none => some (.int 0)
  | 0, some b => (atoi b).map .int
  | 1, none => some (.bool false)
  | 1, some b => (parseBool b).map .bool
  | 2, none => some (.str [])
  | 2, some b => some (.str b)
  | _, _ => none

theorem unmarshalEntry_reading (m : FieldMap) (name : String) (key : Option Bytes) (kind : Nat) (tags : List String) :
    unmarshalEntry m (name, key, kind, tags) = reading kind (key.bind m.get?) := by
  unfold unmarshalEntry
  cases key with
  | none =>
    dsimp only [Option.bind_none]
    match kind with
    | 0 | 1 | 2 => rfl
    | k + 3 => simp [zeroVal, reading]
  | some k =>
    dsimp only [Option.bind_some]
    cases m.get? k with
    | none =>
      dsimp only
      match kind with
      | 0 | 1 | 2 => rfl
      | k + 3 => simp [zeroVal, reading]
    | some v =>
      dsimp only
      match kind with
      | 0 | 1 | 2 => rfl
      | k + 3 => simp [parseVal, reading]

/-- **Exactly the reported values, position by position.** C04 clause "carrying exactly the reported info
values".  If `infoOf f = some i` then for every entry `(name, key, kind, _)` at position `n` of the generated
`Facts.reporterInfoSchema` the `n`-th value of `i` exists and is the `reading` by `kind` of `f.get? key` (string:
the bytes themselves; int: `atoi`; bool: `parseBool`; zero value when the key is absent or the field has no
`param` key).  Proved through the defining equations of `infoOf`/`unmarshal` only. -/
theorem infoOf_field (f : FieldMap) (i : Fields) (h : infoOf f = some i) (n : Nat) (name : String) (key : Option Bytes)
    (kind : Nat) (tags : List String) (hs : Facts.reporterInfoSchema[n]? = some (name, key, kind, tags)) :
    i[n]? = reading kind (key.bind f.get?) ∧ (i[n]?).isSome = true := by
  have hu := infoOf_unmarshal h
  have h1 := unmarshal_getElem? schema f i hu n
  have h2 := unmarshal_length schema f i hu
  have hs' : schema[n]? = some (name, key, kind, tags) := hs
  rw [hs'] at h1
  rw [Option.bind_some, unmarshalEntry_reading] at h1
  refine ⟨h1, ?_⟩
  have hn : n < schema.length := by
    rcases Nat.lt_or_ge n schema.length with h | h
    · exact h
    · rw [List.getElem?_eq_none h] at hs'; cases hs'
  rw [List.getElem?_eq_getElem (by omega)]
  rfl

/-- the fields of `details.Info` a player sees, written here from `internal/core/entities/details/info.go`
(Go field, `param` key — the lower-cased field name unless a `param:"…"` tag says otherwise —, kind):
NOT derived from the generated schema -/
def infoParams : List (String × String × Nat) :=
  [("Hostname", "hostname", 2), ("HostPort", "hostport", 0), ("GameVariant", "gamevariant", 2), ("GameVersion", "gamever", 2),
   ("GameType", "gametype", 2), ("NumPlayers", "numplayers", 0), ("MaxPlayers", "maxplayers", 0), ("MapName", "mapname", 2),
   ("Password", "password", 1), ("StatsEnabled", "statsenabled", 1), ("Round", "round", 0), ("NumRounds", "numrounds", 0),
   ("TimeLeft", "timeleft", 0), ("TimeSpecial", "timespecial", 0), ("SwatScore", "swatscore", 0), ("SuspectsScore", "suspectsscore", 0),
   ("SwatWon", "swatwon", 0), ("SuspectsWon", "suspectswon", 0), ("BombsDefused", "bombsdefused", 0), ("BombsTotal", "bombstotal", 0),
   ("TocReports", "tocreports", 2), ("WeaponsSecured", "weaponssecured", 2)]

/-- **The field ↔ key table is the expected one.** The generated schema (reflection over the real `details.Info`)
maps every Go field to the key of the literal list above, in the same order, followed by the key-less `Version`:
a swapped or renamed `param` tag in Go (say `numplayers` ↔ `maxplayers`) changes the regenerated fact and breaks
this theorem. -/
theorem schema_params_pinned :
    Facts.reporterInfoSchema.map (fun e => (e.1, e.2.1, e.2.2.1))
      = infoParams.map (fun e => (e.1, some (ascii e.2.1), e.2.2)) ++ [("Version", none, 2)] := by
  decide

/-- the value of the Go field `goField` in an info value list -/
def infoField (i : Fields) (goField : String) : Option Val :=
  (Facts.reporterInfoSchema.findIdx? fun e => e.1 == goField).bind (i[·]?)

theorem infoParams_index :
    (infoParams.all fun e =>
      match Facts.reporterInfoSchema.findIdx? (fun x => x.1 == e.1) with
      | some n => (Facts.reporterInfoSchema[n]?.map fun x => (x.2.1, x.2.2.1)) == some (some (ascii e.2.1), e.2.2)
      | none => false) = true := by
  decide

/-- **Exactly the reported values, by name.** If `infoOf f = some i` then for every `(Go field, key, kind)` of the
literal list `infoParams` the value of that field in `i` exists and is the `reading` by `kind` of what was
reported under `key`: `Hostname` is the bytes reported as `hostname`, `NumPlayers` is `Atoi` of `numplayers`,
`MaxPlayers` of `maxplayers`, `GameVersion` the bytes of `gamever`, `HostPort` `Atoi` of `hostport`, … -/
theorem infoOf_named (f : FieldMap) (i : Fields) (h : infoOf f = some i) (goField param : String) (kind : Nat)
    (he : (goField, param, kind) ∈ infoParams) :
    infoField i goField = reading kind (f.get? (ascii param)) ∧ (infoField i goField).isSome = true := by
  have hall := List.all_eq_true.mp infoParams_index _ he
  dsimp only at hall
  unfold infoField
  cases hfi : Facts.reporterInfoSchema.findIdx? (fun x => x.1 == goField) with
  | none => rw [hfi] at hall; cases hall
  | some n =>
    rw [hfi] at hall
    dsimp only at hall
    cases hsn : Facts.reporterInfoSchema[n]? with
    | none => rw [hsn] at hall; cases hall
    | some x =>
      rw [hsn] at hall
      obtain ⟨name, key, kind', tags⟩ := x
      simp only [Option.map_some, beq_iff_eq, Option.some.injEq, Prod.mk.injEq] at hall
      obtain ⟨hk, hkind⟩ := hall
      subst hk hkind
      exact infoOf_field f i h n name _ _ tags hsn

/-! ## non-vacuity: a concrete heartbeat is accepted -/

/-- a well-formed first report: instance id `de ad be ef`, ten reportable pairs -/
def sampleHb : Hb := ⟨[0xde, 0xad, 0xbe, 0xef],
  [(ascii "hostname", ascii "Srv"), (ascii "hostport", ascii "10480"), (ascii "localport", ascii "10481"),
   (ascii "gamevariant", ascii "SWAT 4"), (ascii "gamever", ascii "1.1"), (ascii "gametype", ascii "VIP Escort"),
   (ascii "mapname", ascii "A-Bomb Nightclub"), (ascii "numplayers", ascii "3"), (ascii "maxplayers", ascii "16"),
   (ascii "password", ascii "1")], []⟩

/-- the state after `sampleHb` arrives from 1.1.1.1:1234 at clock 1000 in the empty store (3 probe retries) -/
def sampleState : AbsState := (dispatch ⟨3⟩ {} 0x01010101 1234 (encodeHeartbeat sampleHb) 1000).1

def sampleRow : Option SRow := sampleState.servers[(⟨0x01010101, 10480⟩ : Addr).key]?

example : WfHeartbeat sampleHb := by decide

set_option maxRecDepth 20000 in
/-- **Non-vacuity.** The model ACCEPTS `sampleHb` from the empty state: it is answered with the 28 bytes and the
state afterwards has exactly one server (1.1.1.1:10480, query port 10481, status `master|info|port_retry`,
refreshed and written at 1000, version 2, carrying the reported values — `NumPlayers` 3 and `MaxPlayers` 16 not
swapped), exactly one instance (bound to that address at 1000) and exactly one queued port probe. -/
example :
    (dispatch ⟨3⟩ {} 0x01010101 1234 (encodeHeartbeat sampleHb) 1000).2 = .reply (replyBytes sampleHb.id 0x01010101 1234)
    ∧ sampleState.servers.size = 1
    ∧ sampleState.instances.size = 1
    ∧ sampleState.instances[idNat sampleHb.id]? = some (⟨0x01010101, 10480⟩, 1000)
    ∧ sampleState.queue = [⟨0, ⟨⟨0x01010101, 10480⟩, 10480, .port, 0, 3⟩, 1000, none⟩]
    ∧ sampleState.nextId = 1
    ∧ sampleRow.map (fun row => (row.svr.addr, row.svr.queryPort, row.svr.status))
        = some (⟨0x01010101, 10480⟩, 10481, Status.master ||| Status.info ||| Status.portRetry)
    ∧ sampleRow.map (fun row => (row.svr.refreshedAt, row.svr.version, row.updatedAt)) = some (some 1000, 2, 1000)
    ∧ sampleRow.map (fun row => (infoField row.svr.info "Hostname", infoField row.svr.info "GameVersion"))
        = some (some (.str (ascii "Srv")), some (.str (ascii "1.1")))
    ∧ sampleRow.map (fun row => (infoField row.svr.info "NumPlayers", infoField row.svr.info "MaxPlayers", infoField row.svr.info "HostPort"))
        = some (some (.int 3), some (.int 16), some (.int 10480))
    ∧ sampleRow.map (fun row => infoField row.svr.info "Password") = some (some (.bool true)) := by
  refine ⟨?_, ?_, ?_, ?_, ?_, ?_, ?_, ?_, ?_, ?_, ?_⟩ <;> decide

set_option maxRecDepth 20000 in
/-- the hypotheses of `heartbeat_post` are jointly satisfiable: the empty store has the invariant, `sampleHb` is
well-formed and is answered -/
example : ∃ hostport localport info,
    HeartbeatPost ⟨3⟩ {} sampleState ⟨0x01010101, hostport⟩ (idNat sampleHb.id) info localport 1000 := by
  obtain ⟨hp, lp, info, _, _, _, _, _, _, h⟩ :=
    heartbeat_post ⟨3⟩ {} inv_empty sampleHb (by decide) 0x01010101 1234 1000 (replyBytes sampleHb.id 0x01010101 1234) (by decide)
  exact ⟨hp, lp, info, h⟩

set_option maxRecDepth 20000 in
/-- the hypothesis of `heartbeat_post_abs` is satisfiable: the abstract step answers `sampleHb` -/
example : (absStep ⟨3⟩ {} 0x01010101 1234 (.heartbeat sampleHb) 1000).2 = some (replyBytes sampleHb.id 0x01010101 1234) := by decide

/-- the hypotheses of `infoOf_field` are satisfiable: position 5 of the schema is `NumPlayers`, read from `numplayers` -/
example : ∃ i, infoOf (fieldsOf sampleHb.kvs) = some i ∧ i[5]? = some (.int 3) := by
  cases h : infoOf (fieldsOf sampleHb.kvs) with
  | none => exact absurd h (by decide)
  | some i =>
    refine ⟨i, rfl, ?_⟩
    rw [(infoOf_field _ i h 5 "NumPlayers" (some (ascii "numplayers")) 0 ["gte=0"] (by decide)).1]
    decide

/-- the hypothesis of `infoOf_named` is satisfiable and the conclusion tells `numplayers` from `maxplayers` -/
example : ∃ i, infoOf (fieldsOf sampleHb.kvs) = some i ∧
    infoField i "NumPlayers" = some (.int 3) ∧ infoField i "MaxPlayers" = some (.int 16) := by
  cases h : infoOf (fieldsOf sampleHb.kvs) with
  | none => exact absurd h (by decide)
  | some i =>
    refine ⟨i, rfl, ?_, ?_⟩
    · rw [(infoOf_named _ i h "NumPlayers" "numplayers" 0 (by decide)).1]; decide
    · rw [(infoOf_named _ i h "MaxPlayers" "maxplayers" 0 (by decide)).1]; decide

/-- **Postcondition of an owner's removal.** C04 clause "a heartbeat with statechanged=2 from the owner removes
server and instance without a reply", stated directly.  For a well-formed heartbeat carrying `statechanged=2`
whose `hostport`/`localport` read as numbers, `hostport ∈ 1..65535`, from an acceptable source IP: if the server
`(ip, hostport)` exists and the presented instance id is bound to an address of the SAME IP, then afterwards
`servers[(ip, hostport)]` and `instances[id]` are absent, every other server and instance entry is unchanged, the
probe queue is untouched and nothing is sent. -/
theorem removal_post (cfg : Cfg) (st : AbsState) (hinv : Inv st) (d : Hb) (hwf : WfHeartbeat d) (ip port : Nat) (now : Int)
    (hostport localport : Int)
    (h1 : ((fieldsOf d.kvs).get? kHostport).bind atoi = some hostport)
    (h2 : ((fieldsOf d.kvs).get? kLocalport).bind atoi = some localport)
    (hlo : 1 ≤ hostport) (hhi : hostport ≤ 65535) (hip : ipAccepted ip = true)
    (hs : (fieldsOf d.kvs).get? kStatechanged = some [0x32])
    (row : SRow) (hrow : st.servers[(⟨ip, hostport⟩ : Addr).key]? = some row)
    (ia : Addr) (t : Int) (hb : st.instances[idNat d.id]? = some (ia, t)) (hown : ia.ip = ip) :
    let st' := (dispatch cfg st ip port (encodeHeartbeat d) now).1
    st'.servers[(⟨ip, hostport⟩ : Addr).key]? = none ∧ st'.instances[idNat d.id]? = none ∧
    (∀ k : Nat, k ≠ (⟨ip, hostport⟩ : Addr).key → st'.servers[k]? = st.servers[k]?) ∧
    (∀ j : Nat, j ≠ idNat d.id → st'.instances[j]? = st.instances[j]?) ∧
    st'.queue = st.queue ∧ st'.nextId = st.nextId ∧
    replyOf (dispatch cfg st ip port (encodeHeartbeat d) now).2 = none := by
  intro st'
  have href := heartbeat_refines cfg st hinv d hwf ip port now
  have hst : st' = { st with servers := st.servers.erase (⟨ip, hostport⟩ : Addr).key, instances := st.instances.erase (idNat d.id) } := by
    show (dispatch cfg st ip port (encodeHeartbeat d) now).1 = _
    rw [href.1]
    unfold absStep
    simp only [h1, h2]
    have hn : ¬ (hostport < 1 ∨ hostport > 65535 ∨ (!ipAccepted ip) = true) := by
      rw [hip]; simp; omega
    rw [if_neg hn]
    simp only [hs, if_true, hrow, hb]
    rw [if_neg (by simp [hown])]
  refine ⟨?_, ?_, ?_, ?_, ?_, ?_, removal_silent cfg st hinv d hwf hs ip port now⟩
  · rw [hst]; simp
  · rw [hst]; simp
  · intro k hk
    rw [hst]
    simp only [ExtTreeMap.getElem?_erase, Nat.compare_eq_eq]
    rw [if_neg (Ne.symm hk)]
  · intro j hj
    rw [hst]
    simp only [ExtTreeMap.getElem?_erase, Nat.compare_eq_eq]
    rw [if_neg (Ne.symm hj)]
  · rw [hst]
  · rw [hst]

/-- the removal of `sampleHb`'s server by its owner -/
def sampleRemoval : Hb := ⟨sampleHb.id,
  [(ascii "hostport", ascii "10480"), (ascii "localport", ascii "10481"), (ascii "statechanged", ascii "2")], []⟩

set_option maxRecDepth 20000 in
/-- the hypotheses of `removal_post` are jointly satisfiable (state: `sampleState`, the owner 1.1.1.1 removes) and
the server is indeed gone -/
example : (dispatch ⟨3⟩ sampleState 0x01010101 1234 (encodeHeartbeat sampleRemoval) 2024).1.servers[(⟨0x01010101, 10480⟩ : Addr).key]? = none :=
  (removal_post ⟨3⟩ sampleState (C05.dispatch_safe ⟨3⟩ {} 0x01010101 1234 _ 1000 inv_empty).1 sampleRemoval (by decide)
    0x01010101 1234 2024 10480 10481 (by decide) (by decide) (by decide) (by decide) (by decide) (by decide)
    ⟨⟨⟨0x01010101, 10480⟩, 10481, Status.master ||| Status.info ||| Status.portRetry,
        (sampleRow.map (·.svr.info)).getD [], ⟨zeroInfo, [], []⟩, some 1000, 2⟩, 1000⟩ (by decide)
    ⟨0x01010101, 10480⟩ 1000 (by decide) rfl).1

/-- non-vacuity: a concrete well-formed heartbeat with an unknown pair and invalid UTF-8 in a value -/
example : WfHeartbeat ⟨[0xde, 0xad, 0xbe, 0xef],
    [(kHostport, [0x31, 0x30, 0x34, 0x38, 0x30]), ([0x78], [0x79]), (kLocalport, [0x31, 0x30, 0x34, 0x38, 0x31]),
     ([0x68, 0x6f, 0x73, 0x74, 0x6e, 0x61, 0x6d, 0x65], [0xff, 0xfe, 0x41])], [0]⟩ := by decide

/-! ## which heartbeats are accepted

Every postcondition above is conditional on the dispatcher answering (`… = .reply r`); a model that answered
nothing would satisfy them all.  The theorems below say exactly when it answers.  `Rep.Accepts st d ip`
(Lemmas/ReporterAccept.lean), read off the code path `heartbeat.Handler.Handle` →
`parseAddrFromHeartbeatParams` → `addr.New` → `reportserver.UseCase.Execute`, is:
there are integers `hostport`, `localport` with
* `hostport` = `strconv.Atoi` of the reported `hostport` value and `localport` = `strconv.Atoi` of the reported
  `localport` value — BOTH must be present and numeric, also for a server that is already known;
* `1 ≤ hostport ≤ 65535`, and the source IP passes `addr.New` (`ipAccepted`: global unicast, private or loopback);
* the reported `statechanged` is not `2`;
* the reported info unmarshals and validates (`infoOf … ≠ none`; field by field: `infoOf_field`);
* the server `(ip, hostport)` is already stored, or `1 ≤ localport ≤ 65535`. -/

/-- **Acceptance is not vacuous ("if").** A well-formed heartbeat that meets the acceptance conditions IS
answered, with the 28 reply bytes, in every state satisfying the store invariant. -/
theorem heartbeat_accepted_if (cfg : Cfg) (st : AbsState) (hinv : Inv st) (d : Hb) (hwf : WfHeartbeat d) (ip port : Nat)
    (now : Int) (hacc : Accepts st d ip) :
    (dispatch cfg st ip port (encodeHeartbeat d) now).2 = .reply (replyBytes d.id ip port) := by
  have href := (heartbeat_refines cfg st hinv d hwf ip port now).2.1
  rw [absStep_heartbeat_reply_of cfg st d ip port now hacc] at href
  cases ho : (dispatch cfg st ip port (encodeHeartbeat d) now).2 with
  | reply b => rw [ho] at href; cases href; rfl
  | silent => rw [ho] at href; cases href
  | err => rw [ho] at href; cases href
  | panic => rw [ho] at href; cases href

/-- **Only those ("only if").** A well-formed heartbeat that is answered meets the acceptance conditions, and the
answer is the 28 reply bytes. -/
theorem heartbeat_accepted_only_if (cfg : Cfg) (st : AbsState) (hinv : Inv st) (d : Hb) (hwf : WfHeartbeat d)
    (ip port : Nat) (now : Int) (r : Bytes) (h : (dispatch cfg st ip port (encodeHeartbeat d) now).2 = .reply r) :
    r = replyBytes d.id ip port ∧ Accepts st d ip := by
  have href := (heartbeat_refines cfg st hinv d hwf ip port now).2.1
  rw [h] at href
  exact absStep_heartbeat_reply_only cfg st d ip port now r href.symm

/-- **C04, which heartbeats are accepted.** For a well-formed heartbeat `d` from `ip:port` in a state satisfying
the store invariant: the dispatcher answers with the 28 reply bytes if and only if the acceptance conditions
hold (and it never answers with anything else: `heartbeat_accepted_only_if`). -/
theorem heartbeat_accepted_iff (cfg : Cfg) (st : AbsState) (hinv : Inv st) (d : Hb) (hwf : WfHeartbeat d) (ip port : Nat)
    (now : Int) :
    (dispatch cfg st ip port (encodeHeartbeat d) now).2 = .reply (replyBytes d.id ip port) ↔ Accepts st d ip :=
  ⟨fun h => (heartbeat_accepted_only_if cfg st hinv d hwf ip port now _ h).2,
   heartbeat_accepted_if cfg st hinv d hwf ip port now⟩

/-- the acceptance conditions spelled out (the definition of `Rep.Accepts`, so that the statement above can be
read without opening the lemma file) -/
theorem accepts_def (st : AbsState) (d : Hb) (ip : Nat) :
    Accepts st d ip ↔ ∃ hostport localport : Int,
      ((fieldsOf d.kvs).get? kHostport).bind atoi = some hostport ∧
      ((fieldsOf d.kvs).get? kLocalport).bind atoi = some localport ∧
      1 ≤ hostport ∧ hostport ≤ 65535 ∧ ipAccepted ip = true ∧
      (fieldsOf d.kvs).get? kStatechanged ≠ some [0x32] ∧
      (infoOf (fieldsOf d.kvs)).isSome = true ∧
      ((st.servers[(⟨ip, hostport⟩ : Addr).key]?).isSome = true ∨ (1 ≤ localport ∧ localport ≤ 65535)) := Iff.rfl

/-- a known server is refreshed whatever `localport` says, as long as it is a number: the reviewer's guess
"row exists or localport in range" needs the extra condition that `localport` parses — without the pair the
heartbeat is dropped even for a known server (`parseAddrFromHeartbeatParams` reads both before anything else) -/
theorem heartbeat_without_localport_dropped (cfg : Cfg) (st : AbsState) (hinv : Inv st) (d : Hb) (hwf : WfHeartbeat d)
    (ip port : Nat) (now : Int) (hno : (fieldsOf d.kvs).get? kLocalport = none) (r : Bytes) :
    (dispatch cfg st ip port (encodeHeartbeat d) now).2 ≠ .reply r := by
  intro h
  obtain ⟨_, _, _, _, hl, _⟩ := heartbeat_accepted_only_if cfg st hinv d hwf ip port now r h
  rw [hno] at hl
  cases hl

set_option maxRecDepth 20000 in
/-- `sampleHb` meets the acceptance conditions in the empty store (first report: `localport` 10481 in range), so
`heartbeat_accepted_if` applies to it -/
example : Accepts {} sampleHb 0x01010101 :=
  ⟨10480, 10481, by decide, by decide, by decide, by decide, by decide, by decide, by decide, .inr ⟨by decide, by decide⟩⟩

end Swat4.C04
