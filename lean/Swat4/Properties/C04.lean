import Swat4.Model.Heartbeat
import Swat4.Spec.ReporterSpec
/-!
# C04 — A valid heartbeat registers/refreshes the sender and gets the exact reply
-/
namespace Swat4.C04
open Swat4 Swat4.Heartbeat Swat4.ReporterSpec

/-- everything the model assumes about the generated facts: every `details.Info` field is an int, bool
or string; every `validate` tag is one the model implements for that kind; the fixed challenge has 6
bytes; the four message types are the protocol's and distinct; the zero `Info` has one value per field. -/
theorem facts_ok :
    (schema.all fun (_, _, kind, tags) => (kind = 0 ∨ kind = 1 ∨ kind = 2) ∧
      tags.all fun t => t = "required" ∨ (kind = 0 ∧ (t = "gt=0" ∨ t = "gte=0")) ∨ (kind = 2 ∧ t = "ratio")) = true
    ∧ Facts.reporterResponseChallenge.length = 6
    ∧ Facts.reporterMsgChallenge = 1 ∧ Facts.reporterMsgHeartbeat = 3
    ∧ Facts.reporterMsgKeepalive = 8 ∧ Facts.reporterMsgAvailable = 9
    ∧ Facts.reporterResponseIsAvailable = [0xFE, 0xFD, 0x09, 0, 0, 0, 0]
    ∧ zeroInfo.length = schema.length
    ∧ schema.map (·.2.2.1) = Facts.infoFieldKinds := by
  decide

end Swat4.C04
