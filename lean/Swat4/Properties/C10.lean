import Swat4.Lemmas.FactsExtra10
import Swat4.Lemmas.StoreConsistent
import Swat4.Lemmas.StoreDrv
import Swat4.Lemmas.LockTTL
/-!
# C10 — Storage indexes agree with the records after a crash at any point; every lock key carries an expiry

Property theorems only.  `RStore` (Model/Store.lean) is the Redis keyspace the three repositories
use; `RStore.Consistent` is the invariant: `servers:updated`, `servers:refreshed`, the nine
`servers:status:*` sets agree with `servers:items`; `instances:updated` with `instances:items`;
`probes:queue` with `probes:items`; every `servers:lock:*` cell carries a TTL.

A client death (or a dropped connection) can only cut a call *between* two storage commands —
before a command, or after it with the reply lost — so "consistent after a crash at any point"
is "consistent after every prefix of every interleaving of storage commands".
-/
namespace Swat4.C10
open Swat4 Swat4.RStore Std

/-! ## 1. the status-set encoding -/

/-- the member encoding `addr * 16 + bit` is injective for bit indexes below 16 -/
theorem stKey_inj {k k' b b' : Nat} (hb : b < 16) (hb' : b' < 16) :
    stKey k b = stKey k' b' ↔ k = k' ∧ b = b' :=
  RStore.stKey_inj hb hb'

/-- membership after the nine `SADD|SREM` of a `save` batch (by induction over the bit list) -/
theorem mem_setStatus {ss : ExtTreeSet Nat} {k : Nat} {s : Status} {x : Nat} :
    x ∈ setStatus ss k s ↔
      (∃ b, b < 9 ∧ x = stKey k b ∧ hasBit s b = true) ∨ ((∀ b, b < 9 → x ≠ stKey k b) ∧ x ∈ ss) :=
  RStore.mem_setStatus

/-- membership after the nine `SREM` of a `remove` batch -/
theorem mem_clearStatus {ss : ExtTreeSet Nat} {k : Nat} {x : Nat} :
    x ∈ clearStatus ss k ↔ (∀ b, b < 9 → x ≠ stKey k b) ∧ x ∈ ss :=
  RStore.mem_clearStatus

/-- cell `(k', b')` of the status sets after a `save` of `k` with status `s` -/
theorem stKey_mem_setStatus {ss : ExtTreeSet Nat} {k k' b' : Nat} {s : Status} (hb' : b' < 9) :
    stKey k' b' ∈ setStatus ss k s ↔ if k' = k then hasBit s b' = true else stKey k' b' ∈ ss :=
  RStore.stKey_mem_setStatus hb'

/-- cell `(k', b')` of the status sets after a `remove` of `k` -/
theorem stKey_mem_clearStatus {ss : ExtTreeSet Nat} {k k' b' : Nat} (hb' : b' < 9) :
    stKey k' b' ∈ clearStatus ss k ↔ k' ≠ k ∧ stKey k' b' ∈ ss :=
  RStore.stKey_mem_clearStatus hb'

/-! ## 2. every atomic step preserves the invariant -/

/-- **every atomic step preserves `Consistent`** — `save`/`remove` batches of the registry, instance
add/remove/clear batches, probe enqueue/pop batches, `SET NX EX`, `DEL`, lease expiry (whether or
not it invalidates watchers), with arbitrary arguments from an arbitrary consistent store -/
theorem consistent_atomic_step {st : RStore} (h : Consistent st) (a : AStep) : Consistent (a.apply st) := by
  cases a with
  | save svr now => exact saveBatch_consistent h svr now
  | remove k => exact removeBatch_consistent h k
  | insAdd id a now => exact insAddBatch_consistent h id a now
  | insRemove id => exact insRemoveBatch_consistent h id
  | insClear ids => exact insClearBatch_consistent h ids
  | enqueue id p e r => exact enqueueBatch_consistent h id p e r
  | pop ids => exact popBatch_consistent h ids
  | lockSetNX k tok => exact lockSetNX_consistent h k tok
  | lockDel k => exact lockDel_consistent h k
  | lockExpire k d => exact lockExpire_consistent h k d
  | touchLock k w => exact touchLock_consistent h k w

/-- any sequence of atomic steps, in any order, from any consistent store -/
theorem consistent_atomic_steps {st : RStore} (h : Consistent st) (as : List AStep) :
    Consistent (as.foldl AStep.apply st) := by
  induction as generalizing st with
  | nil => exact h
  | cons a as ih => exact ih (consistent_atomic_step h a)

/-! ## 3. the machines -/

/-- every storage command of a registry write (`Add`/`Update`/`Remove` under `updateExclusive`)
preserves `Consistent`, for an arbitrary writer state (any pc, any token, any pending batch) -/
theorem wstep_consistent {st : RStore} (h : Consistent st) (clock : Int) (fresh i : Nat) (c : Writer) :
    Consistent (wstep st clock fresh i c).1 :=
  Swat4.wstep_consistent h clock fresh i c

/-- the store effect of a writer command is nothing or exactly one atomic step -/
theorem wstep_atomic (st : RStore) (clock : Int) (fresh i : Nat) (c : Writer) :
    (wstep st clock fresh i c).1 = st ∨ ∃ a : AStep, (wstep st clock fresh i c).1 = a.apply st := by
  unfold wstep
  cases hpc : c.pc with
  | setnx =>
    simp only
    split
    · exact Or.inr ⟨.lockSetNX c.op.svr.addr.key c.tok, rfl⟩
    · exact Or.inl rfl
  | watch => exact Or.inl rfl
  | ownGet v => simp only; split; exact Or.inl rfl; split <;> exact Or.inl rfl
  | hget v => simp only; split <;> exact Or.inl rfl
  | exec v ex now b r =>
    simp only
    split
    · cases b with
      | save svr now' => exact Or.inr ⟨.save svr now', rfl⟩
      | remove k => exact Or.inr ⟨.remove k, rfl⟩
    · exact Or.inl rfl
  | unwatch a => exact Or.inl rfl
  | relWatch a => exact Or.inl rfl
  | relGet a => simp only; split; exact Or.inl rfl; split <;> exact Or.inl rfl
  | relDel a => exact Or.inr ⟨.lockDel c.op.svr.addr.key, rfl⟩
  | relUnwatch a => exact Or.inl rfl
  | done r => exact Or.inl rfl

/-- a `Filter` reader never writes: stepping a reader leaves the store untouched -/
theorem rstep_store (s : Sys) (i : Nat) (r : Reader) (h : s.clients[i]? = some (.reader r)) :
    (s.step (.step i)).store = s.store := by
  simp only [Sys.step, h]

/-- every storage command of an instance-table / probe-queue call preserves `Consistent`, for any pc -/
theorem qstep_consistent {st : RStore} (h : Consistent st) (clock : Int) (fresh : Nat) (op : QOp) (pc : QPC) :
    Consistent (qstep st clock fresh op pc).1 :=
  Swat4.qstep_consistent h clock fresh op pc

/-- a queue / instance call run alone, cut after any number of commands -/
theorem runQ_consistent {st : RStore} (h : Consistent st) (clock : Int) (fresh : Nat) (op : QOp) (pc : QPC)
    (fuel : Nat) : Consistent (runQ st clock fresh op pc fuel).1 :=
  Swat4.runQ_consistent h clock fresh op pc fuel

/-- a registry write run alone, cut after any number of commands -/
theorem runWriter_consistent {st : RStore} (h : Consistent st) (clock : Int) (w : Writer) (fresh fuel : Nat) :
    Consistent (runWriter st clock w fresh fuel).1 :=
  Swat4.runWriter_consistent h clock w fresh fuel

theorem runQs_consistent {st : RStore} (h : Consistent st) (qs : List QEv) : Consistent (runQs st qs) := by
  unfold runQs
  induction qs generalizing st with
  | nil => exact h
  | cons q qs ih => exact ih (qstep_consistent h q.clock q.fresh q.op q.pc)

/-- **C10.** From a consistent store, after any event list — any number of writers and readers,
any interleaving of their storage commands, lease expiries, clock ticks — the store is consistent. -/
theorem C10_main (s : Sys) (es : List Ev) (h : Consistent s.store) : Consistent (s.run es).store :=
  Sys.run_consistent h es

/-- C10 for registry clients and queue / instance calls interleaved arbitrarily on one keyspace -/
theorem C10_world (s : Sys) (es : List WEv) (h : Consistent s.store) : Consistent (es.foldl worldStep s).store := by
  induction es generalizing s with
  | nil => exact h
  | cons e es ih =>
    apply ih
    cases e with
    | sys e => exact Sys.step_consistent h e
    | q q => exact qstep_consistent h q.clock q.fresh q.op q.pc

/-- the empty keyspace is consistent, so everything reachable from it is -/
theorem C10_reachable (s : Sys) (es : List Ev) (h : s.store = {}) : Consistent (s.run es).store :=
  C10_main s es (h ▸ consistent_empty)

/-! ## 4. crashes -/

/-- **C10, crash form.** A client death can only cut between atomic steps: whatever prefix of
whatever schedule was executed when clients died, the keyspace is consistent.

This is a *corollary* of `C10_main`, not an independent result: `C10_main` already quantifies over every event
list, hence over every prefix `es'` of every schedule `es`; the hypothesis `_hp` is not used and is kept only so that
the statement reads as the property does ("a crash at any point of any history").  What carries the weight is (a)
`C10_main` / `consistent_atomic_step`, and (b) the claim that a crash can only fall *between* the model's atomic
steps, i.e. that each batch of the model is one `MULTI…EXEC` in the code — which is a fact about the source, pinned by
`facts_batches_atomic` below and exercised by the differential run with injected crashes. -/
theorem C10_crash (s : Sys) (h : Consistent s.store) (es es' : List Ev) (_hp : es' <+: es) :
    Consistent (s.run es').store :=
  C10_main s es' h

/-- in every reachable state every lock key carries an expiry: a dead holder cannot block an address forever.

Since review round 3 this is **not** true by construction any more: `RStore.lockSetNX` writes `ttl := leaseHasTTL`, i.e.
`decide (0 < Facts.lockLeaseMs)` — the lease duration read from a real repository instance on every run — and the proof goes
through `leaseHasTTL_eq` (`Lemmas/StoreConsistent.lean`, `lockSetNX_consistent`); with a lease of 0 the theorem would be false
(`lock_ttl_needs_positive_lease`).  And the flag is **read**: `RStore.lockExpire` leaves a cell without TTL alone, so this
theorem is the premise of `holder_death_unblocks` below.  The syntactic tie to `redislock.go` (one `SetNX` whose TTL argument
is `Guard`'s `ttl` parameter, filled with the lease option; no separate `Expire` / `PExpire` / `Persist` / `Set` call) is
`facts_lock_ttl` below, and the differential run compares the TTL flag of every lock key in the keyspace dumps. -/
theorem lock_ttl (s : Sys) (h : Consistent s.store) (es : List Ev) (k : Nat) (c : LockCell)
    (hc : (s.run es).store.locks[k]? = some c) : c.ttl = true :=
  (C10_main s es h).ttl k c hc

/-! ## 5. the executable oracle of the driver -/

/-- the driver's oracle `consistentB`, evaluated on the implementation's raw keyspace dump, implies the invariant -/
theorem consistentB_sound {st : RStore} (h : st.consistentB = true) : Consistent st :=
  RStore.consistentB_sound h

/-- the oracle is exactly the invariant plus "no status-set member with a bit index outside 0..8"
(`Consistent` leaves such junk members unconstrained; the oracle rejects them) -/
theorem consistentB_iff {st : RStore} :
    st.consistentB = true ↔ Consistent st ∧ ∀ e : Nat, e ∈ st.statusSet → e % 16 < 9 :=
  RStore.consistentB_iff

/-- the model side of the C10 driver: every call of its runner (`Drv.runCall`: writer, queue / instance
call or read; cut before / after any command, or not at all) leaves the model keyspace consistent,
so every dump the driver renders from the model and compares the implementation's dump with is
the dump of a consistent store -/
theorem driver_runCall_consistent (s : Drv.SeqState) (h : Consistent s.st) (c : Drv.CallSpec) (crash : Drv.Crash) :
    Consistent (Drv.runCall s c crash).1.st :=
  Drv.runCall_consistent s h c crash

/-- … and so does the driver's "all leases expire" item -/
theorem driver_expire_consistent (st : RStore) (h : Consistent st) (ks : List Nat) (d : Bool) :
    Consistent (ks.foldl (fun st k => st.lockExpire k d) st) :=
  Drv.expireAll_consistent st h ks d

/-! ## 6. non-vacuity -/

/-- the empty keyspace satisfies the invariant -/
example : Consistent {} := consistent_empty

/-- a record with status `master|info`, refreshed at 7, saved at 5 into the empty keyspace -/
def demoServer : Server :=
  { addr := ⟨16843009, 10480⟩, queryPort := 10481, status := 6#9, info := [], details := ⟨[], [], []⟩,
    refreshedAt := some 7, version := 0 }

example : Consistent (({} : RStore).saveBatch demoServer 5) := saveBatch_consistent consistent_empty _ _

/-- … and its indexes are non-empty: `updated`, `refreshed` and two status sets have the member -/
example :
    let st := ({} : RStore).saveBatch demoServer 5
    st.updated[demoServer.addr.key]? = some 5 ∧ st.refreshed[demoServer.addr.key]? = some 7 ∧
    stKey demoServer.addr.key 1 ∈ st.statusSet ∧ stKey demoServer.addr.key 2 ∈ st.statusSet ∧
    stKey demoServer.addr.key 0 ∉ st.statusSet := by
  refine ⟨?_, ?_, ?_, ?_, ?_⟩
  · simp [saveBatch]
  · simp [saveBatch, demoServer]
  · show stKey _ 1 ∈ setStatus _ _ _
    rw [RStore.stKey_mem_setStatus (by omega)]; simp [demoServer, hasBit]
  · show stKey _ 2 ∈ setStatus _ _ _
    rw [RStore.stKey_mem_setStatus (by omega)]; simp [demoServer, hasBit]
  · show ¬ stKey _ 0 ∈ setStatus _ _ _
    rw [RStore.stKey_mem_setStatus (by omega)]; simp [demoServer, hasBit]

/-- a lock cell exists after `SET NX EX`, so `lock_ttl` is not vacuous -/
example : ((({} : RStore).lockSetNX 3 1).1).locks[3]? = some ⟨1, true⟩ := by
  simp [lockSetNX, touchLock, leaseHasTTL_eq]

end Swat4.C10

/-! # Additions: the source facts behind "one batch = one atomic step" and "every lock key has an expiry" -/
namespace Swat4.C10
open Swat4 Swat4.RStore Std

/-- **Each batch of the model is one `MULTI…EXEC` in the source** (regenerated `Gen/Facts.lean`, section `storewrites`,
extracted from the Go source by `harness/internal/facts/storewrites.go` on every run).  The complete inventory of Redis
write call sites of the three repositories and `redislock.go`:

* inside a `….TxPipelined(ctx, func(pipe){ pipe.X(…) … })` closure, i.e. queued between one `MULTI` and its `EXEC` —
  `servers.remove` (`AStep.remove`: HDEL, ZREM, ZREM, SREM×members), `servers.save` (`AStep.save`: HSET, ZADD,
  ZREM|ZADD, SADD|SREM×members), `instances.Add` (`insAdd`: HSET, ZADD), `instances.Remove` (`insRemove`: HDEL, ZREM),
  `instances.Clear` (`insClear`: ZREM, HDEL), `probes.enqueue` (`enqueue`: HSET, ZADD), `probes.pop` (`pop`: ZREM, HDEL);
  one call site per command of the model's batch, nothing else;
* outside such a closure — only `redislock.Guard`'s `SetNX` (`AStep.lockSetNX`) and `redislock.release`'s `Del`
  (`AStep.lockDel`), which the model executes as steps of their own.

A write moved out of the closure (`tx.SRem` / `tx.HSet` instead of `pipe.…`), a new write site, or a batch sent with a
bare `Pipelined` (no `MULTI`) changes one of these lists and breaks this theorem. -/
theorem facts_batches_atomic :
    Facts.storeWritesOutsideTx =
      [("redislock", "Guard", "m.client", "SetNX"), ("redislock", "release", "tx *redis.Tx", "Del")] ∧
    Facts.storeWritesInTx =
      [("servers", "remove", "tx *redis.Tx", "HDel"), ("servers", "remove", "tx *redis.Tx", "ZRem"),
       ("servers", "remove", "tx *redis.Tx", "ZRem"), ("servers", "remove", "tx *redis.Tx", "SRem"),
       ("servers", "save", "tx *redis.Tx", "HSet"), ("servers", "save", "tx *redis.Tx", "ZAdd"),
       ("servers", "save", "tx *redis.Tx", "ZRem"), ("servers", "save", "tx *redis.Tx", "ZAdd"),
       ("servers", "save", "tx *redis.Tx", "SAdd"), ("servers", "save", "tx *redis.Tx", "SRem"),
       ("instances", "Add", "r.client", "HSet"), ("instances", "Add", "r.client", "ZAdd"),
       ("instances", "Remove", "r.client", "HDel"), ("instances", "Remove", "r.client", "ZRem"),
       ("instances", "Clear", "r.client", "ZRem"), ("instances", "Clear", "r.client", "HDel"),
       ("probes", "enqueue", "r.client", "HSet"), ("probes", "enqueue", "r.client", "ZAdd"),
       ("probes", "pop", "r.client", "ZRem"), ("probes", "pop", "r.client", "HDel")] ∧
    Facts.storeTxCalls =
      [("servers", "remove", "tx *redis.Tx", "TxPipelined"), ("servers", "filterServerKeys", "r.client", "Pipelined"),
       ("servers", "CountByStatus", "r.client", "TxPipelined"), ("servers", "save", "tx *redis.Tx", "TxPipelined"),
       ("instances", "Add", "r.client", "TxPipelined"), ("instances", "Remove", "r.client", "TxPipelined"),
       ("instances", "Clear", "r.client", "TxPipelined"), ("probes", "enqueue", "r.client", "TxPipelined"),
       ("probes", "pop", "r.client", "TxPipelined"),
       ("redislock", "Guard", "m.client", "Watch"), ("redislock", "release", "m.client", "Watch")] := by
  decide

/-- … read off the lists: the only non-transactional pipeline (`Pipelined`, no `MULTI`) is in a function that
performs no write at all (`filterServerKeys`, the index reads of `Filter`) -/
theorem facts_no_bare_pipeline_in_writer :
    ∀ x ∈ Facts.storeTxCalls, x.2.2.2 ≠ "TxPipelined" → x.2.2.2 ≠ "Watch" →
      ∀ y ∈ Facts.storeWritesInTx ++ Facts.storeWritesOutsideTx, ¬ (y.1 = x.1 ∧ y.2.1 = x.2.1) := by
  decide

/-- **Every lock key is created with an expiry** (the tie of `lock_ttl` / `Consistent.ttl` to `redislock.go`).  The only
`SetNX` call is `m.client.SetNX(ctx, key, token, ttl)` in `Guard`, its TTL argument is `Guard`'s own `ttl` parameter;
the only caller of `Guard` (`servers.updateExclusive`) passes `r.lockOpts.LeaseDuration`, whose value in a repository as
`servers.New` builds it is positive (`lockLeaseMs`, read from a real instance); and no call in `redislock.go` could set
the key without a TTL, change its TTL or make it persistent (`Set…`, `GetSet`, `GetEx`, `…Expire…`, `Persist`).  Splitting
the acquisition into `SetNX(key, token, 0)` + `PExpire` — which a crash could cut in between, leaving a lock that never
expires — changes the second and the third list. -/
theorem facts_lock_ttl :
    Facts.lockSetNX = [("Guard", "m.client", "ctx context.Context, key string, token, ttl time.Duration")] ∧
    Facts.lockGuardParams = ["ctx context.Context", "key string", "ttl time.Duration", "op func(tx *redis.Tx) error"] ∧
    Facts.lockExpireCalls = [] ∧
    Facts.lockGuardCalls =
      [("updateExclusive", "r.locker", "ctx context.Context, lockKey, r.lockOpts.LeaseDuration, func")] ∧
    0 < Facts.lockLeaseMs := by
  decide

end Swat4.C10

/-! # Additions (review rounds 2 and 3): "no crash can block a server forever"

Round 2's reviewer observed that `LockCell.ttl` was **decorative**: `RStore.lockExpire` removed the cell without reading the
flag and `lockSetNX` wrote `ttl := true` unconditionally, so `lock_ttl` / `Consistent.ttl` were true by construction and
played no part in any liveness argument.  Round 3 changed the model (`Model/Store.lean`):

* `lockExpire` acts **only on a cell whose `ttl` flag is set** — a key without TTL never expires;
* `lockSetNX` writes `ttl := leaseHasTTL = decide (0 < Facts.lockLeaseMs)`.

On reachable stores nothing changes (`lockExpire_respects_ttl`: all cells carry a TTL, and there the old and the new expiry
coincide — which is why the differential runs of C09–C16, whose driver executes this model, are unaffected).  But the
theorems now *depend* on the flag:

* a *dead* client is one that is never scheduled again (`Sys` has no separate death event: a client that takes no further
  step is exactly a process that died at a command boundary, which is how `C10_crash` reads it);
* `blocked_while_held`: as long as the cell is there, every other call's `SET NX` on that address fails — the address *is*
  blocked until the lease runs out (or the holder releases);
* `holder_death_unblocks`: in every **reachable** state, after `Ev.expire k`, whoever held the cell and whether or not it
  is alive, the next `SET NX` on `k` by any client succeeds.  The premise "the cell of `k` carries a TTL" is discharged by
  `lock_ttl` (`holder_death_unblocks_of_ttl` is the step with the premise explicit);
  `holder_death_unblocks_writer`: the same as two events of the system;
* `no_ttl_blocks_forever`: the premise is needed — a cell **without** TTL survives any number of expiry events and keeps
  refusing every `SET NX`: had the code created lock keys without expiry, a dead holder would block its address for good.

That the expiry event *occurs* (time passes, Redis expires the key) is the scheduler's business, as for every `Ev`. -/
namespace Swat4.C10
open Swat4 Swat4.RStore Std

/-- the lease-expiry event frees the lock key, whatever it held and whether or not expiry invalidates watchers —
**if its cell carries a TTL** (premise: `lock_ttl` on reachable states) -/
theorem expire_frees (s : Sys) (k : Nat) (httl : ∀ c : LockCell, s.store.locks[k]? = some c → c.ttl = true) :
    (s.step (.expire k)).store.locks[k]? = none :=
  RStore.lockExpire_frees s.store k s.dirties httl

/-- the step behind `holder_death_unblocks`, with the premise explicit: in a state where the cell of `k` (if any) carries a
TTL, after the lease-expiry event of that key a `SET NX` on `k` with any token succeeds and installs that cell -/
theorem holder_death_unblocks_of_ttl (s : Sys) (k tok : Nat)
    (httl : ∀ c : LockCell, s.store.locks[k]? = some c → c.ttl = true) :
    ((s.step (.expire k)).store.lockSetNX k tok).2 = true ∧
    ((s.step (.expire k)).store.lockSetNX k tok).1.locks[k]? = some ⟨tok, true⟩ := by
  rw [RStore.lockSetNX_none (expire_frees s k httl)]
  refine ⟨rfl, ?_⟩
  show ((s.step (.expire k)).store.locks.insert k ⟨tok, true⟩)[k]? = _
  simp

/-- **`holder_death_unblocks`** (clause "every lock key carries an expiry, so no crash can block a server forever"): in
every state `s0.run es` reachable from a consistent keyspace — in particular one where `servers:lock:<k>` is held by a
client that has died and will never release it — after the lease-expiry event of that key, a `SET NX` on `k` by **any**
client with any token succeeds and installs that client's cell (again with a TTL).  The premise "the key has a TTL, so the
expiry event removes it" comes from `lock_ttl`, i.e. from `leaseHasTTL` (the positive lease extracted from the source) —
it is not free: `no_ttl_blocks_forever`. -/
theorem holder_death_unblocks (s0 : Sys) (h : Consistent s0.store) (es : List Ev) (k tok : Nat) :
    (((s0.run es).step (.expire k)).store.lockSetNX k tok).2 = true ∧
    (((s0.run es).step (.expire k)).store.lockSetNX k tok).1.locks[k]? = some ⟨tok, true⟩ :=
  holder_death_unblocks_of_ttl (s0.run es) k tok fun c hc => lock_ttl s0 h es k c hc

/-- … as two events of the interleaved system: in a reachable state, a registry call `j` standing at its `SET NX`
acquires the lock of its address right after that key's lease expired — whoever held it before — and moves on to `WATCH` -/
theorem holder_death_unblocks_writer (s0 : Sys) (h : Consistent s0.store) (es : List Ev) (j : Nat) (w : Writer)
    (hc : (s0.run es).clients[j]? = some (.writer w)) (hpc : w.pc = .setnx) :
    ((((s0.run es).step (.expire w.key)).step (.step j)).store.locks[w.key]? = some ⟨w.tok, true⟩) ∧
    (((s0.run es).step (.expire w.key)).step (.step j)).clients[j]? = some (.writer { w with pc := .watch }) := by
  generalize hs : s0.run es = s at hc
  have hu := holder_death_unblocks s0 h es w.key w.tok
  rw [hs] at hu
  have hc' : (s.step (.expire w.key)).clients[j]? = some (.writer w) := hc
  have hw : wstep (s.step (.expire w.key)).store (s.step (.expire w.key)).clock (s.step (.expire w.key)).nextTok j w =
      (((s.step (.expire w.key)).store.lockSetNX w.key w.tok).1, { w with pc := .watch }, false, none) := by
    have h2 : ((s.step (.expire w.key)).store.lockSetNX w.key w.tok).2 = true := hu.1
    simp only [wstep, hpc]
    exact if_pos h2
  refine ⟨?_, ?_⟩
  · rw [Sys.step_writer _ j w hc', hw]
    exact hu.2
  · rw [Sys.step_clients_self_writer _ j w hc', hw]

/-- **why the expiry is needed**: while the cell of `k` exists — e.g. its holder died before releasing — a call standing
at its `SET NX` on `k` does not get the lock: the command changes nothing in the store -/
theorem blocked_while_held (s : Sys) (j : Nat) (w : Writer) (hc : s.clients[j]? = some (.writer w)) (hpc : w.pc = .setnx)
    (c : LockCell) (hheld : s.store.locks[w.key]? = some c) :
    (s.step (.step j)).store = s.store := by
  have hheld' : s.store.locks[w.op.svr.addr.key]? = some c := hheld
  rw [Sys.step_writer s j w hc]
  show (wstep s.store s.clock s.nextTok j w).1 = s.store
  simp only [wstep, hpc, RStore.lockSetNX_some hheld']
  split <;> rfl

/-- **the `ttl` premise is needed** (the converse of `holder_death_unblocks`): a lock cell **without** TTL survives any
number of lease-expiry events of its key, with or without watcher invalidation, and after them every `SET NX` on that key
still fails and changes nothing.  A lock key created without expiry by a holder that then died would block its address
forever. -/
theorem no_ttl_blocks_forever (st : RStore) (k : Nat) (c : LockCell) (hc : st.locks[k]? = some c) (ht : c.ttl = false)
    (ds : List Bool) (tok : Nat) :
    ds.foldl (fun st d => st.lockExpire k d) st = st ∧
    (ds.foldl (fun st d => st.lockExpire k d) st).lockSetNX k tok = (st, false) := by
  have h1 : ds.foldl (fun st d => st.lockExpire k d) st = st := by
    induction ds with
    | nil => rfl
    | cons d ds ih => rw [List.foldl_cons, RStore.lockExpire_persistent hc ht d]; exact ih
  exact ⟨h1, by rw [h1]; exact RStore.lockSetNX_some hc⟩

/-- … as an event of the system: `Ev.expire k` leaves a state whose cell of `k` has no TTL unchanged -/
theorem expire_no_ttl (s : Sys) (k : Nat) (c : LockCell) (hc : s.store.locks[k]? = some c) (ht : c.ttl = false) :
    s.step (.expire k) = s := by
  show { s with store := s.store.lockExpire k s.dirties } = s
  rw [RStore.lockExpire_persistent hc ht]

/-- `lock_ttl` now rests on the extracted lease being positive: with the TTL flag a non-positive lease would produce
(`false`), `Consistent.ttl` fails right after the first `SET NX` -/
theorem lock_ttl_needs_positive_lease (st : RStore) (k tok : Nat) :
    ¬ Consistent { st with locks := st.locks.insert k ⟨tok, false⟩ } := by
  intro h
  have := h.ttl k ⟨tok, false⟩ (by show (st.locks.insert k ⟨tok, false⟩)[k]? = _; simp)
  cases this

/-- **what the `ttl` flag is for**: the model's expiry *is* the TTL-respecting expiry `lockExpireTTL` (which frees only keys
that carry a TTL; a cell without TTL survives it — its address would stay blocked for good), and on every reachable store
(all cells carry a TTL: `lock_ttl`) it removes the cell as the expiry of the model before review round 3 did
(`RStore.lockExpire_eq_TTL`): the model change does not alter the behaviour on reachable states. -/
theorem lockExpire_respects_ttl (s : Sys) (h : Consistent s.store) (es : List Ev) (k : Nat) (d : Bool) :
    (s.run es).store.lockExpire k d = (s.run es).store.lockExpireTTL k d ∧
    ∀ (st : RStore) (c : LockCell), st.locks[k]? = some c → c.ttl = false → st.lockExpireTTL k d = st :=
  ⟨RStore.lockExpire_eq_TTL (fun k' c hc => lock_ttl s h es k' c hc) k d,
   fun _ _ hc ht => RStore.lockExpireTTL_persistent hc ht d⟩

/-- on a reachable store the expiry event removes an existing cell (the behaviour of the model before the `ttl` flag was
read): the cell is gone -/
theorem expire_reachable_removes (s0 : Sys) (h : Consistent s0.store) (es : List Ev) (k : Nat) :
    ((s0.run es).step (.expire k)).store.locks[k]? = none :=
  expire_frees (s0.run es) k fun c hc => lock_ttl s0 h es k c hc

/-- a registry call that has taken the lock of its address and then dies (never scheduled again), and a second call on
the same address -/
def deadHolder : Sys :=
  { store := {}, clock := 0, nextTok := 2,
    clients := [.writer (Writer.start ⟨.add, demoServer, fun _ => none⟩ 0),
                .writer (Writer.start ⟨.add, demoServer, fun _ => none⟩ 1)] }

set_option maxRecDepth 100000 in
/-- non-vacuity: client 0 acquires the lock and dies (takes no further step).  Client 1 burns all five attempts against the
held lock and gives up (`lockExhausted`) — blocked; had the lease expired first, its first `SET NX` would have succeeded
(`holder_death_unblocks_writer`: cell with client 1's token, pc `watch`) -/
example :
    (deadHolder.run [.step 0]).store.locks[demoServer.addr.key]? = some ⟨0, true⟩ ∧
    ((deadHolder.run ([.step 0] ++ List.replicate 5 (.step 1))).clients[1]?).map
      (fun c => match c with | .writer w => w.pc.fin? | _ => none) = some (some (.error .lockExhausted)) ∧
    (deadHolder.run [.step 0, .expire demoServer.addr.key, .step 1]).store.locks[demoServer.addr.key]? = some ⟨1, true⟩ := by
  refine ⟨by decide, by rfl, by decide⟩

set_option maxRecDepth 100000 in
/-- the hypotheses of `blocked_while_held` / `holder_death_unblocks_writer` hold in that state: client 1 stands at its
`SET NX` while client 0's cell is there; its step changes nothing in the store, and after the expiry it acquires -/
example :
    ((deadHolder.run [.step 0]).step (.step 1)).store = (deadHolder.run [.step 0]).store ∧
    (((deadHolder.run [.step 0]).step (.expire demoServer.addr.key)).step (.step 1)).store.locks[demoServer.addr.key]? =
      some ⟨1, true⟩ :=
  ⟨blocked_while_held (deadHolder.run [.step 0]) 1 (Writer.start ⟨.add, demoServer, fun _ => none⟩ 1) rfl rfl ⟨0, true⟩
      (by decide),
   (holder_death_unblocks_writer deadHolder consistent_empty [.step 0] 1
      (Writer.start ⟨.add, demoServer, fun _ => none⟩ 1) rfl rfl).1⟩

/-- `lockExpire_respects_ttl` applies to everything reachable from the empty keyspace -/
example (es : List Ev) (k : Nat) (d : Bool) :
    (deadHolder.run es).store.lockExpire k d = (deadHolder.run es).store.lockExpireTTL k d :=
  (lockExpire_respects_ttl deadHolder consistent_empty es k d).1

/-- the hypotheses of `no_ttl_blocks_forever` are satisfiable: the same keyspace as after client 0's `SET NX`, but with the
TTL flag off — three expiry events later the cell is still there and `SET NX` fails -/
example :
    let st : RStore := { locks := (∅ : ExtTreeMap Nat LockCell).insert 3 ⟨0, false⟩ }
    ([true, false, true].foldl (fun st d => st.lockExpire 3 d) st).lockSetNX 3 1 = (st, false) :=
  (no_ttl_blocks_forever _ 3 ⟨0, false⟩ (by simp) rfl [true, false, true] 1).2

end Swat4.C10
