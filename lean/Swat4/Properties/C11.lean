import Swat4.Lemmas.FactsExtra11
import Swat4.Lemmas.StoreRefine
import Swat4.Lemmas.StoreDrv
import Swat4.Lemmas.QueueRefine
import Swat4.Lemmas.StoreDrvReads
import Swat4.Lemmas.SortByKey
/-!
# C11 — The registry behaves as a versioned map with exact query predicates

Property theorems only.  `RStore` + the writer machine (`Model/Store.lean`, `Model/StoreMachine.lean`)
is the Redis-level model of `repositories/servers`; `AbsState` (`Spec/Registry.lean`) is the
specification: a map `address ↦ (record, updatedAt)` with `add / update / remove / get /
filter / count / countByStatus`.  `Rel` relates the two; every call run alone refines its
specification, `Filter` returns exactly the records satisfying `FilterSet.pred`.

Sections 6–9 do the same for the other two repositories: `RelI` relates `instances:items / updated` to
`AbsState.instances`, `RelQ` relates `probes:items / queue` to `AbsState.queue` (a list read as a finite map
`id ↦ item`); every call of the instance / queue machine (`Model/QueueMachine.lean`, `runQ`) run alone refines
`insAdd / insGet / insRemove / insClear / insCount / enqueue / popMany / qCount`, which are the `Call.exec` steps
the use-case programs of C04, C05, C12–C16 are built from.
-/
namespace Swat4.C11
open Swat4 Swat4.RStore Std

/-! ## 1. abstraction relation -/

/-- `Rel st a` says: the specification's row of every key is the stored record with its `servers:updated` score -/
theorem rel_iff (st : RStore) (a : AbsState) :
    Rel st a ↔ ∀ k : Nat, a.servers[k]? = (st.items[k]?).map fun r => (⟨r, (st.updated[k]?).getD 0⟩ : SRow) :=
  ⟨fun h => h.servers, fun h => ⟨h⟩⟩

/-- a store determines the registry part of the specification state it stands for -/
theorem rel_unique {st : RStore} {a : AbsState} (h : Rel st a) : a.servers = absServers st := h.servers_eq

/-- the empty keyspace stands for the empty registry -/
theorem rel_empty : Rel {} {} := Swat4.rel_empty

/-! ## 2. writes -/

/-- **a write call refines its specification.**  From a store related to `a` with no lock cell on
the call's key, the writer machine (`SET NX EX`, `WATCH`, `GET`, `HGET`, decide, `MULTI…EXEC`,
`UNWATCH`, release) run alone for 16 commands ends in `done` with the specification's result,
in a consistent store related to the specification's next state, with the lock map as before
(in particular no lock cell on the key).

No hypothesis on the resolver is needed: both levels store the resolved record under *its own*
address (`saveBatch` / `AbsState.save`), so the refinement holds for every function, not only the
address-preserving ones.  (That the lock taken on the *caller's* address covers the key written
is C09's concern.) -/
theorem write_refines {st : RStore} {a : AbsState} (hc : Consistent st) (hrel : Rel st a) (clock : Int)
    (op : WOp) (tok fresh : Nat) (hno : st.locks[op.svr.addr.key]? = none) :
    (runWriter st clock (Writer.start op tok) fresh 16).2.pc = .done (specWrite a clock op).2 ∧
    Rel (runWriter st clock (Writer.start op tok) fresh 16).1 (specWrite a clock op).1 ∧
    Consistent (runWriter st clock (Writer.start op tok) fresh 16).1 ∧
    (runWriter st clock (Writer.start op tok) fresh 16).1.locks = st.locks ∧
    (runWriter st clock (Writer.start op tok) fresh 16).1.locks[op.svr.addr.key]? = none := by
  obtain ⟨h1, h2, h3⟩ := write_refines_aux hrel clock op tok fresh hno
  exact ⟨h1, h2, runWriter_consistent hc _ _ _ _, h3, by rw [h3]; exact hno⟩

/-- `Add`: state of `AbsState.add`; `ok` records equal, the only error is *exists* on both sides -/
theorem add_refines {st : RStore} {a : AbsState} (hrel : Rel st a) (clock : Int) (svr : Server) (res : Resolver)
    (tok fresh : Nat) (hno : st.locks[svr.addr.key]? = none) :
    Rel (runWriter st clock (Writer.start ⟨.add, svr, res⟩ tok) fresh 16).1 (a.add clock svr res).1 ∧
    (match (a.add clock svr res).2 with
     | .ok s => (runWriter st clock (Writer.start ⟨.add, svr, res⟩ tok) fresh 16).2.pc = .done (.ok (some s))
     | .error e => e = .serverExists ∧
        (runWriter st clock (Writer.start ⟨.add, svr, res⟩ tok) fresh 16).2.pc = .done (.error .exists)) := by
  obtain ⟨h1, h2, _⟩ := write_refines_aux hrel clock ⟨.add, svr, res⟩ tok fresh hno
  obtain ⟨e1, e2⟩ := specWrite_add a clock svr res
  rw [e1] at h2
  rw [e2] at h1
  refine ⟨h2, ?_⟩
  cases hr : (a.add clock svr res).2 with
  | ok s => rw [hr] at h1; exact h1
  | error e => rw [hr] at h1; exact ⟨add_error_only a clock svr res e hr, h1⟩

/-- `Update`: state of `AbsState.update`; `ok` records equal, the only error is *not found* on both sides -/
theorem update_refines {st : RStore} {a : AbsState} (hrel : Rel st a) (clock : Int) (svr : Server) (res : Resolver)
    (tok fresh : Nat) (hno : st.locks[svr.addr.key]? = none) :
    Rel (runWriter st clock (Writer.start ⟨.update, svr, res⟩ tok) fresh 16).1 (a.update clock svr res).1 ∧
    (match (a.update clock svr res).2 with
     | .ok s => (runWriter st clock (Writer.start ⟨.update, svr, res⟩ tok) fresh 16).2.pc = .done (.ok (some s))
     | .error e => e = .serverNotFound ∧
        (runWriter st clock (Writer.start ⟨.update, svr, res⟩ tok) fresh 16).2.pc = .done (.error .notFound)) := by
  obtain ⟨h1, h2, _⟩ := write_refines_aux hrel clock ⟨.update, svr, res⟩ tok fresh hno
  obtain ⟨e1, e2⟩ := specWrite_update a clock svr res
  rw [e1] at h2
  rw [e2] at h1
  refine ⟨h2, ?_⟩
  cases hr : (a.update clock svr res).2 with
  | ok s => rw [hr] at h1; exact h1
  | error e => rw [hr] at h1; exact ⟨update_error_only a clock svr res e hr, h1⟩

/-- `Remove`: state of `AbsState.remove`; both sides return nil -/
theorem remove_refines {st : RStore} {a : AbsState} (hrel : Rel st a) (clock : Int) (svr : Server) (res : Resolver)
    (tok fresh : Nat) (hno : st.locks[svr.addr.key]? = none) :
    Rel (runWriter st clock (Writer.start ⟨.remove, svr, res⟩ tok) fresh 16).1 (a.remove svr res).1 ∧
    (a.remove svr res).2 = .ok () ∧
    (runWriter st clock (Writer.start ⟨.remove, svr, res⟩ tok) fresh 16).2.pc = .done (.ok none) := by
  obtain ⟨h1, h2, _⟩ := write_refines_aux hrel clock ⟨.remove, svr, res⟩ tok fresh hno
  exact ⟨h2, remove_ok a svr res, h1⟩

/-! ## 3. `Filter` -/

/-- `ZRANGEBYSCORE`: exactly the members whose score satisfies the bound -/
theorem mem_zrangeBy (m : ExtTreeMap Nat Int) (p : Int → Bool) (k : Nat) :
    k ∈ zrangeBy m p ↔ ∃ v : Int, m[k]? = some v ∧ p v = true :=
  RStore.mem_zrangeBy m p k

/-- `SINTER` over the bits of a non-empty mask: keys of the stored records having all of them -/
theorem mem_sinter {st : RStore} (hc : Consistent st) {mask : Status} (hm : mask ≠ 0#9) (k : Nat) :
    k ∈ sinter st mask ↔ ∃ r : Server, st.items[k]? = some r ∧ Status.has r.status mask = true :=
  RStore.mem_sinter hc hm k

/-- `SUNION` over the bits of a mask: keys of the stored records having any of them -/
theorem mem_sunion {st : RStore} (hc : Consistent st) (mask : Status) (k : Nat) :
    k ∈ sunion st mask ↔ ∃ r : Server, st.items[k]? = some r ∧ Status.hasAny r.status mask = true :=
  RStore.mem_sunion hc mask k

/-- `slice.Intersection` of a non-empty list of key lists = members of all of them (duplicates ignored) -/
theorem mem_intersection (s : List Nat) (rest : List (List Nat)) (x : Nat) :
    x ∈ intersection (s :: rest) ↔ ∀ t, t ∈ s :: rest → x ∈ t :=
  RStore.mem_intersection s rest x

/-- `slice.Difference` -/
theorem mem_difference (base : List Nat) (others : List (List Nat)) (x : Nat) :
    x ∈ difference base others ↔ x ∈ base ∧ ∀ t, t ∈ others → x ∉ t :=
  RStore.mem_difference base others x

/-- `filterServerKeys` returns, without duplicates, exactly the keys of the stored records that satisfy
`FilterSet.pred` (incl. "no include criterion ⇒ all of `servers:updated`"; masks are `BitVec 9`, so all
their bits are status bits) -/
theorem mem_filterKeys {st : RStore} (hc : Consistent st) (fs : FilterSet) (k : Nat) :
    k ∈ filterKeys st fs ↔
      ∃ r : Server, st.items[k]? = some r ∧ fs.pred ⟨r, (st.updated[k]?).getD 0⟩ = true :=
  RStore.mem_filterKeys hc fs k

theorem nodup_filterKeys (st : RStore) (fs : FilterSet) : (filterKeys st fs).Nodup :=
  RStore.nodup_filterKeys st fs

/-- **`Filter` = predicate.**  On a consistent store the index pipeline + `HMGET` returns, up to
order, exactly the rows of the specification state that satisfy `FilterSet.pred` -/
theorem filter_eq_pred {st : RStore} {a : AbsState} (hc : Consistent st) (hrel : Rel st a) (fs : FilterSet) :
    (st.hmgetItems (st.filterKeys fs)).Perm (a.filter fs) :=
  RStore.filter_eq_pred hc hrel fs

/-! ## 4. `Get`, `Count`, `CountByStatus` -/

theorem get_refines {st : RStore} {a : AbsState} (hrel : Rel st a) (ad : Addr) : getM st ad = a.get ad :=
  RStore.get_refines hrel ad

/-- `HLEN servers:items` = number of rows -/
theorem count_refines {st : RStore} {a : AbsState} (hrel : Rel st a) : st.items.size = a.count :=
  RStore.count_refines hrel

/-- the nine `SCARD servers:status:<m>` = number of rows having `m`, for every member of `ds.Members()` -/
theorem countByStatus_refines {st : RStore} {a : AbsState} (hc : Consistent st) (hrel : Rel st a) :
    countByM st = Status.members.map a.countByStatus :=
  RStore.countByStatus_refines hc hrel

/-! ## 5. histories -/

/-- one call from related states: related states again and agreeing results -/
theorem C11_step {m : SeqM} {s : AbsState × Int} (h : Sim m s) (c : RCall) :
    Sim (stepM m c).1 (stepS s c).1 ∧ ResEq (stepM m c).2 (stepS s c).2 :=
  step_sim h c

/-- **C11.** For every history of registry calls (writes with arbitrary records, versions and
resolvers; `Get`, `Filter` with arbitrary filter sets, `Count`, `CountByStatus`; clock advances)
run sequentially from the empty keyspace, the Redis-level model returns item by item what the
versioned-map specification returns (`Filter` results up to order). -/
theorem C11_main (clock : Int) (fresh : Nat) (cs : List RCall) :
    HistEq (runHistM ⟨{}, clock, fresh⟩ cs) (runHistS ({}, clock) cs) :=
  runHist_sim (sim_init clock fresh) cs

/-- … and from any pair of related states -/
theorem C11_from {m : SeqM} {s : AbsState × Int} (h : Sim m s) (cs : List RCall) :
    HistEq (runHistM m cs) (runHistS s cs) :=
  runHist_sim h cs

/-- the model side of the C11 driver: `Drv.runCall` for a write (lock/WATCH machine with trace labels,
budget 200) renders exactly the specification's result and moves to a related, consistent,
lock-free store — i.e. the function the differential run compares with the Go code is the one
`write_refines` speaks about.  (Reads in `Drv.runCall` call `hmgetItems ∘ filterKeys`, `items[·]?`,
`items.size` and the per-bit member counts directly.) -/
theorem driver_write_refines {s : Drv.SeqState} {a : AbsState} (hc : Consistent s.st) (hrel : Rel s.st a)
    (hno : ∀ k : Nat, s.st.locks[k]? = none) (kind : WKind) (svr : Server) (res : Resolver) :
    (Drv.runCall s (.w kind svr res) .none).2.1 = Drv.renderWResult (specWrite a s.clock ⟨kind, svr, res⟩).2 ∧
    Rel (Drv.runCall s (.w kind svr res) .none).1.st (specWrite a s.clock ⟨kind, svr, res⟩).1 ∧
    Consistent (Drv.runCall s (.w kind svr res) .none).1.st ∧
    (∀ k : Nat, (Drv.runCall s (.w kind svr res) .none).1.st.locks[k]? = none) ∧
    (Drv.runCall s (.w kind svr res) .none).1.clock = s.clock :=
  Drv.runCall_write_refines hc hrel hno kind svr res

/-! ## non-vacuity -/

/-- the hypotheses of `C11_step` / `write_refines` are satisfiable -/
example : Sim ⟨{}, 0, 0⟩ ({}, 0) := sim_init 0 0

def demoServer : Server :=
  { addr := ⟨16843009, 10480⟩, queryPort := 10481, status := 6#9, info := [], details := ⟨[], [], []⟩,
    refreshedAt := some 7, version := 0 }

/-- a concrete write: `Add` into the empty registry stores version 1 and returns it -/
example : (specWrite {} 5 ⟨.add, demoServer, fun _ => none⟩).2 = .ok (some { demoServer with version := 1 }) := by
  simp [specWrite, AbsState.add, AbsState.getRow, AbsState.save, demoServer]

/-- … and the writer machine does the same on the empty keyspace -/
example : (runWriter {} 5 (Writer.start ⟨.add, demoServer, fun _ => none⟩ 0) 1 16).2.pc =
    .done (.ok (some { demoServer with version := 1 })) := by
  have h := (write_refines consistent_empty Swat4.rel_empty 5 ⟨.add, demoServer, fun _ => none⟩ 0 1 (by simp)).1
  rw [h]
  simp [specWrite, AbsState.add, AbsState.getRow, AbsState.save, demoServer]

/-! ## 6. instance table and probe queue: abstraction relations -/

/-- `RelI st a`: the specification's row of every instance id is the stored address with its `instances:updated` score -/
theorem relI_iff (st : RStore) (a : AbsState) :
    RelI st a ↔ ∀ id : Nat, a.instances[id]? = (st.insItems[id]?).map fun ad => (ad, (st.insUpdated[id]?).getD 0) :=
  Iff.rfl

/-- `RelQ st a`, read as "the specification's queue is the finite map the store holds": no id occurs twice, an item
is queued iff `probes:items` has its payload and deadline *and* `probes:queue` has its ready score under the item's
id, and `nextId` is strictly above every id in either key (so the id the next `enqueue` draws is fresh).  The
definition states the second part with `List.find?` (lookup by id); the two forms are equivalent. -/
theorem relQ_iff (st : RStore) (a : AbsState) :
    RelQ st a ↔
      (a.queue.map (·.id)).Nodup ∧
      (∀ x : QItem, x ∈ a.queue ↔ st.pItems[x.id]? = some (x.probe, x.expires) ∧ st.pQueue[x.id]? = some x.ready) ∧
      (∀ id : Nat, id ∈ st.pItems → id < a.nextId) ∧ (∀ id : Nat, id ∈ st.pQueue → id < a.nextId) :=
  relQ_iff_mem st a

/-- lookup by id, as in the definition: what `find?` returns for `id` is the item assembled from the two keys -/
theorem relQ_find {st : RStore} {a : AbsState} (h : RelQ st a) (id : Nat) :
    a.queue.find? (fun x => x.id == id) =
      match st.pItems[id]?, st.pQueue[id]? with
      | some pe, some r => some ⟨id, pe.1, r, pe.2⟩
      | _, _ => none :=
  h.find id

/-- a store determines the instance part of the specification state it stands for -/
theorem relI_unique {st : RStore} {a : AbsState} (h : RelI st a) : a.instances = absInstances st := h.instances_eq

/-- the empty keyspace stands for the empty instance table and the empty queue with `nextId = 0` -/
theorem relIQ_empty : RelI {} {} ∧ RelQ {} {} := ⟨relI_empty, relQ_empty⟩

/-! ## 7. instance table -/

/-- `Add` (`HSET instances:items` + `ZADD instances:updated now`, one batch) refines `AbsState.insAdd`
(one command suffices: `insAdd_refines_aux`) -/
theorem insAdd_refines {st : RStore} {a : AbsState} (hc : Consistent st) (hrel : RelI st a) (clock : Int) (fresh : Nat)
    (i : Instance) {fuel : Nat} (hf : 3 ≤ fuel) :
    (runQ st clock fresh (.insAdd i.id i.addr) (QOp.insAdd i.id i.addr).begin fuel).2.1 = .done .unit ∧
    RelI (runQ st clock fresh (.insAdd i.id i.addr) (QOp.insAdd i.id i.addr).begin fuel).1 (a.insAdd clock i) ∧
    Consistent (runQ st clock fresh (.insAdd i.id i.addr) (QOp.insAdd i.id i.addr).begin fuel).1 := by
  obtain ⟨h1, h2, _⟩ := insAdd_refines_aux hrel clock fresh i (fuel := fuel) (by omega)
  exact ⟨h1, h2, runQ_consistent hc _ _ _ _ _⟩

/-- `Remove` (`HDEL` + `ZREM`, one batch) refines `AbsState.insRemove` -/
theorem insRemove_refines {st : RStore} {a : AbsState} (hc : Consistent st) (hrel : RelI st a) (clock : Int) (fresh id : Nat)
    {fuel : Nat} (hf : 3 ≤ fuel) :
    (runQ st clock fresh (.insRemove id) (QOp.insRemove id).begin fuel).2.1 = .done .unit ∧
    RelI (runQ st clock fresh (.insRemove id) (QOp.insRemove id).begin fuel).1 (a.insRemove id) ∧
    Consistent (runQ st clock fresh (.insRemove id) (QOp.insRemove id).begin fuel).1 := by
  obtain ⟨h1, h2, _⟩ := insRemove_refines_aux hrel clock fresh id (fuel := fuel) (by omega)
  exact ⟨h1, h2, runQ_consistent hc _ _ _ _ _⟩

/-- `Get` (`HGET instances:items`) returns what `AbsState.insGet` returns, incl. *instance not found* -/
theorem insGet_refines {st : RStore} {a : AbsState} (hrel : RelI st a) (id : Nat) : insGetM st id = a.insGet id :=
  insGet_refines_aux hrel id

/-- `Clear` (`ZRANGEBYSCORE instances:updated -inf b|+inf`, then `ZREM … + HDEL …` unless nothing was selected)
refines `AbsState.insClear`: it removes exactly the rows with update time `≤ b` — the bound is inclusive at both
levels, as coded — or all rows when no bound is given, and the `HDEL` reply it returns is the number of rows removed -/
theorem insClear_refines {st : RStore} {a : AbsState} (hc : Consistent st) (hrel : RelI st a) (clock : Int) (fresh : Nat)
    (before : GoTime) {fuel : Nat} (hf : 3 ≤ fuel) :
    (runQ st clock fresh (.insClear before) (QOp.insClear before).begin fuel).2.1 = .done (.count (a.insClear before).2) ∧
    RelI (runQ st clock fresh (.insClear before) (QOp.insClear before).begin fuel).1 (a.insClear before).1 ∧
    Consistent (runQ st clock fresh (.insClear before) (QOp.insClear before).begin fuel).1 := by
  obtain ⟨h1, h2, _⟩ := insClear_refines_aux hc hrel clock fresh before (fuel := fuel) (by omega)
  exact ⟨h1, h2, runQ_consistent hc _ _ _ _ _⟩

/-- what `insClear` removes, spelled out: a row survives iff a bound is given and its update time is after the bound -/
theorem insClear_spec (a : AbsState) (before : GoTime) (id : Nat) :
    (a.insClear before).1.instances[id]? =
      if (∃ v : Addr × Int, a.instances[id]? = some v ∧ ∀ b, before = some b → v.2 ≤ b) then none else a.instances[id]? := by
  rw [insClear_eq]
  show ((doomed a before).foldl (fun m kv => m.erase kv.1) a.instances)[id]? = _
  rw [eraseFold_getElem?]
  by_cases h : id ∈ (doomed a before).map (·.1)
  · rw [if_pos h, if_pos (mem_doomed_keys.1 h)]
  · rw [if_neg h, if_neg (fun hh => h (mem_doomed_keys.2 hh))]

/-- `Count` (`HLEN instances:items`) = number of rows -/
theorem insCount_refines {st : RStore} {a : AbsState} (hrel : RelI st a) : st.insItems.size = a.insCount :=
  insCount_refines_aux hrel

/-! ## 8. probe queue -/

/-- `enqueue` refines `AbsState.enqueue`: when both bounds are explicit and `after ≥ before` no command is issued and
neither level changes; otherwise one batch `HSET probes:items id` + `ZADD probes:queue ready id` with the fresh id
`fresh = a.nextId` and `ready = after`, or the clock when `after` is zero; the id counters stay equal -/
theorem enqueue_refines {st : RStore} {a : AbsState} (hc : Consistent st) (hrel : RelQ st a) (clock : Int) (fresh : Nat)
    (hfresh : fresh = a.nextId) (p : Probe) (after before : GoTime) {fuel : Nat} (hf : 3 ≤ fuel) :
    (runQ st clock fresh (.enqueue p after before) (QOp.enqueue p after before).begin fuel).2.1 = .done .unit ∧
    RelQ (runQ st clock fresh (.enqueue p after before) (QOp.enqueue p after before).begin fuel).1 (a.enqueue clock p after before) ∧
    (runQ st clock fresh (.enqueue p after before) (QOp.enqueue p after before).begin fuel).2.2 = (a.enqueue clock p after before).nextId ∧
    Consistent (runQ st clock fresh (.enqueue p after before) (QOp.enqueue p after before).begin fuel).1 := by
  obtain ⟨h1, h2, h3⟩ := enqueue_refines_aux hrel clock fresh hfresh p after before (fuel := fuel) (by omega)
  exact ⟨h1, h2, h3, runQ_consistent hc _ _ _ _ _⟩

/-- the dropped case separately: nothing happens at either level -/
theorem enqueue_dropped (st : RStore) (a : AbsState) (clock : Int) (fresh : Nat) (p : Probe) (af bf : Int) (h : af ≥ bf)
    (fuel : Nat) :
    runQ st clock fresh (.enqueue p (some af) (some bf)) (QOp.enqueue p (some af) (some bf)).begin fuel = (st, .done .unit, fresh) ∧
    a.enqueue clock p (some af) (some bf) = a :=
  ⟨runQ_enqueue_drop st clock fresh p af bf h fuel, enqueue_drop a clock p af bf h⟩

/-- `ZRANGEBYSCORE probes:queue -inf now LIMIT 0 k` returns the ids of the first `k` items of `readySorted`, in order:
both levels order by `(ready, id)` -/
theorem zrange_eq_ready {st : RStore} {a : AbsState} (hc : Consistent st) (hrel : RelQ st a) (now : Int) (k : Nat) :
    zrangeUpTo st.pQueue (some now) (some k) = ((AbsState.readySorted a.queue now).take k).map (·.id) :=
  zrange_eq_batch hc hrel now k

/-- **`PopMany(n)` run alone refines `AbsState.popMany`** (sequential; interleavings are C12's subject): for any `n`
and any number of rounds, within `2·ZCARD + 1` commands the machine ends in `done` with *the same list* of probes
(not only the same multiset: both levels order by `(ready, id)`) and the same expired count, in a consistent store
related to the specification's next state; the id counter and the instance keys are untouched -/
theorem popMany_refines_set {st : RStore} {a : AbsState} (hc : Consistent st) (hrel : RelQ st a) (clock : Int) (fresh : Nat)
    (n : Int) {fuel : Nat} (hf : 2 * st.pQueue.size + 1 ≤ fuel) :
    ∃ (ps : List Probe) (e : Nat),
      (runQ st clock fresh (.popMany n) (QOp.popMany n).begin fuel).2.1 = .done (.probes ps e) ∧
      ps = (a.popMany clock n).2.1 ∧ e = (a.popMany clock n).2.2 ∧
      RelQ (runQ st clock fresh (.popMany n) (QOp.popMany n).begin fuel).1 (a.popMany clock n).1 ∧
      Consistent (runQ st clock fresh (.popMany n) (QOp.popMany n).begin fuel).1 ∧
      (runQ st clock fresh (.popMany n) (QOp.popMany n).begin fuel).2.2 = fresh ∧
      (a.popMany clock n).1.nextId = a.nextId := by
  obtain ⟨h1, h2, h3, h4, _, _⟩ := popMany_refines_aux hc hrel clock fresh n hf
  exact ⟨_, _, h1, rfl, rfl, h2, h3, h4, popMany_nextId a clock n⟩

/-- the statement asked for by the plan (results as multisets) follows -/
theorem popMany_refines_perm {st : RStore} {a : AbsState} (hc : Consistent st) (hrel : RelQ st a) (clock : Int) (fresh : Nat)
    (n : Int) {fuel : Nat} (hf : 2 * st.pQueue.size + 1 ≤ fuel) :
    ∃ (ps : List Probe) (e : Nat),
      (runQ st clock fresh (.popMany n) (QOp.popMany n).begin fuel).2.1 = .done (.probes ps e) ∧
      ps.Perm (a.popMany clock n).2.1 ∧ e = (a.popMany clock n).2.2 ∧
      RelQ (runQ st clock fresh (.popMany n) (QOp.popMany n).begin fuel).1 (a.popMany clock n).1 := by
  obtain ⟨ps, e, h1, h2, h3, h4, _⟩ := popMany_refines_set hc hrel clock fresh n hf
  exact ⟨ps, e, h1, h2 ▸ List.Perm.refl _, h3, h4⟩

/-- `Count` (`ZCARD probes:queue`) = length of the specification's queue -/
theorem qCount_refines {st : RStore} {a : AbsState} (hc : Consistent st) (hrel : RelQ st a) : st.pQueue.size = a.qCount :=
  qCount_refines_aux hc hrel

/-! ## 9. histories of instance / queue calls -/

/-- one call from related states: related states again and the same reply -/
theorem C11_queue_step {m : SeqQ} {s : AbsState × Int} (h : SimQ m s) (c : QCall) :
    SimQ (stepQM m c).1 (stepQS s c).1 ∧ (stepQM m c).2 = (stepQS s c).2 :=
  stepQ_sim h c

/-- **C11, instance table and probe queue.**  For every history of `Add / Get / Remove / Clear / Count` on instances,
`enqueue / PopMany / Count` on probes and clock advances, run sequentially from the empty keyspace, the Redis-level
machine (every call run alone with budget `2·ZCARD + 3`) gives reply by reply exactly what `Call.exec` gives on the
specification state — `PopMany` batches as equal lists — and never runs out of budget. -/
theorem C11_queue_main (clock : Int) (cs : List QCall) :
    runHistQM ⟨{}, clock, 0⟩ cs = runHistQS ({}, clock) cs :=
  runHistQ_sim (simQ_init clock) cs

/-- … and from any pair of related states, with the relations re-established at the end of every prefix -/
theorem C11_queue_from {m : SeqQ} {s : AbsState × Int} (h : SimQ m s) (cs : List QCall) :
    runHistQM m cs = runHistQS s cs :=
  runHistQ_sim h cs

/-- no reply of the machine side of a history is `hung` -/
theorem C11_queue_no_hung {m : SeqQ} {s : AbsState × Int} (h : SimQ m s) (c : QCall) :
    (stepQM m c).2 ≠ .hung := by
  rw [(stepQ_sim h c).2]
  cases c <;> simp [stepQS]

/-- the model side of the store drivers: `Drv.runCall` for an instance / queue call (the machine stepped with trace
labels, budget 200) ends in the keyspace and id counter of the machine call `C11_queue_main` folds over and renders its
result, as long as at most 98 probes are queued (`PopMany` may need `2·ZCARD + 1` commands: a round that finds only
expired items is followed by another one) -/
theorem driver_queue_refines {s : Drv.SeqState} {a : AbsState} (h : SimQ ⟨s.st, s.clock, s.fresh⟩ (a, s.clock)) (op : QOp)
    (hb : s.st.pQueue.size ≤ 98) :
    ∃ r : QResult,
      (SeqQ.call ⟨s.st, s.clock, s.fresh⟩ op).2 = QRes.ofQ r ∧
      (Drv.runCall s (.q op) .none).2.1 = Drv.renderQResult op r ∧
      (Drv.runCall s (.q op) .none).1.st = (SeqQ.call ⟨s.st, s.clock, s.fresh⟩ op).1.st ∧
      (Drv.runCall s (.q op) .none).1.fresh = (SeqQ.call ⟨s.st, s.clock, s.fresh⟩ op).1.fresh ∧
      (Drv.runCall s (.q op) .none).1.clock = s.clock := by
  obtain ⟨r, hr⟩ := Drv.call_done h op
  obtain ⟨e1, e2, e3, e4⟩ := Drv.runCall_q_eq s op r (by omega) hr
  refine ⟨r, ?_, e4, e1, e2, e3⟩
  have hr' : (runQ s.st s.clock s.fresh op op.begin (SeqQ.budget ⟨s.st, s.clock, s.fresh⟩)).2.1 = .done r := hr
  simp only [SeqQ.call, hr']

/-! ### non-vacuity -/

def demoProbe : Probe := ⟨⟨16843009, 10480⟩, 10481, .details, 0, 3⟩

/-- two enqueues (the second ready earlier), one not yet ready, and a `PopMany(5)` at clock 10: the machine pops the
two ready ones, earlier-ready first, and leaves the third -/
example :
    runHistQM ⟨{}, 10, 0⟩ [.enqueue demoProbe none none, .enqueue { demoProbe with retries := 1 } (some 7) none,
        .enqueue { demoProbe with retries := 2 } (some 11) (some 12), .enqueue demoProbe (some 12) (some 12),
        .qCount, .popMany 5, .qCount] =
      [.unit (.ok ()), .unit (.ok ()), .unit (.ok ()), .unit (.ok ()), .size 3,
       .probes (.ok ([{ demoProbe with retries := 1 }, demoProbe], 0)), .size 1] := by
  rw [C11_queue_main]
  rfl

example : SimQ ⟨{}, 0, 0⟩ ({}, 0) := simQ_init 0

end Swat4.C11

/-! # Additions: what `Update` does when the resolver refuses -/
namespace Swat4.C11
open Swat4 Swat4.RStore Std

/-- **`Update` with a refusing resolver** (clause "update … consults the resolver exactly when the stored version is
newer"; the property text says what a refusal means for `add` — *exists* — but not for `update`).  The specification
(`Spec/Registry.lean`, `AbsState.update`) pins it: when the stored version is newer than the caller's and the resolver
refuses, nothing changes and the call returns **the stored (newer) record with no error**.  This is what the Go
repository does — `servers.go`, `update`: `if !onConflict(&resolved) { return existing, nil }` ("return the newer
version of the server in case the caller has decided not to resolve the conflict") — and it differs on purpose from
`add` (`ErrServerExists`) and from a missing address (`ErrServerNotFound`). -/
theorem update_refused (a : AbsState) (now : Int) (svr : Server) (res : Resolver) (ex : SRow)
    (hrow : a.getRow svr.addr = some ex) (hv : ex.svr.version > svr.version) (hres : res ex.svr = none) :
    a.update now svr res = (a, .ok ex.svr) := by
  simp only [AbsState.update, hrow, hv, if_true, hres]

/-- … and the Redis-level writer machine returns the same stored record (as `ok (some ·)`) and leaves the rows alone -/
theorem update_refused_machine {st : RStore} {a : AbsState} (hrel : Rel st a) (clock : Int) (svr : Server) (res : Resolver)
    (ex : SRow) (tok fresh : Nat) (hno : st.locks[svr.addr.key]? = none)
    (hrow : a.getRow svr.addr = some ex) (hv : ex.svr.version > svr.version) (hres : res ex.svr = none) :
    (runWriter st clock (Writer.start ⟨.update, svr, res⟩ tok) fresh 16).2.pc = .done (.ok (some ex.svr)) ∧
    Rel (runWriter st clock (Writer.start ⟨.update, svr, res⟩ tok) fresh 16).1 a := by
  have h := update_refines hrel clock svr res tok fresh hno
  rw [update_refused a clock svr res ex hrow hv hres] at h
  exact ⟨h.2, h.1⟩

/-- the registry after `Add demoServer` at clock 5: one row, version 1 -/
def demoState : AbsState := (({} : AbsState).save 5 demoServer).1

/-- the concrete instance: the stored record has version 1, the caller comes with version 0 and a resolver that
refuses; `update` returns the stored version-1 record, no error, and the state is untouched (the hypotheses of
`update_refused` are satisfiable) -/
example : demoState.update 9 demoServer (fun _ => none) = (demoState, .ok { demoServer with version := 1 }) :=
  update_refused demoState 9 demoServer (fun _ => none) ⟨{ demoServer with version := 1 }, 5⟩
    (by simp [demoState, AbsState.getRow, AbsState.save, demoServer]) (by decide) rfl

/-- for contrast: the same refusal on `add` is the error *exists*, and on a caller whose version is current the
resolver is not consulted at all — the caller's record is stored at version + 1 -/
example : (demoState.add 9 demoServer (fun _ => none)).2 = .error .serverExists ∧
    (demoState.update 9 { demoServer with version := 1 } (fun _ => none)).2 = .ok { demoServer with version := 2 } := by
  constructor <;> simp [demoState, AbsState.add, AbsState.update, AbsState.getRow, AbsState.save, demoServer]

end Swat4.C11

/-! # Additions (review round 2): the prose sub-clauses of `add` / `update` / `remove` as theorems

The property text says, clause by clause, what a write does.  Until now those clauses existed only as the *definitions*
`AbsState.add / update / remove` (`Spec/Registry.lean`) the refinement theorems point at.  The theorems below state each
clause as an equation on the specification — exactly as the specification behaves, quirks included — and, through
`add_refines / update_refines / remove_refines`, as a statement about the Redis-level writer machine: hypotheses on the
*store* (`st.items[key]?`), conclusion about the machine's reply and the store it leaves. -/
namespace Swat4.C11
open Swat4 Swat4.RStore Std

/-- what `save` stores: the record with `version + 1`, under the record's own address, with update time `now` -/
def stored (svr : Server) : Server := { svr with version := svr.version + 1 }

/-- the state after `save`: only the registry row of the record's address changes (instances, queue, id counter are
untouched); it now holds `stored svr` with update time `now` -/
theorem save_eq (a : AbsState) (now : Int) (svr : Server) :
    a.save now svr = ({ a with servers := a.servers.insert svr.addr.key ⟨stored svr, now⟩ }, stored svr) := rfl

/-- rows after `save`, by key: the saved address holds the new row, every other key is as before -/
theorem save_row (a : AbsState) (now : Int) (svr : Server) (k : Nat) :
    (a.save now svr).1.servers[k]? = if svr.addr.key = k then some ⟨stored svr, now⟩ else a.servers[k]? := by
  rw [save_eq]
  show (a.servers.insert svr.addr.key ⟨stored svr, now⟩)[k]? = _
  simp only [ExtTreeMap.getElem?_insert, compare_eq_iff_eq]

/-- the row of an address at the Redis level, read through the abstraction relation -/
theorem rel_getRow {st : RStore} {a : AbsState} (hrel : Rel st a) (ad : Addr) :
    a.getRow ad = (st.items[ad.key]?).map fun r => (⟨r, (st.updated[ad.key]?).getD 0⟩ : SRow) :=
  hrel.servers ad.key

theorem rel_getRow_none {st : RStore} {a : AbsState} (hrel : Rel st a) (ad : Addr) (h : st.items[ad.key]? = none) :
    a.getRow ad = none := by
  rw [rel_getRow hrel, h]; rfl

theorem rel_getRow_some {st : RStore} {a : AbsState} (hrel : Rel st a) (ad : Addr) (r : Server)
    (h : st.items[ad.key]? = some r) : a.getRow ad = some ⟨r, (st.updated[ad.key]?).getD 0⟩ := by
  rw [rel_getRow hrel, h]; rfl

/-- a stored row read back from a related store: record and `servers:updated` score -/
theorem rel_row_back {st : RStore} {a : AbsState} (hrel : Rel st a) (k : Nat) (row : SRow)
    (h : a.servers[k]? = some row) : st.items[k]? = some row.svr ∧ (st.updated[k]?).getD 0 = row.updatedAt := by
  have h' := hrel.servers k
  rw [h] at h'
  cases hi : st.items[k]? with
  | none => rw [hi] at h'; cases h'
  | some r =>
    rw [hi] at h'
    simp only [Option.map_some, Option.some.injEq] at h'
    subst h'
    exact ⟨rfl, rfl⟩

/-! ## `add` -/

/-- **`add_fresh`** (clause "add stores a new record at version+1"): adding a record whose address has no row stores the
caller's record with `version + 1` (version 1 for a new record, which has version 0) and update time `now` under its
address, leaves every other row alone, consults no resolver, and returns the stored record. -/
theorem add_fresh (a : AbsState) (now : Int) (svr : Server) (res : Resolver) (h : a.getRow svr.addr = none) :
    a.add now svr res = ({ a with servers := a.servers.insert svr.addr.key ⟨stored svr, now⟩ }, .ok (stored svr)) := by
  simp only [AbsState.add, h]; rfl

/-- **`add_refused`** (clause "… or consults the resolver when the address exists (refusal reports 'exists' and changes
nothing)"): adding a record whose address has a row consults the resolver *with the stored record* — whatever the two
versions are: `add` does not compare versions — and when the resolver refuses the call fails with *exists* and the
state is unchanged. -/
theorem add_refused (a : AbsState) (now : Int) (svr : Server) (res : Resolver) (ex : SRow)
    (h : a.getRow svr.addr = some ex) (hres : res ex.svr = none) :
    a.add now svr res = (a, .error .serverExists) := by
  simp only [AbsState.add, h, hres]

/-- **`add_resolved`** (same clause, the resolver accepts): the record *the resolver returned* (not the caller's) is
stored with its version + 1, under the resolved record's own address. -/
theorem add_resolved (a : AbsState) (now : Int) (svr : Server) (res : Resolver) (ex : SRow) (r : Server)
    (h : a.getRow svr.addr = some ex) (hres : res ex.svr = some r) :
    a.add now svr res = ({ a with servers := a.servers.insert r.addr.key ⟨stored r, now⟩ }, .ok (stored r)) := by
  simp only [AbsState.add, h, hres]; rfl

/-! ## `update` -/

/-- **`update_missing`** (clause "update on a missing address reports not-found"): the call fails with *not found*,
nothing is stored (an update never creates a row) and the resolver is not consulted. -/
theorem update_missing (a : AbsState) (now : Int) (svr : Server) (res : Resolver) (h : a.getRow svr.addr = none) :
    a.update now svr res = (a, .error .serverNotFound) := by
  simp only [AbsState.update, h]

/-- **`update_current`** (clause "… and otherwise stores the caller's record at version+1"), with the boundary: when the
stored version is **not newer** than the caller's — equal (the caller read the current record) *or older* (the
specification, like the code, does not reject a caller from the future) — the caller's record is stored at its
`version + 1` with update time `now`, and the resolver is not consulted. -/
theorem update_current (a : AbsState) (now : Int) (svr : Server) (res : Resolver) (ex : SRow)
    (h : a.getRow svr.addr = some ex) (hv : ex.svr.version ≤ svr.version) :
    a.update now svr res = ({ a with servers := a.servers.insert svr.addr.key ⟨stored svr, now⟩ }, .ok (stored svr)) := by
  have hv' : ¬ ex.svr.version > svr.version := by omega
  simp only [AbsState.update, h, hv', if_false]; rfl

/-- the equal-version boundary on its own: an update carrying exactly the stored version commits and the stored version
goes up by one -/
theorem update_equal_version (a : AbsState) (now : Int) (svr : Server) (res : Resolver) (ex : SRow)
    (h : a.getRow svr.addr = some ex) (hv : ex.svr.version = svr.version) :
    (a.update now svr res).2 = .ok (stored svr) ∧
    (a.update now svr res).1.getRow svr.addr = some ⟨stored svr, now⟩ ∧
    (stored svr).version = ex.svr.version + 1 := by
  rw [update_current a now svr res ex h (by omega)]
  refine ⟨rfl, ?_, by simp [stored, hv]⟩
  show (a.servers.insert svr.addr.key ⟨stored svr, now⟩)[svr.addr.key]? = _
  simp

/-- **`update_newer_resolved`** (clause "consults the resolver exactly when the stored version is newer", the resolver
accepts): an update carrying a version older than the stored one hands the *stored record* to the resolver and stores
what the resolver returns at *its* `version + 1` (so one above the stored version when the resolver keeps the version
field), under the resolved record's address; the caller's record is not stored.  (`update_refused` is the other arm:
the resolver refuses ⇒ nothing changes and the stored record is returned without error.) -/
theorem update_newer_resolved (a : AbsState) (now : Int) (svr : Server) (res : Resolver) (ex : SRow) (r : Server)
    (h : a.getRow svr.addr = some ex) (hv : ex.svr.version > svr.version) (hres : res ex.svr = some r) :
    a.update now svr res = ({ a with servers := a.servers.insert r.addr.key ⟨stored r, now⟩ }, .ok (stored r)) := by
  simp only [AbsState.update, h, hv, if_true, hres]; rfl

/-- "exactly when": whether the resolver's answer matters.  If the stored version is not newer, two resolvers give the
same outcome; if it is newer, the outcome is a function of `res` applied to the stored record only. -/
theorem update_resolver_exactly_when_newer (a : AbsState) (now : Int) (svr : Server) (res res' : Resolver) :
    (∀ ex, a.getRow svr.addr = some ex → ex.svr.version > svr.version → res ex.svr = res' ex.svr) →
    a.update now svr res = a.update now svr res' := by
  intro hh
  cases h : a.getRow svr.addr with
  | none => rw [update_missing a now svr res h, update_missing a now svr res' h]
  | some ex =>
    by_cases hv : ex.svr.version > svr.version
    · have e := hh ex h hv
      simp only [AbsState.update, h, hv, if_true, e]
    · rw [update_current a now svr res ex h (by omega), update_current a now svr res' ex h (by omega)]

/-! ## `remove` -/

/-- **`remove_missing`**: removing an address with no row is a no-op that succeeds -/
theorem remove_missing (a : AbsState) (svr : Server) (res : Resolver) (h : a.getRow svr.addr = none) :
    a.remove svr res = (a, .ok ()) := by
  simp only [AbsState.remove, h]

/-- **`remove_current`** (clause "remove deletes …"): when the stored version is not newer than the caller's the row of the
caller's address is erased, the resolver is not consulted, every other row stays -/
theorem remove_current (a : AbsState) (svr : Server) (res : Resolver) (ex : SRow)
    (h : a.getRow svr.addr = some ex) (hv : ex.svr.version ≤ svr.version) :
    a.remove svr res = ({ a with servers := a.servers.erase svr.addr.key }, .ok ()) := by
  have hv' : ¬ ex.svr.version > svr.version := by omega
  simp only [AbsState.remove, h, hv', if_false]

/-- **`remove_defended`** (clause "… unless a newer version is defended by the resolver"): a remove carrying a version
older than the stored one hands the stored record to the resolver; when the resolver refuses (defends the record) the
state is unchanged — the row stays, at its stored version — and the call **still returns success** (nil), not an error:
the caller cannot tell a defended remove from a performed one by the reply. -/
theorem remove_defended (a : AbsState) (svr : Server) (res : Resolver) (ex : SRow)
    (h : a.getRow svr.addr = some ex) (hv : ex.svr.version > svr.version) (hres : res ex.svr = none) :
    a.remove svr res = (a, .ok ()) := by
  simp only [AbsState.remove, h, hv, if_true, hres]

/-- **`remove_newer_resolved`** (same clause, the resolver lets go): the row erased is the one of the *resolved*
record's address (the caller's address for every address-preserving resolver) -/
theorem remove_newer_resolved (a : AbsState) (svr : Server) (res : Resolver) (ex : SRow) (r : Server)
    (h : a.getRow svr.addr = some ex) (hv : ex.svr.version > svr.version) (hres : res ex.svr = some r) :
    a.remove svr res = ({ a with servers := a.servers.erase r.addr.key }, .ok ()) := by
  simp only [AbsState.remove, h, hv, if_true, hres]

/-! ## the same clauses for the Redis-level writer machine

`W st clock op tok fresh` abbreviates the run `write_refines` speaks about: the writer machine of `op` run alone for 16
commands.  Hypotheses are about the *store*; `a` is any specification state related to it (one always exists:
`rel_absServers`). -/

/-- the writer machine run alone (16 commands), as in `write_refines` -/
abbrev W (st : RStore) (clock : Int) (kind : WKind) (svr : Server) (res : Resolver) (tok fresh : Nat) : RStore × Writer :=
  runWriter st clock (Writer.start ⟨kind, svr, res⟩ tok) fresh 16

/-- `add_fresh`, machine: no stored record under the key ⇒ reply `ok (stored svr)`; afterwards `servers:items` holds
`stored svr` and `servers:updated` the clock under that key, and every other key's record and score are as before -/
theorem add_fresh_machine {st : RStore} {a : AbsState} (hrel : Rel st a) (clock : Int) (svr : Server) (res : Resolver)
    (tok fresh : Nat) (hno : st.locks[svr.addr.key]? = none) (h : st.items[svr.addr.key]? = none) :
    (W st clock .add svr res tok fresh).2.pc = .done (.ok (some (stored svr))) ∧
    (W st clock .add svr res tok fresh).1.items[svr.addr.key]? = some (stored svr) ∧
    ((W st clock .add svr res tok fresh).1.updated[svr.addr.key]?).getD 0 = clock ∧
    ∀ k, k ≠ svr.addr.key → (W st clock .add svr res tok fresh).1.items[k]? = st.items[k]? := by
  have hr := add_refines hrel clock svr res tok fresh hno
  rw [add_fresh a clock svr res (rel_getRow_none hrel _ h)] at hr
  obtain ⟨h1, h2⟩ := hr
  have hb := rel_row_back h1 svr.addr.key ⟨stored svr, clock⟩ (by
    show (a.servers.insert svr.addr.key ⟨stored svr, clock⟩)[svr.addr.key]? = _
    simp)
  refine ⟨h2, hb.1, hb.2, fun k hk => ?_⟩
  have e1 := h1.servers k
  have e2 := hrel.servers k
  have e3 : (a.servers.insert svr.addr.key ⟨stored svr, clock⟩)[k]? = a.servers[k]? := by
    simp only [ExtTreeMap.getElem?_insert, compare_eq_iff_eq, if_neg (Ne.symm hk)]
  change (a.servers.insert svr.addr.key ⟨stored svr, clock⟩)[k]? = _ at e1
  rw [e3, e2] at e1
  cases hi : (W st clock .add svr res tok fresh).1.items[k]? with
  | none => rw [hi] at e1; cases hj : st.items[k]? with
    | none => rfl
    | some r => rw [hj] at e1; cases e1
  | some r' => rw [hi] at e1; cases hj : st.items[k]? with
    | none => rw [hj] at e1; cases e1
    | some r =>
      rw [hj] at e1
      simp only [Option.map_some, Option.some.injEq, SRow.mk.injEq] at e1
      rw [e1.1]

/-- `add_refused`, machine: a stored record and a resolver refusing it ⇒ reply *exists*, and the store stands for the
same registry as before -/
theorem add_refused_machine {st : RStore} {a : AbsState} (hrel : Rel st a) (clock : Int) (svr : Server) (res : Resolver)
    (tok fresh : Nat) (hno : st.locks[svr.addr.key]? = none) (r : Server)
    (h : st.items[svr.addr.key]? = some r) (hres : res r = none) :
    (W st clock .add svr res tok fresh).2.pc = .done (.error .exists) ∧ Rel (W st clock .add svr res tok fresh).1 a := by
  have hr := add_refines hrel clock svr res tok fresh hno
  rw [add_refused a clock svr res _ (rel_getRow_some hrel _ r h) hres] at hr
  exact ⟨hr.2.2, hr.1⟩

/-- `update_missing`, machine: no stored record ⇒ reply *not found*, same registry -/
theorem update_missing_machine {st : RStore} {a : AbsState} (hrel : Rel st a) (clock : Int) (svr : Server) (res : Resolver)
    (tok fresh : Nat) (hno : st.locks[svr.addr.key]? = none) (h : st.items[svr.addr.key]? = none) :
    (W st clock .update svr res tok fresh).2.pc = .done (.error .notFound) ∧ Rel (W st clock .update svr res tok fresh).1 a := by
  have hr := update_refines hrel clock svr res tok fresh hno
  rw [update_missing a clock svr res (rel_getRow_none hrel _ h)] at hr
  exact ⟨hr.2.2, hr.1⟩

/-- `update_current`, machine: stored version ≤ caller's (equal included) ⇒ reply `ok (stored svr)` and the key holds the
caller's record at version + 1 with the clock as its update score -/
theorem update_current_machine {st : RStore} {a : AbsState} (hrel : Rel st a) (clock : Int) (svr : Server) (res : Resolver)
    (tok fresh : Nat) (hno : st.locks[svr.addr.key]? = none) (r : Server)
    (h : st.items[svr.addr.key]? = some r) (hv : r.version ≤ svr.version) :
    (W st clock .update svr res tok fresh).2.pc = .done (.ok (some (stored svr))) ∧
    (W st clock .update svr res tok fresh).1.items[svr.addr.key]? = some (stored svr) ∧
    ((W st clock .update svr res tok fresh).1.updated[svr.addr.key]?).getD 0 = clock := by
  have hr := update_refines hrel clock svr res tok fresh hno
  rw [update_current a clock svr res _ (rel_getRow_some hrel _ r h) hv] at hr
  obtain ⟨h1, h2⟩ := hr
  have hb := rel_row_back h1 svr.addr.key ⟨stored svr, clock⟩ (by
    show (a.servers.insert svr.addr.key ⟨stored svr, clock⟩)[svr.addr.key]? = _
    simp)
  exact ⟨h2, hb.1, hb.2⟩

/-- `update_newer_resolved`, machine: stored version newer, resolver returns `r'` for the stored record ⇒ reply
`ok (stored r')`, and `r'`'s key holds `stored r'` -/
theorem update_newer_resolved_machine {st : RStore} {a : AbsState} (hrel : Rel st a) (clock : Int) (svr : Server)
    (res : Resolver) (tok fresh : Nat) (hno : st.locks[svr.addr.key]? = none) (r r' : Server)
    (h : st.items[svr.addr.key]? = some r) (hv : r.version > svr.version) (hres : res r = some r') :
    (W st clock .update svr res tok fresh).2.pc = .done (.ok (some (stored r'))) ∧
    (W st clock .update svr res tok fresh).1.items[r'.addr.key]? = some (stored r') ∧
    ((W st clock .update svr res tok fresh).1.updated[r'.addr.key]?).getD 0 = clock := by
  have hr := update_refines hrel clock svr res tok fresh hno
  rw [update_newer_resolved a clock svr res _ r' (rel_getRow_some hrel _ r h) hv hres] at hr
  obtain ⟨h1, h2⟩ := hr
  have hb := rel_row_back h1 r'.addr.key ⟨stored r', clock⟩ (by
    show (a.servers.insert r'.addr.key ⟨stored r', clock⟩)[r'.addr.key]? = _
    simp)
  exact ⟨h2, hb.1, hb.2⟩

/-- `remove_defended`, machine: stored version newer and the resolver refuses ⇒ reply nil (`ok none`) and the store
stands for the same registry — in particular the record is still there -/
theorem remove_defended_machine {st : RStore} {a : AbsState} (hrel : Rel st a) (clock : Int) (svr : Server)
    (res : Resolver) (tok fresh : Nat) (hno : st.locks[svr.addr.key]? = none) (r : Server)
    (h : st.items[svr.addr.key]? = some r) (hv : r.version > svr.version) (hres : res r = none) :
    (W st clock .remove svr res tok fresh).2.pc = .done (.ok none) ∧
    Rel (W st clock .remove svr res tok fresh).1 a ∧
    (W st clock .remove svr res tok fresh).1.items[svr.addr.key]? = some r := by
  have hr := remove_refines hrel clock svr res tok fresh hno
  have hg := rel_getRow_some hrel _ r h
  rw [remove_defended a svr res _ hg hv hres] at hr
  exact ⟨hr.2.2, hr.1, (rel_row_back hr.1 svr.addr.key _ hg).1⟩

/-- `remove_current`, machine: stored version ≤ caller's ⇒ reply nil and the key has no record any more -/
theorem remove_current_machine {st : RStore} {a : AbsState} (hrel : Rel st a) (clock : Int) (svr : Server)
    (res : Resolver) (tok fresh : Nat) (hno : st.locks[svr.addr.key]? = none) (r : Server)
    (h : st.items[svr.addr.key]? = some r) (hv : r.version ≤ svr.version) :
    (W st clock .remove svr res tok fresh).2.pc = .done (.ok none) ∧
    (W st clock .remove svr res tok fresh).1.items[svr.addr.key]? = none := by
  have hr := remove_refines hrel clock svr res tok fresh hno
  rw [remove_current a svr res _ (rel_getRow_some hrel _ r h) hv] at hr
  refine ⟨hr.2.2, ?_⟩
  have e := hr.1.servers svr.addr.key
  change (a.servers.erase svr.addr.key)[svr.addr.key]? = _ at e
  rw [ExtTreeMap.getElem?_erase_self] at e
  cases hi : (W st clock .remove svr res tok fresh).1.items[svr.addr.key]? with
  | none => rfl
  | some x => rw [hi] at e; cases e

/-! ### non-vacuity: every clause on the concrete one-row registry `demoState` (row: `demoServer` at version 1, t = 5) -/

theorem demoState_row : demoState.getRow demoServer.addr = some ⟨{ demoServer with version := 1 }, 5⟩ := by
  simp [demoState, AbsState.getRow, AbsState.save, demoServer]

def otherServer : Server := { demoServer with addr := ⟨16843010, 10480⟩ }

example : demoState.getRow otherServer.addr = none := by
  simp [demoState, AbsState.getRow, AbsState.save, demoServer, otherServer, Addr.key]

/-- `add_fresh` into the empty registry: version 1 -/
example : (({} : AbsState).add 5 demoServer (fun _ => none)).2 = .ok { demoServer with version := 1 } := by
  rw [add_fresh _ _ _ _ (by simp [AbsState.getRow])]; rfl

/-- `add_refused`, `update_current` at the equal version 1, `update_newer_resolved` for the version-0 caller with the
identity resolver (stored version 1 → 2), `remove_defended` for the version-0 caller -/
example :
    demoState.add 9 demoServer (fun _ => none) = (demoState, .error .serverExists) ∧
    (demoState.update 9 { demoServer with version := 1 } (fun _ => none)).2 = .ok { demoServer with version := 2 } ∧
    (demoState.update 9 demoServer some).2 = .ok { demoServer with version := 2 } ∧
    demoState.remove demoServer (fun _ => none) = (demoState, .ok ()) :=
  ⟨add_refused _ _ _ _ _ demoState_row rfl,
   by rw [update_current demoState 9 { demoServer with version := 1 } (fun _ => none)
        ⟨{ demoServer with version := 1 }, 5⟩ demoState_row (by decide)]; rfl,
   by rw [update_newer_resolved demoState 9 demoServer some ⟨{ demoServer with version := 1 }, 5⟩
        { demoServer with version := 1 } demoState_row (by decide) rfl]; rfl,
   remove_defended _ _ _ _ demoState_row (by decide) rfl⟩

end Swat4.C11

/-! ### non-vacuity, continued: the remaining clauses and the machine corollaries -/
namespace Swat4.C11
open Swat4 Swat4.RStore Std

/-- a resolver that answers with the stored record marked `info` (status bit 2 set) -/
def markRes : Resolver := fun ex => some { ex with status := ex.status ||| 2#9 }

/-- `add_resolved`, `update_missing`, `update_equal_version`, `remove_missing`, `remove_current`, `remove_newer_resolved`
on `demoState` / the absent address of `otherServer`: every hypothesis is satisfiable -/
example :
    (demoState.add 9 demoServer markRes).2 = .ok { demoServer with version := 2, status := 6#9 ||| 2#9 } ∧
    demoState.update 9 otherServer (fun _ => none) = (demoState, .error .serverNotFound) ∧
    (demoState.update 9 { demoServer with version := 1 } (fun _ => none)).2 = .ok { demoServer with version := 2 } ∧
    demoState.remove otherServer (fun _ => none) = (demoState, .ok ()) ∧
    (demoState.remove { demoServer with version := 1 } (fun _ => none)).1.getRow demoServer.addr = none ∧
    (demoState.remove demoServer some).1.getRow demoServer.addr = none := by
  have hother : demoState.getRow otherServer.addr = none := by
    simp [demoState, AbsState.getRow, AbsState.save, demoServer, otherServer, Addr.key]
  refine ⟨?_, update_missing _ _ _ _ hother, ?_, remove_missing _ _ _ hother, ?_, ?_⟩
  · rw [add_resolved demoState 9 demoServer markRes ⟨{ demoServer with version := 1 }, 5⟩
      { demoServer with version := 1, status := 6#9 ||| 2#9 } demoState_row rfl]
    rfl
  · exact (update_equal_version demoState 9 { demoServer with version := 1 } (fun _ => none)
      ⟨{ demoServer with version := 1 }, 5⟩ demoState_row rfl).1
  · rw [remove_current demoState { demoServer with version := 1 } (fun _ => none) ⟨{ demoServer with version := 1 }, 5⟩
      demoState_row (by decide)]
    show (demoState.servers.erase demoServer.addr.key)[demoServer.addr.key]? = none
    simp
  · rw [remove_newer_resolved demoState demoServer some ⟨{ demoServer with version := 1 }, 5⟩ { demoServer with version := 1 }
      demoState_row (by decide) rfl]
    show (demoState.servers.erase demoServer.addr.key)[demoServer.addr.key]? = none
    simp

/-- the keyspace after `Add demoServer` at clock 5 run by the writer machine on the empty keyspace -/
def demoStore : RStore := (W {} 5 .add demoServer (fun _ => none) 0 1).1

/-- it stands for `demoState`, holds no lock cell on the key, and stores the version-1 record (`add_fresh_machine` applies
to the empty keyspace) -/
theorem demoStore_facts :
    Rel demoStore demoState ∧ demoStore.locks[demoServer.addr.key]? = none ∧
    demoStore.items[demoServer.addr.key]? = some (stored demoServer) := by
  have hw := write_refines consistent_empty Swat4.rel_empty 5 ⟨.add, demoServer, fun _ => none⟩ 0 1 (by simp)
  have hf := add_fresh_machine Swat4.rel_empty 5 demoServer (fun _ => none) 0 1 (by simp) (by simp)
  refine ⟨?_, hw.2.2.2.2, hf.2.1⟩
  have h2 := hw.2.1
  have e : (specWrite {} 5 ⟨.add, demoServer, fun _ => none⟩).1 = demoState := by
    rw [(specWrite_add {} 5 demoServer (fun _ => none)).1, add_fresh _ _ _ _ (by simp [AbsState.getRow])]
    rfl
  rw [e] at h2
  exact h2

/-- the machine corollaries' hypotheses are satisfiable on `demoStore`: a second `Add` is refused with *exists*, an
`Update` at the stored version 1 commits version 2, a `Remove` carrying version 0 against a refusing resolver is
defended (reply nil, record still there), an `Update` carrying version 0 with the identity resolver stores version 2 -/
example :
    (W demoStore 9 .add demoServer (fun _ => none) 1 2).2.pc = .done (.error .exists) ∧
    (W demoStore 9 .update (stored demoServer) (fun _ => none) 1 2).2.pc = .done (.ok (some (stored (stored demoServer)))) ∧
    (W demoStore 9 .remove demoServer (fun _ => none) 1 2).1.items[demoServer.addr.key]? = some (stored demoServer) ∧
    (W demoStore 9 .update demoServer some 1 2).2.pc = .done (.ok (some (stored (stored demoServer)))) := by
  obtain ⟨hrel, hno, hit⟩ := demoStore_facts
  exact ⟨(add_refused_machine hrel 9 demoServer _ 1 2 hno _ hit rfl).1,
    (update_current_machine hrel 9 (stored demoServer) _ 1 2 hno _ hit (Int.le_refl _)).1,
    (remove_defended_machine hrel 9 demoServer _ 1 2 hno _ hit (by decide) rfl).2.2,
    (update_newer_resolved_machine hrel 9 demoServer some 1 2 hno _ _ hit (by decide) rfl).1⟩

end Swat4.C11

namespace Swat4.C11
open Swat4 Swat4.RStore Std

/-- … `update_missing_machine` on the empty keyspace, `remove_current_machine` on `demoStore` -/
example :
    (W {} 5 .update demoServer (fun _ => none) 0 1).2.pc = .done (.error .notFound) ∧
    (W demoStore 9 .remove (stored demoServer) (fun _ => none) 1 2).1.items[demoServer.addr.key]? = none := by
  obtain ⟨hrel, hno, hit⟩ := demoStore_facts
  exact ⟨(update_missing_machine Swat4.rel_empty 5 demoServer _ 0 1 (by simp) (by simp)).1,
    (remove_current_machine hrel 9 (stored demoServer) _ 1 2 hno _ hit (Int.le_refl _)).2⟩

end Swat4.C11

/-! # Additions (review round 2): the read arms of the driver's `runCall` are the model's reads -/
namespace Swat4.C11
open Swat4 Swat4.RStore Std

/-- **the driver's reads are the model's reads** (`Drv/StoreRun.lean` `runCall`, arms `get / filter / count / countby`,
which inline `items[k]?`, `hmgetItems ∘ filterKeys`, `items.size` and the per-bit member counts): the reply string of each
read arm is the rendering of `getM`, of the list `filter_eq_pred` speaks about, of `HLEN`, and of `countByM`; the state
is untouched and the crash argument ignored.  So the function the differential run compares with the Go code on reads
is the one `get_refines`, `filter_eq_pred`, `count_refines`, `countByStatus_refines` (and `C11_main`) are stated for. -/
theorem driver_reads_are_model (s : Drv.SeqState) (crash : Drv.Crash) :
    (∀ ad : Addr, Drv.runCall s (.get ad) crash = (s, Drv.renderGet (getM s.st ad), ["0:hget"])) ∧
    (∀ fs : FilterSet, Drv.runCall s (.filter fs) crash =
      (s, s!"ok:{Drv.renderServers (s.st.hmgetItems (s.st.filterKeys fs))}", ["0:pipe"])) ∧
    Drv.runCall s .count crash = (s, s!"ok:{s.st.items.size}", ["0:hlen"]) ∧
    Drv.runCall s .countby crash = (s, Drv.renderCounts (countByM s.st), ["0:exec"]) :=
  ⟨fun ad => Drv.runCall_get s ad crash, fun fs => Drv.runCall_filter s fs crash, Drv.runCall_count s crash,
   Drv.runCall_countby s crash⟩

/-- … hence, on a consistent store related to the specification state `a`, the driver's read replies render the
specification's `get`, a permutation of its `filter` (the rendering then sorts by address key), its `count` and its
per-member `countByStatus` -/
theorem driver_reads_refine {s : Drv.SeqState} {a : AbsState} (hc : Consistent s.st) (hrel : Rel s.st a) (crash : Drv.Crash) :
    (∀ ad : Addr, (Drv.runCall s (.get ad) crash).2.1 = Drv.renderGet (a.get ad)) ∧
    (∀ fs : FilterSet, ∃ l : List Server, l.Perm (a.filter fs) ∧
      (Drv.runCall s (.filter fs) crash).2.1 = s!"ok:{Drv.renderServers l}") ∧
    (Drv.runCall s .count crash).2.1 = s!"ok:{a.count}" ∧
    (Drv.runCall s .countby crash).2.1 = Drv.renderCounts (Status.members.map a.countByStatus) :=
  Drv.runCall_reads_refine hc hrel crash

/-- non-vacuity: the empty driver state is consistent and related to the empty registry; `Get` renders *not found* -/
example : (Drv.runCall ⟨{}, 0, 0⟩ (.get demoServer.addr) .none).2.1 = "err:notfound" := by
  rw [(driver_reads_refine (s := ⟨{}, 0, 0⟩) consistent_empty Swat4.rel_empty .none).1]; rfl

end Swat4.C11

/-! # Additions (review round 3): the driver's listing comparison is order-insensitive, and only that

`Drv.renderServers` (Drv/StoreRun.lean) is what the C11 driver compares listings with: it sorts the records with the
driver-only insertion sort `Drv.sortByKey` and joins their renderings.  `filter_eq_pred` relates the Redis-level `Filter` to
the specification *up to order*; the theorems below say the rendering removes exactly that freedom. -/
namespace Swat4.C11
open Swat4 Swat4.RStore Std

/-- **the driver's sort is a permutation of its input**: no record is dropped, duplicated or altered before rendering -/
theorem sortByKey_perm (xs : List Server) : (Drv.sortByKey xs).Perm xs := Drv.sortByKey_perm xs

/-- … and its result is ascending in the address key -/
theorem sortByKey_sorted (xs : List Server) : (Drv.sortByKey xs).Pairwise fun a b => a.addr.key ≤ b.addr.key :=
  Drv.sortByKey_sorted xs

/-- **for lists with pairwise distinct address keys the result does not depend on the input order** -/
theorem sortByKey_order_independent {xs ys : List Server} (hp : xs.Perm ys) (hd : (xs.map fun s => s.addr.key).Nodup) :
    Drv.sortByKey xs = Drv.sortByKey ys := Drv.sortByKey_order_independent hp hd

/-- … hence neither does the rendered listing the driver compares -/
theorem renderServers_order_independent {xs ys : List Server} (hp : xs.Perm ys) (hd : (xs.map fun s => s.addr.key).Nodup) :
    Drv.renderServers xs = Drv.renderServers ys := Drv.renderServers_order_independent hp hd

/-- the hypothesis "distinct keys" holds for every `Filter` result on a consistent store: `HMGET` over duplicate-free keys
returns records stored under those keys -/
theorem hmget_keys_nodup {st : RStore} (hc : Consistent st) (keys : List Nat) (hn : keys.Nodup) :
    ((st.hmgetItems keys).map fun s => s.addr.key).Nodup := by
  induction keys with
  | nil => exact List.nodup_nil
  | cons k ks ih =>
    rw [List.nodup_cons] at hn
    have hmem : ∀ s ∈ st.hmgetItems ks, s.addr.key ∈ ks := by
      intro s hs
      obtain ⟨k', hk', hs'⟩ := List.mem_filterMap.1 hs
      rw [hc.keyed k' s hs']; exact hk'
    show (((k :: ks).filterMap fun k => st.items[k]?).map fun s => s.addr.key).Nodup
    rw [List.filterMap_cons]
    cases hk : st.items[k]? with
    | none => exact ih hn.2
    | some r =>
      show ((r :: st.hmgetItems ks).map fun s => s.addr.key).Nodup
      rw [List.map_cons, List.nodup_cons]
      refine ⟨?_, ih hn.2⟩
      intro hin
      obtain ⟨s, hs, hsk⟩ := List.mem_map.1 hin
      have : s.addr.key ∈ ks := hmem s hs
      rw [hsk, hc.keyed k r hk] at this
      exact hn.1 this

/-- **what the C11 driver's comparison of a `Filter` item establishes**: on a consistent store standing for specification
state `a`, the rendering of the Redis-level `Filter` (index pipeline + `HMGET`, in whatever order Go's set operations
produce the keys) is *the same string* as the rendering of the specification's `filter` — `filter_eq_pred` (same records up
to order) + order independence of the driver's sort -/
theorem filter_render_eq {st : RStore} {a : AbsState} (hc : Consistent st) (hrel : Rel st a) (fs : FilterSet) :
    Drv.renderServers (st.hmgetItems (st.filterKeys fs)) = Drv.renderServers (a.filter fs) :=
  renderServers_order_independent (filter_eq_pred hc hrel fs) (hmget_keys_nodup hc _ (nodup_filterKeys st fs))

/-- non-vacuity of the hypotheses of `sortByKey_order_independent`: two records with distinct keys in both orders -/
example :
    let a : Server := { addr := ⟨1, 1⟩, queryPort := 1, status := 0#9, info := [], details := ⟨[], [], []⟩, refreshedAt := none, version := 0 }
    let b : Server := { a with addr := ⟨2, 1⟩ }
    Drv.sortByKey [a, b] = Drv.sortByKey [b, a] ∧ Drv.sortByKey [b, a] = [a, b] := by
  decide

/-- … and the hypothesis is needed: two records under one key keep their input order -/
example :
    let a : Server := { addr := ⟨1, 1⟩, queryPort := 1, status := 0#9, info := [], details := ⟨[], [], []⟩, refreshedAt := none, version := 0 }
    let b : Server := { a with version := 1 }
    Drv.sortByKey [a, b] ≠ Drv.sortByKey [b, a] := Drv.sortByKey_same_key_witness

end Swat4.C11
